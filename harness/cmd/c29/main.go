// C29 — collation comparison is a total preorder coherent with hashing.
//
// For every collation that has a sorter (and whose character set has an encoder):
//
//	sweep   single-rune strings (all scalar values in the thorough tier) are sorted with the real
//	        StringType.Compare; the result must be a chain (adjacent and seeded non-adjacent pairs
//	        ordered, Compare(b,a) = -Compare(a,b), Compare(a,a) = 0) and two runes compare equal exactly
//	        when their weight strings (CollationID.WriteWeightString) are equal, in which case their
//	        HashToUint values are equal too; different weight strings with equal hashes are counted as
//	        collisions, never reported.
//	groups  seeded groups of multi-rune strings (variants built from equal-weight runes, prefixes,
//	        ASCII case swaps): antisymmetry, transitivity over all triples, equal ⇔ equal weight
//	        strings ⇒ equal hashes; `_ci` collations equate ASCII case variants; `_bin` collations order
//	        by the code of each character in the collation's character set.
//	SQL     =, <, STRCMP, LIKE without wildcards between two columns, and =, <, LIKE, IN (list)
//	        against literals agree with Compare on the stored values.
package main

import (
	"bytes"
	"context"
	"fmt"
	"sort"
	"strings"

	"github.com/dolthub/go-mysql-server/sql"
	"github.com/dolthub/go-mysql-server/sql/hash"
	"github.com/dolthub/go-mysql-server/sql/types"
	"github.com/dolthub/vitess/go/sqltypes"

	"verif/harness/core"
	"verif/harness/g2lib"
)

type coll struct {
	c       sql.Collation
	name    string
	t       sql.StringType
	ci      bool
	bin     bool
	binary  bool
	pool    []rune
	sibs    map[rune][]rune // runes of the pool with the same weight (only entries with >= 2 members)
	withSib []rune
}

var colls []*coll
var bg = context.Background()

func sign(x int) int {
	if x < 0 {
		return -1
	}
	if x > 0 {
		return 1
	}
	return 0
}

// cmp is the guarded real comparison.
func (c *coll) cmp(a, b string) (res int, err error, p *g2lib.Panic) {
	p = g2lib.Guard(func() { res, err = c.t.Compare(bg, a, b) })
	return sign(res), err, p
}

func (c *coll) ws(s string) (out []byte, err error, p *g2lib.Panic) {
	var buf bytes.Buffer
	p = g2lib.Guard(func() { err = c.c.ID.WriteWeightString(&buf, s) })
	return buf.Bytes(), err, p
}

func (c *coll) hash(s string) (h uint64, err error, p *g2lib.Panic) {
	p = g2lib.Guard(func() { h, err = c.c.ID.HashToUint(s) })
	return
}

func candidateRunes() []rune {
	var out []rune
	add := func(lo, hi rune) {
		for r := lo; r <= hi; r++ {
			out = append(out, r)
		}
	}
	add(0x21, 0x7E)
	add(0xA1, 0xFF)
	add(0x100, 0x17F)
	add(0x386, 0x3CE)
	add(0x400, 0x45F)
	add(0x531, 0x586)
	add(0x10D0, 0x10F0)
	add(0x5D0, 0x5EA)
	add(0x621, 0x64A)
	add(0x300, 0x30F)
	add(0x200B, 0x200D)
	add(0x2010, 0x2015)
	add(0xFF21, 0xFF5A)
	add(0x3041, 0x3050)
	add(0x30A1, 0x30B0)
	add(0x4E00, 0x4E10)
	add(0x1F600, 0x1F604)
	add(0x10400, 0x10404)
	add(0x10428, 0x1042C)
	out = append(out, 0xAD, 0x1E9E, 0x2028, 0xFFFD)
	var f []rune
	for _, r := range out {
		switch r {
		case '\'', '\\', '%', '_', '"', '`':
			continue
		}
		f = append(f, r)
	}
	return f
}

func discover(r *core.Run) {
	it := sql.NewCollationsIterator()
	total, noSorter := 0, 0
	cands := candidateRunes()
	for c, ok := it.Next(); ok; c, ok = it.Next() {
		total++
		if c.Sorter == nil || c.CharacterSet.Encoder() == nil {
			noSorter++
			continue
		}
		t, err := types.CreateString(sqltypes.VarChar, 255, c.ID)
		if err != nil {
			r.Count("collation-type-not-creatable", 1)
			continue
		}
		k := &coll{c: c, name: c.Name, t: t, ci: strings.HasSuffix(c.Name, "_ci"), bin: strings.HasSuffix(c.Name, "_bin") || c.Name == "binary", binary: c.Name == "binary", sibs: map[rune][]rune{}}
		byW := map[string][]rune{}
		for _, ru := range cands {
			if !k.binary {
				if _, ok := g2lib.CodeInCharset(c.CharacterSet, ru); !ok {
					continue
				}
			}
			k.pool = append(k.pool, ru)
			w, err, p := k.ws(string(ru))
			if err == nil && p == nil {
				byW[string(w)] = append(byW[string(w)], ru)
			}
		}
		for _, g := range byW {
			if len(g) >= 2 {
				for _, ru := range g {
					k.sibs[ru] = g
					k.withSib = append(k.withSib, ru)
				}
			}
		}
		sort.Slice(k.withSib, func(i, j int) bool { return k.withSib[i] < k.withSib[j] })
		colls = append(colls, k)
	}
	sort.Slice(colls, func(i, j int) bool { return colls[i].name < colls[j].name })
	r.Extra("collations_total", total)
	r.Extra("collations_without_sorter_skipped", noSorter)
	r.Extra("collations_checked", len(colls))
}

func main() {
	r := core.NewRun("C29", "exploration",
		"one evaluation = one string (sweep) or one ordered pair of strings (groups, SQL) of one collation checked against the preorder / weight-string / hash laws; distinct = (collation, law, outcome class)")
	r.Assume("strings are valid UTF-8 made of characters representable in the collation's character set (the binary collation gets raw bytes)")
	r.Assume("equal hashes with different weight strings are hash collisions: counted, not reported")
	r.Assume("case law is asserted for ASCII letters only; excluded by documented language tailoring: i/I in the Turkish collations; excluded via=domain: t/T in latin7_general_ci (see findings/C29.md)")
	r.Assume("thorough sweep: every scalar value for the utf8mb4/utf16/utf32/binary collations; for character sets that cannot represent supplementary characters (single-byte sets, utf8mb3) the whole BMP plus 1/16 of the supplementary planes")
	r.Assume("SQL layer: no leading/trailing spaces (PAD SPACE is not part of this property), no LIKE metacharacters")
	discover(r)
	r.Floor(len(colls) >= 100, "fewer than 100 collations with a sorter were found")
	sweep(r)
	groups(r)
	sqlLayer(r)
	pinned(r)
	r.Finish()
}

type tally struct {
	counts map[string]int64
	dist   map[string]struct{}
}

func newTally() *tally { return &tally{counts: map[string]int64{}, dist: map[string]struct{}{}} }
func (t *tally) hit(c, class string) {
	t.counts[class]++
	t.dist[c+"|"+class] = struct{}{}
}
func (t *tally) flush(r *core.Run) {
	for k, v := range t.counts {
		r.Count(k, v)
	}
	for k := range t.dist {
		r.Distinct(k)
	}
}

var runeStr []string

var representative = map[string]bool{"utf8mb4_0900_ai_ci": true, "utf8mb4_general_ci": true, "utf8mb4_unicode_ci": true, "utf8mb4_bin": true, "utf8mb4_0900_as_cs": true,
	"latin1_swedish_ci": true, "utf16_unicode_ci": true, "utf8mb3_general_ci": true}

func hx(s string) string { return g2lib.Hex([]byte(s)) }

// sweep: exhaustive (thorough) or sampled (quick) single-rune chain check per collation.
func sweep(r *core.Run) {
	runeStr = make([]string, g2lib.NumScalars)
	for i := range runeStr {
		runeStr[i] = string(g2lib.Scalar(i))
	}
	full := !r.Quick()
	if full {
		r.Exhaustive()
	}
	off := int((r.Seed%64 + 64) % 64)
	r.Parallel("sweep", len(colls), func(ci int) {
		c := colls[ci]
		t := newTally()
		rnd := r.Rand("sweep", ci)
		var idx []int32
		switch {
		case full && (g2lib.IsUnicodeCharset(c.c.CharacterSet) && c.c.CharacterSet.Name() != "utf8mb3" || c.binary):
			idx = make([]int32, g2lib.NumScalars)
			for i := range idx {
				idx[i] = int32(i)
			}
		case full:
			// character sets that cannot represent supplementary characters (single-byte sets, utf8mb3):
			// the whole BMP, and 1/16 of the (unrepresentable, hence out-of-domain) supplementary planes
			for i := 0; i < 0x10000-0x800; i++ {
				idx = append(idx, int32(i))
			}
			for i := 0x10000 - 0x800 + off%16; i < g2lib.NumScalars; i += 16 {
				idx = append(idx, int32(i))
			}
		case representative[c.name]:
			for i := 0; i < 0x10000-0x800; i++ {
				idx = append(idx, int32(i))
			}
			for i := 0x10000 - 0x800 + off; i < g2lib.NumScalars; i += 64 {
				idx = append(idx, int32(i))
			}
		default:
			for i := 0; i < 0x3000; i++ {
				idx = append(idx, int32(i))
			}
			for i := 0x3000 + off; i < g2lib.NumScalars; i += 64 {
				idx = append(idx, int32(i))
			}
		}
		n := len(idx)
		// weight strings and hashes through the real functions
		keys := make([]uint64, g2lib.NumScalars)
		hashes := make([]uint64, g2lib.NumScalars)
		bad := false
		for _, i := range idx {
			s := runeStr[i]
			w, err, p := c.ws(s)
			if p != nil || err != nil {
				r.Violation("weightstring-fails:"+c.name, map[string]any{"collation": c.name, "rune": fmt.Sprintf("U+%04X", g2lib.Scalar(int(i))), "error": fmt.Sprint(err), "panic": p})
				bad = true
				break
			}
			if len(w) > 4 {
				r.Violation("weightstring-of-one-rune-longer-than-4-bytes:"+c.name, map[string]any{"collation": c.name, "rune": fmt.Sprintf("U+%04X", g2lib.Scalar(int(i))), "weights": g2lib.Hex(w)})
				bad = true
				break
			}
			keys[i] = packKey(w)
			h, err, p := c.hash(s)
			if p != nil || err != nil {
				r.Violation("hash-fails:"+c.name, map[string]any{"collation": c.name, "rune": fmt.Sprintf("U+%04X", g2lib.Scalar(int(i))), "error": fmt.Sprint(err), "panic": p})
				bad = true
				break
			}
			hashes[i] = h
		}
		if bad {
			return
		}
		// cheap pre-sort by weight string (only to make the real sort fast when Compare is consistent with it)
		sort.Slice(idx, func(a, b int) bool {
			ka, kb := keys[idx[a]], keys[idx[b]]
			if ka != kb {
				return weightLess(ka, kb)
			}
			return idx[a] < idx[b]
		})
		// the real sort: order is decided by StringType.Compare alone
		failed := false
		sort.SliceStable(idx, func(a, b int) bool {
			res, err, p := c.cmp(runeStr[idx[a]], runeStr[idx[b]])
			if err != nil || p != nil {
				failed = true
			}
			return res < 0
		})
		if failed {
			r.Violation("compare-fails:"+c.name, map[string]any{"collation": c.name, "what": "Compare returned an error or panicked on single-rune strings"})
			return
		}
		check := func(i, j int, adjacent bool) bool {
			a, b := runeStr[idx[i]], runeStr[idx[j]]
			c1, e1, p1 := c.cmp(a, b)
			c2, e2, p2 := c.cmp(b, a)
			wit := map[string]any{"collation": c.name, "a": a, "b": b, "a_hex": hx(a), "b_hex": hx(b), "cmp_ab": c1, "cmp_ba": c2,
				"weights_a": unpackKey(keys[idx[i]]), "weights_b": unpackKey(keys[idx[j]]), "hash_a": hashes[idx[i]], "hash_b": hashes[idx[j]], "positions": []int{i, j}}
			if e1 != nil || e2 != nil || p1 != nil || p2 != nil {
				r.Violation("compare-fails:"+c.name, wit)
				return false
			}
			if c2 != -c1 {
				r.Violation("compare-not-antisymmetric:"+c.name, wit)
				return false
			}
			if c1 > 0 {
				r.Violation("compare-sorted-sequence-not-a-chain:"+c.name, wit)
				return false
			}
			eqW := keys[idx[i]] == keys[idx[j]]
			if (c1 == 0) != eqW {
				if eqW {
					r.Violation("equal-weights-but-compare-unequal:"+c.name, wit)
				} else {
					r.Violation("compare-equal-but-weights-differ:"+c.name, wit)
				}
				return false
			}
			eqH := hashes[idx[i]] == hashes[idx[j]]
			if c1 == 0 && !eqH {
				r.Violation("compare-equal-but-hashes-differ:"+c.name, wit)
				return false
			}
			if c1 != 0 && eqH {
				t.hit(c.name, "sweep:hash-collision(not judged)")
			}
			if c1 == 0 {
				t.hit(c.name, "sweep:equal-pair-of-different-runes")
			} else {
				t.hit(c.name, "sweep:strictly-ordered-pair")
			}
			return true
		}
		okAll := true
		for i := 0; i+1 < n && okAll; i++ {
			okAll = check(i, i+1, true)
		}
		for k := 0; k < n/4 && okAll; k++ {
			i, j := rnd.Intn(n), rnd.Intn(n)
			if i == j {
				continue
			}
			if i > j {
				i, j = j, i
			}
			okAll = check(i, j, false)
		}
		for k := 0; k < n && okAll; k += 7 {
			a := runeStr[idx[k]]
			if c0, e, p := c.cmp(a, a); c0 != 0 || e != nil || p != nil {
				r.Violation("compare-not-reflexive:"+c.name, map[string]any{"collation": c.name, "a": a, "a_hex": hx(a), "cmp": c0})
				okAll = false
			}
		}
		r.Eval(n)
		if okAll {
			t.hit(c.name, "sweep:chain-verified")
		}
		t.flush(r)
	})
	r.Floor(r.Counter("sweep:chain-verified") >= int64(len(colls))*9/10, "sweep: fewer than 90% of the collations produced a verified chain")
	r.Floor(r.Counter("sweep:equal-pair-of-different-runes") > 1000, "sweep: almost no equal pairs of different runes were seen")
	r.Sample(map[string]any{"law": "sweep", "collations": len(colls), "chains_verified": r.Counter("sweep:chain-verified"), "equal_pairs": r.Counter("sweep:equal-pair-of-different-runes"),
		"ordered_pairs": r.Counter("sweep:strictly-ordered-pair"), "hash_collisions": r.Counter("sweep:hash-collision(not judged)")})
}

// packKey packs a weight string of at most 4 bytes into one word (length in the high half).
func packKey(w []byte) uint64 {
	k := uint64(len(w)) << 32
	for i, b := range w {
		k |= uint64(b) << (8 * uint(i))
	}
	return k
}

func unpackKey(k uint64) string {
	n := int(k >> 32)
	b := make([]byte, n)
	for i := range b {
		b[i] = byte(k >> (8 * uint(i)))
	}
	return g2lib.Hex(b)
}

// weightLess orders packed weight strings of single runes (little-endian int32) numerically; used
// only for pre-sorting.
func weightLess(a, b uint64) bool {
	if a>>32 == 4 && b>>32 == 4 {
		return int32(uint32(a)) < int32(uint32(b))
	}
	return a < b
}

func swapASCIICase(s string, skip func(rune) bool) string {
	out := []rune(s)
	for i, ru := range out {
		if skip != nil && skip(ru) {
			continue
		}
		if ru >= 'a' && ru <= 'z' {
			out[i] = ru - 32
		} else if ru >= 'A' && ru <= 'Z' {
			out[i] = ru + 32
		}
	}
	return string(out)
}

// caseSkip: letters whose case variants are documented (or pinned) not to be equal in this collation.
func (c *coll) caseSkip() func(rune) bool {
	switch {
	case strings.Contains(c.name, "turkish") || strings.Contains(c.name, "_tr_"):
		return func(r rune) bool { return r == 'i' || r == 'I' }
	case c.name == "latin7_general_ci":
		return func(r rune) bool { return r == 't' || r == 'T' }
	}
	return nil
}

// refBinCmp orders two strings the way a binary collation of character set cs must.
func refBinCmp(cs sql.CharacterSetID, binary bool, a, b string) (int, bool) {
	if binary {
		return bytes.Compare([]byte(a), []byte(b)), true
	}
	ra, rb := []rune(a), []rune(b)
	for i := 0; i < len(ra) && i < len(rb); i++ {
		ca, ok1 := g2lib.CodeInCharset(cs, ra[i])
		cb, ok2 := g2lib.CodeInCharset(cs, rb[i])
		if !ok1 || !ok2 {
			return 0, false
		}
		if ca != cb {
			if ca < cb {
				return -1, true
			}
			return 1, true
		}
	}
	return sign(len(ra) - len(rb)), true
}

func (c *coll) randString(rnd interface{ Intn(int) int }, maxLen int) string {
	n := rnd.Intn(maxLen + 1)
	var out []rune
	for i := 0; i < n; i++ {
		switch {
		case len(c.withSib) > 0 && rnd.Intn(2) == 0:
			out = append(out, c.withSib[rnd.Intn(len(c.withSib))])
		case rnd.Intn(3) == 0:
			out = append(out, rune("abcxyzABCXYZitIT019"[rnd.Intn(19)]))
		default:
			out = append(out, c.pool[rnd.Intn(len(c.pool))])
		}
	}
	return string(out)
}

func (c *coll) variant(rnd interface{ Intn(int) int }, s string) string {
	out := []rune(s)
	for i, ru := range out {
		if g, ok := c.sibs[ru]; ok && rnd.Intn(2) == 0 {
			out[i] = g[rnd.Intn(len(g))]
		}
	}
	return string(out)
}

// checkGroup applies the pairwise and triple laws to a group of strings; returns the comparison matrix.
func checkGroup(r *core.Run, t *tally, c *coll, strs []string, where string) ([][]int, bool) {
	n := len(strs)
	m := make([][]int, n)
	ws := make([]string, n)
	hs := make([]uint64, n)
	hs2 := make([]uint64, n)
	sqlCtx := sql.NewEmptyContext()
	for i, s := range strs {
		w, err, p := c.ws(s)
		if err != nil || p != nil {
			r.Violation("weightstring-fails:"+c.name, map[string]any{"collation": c.name, "s": s, "s_hex": hx(s), "error": fmt.Sprint(err), "panic": p, "where": where})
			return nil, false
		}
		ws[i] = string(w)
		h, err, p := c.hash(s)
		if err != nil || p != nil {
			r.Violation("hash-fails:"+c.name, map[string]any{"collation": c.name, "s": s, "s_hex": hx(s), "error": fmt.Sprint(err), "panic": p, "where": where})
			return nil, false
		}
		hs[i] = h
		// the engine-level entry point used by hash joins, IN, DISTINCT: sql/hash.HashOfSimple
		var h2 uint64
		var herr error
		if p := g2lib.Guard(func() { h2, _, herr = hash.HashOfSimple(sqlCtx, s, c.t) }); p != nil || herr != nil {
			r.Violation("hashofsimple-fails:"+c.name, map[string]any{"collation": c.name, "s": s, "s_hex": hx(s), "error": fmt.Sprint(herr), "panic": p, "where": where})
			return nil, false
		}
		hs2[i] = h2
	}
	for i := range strs {
		m[i] = make([]int, n)
		for j := range strs {
			res, err, p := c.cmp(strs[i], strs[j])
			if err != nil || p != nil {
				r.Violation("compare-fails:"+c.name, map[string]any{"collation": c.name, "a": strs[i], "b": strs[j], "a_hex": hx(strs[i]), "b_hex": hx(strs[j]), "error": fmt.Sprint(err), "panic": p, "where": where})
				return nil, false
			}
			m[i][j] = res
		}
	}
	ok := true
	for i := 0; i < n; i++ {
		for j := 0; j < n; j++ {
			wit := func() map[string]any {
				return map[string]any{"collation": c.name, "a": strs[i], "b": strs[j], "a_hex": hx(strs[i]), "b_hex": hx(strs[j]), "cmp_ab": m[i][j], "cmp_ba": m[j][i],
					"weights_a": hx(ws[i]), "weights_b": hx(ws[j]), "hash_a": hs[i], "hash_b": hs[j], "where": where}
			}
			r.Eval(1)
			switch {
			case i == j && m[i][j] != 0:
				r.Violation("compare-not-reflexive:"+c.name, wit())
				ok = false
			case m[i][j] != -m[j][i]:
				r.Violation("compare-not-antisymmetric:"+c.name, wit())
				ok = false
			case (m[i][j] == 0) != (ws[i] == ws[j]):
				if ws[i] == ws[j] {
					r.Violation("equal-weights-but-compare-unequal:"+c.name, wit())
				} else {
					r.Violation("compare-equal-but-weights-differ:"+c.name, wit())
				}
				ok = false
			case m[i][j] == 0 && hs[i] != hs[j]:
				r.Violation("compare-equal-but-hashes-differ:"+c.name, wit())
				ok = false
			case m[i][j] == 0 && hs2[i] != hs2[j]:
				w := wit()
				w["hashofsimple_a"], w["hashofsimple_b"] = hs2[i], hs2[j]
				r.Violation("compare-equal-but-hashofsimple-differs:"+c.name, w)
				ok = false
			case m[i][j] != 0 && hs[i] == hs[j]:
				t.hit(c.name, "groups:hash-collision(not judged)")
			case m[i][j] == 0 && strs[i] != strs[j]:
				t.hit(c.name, "groups:equal-but-different-bytes")
			case m[i][j] != 0:
				t.hit(c.name, "groups:ordered")
			}
			if c.bin && i != j {
				if want, known := refBinCmp(c.c.CharacterSet, c.binary, strs[i], strs[j]); known {
					if want != m[i][j] {
						w := wit()
						w["expected_by_code_order"] = want
						r.Violation("bin-collation-not-in-code-order:"+c.name, w)
						ok = false
					} else {
						t.hit(c.name, "groups:bin-order-ok")
					}
				}
			}
		}
	}
	if !ok {
		return m, false
	}
	for i := 0; i < n; i++ {
		for j := 0; j < n; j++ {
			for k := 0; k < n; k++ {
				if m[i][j] <= 0 && m[j][k] <= 0 {
					bad := m[i][k] > 0 || ((m[i][j] < 0 || m[j][k] < 0) && m[i][k] == 0)
					if bad {
						r.Violation("compare-not-transitive:"+c.name, map[string]any{"collation": c.name, "a": strs[i], "b": strs[j], "c": strs[k],
							"a_hex": hx(strs[i]), "b_hex": hx(strs[j]), "c_hex": hx(strs[k]), "cmp_ab": m[i][j], "cmp_bc": m[j][k], "cmp_ac": m[i][k], "where": where})
						return m, false
					}
				}
			}
		}
	}
	t.hit(c.name, "groups:transitive-group")
	return m, true
}

func makeGroup(c *coll, rnd interface{ Intn(int) int }, maxLen int) []string {
	s0 := c.randString(rnd, maxLen)
	strs := []string{s0, c.variant(rnd, s0)}
	if rs := []rune(s0); len(rs) > 0 && rnd.Intn(2) == 0 {
		strs = append(strs, string(rs[:rnd.Intn(len(rs))]))
	} else {
		strs = append(strs, s0+string(c.pool[rnd.Intn(len(c.pool))]))
	}
	strs = append(strs, swapASCIICase(c.variant(rnd, s0), nil))
	strs = append(strs, c.randString(rnd, maxLen))
	strs = append(strs, c.variant(rnd, strs[2]))
	return strs
}

func groups(r *core.Run) {
	n := r.N(40000, 1500000)
	per := 250
	r.Parallel("groups", (n+per-1)/per, func(w int) {
		t := newTally()
		rnd := r.Rand("groups", w)
		for k := 0; k < per; k++ {
			c := colls[(w*per+k)%len(colls)]
			strs := makeGroup(c, rnd, 5)
			if _, ok := checkGroup(r, t, c, strs, "api"); !ok {
				continue
			}
			// case law
			if c.ci {
				s := c.randString(rnd, 6)
				sw := swapASCIICase(s, c.caseSkip())
				if sw != s {
					r.Eval(1)
					res, err, p := c.cmp(s, sw)
					h1, _, _ := c.hash(s)
					h2, _, _ := c.hash(sw)
					if err != nil || p != nil || res != 0 || h1 != h2 {
						r.Violation("ci-collation-distinguishes-ascii-case:"+c.name, map[string]any{"collation": c.name, "a": s, "b": sw, "a_hex": hx(s), "b_hex": hx(sw), "cmp": res, "hash_a": h1, "hash_b": h2, "error": fmt.Sprint(err)})
					} else {
						t.hit(c.name, "groups:ci-case-variants-equal")
					}
				}
			}
		}
		t.flush(r)
	})
	if len(colls) > 0 {
		c := colls[0]
		g := makeGroup(c, r.Rand("groups-sample", 0), 5)
		r.Sample(map[string]any{"law": "groups", "collation": c.name, "strings": g})
	}
	r.Floor(r.Counter("groups:equal-but-different-bytes") > 1000, "groups: almost no equal-but-different strings were generated")
	r.Floor(r.Counter("groups:ci-case-variants-equal") > 1000, "groups: the case law was not exercised")
	r.Floor(r.Counter("groups:bin-order-ok") > 1000, "groups: the binary-order law was not exercised")
}

