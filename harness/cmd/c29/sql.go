package main

import (
	"fmt"
	"sort"
	"strings"

	"verif/harness/core"
	"verif/harness/g2lib"
)

// sigInIgnoresCollation is known finding F5: `col IN (literal list)` compares bytes, not the column
// collation. The matcher accepts exactly: the rows returned are the rows byte-equal to a literal.
const sigInIgnoresCollation = "sql-in-list-compares-bytes-instead-of-column-collation"

func sqlLit(s string) string { return "'" + s + "'" }

// sqlSafe: the string can be written as a plain literal and is not touched by PAD SPACE or LIKE syntax.
func sqlSafe(s string) bool {
	for _, ru := range s {
		if ru < 0x21 || ru == 0x7F || ru == '\'' || ru == '\\' || ru == '%' || ru == '_' || ru == 0xAD || ru == 0x2028 || ru == 0xFFFD || (ru >= 0x80 && ru < 0xA1) {
			return false
		}
	}
	return true
}

func sqlLayer(r *core.Run) {
	var cands []*coll
	for _, c := range colls {
		if !c.binary {
			cands = append(cands, c)
		}
	}
	n := r.N(480, 12000)
	const workers = 16
	r.Parallel("sql", workers, func(w int) {
		e := core.NewEng("d")
		defer e.Close()
		s := e.NewSess()
		t := newTally()
		for i := w; i < n; i += workers {
			rnd := r.Rand("sql", i)
			c := cands[i%len(cands)]
			var strs []string
			seen := map[string]bool{}
			for tries := 0; len(strs) < 7 && tries < 60; tries++ {
				for _, x := range makeGroup(c, rnd, 4) {
					if sqlSafe(x) && !seen[x] && len(strs) < 7 {
						seen[x] = true
						strs = append(strs, x)
					}
				}
			}
			if len(strs) < 3 {
				r.Inconclusive("no-sql-safe-strings")
				continue
			}
			m, ok := checkGroup(r, t, c, strs, "sql-case")
			if !ok {
				continue
			}
			tbl := fmt.Sprintf("t%d", i)
			ddl := fmt.Sprintf("CREATE TABLE %s (id INT PRIMARY KEY, s VARCHAR(32) CHARACTER SET %s COLLATE %s)", tbl, c.c.CharacterSet.Name(), c.name)
			if res := s.Exec(ddl); res.Failed() {
				if res.Panic != nil {
					r.Violation(g2lib.CorePanicSig(res.Panic), map[string]any{"sql": ddl, "panic": res.Panic.Value})
				} else {
					r.Inconclusive("create-table-rejected")
				}
				continue
			}
			var vals []string
			for k, x := range strs {
				vals = append(vals, fmt.Sprintf("(%d, %s)", k, sqlLit(x)))
			}
			ins := fmt.Sprintf("INSERT INTO %s VALUES %s", tbl, strings.Join(vals, ", "))
			if res := s.Exec(ins); res.Failed() {
				if res.Panic != nil {
					r.Violation(g2lib.CorePanicSig(res.Panic), map[string]any{"sql": ins, "panic": res.Panic.Value})
				} else {
					r.Inconclusive("insert-rejected")
				}
				s.Exec("DROP TABLE " + tbl)
				continue
			}
			setup := []string{ddl, ins}
			pairQuery(r, t, s, c, tbl, strs, m, setup)
			literalQueries(r, t, s, c, tbl, strs, rnd, setup)
			s.Exec("DROP TABLE " + tbl)
		}
		t.flush(r)
	})
	r.Floor(r.Counter("sql:pair-agrees") > 1000, "SQL layer: column/column comparisons were not evaluated")
	r.Floor(r.Counter("sql:literal-filter-agrees") > 100, "SQL layer: column/literal filters were not evaluated")
}

func b2i(b bool) string {
	if b {
		return "1"
	}
	return "0"
}

// pairQuery: every ordered pair of stored values through =, <, STRCMP and LIKE.
func pairQuery(r *core.Run, t *tally, s *core.Sess, c *coll, tbl string, strs []string, m [][]int, setup []string) {
	q := fmt.Sprintf("SELECT a.id, b.id, a.s = b.s, a.s < b.s, a.s >= b.s, STRCMP(a.s, b.s), a.s LIKE b.s, a.s <=> b.s FROM %s a CROSS JOIN %s b ORDER BY 1, 2", tbl, tbl)
	res := s.Exec(q)
	if res.TimedOut {
		r.Inconclusive("timeout")
		return
	}
	if res.Panic != nil {
		r.Violation(g2lib.CorePanicSig(res.Panic), map[string]any{"setup": setup, "sql": q, "panic": res.Panic.Value})
		return
	}
	if res.Err != nil || len(res.Rows) != len(strs)*len(strs) {
		r.Violation("sql-pair-query-fails:"+c.name, map[string]any{"setup": setup, "sql": q, "error": fmt.Sprint(res.Err), "rows": len(res.Rows)})
		return
	}
	for _, row := range res.Rows {
		var i, j int
		fmt.Sscan(core.Canon(row[0]), &i)
		fmt.Sscan(core.Canon(row[1]), &j)
		cmp := m[i][j]
		want := []string{b2i(cmp == 0), b2i(cmp < 0), b2i(cmp >= 0), fmt.Sprint(cmp), b2i(cmp == 0), b2i(cmp == 0)}
		names := []string{"=", "<", ">=", "STRCMP", "LIKE", "<=>"}
		r.Eval(1)
		okRow := true
		for k := range want {
			got := core.Canon(row[2+k])
			if got != want[k] {
				okRow = false
				r.Violation("sql-operator-disagrees-with-compare:"+names[k]+":"+c.name, map[string]any{"setup": setup, "sql": q, "collation": c.name, "a": strs[i], "b": strs[j],
					"a_hex": hx(strs[i]), "b_hex": hx(strs[j]), "compare": cmp, "operator": names[k], "engine": got, "expected": want[k]})
			}
		}
		if okRow {
			t.hit(c.name, "sql:pair-agrees")
			if cmp == 0 && strs[i] != strs[j] {
				t.hit(c.name, "sql:pair-equal-different-bytes")
			}
		}
	}
}

func ids(res *core.Result) []int {
	var out []int
	for _, row := range res.Rows {
		var i int
		fmt.Sscan(core.Canon(row[0]), &i)
		out = append(out, i)
	}
	sort.Ints(out)
	return out
}

func sameInts(a, b []int) bool {
	if len(a) != len(b) {
		return false
	}
	for i := range a {
		if a[i] != b[i] {
			return false
		}
	}
	return true
}

// literalQueries: filters of the column against literals.
func literalQueries(r *core.Run, t *tally, s *core.Sess, c *coll, tbl string, strs []string, rnd interface{ Intn(int) int }, setup []string) {
	pick := func() string {
		x := strs[rnd.Intn(len(strs))]
		if rnd.Intn(2) == 0 {
			if v := c.variant(rnd, x); sqlSafe(v) {
				x = v
			}
		}
		if rnd.Intn(3) == 0 {
			if v := swapASCIICase(x, nil); sqlSafe(v) {
				x = v
			}
		}
		return x
	}
	expect := func(pred func(cmp int) bool, lits ...string) ([]int, bool) {
		var out []int
		for k, x := range strs {
			hit := false
			for _, l := range lits {
				res, err, p := c.cmp(x, l)
				if err != nil || p != nil {
					return nil, false
				}
				if pred(res) {
					hit = true
				}
			}
			if hit {
				out = append(out, k)
			}
		}
		return out, true
	}
	run := func(q string) (*core.Result, bool) {
		res := s.Exec(q)
		if res.TimedOut {
			r.Inconclusive("timeout")
			return res, false
		}
		if res.Panic != nil {
			r.Violation(g2lib.CorePanicSig(res.Panic), map[string]any{"setup": setup, "sql": q, "panic": res.Panic.Value})
			return res, false
		}
		if res.Err != nil {
			r.Violation("sql-literal-query-fails:"+c.name, map[string]any{"setup": setup, "sql": q, "error": res.Err.Error()})
			return res, false
		}
		return res, true
	}
	l1, l2, l3 := pick(), pick(), pick()
	type filt struct {
		name, where string
		pred        func(int) bool
		lits        []string
	}
	eq := func(c int) bool { return c == 0 }
	filters := []filt{
		{"=", "s = " + sqlLit(l1), eq, []string{l1}},
		{"<", "s < " + sqlLit(l1), func(c int) bool { return c < 0 }, []string{l1}},
		{">=", "s >= " + sqlLit(l1), func(c int) bool { return c >= 0 }, []string{l1}},
		{"LIKE", "s LIKE " + sqlLit(l1), eq, []string{l1}},
		{"IN1", "s IN (" + sqlLit(l1) + ")", eq, []string{l1}},
		{"IN3", "s IN (" + sqlLit(l1) + ", " + sqlLit(l2) + ", " + sqlLit(l3) + ")", eq, []string{l1, l2, l3}},
	}
	for _, f := range filters {
		want, ok := expect(f.pred, f.lits...)
		if !ok {
			continue
		}
		q := fmt.Sprintf("SELECT id FROM %s WHERE %s", tbl, f.where)
		res, ok := run(q)
		if !ok {
			continue
		}
		r.Eval(1)
		got := ids(res)
		wit := map[string]any{"setup": setup, "sql": q, "collation": c.name, "stored": strs, "literals": f.lits, "expected_ids": want, "engine_ids": got}
		if sameInts(got, want) {
			t.hit(c.name, "sql:literal-filter-agrees")
			t.hit(c.name, "sql:literal-filter-agrees:"+f.name)
			continue
		}
		if strings.HasPrefix(f.name, "IN") {
			// known: IN (list) compares bytes
			var byBytes []int
			for k, x := range strs {
				for _, l := range f.lits {
					if x == l {
						byBytes = append(byBytes, k)
						break
					}
				}
			}
			if sameInts(got, byBytes) {
				r.Violation(sigInIgnoresCollation, wit)
				t.hit(c.name, "sql:in-list-known-bytes-comparison")
				continue
			}
		}
		r.Violation("sql-filter-disagrees-with-compare:"+f.name+":"+c.name, wit)
	}
}

// pinned replays the witnesses of the known findings.
func pinned(r *core.Run) {
	e := core.NewEng("d")
	defer e.Close()
	s := e.NewSess()
	s.MustExec("CREATE TABLE pin (id INT PRIMARY KEY, s VARCHAR(20) COLLATE utf8mb4_0900_ai_ci)")
	s.MustExec("INSERT INTO pin VALUES (1,'a'),(2,'A'),(3,'b')")
	res := s.Exec("SELECT id FROM pin WHERE s IN ('A','B')")
	eqr := s.Exec("SELECT id FROM pin WHERE s = 'A' OR s = 'B'")
	if res.Panic != nil {
		r.Violation(g2lib.CorePanicSig(res.Panic), map[string]any{"sql": "SELECT id FROM pin WHERE s IN ('A','B')", "panic": res.Panic.Value})
		return
	}
	got, want := ids(res), ids(eqr)
	r.Pinned(sigInIgnoresCollation, fmt.Sprintf("s IN ('A','B') on a utf8mb4_0900_ai_ci column holding a,A,b returns ids %v; s='A' OR s='B' returns %v", got, want),
		!res.Failed() && sameInts(got, []int{2}), map[string]any{"sql": "SELECT id FROM pin WHERE s IN ('A','B')", "engine_ids": got, "expected_ids": []int{1, 2, 3}})
	if res.Failed() || (!sameInts(got, []int{2}) && !sameInts(got, []int{1, 2, 3})) {
		r.Violation("sql-filter-disagrees-with-compare:IN:utf8mb4_0900_ai_ci", map[string]any{"sql": "SELECT id FROM pin WHERE s IN ('A','B')", "engine_ids": got, "error": fmt.Sprint(res.Err)})
	}
	// latin7_general_ci t/T (domain exclusion, see findings/C29.md): replayed for the record
	for _, c := range colls {
		if c.name == "latin7_general_ci" {
			res, _, _ := c.cmp("t", "T")
			r.Count("pinned:latin7_general_ci-t-vs-T-compare", int64(res))
			r.Pinned("ci-collation-distinguishes-ascii-case:latin7_general_ci:t/T", "latin7_general_ci gives 't' and 'T' different weights (182, 183)", res != 0,
				map[string]any{"collation": c.name, "a": "t", "b": "T", "cmp": res})
		}
	}
}
