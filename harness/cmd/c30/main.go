// C30 — character set conversion round-trips and never crashes.
//
// Laws, per character set that has an encoder (sql.CharacterSetID.Encoder() != nil):
//
//	rune sweep   for every Unicode scalar value r (exhaustive): Encode(r) must not panic; when it
//	             reports ok the bytes must be a correct encoding under the reference and
//	             Decode(bytes) = r; it reports "unrepresentable" exactly when the reference says so;
//	             EncodeReplaceUnknown(r) = the encoding when representable, "?" otherwise;
//	             EncodeRune agrees with Encode.
//	strings      seeded multi-rune strings mixing representable and unrepresentable runes: same laws
//	             rune by rune (concatenation), round trip through Decode.
//	byte sweep   every byte string of length 1–2 (exhaustive) and seeded longer ones: Decode must not
//	             panic; when ok with result u then Encode(u) is ok and Decode(Encode(u)) = u.
//	malformed    seeded non-UTF-8 input to Encode / EncodeReplaceUnknown / EncodeRune / DecodeRune /
//	             Uppercase / Lowercase: no panic.
//	SQL          CONVERT(CONVERT(s USING cs) USING utf8mb4) = s, HEX(CONVERT(s USING cs)) = API bytes,
//	             CAST(_cs X'..' AS BINARY) round trip, string functions over converted / malformed
//	             input never panic.
//
// References: standard UTF-8/16/32 for the Unicode character sets; for the table-driven single-byte
// sets the repertoire is the image of Decode over the 256 bytes (decode and encode tables are
// separate data, so this is the round-trip law itself).
package main

import (
	"fmt"
	"sort"
	"unicode/utf8"

	"github.com/dolthub/go-mysql-server/sql"

	"verif/harness/core"
	"verif/harness/g2lib"
)

// f16Sig is the signature of known finding F16: RangeMap.Encode slices past the end of its input
// when an unencodable sequence sits in the last bytes of the input.
const f16Sig = "panic:sql/encodings.(*RangeMap).Encode:slice-bounds-out-of-range-with-capacity"

// encodePanicSig narrows a panic signature by the input class: the known class is "input that holds
// an unrepresentable or malformed sequence"; the same panic on clean input is a different failure.
func encodePanicSig(p *g2lib.Panic, inputClean bool) string {
	s := p.Sig()
	if s == f16Sig && inputClean {
		return s + ":on-representable-input"
	}
	return s
}

var charsets []*charset
var skipped []string

func discover(r *core.Run) {
	it := sql.NewCharacterSetsIterator()
	for cs, ok := it.Next(); ok; cs, ok = it.Next() {
		if cs.Encoder == nil {
			skipped = append(skipped, cs.Name)
			continue
		}
		c := &charset{id: cs.ID, name: cs.Name, kind: kindOf(cs), enc: cs.ID.Encoder()}
		if c.kind == "table" {
			if p := c.buildTable(); p != nil {
				r.Violation(p.Sig()+":decode-one-byte", map[string]any{"charset": c.name, "panic": p.Value})
			}
		}
		charsets = append(charsets, c)
	}
	sort.Slice(charsets, func(i, j int) bool { return charsets[i].name < charsets[j].name })
	sort.Strings(skipped)
	names := []string{}
	for _, c := range charsets {
		names = append(names, c.name+"("+c.kind+")")
	}
	r.Extra("charsets_with_encoder", names)
	r.Extra("charsets_without_encoder_skipped", skipped)
}

func main() {
	r := core.NewRun("C30", "exploration",
		"one evaluation = one (character set, input) instance checked against all conversion laws; distinct = (character set, law, outcome class); rune and 1–2-byte sweeps are exhaustive in the thorough tier")
	r.Assume("inputs are handed to the encoders with capacity == length, as the engine does (encodings.StringToBytes); spare capacity would let RangeMap.Encode read past the input instead of panicking")
	r.Assume("repertoire of the table-driven single-byte character sets = image of Decode over the 256 one-byte strings")
	r.Assume("Decode accepting a non-canonical byte string (Encode(Decode(b)) != b) is counted, not judged")
	discover(r)
	r.Floor(len(charsets) >= 5, "fewer than 5 character sets with an encoder were found")

	runeSweep(r)
	stringCases(r)
	byteSweep(r)
	malformed(r)
	sqlLayer(r)
	pinned(r)
	r.Finish()
}

type tally struct {
	counts map[string]int64
	dist   map[string]struct{}
}

func newTally() *tally { return &tally{counts: map[string]int64{}, dist: map[string]struct{}{}} }
func (t *tally) hit(cs, class string) {
	t.counts[class]++
	t.dist[cs+"|"+class] = struct{}{}
}
func (t *tally) flush(r *core.Run) {
	for k, v := range t.counts {
		r.Count(k, v)
	}
	for k := range t.dist {
		r.Distinct(k)
	}
}

func uplus(r rune) string { return fmt.Sprintf("U+%04X", r) }

// checkRune applies the single-rune laws. Returns nothing; records into r and t.
func checkRune(r *core.Run, t *tally, c *charset, ru rune) {
	in := exact([]byte(string(ru)))
	want, representable, known := c.refEncode(ru)
	wit := func(extra map[string]any) map[string]any {
		m := map[string]any{"charset": c.name, "rune": uplus(ru), "input_hex": g2lib.Hex(in), "reference_representable": representable, "reference_bytes": g2lib.Hex(want)}
		for k, v := range extra {
			m[k] = v
		}
		return m
	}
	var enc []byte
	var ok bool
	p := g2lib.Guard(func() { enc, ok = c.enc.Encode(in) })
	switch {
	case p != nil:
		sig := encodePanicSig(p, !known || representable)
		r.Violation(sig, wit(map[string]any{"call": "Encode", "panic": p.Value}))
		t.hit(c.name, "rune:encode-panic")
	case ok:
		enc = append([]byte{}, enc...)
		if known && !representable {
			r.Violation("encode-accepts-unrepresentable:"+c.name, wit(map[string]any{"encode_bytes": g2lib.Hex(enc)}))
		} else if !c.acceptable(ru, enc) {
			r.Violation("encode-wrong-bytes:"+c.name, wit(map[string]any{"encode_bytes": g2lib.Hex(enc)}))
		}
		var dec []byte
		var dok bool
		if p2 := g2lib.Guard(func() { dec, dok = c.enc.Decode(exact(enc)) }); p2 != nil {
			r.Violation(p2.Sig()+":decode-of-encoded", wit(map[string]any{"encode_bytes": g2lib.Hex(enc), "panic": p2.Value}))
		} else if !dok || string(dec) != string(in) {
			r.Violation("roundtrip-mismatch:"+c.name, wit(map[string]any{"encode_bytes": g2lib.Hex(enc), "decode_ok": dok, "decode_hex": g2lib.Hex(dec)}))
		} else {
			t.hit(c.name, "rune:roundtrip-ok")
		}
		// EncodeRune must agree with Encode on a single rune
		var er []byte
		var eok bool
		if p3 := g2lib.Guard(func() { er, eok = c.enc.EncodeRune(in) }); p3 != nil {
			r.Violation(p3.Sig()+":encoderune", wit(map[string]any{"panic": p3.Value}))
		} else if !eok || string(er) != string(enc) {
			r.Violation("encoderune-disagrees-with-encode:"+c.name, wit(map[string]any{"encode_bytes": g2lib.Hex(enc), "encoderune_ok": eok, "encoderune_bytes": g2lib.Hex(er)}))
		}
	default:
		if known && representable {
			r.Violation("encode-rejects-representable:"+c.name, wit(nil))
		} else {
			t.hit(c.name, "rune:unrepresentable-reported")
		}
	}
	// EncodeReplaceUnknown
	var rep []byte
	if p4 := g2lib.Guard(func() { rep = c.enc.EncodeReplaceUnknown(in) }); p4 != nil {
		r.Violation(p4.Sig(), wit(map[string]any{"call": "EncodeReplaceUnknown", "panic": p4.Value}))
		return
	}
	switch {
	case known && representable:
		if !c.acceptable(ru, rep) {
			r.Violation("replaceunknown-wrong-bytes:"+c.name, wit(map[string]any{"replace_bytes": g2lib.Hex(rep)}))
		}
	case known && !representable:
		if string(rep) != "?" {
			r.Violation("replaceunknown-not-questionmark:"+c.name, wit(map[string]any{"replace_bytes": g2lib.Hex(rep)}))
		} else {
			t.hit(c.name, "rune:replaced-by-?")
		}
	default: // generic: consistent with Encode's own report
		if p == nil && ok && string(rep) != string(enc) {
			r.Violation("replaceunknown-differs-from-encode:"+c.name, wit(map[string]any{"replace_bytes": g2lib.Hex(rep), "encode_bytes": g2lib.Hex(enc)}))
		} else if p == nil && !ok && string(rep) != "?" {
			r.Violation("replaceunknown-not-questionmark:"+c.name, wit(map[string]any{"replace_bytes": g2lib.Hex(rep)}))
		}
	}
}

const chunk = 0x1000

func runeSweep(r *core.Run) {
	type job struct {
		c      *charset
		lo, hi int // scalar indexes
		stride int
	}
	var jobs []job
	full := !r.Quick()
	// quick: the whole BMP plus the first supplementary plane for every character set, and a 1/16 stride
	// sample (seed-shifted) of the rest; thorough: everything.
	limitFull := 0x20000 - 0x800
	for _, c := range charsets {
		for lo := 0; lo < g2lib.NumScalars; lo += chunk {
			hi := lo + chunk
			if hi > g2lib.NumScalars {
				hi = g2lib.NumScalars
			}
			st := 1
			if !full && lo >= limitFull {
				st = 16
			}
			jobs = append(jobs, job{c, lo, hi, st})
		}
	}
	if full {
		r.Exhaustive()
	}
	off := int(r.Seed%16+16) % 16
	r.Parallel("runes", len(jobs), func(i int) {
		j := jobs[i]
		t := newTally()
		n := 0
		start := j.lo
		if j.stride > 1 {
			start += off
		}
		for k := start; k < j.hi; k += j.stride {
			checkRune(r, t, j.c, g2lib.Scalar(k))
			n++
		}
		r.Eval(n)
		t.flush(r)
	})
	r.Floor(r.Counter("rune:roundtrip-ok") >= int64(128*len(charsets)), "rune sweep: fewer than 128 round trips per character set")
	r.Sample(map[string]any{"law": "rune sweep", "roundtrip_ok": r.Counter("rune:roundtrip-ok"), "unrepresentable_reported": r.Counter("rune:unrepresentable-reported"),
		"encode_panics": r.Counter("rune:encode-panic"), "replaced_by_questionmark": r.Counter("rune:replaced-by-?")})
}

// repertoire returns a few representable non-ASCII runes and a few unrepresentable ones for c.
func (c *charset) pools() (repr, unrepr []rune) {
	cands := []rune{0xE9, 0xC5, 0xF6, 0x20AC, 0x153, 0x104, 0x5D0, 0x62A, 0x10D0, 0x531, 0x3B1, 0x44F, 0x4E2D, 0xFFFD, 0xFFFF, 0x7FF, 0x800, 0x80, 0xA0, 0xFF, 0x100, 0x1F600, 0x10000, 0x10FFFF, 0x2028,
		// 7-bit positions that national ISO 646 variants (swe7) reassign: unrepresentable there, plain ASCII elsewhere
		'@', '[', ']', '^', '`', '{', '|', '}', '~', 0x7F}
	if c.kind == "table" {
		for ru := range c.table {
			if ru >= 0x80 {
				cands = append(cands, ru)
			}
		}
		sort.Slice(cands, func(i, j int) bool { return cands[i] < cands[j] })
	}
	for _, ru := range cands {
		_, ok, known := c.refEncode(ru)
		if !known {
			// generic: ask the encoder itself through EncodeRune
			g2lib.Guard(func() { _, ok = c.enc.EncodeRune([]byte(string(ru))) })
		}
		if ok {
			repr = append(repr, ru)
		} else {
			unrepr = append(unrepr, ru)
		}
	}
	return
}

func stringCases(r *core.Run) {
	n := r.N(40000, 1500000)
	per := 500
	r.Parallel("strings", (n+per-1)/per, func(w int) {
		t := newTally()
		rnd := r.Rand("strings", w)
		for k := 0; k < per; k++ {
			c := charsets[rnd.Intn(len(charsets))]
			repr, unrepr := c.pools()
			ln := rnd.Intn(9)
			var runes []rune
			mode := rnd.Intn(4) // 0 all representable, 1 one unrepresentable somewhere, 2 unrepresentable last, 3 mixed
			for x := 0; x < ln; x++ {
				switch {
				case (mode == 3 && rnd.Intn(3) == 0 && len(unrepr) > 0):
					runes = append(runes, unrepr[rnd.Intn(len(unrepr))])
				case rnd.Intn(2) == 0 && len(repr) > 0:
					runes = append(runes, repr[rnd.Intn(len(repr))])
				default:
					runes = append(runes, rune(0x20+rnd.Intn(0x5F)))
				}
			}
			if len(unrepr) > 0 && ln > 0 {
				if mode == 1 {
					runes[rnd.Intn(ln)] = unrepr[rnd.Intn(len(unrepr))]
				} else if mode == 2 {
					runes[ln-1] = unrepr[rnd.Intn(len(unrepr))]
				}
			}
			checkString(r, t, c, runes)
		}
		r.Eval(per)
		t.flush(r)
	})
}

func checkString(r *core.Run, t *tally, c *charset, runes []rune) {
	in := exact([]byte(string(runes)))
	allRepr := true
	var wantRep []byte // expected EncodeReplaceUnknown, when every rune has a unique reference encoding
	unique := true
	for _, ru := range runes {
		b, ok, known := c.refEncode(ru)
		if !known {
			unique = false
			var eb []byte
			g2lib.Guard(func() { eb, ok = c.enc.EncodeRune([]byte(string(ru))) })
			b = eb
		}
		if c.kind == "table" && len(c.table[ru]) > 1 {
			unique = false
		}
		if !ok {
			allRepr = false
			wantRep = append(wantRep, '?')
		} else {
			wantRep = append(wantRep, b...)
		}
	}
	wit := func(extra map[string]any) map[string]any {
		m := map[string]any{"charset": c.name, "input": string(runes), "input_hex": g2lib.Hex(in), "all_representable": allRepr, "expected_replaceunknown_hex": g2lib.Hex(wantRep)}
		for k, v := range extra {
			m[k] = v
		}
		return m
	}
	var enc []byte
	var ok bool
	p := g2lib.Guard(func() { enc, ok = c.enc.Encode(in) })
	switch {
	case p != nil:
		r.Violation(encodePanicSig(p, allRepr), wit(map[string]any{"call": "Encode", "panic": p.Value}))
		t.hit(c.name, "string:encode-panic")
	case ok && !allRepr:
		r.Violation("encode-accepts-unrepresentable:"+c.name, wit(map[string]any{"encode_bytes": g2lib.Hex(enc)}))
	case !ok && allRepr:
		r.Violation("encode-rejects-representable:"+c.name, wit(nil))
	case ok:
		enc = append([]byte{}, enc...)
		if unique && string(enc) != string(wantRep) {
			r.Violation("encode-wrong-bytes:"+c.name, wit(map[string]any{"encode_bytes": g2lib.Hex(enc)}))
		}
		var dec []byte
		var dok bool
		if p2 := g2lib.Guard(func() { dec, dok = c.enc.Decode(exact(enc)) }); p2 != nil {
			r.Violation(p2.Sig()+":decode-of-encoded", wit(map[string]any{"encode_bytes": g2lib.Hex(enc), "panic": p2.Value}))
		} else if !dok || string(dec) != string(in) {
			r.Violation("roundtrip-mismatch:"+c.name, wit(map[string]any{"encode_bytes": g2lib.Hex(enc), "decode_ok": dok, "decode_hex": g2lib.Hex(dec)}))
		} else {
			t.hit(c.name, fmt.Sprintf("string:roundtrip-ok:len%d", len(runes)))
		}
	default:
		t.hit(c.name, "string:unrepresentable-reported")
	}
	var rep []byte
	if p4 := g2lib.Guard(func() { rep = c.enc.EncodeReplaceUnknown(in) }); p4 != nil {
		r.Violation(p4.Sig(), wit(map[string]any{"call": "EncodeReplaceUnknown", "panic": p4.Value}))
		return
	}
	if unique && string(rep) != string(wantRep) {
		if si := analyse(c, runes); si.dropsTail && string(rep) == string(si.buggyERU) {
			r.Violation(sigDropsTail, wit(map[string]any{"replace_bytes": g2lib.Hex(rep)}))
			t.hit(c.name, "string:replaceunknown-known-drops-tail")
		} else {
			r.Violation("replaceunknown-wrong-bytes:"+c.name, wit(map[string]any{"replace_bytes": g2lib.Hex(rep)}))
		}
	} else if !allRepr {
		t.hit(c.name, "string:replaced-by-?")
	}
}

// checkBytes applies the decode-side laws to one byte string.
func checkBytes(r *core.Run, t *tally, c *charset, b []byte) {
	in := exact(b)
	var dec []byte
	var ok bool
	wit := func(extra map[string]any) map[string]any {
		m := map[string]any{"charset": c.name, "bytes_hex": g2lib.Hex(in)}
		for k, v := range extra {
			m[k] = v
		}
		return m
	}
	if p := g2lib.Guard(func() { dec, ok = c.enc.Decode(in) }); p != nil {
		r.Violation(p.Sig(), wit(map[string]any{"call": "Decode", "panic": p.Value}))
		return
	}
	if sd, sok, known := c.refDecode(in); known {
		if sok != ok || (ok && string(sd) != string(dec)) {
			t.hit(c.name, "bytes:decode-differs-from-standard(not judged)")
		}
	}
	if !ok {
		t.hit(c.name, "bytes:decode-rejected")
		return
	}
	dec = exact(dec)
	if c.kind == "utf8mb4" || c.kind == "binary" {
		// identity encoders: nothing to convert; Encode(Decode(b)) = b is the whole law
		var enc []byte
		var eok bool
		if p := g2lib.Guard(func() { enc, eok = c.enc.Encode(dec) }); p != nil {
			r.Violation(p.Sig(), wit(map[string]any{"call": "Encode", "panic": p.Value}))
		} else if !eok || string(enc) != string(in) {
			r.Violation("identity-encoder-changes-bytes:"+c.name, wit(map[string]any{"encode_hex": g2lib.Hex(enc), "ok": eok}))
		} else {
			t.hit(c.name, "bytes:decode-encode-roundtrip-ok")
		}
		return
	}
	var enc []byte
	var eok bool
	if p := g2lib.Guard(func() { enc, eok = c.enc.Encode(dec) }); p != nil {
		// the decoded text came out of the character set, so it is representable by construction
		r.Violation(encodePanicSig(p, true)+":of-decoded", wit(map[string]any{"call": "Encode(Decode(b))", "decoded_hex": g2lib.Hex(dec), "panic": p.Value}))
		return
	}
	if !eok {
		r.Violation("encode-rejects-decoded-text:"+c.name, wit(map[string]any{"decoded_hex": g2lib.Hex(dec), "decoded_valid_utf8": utf8.Valid(dec)}))
		return
	}
	enc = exact(enc)
	var dec2 []byte
	var ok2 bool
	if p := g2lib.Guard(func() { dec2, ok2 = c.enc.Decode(enc) }); p != nil {
		r.Violation(p.Sig()+":decode-of-encoded", wit(map[string]any{"panic": p.Value}))
		return
	}
	if !ok2 || string(dec2) != string(dec) {
		r.Violation("roundtrip-mismatch:"+c.name, wit(map[string]any{"decoded_hex": g2lib.Hex(dec), "encode_hex": g2lib.Hex(enc), "decode2_ok": ok2, "decode2_hex": g2lib.Hex(dec2)}))
		return
	}
	if string(enc) != string(in) {
		t.hit(c.name, "bytes:noncanonical-decode(not judged)")
	}
	t.hit(c.name, "bytes:decode-encode-roundtrip-ok")
}

func byteSweep(r *core.Run) {
	// exhaustive: all 1-byte strings and all 2-byte strings, per character set, in 256 cases of 257 strings
	type job struct {
		c  *charset
		hi int
	}
	var jobs []job
	for _, c := range charsets {
		for hi := 0; hi < 256; hi++ {
			jobs = append(jobs, job{c, hi})
		}
	}
	r.Parallel("bytes12", len(jobs), func(i int) {
		j := jobs[i]
		t := newTally()
		checkBytes(r, t, j.c, []byte{byte(j.hi)})
		for lo := 0; lo < 256; lo++ {
			checkBytes(r, t, j.c, []byte{byte(j.hi), byte(lo)})
		}
		r.Eval(257)
		t.flush(r)
	})
	// seeded longer strings: half raw random, half built from valid units with one corrupted position
	n := r.N(64000, 3000000)
	per := 1000
	r.Parallel("bytesN", (n+per-1)/per, func(w int) {
		rnd := r.Rand("bytesN", w)
		t := newTally()
		for k := 0; k < per; k++ {
			c := charsets[rnd.Intn(len(charsets))]
			ln := 3 + rnd.Intn(10)
			b := make([]byte, 0, 16)
			if rnd.Intn(2) == 0 {
				for x := 0; x < ln; x++ {
					b = append(b, byte(rnd.Intn(256)))
				}
			} else {
				repr, _ := c.pools()
				for len(b) < ln {
					var ru rune = rune(0x20 + rnd.Intn(0x5F))
					if len(repr) > 0 && rnd.Intn(2) == 0 {
						ru = repr[rnd.Intn(len(repr))]
					}
					var eb []byte
					g2lib.Guard(func() { eb, _ = c.enc.EncodeRune([]byte(string(ru))) })
					b = append(b, eb...)
				}
				switch rnd.Intn(4) {
				case 0: // keep valid
				case 1:
					b[rnd.Intn(len(b))] = byte(rnd.Intn(256))
				case 2:
					b = b[:len(b)-1]
				case 3:
					b = append(b, byte(0x80+rnd.Intn(0x80)))
				}
			}
			if len(b) == 0 {
				b = []byte{0xFF}
			}
			checkBytes(r, t, c, b)
		}
		r.Eval(per)
		t.flush(r)
	})
	r.Floor(r.Counter("bytes:decode-encode-roundtrip-ok") > 1000 && r.Counter("bytes:decode-rejected") > 1000, "byte sweep: decode never accepted or never rejected")
	r.Sample(map[string]any{"law": "byte sweep", "decode_ok_roundtrip": r.Counter("bytes:decode-encode-roundtrip-ok"), "decode_rejected": r.Counter("bytes:decode-rejected"),
		"noncanonical": r.Counter("bytes:noncanonical-decode(not judged)"), "differs_from_standard": r.Counter("bytes:decode-differs-from-standard(not judged)")})
}

// malformed feeds non-UTF-8 input to the utf8-side entry points: nothing may panic.
func malformed(r *core.Run) {
	n := r.N(48000, 2000000)
	per := 1000
	r.Parallel("malformed", (n+per-1)/per, func(w int) {
		rnd := r.Rand("malformed", w)
		t := newTally()
		for k := 0; k < per; k++ {
			c := charsets[rnd.Intn(len(charsets))]
			ln := 1 + rnd.Intn(8)
			b := make([]byte, ln)
			for x := range b {
				switch rnd.Intn(4) {
				case 0:
					b[x] = byte(0x20 + rnd.Intn(0x5F))
				case 1:
					b[x] = byte(0x80 + rnd.Intn(0x40)) // continuation
				case 2:
					b[x] = byte(0xC0 + rnd.Intn(0x40)) // lead
				default:
					b[x] = byte(rnd.Intn(256))
				}
			}
			in := exact(b)
			clean := utf8.Valid(in)
			if clean {
				for _, ru := range string(in) {
					if _, ok, known := c.refEncode(ru); known && !ok {
						clean = false
					}
				}
			}
			wit := func(call string, p *g2lib.Panic) map[string]any {
				return map[string]any{"charset": c.name, "call": call, "input_hex": g2lib.Hex(in), "valid_utf8": utf8.Valid(in), "panic": p.Value}
			}
			var ok bool
			if p := g2lib.Guard(func() { _, ok = c.enc.Encode(in) }); p != nil {
				r.Violation(encodePanicSig(p, clean), wit("Encode", p))
				t.hit(c.name, "malformed:encode-panic")
			} else if ok {
				t.hit(c.name, "malformed:encode-ok")
			} else {
				t.hit(c.name, "malformed:encode-reported")
			}
			var rep []byte
			if p := g2lib.Guard(func() { rep = c.enc.EncodeReplaceUnknown(in) }); p != nil {
				r.Violation(p.Sig(), wit("EncodeReplaceUnknown", p))
			} else if len(rep) == 0 {
				r.Violation("replaceunknown-empty-for-nonempty-input:"+c.name, map[string]any{"charset": c.name, "input_hex": g2lib.Hex(in)})
			} else {
				t.hit(c.name, "malformed:replaceunknown-returned")
			}
			if p := g2lib.Guard(func() { c.enc.EncodeRune(in) }); p != nil {
				r.Violation(p.Sig()+":encoderune", wit("EncodeRune", p))
			}
			if p := g2lib.Guard(func() { c.enc.DecodeRune(in) }); p != nil {
				r.Violation(p.Sig()+":decoderune", wit("DecodeRune", p))
			}
			if p := g2lib.Guard(func() { c.enc.Uppercase(string(in)); c.enc.Lowercase(string(in)) }); p != nil {
				r.Violation(p.Sig()+":case", wit("Uppercase/Lowercase", p))
			}
		}
		r.Eval(per)
		t.flush(r)
	})
}

// pinned replays the witnesses of the known findings on every run.
func pinned(r *core.Run) {
	for _, c := range charsets {
		if c.name != "latin1" {
			continue
		}
		in := exact([]byte("\u0100"))
		p := g2lib.Guard(func() { c.enc.Encode(in) })
		fails := p != nil && encodePanicSig(p, false) == f16Sig
		what := "RangeMap.Encode panics instead of reporting an unrepresentable rune at the end of the input (latin1 Encode(\"\\u0100\"))"
		val := ""
		if p != nil {
			val = p.Value
		}
		r.Pinned(f16Sig, what, fails, map[string]any{"charset": "latin1", "input_hex": g2lib.Hex(in), "panic": val})
		if p != nil && !fails {
			r.Violation(p.Sig(), map[string]any{"charset": "latin1", "input_hex": g2lib.Hex(in), "panic": p.Value})
		}
	}
	pinnedSQL(r)
}

