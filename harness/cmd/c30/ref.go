package main

import (
	"unicode/utf16"
	"unicode/utf8"

	"github.com/dolthub/go-mysql-server/sql"
	"github.com/dolthub/go-mysql-server/sql/encodings"

	"verif/harness/g2lib"
)

// charset is one character set under test together with its independent reference.
//
// kind "table":   single-byte, table driven. Reference repertoire = image of Decode over the 256
//
//	one-byte strings (the decode table and the encode table are separate data in the
//	repository, so checking one against the other is the round-trip law itself).
//
// kind "utf8mb3": standard UTF-8 restricted to the BMP.
// kind "utf8mb4": standard UTF-8.
// kind "utf16":   big-endian UTF-16 (unicode/utf16).
// kind "utf32":   big-endian UTF-32.
// kind "binary":  identity on bytes.
// kind "generic": an encoder this monitor has no reference for: only the self-consistency laws apply.
type charset struct {
	id    sql.CharacterSetID
	name  string
	kind  string
	enc   encodings.Encoder
	table map[rune][]byte // kind table: rune -> the byte strings that decode to it
}

func kindOf(cs sql.CharacterSet) string {
	switch cs.Name {
	case "utf8mb3", "utf8":
		return "utf8mb3"
	case "utf8mb4":
		return "utf8mb4"
	case "utf16":
		return "utf16"
	case "utf32":
		return "utf32"
	case "binary":
		return "binary"
	}
	if cs.MaxLength == 1 {
		return "table"
	}
	return "generic"
}

// exact returns b with capacity == length, the shape the engine itself passes (encodings.StringToBytes).
func exact(b []byte) []byte {
	c := make([]byte, len(b))
	copy(c, b)
	return c[:len(c):len(c)]
}

// buildTable decodes every one-byte string; a panic is returned to the caller.
func (c *charset) buildTable() *g2lib.Panic {
	c.table = map[rune][]byte{}
	var pan *g2lib.Panic
	for b := 0; b < 256; b++ {
		in := exact([]byte{byte(b)})
		var out []byte
		var ok bool
		if p := g2lib.Guard(func() { out, ok = c.enc.Decode(in) }); p != nil {
			pan = p
			continue
		}
		if !ok {
			continue
		}
		r, n := utf8.DecodeRune(out)
		if n != len(out) || (r == utf8.RuneError && n <= 1) {
			continue // judged by the byte-string laws
		}
		c.table[r] = append(c.table[r], byte(b))
	}
	return pan
}

// refEncode gives the reference encoding of one scalar value. known=false: no reference (generic).
// When several byte strings decode to r (table kind), any of them is acceptable: alts lists them.
func (c *charset) refEncode(r rune) (enc []byte, representable bool, known bool) {
	switch c.kind {
	case "table":
		if bs, ok := c.table[r]; ok {
			return []byte{bs[0]}, true, true
		}
		return nil, false, true
	case "utf8mb3":
		if r > 0xFFFF {
			return nil, false, true
		}
		return []byte(string(r)), true, true
	case "utf8mb4", "binary":
		return []byte(string(r)), true, true
	case "utf16":
		if r >= 0x10000 {
			a, b := utf16.EncodeRune(r)
			return []byte{byte(a >> 8), byte(a), byte(b >> 8), byte(b)}, true, true
		}
		return []byte{byte(r >> 8), byte(r)}, true, true
	case "utf32":
		return []byte{0, byte(r >> 16), byte(r >> 8), byte(r)}, true, true
	}
	return nil, false, false
}

// acceptable reports whether got is a correct encoding of r under the reference.
func (c *charset) acceptable(r rune, got []byte) bool {
	if c.kind == "table" {
		if len(got) != 1 {
			return false
		}
		for _, b := range c.table[r] {
			if b == got[0] {
				return true
			}
		}
		return false
	}
	want, ok, known := c.refEncode(r)
	if !known {
		return true
	}
	return ok && string(want) == string(got)
}

// refDecode is the standard decoder of the Unicode kinds (used for evidence counters, and to build
// valid byte strings). known=false for kinds without a standard decoder here.
func (c *charset) refDecode(b []byte) (out []byte, ok bool, known bool) {
	switch c.kind {
	case "utf8mb3":
		if !utf8.Valid(b) {
			return nil, false, true
		}
		for _, r := range string(b) {
			if r > 0xFFFF {
				return nil, false, true
			}
		}
		return b, true, true
	case "utf16":
		if len(b)%2 != 0 {
			return nil, false, true
		}
		var res []byte
		for i := 0; i < len(b); i += 2 {
			u := rune(b[i])<<8 | rune(b[i+1])
			switch {
			case u >= 0xD800 && u <= 0xDBFF:
				if i+3 >= len(b) {
					return nil, false, true
				}
				v := rune(b[i+2])<<8 | rune(b[i+3])
				if v < 0xDC00 || v > 0xDFFF {
					return nil, false, true
				}
				res = utf8.AppendRune(res, utf16.DecodeRune(u, v))
				i += 2
			case u >= 0xDC00 && u <= 0xDFFF:
				return nil, false, true
			default:
				res = utf8.AppendRune(res, u)
			}
		}
		return res, true, true
	case "utf32":
		if len(b)%4 != 0 {
			return nil, false, true
		}
		var res []byte
		for i := 0; i < len(b); i += 4 {
			if b[i] != 0 {
				return nil, false, true
			}
			u := rune(b[i+1])<<16 | rune(b[i+2])<<8 | rune(b[i+3])
			if !g2lib.IsScalar(u) {
				return nil, false, true
			}
			res = utf8.AppendRune(res, u)
		}
		return res, true, true
	}
	return nil, false, false
}
