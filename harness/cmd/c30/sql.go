package main

import (
	"context"
	"fmt"
	"strings"
	"unicode/utf8"

	"github.com/dolthub/go-mysql-server/sql"

	"verif/harness/core"
	"verif/harness/g2lib"
)

// Known findings seen through SQL (see /verif/findings/C30.md).
const (
	// CONVERT(s USING cs) hands back the cs byte string as if it were internal (utf8mb4) text.
	sigConvertBytes = "sql-convert-using-returns-charset-bytes-as-text"
	// EncodeReplaceUnknown drops what follows an unrepresentable sequence that starts in the last 3 bytes.
	sigDropsTail = "replaceunknown-drops-tail-after-unrepresentable-in-last-3-bytes"
	// a column of a narrower character set stores unrepresentable characters unchanged and unreported.
	sigColumnKeeps = "column-stores-unrepresentable-characters-unchanged"
	// CONVERT(x USING cs) for a character set without encoder dereferences the nil encoder.
	sigNoEncoder = "panic:sql/expression.(*ConvertUsing).Eval:invalid-memory-address-or-nil-pointer-dereference:charset-without-encoder"
)

// asBytes extracts the bytes of a string-like result value.
func asBytes(v any) ([]byte, bool) {
	if w, ok := v.(sql.AnyWrapper); ok {
		u, err := w.UnwrapAny(context.Background())
		if err != nil {
			return nil, false
		}
		v = u
	}
	switch x := v.(type) {
	case string:
		return []byte(x), true
	case []byte:
		return x, true
	}
	return nil, false
}

func asInt(v any) (int64, bool) {
	switch x := v.(type) {
	case int:
		return int64(x), true
	case int8:
		return int64(x), true
	case int16:
		return int64(x), true
	case int32:
		return int64(x), true
	case int64:
		return x, true
	case uint32:
		return int64(x), true
	case uint64:
		return int64(x), true
	}
	return 0, false
}

// strInfo is everything the reference knows about one test string for one character set.
type strInfo struct {
	c        *charset
	runes    []rune
	s        string
	allRepr  bool
	unique   bool
	wantEnc  []byte // correct EncodeReplaceUnknown(s)
	wantText string // s with unrepresentable runes replaced by '?'
	apiERU   []byte // what the encoder really returns (nil when it panicked)
	// dropsTail: an unrepresentable rune starts in the last 3 bytes and is followed by more text —
	// the input class of the known EncodeReplaceUnknown defect; buggyERU is its predicted output.
	dropsTail bool
	buggyERU  []byte
}

func analyse(c *charset, runes []rune) *strInfo {
	si := &strInfo{c: c, runes: runes, s: string(runes), allRepr: true, unique: true}
	in := []byte(si.s)
	off := 0
	var text []rune
	for _, ru := range runes {
		b, ok, known := c.refEncode(ru)
		if !known {
			si.unique = false
			g2lib.Guard(func() { b, ok = c.enc.EncodeRune([]byte(string(ru))) })
		}
		if c.kind == "table" && len(c.table[ru]) > 1 {
			si.unique = false
		}
		n := utf8.RuneLen(ru)
		if !ok {
			si.allRepr = false
			if !si.dropsTail && len(in)-off <= 3 && off+n < len(in) {
				si.dropsTail = true
				si.buggyERU = append(append([]byte{}, si.wantEnc...), '?')
			}
			si.wantEnc = append(si.wantEnc, '?')
			text = append(text, '?')
		} else {
			si.wantEnc = append(si.wantEnc, b...)
			text = append(text, ru)
		}
		off += n
	}
	si.wantText = string(text)
	g2lib.Guard(func() { si.apiERU = append([]byte{}, c.enc.EncodeReplaceUnknown(exact(in))...) })
	return si
}

// bytesDifferFromText: the correct converted value has a byte representation in cs that differs from
// its utf8mb4 text — the input class of the known CONVERT USING defect.
func (si *strInfo) bytesDifferFromText() bool { return string(si.wantEnc) != si.wantText }

// cleanFor reports whether b is valid UTF-8 made of runes representable in c (the input class on
// which RangeMap.Encode must not panic).
func cleanFor(c *charset, b []byte) bool {
	if !utf8.Valid(b) {
		return false
	}
	for _, ru := range string(b) {
		if _, ok, known := c.refEncode(ru); known && !ok {
			return false
		}
	}
	return true
}

type sqlCtx struct {
	r    *core.Run
	s    *core.Sess
	t    *tally
	made map[string]bool
}

// run executes one statement; panics and timeouts are handled here. ok=false: no judgement possible.
func (x *sqlCtx) run(q string, c *charset, inputClean bool) (*core.Result, bool) {
	res := x.s.Exec(q)
	if res.TimedOut {
		x.r.Inconclusive("timeout")
		return res, false
	}
	if res.Panic != nil {
		sig := g2lib.CorePanicSig(res.Panic)
		if sig == f16Sig && inputClean {
			sig += ":on-representable-input"
		}
		x.r.Violation(sig, map[string]any{"sql": q, "charset": c.name, "panic": res.Panic.Value, "site": res.Panic.Site})
		x.t.hit(c.name, "sql:panic")
		return res, false
	}
	return res, true
}

func sqlLit(s string) string { return "'" + s + "'" }

var funcsOver = []string{"UPPER(%s)", "LOWER(%s)", "LENGTH(%s)", "CHAR_LENGTH(%s)", "SUBSTRING(%s, 2, 2)", "CONCAT(%s, 'z')", "LPAD(%s, 6, '*')", "RPAD(%s, 6, '*')",
	"HEX(%s)", "TO_BASE64(%s)", "REVERSE(%s)", "%s LIKE 'a%%'", "CAST(%s AS BINARY)", "CONVERT(%s USING utf16)", "LEFT(%s, 1)", "TRIM(%s)", "REPLACE(%s, 'a', 'b')", "INSTR(%s, 'a')"}

func sqlLayer(r *core.Run) {
	var cands []*charset
	for _, c := range charsets {
		if c.kind != "binary" {
			cands = append(cands, c)
		}
	}
	n := r.N(1600, 48000)
	const workers = 16
	r.Parallel("sql", workers, func(w int) {
		e := core.NewEng("d")
		defer e.Close()
		x := &sqlCtx{r: r, s: e.NewSess(), t: newTally(), made: map[string]bool{}}
		for i := w; i < n; i += workers {
			rnd := r.Rand("sql", i)
			c := cands[rnd.Intn(len(cands))]
			repr, unrepr := c.pools()
			ln := 1 + rnd.Intn(6)
			mode := rnd.Intn(5) // 0 ascii only, 1-2 representable mix, 3 one unrepresentable, 4 unrepresentable last or near the end
			var runes []rune
			for k := 0; k < ln; k++ {
				if mode != 0 && len(repr) > 0 && rnd.Intn(2) == 0 {
					ru := repr[rnd.Intn(len(repr))]
					if ru == 0x2028 || ru == 0xFFFF || ru == 0xFFFD || (ru >= 0x80 && ru < 0xA0) {
						ru = 'q'
					}
					runes = append(runes, ru)
				} else {
					runes = append(runes, rune("abcxyz0189ABZ"[rnd.Intn(13)]))
				}
			}
			if len(unrepr) > 0 {
				u := unrepr[rnd.Intn(len(unrepr))]
				if u == 0x2028 || u == 0xFFFF || u == 0xFFFD || (u >= 0x80 && u < 0xA0) {
					u = unrepr[0]
				}
				if mode == 3 {
					runes[rnd.Intn(ln)] = u
				} else if mode == 4 {
					p := ln - 1 - rnd.Intn(2)
					if p < 0 {
						p = 0
					}
					runes[p] = u
				}
			}
			si := analyse(c, runes)
			x.convertCase(si)
			x.columnCase(si, w)
			x.funcCase(si, rnd.Intn(len(funcsOver)), rnd.Intn(len(funcsOver)))
			// introducer: a valid encoding, possibly corrupted
			b := append([]byte{}, si.wantEnc...)
			switch rnd.Intn(5) {
			case 0:
				b[rnd.Intn(len(b))] = byte(rnd.Intn(256))
			case 1:
				b = append(b, byte(0x80+rnd.Intn(0x80)))
			case 2:
				if len(b) > 1 {
					b = b[:len(b)-1]
				}
			}
			x.introducerCase(c, b, rnd.Intn(len(funcsOver)))
			r.Eval(1)
		}
		x.t.flush(r)
	})
	// CONVERT ... USING a character set that has no encoder
	e := core.NewEng("d")
	defer e.Close()
	x := &sqlCtx{r: r, s: e.NewSess(), t: newTally()}
	for _, name := range skipped {
		q := fmt.Sprintf("SELECT CONVERT('abc' USING %s)", name)
		res := x.s.Exec(q)
		r.Eval(1)
		switch {
		case res.TimedOut:
			r.Inconclusive("timeout")
		case res.Panic != nil:
			sig := g2lib.CorePanicSig(res.Panic) + ":charset-without-encoder"
			r.Violation(sig, map[string]any{"sql": q, "panic": res.Panic.Value, "site": res.Panic.Site})
			x.t.hit("noencoder", "sql:convert-using-unimplemented-charset-panics")
		case res.Err != nil:
			x.t.hit("noencoder", "sql:convert-using-unimplemented-charset-error")
		default:
			x.t.hit("noencoder", "sql:convert-using-unimplemented-charset-returns")
		}
	}
	x.t.flush(r)
	r.Floor(r.Counter("sql:convert-roundtrip-ok") > 50 && r.Counter("sql:hex-convert-ok") > 50, "SQL layer: CONVERT USING round trip / HEX never succeeded")
	r.Floor(r.Counter("sql:column-roundtrip-ok") > 50, "SQL layer: no column round trip succeeded")
	r.Floor(r.Counter("sql:introducer-ok") > 50, "SQL layer: no introducer literal decoded")
}

// convertCase: CONVERT(CONVERT(s USING cs) USING utf8mb4) and HEX(CONVERT(s USING cs)).
func (x *sqlCtx) convertCase(si *strInfo) {
	c := si.c
	r := x.r
	wit := func(q string, extra map[string]any) map[string]any {
		m := map[string]any{"sql": q, "charset": c.name, "s": si.s, "s_hex": g2lib.Hex([]byte(si.s)), "expected_text": si.wantText, "expected_charset_bytes": g2lib.Hex(si.wantEnc),
			"api_replaceunknown_bytes": g2lib.Hex(si.apiERU)}
		for k, v := range extra {
			m[k] = v
		}
		return m
	}
	// A: round trip
	q := fmt.Sprintf("SELECT CONVERT(CONVERT(%s USING %s) USING utf8mb4)", sqlLit(si.s), c.name)
	if res, ok := x.run(q, c, cleanFor(c, si.apiERU)); ok {
		switch {
		case res.Err != nil:
			r.Violation("sql-convert-roundtrip-error:"+c.name, wit(q, map[string]any{"error": res.Err.Error()}))
		case len(res.Rows) != 1:
			r.Violation("sql-convert-roundtrip-rows:"+c.name, wit(q, nil))
		default:
			got, isb := asBytes(res.Rows[0][0])
			switch {
			case isb && string(got) == si.wantText:
				x.t.hit(c.name, "sql:convert-roundtrip-ok")
				if !si.allRepr {
					x.t.hit(c.name, "sql:convert-replaced-by-?")
				}
			case isb && si.apiERU != nil && string(got) == string(si.apiERU) && string(si.apiERU) == string(si.wantEnc):
				// the encoder is right, the SQL value is the cs byte string instead of its text
				r.Violation(sigConvertBytes, wit(q, map[string]any{"got_hex": g2lib.Hex(got)}))
				x.t.hit(c.name, "sql:convert-roundtrip-known-bytes-as-text")
			case isb && si.apiERU != nil && string(got) == string(si.apiERU) && si.dropsTail && string(si.apiERU) == string(si.buggyERU):
				r.Violation(sigDropsTail, wit(q, map[string]any{"got_hex": g2lib.Hex(got)}))
				x.t.hit(c.name, "sql:convert-known-drops-tail")
			default:
				r.Violation("sql-convert-roundtrip-mismatch:"+c.name, wit(q, map[string]any{"got": core.Canon(res.Rows[0][0])}))
			}
		}
	}
	// B: HEX
	q = fmt.Sprintf("SELECT HEX(CONVERT(%s USING %s))", sqlLit(si.s), c.name)
	res, ok := x.run(q, c, cleanFor(c, si.apiERU))
	if !ok {
		return
	}
	want := g2lib.Hex(si.wantEnc)
	if res.Err == nil && len(res.Rows) == 1 {
		if got, isb := asBytes(res.Rows[0][0]); isb && string(got) == want && si.unique {
			x.t.hit(c.name, "sql:hex-convert-ok")
			return
		} else if !si.unique {
			x.t.hit(c.name, "sql:hex-convert-not-judged-ambiguous-table")
			return
		}
	}
	// not the correct answer: is it what the known defects predict?
	gotText := ""
	if res.Err != nil {
		gotText = "ERR"
	} else if len(res.Rows) == 1 {
		if got, isb := asBytes(res.Rows[0][0]); isb {
			gotText = string(got)
		}
	}
	if si.apiERU != nil {
		inner := exact(si.apiERU)
		// the value CONVERT hands to HEX is the cs byte string; HEX re-encodes it with cs
		var re []byte
		var rok bool
		p := g2lib.Guard(func() { re, rok = c.enc.Encode(inner) })
		pred := "ERR"
		if p == nil && rok {
			pred = g2lib.Hex(re)
		}
		if p == nil && gotText == pred {
			if string(inner) == string(si.wantEnc) {
				r.Violation(sigConvertBytes, wit(q, map[string]any{"got": gotText}))
				x.t.hit(c.name, "sql:hex-known-bytes-as-text")
				return
			}
			if si.dropsTail && string(inner) == string(si.buggyERU) {
				r.Violation(sigDropsTail, wit(q, map[string]any{"got": gotText}))
				x.t.hit(c.name, "sql:hex-known-drops-tail")
				return
			}
		}
	}
	r.Violation("sql-hex-convert-mismatch:"+c.name, wit(q, map[string]any{"got": gotText, "expected_hex": want}))
}

// columnCase: a VARCHAR column of character set cs.
func (x *sqlCtx) columnCase(si *strInfo, id int) {
	c := si.c
	r := x.r
	tbl := "t_" + c.name
	if !x.made[tbl] {
		x.s.MustExec(fmt.Sprintf("CREATE TABLE %s (id INT PRIMARY KEY, v VARCHAR(64) CHARACTER SET %s)", tbl, c.name))
		x.made[tbl] = true
	}
	wit := func(q string, extra map[string]any) map[string]any {
		m := map[string]any{"sql": q, "charset": c.name, "s": si.s, "s_hex": g2lib.Hex([]byte(si.s)), "all_representable": si.allRepr, "expected_charset_bytes": g2lib.Hex(si.wantEnc)}
		for k, v := range extra {
			m[k] = v
		}
		return m
	}
	ins := fmt.Sprintf("REPLACE INTO %s VALUES (%d, %s)", tbl, id, sqlLit(si.s))
	res, ok := x.run(ins, c, si.allRepr)
	if !ok {
		return
	}
	if res.Err != nil {
		if si.allRepr {
			r.Violation("column-rejects-representable:"+c.name, wit(ins, map[string]any{"error": res.Err.Error()}))
		} else {
			x.t.hit(c.name, "sql:column-unrepresentable-reported")
		}
		return
	}
	q := fmt.Sprintf("SELECT v FROM %s WHERE id = %d", tbl, id)
	res, ok = x.run(q, c, si.allRepr)
	if !ok {
		return
	}
	if res.Err != nil || len(res.Rows) != 1 {
		r.Violation("column-read-fails:"+c.name, wit(q, map[string]any{"error": fmt.Sprint(res.Err), "rows": len(res.Rows)}))
		return
	}
	got, _ := asBytes(res.Rows[0][0])
	stored := string(got)
	switch {
	case stored == si.wantText:
		if si.allRepr {
			x.t.hit(c.name, "sql:column-roundtrip-ok")
		} else {
			x.t.hit(c.name, "sql:column-replaced-by-?")
		}
	case !si.allRepr && stored == si.s:
		r.Violation(sigColumnKeeps, wit(ins, map[string]any{"stored": stored}))
		x.t.hit(c.name, "sql:column-known-keeps-unrepresentable")
	default:
		r.Violation("column-roundtrip-mismatch:"+c.name, wit(q, map[string]any{"stored_hex": g2lib.Hex(got)}))
		return
	}
	storedClean := cleanFor(c, got)
	// HEX / LENGTH / CHAR_LENGTH of the stored value
	q = fmt.Sprintf("SELECT HEX(v), LENGTH(v), CHAR_LENGTH(v) FROM %s WHERE id = %d", tbl, id)
	res, ok = x.run(q, c, storedClean)
	if !ok {
		return
	}
	if !storedClean {
		// consequences of the known column defect: an error is the "reported" outcome; not judged further
		x.t.hit(c.name, "sql:column-functions-over-unrepresentable-stored-value")
		return
	}
	if res.Err != nil || len(res.Rows) != 1 {
		r.Violation("column-functions-fail:"+c.name, wit(q, map[string]any{"error": fmt.Sprint(res.Err)}))
		return
	}
	hx, _ := asBytes(res.Rows[0][0])
	l1, _ := asInt(res.Rows[0][1])
	l2, _ := asInt(res.Rows[0][2])
	if si.unique && (string(hx) != g2lib.Hex(si.wantEnc) || l1 != int64(len(si.wantEnc))) || l2 != int64(len(si.runes)) {
		r.Violation("column-hex-length-mismatch:"+c.name, wit(q, map[string]any{"hex": string(hx), "length": l1, "char_length": l2}))
		return
	}
	x.t.hit(c.name, "sql:column-hex-length-ok")
}

// funcCase: string functions over a converted value never panic.
func (x *sqlCtx) funcCase(si *strInfo, f1, f2 int) {
	c := si.c
	arg := fmt.Sprintf("CONVERT(%s USING %s)", sqlLit(si.s), c.name)
	for _, f := range []int{f1, f2} {
		q := "SELECT " + fmt.Sprintf(funcsOver[f], arg)
		res, ok := x.run(q, c, cleanFor(c, si.apiERU))
		if !ok {
			continue
		}
		if res.Err != nil {
			x.t.hit(c.name, "sql:function-over-converted-error")
		} else {
			x.t.hit(c.name, "sql:function-over-converted-returned:"+strings.SplitN(funcsOver[f], "(", 2)[0])
		}
	}
}

// introducerCase: _cs X'..' decodes like the API; CAST AS BINARY gives the bytes back.
func (x *sqlCtx) introducerCase(c *charset, b []byte, f int) {
	r := x.r
	if len(b) == 0 {
		return
	}
	var dec []byte
	var dok bool
	if p := g2lib.Guard(func() { dec, dok = c.enc.Decode(exact(b)) }); p != nil {
		return // judged by the byte laws
	}
	lit := fmt.Sprintf("_%s X'%s'", c.name, g2lib.Hex(b))
	wit := func(q string, extra map[string]any) map[string]any {
		m := map[string]any{"sql": q, "charset": c.name, "bytes_hex": g2lib.Hex(b), "api_decode_ok": dok, "api_decode_hex": g2lib.Hex(dec)}
		for k, v := range extra {
			m[k] = v
		}
		return m
	}
	q := "SELECT " + lit
	res, ok := x.run(q, c, true)
	if !ok {
		return
	}
	if !dok {
		if res.Err == nil {
			r.Violation("introducer-accepts-undecodable:"+c.name, wit(q, map[string]any{"got": core.CanonRow(res.Rows[0])}))
		} else {
			x.t.hit(c.name, "sql:introducer-undecodable-reported")
		}
		// functions over a rejected literal: still no panic
		q = "SELECT " + fmt.Sprintf(funcsOver[f], lit)
		x.run(q, c, true)
		return
	}
	if res.Err != nil || len(res.Rows) != 1 {
		r.Violation("introducer-rejects-decodable:"+c.name, wit(q, map[string]any{"error": fmt.Sprint(res.Err)}))
		return
	}
	got, _ := asBytes(res.Rows[0][0])
	if string(got) != string(dec) {
		r.Violation("introducer-decodes-differently:"+c.name, wit(q, map[string]any{"got_hex": g2lib.Hex(got)}))
		return
	}
	x.t.hit(c.name, "sql:introducer-ok")
	if !utf8.Valid(dec) {
		return // identity encoders on non-text bytes: nothing more to say
	}
	var enc []byte
	var eok bool
	if p := g2lib.Guard(func() { enc, eok = c.enc.Encode(exact(dec)) }); p != nil || !eok {
		return // judged by the byte laws
	}
	q = fmt.Sprintf("SELECT CAST(%s AS BINARY), LENGTH(%s), CHAR_LENGTH(%s)", lit, lit, lit)
	res, ok = x.run(q, c, true)
	if ok {
		if res.Err != nil || len(res.Rows) != 1 {
			r.Violation("introducer-binary-roundtrip-fails:"+c.name, wit(q, map[string]any{"error": fmt.Sprint(res.Err)}))
		} else {
			gb, _ := asBytes(res.Rows[0][0])
			l1, _ := asInt(res.Rows[0][1])
			l2, _ := asInt(res.Rows[0][2])
			if string(gb) != string(enc) || l1 != int64(len(enc)) || l2 != int64(utf8.RuneCount(dec)) {
				r.Violation("introducer-binary-roundtrip-mismatch:"+c.name, wit(q, map[string]any{"binary_hex": g2lib.Hex(gb), "length": l1, "char_length": l2, "expected_hex": g2lib.Hex(enc)}))
			} else {
				x.t.hit(c.name, "sql:introducer-binary-roundtrip-ok")
			}
		}
	}
	q = "SELECT " + fmt.Sprintf(funcsOver[f], lit)
	if res, ok := x.run(q, c, true); ok {
		if res.Err != nil {
			x.t.hit(c.name, "sql:function-over-introducer-error")
		} else {
			x.t.hit(c.name, "sql:function-over-introducer-returned")
		}
	}
}

// pinnedSQL replays the SQL witnesses of the known findings.
func pinnedSQL(r *core.Run) {
	e := core.NewEng("d")
	defer e.Close()
	s := e.NewSess()
	// 1. CONVERT USING returns charset bytes as text
	q := "SELECT CONVERT(CONVERT('é' USING latin1) USING utf8mb4)"
	res := s.Exec(q)
	got := ""
	if !res.Failed() && len(res.Rows) == 1 {
		b, _ := asBytes(res.Rows[0][0])
		got = string(b)
	}
	r.Pinned(sigConvertBytes, "CONVERT(s USING cs) returns the cs byte string as text: "+q+" -> x'"+g2lib.Hex([]byte(got))+"' instead of 'é'",
		!res.Failed() && got == "\xE9", map[string]any{"sql": q, "got_hex": g2lib.Hex([]byte(got))})
	if res.Failed() || (got != "é" && got != "\xE9") {
		r.Violation("sql-convert-roundtrip-mismatch:latin1", map[string]any{"sql": q, "got_hex": g2lib.Hex([]byte(got)), "error": fmt.Sprint(res.Err), "panic": res.Panic != nil})
	}
	// 2. EncodeReplaceUnknown drops the tail
	q = "SELECT CONVERT('Āl' USING latin1)"
	res = s.Exec(q)
	got = ""
	if !res.Failed() && len(res.Rows) == 1 {
		b, _ := asBytes(res.Rows[0][0])
		got = string(b)
	}
	r.Pinned(sigDropsTail, "EncodeReplaceUnknown drops the text after an unrepresentable character near the end: "+q+" -> '"+got+"' instead of '?l'",
		!res.Failed() && got == "?", map[string]any{"sql": q, "got": got})
	if res.Failed() || (got != "?" && got != "?l") {
		r.Violation("sql-convert-roundtrip-mismatch:latin1", map[string]any{"sql": q, "got": got, "error": fmt.Sprint(res.Err), "panic": res.Panic != nil})
	}
	// 3. column keeps unrepresentable characters
	s.MustExec("CREATE TABLE pin_c (id INT PRIMARY KEY, v VARCHAR(20) CHARACTER SET latin1)")
	ins := s.Exec("INSERT INTO pin_c VALUES (1, 'Āb')")
	stored := ""
	if !ins.Failed() {
		rr := s.Exec("SELECT v FROM pin_c WHERE id = 1")
		if !rr.Failed() && len(rr.Rows) == 1 {
			b, _ := asBytes(rr.Rows[0][0])
			stored = string(b)
		}
	}
	r.Pinned(sigColumnKeeps, "a latin1 column accepts and keeps the unrepresentable 'Ā' (INSERT 'Āb' -> stored '"+stored+"'; HEX(v) then panics or errors)",
		!ins.Failed() && stored == "Āb", map[string]any{"sql": "INSERT INTO pin_c VALUES (1, 'Āb')", "stored": stored})
	if ins.Panic != nil {
		r.Violation(g2lib.CorePanicSig(ins.Panic), map[string]any{"sql": "INSERT INTO pin_c VALUES (1, 'Āb')", "panic": ins.Panic.Value})
	}
	// 4. F16 through SQL
	q = "SELECT HEX(v) FROM pin_c WHERE id = 1"
	if !ins.Failed() && stored == "Āb" {
		res = s.Exec(q)
		if res.Panic != nil {
			sig := g2lib.CorePanicSig(res.Panic)
			r.Pinned(sig, "RangeMap.Encode panics through SQL: "+q+" over a latin1 column holding 'Āb'", true, map[string]any{"sql": q, "panic": res.Panic.Value})
		}
	}
	// 5. CONVERT USING a character set without encoder
	q = "SELECT CONVERT('abc' USING big5)"
	res = s.Exec(q)
	if res.Panic != nil {
		sig := g2lib.CorePanicSig(res.Panic) + ":charset-without-encoder"
		r.Pinned(sig, "CONVERT(x USING big5) (no encoder) dereferences a nil encoder: "+q, true, map[string]any{"sql": q, "panic": res.Panic.Value})
	}
}
