package main

import (
	"fmt"
	"math/rand"
	"strings"
	"sync"
	"time"

	"github.com/dolthub/go-mysql-server/sql/planbuilder/dateparse"

	"verif/harness/core"
	"verif/harness/g5lib"
)

func calendarLaws() []L {
	return []L{
		{Name: "to-days-from-days", Weight: 3, Gen: func(rnd *rand.Rand) *Inst {
			t, tc := genDT(rnd, false)
			d := time.Date(t.Year(), t.Month(), t.Day(), 0, 0, 0, 0, time.UTC)
			n := dayNr(d)
			return g5lib.NewInst(tc, dText(d), func(v []V) string {
				if !v[0].IsInt(n) {
					return "to-days-differs-from-reference"
				}
				if !sameTime(v[1], d) || !sameTime(v[2], d) {
					dec31 := time.Date(d.Year(), 12, 31, 0, 0, 0, 0, time.UTC)
					if isLeap(d.Year()) && d.Month() == 12 && d.Day() == 30 && sameTime(v[1], dec31) && sameTime(v[2], dec31) {
						return "from-days-maps-dec-30-of-leap-year-to-dec-31"
					}
					return "from-days-differs-from-reference"
				}
				if !v[3].IsInt(n) {
					return "to-days-ignores-time-part-wrongly"
				}
				return ""
			}, "TO_DAYS("+litD(d)+")", "FROM_DAYS(TO_DAYS("+litD(d)+"))", fmt.Sprintf("FROM_DAYS(%d)", n), "TO_DAYS("+lit6(t)+")")
		}},
		{Name: "unix-timestamp", Weight: 3, Gen: func(rnd *rand.Rand) *Inst {
			// supported range 1970-01-01 00:00:01 … 3001-01-18 23:59:59 UTC, whole seconds
			var sec int64
			cls := "random"
			switch rnd.Intn(5) {
			case 0:
				sec, cls = []int64{1, 86399, 86400, 2147483647, 2147483648, 4294967295, 4294967296, 32536771199, 951782400, 946684799}[rnd.Intn(10)], "boundary"
			case 1:
				sec, cls = rnd.Int63n(2147483648), "32bit"
			default:
				sec = 1 + rnd.Int63n(32536771199)
			}
			t := time.Unix(sec, 0).UTC()
			return g5lib.NewInst(cls, sec, func(v []V) string {
				if !v[0].IsInt(sec) {
					return "unix-timestamp-differs-from-reference"
				}
				if !sameTime(v[1], t) {
					return "from-unixtime-differs-from-reference"
				}
				if !sameTime(v[2], t) {
					return "from-unixtime-of-unix-timestamp-differs"
				}
				return ""
			}, "UNIX_TIMESTAMP("+lit6(t)+")", fmt.Sprintf("FROM_UNIXTIME(%d)", sec), "FROM_UNIXTIME(UNIX_TIMESTAMP("+lit6(t)+"))")
		}},
		{Name: "time-to-sec", Weight: 3, Gen: func(rnd *rand.Rand) *Inst {
			// TIME values: −838:59:59 … 838:59:59
			h, m, s := rnd.Intn(24), rnd.Intn(60), rnd.Intn(60)
			neg := false
			cls := "time-of-day"
			switch rnd.Intn(4) {
			case 0:
				h, cls = 24+rnd.Intn(815), "hours>=24"
			case 1:
				neg, cls = true, "negative"
				if rnd.Intn(2) == 0 {
					h = rnd.Intn(839)
				}
			}
			txt := fmt.Sprintf("%02d:%02d:%02d", h, m, s)
			want := int64(h*3600 + m*60 + s)
			if neg {
				txt, want = "-"+txt, -want
			}
			if want == 0 {
				cls = "zero"
			}
			lit := "CAST('" + txt + "' AS TIME)"
			tod := ((want % 86400) + 86400) % 86400 // the value reduced to a time of day (known finding matcher)
			return g5lib.NewInst(cls, txt, func(v []V) string {
				if v[0].IsInt(want) && v[1].IsInt(int64(h)) && v[2].IsInt(int64(m)) && v[3].IsInt(int64(s)) {
					return ""
				}
				if (want < 0 || want >= 86400) && v[0].IsInt(tod) && v[1].IsInt(tod/3600) && v[2].IsInt(tod/60%60) && v[3].IsInt(tod%60) {
					return "time-outside-0..24h-reduced-to-time-of-day"
				}
				if !v[0].IsInt(want) {
					return "time-to-sec-differs-from-reference"
				}
				return "hour-minute-second-of-time-differ"
			}, "TIME_TO_SEC("+lit+")", "HOUR("+lit+")", "MINUTE("+lit+")", "SECOND("+lit+")")
		}},
		{Name: "datetime-precision", Weight: 2, Gen: func(rnd *rand.Rand) *Inst {
			// CAST(text AS DATETIME(p)) keeps the value rounded to p fractional digits (MySQL rounds, half up)
			t, tc := genDT(rnd, true)
			p := rnd.Intn(7)
			unit := int64(1)
			for i := p; i < 6; i++ {
				unit *= 10
			}
			us := micros(t)
			r := (us + unit/2) / unit * unit
			if unit == 1 {
				r = us
			}
			base := time.Date(1, 1, 1, 0, 0, 0, 0, time.UTC).Unix()
			want := time.Unix(base+r/1_000_000, (r%1_000_000)*1000).UTC()
			if !inRange(want) {
				return nil
			}
			cls := "exact"
			if r > us {
				cls = "rounds-up"
			} else if r < us {
				cls = "rounds-down"
			}
			typ := fmt.Sprintf("DATETIME(%d)", p)
			return g5lib.NewInst(fmt.Sprintf("p=%d/%s/%s", p, cls, tc), []any{dtText(t), p}, func(v []V) string {
				if !sameTime(v[0], want) {
					return "cast-to-datetime-p-is-not-the-value-rounded-to-p-digits"
				}
				return ""
			}, "CAST('"+dtText(t)+"' AS "+typ+")")
		}},
		{Name: "time-to-sec-datetime", Gen: func(rnd *rand.Rand) *Inst {
			t, tc := genDT(rnd, false)
			return g5lib.NewInst(tc, dtText(t), g5lib.WantInt(int64(t.Hour()*3600+t.Minute()*60+t.Second()), "differs-from-seconds-of-day"), "TIME_TO_SEC("+lit6(t)+")")
		}},
		{Name: "calendar-fields", Weight: 6, Gen: func(rnd *rand.Rand) *Inst {
			t, tc := genDT(rnd, true)
			lit, ac := lit6(t), "datetime6"
			if rnd.Intn(3) == 0 {
				lit, ac = Q(dtText(t)), "string"
			}
			ld := time.Date(t.Year(), t.Month(), daysIn(t.Year(), t.Month()), 0, 0, 0, 0, time.UTC)
			wants := []int64{int64(t.Year()), int64(t.Month()), int64(t.Day()), int64(t.Day()), int64(t.Hour()), int64(t.Minute()), int64(t.Second()), int64(t.Nanosecond() / 1000),
				int64(t.Weekday()) + 1, (int64(t.Weekday()) + 6) % 7, int64(t.YearDay()), (int64(t.Month()) + 2) / 3}
			names := []string{"YEAR", "MONTH", "DAY", "DAYOFMONTH", "HOUR", "MINUTE", "SECOND", "MICROSECOND", "DAYOFWEEK", "WEEKDAY", "DAYOFYEAR", "QUARTER"}
			var exprs []string
			for _, n := range names {
				exprs = append(exprs, n+"("+lit+")")
			}
			exprs = append(exprs, "LAST_DAY("+lit+")", "DAYNAME("+lit+")", "MONTHNAME("+lit+")",
				"EXTRACT(YEAR FROM "+lit+")", "EXTRACT(MONTH FROM "+lit+")", "EXTRACT(DAY FROM "+lit+")", "EXTRACT(HOUR FROM "+lit+")", "EXTRACT(MINUTE FROM "+lit+")", "EXTRACT(SECOND FROM "+lit+")", "EXTRACT(MICROSECOND FROM "+lit+")", "EXTRACT(QUARTER FROM "+lit+")")
			return g5lib.NewInst(ac+"/"+tc, dtText(t), func(v []V) string {
				for i, w := range wants {
					if !v[i].IsInt(w) {
						return strings.ToLower(names[i]) + "-differs-from-reference"
					}
				}
				k := len(wants)
				if !sameTime(v[k], ld) {
					return "last-day-differs-from-reference"
				}
				if !v[k+1].IsStr(t.Weekday().String()) || !v[k+2].IsStr(t.Month().String()) {
					return "dayname-monthname-differ"
				}
				ex := []int64{wants[0], wants[1], wants[2], wants[4], wants[5], wants[6], wants[7], wants[11]}
				for i, w := range ex {
					if !v[k+3+i].IsInt(w) {
						return "extract-differs-from-field-function"
					}
				}
				return ""
			}, exprs...)
		}},
	}
}

// ---- invalid dates ----

type invalid struct {
	text, format, class string
	norm                time.Time // what Go's time.Date makes of the out-of-range fields (known finding matcher)
}

func mkInvalid(text, format, class string, y, mo, d, h, mi, s int) invalid {
	return invalid{text, format, class, time.Date(y, time.Month(mo), d, h, mi, s, 0, time.UTC)}
}

// genInvalid builds a text that denotes no valid date/time under the format.
func genInvalid(rnd *rand.Rand) invalid {
	y := 1000 + rnd.Intn(8990)
	k := rnd.Intn(8)
	switch k {
	case 0: // day beyond the month's length (but ≤ 31)
		m := []time.Month{2, 4, 6, 9, 11}[rnd.Intn(5)]
		d := daysIn(y, m) + 1 + rnd.Intn(31-daysIn(y, m))
		return mkInvalid(fmt.Sprintf("%04d-%02d-%02d", y, int(m), d), "%Y-%m-%d", "day-beyond-month-length", y, int(m), d, 0, 0, 0)
	case 1: // Feb 29 of a non-leap year
		for isLeap(y) {
			y++
		}
		return mkInvalid(fmt.Sprintf("%02d/%02d/%04d", 29, 2, y), "%d/%m/%Y", "feb-29-non-leap", y, 2, 29, 0, 0, 0)
	case 2:
		mo, d := 13+rnd.Intn(7), 1+rnd.Intn(28)
		return mkInvalid(fmt.Sprintf("%04d-%02d-%02d", y, mo, d), "%Y-%m-%d", "month>12", y, mo, d, 0, 0, 0)
	case 3:
		mo, d := 1+rnd.Intn(12), 32+rnd.Intn(8)
		return mkInvalid(fmt.Sprintf("%04d-%02d-%02d", y, mo, d), "%Y-%m-%d", "day>31", y, mo, d, 0, 0, 0)
	case 4, 5, 6:
		mo, d, h, mi, s := 1+rnd.Intn(12), 1+rnd.Intn(28), rnd.Intn(24), rnd.Intn(60), rnd.Intn(60)
		cls := "hour>23"
		switch k {
		case 4:
			h = 24 + rnd.Intn(6)
		case 5:
			mi, cls = 60+rnd.Intn(30), "minute>59"
		default:
			s, cls = 60+rnd.Intn(30), "second>59"
		}
		return mkInvalid(fmt.Sprintf("%04d-%02d-%02d %02d:%02d:%02d", y, mo, d, h, mi, s), "%Y-%m-%d %H:%i:%s", cls, y, mo, d, h, mi, s)
	}
	doy := 367 + rnd.Intn(30)
	if !isLeap(y) && rnd.Intn(2) == 0 {
		doy = 366
	}
	// the parser keeps the year and takes month/day of (Jan 0 + doy days), which falls into the next year
	over := time.Date(y, 1, doy, 0, 0, 0, 0, time.UTC)
	return mkInvalid(fmt.Sprintf("%04d %03d", y, doy), "%Y %j", "day-of-year-beyond-year-length", y, int(over.Month()), over.Day(), 0, 0, 0)
}

func invalidLaws() []L {
	return []L{
		{Name: "str-to-date-invalid", Weight: 5, Gen: func(rnd *rand.Rand) *Inst {
			iv := genInvalid(rnd)
			return &Inst{Class: iv.class, Args: iv, Single: true, OnErr: g5lib.ErrToCheck, Exprs: []string{fmt.Sprintf("STR_TO_DATE(%s,%s)", Q(iv.text), Q(iv.format))}, Check: func(v []V) string {
				if g5lib.IsErr(v) || v[0].IsNull() || v[0].Warnings > 0 {
					return "" // rejected, NULL, or flagged
				}
				if sameTime(v[0], iv.norm) {
					// known finding: the per-field parsers accept the number and time.Date() normalises the overflow
					return "overflowing-field-silently-normalised-to-another-date"
				}
				return iv.class + "-silently-accepted-as-another-date"
			}}
		}},
		{Name: "dateparse-invalid", Weight: 2, Gen: func(rnd *rand.Rand) *Inst {
			// the same texts given to the parser package directly: must return an error or nil, not a time
			iv := genInvalid(rnd)
			return &Inst{Class: iv.class, Args: iv, Exprs: []string{"1"}, Check: func(v []V) string {
				got, err := dateparse.ParseDateWithFormat(iv.text, iv.format)
				if err != nil || got == nil {
					return ""
				}
				if gt, ok := got.(time.Time); ok && gt.UTC().Equal(iv.norm) {
					return "overflowing-field-silently-normalised-to-another-date"
				}
				return iv.class + "-silently-accepted-as-another-date"
			}}
		}},
		{Name: "cast-invalid", Weight: 3, Gen: func(rnd *rand.Rand) *Inst {
			iv := genInvalid(rnd)
			if iv.format != "%Y-%m-%d" && iv.format != "%Y-%m-%d %H:%i:%s" {
				return nil
			}
			typ := "DATE"
			if strings.Contains(iv.format, "%H") {
				typ = "DATETIME"
			}
			return &Inst{Class: typ + "/" + iv.class, Args: iv, Single: true, OnErr: g5lib.ErrToCheck, Exprs: []string{fmt.Sprintf("CAST(%s AS %s)", Q(iv.text), typ)}, Check: func(v []V) string {
				if g5lib.IsErr(v) || v[0].IsNull() || v[0].Warnings > 0 {
					return "" // "rejected or flagged" (a shifted value WITH a warning is within the letter of the property)
				}
				return iv.class + "-silently-accepted"
			}}
		}},
	}
}

// insertInvalid: invalid date texts stored into DATE / DATETIME columns must be rejected (or flagged by a
// warning); the stored value, if any, is read back.
func insertInvalid(r *core.Run) {
	n := r.N(1600, 40000)
	var mu sync.Mutex
	seen := map[string]bool{}
	r.Parallel("insert-invalid", 16, func(w int) {
		e := core.NewEng("d")
		defer e.Close()
		s := e.NewSess()
		s.MustExec("CREATE TABLE dt (id INT PRIMARY KEY, d DATE, t DATETIME(6))")
		for i := w; i < n; i += 16 {
			rnd := r.Rand("insert-invalid", i)
			iv := genInvalid(rnd)
			if iv.format != "%Y-%m-%d" && iv.format != "%Y-%m-%d %H:%i:%s" {
				continue
			}
			col := "d"
			if strings.Contains(iv.format, "%H") || rnd.Intn(2) == 0 {
				col = "t"
			}
			s.MustExec("DELETE FROM dt")
			q := fmt.Sprintf("INSERT INTO dt (id, %s) VALUES (1, %s)", col, g5lib.Q(iv.text))
			res := s.Exec(q)
			if res.Panic != nil {
				r.Eval(1)
				r.Violation("insert-invalid:panic:"+res.Panic.Site, map[string]any{"sql": q, "panic": res.Panic.Value})
				continue
			}
			if res.TimedOut {
				r.Inconclusive("timeout")
				continue
			}
			r.Eval(1)
			key := "insert-invalid|" + col + "/" + iv.class
			if res.Err != nil {
				r.Distinct(key + "/rejected")
				continue
			}
			if len(res.Warnings) > 0 {
				r.Distinct(key + "/flagged")
				r.Count("insert-invalid-flagged-by-warning", 1)
				continue
			}
			back := s.Exec("SELECT " + col + " FROM dt WHERE id = 1")
			stored := "?"
			if !back.Failed() && len(back.Rows) == 1 {
				stored = core.Canon(back.Rows[0][0])
			}
			r.Violation("insert-invalid:"+iv.class+"-accepted-without-error-or-warning", map[string]any{"sql": q, "stored": stored})
			mu.Lock()
			seen[iv.class] = true
			mu.Unlock()
		}
	})
}
