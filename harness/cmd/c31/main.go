// C31 — date and time values parse, format and compute consistently.
//
// Law catalogue over generated datetimes in 1000-01-01 … 9999-12-31 (reference: Go time, proleptic
// Gregorian, UTC, integer day and microsecond counts): DATE_FORMAT equals a reference rendering and
// STR_TO_DATE inverts it for complete formats (also by driving sql/planbuilder/dateparse directly);
// DATE_ADD equals the reference (end-of-month clamping) and DATE_SUB undoes it when nothing was clamped;
// DATEDIFF / TIMESTAMPDIFF / TO_DAYS / FROM_DAYS / UNIX_TIMESTAMP / FROM_UNIXTIME / TIME_TO_SEC /
// LAST_DAY / DAYOF* / EXTRACT against the reference; invalid dates given to STR_TO_DATE, CAST and DATE /
// DATETIME columns must be rejected (error), NULL, or flagged by a warning — never a different valid
// date without any flag.
package main

import (
	"fmt"
	"math/rand"
	"strings"
	"time"

	"github.com/dolthub/go-mysql-server/sql/planbuilder/dateparse"

	"verif/harness/core"
	"verif/harness/g5lib"
)

func main() {
	r := core.NewRun("C31", "exploration",
		"each evaluation is one law instance over generated datetimes/formats/intervals judged against a Go time reference; distinct = (law, argument class) pairs that held")
	r.Fold(8, 3)
	r.Assume("session time zone is set to +00:00; values are typed literals CAST('…' AS DATETIME(6)|DATE|TIME) in 1000-01-01…9999-12-31; results outside that range are not judged")
	r.Assume("TIMESTAMPDIFF in MONTH/QUARTER/YEAR and the add-then-subtract law for those units are judged only when the days of month are ≤ 28 (no end-of-month clamping)")
	r.Assume("not supported by this tree and therefore not generated: compound interval units (DAY_SECOND, YEAR_MONTH … are syntax errors), SEC_TO_TIME, MAKEDATE, ADDTIME, PERIOD_ADD, TO_SECONDS")

	laws := append(formatLaws(), arithLaws()...)
	laws = append(laws, calendarLaws()...)
	laws = append(laws, invalidLaws()...)
	ru := g5lib.NewRunner(r, laws)
	ru.EngSetup = []string{"SET @@session.time_zone = '+00:00'"}
	ru.Run("laws", r.N(30000, 800000))
	ru.Report()
	insertInvalid(r)
	pinned(r)
	r.Finish()
}

func formatLaws() []L {
	roundtrip := func(name string, ext bool) L {
		return L{Name: name, Weight: 6, Gen: func(rnd *rand.Rand) *Inst {
			f, fc, hasTime, hasFrac := genFormat(rnd, ext)
			t, tc := genDT(rnd, hasFrac)
			if !hasTime {
				t = time.Date(t.Year(), t.Month(), t.Day(), 0, 0, 0, 0, time.UTC)
			}
			want := render(t, f)
			return g5lib.NewInst(fc+"/"+tc, []string{dtText(t), f}, func(v []V) string {
				if !v[0].IsStr(want) {
					return "date-format-differs-from-reference"
				}
				if !sameTime(v[1], t) {
					if v[1].IsNull() {
						if strings.Contains(f, "%H%i%s") {
							return "adjacent-numeric-time-specifiers-parsed-greedily-null"
						}
						return "str-to-date-of-date-format-is-null"
					}
					h12 := t.Hour() % 12
					if h12 == 0 {
						h12 = 12
					}
					if (strings.Contains(f, "%p") || strings.Contains(f, "%r")) && sameTime(v[1], time.Date(t.Year(), t.Month(), t.Day(), h12, t.Minute(), t.Second(), t.Nanosecond(), time.UTC)) {
						return "am-pm-ignored-by-str-to-date"
					}
					return "str-to-date-does-not-invert-date-format"
				}
				// the pinned parser package, driven directly with the same text and format
				got, err := dateparse.ParseDateWithFormat(want, f)
				if err != nil {
					return "dateparse-rejects-rendered-text"
				}
				if gt, ok := got.(time.Time); !ok || !gt.UTC().Equal(t) {
					return "dateparse-does-not-invert-rendering"
				}
				return ""
			}, fmt.Sprintf("DATE_FORMAT(%s,%s)", lit6(t), Q(f)), fmt.Sprintf("STR_TO_DATE(DATE_FORMAT(%s,%s),%s)", lit6(t), Q(f), Q(f)))
		}}
	}
	return []L{
		roundtrip("format-parse-roundtrip", false),
		roundtrip("format-parse-roundtrip-names-12h", true),
		{Name: "date-format-ref", Weight: 2, Gen: func(rnd *rand.Rand) *Inst {
			// rendering only (specifiers that do not determine a value are allowed here)
			specs := []string{"%Y", "%y", "%m", "%c", "%d", "%e", "%D", "%H", "%k", "%h", "%I", "%l", "%i", "%s", "%S", "%f", "%T", "%r", "%p", "%j", "%M", "%b", "%W", "%a", "%w", "%%"}
			n := 1 + rnd.Intn(5)
			var parts []string
			for i := 0; i < n; i++ {
				parts = append(parts, specs[rnd.Intn(len(specs))])
			}
			f := strings.Join(parts, []string{" ", "-", ":", "", "x"}[rnd.Intn(5)])
			t, tc := genDT(rnd, true)
			arg, ac := lit6(t), "datetime6"
			switch rnd.Intn(3) {
			case 0:
				arg, ac = Q(dtText(t)), "string"
			case 1:
				t = time.Date(t.Year(), t.Month(), t.Day(), 0, 0, 0, 0, time.UTC)
				arg, ac = litD(t), "date"
			}
			return g5lib.NewInst(ac+"/"+tc+"/"+parts[0], []string{arg, f}, func(v []V) string {
				if v[0].IsStr(render(t, f)) {
					return ""
				}
				if strings.Contains(f, "%y") && t.Year()%100 < 10 && v[0].IsStr(renderOpt(t, f, true, false)) {
					return "%y-not-zero-padded"
				}
				if v[0].IsStr(renderOpt(t, f, false, true)) || v[0].IsStr(renderOpt(t, f, t.Year()%100 < 10, true)) {
					return "%b-or-%a-followed-by-lowercase-letter-prints-Jan-or-Mon"
				}
				return "date-format-differs-from-reference"
			}, fmt.Sprintf("DATE_FORMAT(%s,%s)", arg, Q(f)))
		}},
	}
}

type unit struct {
	name string
	us   int64 // length in microseconds; 0 for month-based units
	mon  int   // months for month-based units
}

var units = []unit{
	{"MICROSECOND", 1, 0}, {"SECOND", 1_000_000, 0}, {"MINUTE", 60_000_000, 0}, {"HOUR", 3_600_000_000, 0},
	{"DAY", 86_400_000_000, 0}, {"WEEK", 7 * 86_400_000_000, 0}, {"MONTH", 0, 1}, {"QUARTER", 0, 3}, {"YEAR", 0, 12},
}

func genN(rnd *rand.Rand) (int64, string) {
	switch rnd.Intn(6) {
	case 0:
		return 0, "n=0"
	case 1:
		return int64(rnd.Intn(3)) + 1, "n-small"
	case 2:
		return -int64(rnd.Intn(3)) - 1, "n-small-neg"
	case 3:
		return []int64{10000, -10000, 9999, 365, 366, -365, 12, 24, 60, 1000}[rnd.Intn(10)], "n-boundary"
	}
	n := int64(rnd.Intn(20001)) - 10000
	if n < 0 {
		return n, "n-neg"
	}
	return n, "n-pos"
}

// addRef is the reference DATE_ADD; ok=false when the result leaves the supported range.
func addRef(t time.Time, n int64, u unit) (res time.Time, clamped, ok bool) {
	if u.us > 0 {
		us := micros(t) + n*u.us
		base := time.Date(1, 1, 1, 0, 0, 0, 0, time.UTC).Unix()
		sec := us / 1_000_000
		rem := us % 1_000_000
		if rem < 0 {
			rem += 1_000_000
			sec--
		}
		res = time.Unix(base+sec, rem*1000).UTC()
		return res, false, inRange(res)
	}
	res, clamped = addMonths(t, int(n)*u.mon)
	return res, clamped, !res.IsZero() && inRange(res)
}

func arithLaws() []L {
	return []L{
		{Name: "date-add-sub", Weight: 8, Gen: func(rnd *rand.Rand) *Inst {
			u := units[rnd.Intn(len(units))]
			n, nc := genN(rnd)
			t, tc := genDT(rnd, true)
			typ := "datetime6"
			lit := lit6(t)
			if u.us == 0 || u.us >= 86_400_000_000 {
				if rnd.Intn(3) == 0 {
					t = time.Date(t.Year(), t.Month(), t.Day(), 0, 0, 0, 0, time.UTC)
					typ, lit = "date", litD(t)
				}
			}
			want, clamped, ok := addRef(t, n, u)
			cls := fmt.Sprintf("%s/%s/%s/%s", u.name, typ, nc, tc)
			if clamped {
				cls += "/clamped"
			}
			if !ok {
				cls = u.name + "/out-of-range"
			}
			back, _, okBack := addRef(want, -n, u)
			return &Inst{Class: cls, Args: []any{dtText(t), n, u.name}, OnErr: g5lib.ErrToCheck, Exprs: []string{
				fmt.Sprintf("DATE_ADD(%s, INTERVAL %s %s)", lit, I(n), u.name),
				fmt.Sprintf("DATE_SUB(DATE_ADD(%s, INTERVAL %s %s), INTERVAL %s %s)", lit, I(n), u.name, I(n), u.name),
				fmt.Sprintf("DATE_SUB(%s, INTERVAL %s %s)", lit, I(-n), u.name),
			}, Check: func(v []V) string {
				if !ok {
					return g5lib.Skip("result-outside-1000..9999")
				}
				if g5lib.IsErr(v) {
					return "error"
				}
				if !sameTime(v[0], want) {
					return "date-add-differs-from-reference"
				}
				if !sameTime(v[2], want) {
					return "date-sub-of-negated-interval-differs-from-date-add"
				}
				if okBack && !sameTime(v[1], back) {
					return "date-sub-of-date-add-differs-from-reference"
				}
				// the property's inverse law: exact for fixed-length units; for month-based units when no clamping can occur
				if (u.us > 0 || t.Day() <= 28) && !sameTime(v[1], t) {
					return "add-then-subtract-does-not-restore"
				}
				return ""
			}}
		}},
		{Name: "interval-operator", Weight: 3, Gen: func(rnd *rand.Rand) *Inst {
			// t + INTERVAL n u = DATE_ADD(t, INTERVAL n u); t - INTERVAL n u = DATE_SUB; ADDDATE/SUBDATE synonyms
			u := units[rnd.Intn(len(units))]
			n, nc := genN(rnd)
			t, tc := genDT(rnd, rnd.Intn(2) == 0)
			frac := "frac"
			if t.Nanosecond() == 0 {
				frac = "nofrac"
			}
			want, _, ok := addRef(t, n, u)
			wantSub, _, ok2 := addRef(t, -n, u)
			lit := lit6(t)
			return &Inst{Class: fmt.Sprintf("%s/%s/%s/%s", u.name, nc, frac, tc), Args: []any{dtText(t), n, u.name}, OnErr: g5lib.ErrToCheck, Exprs: []string{
				fmt.Sprintf("%s + INTERVAL %s %s", lit, I(n), u.name),
				fmt.Sprintf("%s - INTERVAL %s %s", lit, I(n), u.name),
				fmt.Sprintf("ADDDATE(%s, INTERVAL %s %s)", lit, I(n), u.name),
				fmt.Sprintf("SUBDATE(%s, INTERVAL %s %s)", lit, I(n), u.name),
			}, Check: func(v []V) string {
				if !ok || !ok2 {
					return g5lib.Skip("result-outside-1000..9999")
				}
				if g5lib.IsErr(v) {
					return "error"
				}
				if !sameTime(v[2], want) || !sameTime(v[3], wantSub) {
					return "adddate-subdate-differ-from-reference"
				}
				if !sameTime(v[0], want) || !sameTime(v[1], wantSub) {
					wa, _, _ := addRef(t.Truncate(time.Second), n, u)
					ws, _, _ := addRef(t.Truncate(time.Second), -n, u)
					if t.Nanosecond() != 0 && sameTime(v[0], wa) && sameTime(v[1], ws) {
						return "operator-form-drops-fractional-seconds"
					}
					return "operator-form-differs-from-date-add"
				}
				return ""
			}}
		}},
		{Name: "datediff", Weight: 5, Gen: func(rnd *rand.Rand) *Inst {
			a, ca := genDT(rnd, false)
			b, _ := genDT(rnd, false)
			cls := "far"
			if rnd.Intn(2) == 0 { // near: within a few years, around month/year ends
				b = a.AddDate(0, 0, rnd.Intn(2001)-1000).Add(time.Duration(rnd.Intn(86400)) * time.Second)
				if !inRange(b) {
					b = a
				}
				cls = "near"
			}
			want := dayNr(a) - dayNr(b)
			if want > 106751 || want < -106751 {
				cls = "beyond-292-years"
			}
			return g5lib.NewInst(cls+"/"+ca, []string{dtText(a), dtText(b)}, func(v []V) string {
				if !v[1].IsInt(want) {
					return "to-days-difference-differs-from-reference"
				}
				if !v[0].IsInt(want) {
					sat := int64(106752)
					if want < 0 {
						sat = -sat
					}
					if cls == "beyond-292-years" && v[0].IsInt(sat) {
						return "saturates-at-106752-days-beyond-292-years"
					}
					return "differs-from-day-number-difference"
				}
				return ""
			}, fmt.Sprintf("DATEDIFF(%s,%s)", lit6(a), lit6(b)), fmt.Sprintf("TO_DAYS(%s) - TO_DAYS(%s)", lit6(a), lit6(b)))
		}},
		{Name: "timestampdiff", Weight: 6, Gen: func(rnd *rand.Rand) *Inst {
			u := units[rnd.Intn(len(units))]
			a, ca := genDT(rnd, true)
			b, _ := genDT(rnd, true)
			cls := "far"
			switch rnd.Intn(3) {
			case 0:
				b = a.Add(time.Duration(rnd.Int63n(2*86400*40)-86400*40) * time.Second).Add(time.Duration(rnd.Intn(1000000)) * time.Microsecond)
				cls = "within-40-days"
			case 1:
				// exact multiples and one microsecond short of them: the truncation boundary
				k := int64(rnd.Intn(50)) - 25
				if u.us > 0 {
					us := micros(a) + k*u.us + int64(rnd.Intn(3)-1)
					b = time.Unix(time.Date(1, 1, 1, 0, 0, 0, 0, time.UTC).Unix()+us/1_000_000, (us%1_000_000)*1000).UTC()
				} else {
					b, _ = addMonths(a, int(k)*u.mon)
					b = b.Add(time.Duration(rnd.Intn(3)-1) * time.Microsecond)
				}
				cls = "unit-boundary"
			}
			if !inRange(b) || b.IsZero() {
				b = a
			}
			var want int64
			if u.us > 0 {
				want = (micros(b) - micros(a)) / u.us // Go division truncates toward zero
			} else {
				if a.Day() > 28 || b.Day() > 28 {
					return nil // month arithmetic with possible clamping: not judged
				}
				want = monthsBetween(a, b) / int64(u.mon)
			}
			return g5lib.NewInst(u.name+"/"+cls+"/"+ca, []string{u.name, dtText(a), dtText(b)}, func(v []V) string {
				if v[0].IsInt(want) {
					return ""
				}
				if u.us == 0 && v[0].IsInt(monthsDiffMinutesIgnored(a, b)/int64(u.mon)) {
					return "minutes-ignored-in-whole-month-tiebreak"
				}
				return "differs-from-truncated-reference-difference"
			}, fmt.Sprintf("TIMESTAMPDIFF(%s,%s,%s)", u.name, lit6(a), lit6(b)))
		}},
	}
}

// monthsDiffMinutesIgnored reproduces a whole-month difference whose same-day tie-break compares
// hours*3600 + seconds and ignores the minutes (matcher of a known finding: sql.SecondsPerMinute is 0).
func monthsDiffMinutesIgnored(a, b time.Time) int64 {
	sign := int64(1)
	if a.After(b) {
		a, b = b, a
		sign = -1
	}
	m := int64(b.Year()-a.Year())*12 + int64(b.Month()) - int64(a.Month())
	if a.Day() > b.Day() {
		m--
	} else if a.Day() == b.Day() {
		sd := int64(b.Hour()-a.Hour())*3600 + int64(b.Second()-a.Second())
		if sd < 0 || (sd == 0 && a.Nanosecond() > b.Nanosecond()) {
			m--
		}
	}
	return sign * m
}

// monthsBetween is the number of whole months from a to b (negative when b < a); callers guarantee
// day-of-month ≤ 28 on both sides so that "whole month" is unambiguous.
func monthsBetween(a, b time.Time) int64 {
	sign := int64(1)
	if b.Before(a) {
		a, b = b, a
		sign = -1
	}
	m := int64(b.Year()-a.Year())*12 + int64(b.Month()) - int64(a.Month())
	// compare the within-month parts
	ra := time.Date(2000, 1, a.Day(), a.Hour(), a.Minute(), a.Second(), a.Nanosecond(), time.UTC)
	rb := time.Date(2000, 1, b.Day(), b.Hour(), b.Minute(), b.Second(), b.Nanosecond(), time.UTC)
	if rb.Before(ra) {
		m--
	}
	return sign * m
}
