package main

import (
	"time"

	"github.com/dolthub/go-mysql-server/sql/planbuilder/dateparse"

	"verif/harness/core"
	"verif/harness/g5lib"
)

// pinned replays the pinned witnesses of the known findings (findings/C31.txt).
func pinned(r *core.Run) {
	tz := "SET @@session.time_zone = '+00:00'"
	g5lib.Pin(r, "datediff", "saturates-at-106752-days-beyond-292-years", "DATEDIFF saturates at ±106752 days (time.Duration overflow)",
		"DATEDIFF('2100-01-31','5363-04-01')", "-1191846", "-106752", tz)
	// F35 through SQL: must be NULL / error / flagged; the pinned check treats a warning-free shifted date as the finding
	g5lib.PinnedInst(r, "str-to-date-invalid", "overflowing-field-silently-normalised-to-another-date", "STR_TO_DATE shifts an invalid date to another valid date without error or warning",
		&Inst{Class: "pinned", Single: true, OnErr: g5lib.ErrToCheck, Exprs: []string{"STR_TO_DATE('2021-04-31','%Y-%m-%d')"}, Check: func(v []V) string {
			if g5lib.IsErr(v) || v[0].IsNull() || v[0].Warnings > 0 {
				return ""
			}
			if sameTime(v[0], time.Date(2021, 5, 1, 0, 0, 0, 0, time.UTC)) {
				return "overflowing-field-silently-normalised-to-another-date"
			}
			return "silently-accepted-as-another-date"
		}})
	// the same through the parser package
	got, err := dateparse.ParseDateWithFormat("2021-04-31", "%Y-%m-%d")
	gt, isTime := got.(time.Time)
	r.Pinned("dateparse-invalid:overflowing-field-silently-normalised-to-another-date", "dateparse.ParseDateWithFormat('2021-04-31','%Y-%m-%d') returns 2021-05-01 with a nil error",
		err == nil && isTime && gt.UTC().Equal(time.Date(2021, 5, 1, 0, 0, 0, 0, time.UTC)), map[string]any{"text": "2021-04-31", "format": "%Y-%m-%d", "got": core.Canon(got)})
	for _, law := range []string{"format-parse-roundtrip", "format-parse-roundtrip-names-12h"} {
		g5lib.Pin(r, law, "adjacent-numeric-time-specifiers-parsed-greedily-null", "STR_TO_DATE cannot parse %H%i%s without separators (the hour parser takes all digits)",
			"STR_TO_DATE('2024-02-29 190746','%Y-%m-%d %H%i%s')", "t'2024-02-29 19:07:46.000000'", "NULL", tz)
	}
	g5lib.Pin(r, "format-parse-roundtrip-names-12h", "am-pm-ignored-by-str-to-date", "STR_TO_DATE ignores %p: 01:00:00 PM is read as 01:00:00",
		"STR_TO_DATE('2024-01-01 01:00:00 PM','%Y-%m-%d %h:%i:%s %p')", "t'2024-01-01 13:00:00.000000'", "t'2024-01-01 01:00:00.000000'", tz)
	g5lib.Pin(r, "interval-operator", "operator-form-drops-fractional-seconds", "datetime + INTERVAL drops the fractional seconds of the datetime (DATE_ADD keeps them)",
		"CAST('2024-02-29 13:04:05.123456' AS DATETIME(6)) + INTERVAL 1 DAY", "t'2024-03-01 13:04:05.123456'", "t'2024-03-01 13:04:05.000000'", tz)
	g5lib.Pin(r, "time-to-sec", "time-outside-0..24h-reduced-to-time-of-day", "TIME_TO_SEC/HOUR/MINUTE/SECOND reduce a TIME value to a time of day",
		"TIME_TO_SEC(CAST('100:00:01' AS TIME))", "360001", "14401", tz)
	g5lib.Pin(r, "to-days-from-days", "from-days-maps-dec-30-of-leap-year-to-dec-31", "FROM_DAYS maps day 365 of a leap year (Dec 30) to Dec 31",
		"FROM_DAYS(713317)", "t'1952-12-30 00:00:00.000000'", "t'1952-12-31 00:00:00.000000'", tz)
	g5lib.Pin(r, "timestampdiff", "minutes-ignored-in-whole-month-tiebreak", "TIMESTAMPDIFF(MONTH|QUARTER|YEAR) ignores the minutes when both days of month are equal (sql.SecondsPerMinute is 0)",
		"TIMESTAMPDIFF(MONTH,'4019-10-25 03:12:00','4021-02-25 03:11:59')", "15", "16", tz)
	g5lib.Pin(r, "date-format-ref", "%y-not-zero-padded", "DATE_FORMAT %y prints one digit for years …00-…09",
		"DATE_FORMAT('2005-01-01','%y')", "'05'", "'5'", tz)
	g5lib.Pin(r, "date-format-ref", "%b-or-%a-followed-by-lowercase-letter-prints-Jan-or-Mon", "DATE_FORMAT %b / %a directly followed by a lower-case letter prints the literal layout text",
		"DATE_FORMAT('8229-03-02','%bx%b')", "'MarxMar'", "'JanxMar'", tz)
}
