package main

import (
	"fmt"
	"math/rand"
	"strings"
	"time"

	"verif/harness/g5lib"
)

type L = g5lib.Law
type V = g5lib.Val
type Inst = g5lib.Inst

var Q = g5lib.Q
var I = g5lib.I

var (
	minT = time.Date(1000, 1, 1, 0, 0, 0, 0, time.UTC)
	maxT = time.Date(9999, 12, 31, 23, 59, 59, 999999000, time.UTC)
)

func inRange(t time.Time) bool { return !t.Before(minT) && !t.After(maxT) }

func isLeap(y int) bool { return y%4 == 0 && (y%100 != 0 || y%400 == 0) }

func daysIn(y int, m time.Month) int {
	switch m {
	case 2:
		if isLeap(y) {
			return 29
		}
		return 28
	case 4, 6, 9, 11:
		return 30
	}
	return 31
}

// dayNr is MySQL's TO_DAYS: days since year 0 (0001-01-01 is day 366), proleptic Gregorian.
func dayNr(t time.Time) int64 {
	d := time.Date(t.Year(), t.Month(), t.Day(), 0, 0, 0, 0, time.UTC)
	return d.Unix()/86400 - time.Date(1, 1, 1, 0, 0, 0, 0, time.UTC).Unix()/86400 + 366
}

func fromDayNr(n int64) time.Time {
	return time.Unix((n-366)*86400+time.Date(1, 1, 1, 0, 0, 0, 0, time.UTC).Unix(), 0).UTC()
}

// micros is the number of microseconds since 0001-01-01 (exact, int64 is wide enough for years ≤ 9999).
func micros(t time.Time) int64 {
	return (t.Unix()-time.Date(1, 1, 1, 0, 0, 0, 0, time.UTC).Unix())*1_000_000 + int64(t.Nanosecond()/1000)
}

// addMonths adds n months with end-of-month clamping (MySQL DATE_ADD … MONTH).
func addMonths(t time.Time, n int) (time.Time, bool) {
	total := t.Year()*12 + int(t.Month()) - 1 + n
	if total < 0 {
		return time.Time{}, false
	}
	y, m := total/12, time.Month(total%12+1)
	d := t.Day()
	clamped := false
	if dm := daysIn(y, m); d > dm {
		d, clamped = dm, true
	}
	return time.Date(y, m, d, t.Hour(), t.Minute(), t.Second(), t.Nanosecond(), time.UTC), clamped
}

// genDT draws a datetime in 1000..9999 biased to calendar boundaries; frac: fractional digits 0..6.
func genDT(rnd *rand.Rand, withFrac bool) (time.Time, string) {
	var y int
	cls := "random"
	switch rnd.Intn(6) {
	case 0:
		y = []int{1000, 1001, 1582, 1600, 1700, 1900, 1969, 1970, 2000, 2038, 2100, 2400, 9998, 9999}[rnd.Intn(14)]
		cls = "boundary-year"
	case 1:
		y = 1900 + rnd.Intn(200)
	default:
		y = 1000 + rnd.Intn(9000)
	}
	m := time.Month(1 + rnd.Intn(12))
	d := 1 + rnd.Intn(daysIn(y, m))
	switch rnd.Intn(6) {
	case 0:
		d, cls = daysIn(y, m), "month-end"
	case 1:
		m, cls = 2, "february"
		d = daysIn(y, 2) - rnd.Intn(2)
		if rnd.Intn(2) == 0 {
			y -= y % 4 // most of these are leap years
			if y < 1000 {
				y = 1000
			}
			d = daysIn(y, 2)
			cls = "leap-day-candidate"
		}
	case 2:
		if rnd.Intn(2) == 0 {
			m, d, cls = 12, 31, "year-end"
		} else {
			m, d, cls = 1, 1, "year-start"
		}
	}
	h, mi, s := rnd.Intn(24), rnd.Intn(60), rnd.Intn(60)
	switch rnd.Intn(6) {
	case 0:
		h, mi, s = 0, 0, 0
	case 1:
		h, mi, s = 23, 59, 59
	}
	us := 0
	if withFrac {
		switch rnd.Intn(4) {
		case 0:
			us = 0
		case 1:
			us = 999999
		case 2:
			us = rnd.Intn(10) * 100000 // one fractional digit
		default:
			us = rnd.Intn(1000000)
		}
	}
	return time.Date(y, m, d, h, mi, s, us*1000, time.UTC), cls
}

func dtText(t time.Time) string { return t.Format("2006-01-02 15:04:05.000000") }
func dText(t time.Time) string  { return t.Format("2006-01-02") }

// lit6 is a typed DATETIME(6) literal; litD a typed DATE literal.
func lit6(t time.Time) string { return "CAST('" + dtText(t) + "' AS DATETIME(6))" }
func litD(t time.Time) string { return "CAST('" + dText(t) + "' AS DATE)" }

func sameTime(v V, want time.Time) bool {
	got, ok := v.Time()
	return ok && got.UTC().Equal(want)
}

var ordinals = func(d int) string {
	if d%100 >= 11 && d%100 <= 13 {
		return "th"
	}
	switch d % 10 {
	case 1:
		return "st"
	case 2:
		return "nd"
	case 3:
		return "rd"
	}
	return "th"
}

// render is the reference DATE_FORMAT for the specifiers used by the generators.
func render(t time.Time, f string) string { return renderOpt(t, f, false, false) }

// renderOpt with yUnpadded reproduces a formatter that prints %y without zero padding (known finding matcher).
func renderOpt(t time.Time, f string, yUnpadded, layoutQuirk bool) string {
	var b strings.Builder
	h12 := t.Hour() % 12
	if h12 == 0 {
		h12 = 12
	}
	ampm := "AM"
	if t.Hour() >= 12 {
		ampm = "PM"
	}
	for i := 0; i < len(f); i++ {
		if f[i] != '%' || i+1 == len(f) {
			b.WriteByte(f[i])
			continue
		}
		i++
		switch f[i] {
		case 'Y':
			fmt.Fprintf(&b, "%04d", t.Year())
		case 'y':
			if yUnpadded {
				fmt.Fprintf(&b, "%d", t.Year()%100)
			} else {
				fmt.Fprintf(&b, "%02d", t.Year()%100)
			}
		case 'm':
			fmt.Fprintf(&b, "%02d", int(t.Month()))
		case 'c':
			fmt.Fprintf(&b, "%d", int(t.Month()))
		case 'd':
			fmt.Fprintf(&b, "%02d", t.Day())
		case 'e':
			fmt.Fprintf(&b, "%d", t.Day())
		case 'D':
			fmt.Fprintf(&b, "%d%s", t.Day(), ordinals(t.Day()))
		case 'H':
			fmt.Fprintf(&b, "%02d", t.Hour())
		case 'k':
			fmt.Fprintf(&b, "%d", t.Hour())
		case 'h', 'I':
			fmt.Fprintf(&b, "%02d", h12)
		case 'l':
			fmt.Fprintf(&b, "%d", h12)
		case 'i':
			fmt.Fprintf(&b, "%02d", t.Minute())
		case 's', 'S':
			fmt.Fprintf(&b, "%02d", t.Second())
		case 'f':
			fmt.Fprintf(&b, "%06d", t.Nanosecond()/1000)
		case 'T':
			fmt.Fprintf(&b, "%02d:%02d:%02d", t.Hour(), t.Minute(), t.Second())
		case 'r':
			fmt.Fprintf(&b, "%02d:%02d:%02d %s", h12, t.Minute(), t.Second(), ampm)
		case 'p':
			b.WriteString(ampm)
		case 'j':
			fmt.Fprintf(&b, "%03d", t.YearDay())
		case 'M':
			b.WriteString(t.Month().String())
		case 'b':
			if layoutQuirk && i+1 < len(f) && f[i+1] >= 'a' && f[i+1] <= 'z' {
				b.WriteString("Jan") // Go layout quirk: "Jan" followed by a lower-case letter is literal text
			} else {
				b.WriteString(t.Month().String()[:3])
			}
		case 'W':
			b.WriteString(t.Weekday().String())
		case 'a':
			if layoutQuirk && i+1 < len(f) && f[i+1] >= 'a' && f[i+1] <= 'z' {
				b.WriteString("Mon") // same quirk for "Mon"
			} else {
				b.WriteString(t.Weekday().String()[:3])
			}
		case 'w':
			fmt.Fprintf(&b, "%d", int(t.Weekday()))
		case '%':
			b.WriteByte('%')
		default:
			b.WriteByte('%')
			b.WriteByte(f[i])
		}
	}
	return b.String()
}

// genFormat builds a complete format (it determines the value): returns format, class, whether it has a
// time part and a fraction. ext=false restricts to the design's core specifiers.
func genFormat(rnd *rand.Rand, ext bool) (f, cls string, hasTime, hasFrac bool) {
	dateCore := []string{"%Y-%m-%d", "%d/%m/%Y", "%e.%c.%Y", "%Y%m%d", "%Y %j", "%m-%d-%Y", "%Y/%c/%e"}
	dateExt := []string{"%M %e, %Y", "%b %d %Y", "%D %M %Y", "%a %b %e %Y", "%d %b %Y"}
	timeCore := []string{"%H:%i:%s", "%T", "%k:%i:%S", "%H%i%s", "%H.%i.%s"}
	timeExt := []string{"%h:%i:%s %p", "%r", "%l:%i:%s %p", "%I:%i:%S %p"}
	var d, t string
	if ext && rnd.Intn(2) == 0 {
		d = dateExt[rnd.Intn(len(dateExt))]
		cls = "date-ext"
	} else {
		d = dateCore[rnd.Intn(len(dateCore))]
		cls = "date-core"
	}
	switch rnd.Intn(4) {
	case 0:
		return d, cls + "/no-time", false, false
	}
	if ext && rnd.Intn(2) == 0 {
		t = timeExt[rnd.Intn(len(timeExt))]
		cls += "/time-12h"
	} else {
		t = timeCore[rnd.Intn(len(timeCore))]
		cls += "/time-24h"
	}
	sep := []string{" ", "T", " at "}[rnd.Intn(3)]
	if strings.HasSuffix(d, "%j") || strings.HasSuffix(d, "%d") && strings.HasPrefix(t, "%H%i") {
		sep = " "
	}
	f = d + sep + t
	if rnd.Intn(2) == 0 && !strings.HasSuffix(t, "%p") && t != "%r" {
		return f + ".%f", cls + "/frac", true, true
	}
	return f, cls, true, false
}
