package main

import (
	"context"
	"encoding/json"
	"fmt"
	"math"
	"math/big"
	"math/rand"
	"sort"
	"strconv"
	"strings"
	"unicode/utf8"

	"github.com/dolthub/go-mysql-server/sql"

	"verif/harness/g5lib"
)

type L = g5lib.Law
type V = g5lib.Val
type Inst = g5lib.Inst

var Q = g5lib.Q

// Reference documents are plain Go values: map[string]any (objects), []any (arrays), string, bool, nil,
// and numbers as num{text} (the JSON number literal; compared by exact value).
type num struct{ text string }

func (n num) rat() *big.Rat {
	if strings.ContainsAny(n.text, "eE.") {
		f, _ := strconv.ParseFloat(n.text, 64) // JSON non-integers are doubles
		r := new(big.Rat)
		r.SetFloat64(f)
		return r
	}
	r, _ := new(big.Rat).SetString(n.text)
	return r
}

// ---- generation ----

var keyPool = map[string][]string{
	"ident":     {"a", "b", "c", "aa", "ab", "key1", "x_y", "B", "zz9"},
	"space":     {"a b", " lead", "two  spaces"},
	"unicode":   {"é", "日本", "ключ", "😀k"},
	"dot":       {"a.b", "a.", "x.y.z"},
	"leading-dot": {".", ".a"},
	"bracket":   {"x[0]", "a]", "[1]"},
	"dollar":    {"$", "$a"},
	"quote":     {"a\"b", "\"q\""},
	"backslash": {"a\\b", "\\"},
	"empty":     {""},
	"control":   {"a\nb", "tab\t"},
}

// keyClasses used for document members; weights favour plain identifiers.
var docKeyClasses = []string{"ident", "ident", "ident", "ident", "ident", "space", "unicode", "dot", "quote", "backslash", "empty", "control", "bracket", "dollar", "leading-dot"}

func genKey(rnd *rand.Rand) string {
	c := docKeyClasses[rnd.Intn(len(docKeyClasses))]
	p := keyPool[c]
	return p[rnd.Intn(len(p))]
}

func keyClass(k string) string {
	switch {
	case k == "":
		return "empty"
	case strings.Contains(k, "\""):
		return "quote"
	case strings.Contains(k, "\\"):
		return "backslash"
	case strings.ContainsAny(k, "\n\t"):
		return "control"
	case strings.ContainsAny(k, "[]"):
		return "bracket"
	case strings.Contains(k, "$"):
		return "dollar"
	case strings.HasPrefix(k, "."):
		return "leading-dot"
	case strings.Contains(k, "."):
		return "dot"
	case strings.Contains(k, " "):
		return "space"
	case g5lib.MultiByte(k):
		return "unicode"
	}
	return "ident"
}

func genString(rnd *rand.Rand) string {
	switch rnd.Intn(8) {
	case 0:
		return ""
	case 1:
		return "a\"b\\c/d"
	case 2:
		return "line\nfeed\ttab\r\b\f"
	case 3:
		return "\x01\x1f ctl"
	case 4:
		return "é日本😀𝄞"
	case 5:
		return strings.Repeat("long ", 20+rnd.Intn(40))
	}
	s, _ := g5lib.GenStr(rnd)
	return s
}

func genNum(rnd *rand.Rand) num {
	switch rnd.Intn(9) {
	case 0:
		return num{"0"}
	case 1:
		return num{strconv.Itoa(rnd.Intn(2000) - 1000)}
	case 2:
		return num{[]string{"9007199254740992", "9007199254740993", "9223372036854775807", "-9223372036854775808", "18446744073709551615", "9223372036854775808", "-9007199254740993"}[rnd.Intn(7)]}
	case 3:
		return num{strconv.FormatInt(rnd.Int63(), 10)}
	case 4:
		return num{fmt.Sprintf("%d.%d", rnd.Intn(1000)-500, 1+rnd.Intn(999))}
	case 5:
		return num{[]string{"1.5e10", "-2.5E-3", "1e-7", "6.02e23", "0.1", "-0.5"}[rnd.Intn(6)]}
	case 6:
		return num{strconv.FormatFloat(rnd.NormFloat64()*1e6, 'g', -1, 64)}
	}
	return num{strconv.Itoa(rnd.Intn(10))}
}

func genScalar(rnd *rand.Rand) any {
	switch rnd.Intn(6) {
	case 0:
		return nil
	case 1:
		return rnd.Intn(2) == 0
	case 2, 3:
		return genNum(rnd)
	}
	return genString(rnd)
}

func genDoc(rnd *rand.Rand, depth int) any {
	if depth <= 0 || rnd.Intn(4) == 0 {
		return genScalar(rnd)
	}
	n := rnd.Intn(5)
	if rnd.Intn(2) == 0 {
		m := map[string]any{}
		for i := 0; i < n; i++ {
			m[genKey(rnd)] = genDoc(rnd, depth-1)
		}
		return m
	}
	a := make([]any, n)
	for i := range a {
		a[i] = genDoc(rnd, depth-1)
	}
	return a
}

// genContainer always returns an object or array at the top.
func genContainer(rnd *rand.Rand, depth int) any {
	for {
		d := genDoc(rnd, depth)
		switch d.(type) {
		case map[string]any, []any:
			return d
		}
	}
}

// ---- rendering (deliberately varied spelling: escapes, whitespace, key order, duplicate keys) ----

func renderString(s string, rnd *rand.Rand) string {
	var b strings.Builder
	b.WriteByte('"')
	for _, r := range s {
		switch {
		case r == '"':
			b.WriteString("\\\"")
		case r == '\\':
			b.WriteString("\\\\")
		case r == '\n':
			b.WriteString("\\n")
		case r == '\t':
			b.WriteString("\\t")
		case r == '\r':
			b.WriteString("\\r")
		case r == '\b':
			b.WriteString("\\b")
		case r == '\f':
			b.WriteString("\\f")
		case r < 0x20:
			fmt.Fprintf(&b, "\\u%04x", r)
		case r == '/' && rnd != nil && rnd.Intn(2) == 0:
			b.WriteString("\\/")
		case r > 0x7e && rnd != nil && rnd.Intn(3) == 0:
			if r > 0xffff {
				r -= 0x10000
				fmt.Fprintf(&b, "\\u%04x\\u%04x", 0xd800+(r>>10), 0xdc00+(r&0x3ff))
			} else {
				fmt.Fprintf(&b, "\\u%04X", r)
			}
		default:
			b.WriteRune(r)
		}
	}
	b.WriteByte('"')
	return b.String()
}

func ws(rnd *rand.Rand) string {
	if rnd == nil {
		return ""
	}
	return []string{"", "", " ", "\n ", "\t"}[rnd.Intn(5)]
}

// render prints a reference document as JSON text. With rnd != nil the spelling is varied and objects
// may get a duplicate of one key (an earlier, different value that the last occurrence overrides).
func render(d any, rnd *rand.Rand) string {
	switch x := d.(type) {
	case nil:
		return "null"
	case bool:
		if x {
			return "true"
		}
		return "false"
	case num:
		return x.text
	case string:
		return renderString(x, rnd)
	case []any:
		parts := make([]string, len(x))
		for i, e := range x {
			parts[i] = ws(rnd) + render(e, rnd) + ws(rnd)
		}
		return "[" + strings.Join(parts, ",") + "]"
	case map[string]any:
		keys := make([]string, 0, len(x))
		for k := range x {
			keys = append(keys, k)
		}
		sort.Strings(keys)
		if rnd != nil {
			rnd.Shuffle(len(keys), func(i, j int) { keys[i], keys[j] = keys[j], keys[i] })
		}
		var parts []string
		if rnd != nil && len(keys) > 0 && rnd.Intn(6) == 0 {
			// duplicate key: this first occurrence must lose against the later one
			parts = append(parts, renderString(keys[len(keys)-1], rnd)+":"+"\"overridden\"")
		}
		for _, k := range keys {
			parts = append(parts, ws(rnd)+renderString(k, rnd)+ws(rnd)+":"+ws(rnd)+render(x[k], rnd))
		}
		return "{" + strings.Join(parts, ",") + "}"
	}
	panic(fmt.Sprintf("render: %T", d))
}

// lit is a typed JSON literal.
func lit(d any, rnd *rand.Rand) string { return "CAST(" + Q(render(d, rnd)) + " AS JSON)" }

// ---- engine value → comparable Go value ----

func engineJSON(v V) (any, bool) {
	w, ok := v.Raw.(sql.JSONWrapper)
	if !ok {
		return nil, false
	}
	x, err := w.ToInterface(context.Background())
	if err != nil {
		return nil, false
	}
	return x, true
}

func toRat(x any) (*big.Rat, bool) {
	switch n := x.(type) {
	case num:
		return n.rat(), true
	case float64:
		if math.IsInf(n, 0) || math.IsNaN(n) {
			return nil, false
		}
		r := new(big.Rat)
		r.SetFloat64(n)
		return r, true
	case float32:
		r := new(big.Rat)
		r.SetFloat64(float64(n))
		return r, true
	case int:
		return new(big.Rat).SetInt64(int64(n)), true
	case int8, int16, int32, int64, uint8, uint16, uint32, uint64, uint:
		r, ok := new(big.Rat).SetString(fmt.Sprint(n))
		return r, ok
	case json.Number:
		return num{string(n)}.rat(), true
	case fmt.Stringer: // decimal types
		r, ok := new(big.Rat).SetString(n.String())
		return r, ok
	}
	return nil, false
}

// same: structural equality, numbers by exact value across integer/double kinds.
func same(ref, eng any) bool {
	switch r := ref.(type) {
	case nil:
		return eng == nil
	case bool:
		e, ok := eng.(bool)
		return ok && e == r
	case string:
		e, ok := eng.(string)
		return ok && e == r
	case num:
		switch eng.(type) {
		case bool, string, nil, []any, map[string]any:
			return false
		}
		e, ok := toRat(eng)
		return ok && e.Cmp(r.rat()) == 0
	case []any:
		e, ok := eng.([]any)
		if !ok || len(e) != len(r) {
			return false
		}
		for i := range r {
			if !same(r[i], e[i]) {
				return false
			}
		}
		return true
	case map[string]any:
		e, ok := eng.(map[string]any)
		if !ok || len(e) != len(r) {
			return false
		}
		for k, rv := range r {
			ev, ok := e[k]
			if !ok || !same(rv, ev) {
				return false
			}
		}
		return true
	}
	return false
}

// sameRef compares two reference documents.
func sameRef(a, b any) bool {
	switch x := a.(type) {
	case num:
		y, ok := b.(num)
		return ok && x.rat().Cmp(y.rat()) == 0
	case []any:
		y, ok := b.([]any)
		if !ok || len(x) != len(y) {
			return false
		}
		for i := range x {
			if !sameRef(x[i], y[i]) {
				return false
			}
		}
		return true
	case map[string]any:
		y, ok := b.(map[string]any)
		if !ok || len(x) != len(y) {
			return false
		}
		for k, v := range x {
			w, ok := y[k]
			if !ok || !sameRef(v, w) {
				return false
			}
		}
		return true
	}
	return a == b
}

func clone(d any) any {
	switch x := d.(type) {
	case []any:
		out := make([]any, len(x))
		for i, e := range x {
			out[i] = clone(e)
		}
		return out
	case map[string]any:
		out := map[string]any{}
		for k, v := range x {
			out[k] = clone(v)
		}
		return out
	}
	return d
}

// ---- paths ----

type step struct {
	key   string
	idx   int
	isIdx bool
}

type path []step

func (p path) String() string {
	var b strings.Builder
	b.WriteByte('$')
	for _, s := range p {
		if s.isIdx {
			fmt.Fprintf(&b, "[%d]", s.idx)
			continue
		}
		if keyClass(s.key) == "ident" {
			b.WriteString("." + s.key)
		} else {
			b.WriteString("." + "\"" + strings.NewReplacer("\\", "\\\\", "\"", "\\\"").Replace(s.key) + "\"")
		}
	}
	return b.String()
}

// class describes the path: depth and the least ordinary key class on it.
func (p path) class() string {
	worst := "ident"
	rank := map[string]int{"ident": 0, "unicode": 1, "space": 2, "dot": 3, "control": 4, "backslash": 5, "quote": 6, "empty": 7, "bracket": 8, "dollar": 9, "leading-dot": 10}
	hasIdx := false
	for _, s := range p {
		if s.isIdx {
			hasIdx = true
			continue
		}
		if c := keyClass(s.key); rank[c] > rank[worst] {
			worst = c
		}
	}
	c := fmt.Sprintf("depth%d/key-%s", len(p), worst)
	if hasIdx {
		c += "/idx"
	}
	return c
}

func (p path) keyWorst() string {
	c := p.class()
	return strings.TrimSuffix(c[strings.Index(c, "key-")+4:], "/idx")
}

// get returns the node at p.
func get(d any, p path) (any, bool) {
	cur := d
	for _, s := range p {
		switch x := cur.(type) {
		case map[string]any:
			if s.isIdx {
				return nil, false
			}
			v, ok := x[s.key]
			if !ok {
				return nil, false
			}
			cur = v
		case []any:
			if !s.isIdx || s.idx < 0 || s.idx >= len(x) {
				return nil, false
			}
			cur = x[s.idx]
		default:
			return nil, false
		}
	}
	return cur, true
}

// allPaths lists the paths of every node except the root.
func allPaths(d any, prefix path, out *[]path) {
	switch x := d.(type) {
	case map[string]any:
		keys := make([]string, 0, len(x))
		for k := range x {
			keys = append(keys, k)
		}
		sort.Strings(keys)
		for _, k := range keys {
			p := append(append(path{}, prefix...), step{key: k})
			*out = append(*out, p)
			allPaths(x[k], p, out)
		}
	case []any:
		for i, e := range x {
			p := append(append(path{}, prefix...), step{idx: i, isIdx: true})
			*out = append(*out, p)
			allPaths(e, p, out)
		}
	}
}

// setAt returns a copy of d with the node at p replaced / the member added (parent must exist and, for
// arrays, the index must be in range).
func setAt(d any, p path, v any) any {
	if len(p) == 0 {
		return v
	}
	s := p[0]
	switch x := d.(type) {
	case map[string]any:
		out := map[string]any{}
		for k, e := range x {
			out[k] = e
		}
		out[s.key] = setAt(x[s.key], p[1:], v)
		return out
	case []any:
		out := append([]any{}, x...)
		out[s.idx] = setAt(x[s.idx], p[1:], v)
		return out
	}
	panic("setAt through a scalar")
}

func removeAt(d any, p path) any {
	s := p[0]
	switch x := d.(type) {
	case map[string]any:
		out := map[string]any{}
		for k, e := range x {
			if len(p) == 1 && k == s.key {
				continue
			}
			if k == s.key {
				out[k] = removeAt(e, p[1:])
			} else {
				out[k] = e
			}
		}
		return out
	case []any:
		var out []any
		for i, e := range x {
			if len(p) == 1 && i == s.idx {
				continue
			}
			if i == s.idx {
				out = append(out, removeAt(e, p[1:]))
			} else {
				out = append(out, e)
			}
		}
		if out == nil {
			out = []any{}
		}
		return out
	}
	panic("removeAt through a scalar")
}

func related(p, q path) bool { // one is a prefix of the other
	n := len(p)
	if len(q) < n {
		n = len(q)
	}
	for i := 0; i < n; i++ {
		if p[i] != q[i] {
			return false
		}
	}
	return true
}

// ---- reference walks ----

func jsonType(d any) string {
	switch x := d.(type) {
	case nil:
		return "NULL"
	case bool:
		return "BOOLEAN"
	case string:
		return "STRING"
	case []any:
		return "ARRAY"
	case map[string]any:
		return "OBJECT"
	case num:
		if strings.ContainsAny(x.text, ".eE") {
			return "DOUBLE"
		}
		if r := x.rat(); r.Sign() >= 0 && r.Cmp(new(big.Rat).SetInt64(math.MaxInt64)) > 0 {
			return "UNSIGNED INTEGER"
		}
		return "INTEGER"
	}
	return "?"
}

func jsonDepth(d any) int {
	m := 0
	switch x := d.(type) {
	case []any:
		for _, e := range x {
			if k := jsonDepth(e); k > m {
				m = k
			}
		}
	case map[string]any:
		for _, e := range x {
			if k := jsonDepth(e); k > m {
				m = k
			}
		}
	}
	return m + 1
}

func jsonLength(d any) int {
	switch x := d.(type) {
	case []any:
		return len(x)
	case map[string]any:
		return len(x)
	}
	return 1
}

// canonLess is MySQL's object key order: shorter keys first, then bytewise.
func canonLess(a, b string) bool {
	if len(a) != len(b) {
		return len(a) < len(b)
	}
	return a < b
}

func canonKeys(m map[string]any) []string {
	keys := make([]string, 0, len(m))
	for k := range m {
		keys = append(keys, k)
	}
	sort.Slice(keys, func(i, j int) bool { return canonLess(keys[i], keys[j]) })
	return keys
}

// stripNullMembers is the expected JSON_MERGE_PATCH(d, d) (RFC 7396): null members of objects disappear,
// recursively through objects only (arrays are replaced wholesale by the patch's identical array).
func stripNullMembers(d any) any {
	m, ok := d.(map[string]any)
	if !ok {
		return d
	}
	out := map[string]any{}
	for k, v := range m {
		if v == nil {
			continue
		}
		out[k] = stripNullMembers(v)
	}
	return out
}

// keysInOrder walks printed JSON text and reports whether every object's keys appear in canonical order
// and the text is valid JSON (Go's decoder).
func keysInOrder(text string) (valid, ordered bool) {
	dec := json.NewDecoder(strings.NewReader(text))
	dec.UseNumber()
	ordered = true
	type frame struct {
		obj     bool
		wantKey bool
		last    string
		hasLast bool
	}
	var st []frame
	for {
		tok, err := dec.Token()
		if err != nil {
			break
		}
		top := func() *frame {
			if len(st) == 0 {
				return nil
			}
			return &st[len(st)-1]
		}
		switch t := tok.(type) {
		case json.Delim:
			switch t {
			case '{':
				if f := top(); f != nil && f.obj {
					f.wantKey = true
				}
				st = append(st, frame{obj: true, wantKey: true})
			case '[':
				if f := top(); f != nil && f.obj {
					f.wantKey = true
				}
				st = append(st, frame{})
			default:
				st = st[:len(st)-1]
			}
		default:
			f := top()
			if f != nil && f.obj {
				if f.wantKey {
					k, _ := tok.(string)
					if f.hasLast && !canonLess(f.last, k) {
						ordered = false
					}
					f.last, f.hasLast, f.wantKey = k, true, false
				} else {
					f.wantKey = true
				}
			}
		}
	}
	var any1 any
	valid = json.Unmarshal([]byte(text), &any1) == nil && utf8.ValidString(text)
	return valid, ordered
}
