// C32 — JSON values round-trip and path functions obey their laws.
//
// Reference: documents are generated as Go values (depth ≤ 4; unicode / escaped / duplicate / empty keys;
// integers beyond 2^53, doubles, booleans, null, long strings) and printed with varied spelling. The engine's
// answers are compared structurally (numbers by exact value) with a reference walk / reference mutation.
// Laws: text round trip and canonical key order of the printed form; comparison is a total order consistent
// with structural equality; JSON_SET/EXTRACT, JSON_REMOVE/CONTAINS_PATH, JSON_ARRAY_APPEND/LENGTH,
// JSON_INSERT/REPLACE, JSON_QUOTE/UNQUOTE (also internal/strings directly), JSON_KEYS/LENGTH/TYPE/DEPTH,
// JSON_MERGE_PATCH(d,d), JSON_CONTAINS(d,d).
package main

import (
	"fmt"
	"math/rand"
	"strings"

	"github.com/dolthub/go-mysql-server/verifhook/internalshim"

	"verif/harness/core"
	"verif/harness/g5lib"
)

func main() {
	r := core.NewRun("C32", "exploration",
		"each evaluation is one law instance over a generated JSON document / path / value, judged structurally against a Go reference; distinct = (law, argument class) pairs that held")
	r.Fold(8, 3)
	r.Assume("paths use only member and in-range index steps (no wildcards, no `last`, which this tree rejects); the SET/EXTRACT laws exclude paths through scalars (auto-wrapping) and out-of-range indexes (append semantics)")
	r.Assume("JSON_CONTAINS_PATH(JSON_REMOVE(d,p),p)=0 is asserted for object members and the last array index only (removal shifts later elements); JSON_MERGE_PATCH(d,d) is expected to drop null object members (RFC 7396)")
	r.Assume("values given to mutation functions are typed JSON (CAST('…' AS JSON)); numbers are compared by exact value across INTEGER/DOUBLE kinds; non-integer numbers have ≤ 17 significant digits")

	ru := g5lib.NewRunner(r, laws())
	ru.Batch = 25
	ru.Run("laws", r.N(20000, 500000))
	ru.Report()
	pinned(r)
	r.Finish()
}

// pickPath draws a path of d: existing node, or (newMember) a fresh key under an existing object.
func pickExisting(rnd *rand.Rand, d any) (path, bool) {
	var all, ps []path
	allPaths(d, nil, &all)
	for _, p := range all {
		if keyOK(p) { // core domain: see the known findings path-key-domain:* (findings/C32.txt)
			ps = append(ps, p)
		}
	}
	if len(ps) == 0 {
		return nil, false
	}
	return ps[rnd.Intn(len(ps))], true
}

func pickNewMember(rnd *rand.Rand, d any) (path, bool) {
	var ps []path
	allPaths(d, nil, &ps)
	ps = append(ps, path{})
	rnd.Shuffle(len(ps), func(i, j int) { ps[i], ps[j] = ps[j], ps[i] })
	for _, p := range ps {
		if !keyOK(p) {
			continue
		}
		node, _ := get(d, p)
		if m, ok := node.(map[string]any); ok {
			for try := 0; try < 8; try++ {
				k := genKey(rnd)
				if !plainKey(k) {
					continue
				}
				if _, exists := m[k]; !exists {
					return append(append(path{}, p...), step{key: k}), true
				}
			}
		}
	}
	return nil, false
}

func jsonEq(v V, ref any) bool {
	e, ok := engineJSON(v)
	return ok && same(ref, e)
}

func laws() []L {
	return []L{
		{Name: "text-roundtrip", Weight: 5, Gen: func(rnd *rand.Rand) *Inst {
			d := genDoc(rnd, 4)
			text := render(d, rnd)
			l := "CAST(" + Q(text) + " AS JSON)"
			return g5lib.NewInst(jsonType(d)+fmt.Sprintf("/depth%d", jsonDepth(d)), text, func(v []V) string {
				if !jsonEq(v[0], d) {
					return "parsed-document-differs-from-reference"
				}
				printed, ok := v[1].Str()
				if !ok {
					return "printed-form-not-a-string"
				}
				valid, ordered := keysInOrder(printed)
				if !valid {
					return "printed-form-is-not-valid-json"
				}
				if !ordered {
					return "printed-keys-not-in-canonical-order"
				}
				if !jsonEq(v[2], d) {
					return "parse-of-printed-form-differs"
				}
				if v[3].Truth() != 1 {
					return "parse-of-printed-form-not-equal-by-sql-comparison"
				}
				if !v[4].IsStr(printed) {
					return "printed-form-is-not-a-fixpoint"
				}
				return ""
			}, l, "CAST("+l+" AS CHAR)", "CAST(CAST("+l+" AS CHAR) AS JSON)", "CAST(CAST("+l+" AS CHAR) AS JSON) = "+l, "CAST(CAST(CAST("+l+" AS CHAR) AS JSON) AS CHAR)")
		}},
		{Name: "compare-order", Weight: 4, Gen: func(rnd *rand.Rand) *Inst {
			// three documents, often near-equal: =, <, > must behave as a total order consistent with structural equality
			a := genDoc(rnd, 2)
			mk := func() any {
				switch rnd.Intn(4) {
				case 0:
					return clone(a)
				case 1:
					if arr, ok := a.([]any); ok && len(arr) > 0 {
						c := clone(a).([]any)
						c[rnd.Intn(len(c))] = genScalar(rnd)
						return c
					}
					if m, ok := a.(map[string]any); ok && len(m) > 0 {
						c := clone(a).(map[string]any)
						ks := canonKeys(c) // deterministic choice (map iteration order is random)
						c[ks[rnd.Intn(len(ks))]] = genScalar(rnd)
						return c
					}
				}
				return genDoc(rnd, 2)
			}
			b, c := mk(), mk()
			la, lb, lc := lit(a, rnd), lit(b, rnd), lit(c, rnd)
			cls := jsonType(a) + "/" + jsonType(b) + "/" + jsonType(c)
			var exprs []string
			for _, pr := range [][2]string{{la, lb}, {lb, la}, {lb, lc}, {la, lc}, {la, la}} {
				exprs = append(exprs, pr[0]+" = "+pr[1], pr[0]+" < "+pr[1], pr[0]+" > "+pr[1])
			}
			return g5lib.NewInst(cls, []string{render(a, nil), render(b, nil), render(c, nil)}, func(v []V) string {
				rel := func(i int) (int, bool) { // -1, 0, +1 from the (=,<,>) triple at i; false when not exactly one holds
					eq, lt, gt := v[3*i].Truth(), v[3*i+1].Truth(), v[3*i+2].Truth()
					if eq < 0 || lt < 0 || gt < 0 || eq+lt+gt != 1 {
						return 0, false
					}
					return gt - lt, true
				}
				ab, ok1 := rel(0)
				ba, ok2 := rel(1)
				bc, ok3 := rel(2)
				ac, ok4 := rel(3)
				aa, ok5 := rel(4)
				if !ok1 || !ok2 || !ok3 || !ok4 || !ok5 {
					return "not-exactly-one-of-eq-lt-gt"
				}
				if aa != 0 {
					return "not-reflexive"
				}
				if ab != -ba {
					return "not-antisymmetric"
				}
				if (ab == 0) != sameRef(a, b) || (bc == 0) != sameRef(b, c) || (ac == 0) != sameRef(a, c) {
					return "equality-disagrees-with-structural-equality"
				}
				if ab <= 0 && bc <= 0 && ac > 0 || ab >= 0 && bc >= 0 && ac < 0 {
					return "not-transitive"
				}
				if ab == 0 && bc != ac || bc == 0 && ab != ac {
					return "equal-documents-order-differently"
				}
				return ""
			}, exprs...)
		}},
		{Name: "set-extract", Weight: 6, Gen: func(rnd *rand.Rand) *Inst {
			d := genContainer(rnd, 3)
			var p path
			var ok bool
			kind := "replace"
			if rnd.Intn(2) == 0 {
				p, ok = pickNewMember(rnd, d)
				kind = "new-member"
			}
			if !ok {
				p, ok = pickExisting(rnd, d)
				kind = "replace"
			}
			if !ok {
				return nil
			}
			val := genDoc(rnd, 1)
			want := setAt(d, p, val)
			// an unrelated existing path must keep its value
			var q path
			var qs []path
			allPaths(d, nil, &qs)
			for _, c := range qs {
				if !related(p, c) && keyOK(c) {
					q = c
					break
				}
			}
			ld, lv, sp := lit(d, rnd), lit(val, rnd), Q(p.String())
			exprs := []string{fmt.Sprintf("JSON_EXTRACT(JSON_SET(%s,%s,%s),%s)", ld, sp, lv, sp), fmt.Sprintf("JSON_SET(%s,%s,%s)", ld, sp, lv)}
			var qv any
			if q != nil {
				qv, _ = get(d, q)
				exprs = append(exprs, fmt.Sprintf("JSON_EXTRACT(JSON_SET(%s,%s,%s),%s)", ld, sp, lv, Q(q.String())))
			}
			kw := p.keyWorst()
			return g5lib.NewInst(kind+"/"+p.class(), []string{render(d, nil), p.String(), render(val, nil)}, func(v []V) string {
				sfx := ""
				if kw != "ident" && kw != "unicode" && kw != "space" {
					sfx = "/key-" + kw // unusual key spellings get their own signature
				}
				if !jsonEq(v[1], want) {
					return "set-result-differs-from-reference" + sfx
				}
				if !jsonEq(v[0], val) {
					return "extract-of-set-is-not-the-value" + sfx
				}
				if q != nil && !jsonEq(v[2], qv) {
					if qk := q.keyWorst(); qk != "ident" && qk != "unicode" && qk != "space" {
						return "other-path-extract-differs/key-" + qk
					}
					return "other-path-changed"
				}
				return ""
			}, exprs...)
		}},
		{Name: "remove-contains-path", Weight: 4, Gen: func(rnd *rand.Rand) *Inst {
			d := genContainer(rnd, 3)
			p, ok := pickExisting(rnd, d)
			if !ok {
				return nil
			}
			want := removeAt(d, p)
			last := p[len(p)-1]
			assertGone := !last.isIdx
			if last.isIdx {
				parent, _ := get(d, p[:len(p)-1])
				assertGone = last.idx == len(parent.([]any))-1
			}
			ld, sp := lit(d, rnd), Q(p.String())
			kw := p.keyWorst()
			cls := "member"
			if last.isIdx {
				cls = "index"
				if assertGone {
					cls = "last-index"
				}
			}
			return g5lib.NewInst(cls+"/"+p.class(), []string{render(d, nil), p.String()}, func(v []V) string {
				sfx := ""
				if kw != "ident" && kw != "unicode" && kw != "space" {
					sfx = "/key-" + kw
				}
				if v[2].Truth() != 1 {
					return "contains-path-false-for-existing-path" + sfx
				}
				if !jsonEq(v[1], want) {
					return "remove-result-differs-from-reference" + sfx
				}
				if assertGone && v[0].Truth() != 0 {
					return "contains-path-true-after-remove" + sfx
				}
				return ""
			}, fmt.Sprintf("JSON_CONTAINS_PATH(JSON_REMOVE(%s,%s),'one',%s)", ld, sp, sp), fmt.Sprintf("JSON_REMOVE(%s,%s)", ld, sp), fmt.Sprintf("JSON_CONTAINS_PATH(%s,'one',%s)", ld, sp))
		}},
		{Name: "array-append-length", Weight: 4, Gen: func(rnd *rand.Rand) *Inst {
			d := genContainer(rnd, 3)
			var ps []path
			allPaths(d, nil, &ps)
			ps = append(ps, path{})
			var arrs []path
			for _, p := range ps {
				if !keyOK(p) {
					continue
				}
				if n, _ := get(d, p); n != nil {
					if _, ok := n.([]any); ok {
						arrs = append(arrs, p)
					}
				}
			}
			if len(arrs) == 0 {
				return nil
			}
			p := arrs[rnd.Intn(len(arrs))]
			node, _ := get(d, p)
			arr := node.([]any)
			val := genDoc(rnd, 1)
			want := setAt(d, p, append(append([]any{}, arr...), val))
			ld, lv, sp := lit(d, rnd), lit(val, rnd), Q(p.String())
			kw := p.keyWorst()
			return g5lib.NewInst(fmt.Sprintf("len%d/%s", len(arr), p.class()), []string{render(d, nil), p.String(), render(val, nil)}, func(v []V) string {
				sfx := ""
				if kw != "ident" && kw != "unicode" && kw != "space" {
					sfx = "/key-" + kw
				}
				if !v[1].IsInt(int64(len(arr))) {
					return "length-of-array-differs-from-reference" + sfx
				}
				if !v[0].IsInt(int64(len(arr) + 1)) {
					return "append-does-not-add-exactly-one-element" + sfx
				}
				if !jsonEq(v[2], want) {
					return "append-result-differs-from-reference" + sfx
				}
				return ""
			}, fmt.Sprintf("JSON_LENGTH(JSON_ARRAY_APPEND(%s,%s,%s),%s)", ld, sp, lv, sp), fmt.Sprintf("JSON_LENGTH(%s,%s)", ld, sp), fmt.Sprintf("JSON_ARRAY_APPEND(%s,%s,%s)", ld, sp, lv))
		}},
		{Name: "insert-replace", Weight: 4, Gen: func(rnd *rand.Rand) *Inst {
			d := genContainer(rnd, 3)
			exists := rnd.Intn(2) == 0
			var p path
			var ok bool
			if exists {
				p, ok = pickExisting(rnd, d)
			} else {
				p, ok = pickNewMember(rnd, d)
			}
			if !ok {
				return nil
			}
			val := genDoc(rnd, 1)
			set := setAt(d, p, val)
			wantInsert, wantReplace := d, set // existing path: INSERT keeps, REPLACE replaces
			if !exists {
				wantInsert, wantReplace = set, d // new member: INSERT adds, REPLACE never adds
			}
			ld, lv, sp := lit(d, rnd), lit(val, rnd), Q(p.String())
			kw := p.keyWorst()
			cls := "new-member"
			if exists {
				cls = "existing"
			}
			return g5lib.NewInst(cls+"/"+p.class(), []string{render(d, nil), p.String(), render(val, nil)}, func(v []V) string {
				sfx := ""
				if kw != "ident" && kw != "unicode" && kw != "space" {
					sfx = "/key-" + kw
				}
				if !jsonEq(v[0], wantInsert) {
					if exists {
						return "insert-changed-an-existing-value" + sfx
					}
					return "insert-did-not-add-the-member" + sfx
				}
				if !jsonEq(v[1], wantReplace) {
					if exists {
						return "replace-did-not-replace" + sfx
					}
					return "replace-added-a-key" + sfx
				}
				return ""
			}, fmt.Sprintf("JSON_INSERT(%s,%s,%s)", ld, sp, lv), fmt.Sprintf("JSON_REPLACE(%s,%s,%s)", ld, sp, lv))
		}},
		{Name: "quote-unquote", Weight: 5, Gen: func(rnd *rand.Rand) *Inst {
			s := genString(rnd)
			cls := "text"
			switch {
			case s == "":
				cls = "empty"
			case strings.ContainsAny(s, "\x01\x1f\b\f"):
				cls = "control"
			case strings.ContainsAny(s, "\"\\"):
				cls = "quote-backslash"
			case g5lib.MultiByte(s):
				cls = "multibyte"
			}
			return g5lib.NewInst(cls, s, func(v []V) string {
				if !v[0].IsStr(s) {
					return "unquote-of-quote-differs"
				}
				q, ok := v[1].Str()
				if !ok {
					return "quote-not-a-string"
				}
				if valid, _ := keysInOrder(q); !valid {
					return "quote-is-not-a-valid-json-string"
				}
				if !jsonEq(v[2], s) {
					return "quoted-text-parsed-as-json-differs"
				}
				// the internal helpers, driven directly
				iq := internalshim.Quote(s)
				back, err := internalshim.Unquote(iq)
				if err != nil || back != s {
					return "internal-strings-unquote-of-quote-differs"
				}
				return ""
			}, "JSON_UNQUOTE(JSON_QUOTE("+Q(s)+"))", "JSON_QUOTE("+Q(s)+")", "CAST(JSON_QUOTE("+Q(s)+") AS JSON)")
		}},
		{Name: "walk-functions", Weight: 5, Gen: func(rnd *rand.Rand) *Inst {
			d := genDoc(rnd, 3)
			ld := lit(d, rnd)
			var p path
			if rnd.Intn(2) == 0 {
				if q, ok := pickExisting(rnd, d); ok && keyOK(q) {
					p = q
				}
			}
			node, _ := get(d, p)
			sp := Q(p.String())
			var wantKeys any
			if m, ok := node.(map[string]any); ok {
				ks := []any{}
				for _, k := range canonKeys(m) {
					ks = append(ks, k)
				}
				wantKeys = ks
			}
			return g5lib.NewInst(jsonType(node)+fmt.Sprintf("/depth%d/path%d", jsonDepth(node), len(p)), []string{render(d, nil), p.String()}, func(v []V) string {
				// an integer-valued number spelled as a double (1.5e10, 2.0) keeps kind DOUBLE in MySQL; this engine
				// normalises it to an integer — the kind of such numbers is generated but not judged
				// (the engine also reports UNSIGNED INTEGER for integers ≥ 2^32 that fit a signed BIGINT — a heuristic
				// of TypeOfJsonValue; INTEGER vs UNSIGNED INTEGER is therefore not judged for non-negative integers)
				if n, isNum := node.(num); isNum && n.rat().IsInt() {
					if strings.ContainsAny(n.text, ".eE") {
						// not judged
					} else if n.rat().Sign() >= 0 {
						if !v[0].IsStr("INTEGER") && !v[0].IsStr("UNSIGNED INTEGER") {
							return "json-type-differs-from-reference"
						}
					} else if !v[0].IsStr("INTEGER") {
						return "json-type-differs-from-reference"
					}
				} else if !v[0].IsStr(jsonType(node)) {
					return "json-type-differs-from-reference"
				}
				if !v[1].IsInt(int64(jsonDepth(node))) {
					return "json-depth-differs-from-reference"
				}
				if !v[2].IsInt(int64(jsonLength(node))) {
					return "json-length-differs-from-reference"
				}
				if wantKeys == nil {
					if !v[3].IsNull() {
						return "json-keys-of-non-object-not-null"
					}
				} else {
					e, ok := engineJSON(v[3])
					arr, isArr := e.([]any)
					if !ok || !isArr || len(arr) != len(wantKeys.([]any)) {
						return "json-keys-differ-from-reference"
					}
					for i, k := range wantKeys.([]any) {
						if arr[i] != k {
							if same(sortedCopy(wantKeys.([]any)), sortedCopyAny(arr)) {
								return "json-keys-not-in-canonical-order"
							}
							return "json-keys-differ-from-reference"
						}
					}
				}
				return ""
			}, fmt.Sprintf("JSON_TYPE(JSON_EXTRACT(%s,%s))", ld, sp), fmt.Sprintf("JSON_DEPTH(JSON_EXTRACT(%s,%s))", ld, sp), fmt.Sprintf("JSON_LENGTH(%s,%s)", ld, sp), fmt.Sprintf("JSON_KEYS(%s,%s)", ld, sp))
		}},
		{Name: "index-on-scalar", Weight: 2, Gen: func(rnd *rand.Rand) *Inst {
			// an index step applied to a non-array node: MySQL auto-wraps ($[0] of a scalar is the scalar), this
			// engine answers NULL; both are accepted — the law only demands an answer (no error, no panic)
			d := genContainer(rnd, 2)
			var ps, leaves []path
			allPaths(d, nil, &ps)
			for _, p := range ps {
				if n, _ := get(d, p); keyOK(p) {
					switch n.(type) {
					case []any:
					default:
						leaves = append(leaves, p)
					}
				}
			}
			if len(leaves) == 0 {
				return nil
			}
			p := leaves[rnd.Intn(len(leaves))]
			node, _ := get(d, p)
			pi := append(append(path{}, p...), step{idx: rnd.Intn(2), isIdx: true})
			return g5lib.NewInst(jsonType(node), []string{render(d, nil), pi.String()}, func(v []V) string {
				if v[0].IsNull() || jsonEq(v[0], node) {
					return ""
				}
				return "index-step-on-non-array-gives-another-value"
			}, fmt.Sprintf("JSON_EXTRACT(%s,%s)", lit(d, rnd), Q(pi.String())))
		}},
		{Name: "merge-patch-self", Weight: 3, Gen: func(rnd *rand.Rand) *Inst {
			d := genDoc(rnd, 3)
			want := stripNullMembers(d)
			cls := jsonType(d)
			if !sameRef(want, d) {
				cls += "/has-null-members"
			}
			ld := lit(d, rnd)
			return g5lib.NewInst(cls, render(d, nil), func(v []V) string {
				if !jsonEq(v[0], want) {
					return "merge-patch-with-itself-differs-from-rfc7396"
				}
				return ""
			}, fmt.Sprintf("JSON_MERGE_PATCH(%s,%s)", ld, lit(d, rnd)))
		}},
		{Name: "contains-self", Weight: 3, Gen: func(rnd *rand.Rand) *Inst {
			d := genDoc(rnd, 3)
			return g5lib.NewInst(jsonType(d)+fmt.Sprintf("/depth%d", jsonDepth(d)), render(d, nil), func(v []V) string {
				if v[0].Truth() != 1 {
					return "document-does-not-contain-itself"
				}
				return ""
			}, fmt.Sprintf("JSON_CONTAINS(%s,%s)", lit(d, rnd), lit(d, rnd)))
		}},
	}
}

// plainKey: member names of the core path domain. Excluded (known findings path-key-domain:*): the empty
// name and names containing a double quote, a backslash, '[' or ']', '$'; control characters are excluded
// without a claim (a raw control character inside a quoted path member is not clearly valid).
func plainKey(k string) bool {
	switch keyClass(k) {
	case "ident", "unicode", "space", "dot":
		return true
	}
	return false
}

// keyOK: every member name on the path is in the core domain.
func keyOK(p path) bool {
	for _, s := range p {
		if !s.isIdx && !plainKey(s.key) {
			return false
		}
	}
	return true
}

func sortedCopy(a []any) any {
	out := append([]any{}, a...)
	sortAny(out)
	return out
}

func sortedCopyAny(a []any) any {
	out := append([]any{}, a...)
	sortAny(out)
	return out
}

func sortAny(a []any) {
	for i := 1; i < len(a); i++ {
		for j := i; j > 0 && fmt.Sprint(a[j]) < fmt.Sprint(a[j-1]); j-- {
			a[j], a[j-1] = a[j-1], a[j]
		}
	}
}

// pinned replays the witnesses of the known findings (findings/C32.txt). The path-key-domain:* findings are
// domain exclusions: member names of these classes are not used in generated paths (plainKey).
func pinned(r *core.Run) {
	g5lib.Pin(r, "path-key-domain", "empty-member-name-resolves-to-the-parent", `JSON_EXTRACT with the empty member name $."" returns the enclosing object`,
		`JSON_EXTRACT('{"":5,"a":1}', '$.""')`, "json:5", `json:{"": 5, "a": 1}`)
	g5lib.Pin(r, "path-key-domain", "member-name-with-double-quote-not-found", `JSON_EXTRACT / JSON_CONTAINS_PATH do not find a member whose name contains an escaped double quote (JSON_SET does)`,
		`JSON_EXTRACT('{"a\\"b":5}', '$."a\\"b"')`, "json:5", "NULL")
	g5lib.Pin(r, "path-key-domain", "member-name-with-backslash-not-found", `a member whose name contains a backslash is not found by JSON_EXTRACT, and JSON_SET adds a second member with the doubled backslash`,
		`JSON_EXTRACT('{"a\\\\b":5}', '$."a\\\\b"')`, "json:5", "NULL")
	g5lib.Pin(r, "path-key-domain", "member-name-with-bracket-not-found", `JSON_EXTRACT does not honour the quotes around a member name containing '[' (JSON_SET does)`,
		`JSON_EXTRACT('{"x[0]":5}', '$."x[0]"')`, "json:5", "NULL")
	g5lib.Pin(r, "path-key-domain", "member-name-with-dollar-unsupported", `JSON_EXTRACT rejects a quoted member name containing '$'`,
		`JSON_EXTRACT('{"$":5}', '$."$"')`, "json:5", "ERR:unsupported jsonpath operation")
	g5lib.Pin(r, "path-key-domain", "member-name-with-leading-dot-not-found", `JSON_EXTRACT does not find a member whose name starts with '.'`,
		`JSON_EXTRACT('{".a":5}', '$.".a"')`, "json:5", "NULL")
	// panic: index step applied to a JSON null
	mode, detail := g5lib.RunOne(g5lib.NewInst("pinned", nil, func(v []V) string { return "" }, `JSON_EXTRACT('{"a":null}', '$.a[0]')`))
	r.Pinned("index-on-scalar:panic:sql/types.lookupJson", `JSON_EXTRACT('{"a":null}', '$.a[0]') panics (nil dereference in jsonpath.get_idx)`, mode == "panic:sql/types.lookupJson",
		map[string]any{"sql": `SELECT JSON_EXTRACT('{"a":null}', '$.a[0]')`, "observed": mode + " " + detail})
}
