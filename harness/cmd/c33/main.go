// C33 — regular-expression functions agree with each other and with the pattern.
//
// (1) Mutual agreement for every pattern that compiles: REGEXP_LIKE ⇔ REGEXP_INSTR > 0 ⇔ REGEXP_SUBSTR IS NOT
// NULL; the substring occurs at the reported position; return_option 1 = position + length; successive
// occurrences do not overlap; REGEXP_REPLACE substitutes exactly the reported occurrences; REGEXP / RLIKE equal
// REGEXP_LIKE; NULL arguments give NULL. (2) For patterns of the common RE2/ICU subset (every alternative
// consumes ≥ 1 character) all match spans equal Go's regexp (leftmost-first, like ICU's backtracking order).
// (3) Invalid patterns are errors for every function, and the session answers the next valid call correctly.
// (4) Eight sessions evaluating the same patterns concurrently get the same answers as a single session.
package main

import (
	"fmt"
	"math/rand"
	"regexp"
	"strings"
	"sync"
	"unicode/utf8"

	"verif/harness/core"
	"verif/harness/g5lib"
)

type L = g5lib.Law
type V = g5lib.Val
type Inst = g5lib.Inst

var Q = g5lib.Q

func main() {
	r := core.NewRun("C33", "exploration",
		"each evaluation is one (pattern, subject, position, occurrence, match type) instance: the REGEXP_* functions are compared with each other and, for the common subset, with Go regexp spans; distinct = (law, pattern shape, subject class, flags) that held")
	r.Fold(8, 3)
	r.Assume("patterns: literals, '.', classes, * + ? {m,n}, alternation, groups, ^ $, \\d \\w \\s \\b, flags c i m n; subjects ASCII (with newline in the middle) and BMP multi-byte; subjects with non-BMP characters form their own class")
	r.Assume("the reference comparison uses only patterns whose every alternative consumes at least one character; \\d \\w \\s \\b only on ASCII subjects; '$' never with a subject ending in a newline; replacement texts contain neither '$' nor '\\'")

	ru := g5lib.NewRunner(r, laws())
	ru.Batch = 12
	ru.Run("laws", r.N(6000, 60000)) // race-built: thorough is sized for the detector's slowdown (design: 150 000 without it)
	ru.Report()
	invalidPatterns(r)
	everyPosition(r)
	concurrent(r)
	pinned(r)
	// race build (file RACE): every data race the detector saw during the workload is a violation
	reports, blocks := core.RaceReports()
	r.Count("race-detector-blocks", int64(blocks))
	for _, rep := range reports {
		r.Violation(rep.Sig, rep.Block)
	}
	r.Finish()
}

// ---- generators ----

type pat struct {
	src      string
	shape    string
	nonEmpty bool // every alternative consumes ≥ 1 character (cannot match the empty string)
	ascii    bool // uses \d \w \s \b (reference only on ASCII subjects)
	dollar   bool
	emptyLoop bool // a quantified group whose body can match the empty string (excluded from the reference law)
}

var atomsASCII = []string{"a", "b", "c", "ab", "x", "1", " "}
var atomsMB = []string{"日", "本", "é", "語"}

func genAtom(rnd *rand.Rand, mb bool, p *pat) string {
	switch rnd.Intn(9) {
	case 0:
		return "."
	case 1:
		return []string{"[abc]", "[a-c]", "[^ab]", "[0-9]", "[a-z1]"}[rnd.Intn(5)]
	case 2:
		p.ascii = true
		return []string{"\\d", "\\w", "\\s"}[rnd.Intn(3)]
	case 3:
		if mb {
			return atomsMB[rnd.Intn(len(atomsMB))]
		}
	}
	return atomsASCII[rnd.Intn(len(atomsASCII))]
}

// genSeq builds a concatenation; returns source and whether it always consumes ≥ 1 character.
func genSeq(rnd *rand.Rand, mb bool, depth int, p *pat) (string, bool) {
	n := 1 + rnd.Intn(3)
	var b strings.Builder
	consumes := false
	for i := 0; i < n; i++ {
		var a string
		ac := true
		if depth > 0 && rnd.Intn(5) == 0 {
			inner, ic := genAlt(rnd, mb, depth-1, p)
			a, ac = "("+inner+")", ic
			p.shape += "g"
		} else {
			a = genAtom(rnd, mb, p)
			if len(a) > 1 && a[0] != '[' && a[0] != '\\' && !mb {
				a = "(" + a + ")" // multi-character literal: group it so that a quantifier applies to the whole atom
			}
		}
		q := rnd.Intn(8)
		if !ac && (q == 0 || q == 1 || q == 3) {
			// a repeated group that can match the empty string: backtracking engines (ICU, Perl) stop the loop at
			// an empty iteration, RE2/Go explore further alternatives — the spans legitimately differ
			p.emptyLoop = true
		}
		switch q {
		case 0:
			a, ac = a+"*", false
			p.shape += "*"
		case 1:
			a += "+"
			p.shape += "+"
		case 2:
			a, ac = a+"?", false
			p.shape += "?"
		case 3:
			lo := rnd.Intn(3)
			a += fmt.Sprintf("{%d,%d}", lo, lo+rnd.Intn(3))
			ac = ac && lo > 0
			p.shape += "{}"
		}
		b.WriteString(a)
		consumes = consumes || ac
	}
	return b.String(), consumes
}

func genAlt(rnd *rand.Rand, mb bool, depth int, p *pat) (string, bool) {
	n := 1
	if rnd.Intn(4) == 0 {
		n = 2 + rnd.Intn(2)
		p.shape += "|"
	}
	var parts []string
	all := true
	for i := 0; i < n; i++ {
		s, c := genSeq(rnd, mb, depth, p)
		parts = append(parts, s)
		all = all && c
	}
	return strings.Join(parts, "|"), all
}

func genPattern(rnd *rand.Rand, mb bool) pat {
	p := pat{}
	src, ne := genAlt(rnd, mb, 2, &p)
	if strings.Contains(src, "|") && rnd.Intn(2) == 0 {
		src = "(" + src + ")"
	}
	switch rnd.Intn(8) {
	case 0:
		src = "^" + wrapAlt(src)
		p.shape += "^"
	case 1:
		src = wrapAlt(src) + "$"
		p.shape += "$"
		p.dollar = true
	case 2:
		p.ascii = true
		src = "\\b" + wrapAlt(src)
		p.shape += "\\b"
	}
	p.src, p.nonEmpty = src, ne
	if p.shape == "" {
		p.shape = "plain"
	}
	return p
}

func wrapAlt(s string) string {
	if strings.Contains(s, "|") && !(strings.HasPrefix(s, "(") && strings.HasSuffix(s, ")")) {
		return "(" + s + ")"
	}
	return s
}

func genSubject(rnd *rand.Rand) (string, string) {
	switch rnd.Intn(6) {
	case 0:
		return "", "empty"
	case 1:
		al := []rune("日本語éab1 ")
		var b strings.Builder
		for i := 2 + rnd.Intn(10); i > 0; i-- {
			b.WriteRune(al[rnd.Intn(len(al))])
		}
		return b.String(), "bmp-multibyte"
	case 2:
		al := []rune("ab😀𝄞c1")
		var b strings.Builder
		for i := 2 + rnd.Intn(8); i > 0; i-- {
			b.WriteRune(al[rnd.Intn(len(al))])
		}
		if !strings.ContainsAny(b.String(), "😀𝄞") {
			b.WriteRune('😀')
		}
		return b.String(), "non-bmp"
	case 3:
		al := "abc1 x"
		var b strings.Builder
		for i := 3 + rnd.Intn(10); i > 0; i-- {
			b.WriteByte(al[rnd.Intn(len(al))])
		}
		s := b.String()
		k := 1 + rnd.Intn(len(s)-1)
		return s[:k] + "\n" + s[k:], "ascii-newline"
	}
	al := "aabbcc1 xAB"
	var b strings.Builder
	for i := 1 + rnd.Intn(14); i > 0; i-- {
		b.WriteByte(al[rnd.Intn(len(al))])
	}
	return b.String(), "ascii"
}

func genFlags(rnd *rand.Rand) string {
	// contradictory options: the rightmost one takes precedence ("ic" is case-sensitive, "ci" is not)
	f := []string{"c", "i", "c", "i", "ic", "ci"}[rnd.Intn(6)]
	if rnd.Intn(3) == 0 {
		f += "m"
	}
	if rnd.Intn(3) == 0 {
		f += "n"
	}
	return f
}

func goFlags(mt string) string {
	g := ""
	if strings.LastIndex(mt, "i") > strings.LastIndex(mt, "c") {
		g += "i"
	}
	if strings.Contains(mt, "m") {
		g += "m"
	}
	if strings.Contains(mt, "n") {
		g += "s"
	}
	if g == "" {
		return ""
	}
	return "(?" + g + ")"
}

func runeLen(s string) int { return utf8.RuneCountInString(s) }

func utf16Len(s string) int {
	n := 0
	for _, r := range s {
		n++
		if r > 0xffff {
			n++
		}
	}
	return n
}

// utf16ToRune converts a 1-based UTF-16 code unit position into the 1-based character position (0 if the
// position falls inside a surrogate pair or outside the string).
func utf16ToRune(s string, pos16 int) int {
	u, k := 1, 1
	for _, r := range s {
		if u == pos16 {
			return k
		}
		u++
		if r > 0xffff {
			u++
		}
		k++
	}
	if u == pos16 {
		return k
	}
	return 0
}

// spans returns Go's non-overlapping leftmost-first matches of re in s from character position pos (1-based)
// as (1-based character start, matched text).
func spans(re *regexp.Regexp, s string, pos int) (starts []int, texts []string) {
	rs := []rune(s)
	if pos < 1 || pos > len(rs)+1 {
		return nil, nil
	}
	// the search starts at pos: callers use pos > 1 only with patterns that do not look at what precedes the
	// start (no ^, no \b), so matching the tail alone is the same question
	sub := string(rs[pos-1:])
	for _, loc := range re.FindAllStringIndex(sub, -1) {
		starts = append(starts, pos+runeLen(sub[:loc[0]]))
		texts = append(texts, sub[loc[0]:loc[1]])
	}
	return
}

// ---- laws ----

func laws() []L {
	return []L{
		{Name: "agreement", Weight: 4, Gen: func(rnd *rand.Rand) *Inst {
			s, sc := genSubject(rnd)
			p := genPattern(rnd, sc == "bmp-multibyte")
			mt := genFlags(rnd)
			qs, qp, qm := Q(s), Q(p.src), Q(mt)
			return &Inst{Class: p.shape + "/" + sc + "/" + mt, Args: []string{s, p.src, mt}, OnErr: g5lib.ErrSkips, Exprs: []string{
				fmt.Sprintf("REGEXP_LIKE(%s,%s,%s)", qs, qp, qm),
				fmt.Sprintf("REGEXP_INSTR(%s,%s,1,1,0,%s)", qs, qp, qm),
				fmt.Sprintf("REGEXP_SUBSTR(%s,%s,1,1,%s)", qs, qp, qm),
				fmt.Sprintf("REGEXP_INSTR(%s,%s,1,1,1,%s)", qs, qp, qm),
				fmt.Sprintf("SUBSTRING(%s, REGEXP_INSTR(%s,%s,1,1,0,%s), CHAR_LENGTH(REGEXP_SUBSTR(%s,%s,1,1,%s)))", qs, qs, qp, qm, qs, qp, qm),
				fmt.Sprintf("REGEXP_LIKE(%s,%s)", qs, qp), fmt.Sprintf("%s REGEXP %s", qs, qp), fmt.Sprintf("%s RLIKE %s", qs, qp), fmt.Sprintf("%s NOT REGEXP %s", qs, qp),
			}, Check: func(v []V) string {
				like := v[0].Truth()
				pos, okp := v[1].Int()
				sub, oks := v[2].Str()
				if like < 0 || !okp {
					return "like-or-instr-not-a-number"
				}
				if (like == 1) != (pos > 0) {
					return "like-disagrees-with-instr"
				}
				if (like == 1) != oks || (!oks && !v[2].IsNull()) {
					return "like-disagrees-with-substr"
				}
				if like == 1 {
					end, oke := v[3].Int()
					if sc == "non-bmp" && oke && (end != pos+int64(runeLen(sub)) || !v[4].IsStr(sub)) {
						// known finding: positions are counted in UTF-16 code units (a non-BMP character counts twice);
						// matched only when the reported numbers are exactly the UTF-16 offsets of an occurrence of sub
						if rp := utf16ToRune(s, int(pos)); rp > 0 && end == pos+int64(utf16Len(sub)) {
							rs := []rune(s)
							if rp-1+runeLen(sub) <= len(rs) && string(rs[rp-1:rp-1+runeLen(sub)]) == sub {
								return "non-bmp-subject-positions-in-utf16-units"
							}
						}
					}
					if !oke || end != pos+int64(runeLen(sub)) {
						return "return-option-1-is-not-position-plus-length"
					}
					if !v[4].IsStr(sub) {
						return "substring-at-reported-position-is-not-the-match"
					}
				} else if !v[3].IsInt(0) {
					return "return-option-1-nonzero-without-match"
				}
				d := v[5].Truth()
				if d < 0 || v[6].Truth() != d || v[7].Truth() != d || v[8].Truth() != 1-d {
					return "regexp-operator-disagrees-with-regexp-like"
				}
				return ""
			}}
		}},
		{Name: "occurrences-replace", Weight: 4, Gen: func(rnd *rand.Rand) *Inst {
			s, sc := genSubject(rnd)
			for sc == "non-bmp" { // positions are UTF-16 units there (known finding of law agreement)
				s, sc = genSubject(rnd)
			}
			var p pat
			for try := 0; try < 20; try++ {
				p = genPattern(rnd, sc == "bmp-multibyte")
				if p.nonEmpty {
					break
				}
			}
			if !p.nonEmpty {
				return nil
			}
			mt := genFlags(rnd)
			pos := 1
			if n := runeLen(s); n > 0 && rnd.Intn(2) == 0 {
				pos = 1 + rnd.Intn(n)
			}
			x := []string{"", "X", "<>", "日"}[rnd.Intn(4)]
			qs, qp, qm := Q(s), Q(p.src), Q(mt)
			const K = 5
			var exprs []string
			for k := 1; k <= K; k++ {
				exprs = append(exprs, fmt.Sprintf("REGEXP_INSTR(%s,%s,%d,%d,0,%s)", qs, qp, pos, k, qm), fmt.Sprintf("REGEXP_SUBSTR(%s,%s,%d,%d,%s)", qs, qp, pos, k, qm))
			}
			kth := 1 + rnd.Intn(3)
			exprs = append(exprs, fmt.Sprintf("REGEXP_REPLACE(%s,%s,%s,%d,0,%s)", qs, qp, Q(x), pos, qm), fmt.Sprintf("REGEXP_REPLACE(%s,%s,%s,%d,%d,%s)", qs, qp, Q(x), pos, kth, qm),
				fmt.Sprintf("CHAR_LENGTH(REGEXP_REPLACE(%s,%s,'',%d,0,%s))", qs, qp, pos, qm))
			return &Inst{Class: fmt.Sprintf("%s/%s/%s/pos%v", p.shape, sc, mt, pos > 1), Args: []any{s, p.src, mt, pos, x, kth}, OnErr: g5lib.ErrSkips, Exprs: exprs, Check: func(v []V) string {
				if sc == "non-bmp" {
					return g5lib.Skip("non-bmp-subject") // positions are UTF-16 units there (known finding of law agreement)
				}
				rs := []rune(s)
				type occ struct {
					start int
					text  string
				}
				var occs []occ
				done := false
				for k := 0; k < K; k++ {
					st, ok := v[2*k].Int()
					tx, okt := v[2*k+1].Str()
					if !ok {
						return "instr-not-a-number"
					}
					if st == 0 != !okt {
						return "instr-and-substr-disagree-on-occurrence"
					}
					if st == 0 {
						done = true
						continue
					}
					if done {
						return "occurrence-reported-after-a-missing-one"
					}
					if int(st) < pos || int(st)-1+runeLen(tx) > len(rs) || string(rs[st-1:int(st)-1+runeLen(tx)]) != tx {
						return "reported-occurrence-is-not-at-its-position"
					}
					if n := len(occs); n > 0 && int(st) < occs[n-1].start+runeLen(occs[n-1].text) {
						return "occurrences-overlap"
					}
					if tx == "" {
						return "empty-match-for-pattern-that-consumes"
					}
					occs = append(occs, occ{int(st), tx})
				}
				if !done {
					return g5lib.Skip("more-than-K-occurrences")
				}
				// reference substitution of exactly the reported occurrences
				build := func(only int) string {
					var b strings.Builder
					cur := 0
					for i, o := range occs {
						if only > 0 && i+1 != only {
							continue
						}
						b.WriteString(string(rs[cur : o.start-1]))
						b.WriteString(x)
						cur = o.start - 1 + runeLen(o.text)
					}
					b.WriteString(string(rs[cur:]))
					return b.String()
				}
				if !v[2*K].IsStr(build(0)) {
					return "replace-all-differs-from-reported-occurrences"
				}
				if !v[2*K+1].IsStr(build(kth)) {
					return "replace-kth-differs-from-reported-occurrence"
				}
				total := 0
				for _, o := range occs {
					total += runeLen(o.text)
				}
				if !v[2*K+2].IsInt(int64(len(rs) - total)) {
					return "length-after-removing-matches-differs"
				}
				return ""
			}}
		}},
		{Name: "reference-spans", Weight: 5, Gen: func(rnd *rand.Rand) *Inst {
			s, sc := genSubject(rnd)
			if sc == "non-bmp" {
				s, sc = "ab c1 xAB", "ascii"
			}
			var p pat
			ok := false
			for try := 0; try < 30; try++ {
				p = genPattern(rnd, sc == "bmp-multibyte")
				if p.nonEmpty && !p.emptyLoop && !(p.ascii && sc == "bmp-multibyte") && !(p.dollar && strings.HasSuffix(s, "\n")) {
					ok = true
					break
				}
			}
			if !ok {
				return nil
			}
			mt := genFlags(rnd)
			re, err := regexp.Compile(goFlags(mt) + p.src)
			if err != nil {
				return nil
			}
			pos := 1
			if n := runeLen(s); n > 0 && rnd.Intn(3) == 0 && !strings.Contains(p.shape, "^") && !strings.Contains(p.shape, "\\b") {
				pos = 1 + rnd.Intn(n)
			}
			starts, texts := spans(re, s, pos)
			if len(starts) > 6 {
				return nil
			}
			qs, qp, qm := Q(s), Q(p.src), Q(mt)
			var exprs []string
			for k := 1; k <= len(starts)+1; k++ {
				exprs = append(exprs, fmt.Sprintf("REGEXP_INSTR(%s,%s,%d,%d,0,%s)", qs, qp, pos, k, qm), fmt.Sprintf("REGEXP_SUBSTR(%s,%s,%d,%d,%s)", qs, qp, pos, k, qm))
			}
			exprs = append(exprs, fmt.Sprintf("REGEXP_LIKE(%s,%s,%s)", qs, qp, qm))
			whole, _ := spans(re, s, 1)
			cls := fmt.Sprintf("%s/%s/%s/n=%d", p.shape, sc, mt, len(starts))
			return &Inst{Class: cls, Args: []any{s, p.src, mt, pos, starts, texts}, Exprs: exprs, Check: func(v []V) string {
				for k := range starts {
					if !v[2*k].IsInt(int64(starts[k])) {
						if v[2*k].IsInt(0) {
							return "match-of-reference-engine-not-found"
						}
						return "match-position-differs-from-reference-engine"
					}
					if !v[2*k+1].IsStr(texts[k]) {
						return "match-text-differs-from-reference-engine"
					}
				}
				n := len(starts)
				if !v[2*n].IsInt(0) || !v[2*n+1].IsNull() {
					return "extra-match-not-found-by-reference-engine"
				}
				want := 0
				if len(whole) > 0 {
					want = 1
				}
				if v[2*n+2].Truth() != want {
					return "regexp-like-differs-from-reference-engine"
				}
				return ""
			}}
		}},
		{Name: "null-arguments", Weight: 1, Gen: func(rnd *rand.Rand) *Inst {
			calls := []string{"REGEXP_LIKE(%s,%s)", "REGEXP_INSTR(%s,%s)", "REGEXP_SUBSTR(%s,%s)", "REGEXP_REPLACE(%s,%s,'x')", "%s REGEXP %s", "%s RLIKE %s"}
			c := rnd.Intn(len(calls))
			a, b := "'abc'", "'b'"
			which := "subject"
			if rnd.Intn(2) == 0 {
				a = "NULL"
			} else {
				b, which = "NULL", "pattern"
			}
			extra := ""
			if c == 3 && rnd.Intn(3) == 0 {
				return g5lib.NewInst("REGEXP_REPLACE/replacement", nil, g5lib.WantNull("null-argument-gives-non-null"), "REGEXP_REPLACE('abc','b',NULL)")
			}
			_ = extra
			return g5lib.NewInst(fmt.Sprintf("call%d/%s", c, which), nil, g5lib.WantNull("null-argument-gives-non-null"), fmt.Sprintf(calls[c], a, b))
		}},
	}
}

// ---- invalid patterns ----

var invalidPats = []string{"(", ")", "a(b", "[a", "a{2,1}", "*a", "a\\", "(?<n", "[z-a]", "a**", "+", "x{1,", "(?P<n>a)"}

var regexCalls = []struct{ name, f string }{
	{"REGEXP_LIKE", "REGEXP_LIKE(%s,%s)"}, {"REGEXP_INSTR", "REGEXP_INSTR(%s,%s)"}, {"REGEXP_SUBSTR", "REGEXP_SUBSTR(%s,%s)"},
	{"REGEXP_REPLACE", "REGEXP_REPLACE(%s,%s,'x')"}, {"REGEXP", "%s REGEXP %s"},
}

// invalidPatterns: every function raises an error for a pattern that does not compile (never a value, never a
// panic), and the same session answers the next valid call correctly.
func invalidPatterns(r *core.Run) {
	n := r.N(600, 6000)
	var engs [8]*core.Eng
	var sess [8]*core.Sess
	for w := range engs { // created sequentially before the workers start (see g5lib.Runner.Run)
		engs[w] = core.NewEng("d")
		sess[w] = engs[w].NewSess()
	}
	defer func() {
		for _, e := range engs {
			e.Close()
		}
	}()
	r.Parallel("invalid", 8, func(w int) {
		s := sess[w]
		for i := w; i < n; i += 8 {
			rnd := r.Rand("invalid", i)
			bad := invalidPats[rnd.Intn(len(invalidPats))]
			if rnd.Intn(3) == 0 && bad[0] != '*' && bad[0] != '+' {
				bad = "ab" + bad // (a leading quantifier would become valid behind a prefix)
			}
			c := regexCalls[rnd.Intn(len(regexCalls))]
			subj, _ := genSubject(rnd)
			q := "SELECT " + fmt.Sprintf(c.f, Q(subj), Q(bad))
			res := s.Exec(q)
			r.Eval(1)
			switch {
			case res.Panic != nil:
				r.Violation("invalid-pattern:panic:"+res.Panic.Site, map[string]any{"sql": q, "panic": res.Panic.Value})
				continue
			case res.TimedOut:
				r.Inconclusive("timeout")
				continue
			case res.Err == nil:
				// ICU accepts a few spellings that RE2 rejects; only the certainly-invalid ones are asserted
				if bad == "(?P<n>a)" || strings.HasSuffix(bad, "(?P<n>a)") {
					r.Count("icu-accepts-named-group-spelling", 1)
					continue
				}
				r.Violation("invalid-pattern:no-error:"+c.name, map[string]any{"sql": q, "rows": core.ClipStrings(core.CanonRows(res.Rows), 3)})
				continue
			}
			r.Distinct("invalid|" + c.name + "|" + bad)
			// the session must still work and must not leak state of the failed compile into the next call
			q2 := "SELECT REGEXP_INSTR('xxabcabc','b.',1,2), REGEXP_SUBSTR('xxabcabc','b.',1,2), REGEXP_REPLACE('abc','b','-'), REGEXP_LIKE('abc','^a.c$')"
			r2 := s.Exec(q2)
			r.Eval(1)
			if r2.Failed() || len(r2.Rows) != 1 || core.CanonRow(r2.Rows[0]) != "7|'bc'|'a-c'|1" {
				got := "error"
				if !r2.Failed() && len(r2.Rows) == 1 {
					got = core.CanonRow(r2.Rows[0])
				}
				r.Violation("invalid-pattern:next-valid-call-wrong", map[string]any{"after": q, "sql": q2, "got": got, "err": fmt.Sprint(r2.Err)})
			}
		}
	})
}

// ---- concurrency: sessions sharing patterns ----

// concurrent: 8 sessions of ONE engine evaluate the same statements (same patterns, different subjects per
// session interleaved) at the same time; every answer must equal the answer a single session gave before.
func concurrent(r *core.Run) {
	rounds := r.N(6, 40)
	for round := 0; round < rounds; round++ {
		rnd := r.Rand("concurrent", round)
		e := core.NewEng("d")
		var qs []string
		for i := 0; i < 40; i++ {
			s, sc := genSubject(rnd)
			p := genPattern(rnd, sc == "bmp-multibyte")
			mt := genFlags(rnd)
			qs = append(qs, fmt.Sprintf("SELECT REGEXP_LIKE(%s,%s,%s), REGEXP_INSTR(%s,%s,1,1,0,%s), REGEXP_SUBSTR(%s,%s,1,1,%s), REGEXP_REPLACE(%s,%s,'#',1,0,%s)", Q(s), Q(p.src), Q(mt), Q(s), Q(p.src), Q(mt), Q(s), Q(p.src), Q(mt), Q(s), Q(p.src), Q(mt)))
		}
		base := make([]string, len(qs))
		s0 := e.NewSess()
		for i, q := range qs {
			res := s0.Exec(q)
			if res.Failed() || len(res.Rows) != 1 {
				base[i] = "ERR"
			} else {
				base[i] = core.CanonRow(res.Rows[0])
			}
		}
		var wg sync.WaitGroup
		var ss [8]*core.Sess
		for w := range ss {
			ss[w] = e.NewSess()
		}
		for w := 0; w < 8; w++ {
			wg.Add(1)
			go func(w int) {
				defer wg.Done()
				s := ss[w]
				for rep := 0; rep < 3; rep++ {
					for k := range qs {
						i := (k*7 + w*5 + rep) % len(qs)
						res := s.Exec(qs[i])
						got := "ERR"
						if res.Panic != nil {
							r.Violation("concurrent:panic:"+res.Panic.Site, map[string]any{"sql": qs[i], "panic": res.Panic.Value})
							continue
						}
						if !res.Failed() && len(res.Rows) == 1 {
							got = core.CanonRow(res.Rows[0])
						}
						r.Eval(1)
						if got != base[i] {
							r.Violation("concurrent:answer-differs-from-single-session", map[string]any{"sql": qs[i], "single": base[i], "concurrent": got, "session": w})
						}
					}
				}
			}(w)
		}
		wg.Wait()
		r.Distinct(fmt.Sprintf("concurrent|round%d", round%6))
		e.Close()
	}
}

// pinned replays the witness of the known finding (findings/C33.txt).
func pinned(r *core.Run) {
	g5lib.Pin(r, "agreement", "non-bmp-subject-positions-in-utf16-units", "REGEXP_INSTR counts positions in UTF-16 code units: a non-BMP character before the match shifts the position by one",
		"REGEXP_INSTR('a😀b','b')", "3", "4")
}
