package main

import (
	"fmt"
	"regexp"
	"strings"

	"verif/harness/core"
)

// everyPosition runs REGEXP_INSTR / REGEXP_SUBSTR / REGEXP_REPLACE at every start position 1..len of short
// ASCII subjects, each as its own statement (so an error is attributable to one function): inside the
// subject all three must answer, and they must agree with each other and with Go's regexp on the suffix.
// The batched laws skip a case when any expression of the batch errors, which hides a function that starts
// rejecting a valid position (e.g. position == length) while the others still accept it.
func everyPosition(r *core.Run) {
	n := r.N(160, 4000)
	alpha := "abcab"
	// one engine, one goroutine: engines must not be constructed concurrently in a race build (engine
	// construction writes process-global status variables, which is outside this property)
	e := core.NewEng("d")
	defer e.Close()
	s := e.NewSess()
	for i := 0; i < n; i++ {
		rnd := r.Rand("every-position", i)
		l := 1 + rnd.Intn(6)
		var sb strings.Builder
		for k := 0; k < l; k++ {
			sb.WriteByte(alpha[rnd.Intn(len(alpha))])
		}
		subj := sb.String()
		pats := []string{"a", "b", "c", "[ab]", "ab", "c+", "[bc]a?"}
		pat := pats[rnd.Intn(len(pats))]
		re := regexp.MustCompile(pat)
		for pos := 1; pos <= l; pos++ {
			suffix := subj[pos-1:]
			loc := re.FindStringIndex(suffix)
			wantInstr := 0
			wantSub := "NULL"
			if loc != nil {
				wantInstr = pos + loc[0]
				wantSub = "'" + suffix[loc[0]:loc[1]] + "'"
			}
			wantRep := "'" + subj[:pos-1] + re.ReplaceAllString(suffix, "-") + "'"
			type one struct{ fn, sql, want string }
			for _, q := range []one{
				{"regexp_instr", fmt.Sprintf("SELECT REGEXP_INSTR('%s','%s',%d)", subj, pat, pos), fmt.Sprint(wantInstr)},
				{"regexp_substr", fmt.Sprintf("SELECT REGEXP_SUBSTR('%s','%s',%d)", subj, pat, pos), wantSub},
				{"regexp_replace", fmt.Sprintf("SELECT REGEXP_REPLACE('%s','%s','-',%d)", subj, pat, pos), wantRep},
			} {
				res := s.Exec(q.sql)
				cls := "inside"
				if pos == l {
					cls = "position-equals-length"
				} else if pos == 1 {
					cls = "position-1"
				}
				if res.Panic != nil {
					r.Violation(res.Panic.Sig(), map[string]any{"sql": q.sql, "panic": res.Panic.Value})
					continue
				}
				if res.TimedOut {
					r.Inconclusive("timeout")
					continue
				}
				r.Eval(1)
				r.Count("every-position.evaluations", 1)
				if res.Err != nil {
					r.Violation("every-position:"+q.fn+":error-at-valid-position:"+cls, map[string]any{"sql": q.sql, "error": fmt.Sprint(res.Err), "subject_length": l, "position": pos})
					continue
				}
				got := "NOROW"
				if len(res.Rows) == 1 {
					got = core.Canon(res.Rows[0][0])
				}
				if got != q.want {
					r.Violation("every-position:"+q.fn+":differs-from-reference:"+cls, map[string]any{"sql": q.sql, "got": got, "want": q.want})
					continue
				}
				r.Distinct("every-position|" + q.fn + "|" + cls + "|" + pat)
			}
		}
		if i == 0 {
			r.Sample(map[string]any{"law": "every-position", "subject": subj, "pattern": pat, "positions": l})
		}
	}
	r.Floor(r.Counter("every-position.evaluations") > 0, "no per-position regexp evaluation")
}
