package main

import (
	"fmt"
	"math/big"

	"verif/harness/core"
)

// bigUnsigned evaluates the integer-preserving numeric functions on BIGINT UNSIGNED arguments above
// 2^63-1, as literals and as column values: TRUNCATE(x, d) is x for d >= 0 and x - (x mod 10^-d) for d < 0;
// FLOOR, CEIL and ROUND(x) are the identity on integers. The law runner's random integers almost never
// land in the upper half of the unsigned range, which is where a signed conversion clamps.
func bigUnsigned(r *core.Run) {
	e := core.NewEng("d")
	defer e.Close()
	s := e.NewSess()
	vals := []string{"18446744073709551615", "18446744073709551614", "9223372036854775808", "9223372036854775809", "12345678901234567890", "9223372036854775807", "10000000000000000000"}
	s.MustExec("CREATE TABLE bu (id INT PRIMARY KEY, u BIGINT UNSIGNED)")
	for i, v := range vals {
		s.MustExec(fmt.Sprintf("INSERT INTO bu VALUES (%d, %s)", i+1, v))
	}
	check := func(law, q, want string) {
		res := s.Exec(q)
		if res.Panic != nil {
			r.Violation(res.Panic.Sig(), map[string]any{"sql": q, "panic": res.Panic.Value})
			return
		}
		r.Eval(1)
		r.Count("big-unsigned.evaluations", 1)
		if res.Failed() {
			r.Violation("big-unsigned:"+law+":error", map[string]any{"sql": q, "error": fmt.Sprint(res.Err)})
			return
		}
		got := core.Canon(res.Rows[0][0])
		if got != want {
			r.Violation("big-unsigned:"+law+":wrong-value", map[string]any{"sql": q, "got": got, "want": want})
			return
		}
		r.Distinct("big-unsigned|" + law)
	}
	for i, v := range vals {
		x, _ := new(big.Int).SetString(v, 10)
		for _, d := range []int{0, 1, 2, -1, -2, -3, -19} {
			want := new(big.Int).Set(x)
			if d < 0 {
				m := new(big.Int).Exp(big.NewInt(10), big.NewInt(int64(-d)), nil)
				want.Sub(x, new(big.Int).Mod(x, m))
			}
			check(fmt.Sprintf("truncate-literal:d%d", d), fmt.Sprintf("SELECT TRUNCATE(%s, %d)", v, d), want.String())
			check(fmt.Sprintf("truncate-column:d%d", d), fmt.Sprintf("SELECT TRUNCATE(u, %d) FROM bu WHERE id = %d", d, i+1), want.String())
		}
		for _, fn := range []string{"FLOOR", "CEIL", "ROUND", "ABS"} {
			check(fn+"-literal", fmt.Sprintf("SELECT %s(%s)", fn, v), v)
			check(fn+"-column", fmt.Sprintf("SELECT %s(u) FROM bu WHERE id = %d", fn, i+1), v)
		}
	}
	r.Floor(r.Counter("big-unsigned.evaluations") > 0, "big unsigned battery did not run")
}
