package main

import (
	"crypto/md5"
	"crypto/sha1"
	"crypto/sha256"
	"crypto/sha512"
	"encoding/base64"
	"fmt"
	"hash/crc32"
	"math/big"
	"math/bits"
	"math/rand"
	"net/netip"
	"strconv"
	"strings"

	"verif/harness/g5lib"
)

func upHex(b []byte) string { return strings.ToUpper(fmt.Sprintf("%x", b)) }

// genU64 draws an unsigned 64-bit value biased to boundaries.
func genU64(rnd *rand.Rand) (uint64, string) {
	switch rnd.Intn(8) {
	case 0:
		return 0, "zero"
	case 1:
		return uint64(rnd.Intn(256)), "byte"
	case 2:
		return 1<<63 - 1, "maxint64"
	case 3:
		return 1 << 63, "2^63"
	case 4:
		return ^uint64(0), "maxuint64"
	case 5:
		return uint64(1) << uint(rnd.Intn(64)), "pow2"
	case 6:
		return rnd.Uint64(), "random64"
	}
	return uint64(rnd.Int63n(1 << 32)), "random32"
}

func genI64(rnd *rand.Rand) (int64, string) {
	switch rnd.Intn(8) {
	case 0:
		return 0, "zero"
	case 1:
		return int64(rnd.Intn(512)) - 256, "small"
	case 2:
		return 1<<63 - 1, "maxint64"
	case 3:
		return -1 << 63, "minint64"
	case 4:
		return -1, "minus1"
	case 5:
		if rnd.Intn(3) == 0 {
			return []int64{-128, -32768, -8388608, -2147483648, 127, 32767, 2147483647}[rnd.Intn(7)], "narrow-type-boundary"
		}
		return -int64(rnd.Int63n(1 << 40)), "negative"
	case 6:
		return rnd.Int63(), "random63"
	}
	return int64(rnd.Int31()), "random31"
}

// binBytesUnpadded reproduces a BIN() that prints each byte of the two's complement value in binary
// without padding it to 8 digits (matcher of a known finding).
func binBytesUnpadded(n int64) string {
	u := uint64(n)
	s := ""
	for i := 7; i >= 0; i-- {
		s += strconv.FormatUint((u>>(8*uint(i)))&0xff, 2)
	}
	return s
}

func codecLaws() []L {
	return []L{
		{Name: "hex-unhex", Weight: 3, Gen: func(rnd *rand.Rand) *Inst {
			b, c := g5lib.GenBytes(rnd)
			return g5lib.NewInst(c, upHex(b), func(v []V) string {
				if !v[0].IsStr(string(b)) {
					return "unhex-of-hex-differs"
				}
				if !v[1].IsStr(upHex(b)) {
					return "hex-differs-from-reference"
				}
				if !v[2].IsStr(string(b)) {
					return "unhex-of-lowercase-differs"
				}
				return ""
			}, "UNHEX(HEX("+g5lib.X(b)+"))", "HEX("+g5lib.X(b)+")", "UNHEX("+Q(fmt.Sprintf("%x", b))+")")
		}},
		{Name: "unhex-invalid", Gen: func(rnd *rand.Rand) *Inst {
			// a string containing a non-hex digit is not a hex encoding: UNHEX must be NULL
			s := fmt.Sprintf("%x", rnd.Uint32())
			bad := []string{"g", "z", " ", "-", "é", "x"}[rnd.Intn(6)]
			k := rnd.Intn(len(s) + 1)
			s = s[:k] + bad + s[k:]
			if len(s)%2 == 1 {
				s += "0"
			}
			return g5lib.NewInst("bad="+bad, s, g5lib.WantNull("non-hex-input-not-null"), "UNHEX("+Q(s)+")")
		}},
		{Name: "hex-int", Weight: 2, Gen: func(rnd *rand.Rand) *Inst {
			if rnd.Intn(2) == 0 {
				n, c := genI64(rnd)
				return g5lib.NewInst("signed/"+c, n, g5lib.WantStr(strings.ToUpper(strconv.FormatUint(uint64(n), 16)), "differs-from-two's-complement-hex"), "HEX("+I(n)+")")
			}
			n, c := genU64(rnd)
			return g5lib.NewInst("unsigned/"+c, n, g5lib.WantStr(strings.ToUpper(strconv.FormatUint(n, 16)), "differs-from-reference-hex"), fmt.Sprintf("HEX(%d)", n))
		}},
		{Name: "base64", Weight: 3, Gen: func(rnd *rand.Rand) *Inst {
			b, c := g5lib.GenBytes(rnd)
			return g5lib.NewInst(c, upHex(b), func(v []V) string {
				if !v[0].IsStr(string(b)) {
					return "from-of-to-differs"
				}
				enc, ok := v[1].Str()
				if !ok {
					return "to-base64-not-a-string"
				}
				// MySQL breaks the output into lines of 76 characters; the alphabet and padding are standard
				if strings.ReplaceAll(enc, "\n", "") != base64.StdEncoding.EncodeToString(b) {
					return "to-base64-differs-from-reference"
				}
				for _, line := range strings.Split(enc, "\n") {
					if len(line) > 76 {
						return "line-longer-than-76"
					}
				}
				if !v[2].IsStr(string(b)) {
					return "from-base64-of-reference-encoding-differs"
				}
				return ""
			}, "FROM_BASE64(TO_BASE64("+g5lib.X(b)+"))", "TO_BASE64("+g5lib.X(b)+")", "FROM_BASE64("+Q(base64.StdEncoding.EncodeToString(b))+")")
		}},
		{Name: "conv-roundtrip", Weight: 4, Gen: func(rnd *rand.Rand) *Inst {
			n, c := genU64(rnd)
			k := 2 + rnd.Intn(35)
			want := strings.ToUpper(strconv.FormatUint(n, k))
			dec := strconv.FormatUint(n, 10)
			return g5lib.NewInst(fmt.Sprintf("%s/base%d", c, k), []any{n, k}, func(v []V) string {
				if !v[0].IsStr(dec) {
					return "roundtrip-differs"
				}
				if !v[1].IsStr(want) {
					return "differs-from-reference-digits"
				}
				if !v[2].IsStr(dec) {
					return "lowercase-digits-not-accepted"
				}
				return ""
			}, fmt.Sprintf("CONV(CONV('%s',10,%d),%d,10)", dec, k, k), fmt.Sprintf("CONV('%s',10,%d)", dec, k), fmt.Sprintf("CONV('%s',%d,10)", strings.ToLower(want), k))
		}},
		{Name: "conv-signed", Gen: func(rnd *rand.Rand) *Inst {
			// negative to_base: the value is treated as signed and printed with a minus sign
			n, c := genI64(rnd)
			k := 2 + rnd.Intn(35)
			want := strings.ToUpper(strconv.FormatInt(n, k))
			return g5lib.NewInst(fmt.Sprintf("%s/base%d", c, k), []any{n, k}, func(v []V) string {
				if !v[0].IsStr(want) {
					return "signed-digits-differ-from-reference"
				}
				if !v[1].IsStr(strconv.FormatInt(n, 10)) {
					return "signed-roundtrip-differs"
				}
				return ""
			}, fmt.Sprintf("CONV('%d',-10,-%d)", n, k), fmt.Sprintf("CONV(CONV('%d',-10,-%d),-%d,-10)", n, k, k))
		}},
		{Name: "bin-oct-hex-conv", Weight: 2, Gen: func(rnd *rand.Rand) *Inst {
			n, c := genI64(rnd)
			u := uint64(n)
			return g5lib.NewInst(c, n, func(v []V) string {
				if !v[0].IsStr(strconv.FormatUint(u, 2)) {
					if n < 0 && v[0].IsStr(binBytesUnpadded(n)) {
						return "bin-of-negative-concatenates-unpadded-bytes"
					}
					return "bin-differs-from-reference"
				}
				if !v[1].IsStr(strconv.FormatUint(u, 8)) {
					return "oct-differs-from-reference"
				}
				b, o := strconv.FormatUint(u, 2), strconv.FormatUint(u, 8)
				h, _ := v[5].Str()
				if !v[2].IsStr(b) || !v[3].IsStr(o) || !v[4].IsStr(h) {
					return "disagrees-with-conv"
				}
				return ""
			}, "BIN("+I(n)+")", "OCT("+I(n)+")", fmt.Sprintf("CONV(%s,10,2)", I(n)), fmt.Sprintf("CONV(%s,10,8)", I(n)), fmt.Sprintf("CONV(%s,10,16)", I(n)), "HEX("+I(n)+")")
		}},
		{Name: "bit-count", Gen: func(rnd *rand.Rand) *Inst {
			n, c := genI64(rnd)
			return g5lib.NewInst(c, n, g5lib.WantInt(int64(bits.OnesCount64(uint64(n))), "differs-from-popcount"), "BIT_COUNT("+I(n)+")")
		}},
		{Name: "inet-ntoa-aton", Weight: 4, Gen: func(rnd *rand.Rand) *Inst {
			var o [4]int
			for i := range o {
				switch rnd.Intn(4) {
				case 0:
					o[i] = []int{0, 1, 127, 128, 255}[rnd.Intn(5)]
				default:
					o[i] = rnd.Intn(256)
				}
			}
			ip := fmt.Sprintf("%d.%d.%d.%d", o[0], o[1], o[2], o[3])
			num := int64(o[0])<<24 | int64(o[1])<<16 | int64(o[2])<<8 | int64(o[3])
			cls := "first-octet<128"
			if o[0] >= 128 {
				cls = "first-octet>=128"
			}
			return g5lib.NewInst(cls, ip, func(v []V) string {
				if !v[0].IsInt(num) {
					return "aton-differs-from-reference"
				}
				if !v[1].IsStr(ip) {
					if o[0] >= 128 && v[1].IsStr("127.255.255.255") {
						return "first-octet>=128-clamped-to-127.255.255.255"
					}
					return "ntoa-of-aton-differs"
				}
				return ""
			}, "INET_ATON("+Q(ip)+")", "INET_NTOA(INET_ATON("+Q(ip)+"))")
		}},
		{Name: "inet6", Weight: 3, Gen: func(rnd *rand.Rand) *Inst {
			var b [16]byte
			cls := "random"
			switch rnd.Intn(5) {
			case 0:
				rnd.Read(b[:])
			case 1: // zero run somewhere
				rnd.Read(b[:])
				a := rnd.Intn(7) * 2
				end := a + 2 + rnd.Intn(8)
				for i := a; i < end && i < 16; i++ {
					b[i] = 0
				}
				b[0] |= 0x20
				cls = "zero-run"
			case 2: // leading zeros in groups
				for i := 0; i < 16; i += 2 {
					b[i+1] = byte(rnd.Intn(256))
				}
				b[0] = 0x20
				cls = "short-groups"
			case 3: // IPv4-mapped
				b[10], b[11] = 0xff, 0xff
				rnd.Read(b[12:])
				cls = "v4-mapped"
			default: // trailing zeros
				rnd.Read(b[:4])
				b[0] |= 0x20
				cls = "trailing-zeros"
			}
			if cls != "v4-mapped" {
				// keep away from the IPv4-compatible (::a.b.c.d) spelling, whose canonical text is a convention
				zero := true
				for _, x := range b[:10] {
					if x != 0 {
						zero = false
					}
				}
				if zero {
					b[0] = 0x20
				}
			}
			addr := netip.AddrFrom16(b)
			text := addr.String()
			full := fmt.Sprintf("%x:%x:%x:%x:%x:%x:%x:%x", uint16(b[0])<<8|uint16(b[1]), uint16(b[2])<<8|uint16(b[3]), uint16(b[4])<<8|uint16(b[5]), uint16(b[6])<<8|uint16(b[7]),
				uint16(b[8])<<8|uint16(b[9]), uint16(b[10])<<8|uint16(b[11]), uint16(b[12])<<8|uint16(b[13]), uint16(b[14])<<8|uint16(b[15]))
			return g5lib.NewInst(cls, text, func(v []V) string {
				if !v[0].IsStr(string(b[:])) || !v[1].IsStr(string(b[:])) {
					return "aton-bytes-differ-from-reference"
				}
				out, ok := v[2].Str()
				if !ok {
					return "ntoa-not-a-string"
				}
				back, err := netip.ParseAddr(out)
				if err != nil || back.As16() != b {
					return "ntoa-of-aton-denotes-another-address"
				}
				// the exact spelling (which zero run is compressed) is a convention and is not judged
				return ""
			}, "INET6_ATON("+Q(text)+")", "INET6_ATON("+Q(full)+")", "INET6_NTOA(INET6_ATON("+Q(text)+"))")
		}},
		{Name: "inet6-v4", Gen: func(rnd *rand.Rand) *Inst {
			ip := fmt.Sprintf("%d.%d.%d.%d", rnd.Intn(256), rnd.Intn(256), rnd.Intn(256), rnd.Intn(256))
			a := netip.MustParseAddr(ip).As4()
			return g5lib.NewInst("ipv4", ip, func(v []V) string {
				if !v[0].IsStr(string(a[:])) {
					return "aton-bytes-differ-from-reference"
				}
				if !v[1].IsStr(ip) {
					return "ntoa-of-aton-differs"
				}
				return ""
			}, "INET6_ATON("+Q(ip)+")", "INET6_NTOA(INET6_ATON("+Q(ip)+"))")
		}},
		{Name: "compress", Weight: 3, Gen: func(rnd *rand.Rand) *Inst {
			b, c := g5lib.GenBytes(rnd)
			if rnd.Intn(6) == 0 {
				b, c = []byte(strings.Repeat("abcabc", 200+rnd.Intn(2000))), "repetitive"
			}
			return g5lib.NewInst(c, len(b), func(v []V) string {
				if !v[0].IsStr(string(b)) {
					return "uncompress-of-compress-differs"
				}
				if !v[1].IsInt(int64(len(b))) {
					return "uncompressed-length-differs"
				}
				return ""
			}, "UNCOMPRESS(COMPRESS("+g5lib.X(b)+"))", "UNCOMPRESSED_LENGTH(COMPRESS("+g5lib.X(b)+"))")
		}},
		{Name: "hashes", Weight: 3, Gen: func(rnd *rand.Rand) *Inst {
			var data []byte
			var lit, c string
			if rnd.Intn(2) == 0 {
				s, sc := g5lib.GenStr(rnd)
				data, lit, c = []byte(s), Q(s), "text/"+sc
			} else {
				b, bc := g5lib.GenBytes(rnd)
				data, lit, c = b, g5lib.X(b), "binary/"+bc
			}
			s224 := sha256.Sum224(data)
			s256 := sha256.Sum256(data)
			s384 := sha512.Sum384(data)
			s512 := sha512.Sum512(data)
			return g5lib.NewInst(c, lit, func(v []V) string {
				if !v[0].IsStr(fmt.Sprintf("%x", md5.Sum(data))) || !v[1].IsStr(fmt.Sprintf("%x", md5.Sum(data))) {
					return "md5-differs"
				}
				if !v[2].IsStr(fmt.Sprintf("%x", sha1.Sum(data))) || !v[3].IsStr(fmt.Sprintf("%x", sha1.Sum(data))) {
					return "sha1-differs"
				}
				if !v[4].IsStr(fmt.Sprintf("%x", s224)) || !v[5].IsStr(fmt.Sprintf("%x", s256)) || !v[6].IsStr(fmt.Sprintf("%x", s384)) || !v[7].IsStr(fmt.Sprintf("%x", s512)) || !v[8].IsStr(fmt.Sprintf("%x", s256)) {
					return "sha2-differs"
				}
				return ""
			}, "MD5("+lit+")", "MD5("+lit+")", "SHA1("+lit+")", "SHA("+lit+")", "SHA2("+lit+",224)", "SHA2("+lit+",256)", "SHA2("+lit+",384)", "SHA2("+lit+",512)", "SHA2("+lit+",0)")
		}},
		{Name: "crc32", Weight: 2, Gen: func(rnd *rand.Rand) *Inst {
			var data []byte
			var lit, c string
			if rnd.Intn(2) == 0 {
				s, sc := g5lib.GenStr(rnd)
				data, lit, c = []byte(s), Q(s), "text/"+sc
			} else {
				b, bc := g5lib.GenBytes(rnd)
				data, lit, c = b, g5lib.X(b), "binary/"+bc
			}
			return &Inst{Class: c, Args: lit, OnErr: g5lib.ErrToCheck, Exprs: []string{"CRC32(" + lit + ")"}, Check: func(v []V) string {
				if g5lib.IsErr(v) {
					if strings.HasPrefix(c, "binary/") && strings.Contains(g5lib.ErrOf(v), "Invalid argument to crc32") {
						return "binary-string-argument-errors"
					}
					return "error"
				}
				if !v[0].IsInt(int64(crc32.ChecksumIEEE(data))) {
					return "differs-from-ieee-crc32"
				}
				return ""
			}}
		}},
		{Name: "sha2-bad-length", Gen: func(rnd *rand.Rand) *Inst {
			n := []int{1, 128, 255, 257, 1024, -1}[rnd.Intn(6)]
			return g5lib.NewInst(fmt.Sprint(n), n, g5lib.WantNull("unsupported-hash-length-not-null"), fmt.Sprintf("SHA2('abc',%s)", I(int64(n))))
		}},
		{Name: "cast-roundtrip", Weight: 3, Gen: func(rnd *rand.Rand) *Inst {
			switch rnd.Intn(3) {
			case 0:
				n, c := genI64(rnd)
				return g5lib.NewInst("signed/"+c, n, func(v []V) string {
					if !v[0].IsInt(n) {
						return "signed-char-signed-differs"
					}
					if !v[1].IsStr(strconv.FormatInt(n, 10)) {
						return "cast-to-char-differs-from-decimal-text"
					}
					return ""
				}, fmt.Sprintf("CAST(CAST(%s AS CHAR) AS SIGNED)", I(n)), fmt.Sprintf("CAST(%s AS CHAR)", I(n)))
			case 1:
				n, c := genU64(rnd)
				return g5lib.NewInst("unsigned/"+c, n, func(v []V) string {
					if r, ok := v[0].Rat(); !ok || r.Cmp(new(big.Rat).SetInt(new(big.Int).SetUint64(n))) != 0 {
						return "unsigned-char-unsigned-differs"
					}
					if !v[1].IsStr(strconv.FormatUint(n, 10)) {
						return "cast-to-char-differs-from-decimal-text"
					}
					return ""
				}, fmt.Sprintf("CAST(CAST(%d AS CHAR) AS UNSIGNED)", n), fmt.Sprintf("CAST(%d AS CHAR)", n))
			}
			d := genDec(rnd)
			return g5lib.NewInst("decimal/"+d.class, d.text, func(v []V) string {
				if r, ok := v[0].Rat(); !ok || r.Cmp(d.val) != 0 {
					return "decimal-char-decimal-differs"
				}
				return ""
			}, fmt.Sprintf("CAST(CAST(%s AS CHAR) AS DECIMAL(40,12))", d.lit()))
		}},
	}
}
