// C34 — built-in scalar functions satisfy their defining identities.
//
// A catalogue of laws (package g5lib): every instance is one closed SQL expression (or a few) over
// generated literal arguments, batched into one SELECT list, judged by a Go predicate that uses an
// independent reference (strings/unicode/utf8, math/big, encoding/hex|base64, net/netip, compress/zlib,
// hash/crc32, crypto/*). Only identities that the property states or that are certain MySQL semantics
// are asserted; everything else (negative pad lengths, INSERT at position len+1, FORMAT of negative
// zero, double rounding mode …) is generated but not judged.
package main

import (
	"verif/harness/core"
	"verif/harness/g5lib"
)

func main() {
	r := core.NewRun("C34", "exploration",
		"each evaluation is one law instance (a closed SQL expression over generated arguments) judged against an independent Go reference or an algebraic identity; distinct = (law, argument class) pairs that held")
	r.Fold(8, 3)
	r.Assume("arguments are literals (utf8mb4 text under the default utf8mb4_0900_bin collation, binary strings as x'..', exact decimals, integers); functions are therefore evaluated by the same Eval code as for column arguments, partly at constant-folding time")
	r.Assume("input classes of the known findings (see findings/C34.txt) are still generated and attributed by narrow failure-mode signatures")

	var laws []g5lib.Law
	laws = append(laws, stringLaws()...)
	laws = append(laws, codecLaws()...)
	laws = append(laws, numericLaws()...)
	laws = append(laws, miscLaws()...)
	ru := g5lib.NewRunner(r, laws)
	ru.Run("laws", r.N(len(laws)*300, len(laws)*10000))
	ru.Report()
	bigUnsigned(r)
	pinned(r)
	r.Finish()
}
