package main

import (
	"fmt"
	"math/rand"
	"strings"

	"verif/harness/core"
	"verif/harness/g5lib"
)

// strictFns: functions that return NULL when ANY argument is NULL, with sample non-NULL arguments.
var strictFns = []struct {
	name string
	args []string
}{
	{"CONCAT", []string{"'a'", "'b'"}}, {"CHAR_LENGTH", []string{"'ab'"}}, {"LENGTH", []string{"'ab'"}}, {"BIT_LENGTH", []string{"'ab'"}},
	{"REVERSE", []string{"'ab'"}}, {"LEFT", []string{"'abc'", "2"}}, {"RIGHT", []string{"'abc'", "2"}}, {"SUBSTRING", []string{"'abc'", "2", "1"}},
	{"LOCATE", []string{"'b'", "'abc'"}}, {"INSTR", []string{"'abc'", "'b'"}}, {"INSERT", []string{"'abcd'", "2", "1", "'x'"}},
	{"LPAD", []string{"'a'", "3", "'x'"}}, {"RPAD", []string{"'a'", "3", "'x'"}}, {"UPPER", []string{"'a'"}}, {"LOWER", []string{"'A'"}},
	{"TRIM", []string{"' a '"}}, {"LTRIM", []string{"' a'"}}, {"RTRIM", []string{"'a '"}}, {"REPEAT", []string{"'a'", "2"}}, {"SPACE", []string{"2"}},
	{"REPLACE", []string{"'abc'", "'b'", "'x'"}}, {"HEX", []string{"'a'"}}, {"UNHEX", []string{"'61'"}}, {"TO_BASE64", []string{"'a'"}},
	{"FROM_BASE64", []string{"'YQ=='"}}, {"CONV", []string{"'ff'", "16", "10"}}, {"INET_ATON", []string{"'1.2.3.4'"}}, {"INET_NTOA", []string{"16909060"}},
	{"INET6_ATON", []string{"'::1'"}}, {"INET6_NTOA", []string{"x'00000000000000000000000000000001'"}}, {"COMPRESS", []string{"'a'"}},
	{"UNCOMPRESSED_LENGTH", []string{"COMPRESS('a')"}}, {"UNCOMPRESS", []string{"COMPRESS('a')"}},
	{"ROUND", []string{"1.5", "0"}}, {"TRUNCATE", []string{"1.5", "0"}}, {"FLOOR", []string{"1.5"}}, {"CEIL", []string{"1.5"}}, {"ABS", []string{"(-1)"}},
	{"SIGN", []string{"(-1)"}}, {"MOD", []string{"7", "3"}}, {"POW", []string{"2", "3"}}, {"SQRT", []string{"4"}}, {"BIN", []string{"5"}}, {"OCT", []string{"8"}},
	{"BIT_COUNT", []string{"7"}}, {"CRC32", []string{"'a'"}}, {"MD5", []string{"'a'"}}, {"SHA1", []string{"'a'"}}, {"SHA2", []string{"'a'", "256"}},
	{"ASCII", []string{"'a'"}}, {"ORD", []string{"'a'"}}, {"STRCMP", []string{"'a'", "'b'"}}, {"FIND_IN_SET", []string{"'a'", "'a,b'"}},
	{"FORMAT", []string{"1234.5", "1"}}, {"SUBSTRING_INDEX", []string{"'a,b'", "','", "1"}}, {"GREATEST", []string{"1", "2"}}, {"LEAST", []string{"1", "2"}},
	{"EXP", []string{"1"}}, {"LN", []string{"2"}}, {"LOG10", []string{"2"}}, {"LOG2", []string{"2"}}, {"DEGREES", []string{"1"}}, {"RADIANS", []string{"1"}},
	{"SIN", []string{"1"}}, {"COS", []string{"1"}}, {"TAN", []string{"1"}}, {"ATAN", []string{"1"}},
}

func miscLaws() []L {
	return []L{
		{Name: "null-propagation", Weight: 6, Gen: func(rnd *rand.Rand) *Inst {
			f := strictFns[rnd.Intn(len(strictFns))]
			pos := rnd.Intn(len(f.args))
			args := append([]string{}, f.args...)
			args[pos] = "NULL"
			return g5lib.NewInst(fmt.Sprintf("%s/arg%d", f.name, pos+1), args, g5lib.WantNull("null-argument-gives-non-null"), f.name+"("+strings.Join(args, ",")+")")
		}},
		{Name: "conditional-definitions", Weight: 3, Gen: func(rnd *rand.Rand) *Inst {
			// NULLIF(a,b) = CASE WHEN a=b THEN NULL ELSE a END; IFNULL(a,b) = first non-NULL; COALESCE; IF(c,x,y)
			val := func() (string, *int64) {
				if rnd.Intn(3) == 0 {
					return "NULL", nil
				}
				x := int64(rnd.Intn(5)) - 1
				return I(x), &x
			}
			la, a := val()
			lb, b := val()
			lc, c := val()
			cls := fmt.Sprintf("nulls=%v%v%v", a == nil, b == nil, c == nil)
			want := func(p *int64) func(V) bool {
				return func(v V) bool {
					if p == nil {
						return v.IsNull()
					}
					return v.IsInt(*p)
				}
			}
			var nullif *int64
			if a != nil && !(b != nil && *a == *b) {
				nullif = a
			}
			ifnull := a
			if a == nil {
				ifnull = b
			}
			coal := a
			if coal == nil {
				coal = b
			}
			if coal == nil {
				coal = c
			}
			ifv := c // IF(a, b, c): a true (non-NULL, non-zero) → b else c
			if a != nil && *a != 0 {
				ifv = b
			}
			return g5lib.NewInst(cls, []string{la, lb, lc}, func(v []V) string {
				if !want(nullif)(v[0]) {
					return "nullif"
				}
				if !want(ifnull)(v[1]) {
					return "ifnull"
				}
				if !want(coal)(v[2]) {
					return "coalesce"
				}
				if !want(ifv)(v[3]) {
					return "if"
				}
				isn := int64(0)
				if a == nil {
					isn = 1
				}
				if !v[4].IsInt(isn) {
					return "isnull"
				}
				return ""
			}, fmt.Sprintf("NULLIF(%s,%s)", la, lb), fmt.Sprintf("IFNULL(%s,%s)", la, lb), fmt.Sprintf("COALESCE(%s,%s,%s)", la, lb, lc), fmt.Sprintf("IF(%s,%s,%s)", la, lb, lc), fmt.Sprintf("ISNULL(%s)", la))
		}},
		{Name: "conditional-strings", Gen: func(rnd *rand.Rand) *Inst {
			a, ca := g5lib.GenStr(rnd)
			b, _ := g5lib.GenStr(rnd)
			if rnd.Intn(3) == 0 {
				b = a
			}
			eq := a == b
			return g5lib.NewInst(fmt.Sprintf("%s/equal=%v", ca, eq), []string{a, b}, func(v []V) string {
				if eq && !v[0].IsNull() || !eq && !v[0].IsStr(a) {
					return "nullif-string"
				}
				if !v[1].IsStr(b) || !v[2].IsStr(a) {
					return "ifnull-or-coalesce-string"
				}
				return ""
			}, fmt.Sprintf("NULLIF(%s,%s)", Q(a), Q(b)), fmt.Sprintf("IFNULL(NULL,%s)", Q(b)), fmt.Sprintf("COALESCE(NULL,%s,%s)", Q(a), Q(b)))
		}},
	}
}

// pin replays one pinned witness: the expression must give `correct`; while it gives `wrong` (canonical
// text, or an error containing the text after "ERR:") the known finding law:mode still holds.
func pin(r *core.Run, law, mode, what, expr, correct, wrong string) {
	g5lib.PinnedInst(r, law, mode, what, &Inst{Class: "pinned", Exprs: []string{expr}, OnErr: g5lib.ErrToCheck, Check: func(v []V) string {
		if g5lib.IsErr(v) {
			if strings.HasPrefix(wrong, "ERR:") && strings.Contains(g5lib.ErrOf(v), wrong[4:]) {
				return mode
			}
			return "error"
		}
		switch v[0].Canon() {
		case correct:
			return ""
		case wrong:
			return mode
		}
		return "pinned-witness-gives-a-third-value"
	}})
}

// pinned replays the pinned witnesses of the known findings (findings/C34.txt).
func pinned(r *core.Run) {
	pin(r, "inet-ntoa-aton", "first-octet>=128-clamped-to-127.255.255.255", "INET_NTOA clamps addresses >= 128.0.0.0 to 127.255.255.255",
		"INET_NTOA(INET_ATON('255.127.127.166'))", "'255.127.127.166'", "'127.255.255.255'")
	pin(r, "pad", "multibyte-target-length-counted-in-bytes", "LPAD/RPAD count the target length in bytes for multi-byte strings",
		"LPAD('ÀÉ',6,'xy')", "'xyxyÀÉ'", "'xyÀÉ'")
	pin(r, "floor-ceil-decimal", "ceil-of-0<x<0.1-returns-0", "CEIL of an exact decimal in (0, 0.1) returns 0", "CEIL(0.005)", "1", "0")
	pin(r, "floor-ceil-decimal", "floor-of--0.1<x<0-returns-0", "FLOOR of an exact decimal in (-0.1, 0) returns 0", "FLOOR(-0.005)", "-1", "0")
	pin(r, "abs-sign", "sign-of-0<|x|<0.5-returns-0", "SIGN of a decimal with 0 < |x| < 0.5 returns 0 (the argument is rounded to an integer first)", "SIGN(0.4)", "1", "0")
	pin(r, "abs-sign", "abs-of-minimum-of-narrow-int-type-wraps", "ABS of the minimum of a narrow integer type wraps (computed in int8/int16/int32)", "ABS(-128)", "128", "-128")
	pin(r, "bin-oct-hex-conv", "bin-of-negative-concatenates-unpadded-bytes", "BIN of a negative integer prints the bytes without zero padding",
		"BIN(-148)", "'1111111111111111111111111111111111111111111111111111111101101100'", "'111111111111111111111111111111111111111111111111111111111101100'")
	pin(r, "crc32", "binary-string-argument-errors", "CRC32 of a binary string raises 'Invalid argument to crc32'", "CRC32(x'616263')", "891568578", "ERR:Invalid argument to crc32")
	pin(r, "format", "more-than-15-significant-digits-through-double", "FORMAT converts exact decimals to float64 and loses digits",
		"FORMAT(46941242620313.65759,4)", "'46,941,242,620,313.6576'", "'46,941,242,620,313.6600'")
	pin(r, "format", "exact-tie-rounded-down-through-double", "FORMAT rounds exact decimal ties through float64 (1.005 -> 1.00)", "FORMAT(1.005,2)", "'1.01'", "'1.00'")
	pin(r, "greatest-least", "decimal-result-rounded-to-double", "GREATEST/LEAST return exact decimals rounded to float64",
		"GREATEST(-28.5765,8745226766810.153759)", "8745226766810.153759", "f8.745226766810153e+12")
	pin(r, "greatest-least", "integer-argument-beyond-2^53-compared-as-double", "GREATEST/LEAST compare integers as float64 (wrong beyond 2^53, overflow at maxint64)",
		"GREATEST(1,9223372036854775807)", "9223372036854775807", "-9223372036854775808")
	pin(r, "greatest-least", "integer-argument-compared-with-truncated-running-value", "GREATEST/LEAST compare an integer argument with the running selection truncated to int64",
		"LEAST(0.74,0)", "0", "f0.74")
	pin(r, "insert-splice", "multibyte-positions-counted-in-bytes", "INSERT() counts position and length in bytes", "HEX(INSERT('éabc',2,1,'X'))", "'C3A9586263'", "'C358616263'")
	pin(r, "locate", "multibyte-position-counted-in-bytes", "LOCATE/POSITION return byte positions for multi-byte strings", "LOCATE('b','éb')", "2", "3")
	pin(r, "locate-from", "multibyte-position-counted-in-bytes", "LOCATE with a start position counts it in bytes", "LOCATE('b','éébb',4)", "4", "7")
	pin(r, "locate", "case-folded-match-under-binary-collation", "LOCATE/POSITION fold case although the collation is utf8mb4_0900_bin (INSTR does not)", "LOCATE('A','xaA')", "3", "2")
	pin(r, "locate-from", "case-folded-match-under-binary-collation", "LOCATE(…, pos) folds case although the collation is utf8mb4_0900_bin", "LOCATE('A','xaA',2)", "3", "2")
	pin(r, "mod", "decimal-quotient-longer-than-operands-division-impossible", "MOD/% on exact decimals fails when the integer quotient has more digits than the operands",
		"MOD(3.00,0.00033)", "0.0003", "ERR:division impossible")
	pin(r, "repeat-space", "repeat-negative-count-errors", "REPEAT with a negative count raises an error instead of returning ''", "REPEAT('a',-1)", "''", "ERR:negative Repeat count")
}
