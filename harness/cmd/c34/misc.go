package main

import (
	"fmt"
	"math/rand"
	"strings"

	"verif/harness/core"
	"verif/harness/g5lib"
)

// strictFns: functions that return NULL when ANY argument is NULL, with sample non-NULL arguments.
var strictFns = []struct {
	name string
	args []string
}{
	{"CONCAT", []string{"'a'", "'b'"}}, {"CHAR_LENGTH", []string{"'ab'"}}, {"LENGTH", []string{"'ab'"}}, {"BIT_LENGTH", []string{"'ab'"}},
	{"REVERSE", []string{"'ab'"}}, {"LEFT", []string{"'abc'", "2"}}, {"RIGHT", []string{"'abc'", "2"}}, {"SUBSTRING", []string{"'abc'", "2", "1"}},
	{"LOCATE", []string{"'b'", "'abc'"}}, {"INSTR", []string{"'abc'", "'b'"}}, {"INSERT", []string{"'abcd'", "2", "1", "'x'"}},
	{"LPAD", []string{"'a'", "3", "'x'"}}, {"RPAD", []string{"'a'", "3", "'x'"}}, {"UPPER", []string{"'a'"}}, {"LOWER", []string{"'A'"}},
	{"TRIM", []string{"' a '"}}, {"LTRIM", []string{"' a'"}}, {"RTRIM", []string{"'a '"}}, {"REPEAT", []string{"'a'", "2"}}, {"SPACE", []string{"2"}},
	{"REPLACE", []string{"'abc'", "'b'", "'x'"}}, {"HEX", []string{"'a'"}}, {"UNHEX", []string{"'61'"}}, {"TO_BASE64", []string{"'a'"}},
	{"FROM_BASE64", []string{"'YQ=='"}}, {"CONV", []string{"'ff'", "16", "10"}}, {"INET_ATON", []string{"'1.2.3.4'"}}, {"INET_NTOA", []string{"16909060"}},
	{"INET6_ATON", []string{"'::1'"}}, {"INET6_NTOA", []string{"x'00000000000000000000000000000001'"}}, {"COMPRESS", []string{"'a'"}},
	{"UNCOMPRESSED_LENGTH", []string{"COMPRESS('a')"}}, {"UNCOMPRESS", []string{"COMPRESS('a')"}},
	{"ROUND", []string{"1.5", "0"}}, {"TRUNCATE", []string{"1.5", "0"}}, {"FLOOR", []string{"1.5"}}, {"CEIL", []string{"1.5"}}, {"ABS", []string{"(-1)"}},
	{"SIGN", []string{"(-1)"}}, {"MOD", []string{"7", "3"}}, {"POW", []string{"2", "3"}}, {"SQRT", []string{"4"}}, {"BIN", []string{"5"}}, {"OCT", []string{"8"}},
	{"BIT_COUNT", []string{"7"}}, {"CRC32", []string{"'a'"}}, {"MD5", []string{"'a'"}}, {"SHA1", []string{"'a'"}}, {"SHA2", []string{"'a'", "256"}},
	{"ASCII", []string{"'a'"}}, {"ORD", []string{"'a'"}}, {"STRCMP", []string{"'a'", "'b'"}}, {"FIND_IN_SET", []string{"'a'", "'a,b'"}},
	{"FORMAT", []string{"1234.5", "1"}}, {"SUBSTRING_INDEX", []string{"'a,b'", "','", "1"}}, {"GREATEST", []string{"1", "2"}}, {"LEAST", []string{"1", "2"}},
	{"EXP", []string{"1"}}, {"LN", []string{"2"}}, {"LOG10", []string{"2"}}, {"LOG2", []string{"2"}}, {"DEGREES", []string{"1"}}, {"RADIANS", []string{"1"}},
	{"SIN", []string{"1"}}, {"COS", []string{"1"}}, {"TAN", []string{"1"}}, {"ATAN", []string{"1"}},
}

func miscLaws() []L {
	return []L{
		{Name: "null-propagation", Weight: 6, Gen: func(rnd *rand.Rand) *Inst {
			f := strictFns[rnd.Intn(len(strictFns))]
			pos := rnd.Intn(len(f.args))
			args := append([]string{}, f.args...)
			args[pos] = "NULL"
			return g5lib.NewInst(fmt.Sprintf("%s/arg%d", f.name, pos+1), args, g5lib.WantNull("null-argument-gives-non-null"), f.name+"("+strings.Join(args, ",")+")")
		}},
		{Name: "conditional-definitions", Weight: 3, Gen: func(rnd *rand.Rand) *Inst {
			// NULLIF(a,b) = CASE WHEN a=b THEN NULL ELSE a END; IFNULL(a,b) = first non-NULL; COALESCE; IF(c,x,y)
			val := func() (string, *int64) {
				if rnd.Intn(3) == 0 {
					return "NULL", nil
				}
				x := int64(rnd.Intn(5)) - 1
				return I(x), &x
			}
			la, a := val()
			lb, b := val()
			lc, c := val()
			cls := fmt.Sprintf("nulls=%v%v%v", a == nil, b == nil, c == nil)
			want := func(p *int64) func(V) bool {
				return func(v V) bool {
					if p == nil {
						return v.IsNull()
					}
					return v.IsInt(*p)
				}
			}
			var nullif *int64
			if a != nil && !(b != nil && *a == *b) {
				nullif = a
			}
			ifnull := a
			if a == nil {
				ifnull = b
			}
			coal := a
			if coal == nil {
				coal = b
			}
			if coal == nil {
				coal = c
			}
			ifv := c // IF(a, b, c): a true (non-NULL, non-zero) → b else c
			if a != nil && *a != 0 {
				ifv = b
			}
			return g5lib.NewInst(cls, []string{la, lb, lc}, func(v []V) string {
				if !want(nullif)(v[0]) {
					return "nullif"
				}
				if !want(ifnull)(v[1]) {
					return "ifnull"
				}
				if !want(coal)(v[2]) {
					return "coalesce"
				}
				if !want(ifv)(v[3]) {
					return "if"
				}
				isn := int64(0)
				if a == nil {
					isn = 1
				}
				if !v[4].IsInt(isn) {
					return "isnull"
				}
				return ""
			}, fmt.Sprintf("NULLIF(%s,%s)", la, lb), fmt.Sprintf("IFNULL(%s,%s)", la, lb), fmt.Sprintf("COALESCE(%s,%s,%s)", la, lb, lc), fmt.Sprintf("IF(%s,%s,%s)", la, lb, lc), fmt.Sprintf("ISNULL(%s)", la))
		}},
		{Name: "conditional-strings", Gen: func(rnd *rand.Rand) *Inst {
			a, ca := g5lib.GenStr(rnd)
			b, _ := g5lib.GenStr(rnd)
			if rnd.Intn(3) == 0 {
				b = a
			}
			eq := a == b
			return g5lib.NewInst(fmt.Sprintf("%s/equal=%v", ca, eq), []string{a, b}, func(v []V) string {
				if eq && !v[0].IsNull() || !eq && !v[0].IsStr(a) {
					return "nullif-string"
				}
				if !v[1].IsStr(b) || !v[2].IsStr(a) {
					return "ifnull-or-coalesce-string"
				}
				return ""
			}, fmt.Sprintf("NULLIF(%s,%s)", Q(a), Q(b)), fmt.Sprintf("IFNULL(NULL,%s)", Q(b)), fmt.Sprintf("COALESCE(NULL,%s,%s)", Q(a), Q(b)))
		}},
	}
}

// pinned replays the pinned witnesses of the known findings.
func pinned(r *core.Run) {
	g5lib.PinnedInst(r, "inet-ntoa-aton", "first-octet>=128-clamped-to-127.255.255.255", "INET_NTOA clamps addresses >= 128.0.0.0 to 127.255.255.255",
		g5lib.NewInst("pinned", nil, func(v []V) string {
			if v[0].IsStr("255.127.127.166") {
				return ""
			}
			if v[0].IsStr("127.255.255.255") {
				return "first-octet>=128-clamped-to-127.255.255.255"
			}
			return "ntoa-of-aton-differs"
		}, "INET_NTOA(INET_ATON('255.127.127.166'))"))
	g5lib.PinnedInst(r, "pad", "multibyte-target-length-counted-in-bytes", "LPAD/RPAD count the target length in bytes for multi-byte strings",
		g5lib.NewInst("pinned", nil, func(v []V) string {
			if v[0].IsStr("xyxyÀÉ") && v[1].IsInt(6) {
				return ""
			}
			if v[0].IsStr(padByteRef("ÀÉ", 6, "xy", true)) {
				return "multibyte-target-length-counted-in-bytes"
			}
			return "differs-from-reference-padding"
		}, "LPAD('ÀÉ',6,'xy')", "CHAR_LENGTH(LPAD('ÀÉ',6,'xy'))"))
	g5lib.PinnedInst(r, "floor-ceil-decimal", "ceil-of-0<x<0.1-returns-0", "CEIL of an exact decimal in (0, 0.1) returns 0",
		g5lib.NewInst("pinned", nil, func(v []V) string {
			if v[0].IsInt(1) {
				return ""
			}
			if v[0].IsInt(0) {
				return "ceil-of-0<x<0.1-returns-0"
			}
			return "ceil-not-smallest-integer-above"
		}, "CEIL(0.005)"))
	g5lib.PinnedInst(r, "floor-ceil-decimal", "floor-of--0.1<x<0-returns-0", "FLOOR of an exact decimal in (-0.1, 0) returns 0",
		g5lib.NewInst("pinned", nil, func(v []V) string {
			if v[0].IsInt(-1) {
				return ""
			}
			if v[0].IsInt(0) {
				return "floor-of--0.1<x<0-returns-0"
			}
			return "floor-not-largest-integer-below"
		}, "FLOOR(-0.005)"))
}
