package main

import (
	"fmt"
	"math"
	"math/big"
	"math/rand"
	"strconv"
	"strings"

	"verif/harness/g5lib"
)

// dec is a generated exact decimal literal.
type dec struct {
	text  string // e.g. -12.340
	val   *big.Rat
	scale int
	class string
}

func (d dec) lit() string {
	if strings.HasPrefix(d.text, "-") {
		return "(" + d.text + ")"
	}
	return d.text
}

func mkDec(text, class string) dec {
	v, _ := new(big.Rat).SetString(text)
	sc := 0
	if k := strings.Index(text, "."); k >= 0 {
		sc = len(text) - k - 1
	}
	return dec{text, v, sc, class}
}

func digits(rnd *rand.Rand, n int, first bool) string {
	var b strings.Builder
	for i := 0; i < n; i++ {
		if i == 0 && first {
			b.WriteByte(byte('1' + rnd.Intn(9)))
		} else {
			b.WriteByte(byte('0' + rnd.Intn(10)))
		}
	}
	return b.String()
}

// genDec draws an exact decimal with ≤ 15 integer digits and ≤ 9 fraction digits, biased to rounding
// boundaries (…5, …50, tiny fractions, negative, integers written with a fraction part).
func genDec(rnd *rand.Rand) dec {
	sign := ""
	if rnd.Intn(3) == 0 {
		sign = "-"
	}
	neg := func(c string) string {
		if sign == "-" {
			return "neg-" + c
		}
		return c
	}
	switch rnd.Intn(9) {
	case 0:
		return mkDec([]string{"0", "0.0", "0.000"}[rnd.Intn(3)], "zero")
	case 1: // tiny: 0.0…0d
		return mkDec(sign+"0."+strings.Repeat("0", 1+rnd.Intn(4))+digits(rnd, 1+rnd.Intn(2), true), neg("tiny<0.1"))
	case 2: // fraction in [0.1, 1)
		return mkDec(sign+"0."+digits(rnd, 1+rnd.Intn(4), true), neg("fraction<1"))
	case 3: // exactly half at some digit
		return mkDec(sign+digits(rnd, 1+rnd.Intn(4), true)+"."+digits(rnd, rnd.Intn(3), false)+"5", neg("half"))
	case 4: // just below / above half
		return mkDec(sign+digits(rnd, 1+rnd.Intn(3), true)+"."+digits(rnd, rnd.Intn(2), false)+[]string{"49", "51", "4999", "5001"}[rnd.Intn(4)], neg("near-half"))
	case 5: // integer with zero fraction
		return mkDec(sign+digits(rnd, 1+rnd.Intn(6), true)+"."+strings.Repeat("0", 1+rnd.Intn(3)), neg("integral"))
	case 6: // big
		return mkDec(sign+digits(rnd, 10+rnd.Intn(6), true)+"."+digits(rnd, 1+rnd.Intn(6), false), neg("big"))
	case 7: // ends with 9s (carry)
		return mkDec(sign+digits(rnd, 1+rnd.Intn(3), true)+"."+strings.Repeat("9", 1+rnd.Intn(5)), neg("nines"))
	}
	return mkDec(sign+digits(rnd, 1+rnd.Intn(8), true)+"."+digits(rnd, 1+rnd.Intn(9), false), neg("general"))
}

var ten = big.NewInt(10)

func pow10(d int) *big.Rat {
	if d >= 0 {
		return new(big.Rat).SetInt(new(big.Int).Exp(ten, big.NewInt(int64(d)), nil))
	}
	return new(big.Rat).SetFrac(big.NewInt(1), new(big.Int).Exp(ten, big.NewInt(int64(-d)), nil))
}

// floorRat is the largest integer ≤ x.
func floorRat(x *big.Rat) *big.Int {
	q := new(big.Int)
	m := new(big.Int)
	q.DivMod(x.Num(), x.Denom(), m) // Euclidean: m ≥ 0, so q = floor for positive denominators
	return q
}

func ceilRat(x *big.Rat) *big.Int {
	f := floorRat(x)
	if new(big.Rat).SetInt(f).Cmp(x) < 0 {
		f.Add(f, big.NewInt(1))
	}
	return f
}

func truncRat(x *big.Rat) *big.Int {
	if x.Sign() >= 0 {
		return floorRat(x)
	}
	return ceilRat(x)
}

// roundHalfAway rounds x to d decimal places, halves away from zero (MySQL exact-value rule).
func roundHalfAway(x *big.Rat, d int) *big.Rat {
	s := new(big.Rat).Mul(x, pow10(d))
	half := big.NewRat(1, 2)
	var n *big.Int
	if s.Sign() >= 0 {
		n = floorRat(new(big.Rat).Add(s, half))
	} else {
		n = ceilRat(new(big.Rat).Sub(s, half))
	}
	return new(big.Rat).Mul(new(big.Rat).SetInt(n), pow10(-d))
}

func truncateTo(x *big.Rat, d int) *big.Rat {
	s := new(big.Rat).Mul(x, pow10(d))
	return new(big.Rat).Mul(new(big.Rat).SetInt(truncRat(s)), pow10(-d))
}

func absRat(x *big.Rat) *big.Rat { return new(big.Rat).Abs(x) }

func genDouble(rnd *rand.Rand) (float64, string, string) {
	var f float64
	c := "general"
	switch rnd.Intn(6) {
	case 0:
		f, c = float64(rnd.Intn(2000)-1000)+0.5, "half"
	case 1:
		f, c = rnd.Float64()*0.1, "tiny<0.1"
	case 2:
		f, c = -rnd.Float64()*0.1, "neg-tiny"
	case 3:
		f, c = float64(rnd.Intn(2000)-1000), "integral"
	case 4:
		f, c = (rnd.Float64()-0.5)*1e12, "big"
	default:
		f = (rnd.Float64() - 0.5) * 2000
	}
	lit := strconv.FormatFloat(f, 'f', -1, 64) + "e0"
	if f < 0 {
		lit = "(" + lit + ")"
	}
	return f, lit, c
}

func numericLaws() []L {
	return []L{
		{Name: "round-decimal", Weight: 4, Gen: func(rnd *rand.Rand) *Inst {
			x := genDec(rnd)
			d := rnd.Intn(x.scale+5) - 3
			dc := "d<scale"
			switch {
			case d < 0:
				dc = "d<0"
			case d == 0:
				dc = "d=0"
			case d >= x.scale:
				dc = "d>=scale"
			}
			want := roundHalfAway(x.val, d)
			exprs := []string{fmt.Sprintf("ROUND(%s,%s)", x.lit(), I(int64(d)))}
			if d == 0 {
				exprs = append(exprs, "ROUND("+x.lit()+")")
			}
			return g5lib.NewInst(x.class+"/"+dc, []any{x.text, d}, func(v []V) string {
				for _, r := range v {
					got, ok := r.Rat()
					if !ok {
						return "not-a-number"
					}
					diff := absRat(new(big.Rat).Sub(got, x.val))
					if diff.Cmp(new(big.Rat).Mul(big.NewRat(1, 2), pow10(-d))) > 0 {
						return "farther-than-half-unit-from-argument"
					}
					if got.Cmp(want) != 0 {
						return "not-half-away-from-zero"
					}
				}
				return ""
			}, exprs...)
		}},
		{Name: "truncate-decimal", Weight: 3, Gen: func(rnd *rand.Rand) *Inst {
			x := genDec(rnd)
			d := rnd.Intn(x.scale+5) - 3
			dc := "d<scale"
			switch {
			case d < 0:
				dc = "d<0"
			case d == 0:
				dc = "d=0"
			case d >= x.scale:
				dc = "d>=scale"
			}
			want := truncateTo(x.val, d)
			return g5lib.NewInst(x.class+"/"+dc, []any{x.text, d}, func(v []V) string {
				got, ok := v[0].Rat()
				if !ok {
					return "not-a-number"
				}
				if absRat(got).Cmp(absRat(x.val)) > 0 {
					return "magnitude-grew"
				}
				if absRat(new(big.Rat).Sub(got, x.val)).Cmp(pow10(-d)) >= 0 {
					return "one-unit-or-more-from-argument"
				}
				if got.Cmp(want) != 0 {
					return "not-toward-zero"
				}
				return ""
			}, fmt.Sprintf("TRUNCATE(%s,%s)", x.lit(), I(int64(d))))
		}},
		{Name: "floor-ceil-decimal", Weight: 4, Gen: func(rnd *rand.Rand) *Inst {
			x := genDec(rnd)
			fl, ce := floorRat(x.val), ceilRat(x.val)
			return g5lib.NewInst(x.class, x.text, func(v []V) string {
				f, ok1 := v[0].Rat()
				c, ok2 := v[1].Rat()
				c2, ok3 := v[2].Rat()
				if !ok1 || !ok2 || !ok3 {
					return "not-a-number"
				}
				if c.Cmp(c2) != 0 {
					return "ceil-and-ceiling-differ"
				}
				if f.Cmp(new(big.Rat).SetInt(fl)) != 0 {
					if f.Sign() == 0 && x.val.Sign() < 0 && absRat(x.val).Cmp(big.NewRat(1, 10)) < 0 {
						return "floor-of--0.1<x<0-returns-0"
					}
					return "floor-not-largest-integer-below"
				}
				if c.Cmp(new(big.Rat).SetInt(ce)) != 0 {
					if c.Sign() == 0 && x.val.Sign() > 0 && x.val.Cmp(big.NewRat(1, 10)) < 0 {
						return "ceil-of-0<x<0.1-returns-0"
					}
					return "ceil-not-smallest-integer-above"
				}
				return ""
			}, "FLOOR("+x.lit()+")", "CEIL("+x.lit()+")", "CEILING("+x.lit()+")")
		}},
		{Name: "round-floor-ceil-double", Weight: 2, Gen: func(rnd *rand.Rand) *Inst {
			f, lit, c := genDouble(rnd)
			return g5lib.NewInst(c, lit, func(v []V) string {
				fl, ok1 := v[0].Float()
				ce, ok2 := v[1].Float()
				ro, ok3 := v[2].Float()
				tr, ok4 := v[3].Float()
				if !ok1 || !ok2 || !ok3 || !ok4 {
					return "not-a-number"
				}
				if fl != math.Floor(f) {
					return "floor-differs"
				}
				if ce != math.Ceil(f) {
					return "ceil-differs"
				}
				// the tie rule for approximate values is platform-defined: only the bound is asserted
				if math.Abs(ro-f) > 0.5 || ro != math.Trunc(ro) {
					return "round-farther-than-half"
				}
				if tr != math.Trunc(f) {
					return "truncate-differs"
				}
				return ""
			}, "FLOOR("+lit+")", "CEIL("+lit+")", "ROUND("+lit+")", "TRUNCATE("+lit+",0)")
		}},
		{Name: "round-truncate-int", Gen: func(rnd *rand.Rand) *Inst {
			n := rnd.Int63n(2_000_000_000) - 1_000_000_000
			if rnd.Intn(4) == 0 {
				n = (n / 100) * 100 + []int64{50, 49, 51, 5, 95}[rnd.Intn(5)]
			}
			d := -rnd.Intn(5)
			x := new(big.Rat).SetInt64(n)
			return g5lib.NewInst(fmt.Sprintf("d=%d", d), []any{n, d}, func(v []V) string {
				r, ok1 := v[0].Rat()
				t, ok2 := v[1].Rat()
				if !ok1 || !ok2 {
					return "not-a-number"
				}
				if r.Cmp(roundHalfAway(x, d)) != 0 {
					return "round-int-not-half-away"
				}
				if t.Cmp(truncateTo(x, d)) != 0 {
					return "truncate-int-not-toward-zero"
				}
				if !v[2].IsInt(n) || !v[3].IsInt(n) {
					return "floor-or-ceil-of-integer-changes-it"
				}
				return ""
			}, fmt.Sprintf("ROUND(%s,%s)", I(n), I(int64(d))), fmt.Sprintf("TRUNCATE(%s,%s)", I(n), I(int64(d))), "FLOOR("+I(n)+")", "CEIL("+I(n)+")")
		}},
		{Name: "abs-sign", Weight: 2, Gen: func(rnd *rand.Rand) *Inst {
			x := genDec(rnd)
			n, nc := genI64(rnd)
			if n == math.MinInt64 {
				n, nc = math.MaxInt64, "maxint64" // ABS(minint64) is out of range by definition
			}
			an := n
			if an < 0 {
				an = -an
			}
			sg := func(s int) int64 { return int64(s) }
			return g5lib.NewInst(x.class+"/"+nc, []any{x.text, n}, func(v []V) string {
				a, ok := v[0].Rat()
				if !ok || a.Cmp(absRat(x.val)) != 0 {
					return "abs-decimal"
				}
				if !v[1].IsInt(sg(x.val.Sign())) {
					if x.val.Sign() != 0 && absRat(x.val).Cmp(big.NewRat(1, 2)) < 0 && v[1].IsInt(0) {
						return "sign-of-0<|x|<0.5-returns-0"
					}
					return "sign-decimal"
				}
				if !v[2].IsInt(an) {
					if (n == -128 || n == -32768 || n == -2147483648) && v[2].IsInt(n) {
						return "abs-of-minimum-of-narrow-int-type-wraps"
					}
					return "abs-integer"
				}
				s := 0
				if n > 0 {
					s = 1
				} else if n < 0 {
					s = -1
				}
				if !v[3].IsInt(int64(s)) {
					return "sign-integer"
				}
				return ""
			}, "ABS("+x.lit()+")", "SIGN("+x.lit()+")", "ABS("+I(n)+")", "SIGN("+I(n)+")")
		}},
		{Name: "mod", Weight: 3, Gen: func(rnd *rand.Rand) *Inst {
			// MOD(a,b) = a % b = a MOD b; value = a − b·trunc(a/b) (sign of the dividend); b = 0 → NULL
			var a, b *big.Rat
			var la, lb, c string
			if rnd.Intn(2) == 0 {
				x := rnd.Int63n(2_000_001) - 1_000_000
				y := int64(rnd.Intn(41)) - 20
				if rnd.Intn(3) == 0 {
					y = rnd.Int63n(2_000_001) - 1_000_000
				}
				a, b, la, lb, c = new(big.Rat).SetInt64(x), new(big.Rat).SetInt64(y), I(x), I(y), "int"
			} else {
				x, y := genDec(rnd), genDec(rnd)
				a, b, la, lb, c = x.val, y.val, x.lit(), y.lit(), "decimal"
			}
			if b.Sign() == 0 {
				c += "/by-zero"
			} else if a.Sign() < 0 != (b.Sign() < 0) {
				c += "/mixed-sign"
			}
			return &Inst{Class: c, Args: []string{la, lb}, OnErr: g5lib.ErrToCheck, Exprs: []string{fmt.Sprintf("MOD(%s,%s)", la, lb), fmt.Sprintf("%s %% %s", la, lb), fmt.Sprintf("%s MOD %s", la, lb)}, Check: func(v []V) string {
				if g5lib.IsErr(v) {
					// known finding: the decimal remainder is computed with a precision of max(digits(a), digits(b)),
					// so it fails whenever the integer quotient has more digits than that
					if b.Sign() != 0 && strings.Contains(g5lib.ErrOf(v), "division impossible") {
						q := truncRat(new(big.Rat).Quo(a, b))
						qd := len(new(big.Int).Abs(q).String())
						p := coefDigits(strings.Trim(la, "()"))
						if pb := coefDigits(strings.Trim(lb, "()")); pb > p {
							p = pb
						}
						if qd > p {
							return "decimal-quotient-longer-than-operands-division-impossible"
						}
					}
					return "error"
				}
				if b.Sign() == 0 {
					if !v[0].IsNull() || !v[1].IsNull() || !v[2].IsNull() {
						return "by-zero-not-null"
					}
					return ""
				}
				want := new(big.Rat).Sub(a, new(big.Rat).Mul(b, new(big.Rat).SetInt(truncRat(new(big.Rat).Quo(a, b)))))
				for i := 0; i < 3; i++ {
					got, ok := v[i].Rat()
					if !ok {
						return "not-a-number"
					}
					if got.Cmp(want) != 0 {
						if i > 0 {
							if g0, _ := v[0].Rat(); g0 != nil && g0.Cmp(want) == 0 {
								return "operator-and-function-disagree"
							}
						}
						return "differs-from-truncated-remainder"
					}
				}
				return ""
			}}
		}},
		{Name: "greatest-least", Weight: 3, Gen: func(rnd *rand.Rand) *Inst {
			n := 2 + rnd.Intn(4)
			kind := rnd.Intn(4)
			var lits []string
			var nums []*big.Rat
			var strs []string
			var isInt []bool
			for i := 0; i < n; i++ {
				k := kind
				if kind == 3 { // mixed integers and exact decimals
					k = rnd.Intn(2)
				}
				isInt = append(isInt, k == 0)
				switch k {
				case 0:
					x := rnd.Int63n(2001) - 1000
					if rnd.Intn(5) == 0 {
						x, _ = genI64(rnd)
					}
					lits = append(lits, I(x))
					nums = append(nums, new(big.Rat).SetInt64(x))
				case 1:
					d := genDec(rnd)
					if !strings.Contains(d.text, ".") {
						d = mkDec(d.text+".0", d.class)
					}
					lits = append(lits, d.lit())
					nums = append(nums, d.val)
				default:
					s, _ := g5lib.GenStr(rnd)
					lits = append(lits, Q(s))
					strs = append(strs, s)
				}
			}
			cls := []string{"int", "decimal", "string", "mixed"}[kind]
			return g5lib.NewInst(fmt.Sprintf("%s/n=%d", cls, n), lits, func(v []V) string {
				if kind == 2 {
					mx, mn := strs[0], strs[0]
					for _, s := range strs {
						if s > mx {
							mx = s
						}
						if s < mn {
							mn = s
						}
					}
					if !v[0].IsStr(mx) {
						return "greatest-string"
					}
					if !v[1].IsStr(mn) {
						return "least-string"
					}
					return ""
				}
				mx, mn := nums[0], nums[0]
				for _, x := range nums {
					if x.Cmp(mx) > 0 {
						mx = x
					}
					if x.Cmp(mn) < 0 {
						mn = x
					}
				}
				g, ok1 := v[0].Rat()
				l, ok2 := v[1].Rat()
				if ok1 && ok2 && g.Cmp(mx) == 0 && l.Cmp(mn) == 0 {
					return ""
				}
				// known finding: every numeric argument is compared (and returned) as a float64
				lossy, lossyInt := false, false
				for i, x := range nums {
					if _, exact := x.Float64(); !exact {
						lossy = true
						if isInt[i] {
							lossyInt = true
						}
					}
				}
				if lossyInt {
					return "integer-argument-beyond-2^53-compared-as-double"
				}
				if (kind == 1 || kind == 3) && lossy && ok1 && ok2 && sameAsDouble(g, mx) && sameAsDouble(l, mn) {
					return "decimal-result-rounded-to-double"
				}
				if kind == 3 && ok1 && ok2 {
					// known finding: an integer argument is compared with the running selection truncated to int64
					emu := func(less bool) float64 {
						sel := 0.0
						for i, x := range nums {
							f, _ := x.Float64()
							if isInt[i] {
								iv, t := x.Num().Int64(), int64(sel)
								if i == 0 || (less && iv < t) || (!less && iv > t) {
									sel = float64(iv)
								}
							} else if i == 0 || (less && f < sel) || (!less && f > sel) {
								sel = f
							}
						}
						return sel
					}
					gf, _ := g.Float64()
					lf, _ := l.Float64()
					if gf == emu(false) && lf == emu(true) {
						return "integer-argument-compared-with-truncated-running-value"
					}
				}
				if !ok1 || g.Cmp(mx) != 0 {
					return "greatest-" + cls
				}
				return "least-" + cls
			}, "GREATEST("+strings.Join(lits, ",")+")", "LEAST("+strings.Join(lits, ",")+")")
		}},
		{Name: "pow-sqrt", Weight: 2, Gen: func(rnd *rand.Rand) *Inst {
			x := int64(rnd.Intn(200001)) - 100000
			sq := new(big.Rat).SetInt64(x * x)
			ax := x
			if ax < 0 {
				ax = -ax
			}
			c := "positive"
			if x < 0 {
				c = "negative"
			} else if x == 0 {
				c = "zero"
			}
			return g5lib.NewInst(c, x, func(v []V) string {
				p, ok := v[0].Rat()
				if !ok || p.Cmp(sq) != 0 {
					return "pow-2-differs-from-product"
				}
				p2, ok := v[1].Rat()
				if !ok || p2.Cmp(sq) != 0 {
					return "power-synonym-differs"
				}
				s, ok := v[2].Rat()
				if !ok || s.Cmp(new(big.Rat).SetInt64(ax)) != 0 {
					return "sqrt-of-square-is-not-abs"
				}
				return ""
			}, fmt.Sprintf("POW(%s,2)", I(x)), fmt.Sprintf("POWER(%s,2)", I(x)), fmt.Sprintf("SQRT(%s*%s)", I(x), I(x)))
		}},
		{Name: "sqrt-negative", Gen: func(rnd *rand.Rand) *Inst {
			x := -1 - rnd.Int63n(1000)
			return g5lib.NewInst("negative", x, g5lib.WantNull("sqrt-of-negative-not-null"), "SQRT("+I(x)+")")
		}},
		{Name: "exp-ln", Gen: func(rnd *rand.Rand) *Inst {
			// inverse pair on doubles, judged with a relative tolerance of 1e-9
			x := math.Exp((rnd.Float64() - 0.5) * 40)
			lit := fmt.Sprintf("%.15e", x)
			f := mustFloat(lit)
			return g5lib.NewInst("positive", lit, func(v []V) string {
				a, ok1 := v[0].Float()
				b, ok2 := v[1].Float()
				c, ok3 := v[2].Float()
				if !ok1 || !ok2 || !ok3 {
					return "not-a-number"
				}
				if math.Abs(a-f) > 1e-9*f {
					return "exp-ln-not-inverse"
				}
				if math.Abs(b-math.Log10(f)) > 1e-9*(1+math.Abs(math.Log10(f))) || math.Abs(c-math.Log2(f)) > 1e-9*(1+math.Abs(math.Log2(f))) {
					return "log10-log2-differ-from-reference"
				}
				return ""
			}, "EXP(LN("+lit+"))", "LOG10("+lit+")", "LOG2("+lit+")")
		}},
		{Name: "ln-nonpositive", Gen: func(rnd *rand.Rand) *Inst {
			x := -rnd.Int63n(100)
			return g5lib.NewInst("nonpositive", x, func(v []V) string {
				if !v[0].IsNull() || !v[1].IsNull() {
					return "log-of-nonpositive-not-null"
				}
				return ""
			}, "LN("+I(x)+")", "LOG10("+I(x)+")")
		}},
		{Name: "degrees-radians", Gen: func(rnd *rand.Rand) *Inst {
			x := (rnd.Float64() - 0.5) * 2000
			lit := fmt.Sprintf("%.12f", x)
			f := mustFloat(lit)
			if strings.HasPrefix(lit, "-") {
				lit = "(" + lit + ")"
			}
			return g5lib.NewInst("general", lit, func(v []V) string {
				a, ok := v[0].Float()
				if !ok || math.Abs(a-f) > 1e-9*(1+math.Abs(f)) {
					return "not-inverse"
				}
				b, ok := v[1].Float()
				if !ok || math.Abs(b-f*180/math.Pi) > 1e-9*(1+math.Abs(f*180/math.Pi)) {
					return "degrees-differs-from-reference"
				}
				return ""
			}, "RADIANS(DEGREES("+lit+"))", "DEGREES("+lit+")")
		}},
		{Name: "format", Weight: 3, Gen: func(rnd *rand.Rand) *Inst {
			x := genDec(rnd)
			d := rnd.Intn(7)
			r := roundHalfAway(x.val, d)
			if r.Sign() == 0 && x.val.Sign() < 0 {
				// MySQL prints a negative zero ("-0.00") here; not judged
				x = mkDec("0.5", "half")
				r = roundHalfAway(x.val, d)
			}
			want := groupDigits(r.FloatString(d))
			return g5lib.NewInst(fmt.Sprintf("%s/d=%d", x.class, d), []any{x.text, d}, func(v []V) string {
				got, ok := v[0].Str()
				if !ok {
					return "not-a-string"
				}
				if got == want {
					return ""
				}
				if strings.ReplaceAll(got, ",", "") == strings.ReplaceAll(want, ",", "") {
					return "digit-grouping"
				}
				// known finding: FORMAT converts its argument to float64 before rounding
				sc := new(big.Rat).Mul(absRat(x.val), pow10(d))
				fr := new(big.Rat).Sub(sc, new(big.Rat).SetInt(floorRat(sc)))
				if fr.Cmp(big.NewRat(1, 2)) == 0 && got == groupDigits(truncateTo(x.val, d).FloatString(d)) {
					return "exact-tie-rounded-down-through-double"
				}
				if coefDigits(x.text) > 15 || len(floorRat(sc).String()) > 15 {
					return "more-than-15-significant-digits-through-double"
				}
				return "digits-differ-from-rounded-value"
			}, fmt.Sprintf("FORMAT(%s,%d)", x.lit(), d))
		}},
		{Name: "int-division-identity", Weight: 2, Gen: func(rnd *rand.Rand) *Inst {
			// (a DIV b) * b + (a MOD b) = a for integers, b ≠ 0; DIV truncates toward zero (recomposed in Go so that the
			// law does not depend on the typing of nested integer arithmetic, which is C25's subject)
			a := rnd.Int63n(2_000_001) - 1_000_000
			b := int64(rnd.Intn(2001)) - 1000
			if b == 0 {
				b = 7
			}
			c := "same-sign"
			if (a < 0) != (b < 0) {
				c = "mixed-sign"
			}
			return g5lib.NewInst(c, []int64{a, b}, func(v []V) string {
				q, ok1 := v[0].Int()
				r, ok2 := v[1].Int()
				if !ok1 || !ok2 {
					return "not-integers"
				}
				if q*b+r != a {
					return "div-times-divisor-plus-mod-is-not-dividend"
				}
				if q != a/b {
					return "div-not-truncated-toward-zero"
				}
				return ""
			}, fmt.Sprintf("%s DIV %s", I(a), I(b)), fmt.Sprintf("MOD(%s,%s)", I(a), I(b)))
		}},
	}
}

// sameAsDouble: got is exactly the float64 nearest to want.
func sameAsDouble(got, want *big.Rat) bool {
	f, _ := want.Float64()
	g, _ := got.Float64()
	return f == g
}

// coefDigits is the number of digits of the coefficient of a decimal literal (3.00 → 3, 0.00033 → 2).
func coefDigits(text string) int {
	t := strings.TrimLeft(strings.ReplaceAll(strings.TrimPrefix(text, "-"), ".", ""), "0")
	if t == "" {
		return 1
	}
	return len(t)
}

func mustFloat(s string) float64 {
	var f float64
	fmt.Sscan(s, &f)
	return f
}

// groupDigits inserts thousands separators into the integer part of a fixed-point text.
func groupDigits(s string) string {
	sign := ""
	if strings.HasPrefix(s, "-") {
		sign, s = "-", s[1:]
	}
	ip, fp := s, ""
	if k := strings.Index(s, "."); k >= 0 {
		ip, fp = s[:k], s[k:]
	}
	var b strings.Builder
	for i, c := range ip {
		if i > 0 && (len(ip)-i)%3 == 0 {
			b.WriteByte(',')
		}
		b.WriteRune(c)
	}
	return sign + b.String() + fp
}
