package main

import (
	"bytes"
	"fmt"
	"math/rand"
	"strings"
	"unicode/utf8"

	"verif/harness/g5lib"
)

type L = g5lib.Law
type V = g5lib.Val
type Inst = g5lib.Inst

var Q = g5lib.Q
var I = g5lib.I

func runes(s string) []rune { return []rune(s) }

func revRunes(s string) string {
	r := runes(s)
	for i, j := 0, len(r)-1; i < j; i, j = i+1, j-1 {
		r[i], r[j] = r[j], r[i]
	}
	return string(r)
}

// genPos draws a position/length around the interesting boundaries of a string of n characters.
func genPos(rnd *rand.Rand, n int) (int64, string) {
	switch rnd.Intn(8) {
	case 0:
		return 0, "zero"
	case 1:
		return int64(-1 - rnd.Intn(n+2)), "negative"
	case 2:
		return int64(n), "len"
	case 3:
		return int64(n + 1), "len+1"
	case 4:
		return int64(n + 2 + rnd.Intn(5)), "beyond"
	case 5:
		return 1 << 40, "huge"
	}
	if n == 0 {
		return 1, "one"
	}
	return int64(1 + rnd.Intn(n)), "inside"
}

// sub picks a random substring (by runes) of s; may be empty.
func sub(rnd *rand.Rand, s string) string {
	r := runes(s)
	if len(r) == 0 {
		return ""
	}
	a := rnd.Intn(len(r))
	b := a + 1 + rnd.Intn(len(r)-a)
	return string(r[a:b])
}

func runeIndex(s, t string) int { // 1-based character position of first occurrence, 0 if none
	k := strings.Index(s, t)
	if k < 0 {
		return 0
	}
	return utf8.RuneCountInString(s[:k]) + 1
}

// leftRef / rightRef / substrRef: MySQL semantics on characters.
func leftRef(s string, n int64) string {
	r := runes(s)
	if n <= 0 {
		return ""
	}
	if n > int64(len(r)) {
		n = int64(len(r))
	}
	return string(r[:n])
}

func rightRef(s string, n int64) string {
	r := runes(s)
	if n <= 0 {
		return ""
	}
	if n > int64(len(r)) {
		n = int64(len(r))
	}
	return string(r[int64(len(r))-n:])
}

// substrRef is SUBSTRING(s, pos) / SUBSTRING(s, pos, l): pos 0 → empty; negative pos counts from the end.
func substrRef(s string, pos int64, l int64, hasLen bool) string {
	r := runes(s)
	n := int64(len(r))
	if pos == 0 {
		return ""
	}
	var start int64
	if pos > 0 {
		start = pos - 1
	} else {
		start = n + pos
		if start < 0 {
			return ""
		}
	}
	if start >= n {
		return ""
	}
	end := n
	if hasLen {
		if l <= 0 {
			return ""
		}
		if l < n-start {
			end = start + l
		}
	}
	return string(r[start:end])
}

// padByteRef reproduces a padding algorithm that measures everything in bytes (finding F37 matcher).
func padByteRef(s string, n int64, p string, left bool) string {
	if n <= 0 {
		return ""
	}
	if int64(len(s)) >= n {
		return s[:n]
	}
	if len(p) == 0 {
		return ""
	}
	padLen := int(n - int64(len(s)))
	pad := strings.Repeat(p, padLen/len(p)) + p[:padLen%len(p)]
	if left {
		return pad + s
	}
	return s + pad
}

// byteLocate reproduces a LOCATE that works on bytes and folds case with strings.ToLower (matcher of the
// known finding locate:multibyte-position-counted-in-bytes).
func byteLocate(s, t string, pos int) int64 {
	if pos <= 0 || (len(s) > 0 && pos > len(s)) {
		return 0
	}
	if len(t) == 0 && len(s) == 0 {
		return 1
	}
	k := strings.Index(strings.ToLower(s[pos-1:]), strings.ToLower(t))
	if k < 0 {
		return 0
	}
	return int64(k + pos)
}

// insertByteRef reproduces an INSERT() that counts positions and lengths in bytes.
func insertByteRef(s string, p, l int64, t string) string {
	n := int64(len(s))
	if p < 1 || p > n {
		return s
	}
	end := p - 1 + l
	if l < 0 || end > n {
		end = n
	}
	return s[:p-1] + t + s[end:]
}

func padRef(s string, n int64, p string, left bool) string {
	rs, rp := runes(s), runes(p)
	if int64(len(rs)) >= n {
		return string(rs[:n])
	}
	padLen := int(n) - len(rs)
	var b []rune
	for len(b) < padLen {
		b = append(b, rp...)
	}
	b = b[:padLen]
	if left {
		return string(b) + s
	}
	return s + string(b)
}

func stringLaws() []L {
	return []L{
		{Name: "literal-hex", Gen: func(rnd *rand.Rand) *Inst {
			// self-check of the harness' literal rendering and of HEX on text: HEX(lit) = hex of the bytes
			s, c := g5lib.GenStr(rnd)
			return g5lib.NewInst(c, s, g5lib.WantStr(strings.ToUpper(fmt.Sprintf("%x", s)), "hex-of-literal-differs"), "HEX("+Q(s)+")")
		}},
		{Name: "char-length-concat", Weight: 2, Gen: func(rnd *rand.Rand) *Inst {
			a, ca := g5lib.GenStr(rnd)
			b, cb := g5lib.GenStr(rnd)
			return g5lib.NewInst(ca+"+"+cb, []string{a, b}, func(v []V) string {
				if !v[1].IsInt(int64(g5lib.Runes(a))) || !v[2].IsInt(int64(g5lib.Runes(b))) {
					return "char-length-differs-from-rune-count"
				}
				if !v[0].IsInt(int64(g5lib.Runes(a) + g5lib.Runes(b))) {
					return "not-additive"
				}
				if !v[3].IsStr(a + b) {
					return "concat-value"
				}
				return ""
			}, fmt.Sprintf("CHAR_LENGTH(CONCAT(%s,%s))", Q(a), Q(b)), "CHAR_LENGTH("+Q(a)+")", "CHARACTER_LENGTH("+Q(b)+")", fmt.Sprintf("CONCAT(%s,%s)", Q(a), Q(b)))
		}},
		{Name: "length-concat", Gen: func(rnd *rand.Rand) *Inst {
			a, ca := g5lib.GenStr(rnd)
			b, cb := g5lib.GenStr(rnd)
			return g5lib.NewInst(ca+"+"+cb, []string{a, b}, func(v []V) string {
				if !v[0].IsInt(int64(len(a)+len(b))) || !v[1].IsInt(int64(len(a))) {
					return "byte-length"
				}
				if !v[2].IsInt(int64(8*len(b))) || !v[3].IsInt(int64(len(b))) {
					return "bit-or-octet-length"
				}
				return ""
			}, fmt.Sprintf("LENGTH(CONCAT(%s,%s))", Q(a), Q(b)), "LENGTH("+Q(a)+")", "BIT_LENGTH("+Q(b)+")", "OCTET_LENGTH("+Q(b)+")")
		}},
		{Name: "concat-ws", Gen: func(rnd *rand.Rand) *Inst {
			// CONCAT_WS skips NULL arguments (not the separator); reference join
			sep := g5lib.GenStrClass(rnd, []string{"empty", "ascii", "latin"}[rnd.Intn(3)])
			n := 1 + rnd.Intn(4)
			var parts, lits []string
			nulls := 0
			for i := 0; i < n; i++ {
				if rnd.Intn(4) == 0 {
					lits = append(lits, "NULL")
					nulls++
					continue
				}
				s, _ := g5lib.GenStr(rnd)
				parts = append(parts, s)
				lits = append(lits, Q(s))
			}
			return g5lib.NewInst(fmt.Sprintf("n=%d,nulls=%d", n, nulls), lits, g5lib.WantStr(strings.Join(parts, sep), "join-differs"),
				"CONCAT_WS("+Q(sep)+","+strings.Join(lits, ",")+")")
		}},
		{Name: "reverse", Weight: 2, Gen: func(rnd *rand.Rand) *Inst {
			s, c := g5lib.GenStr(rnd)
			return g5lib.NewInst(c, s, func(v []V) string {
				if !v[0].IsStr(s) {
					return "not-involution"
				}
				if !v[1].IsStr(revRunes(s)) {
					return "not-character-reversal"
				}
				return ""
			}, "REVERSE(REVERSE("+Q(s)+"))", "REVERSE("+Q(s)+")")
		}},
		{Name: "left-substring-split", Weight: 2, Gen: func(rnd *rand.Rand) *Inst {
			s, c := g5lib.GenStr(rnd)
			n, pc := genPos(rnd, g5lib.Runes(s))
			if n < 0 || pc == "huge" {
				// CONCAT(LEFT(s,n),SUBSTRING(s,n+1)) = s needs n ≥ 0 (negative n+1 counts from the end)
				n, pc = 0, "zero"
			}
			return g5lib.NewInst(c+"/"+pc, []any{s, n}, func(v []V) string {
				if !v[0].IsStr(s) {
					return "split-does-not-recompose"
				}
				if !v[1].IsStr(leftRef(s, n)) {
					return "left-value"
				}
				if !v[2].IsStr(rightRef(s, n)) {
					return "right-value"
				}
				return ""
			}, fmt.Sprintf("CONCAT(LEFT(%s,%d), SUBSTRING(%s,%d))", Q(s), n, Q(s), n+1), fmt.Sprintf("LEFT(%s,%d)", Q(s), n), fmt.Sprintf("RIGHT(%s,%d)", Q(s), n))
		}},
		{Name: "substring-ref", Weight: 2, Gen: func(rnd *rand.Rand) *Inst {
			s, c := g5lib.GenStr(rnd)
			p, pc := genPos(rnd, g5lib.Runes(s))
			l, lc := genPos(rnd, g5lib.Runes(s))
			return g5lib.NewInst(c+"/"+pc+"/"+lc, []any{s, p, l}, func(v []V) string {
				if !v[0].IsStr(substrRef(s, p, 0, false)) {
					return "two-arg-value"
				}
				if !v[1].IsStr(substrRef(s, p, l, true)) {
					return "three-arg-value"
				}
				if !v[2].IsStr(substrRef(s, p, l, true)) || !v[3].IsStr(substrRef(s, p, l, true)) {
					return "synonym-differs"
				}
				return ""
			}, fmt.Sprintf("SUBSTRING(%s,%s)", Q(s), I(p)), fmt.Sprintf("SUBSTRING(%s,%s,%s)", Q(s), I(p), I(l)),
				fmt.Sprintf("MID(%s,%s,%s)", Q(s), I(p), I(l)), fmt.Sprintf("SUBSTR(%s FROM %s FOR %s)", Q(s), I(p), I(l)))
		}},
		{Name: "locate", Weight: 3, Gen: func(rnd *rand.Rand) *Inst {
			s, c := g5lib.GenStr(rnd)
			var t, tc string
			if rnd.Intn(3) > 0 && s != "" {
				t, tc = sub(rnd, s), "substring"
			} else {
				t, tc = g5lib.GenStr(rnd)
				if t == "" {
					tc = "empty"
				} else if strings.Contains(s, t) {
					tc = "substring"
				} else {
					tc = "absent"
				}
			}
			want := int64(runeIndex(s, t))
			fold := int64(runeIndex(strings.ToLower(s), strings.ToLower(t)))
			if fold != want {
				tc = "case-variant-earlier"
			}
			return g5lib.NewInst(c+"/"+tc, []string{s, t}, func(v []V) string {
				if !v[1].IsInt(want) {
					return "instr-differs-from-reference"
				}
				if !v[0].IsInt(want) || !v[2].IsInt(want) {
					if g5lib.MultiByte(s) && v[0].IsInt(byteLocate(s, t, 1)) && v[2].IsInt(byteLocate(s, t, 1)) {
						return "multibyte-position-counted-in-bytes"
					}
					if fold != want && v[0].IsInt(fold) && v[2].IsInt(fold) {
						return "case-folded-match-under-binary-collation"
					}
					if want == 0 {
						return "found-but-absent"
					}
					return "position-differs-from-reference"
				}
				if want > 0 && !v[3].IsStr(t) {
					return "substring-at-located-position-is-not-needle"
				}
				return ""
			}, fmt.Sprintf("LOCATE(%s,%s)", Q(t), Q(s)), fmt.Sprintf("INSTR(%s,%s)", Q(s), Q(t)), fmt.Sprintf("POSITION(%s IN %s)", Q(t), Q(s)),
				fmt.Sprintf("SUBSTRING(%s, LOCATE(%s,%s), CHAR_LENGTH(%s))", Q(s), Q(t), Q(s), Q(t)))
		}},
		{Name: "locate-from", Gen: func(rnd *rand.Rand) *Inst {
			// LOCATE(t, s, pos) for 1 ≤ pos ≤ len+1 and non-empty t: first occurrence at or after pos
			s, c := g5lib.GenStr(rnd)
			if s == "" {
				s, c = "abcabc", "ascii"
			}
			t := sub(rnd, s)
			rs := runes(s)
			pos := 1 + rnd.Intn(len(rs))
			rest := string(rs[pos-1:])
			want := int64(0)
			if k := runeIndex(rest, t); k > 0 {
				want = int64(k + pos - 1)
			}
			cls := "found"
			if want == 0 {
				cls = "not-after-pos"
			}
			fold := int64(0)
			if k := runeIndex(strings.ToLower(rest), strings.ToLower(t)); k > 0 {
				fold = int64(k + pos - 1)
			}
			return g5lib.NewInst(c+"/"+cls, []any{s, t, pos}, func(v []V) string {
				if v[0].IsInt(want) {
					return ""
				}
				if g5lib.MultiByte(s) && v[0].IsInt(byteLocate(s, t, pos)) {
					return "multibyte-position-counted-in-bytes"
				}
				if fold != want && v[0].IsInt(fold) {
					return "case-folded-match-under-binary-collation"
				}
				return "position-differs-from-reference"
			}, fmt.Sprintf("LOCATE(%s,%s,%d)", Q(t), Q(s), pos))
		}},
		{Name: "insert-splice", Weight: 2, Gen: func(rnd *rand.Rand) *Inst {
			s, c := g5lib.GenStr(rnd)
			t, _ := g5lib.GenStr(rnd)
			n := g5lib.Runes(s)
			p, pc := genPos(rnd, n)
			l, lc := genPos(rnd, n)
			if pc == "len+1" { // MySQL appends at len+1; documented text says "original string" — not judged
				p, pc = int64(n), "len"
			}
			if pc == "len" && n == 0 {
				pc = "zero"
			}
			rs := runes(s)
			var want string
			if p < 1 || p > int64(n) {
				want = s
			} else {
				end := p - 1 + l
				if l < 0 || end > int64(n) {
					end = int64(n)
				}
				want = string(rs[:p-1]) + t + string(rs[end:])
			}
			return g5lib.NewInst(c+"/"+pc+"/"+lc, []any{s, p, l, t}, func(v []V) string {
				if v[0].IsStr(want) {
					return ""
				}
				if g5lib.MultiByte(s) && v[0].IsStr(insertByteRef(s, p, l, t)) {
					return "multibyte-positions-counted-in-bytes"
				}
				return "differs-from-reference-splice"
			}, fmt.Sprintf("INSERT(%s,%s,%s,%s)", Q(s), I(p), I(l), Q(t)))
		}},
		{Name: "pad", Weight: 4, Gen: func(rnd *rand.Rand) *Inst {
			s, c := g5lib.GenStr(rnd)
			p := g5lib.GenStrClass(rnd, []string{"ascii", "latin", "cjk", "emoji"}[rnd.Intn(4)])
			left := rnd.Intn(2) == 0
			fn := "RPAD"
			if left {
				fn = "LPAD"
			}
			n := int64(rnd.Intn(g5lib.Runes(s) + 12))
			nc := "extend"
			if n < int64(g5lib.Runes(s)) {
				nc = "truncate"
			} else if n == int64(g5lib.Runes(s)) {
				nc = "exact"
			}
			mb := "1byte"
			if g5lib.MultiByte(s) || g5lib.MultiByte(p) {
				mb = "multibyte"
			}
			want := padRef(s, n, p, left)
			return &Inst{Class: fn + "/" + c + "/" + nc + "/" + mb, Args: []any{s, n, p}, OnErr: g5lib.ErrToCheck, Exprs: []string{fmt.Sprintf("%s(%s,%d,%s)", fn, Q(s), n, Q(p)), fmt.Sprintf("CHAR_LENGTH(%s(%s,%d,%s))", fn, Q(s), n, Q(p))}, Check: func(v []V) string {
				if g5lib.IsErr(v) {
					// cutting in the middle of a character makes CHAR_LENGTH fail on the malformed result
					if mb == "multibyte" && !utf8.ValidString(padByteRef(s, n, p, left)) && strings.Contains(g5lib.ErrOf(v), "malformed string") {
						return "multibyte-target-length-counted-in-bytes"
					}
					return "error"
				}
				got, ok := v[0].Str()
				if ok && got == want && v[1].IsInt(n) {
					return ""
				}
				if ok && mb == "multibyte" && got == padByteRef(s, n, p, left) {
					return "multibyte-target-length-counted-in-bytes"
				}
				if !v[1].IsInt(n) {
					return "char-length-is-not-target-length"
				}
				return "differs-from-reference-padding"
			}}
		}},
		{Name: "case-idempotent", Weight: 2, Gen: func(rnd *rand.Rand) *Inst {
			s, c := g5lib.GenStr(rnd)
			return g5lib.NewInst(c, s, func(v []V) string {
				u, ok := v[1].Str()
				if !ok || !v[0].IsStr(u) {
					return "upper-lower-upper-differs-from-upper"
				}
				l, ok := v[3].Str()
				if !ok || !v[2].IsStr(l) {
					return "lower-upper-lower-differs-from-lower"
				}
				if !g5lib.MultiByte(s) && (u != strings.ToUpper(s) || l != strings.ToLower(s)) {
					return "ascii-case-mapping"
				}
				if !v[4].IsStr(u) || !v[5].IsStr(l) {
					return "ucase-lcase-synonyms"
				}
				return ""
			}, "UPPER(LOWER(UPPER("+Q(s)+")))", "UPPER("+Q(s)+")", "LOWER(UPPER(LOWER("+Q(s)+")))", "LOWER("+Q(s)+")", "UCASE("+Q(s)+")", "LCASE("+Q(s)+")")
		}},
		{Name: "trim", Weight: 2, Gen: func(rnd *rand.Rand) *Inst {
			s, c := g5lib.GenStr(rnd)
			lead, trail := strings.Repeat(" ", rnd.Intn(3)), strings.Repeat(" ", rnd.Intn(3))
			w := lead + s + trail
			return g5lib.NewInst(c, w, func(v []V) string {
				if !v[0].IsStr(strings.Trim(s, " ")) {
					return "trim-of-space-wrapped-differs-from-trim"
				}
				if !v[1].IsStr(strings.Trim(w, " ")) {
					return "trim-value"
				}
				if !v[2].IsStr(strings.TrimLeft(w, " ")) || !v[3].IsStr(strings.TrimRight(w, " ")) {
					return "ltrim-rtrim-value"
				}
				return ""
			}, "TRIM(CONCAT(' ',"+Q(s)+",' '))", "TRIM("+Q(w)+")", "LTRIM("+Q(w)+")", "RTRIM("+Q(w)+")")
		}},
		{Name: "trim-remstr", Gen: func(rnd *rand.Rand) *Inst {
			// TRIM(LEADING|TRAILING|BOTH r FROM s) with a non-empty remove string
			r := g5lib.GenStrClass(rnd, []string{"ascii", "latin", "cjk"}[rnd.Intn(3)])
			if g5lib.Runes(r) > 2 {
				r = string(runes(r)[:2])
			}
			core, c := g5lib.GenStr(rnd)
			s := strings.Repeat(r, rnd.Intn(3)) + core + strings.Repeat(r, rnd.Intn(3))
			trimL := func(x string) string {
				for strings.HasPrefix(x, r) {
					x = x[len(r):]
				}
				return x
			}
			trimR := func(x string) string {
				for strings.HasSuffix(x, r) {
					x = x[:len(x)-len(r)]
				}
				return x
			}
			return g5lib.NewInst(c, []string{r, s}, func(v []V) string {
				if !v[0].IsStr(trimL(s)) {
					return "leading"
				}
				if !v[1].IsStr(trimR(s)) {
					return "trailing"
				}
				if !v[2].IsStr(trimR(trimL(s))) {
					return "both"
				}
				return ""
			}, fmt.Sprintf("TRIM(LEADING %s FROM %s)", Q(r), Q(s)), fmt.Sprintf("TRIM(TRAILING %s FROM %s)", Q(r), Q(s)), fmt.Sprintf("TRIM(BOTH %s FROM %s)", Q(r), Q(s)))
		}},
		{Name: "repeat-space", Gen: func(rnd *rand.Rand) *Inst {
			s, c := g5lib.GenStr(rnd)
			if c == "long" {
				s, c = "ab", "ascii"
			}
			n := int64(rnd.Intn(8)) - 2
			nc := "positive"
			if n <= 0 {
				nc = "non-positive"
			}
			want := ""
			if n > 0 {
				want = strings.Repeat(s, int(n))
			}
			sp := ""
			if n > 0 {
				sp = strings.Repeat(" ", int(n))
			}
			return &Inst{Class: c + "/" + nc, Args: []any{s, n}, OnErr: g5lib.ErrToCheck, Exprs: []string{fmt.Sprintf("REPEAT(%s,%s)", Q(s), I(n)), fmt.Sprintf("SPACE(%s)", I(n))}, Check: func(v []V) string {
				if g5lib.IsErr(v) {
					if n < 0 && strings.Contains(g5lib.ErrOf(v), "negative Repeat count") {
						return "repeat-negative-count-errors"
					}
					return "error"
				}
				if !v[0].IsStr(want) {
					return "repeat-value"
				}
				if !v[1].IsStr(sp) {
					return "space-value"
				}
				return ""
			}}
		}},
		{Name: "replace", Weight: 2, Gen: func(rnd *rand.Rand) *Inst {
			s, c := g5lib.GenStr(rnd)
			a := sub(rnd, s)
			ac := "occurs"
			if a == "" || rnd.Intn(4) == 0 {
				a, _ = g5lib.GenStr(rnd)
				ac = "random"
				if a == "" {
					ac = "empty"
				}
			}
			b, _ := g5lib.GenStr(rnd)
			want := s
			if a != "" {
				want = strings.ReplaceAll(s, a, b)
			}
			return g5lib.NewInst(c+"/"+ac, []string{s, a, b}, func(v []V) string {
				if !v[0].IsStr(s) {
					return "replace-by-itself-changes-string"
				}
				if !v[1].IsStr(want) {
					return "differs-from-reference-replace"
				}
				return ""
			}, fmt.Sprintf("REPLACE(%s,%s,%s)", Q(s), Q(a), Q(a)), fmt.Sprintf("REPLACE(%s,%s,%s)", Q(s), Q(a), Q(b)))
		}},
		{Name: "substring-index", Gen: func(rnd *rand.Rand) *Inst {
			d := []string{",", ".", "ab", "日"}[rnd.Intn(4)]
			n := 1 + rnd.Intn(4)
			al := []rune("xyz12 é語")
			var parts []string
			for i := 0; i < n; i++ {
				var b strings.Builder
				for k := rnd.Intn(4); k > 0; k-- {
					b.WriteRune(al[rnd.Intn(len(al))])
				}
				parts = append(parts, b.String())
			}
			s := strings.Join(parts, d)
			k := int64(rnd.Intn(2*n+3)) - int64(n) - 1
			var want string
			switch {
			case k == 0:
				want = ""
			case k > 0:
				if int(k) >= n {
					want = s
				} else {
					want = strings.Join(parts[:k], d)
				}
			default:
				if int(-k) >= n {
					want = s
				} else {
					want = strings.Join(parts[n+int(k):], d)
				}
			}
			kc := "pos"
			if k < 0 {
				kc = "neg"
			} else if k == 0 {
				kc = "zero"
			}
			return g5lib.NewInst(fmt.Sprintf("delim=%d/%s", len(d), kc), []any{s, d, k}, g5lib.WantStr(want, "differs-from-reference-split"),
				fmt.Sprintf("SUBSTRING_INDEX(%s,%s,%s)", Q(s), Q(d), I(k)))
		}},
		{Name: "strcmp", Weight: 2, Gen: func(rnd *rand.Rand) *Inst {
			a, ca := g5lib.GenStr(rnd)
			b, cb := g5lib.GenStr(rnd)
			if rnd.Intn(4) == 0 {
				b = a + []string{"", "a", " "}[rnd.Intn(3)]
			}
			// utf8mb4_0900_bin (the default collation of literals) orders by code point = UTF-8 byte order, NO PAD
			want := int64(bytes.Compare([]byte(a), []byte(b)))
			return g5lib.NewInst(ca+"/"+cb, []string{a, b}, func(v []V) string {
				x, ok1 := v[0].Int()
				y, ok2 := v[1].Int()
				if !ok1 || !ok2 || x != -y {
					return "not-antisymmetric"
				}
				if !v[2].IsInt(0) {
					return "not-reflexive"
				}
				if x != want {
					return "differs-from-code-point-order"
				}
				return ""
			}, fmt.Sprintf("STRCMP(%s,%s)", Q(a), Q(b)), fmt.Sprintf("STRCMP(%s,%s)", Q(b), Q(a)), fmt.Sprintf("STRCMP(%s,%s)", Q(a), Q(a)))
		}},
		{Name: "ascii-ord-char", Weight: 2, Gen: func(rnd *rand.Rand) *Inst {
			s, c := g5lib.GenStr(rnd)
			var first string
			if s != "" {
				_, sz := utf8.DecodeRuneInString(s)
				first = s[:sz]
			}
			var ord int64
			for i := 0; i < len(first); i++ {
				ord = ord<<8 | int64(first[i])
			}
			asc := int64(0)
			if s != "" {
				asc = int64(s[0])
			}
			return g5lib.NewInst(c+fmt.Sprintf("/first=%dB", len(first)), s, func(v []V) string {
				if !v[0].IsInt(asc) {
					return "ascii-is-not-first-byte"
				}
				if !v[1].IsInt(ord) {
					return "ord-is-not-big-endian-bytes-of-first-character"
				}
				if s != "" && !v[2].IsStr(first) {
					return "char-of-ord-is-not-first-character"
				}
				return ""
			}, "ASCII("+Q(s)+")", "ORD("+Q(s)+")", "CHAR(ORD("+Q(s)+"))")
		}},
		{Name: "char-bytes", Gen: func(rnd *rand.Rand) *Inst {
			n := 1 + rnd.Intn(4)
			var args []string
			var want []byte
			cls := "bytes"
			for i := 0; i < n; i++ {
				var x uint32
				switch rnd.Intn(4) {
				case 0:
					x = uint32(rnd.Intn(256))
				case 1:
					x = uint32(65 + rnd.Intn(26))
				case 2:
					x = uint32(256 + rnd.Intn(65536-256))
					cls = "multi"
				default:
					x = rnd.Uint32()
					cls = "multi"
				}
				args = append(args, fmt.Sprint(x))
				switch {
				case x >= 1<<24:
					want = append(want, byte(x>>24), byte(x>>16), byte(x>>8), byte(x))
				case x >= 1<<16:
					want = append(want, byte(x>>16), byte(x>>8), byte(x))
				case x >= 1<<8:
					want = append(want, byte(x>>8), byte(x))
				default:
					want = append(want, byte(x))
				}
			}
			return g5lib.NewInst(fmt.Sprintf("n=%d/%s", n, cls), args, g5lib.WantStr(strings.ToUpper(fmt.Sprintf("%x", want)), "bytes-differ"), "HEX(CHAR("+strings.Join(args, ",")+"))")
		}},
		{Name: "field-elt", Weight: 2, Gen: func(rnd *rand.Rand) *Inst {
			n := 1 + rnd.Intn(5)
			var items, lits []string
			for i := 0; i < n; i++ {
				s := g5lib.GenStrClass(rnd, []string{"ascii", "latin", "cjk", "empty"}[rnd.Intn(4)])
				items = append(items, s)
				lits = append(lits, Q(s))
			}
			var x string
			cls := "present"
			if rnd.Intn(3) == 0 {
				x, _ = g5lib.GenStr(rnd)
			} else {
				x = items[rnd.Intn(n)]
			}
			want := int64(0)
			for i, it := range items {
				if it == x {
					want = int64(i + 1)
					break
				}
			}
			if want == 0 {
				cls = "absent"
			}
			for i, it := range items {
				if strings.EqualFold(it, x) && (want == 0 || int64(i+1) < want) {
					return nil // a case variant comes first: whether FIELD folds case is not judged here
				}
			}
			k := int64(rnd.Intn(n+3)) - 1
			return g5lib.NewInst(fmt.Sprintf("n=%d/%s", n, cls), []any{x, items, k}, func(v []V) string {
				if !v[0].IsInt(want) {
					return "field-index"
				}
				if want > 0 && !v[1].IsStr(x) {
					return "elt-of-field-is-not-the-value"
				}
				if want == 0 && !v[1].IsNull() {
					return "elt-0-not-null"
				}
				if k >= 1 && k <= int64(n) {
					if !v[2].IsStr(items[k-1]) {
						return "elt-value"
					}
				} else if !v[2].IsNull() {
					return "elt-out-of-range-not-null"
				}
				return ""
			}, fmt.Sprintf("FIELD(%s,%s)", Q(x), strings.Join(lits, ",")), fmt.Sprintf("ELT(FIELD(%s,%s),%s)", Q(x), strings.Join(lits, ","), strings.Join(lits, ",")),
				fmt.Sprintf("ELT(%s,%s)", I(k), strings.Join(lits, ",")))
		}},
		{Name: "find-in-set", Gen: func(rnd *rand.Rand) *Inst {
			n := rnd.Intn(5)
			var items []string
			for i := 0; i < n; i++ {
				s := g5lib.GenStrClass(rnd, []string{"ascii", "latin", "cjk"}[rnd.Intn(3)])
				items = append(items, strings.ReplaceAll(s, ",", "_"))
			}
			x := strings.ReplaceAll(g5lib.GenStrClass(rnd, "ascii"), ",", "_")
			if n > 0 && rnd.Intn(3) > 0 {
				x = items[rnd.Intn(n)]
			}
			want := int64(0)
			for i, it := range items {
				if it == x {
					want = int64(i + 1)
					break
				}
			}
			cls := "present"
			if want == 0 {
				cls = "absent"
			}
			return g5lib.NewInst(fmt.Sprintf("n=%d/%s", n, cls), []any{x, items}, g5lib.WantInt(want, "index-differs-from-reference"),
				fmt.Sprintf("FIND_IN_SET(%s,%s)", Q(x), Q(strings.Join(items, ","))))
		}},
		{Name: "make-export-set", Gen: func(rnd *rand.Rand) *Inst {
			n := 1 + rnd.Intn(5)
			bits := rnd.Intn(1 << uint(n+1))
			var items, lits, sel []string
			for i := 0; i < n; i++ {
				s := g5lib.GenStrClass(rnd, []string{"ascii", "latin", "cjk"}[rnd.Intn(3)])
				s = strings.ReplaceAll(s, ",", "_")
				items = append(items, s)
				lits = append(lits, Q(s))
				if bits&(1<<uint(i)) != 0 {
					sel = append(sel, s)
				}
			}
			nb := 1 + rnd.Intn(10)
			var ex []string
			for i := 0; i < nb; i++ {
				if bits&(1<<uint(i)) != 0 {
					ex = append(ex, "Y")
				} else {
					ex = append(ex, "n")
				}
			}
			return g5lib.NewInst(fmt.Sprintf("n=%d", n), []any{bits, items, nb}, func(v []V) string {
				if !v[0].IsStr(strings.Join(sel, ",")) {
					return "make-set-differs-from-selected-members"
				}
				if !v[1].IsStr(strings.Join(ex, "|")) {
					return "export-set-differs-from-bit-string"
				}
				return ""
			}, fmt.Sprintf("MAKE_SET(%d,%s)", bits, strings.Join(lits, ",")), fmt.Sprintf("EXPORT_SET(%d,'Y','n','|',%d)", bits, nb))
		}},
	}
}
