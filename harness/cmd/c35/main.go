// C35 — clients receive exactly the engine's results over the wire.
//
// Three engines with identical initial state: R (in-process Engine.Query, the reference), T (server +
// go-sql-driver, text protocol) and P (server + go-sql-driver, binary protocol via prepared
// statements). Part 1 runs one seeded statement history in lock-step on all three and compares, per
// statement: column count / names / type class, the row SEQUENCE as the text Type.SQL produces (text
// protocol: every cell; binary protocol: NULL-ness of every cell and the text of integer / decimal
// cells), affected rows and last insert id, and the MySQL error number. Every table row has a
// unique id, result sizes sit around the 128-row batch and 512-row channel boundaries, so loss,
// duplication and reordering are directly visible (ORDER BY id results must be the exact id run).
// Part 2 runs N concurrent clients (text and binary) whose statements each select an exact id range
// and carry a unique tag literal: a client must receive exactly its ids, in order, each row carrying
// its own tag; some clients abandon a result half-way and disconnect; afterwards a fresh connection
// must work and the goroutine count must return to its baseline. The whole program runs under the
// race detector with seeded perturbation at the handler.* schedule points.
package main

import (
	"context"
	dsql "database/sql"
	"errors"
	"fmt"
	"runtime"
	"sort"
	"strings"
	"sync"
	"sync/atomic"
	"time"

	"github.com/dolthub/go-mysql-server/sql"
	"github.com/dolthub/go-mysql-server/sql/types"
	"github.com/dolthub/go-mysql-server/verifhook"
	"github.com/go-sql-driver/mysql"

	"verif/harness/core"
	"verif/harness/g4lib"
)

var watchdog = 300 * time.Second // generous: the box is shared; a fired watchdog is inconclusive

const rowsBatch = 128 // server/handler.go

// midstreamSig is the signature of the known finding "an error behind the first flushed batch
// reaches the client as a dropped connection".
// explainSig: EXPLAIN's row holds the text "NULL" in numeric columns (known finding, via=domain).
const explainSig = "wire-explain-row-has-text-NULL-in-numeric-columns"

const midstreamSig = "wire-midstream-error-after-first-batch-drops-connection"

const nBig = 6000

var sizes = []int{0, 1, 2, 127, 128, 129, 255, 256, 257, 383, 384, 385, 511, 512, 513, 639, 640, 641, 1023, 1024, 1025, 5000}

func setup(s *core.Sess) {
	s.MustExec("CREATE TABLE big (id INT PRIMARY KEY, grp INT, payload VARCHAR(40) NOT NULL, n BIGINT, d DECIMAL(12,3), w TEXT)")
	for lo := 1; lo <= nBig; lo += 500 {
		var b strings.Builder
		b.WriteString("INSERT INTO big VALUES ")
		for id := lo; id < lo+500; id++ {
			if id > lo {
				b.WriteString(",")
			}
			n := fmt.Sprint(int64(id) * 1000003)
			if id%7 == 0 {
				n = "NULL"
			}
			fmt.Fprintf(&b, "(%d,%d,'p%d',%s,%d.%03d,'%s')", id, id%10, id, n, id/8, (id%8)*125, strings.Repeat(string(rune('a'+id%26)), 150+id%100))
		}
		s.MustExec(b.String())
	}
	s.MustExec("CREATE TABLE side (id INT AUTO_INCREMENT PRIMARY KEY, k INT UNIQUE, v VARCHAR(20))")
	s.MustExec("CREATE TABLE typed (id INT PRIMARY KEY, f DOUBLE, dt DATETIME, da DATE, ti TIME, b VARBINARY(16), e ENUM('a','b'), j JSON, u BIGINT UNSIGNED, bl BOOLEAN, y YEAR, s SET('x','y'), dc DECIMAL(20,6), tx TEXT, d6 DATETIME(6), ts3 TIMESTAMP(3))")
	var b strings.Builder
	b.WriteString("INSERT INTO typed VALUES ")
	for id := 1; id <= 300; id++ {
		if id > 1 {
			b.WriteString(",")
		}
		if id%11 == 0 {
			fmt.Fprintf(&b, "(%d,NULL,NULL,NULL,NULL,NULL,NULL,NULL,NULL,NULL,NULL,NULL,NULL,NULL,NULL,NULL)", id)
			continue
		}
		fmt.Fprintf(&b, "(%d,%d.25,'2021-%02d-%02d %02d:%02d:%02d','2019-%02d-%02d','%02d:%02d:00',x'%02x00ff','%s','{\"a\": %d, \"b\": [1, \"x\"]}',%d,%d,%d,'%s',%d.%06d,'t%d''q','2021-03-04 05:06:07.%s','2022-02-02 02:02:02.%s')",
			id, id*3, id%12+1, id%28+1, id%24, id%60, id%60, id%12+1, id%28+1, id%24, id%60, id%256, []string{"a", "b"}[id%2], id, uint64(18446744073709551615)-uint64(id), id%2, 1990+id%40, []string{"x", "y", "x,y"}[id%3], id*7, id, id,
			[]string{"100000", "010000", "001000", "000100", "000010", "000001", "500000", "123456", "000000", "990000"}[id%10], []string{"100", "010", "001", "500", "000", "999"}[id%6])
	}
	s.MustExec(b.String())
}

// ---------- canonical result ----------

type result struct {
	Err      int        // MySQL error number, 0 = none
	ErrText  string     `json:",omitempty"`
	IsOK     bool       // OkResult (DML/DDL/SET)
	Affected int64      `json:",omitempty"`
	InsertID int64      `json:",omitempty"`
	Cols     []string   `json:",omitempty"`
	Classes  []string   `json:",omitempty"`
	Rows     [][]string `json:"-"` // cell text; NULL = "\x00NULL"
	Partial  bool       `json:",omitempty"` // rows were received and then an error arrived
	More     []*result  `json:",omitempty"` // further result sets of a multi-statement
}

const null = "\x00NULL"

func typeClass(t sql.Type) string {
	switch {
	case types.IsInteger(t), types.IsBit(t), types.IsYear(t):
		return "int"
	case types.IsDecimal(t):
		return "decimal"
	case types.IsFloat(t):
		return "float"
	case types.IsTime(t), types.IsTimespan(t):
		return "temporal"
	case types.IsJSON(t), types.IsEnum(t), types.IsSet(t), types.IsBinaryType(t), types.IsBlobType(t), types.IsText(t):
		return "string" // text / binary / json / enum / set: told apart by charset flags, which is C28's subject
	case t == types.Null:
		return "null"
	}
	return "other:" + t.String()
}

func wireClass(dbType string) string {
	t := strings.TrimPrefix(strings.ToUpper(dbType), "UNSIGNED ")
	switch t {
	case "TINYINT", "SMALLINT", "MEDIUMINT", "INT", "BIGINT", "BIT", "YEAR":
		return "int"
	case "DECIMAL":
		return "decimal"
	case "FLOAT", "DOUBLE":
		return "float"
	case "DATE", "DATETIME", "TIMESTAMP", "TIME":
		return "temporal"
	case "JSON", "CHAR", "VARCHAR", "TEXT", "TINYTEXT", "MEDIUMTEXT", "LONGTEXT", "ENUM", "SET",
		"BINARY", "VARBINARY", "BLOB", "TINYBLOB", "MEDIUMBLOB", "LONGBLOB":
		return "string"
	case "NULL":
		return "null"
	}
	return "other:" + dbType
}

// refExec runs a statement in-process and renders every cell with Type.SQL (what the wire carries).
func refExec(s *core.Sess, q string) *result {
	res := s.Exec(q)
	out := &result{}
	switch {
	case res.TimedOut:
		out.Err, out.ErrText = -1, "watchdog"
		return out
	case res.Panic != nil:
		out.Err, out.ErrText = -2, "panic: "+res.Panic.Value
		return out
	case res.Err != nil:
		if me := sql.CastSQLError(res.Err); me != nil {
			out.Err = me.Num
		}
		out.ErrText = res.Err.Error()
		return out
	}
	if ok, is := res.Ok(); is {
		out.IsOK, out.Affected, out.InsertID = true, int64(ok.RowsAffected), int64(ok.InsertID)
		return out
	}
	ctx := s.Ctx()
	for _, c := range res.Schema {
		out.Cols = append(out.Cols, c.Name)
		out.Classes = append(out.Classes, typeClass(c.Type))
	}
	for _, row := range res.Rows {
		cells := make([]string, len(row))
		for i, v := range row {
			if v == nil {
				cells[i] = null
				continue
			}
			if tv, isTime := v.(time.Time); isTime {
				// DATETIME / TIMESTAMP values are rendered here from the time.Time the engine produced, independently
				// of Type.SQL, so that a slip in the text encoder shows as a difference between wire and engine
				if dt, isDT := res.Schema[i].Type.(sql.DatetimeType); isDT && (types.IsDatetimeType(dt) || types.IsTimestampType(dt)) {
					txt := tv.Format("2006-01-02 15:04:05")
					if p := dt.Precision(); p > 0 && p <= 6 {
						txt += "." + fmt.Sprintf("%06d", tv.Nanosecond()/1000)[:p]
					}
					cells[i] = txt
					continue
				}
			}
			sv, err := res.Schema[i].Type.SQL(ctx, nil, v)
			if err != nil {
				cells[i] = "SQLERR:" + err.Error()
				continue
			}
			if sv.IsNull() {
				cells[i] = null
			} else {
				cells[i] = string(sv.Raw())
			}
		}
		out.Rows = append(out.Rows, cells)
	}
	return out
}

func errNum(err error) (int, string) {
	var me *mysql.MySQLError
	if errors.As(err, &me) {
		return int(me.Number), me.Message
	}
	return -3, err.Error()
}

type querier interface {
	QueryContext(ctx context.Context, q string, args ...any) (*dsql.Rows, error)
	ExecContext(ctx context.Context, q string, args ...any) (dsql.Result, error)
}

// readRows drains all result sets of rows into results.
func readRows(rows *dsql.Rows, ctx context.Context) *result {
	first := &result{}
	cur := first
	for {
		cols, _ := rows.Columns()
		cts, _ := rows.ColumnTypes()
		cur.Cols = cols
		for _, ct := range cts {
			cur.Classes = append(cur.Classes, wireClass(ct.DatabaseTypeName()))
		}
		for rows.Next() {
			vals := make([]dsql.RawBytes, len(cols))
			ptrs := make([]any, len(cols))
			for i := range vals {
				ptrs[i] = &vals[i]
			}
			if err := rows.Scan(ptrs...); err != nil {
				cur.Err, cur.ErrText = -4, "scan: "+err.Error()
				return first
			}
			cells := make([]string, len(cols))
			for i, v := range vals {
				if v == nil {
					cells[i] = null
				} else {
					cells[i] = string(v)
				}
			}
			cur.Rows = append(cur.Rows, cells)
		}
		if err := rows.Err(); err != nil {
			cur.Err, cur.ErrText = errNum(err)
			if ctx.Err() != nil {
				cur.Err, cur.ErrText = -1, "watchdog"
			}
			cur.Partial = len(cur.Rows) > 0
			return first
		}
		if !rows.NextResultSet() {
			if err := rows.Err(); err != nil {
				nr := &result{}
				nr.Err, nr.ErrText = errNum(err)
				first.More = append(first.More, nr)
			}
			return first
		}
		cur = &result{}
		first.More = append(first.More, cur)
	}
}

// wireExec runs a statement over a connection. asQuery: the reference produced a row result (or an
// error); otherwise Exec is used so that affected rows / last insert id are observable.
func wireExec(conn *dsql.Conn, q string, binary, asQuery bool) *result {
	ctx, cancel := context.WithTimeout(context.Background(), watchdog)
	defer cancel()
	var qr querier = conn
	if binary {
		st, err := conn.PrepareContext(ctx, q)
		if err != nil {
			out := &result{}
			out.Err, out.ErrText = errNum(err)
			if ctx.Err() != nil {
				out.Err, out.ErrText = -1, "watchdog"
			}
			return out
		}
		defer st.Close()
		qr = stmtQuerier{st}
	}
	if !asQuery {
		r, err := qr.ExecContext(ctx, q)
		out := &result{}
		if err != nil {
			out.Err, out.ErrText = errNum(err)
			if ctx.Err() != nil {
				out.Err, out.ErrText = -1, "watchdog"
			}
			return out
		}
		out.IsOK = true
		out.Affected, _ = r.RowsAffected()
		out.InsertID, _ = r.LastInsertId()
		return out
	}
	rows, err := qr.QueryContext(ctx, q)
	if err != nil {
		out := &result{}
		out.Err, out.ErrText = errNum(err)
		if ctx.Err() != nil {
			out.Err, out.ErrText = -1, "watchdog"
		}
		return out
	}
	defer rows.Close()
	return readRows(rows, ctx)
}

type stmtQuerier struct{ st *dsql.Stmt }

func (s stmtQuerier) QueryContext(ctx context.Context, _ string, args ...any) (*dsql.Rows, error) {
	return s.st.QueryContext(ctx, args...)
}
func (s stmtQuerier) ExecContext(ctx context.Context, _ string, args ...any) (dsql.Result, error) {
	return s.st.ExecContext(ctx, args...)
}

// ---------- statement history ----------

type stmt struct {
	Kind    string
	SQL     string
	Ordered bool // ORDER BY id: sequence must match and ids must be the exact run Lo..Hi
	Lo, Hi  int  // expected id run for Ordered statements on big (0,0: not applicable)
	Desc    bool
	ErrPos  int  // sel-midstream-error: 1-based position of the row whose projection fails
	Multi   bool // multi-statement: text protocol only
	NoBin   bool // not preparable: binary route skipped
}

// pickSize draws a result size: mostly the values around the 128-row batch and 512-row channel
// boundaries, sometimes around 1 024, rarely an arbitrary one. The 5 000-row size is placed explicitly
// (one sequential statement, one per small concurrent tier): it dominates the cost under -race.
func pickSize(rnd interface{ Intn(int) int }) int {
	switch x := rnd.Intn(20); {
	case x == 0:
		return rnd.Intn(1400)
	case x < 4:
		return []int{1023, 1024, 1025}[rnd.Intn(3)]
	}
	return sizes[rnd.Intn(len(sizes)-4)] // 0 … 641
}

func genStmt(rnd interface{ Intn(int) int }, i int, sideK *int) stmt {
	k := pickSize(rnd)
	if i%97 == 11 { // a failing projection in front of (row 100) or behind (row 300) the first flushed batch, every run
		pos := []int{100, 300}[(i/97)%2]
		return stmt{Kind: "sel-midstream-error", SQL: fmt.Sprintf("SELECT id, 9223372036854775807 + IF(id = %d, 1, 0) AS boom FROM big WHERE id <= 600 ORDER BY id", pos), Lo: 1, Hi: 600, ErrPos: pos}
	}
	if i%97 == 7 {
		return stmt{Kind: "sel-ordered", SQL: "SELECT id, payload, n, d FROM big WHERE id <= 5000 ORDER BY id", Ordered: true, Lo: 1, Hi: 5000}
	}
	switch x := rnd.Intn(40); {
	case x < 6:
		return stmt{Kind: "sel-ordered", SQL: fmt.Sprintf("SELECT id, payload, n, d FROM big WHERE id <= %d ORDER BY id", k), Ordered: true, Lo: 1, Hi: k}
	case x < 10:
		lo := 1 + rnd.Intn(nBig-k)
		return stmt{Kind: "sel-range", SQL: fmt.Sprintf("SELECT id, payload FROM big WHERE id BETWEEN %d AND %d ORDER BY id", lo, lo+k-1), Ordered: true, Lo: lo, Hi: lo + k - 1}
	case x < 13:
		return stmt{Kind: "sel-unordered", SQL: fmt.Sprintf("SELECT id, payload, grp FROM big WHERE id <= %d", k), Lo: 1, Hi: k}
	case x < 16:
		if k > 1100 {
			k = 1025
		}
		return stmt{Kind: "sel-wide", SQL: fmt.Sprintf("SELECT id, w, payload FROM big WHERE id <= %d ORDER BY id", k), Ordered: true, Lo: 1, Hi: k}
	case x < 18:
		return stmt{Kind: "sel-desc-limit", SQL: fmt.Sprintf("SELECT id, n FROM big ORDER BY id DESC LIMIT %d", k), Ordered: true, Lo: nBig - k + 1, Hi: nBig, Desc: true}
	case x < 20:
		return stmt{Kind: "sel-limit-offset", SQL: fmt.Sprintf("SELECT id FROM big ORDER BY id LIMIT %d OFFSET 100", k), Ordered: true, Lo: 101, Hi: 100 + k}
	case x < 22:
		if k > 1100 {
			k = 1024
		}
		return stmt{Kind: "sel-derived", SQL: fmt.Sprintf("SELECT t.id, t.payload FROM (SELECT id, payload FROM big WHERE id <= %d) t ORDER BY t.id", k), Ordered: true, Lo: 1, Hi: k}
	case x < 23:
		return stmt{Kind: "sel-group", SQL: fmt.Sprintf("SELECT id, COUNT(*), MAX(payload) FROM big WHERE id <= %d GROUP BY id ORDER BY id", k), Ordered: true, Lo: 1, Hi: k}
	case x < 24:
		return stmt{Kind: "sel-union", SQL: fmt.Sprintf("SELECT id FROM big WHERE id <= %d UNION ALL SELECT id + 10000 FROM big WHERE id <= %d", k/2, k/2)}
	case x < 26:
		return stmt{Kind: "sel-typed", SQL: fmt.Sprintf("SELECT * FROM typed WHERE id <= %d ORDER BY id", k%301)}
	case x < 27:
		return stmt{Kind: "sel-agg", SQL: fmt.Sprintf("SELECT COUNT(*), SUM(id), MIN(payload), AVG(d) FROM big WHERE id <= %d", k)}
	case x < 28:
		return stmt{Kind: "sel-exprs", SQL: fmt.Sprintf("SELECT id, id * 2, CONCAT(payload, '-', grp), n IS NULL, d + 1, NULL, 'lit', 1.5, UPPER(payload) FROM big WHERE id <= %d ORDER BY id", k%600), Ordered: true, Lo: 1, Hi: k % 600}
	case x < 29:
		return stmt{Kind: "sel-midstream-error", SQL: fmt.Sprintf("SELECT id, 9223372036854775807 + IF(id = %d, 1, 0) AS boom FROM big WHERE id <= %d ORDER BY id", k/2+1, k+1), Lo: 1, Hi: k + 1, ErrPos: k/2 + 1}
	case x < 30:
		return stmt{Kind: "show", SQL: []string{"SHOW TABLES", "SELECT @@version_comment, @@autocommit", "SHOW COLUMNS FROM side", "SELECT DATABASE(), 1 + 1", "SHOW CREATE TABLE side"}[rnd.Intn(5)]}
	case x < 31:
		return stmt{Kind: "error", SQL: []string{"SELECT * FROM no_such_table", "SELECT nocol FROM big", "SELEC 1", "INSERT INTO side (id, k, v) VALUES (1, 1, 'dup'), (1, 2, 'dup')", "SELECT (SELECT id FROM big WHERE id < 3)", "INSERT INTO big (id) VALUES (7)"}[rnd.Intn(6)]}
	case x < 32:
		a, b := pickSize(rnd)%700, pickSize(rnd)%700
		return stmt{Kind: "multi", SQL: fmt.Sprintf("SELECT id FROM big WHERE id <= %d ORDER BY id; SELECT id, payload FROM big WHERE id <= %d ORDER BY id", a, b), Multi: true, NoBin: true}
	case x < 33:
		return stmt{Kind: "set", SQL: fmt.Sprintf("SET @u%d = %d", i%5, i), NoBin: false}
	case x < 34:
		return stmt{Kind: "uservar", SQL: fmt.Sprintf("SELECT @u%d, @u%d IS NULL", i%5, (i+1)%5)}
	case x < 36:
		*sideK++
		n := 1 + rnd.Intn(3)
		var vs []string
		for j := 0; j < n; j++ {
			vs = append(vs, fmt.Sprintf("(%d, 'v%d')", *sideK*10+j, i))
		}
		return stmt{Kind: "insert-autoinc", SQL: "INSERT INTO side (k, v) VALUES " + strings.Join(vs, ", ")}
	case x < 37:
		return stmt{Kind: "update", SQL: fmt.Sprintf("UPDATE side SET v = 'u%d' WHERE k %% %d = 0", i, 2+rnd.Intn(5))}
	case x < 38:
		return stmt{Kind: "delete", SQL: fmt.Sprintf("DELETE FROM side WHERE k %% 17 = %d", rnd.Intn(17))}
	case x < 39:
		return stmt{Kind: "odku", SQL: fmt.Sprintf("INSERT INTO side (k, v) VALUES (%d, 'o%d') ON DUPLICATE KEY UPDATE v = 'o%d'", (*sideK/2)*10, i, i)}
	default:
		return stmt{Kind: "replace", SQL: fmt.Sprintf("REPLACE INTO side (id, k, v) VALUES (%d, %d, 'r%d')", 1+rnd.Intn(40), 900000+rnd.Intn(30), i)}
	}
}

func clipRows(rows [][]string, n int) [][]string {
	if len(rows) > n {
		return rows[:n]
	}
	return rows
}

// idRun checks that column 0 is exactly lo..hi (ascending, or descending): no loss, duplicate, reorder.
func idRun(rows [][]string, lo, hi int, desc bool) string {
	want := hi - lo + 1
	if want < 0 {
		want = 0
	}
	if len(rows) != want {
		return fmt.Sprintf("expected %d rows (ids %d..%d), got %d", want, lo, hi, len(rows))
	}
	for i, r := range rows {
		exp := lo + i
		if desc {
			exp = hi - i
		}
		if r[0] != fmt.Sprint(exp) {
			return fmt.Sprintf("row %d: expected id %d, got %s", i, exp, r[0])
		}
	}
	return ""
}

// compare returns "" or the failure mode of the wire result w against the reference r.
func compare(st stmt, r, w *result, binary bool) (mode, detail string) {
	if r.Err < 0 || w.Err == -1 {
		return "", "" // watchdog / reference panic: handled by the caller
	}
	if r.Err != 0 || w.Err != 0 {
		if r.Err > 0 && w.Err == -3 && st.ErrPos > rowsBatch {
			// Known finding: once a batch has been flushed the server stack cannot deliver the statement's
			// error any more and drops the connection instead. Narrow: the failing row lies behind the first
			// 128-row batch, the client saw a connection-level failure (no MySQL error packet), and what it
			// received before is a correct prefix.
			if m := idRun(w.Rows, st.Lo, st.Lo+len(w.Rows)-1, false); m != "" {
				return "rows-before-error-not-a-prefix", m
			}
			if len(w.Rows) >= st.ErrPos {
				return "rows-at-or-after-the-failing-row-delivered", fmt.Sprintf("%d rows delivered, row %d fails", len(w.Rows), st.ErrPos)
			}
			return midstreamSig, fmt.Sprintf("in-process errno %d (%s); the client received %d rows and then %q", r.Err, core.Clip(r.ErrText, 100), len(w.Rows), w.ErrText)
		}
		if r.Err != w.Err {
			return "error-number-differs", fmt.Sprintf("in-process errno %d (%s), wire errno %d (%s)", r.Err, core.Clip(r.ErrText, 120), w.Err, core.Clip(w.ErrText, 120))
		}
		if w.Partial { // rows that arrived before a mid-stream error must be a correct prefix
			if st.Lo > 0 {
				if m := idRun(w.Rows, st.Lo, st.Lo+len(w.Rows)-1, false); m != "" {
					return "rows-before-error-not-a-prefix", m
				}
			}
		}
		return "", ""
	}
	if r.IsOK != w.IsOK {
		if r.IsOK && len(w.Rows) == 0 && len(w.Cols) == 0 {
			return "", "" // an OK packet read through the query path
		}
		return "ok-vs-rows", fmt.Sprintf("in-process OkResult=%v, wire OkResult=%v", r.IsOK, w.IsOK)
	}
	if r.IsOK {
		if r.Affected != w.Affected {
			return "affected-rows-differ", fmt.Sprintf("in-process %d, wire %d", r.Affected, w.Affected)
		}
		if r.InsertID != w.InsertID {
			return "last-insert-id-differs", fmt.Sprintf("in-process %d, wire %d", r.InsertID, w.InsertID)
		}
		return "", ""
	}
	if len(r.Cols) != len(w.Cols) {
		return "column-count-differs", fmt.Sprintf("in-process %v, wire %v", r.Cols, w.Cols)
	}
	for i := range r.Cols {
		if r.Cols[i] != w.Cols[i] {
			return "column-name-differs", fmt.Sprintf("column %d: in-process %q, wire %q", i, r.Cols[i], w.Cols[i])
		}
		if r.Classes[i] != w.Classes[i] && r.Classes[i] != "null" && w.Classes[i] != "null" {
			return "column-type-class-differs", fmt.Sprintf("column %d (%s): in-process %s, wire %s", i, r.Cols[i], r.Classes[i], w.Classes[i])
		}
	}
	if st.Ordered && st.Lo > 0 {
		if m := idRun(w.Rows, st.Lo, st.Hi, st.Desc); m != "" {
			return "id-run-broken", m
		}
	}
	rr, wr := r.Rows, w.Rows
	if !st.Ordered {
		rr, wr = sortedCopy(rr), sortedCopy(wr)
	}
	if len(rr) != len(wr) {
		return "row-count-differs", fmt.Sprintf("in-process %d rows, wire %d rows", len(rr), len(wr))
	}
	for i := range rr {
		for j := range rr[i] {
			a, b := rr[i][j], wr[i][j]
			if a == b {
				continue
			}
			if (a == null) != (b == null) {
				return "null-vs-value", fmt.Sprintf("row %d col %s: in-process %q, wire %q", i, r.Cols[j], a, b)
			}
			if binary {
				switch r.Classes[j] {
				case "int", "decimal":
				default:
					continue // binary encoding of floats / temporals / json / binary is C28's subject
				}
			}
			return "cell-differs", fmt.Sprintf("row %d col %s: in-process %q, wire %q", i, r.Cols[j], core.Clip(a, 80), core.Clip(b, 80))
		}
	}
	if len(r.More) != len(w.More) {
		return "result-set-count-differs", fmt.Sprintf("in-process %d extra result sets, wire %d", len(r.More), len(w.More))
	}
	for i := range r.More {
		if m, d := compare(stmt{Ordered: true}, r.More[i], w.More[i], binary); m != "" {
			return m + ":result-set-" + fmt.Sprint(i+2), d
		}
	}
	return "", ""
}

func sortedCopy(rows [][]string) [][]string {
	out := append([][]string{}, rows...)
	sort.Slice(out, func(i, j int) bool { return strings.Join(out[i], "\x01") < strings.Join(out[j], "\x01") })
	return out
}

func sizeClass(n int) string {
	for _, b := range []int{0, 1, 127, 128, 129, 255, 256, 257, 511, 512, 513, 1024} {
		if n == b {
			return fmt.Sprint(n)
		}
	}
	switch {
	case n < 128:
		return "<128"
	case n < 512:
		return "128..512"
	case n < 1024:
		return "512..1024"
	}
	return ">1024"
}

type triple struct {
	engR       *core.Eng
	srvT, srvP *core.Srv
	ref        *core.Sess
	text, bin  *dsql.Conn
	dbs        []*dsql.DB
}

// reconnect replaces a dead wire connection; the reference gets a fresh session too, so that both
// sides restart with empty session state (user variables, LAST_INSERT_ID). Table data is untouched.
func (t *triple) reconnect(route string) error {
	srv, params := t.srvT, "multiStatements=true"
	if route == "binary" {
		srv, params = t.srvP, ""
	}
	db, conn, err := openConnTo(srv, params)
	if err != nil {
		return err
	}
	t.dbs = append(t.dbs, db)
	if route == "binary" {
		t.bin = conn
	} else {
		t.text = conn
	}
	return nil
}

// resetSessions starts all three sides on fresh sessions.
func (t *triple) resetSessions() error {
	t.ref = t.engR.NewSess()
	t.text.Close()
	t.bin.Close()
	if err := t.reconnect("text"); err != nil {
		return err
	}
	return t.reconnect("binary")
}

func (t *triple) close() {
	t.text.Close()
	t.bin.Close()
	for _, db := range t.dbs {
		db.Close()
	}
}

func openConnTo(srv *core.Srv, params string) (*dsql.DB, *dsql.Conn, error) {
	db, err := srv.Open("root", "", params)
	if err != nil {
		return nil, nil, err
	}
	ctx, cancel := context.WithTimeout(context.Background(), watchdog)
	defer cancel()
	conn, err := db.Conn(ctx)
	if err != nil {
		db.Close()
		return nil, nil, err
	}
	return db, conn, nil
}

func main() {
	r := core.NewRun("C35", "exploration",
		"part 1: each evaluation compares one statement's result over the wire (text protocol, binary protocol) with the in-process result of an identically prepared engine: columns, type class, row sequence as Type.SQL text, exact id run, affected rows, last insert id, error number; part 2: each evaluation is one result set received by one of N concurrent clients, which must be exactly the requested id run in order with the statement's own tag on every row; distinct = (route, statement kind, result-size class, outcome class)")
	r.Assume("binary-protocol cells are compared for NULL-ness always and for text only when the column is integer or decimal, plus the id / payload / tag bookkeeping columns in part 2 (the binary encoding of the other types is C28's subject)")
	r.Assume("plain EXPLAIN <select> is excluded from the generated statements (known finding " + explainSig + ", pinned witness replayed every run); a new break confined to EXPLAIN output would not be seen")
	r.Assume("the value-row pipeline (resultForValueRowIter) is not reachable with the in-memory backend (no table implements sql.ValueRowIter); only resultForDefaultIter, the OK / empty / max-1-row shortcuts and the prepared-statement path are exercised")
	r.Extra("race_build", g4lib.RaceEnabled())

	// engines are created one after the other, before any concurrency
	// database name no other monitor uses: a client that lands on a foreign server (a port can be shared
	// through SO_REUSEPORT on this box) fails at connect instead of reading someone else's tables
	engR, engT, engP := core.NewEng("c35db"), core.NewEng("c35db"), core.NewEng("c35db")
	for _, e := range []*core.Eng{engR, engT, engP} {
		setup(e.NewSess())
	}
	srvT, err1 := engT.StartServer()
	srvP, err2 := engP.StartServer()
	if err1 != nil || err2 != nil {
		r.Floor(false, fmt.Sprintf("server did not start: %v %v", err1, err2))
		r.Finish()
	}
	baseGoroutines := settleGoroutines(0)
	verifhook.SetPerturb(true, uint64(r.Seed))

	t0 := time.Now()
	phase := func(name string) { // wall time per phase: evidence only
		r.Extra("phase_s."+name, time.Since(t0).Seconds())
		t0 = time.Now()
	}
	phase("setup")
	sequential(r, engR, srvT, srvP)
	phase("sequential")
	reps := r.N(1, 1)
	for rep := 0; rep < reps; rep++ {
		verifhook.SetPerturb(true, uint64(r.Seed)*7919+uint64(rep))
		concurrent(r, srvT, rep)
	}
	phase("concurrent")
	partialBatchStress(r, engT)
	phase("partial-batch-stress")
	pinnedWitnesses(r, engR, srvT, srvP)
	phase("pinned")

	// quiescence: every client is closed; the servers' goroutines must be back at the baseline
	r.Eval(1)
	if g := settleGoroutines(baseGoroutines); g > baseGoroutines {
		time.Sleep(2 * time.Second)
		if g2 := settleGoroutines(baseGoroutines); g2 > baseGoroutines {
			buf := make([]byte, 1<<16)
			buf = buf[:runtime.Stack(buf, true)]
			r.Violation("goroutine-leak-after-clients-closed", map[string]any{"baseline": baseGoroutines, "after": g2, "stacks": core.Clip(string(buf), 6000)})
		}
	}
	phase("quiescence")
	r.Extra("goroutines.baseline", baseGoroutines)
	closed := make(chan struct{})
	go func() { srvT.Close(); srvP.Close(); close(closed) }()
	select {
	case <-closed:
	case <-time.After(watchdog):
		r.Inconclusive("watchdog:server-close")
	}

	g4lib.ReportRaces(r, nil)
	hits := verifhook.Counters()
	for _, p := range []string{"handler.row.read", "handler.batch.full", "handler.batch.flush"} {
		r.Count("hook."+p, hits[p])
	}
	r.Floor(g4lib.RaceEnabled(), "not a race build or no race log configured (run through ./check)")
	r.Floor(hits["handler.row.read"] > 0 && hits["handler.batch.full"] > 0 && hits["handler.batch.flush"] > 0, "the row spooling pipeline's schedule points were not all hit")
	r.Floor(r.Counter("seq.compared.text") > 0 && r.Counter("seq.compared.binary") > 0, "a protocol route compared nothing")
	r.Floor(r.Counter("seq.ok-results") > 0 && r.Counter("seq.errors-compared") > 0, "no OkResult or no error was compared")
	r.Floor(r.Counter("seq.midstream-error-statements") > 0, "no statement failing in the middle of its result was compared")
	r.Floor(r.Counter("conc.result-sets") > 0 && r.Counter("conc.abandoned") > 0, "the concurrent part did not run")
	r.Finish()
}

// settleGoroutines polls the goroutine count until it is <= target (or stops changing), bounded.
func settleGoroutines(target int) int {
	last, same := -1, 0
	for i := 0; i < 3000; i++ {
		g := runtime.NumGoroutine()
		if target > 0 && g <= target {
			return g
		}
		if g == last {
			same++
		} else {
			same = 0
		}
		if target == 0 && same > 50 {
			return g
		}
		last = g
		time.Sleep(10 * time.Millisecond)
	}
	return runtime.NumGoroutine()
}

func sequential(r *core.Run, engR *core.Eng, srvT, srvP *core.Srv) {
	t := &triple{engR: engR, srvT: srvT, srvP: srvP, ref: engR.NewSess()}
	if err := t.reconnect("text"); err != nil {
		r.Floor(false, "connect: "+err.Error())
		return
	}
	if err := t.reconnect("binary"); err != nil {
		r.Floor(false, "connect: "+err.Error())
		return
	}
	defer t.close()
	n := r.N(130, 1200)
	sideK := 0
	r.Parallel("sequential", 1, func(int) {
		for i := 0; i < n; i++ {
			st := genStmt(r.Rand("seq", i), i, &sideK)
			// schedule perturbation at every row read is expensive: a quarter of the sequential statements
			// run with it, the concurrent part always does
			verifhook.SetPerturb(i%4 == 0, uint64(r.Seed)+uint64(i))
			ts := time.Now()
			lost := runTriple(r, t, st, i)
			r.Count("ms."+st.Kind, time.Since(ts).Milliseconds()) // evidence only
			if lost {
				if err := t.resetSessions(); err != nil {
					r.Inconclusive("reconnect-failed")
					return
				}
			}
		}
	})
}

func runTriple(r *core.Run, t *triple, st stmt, i int) (connLost bool) {
	var rr *result
	if st.Multi {
		parts := strings.Split(st.SQL, "; ")
		rr = refExec(t.ref, parts[0])
		for _, p := range parts[1:] {
			rr.More = append(rr.More, refExec(t.ref, p))
		}
	} else {
		rr = refExec(t.ref, st.SQL)
	}
	if rr.Err == -1 {
		r.Inconclusive("watchdog:in-process")
		return true // the engines may be out of step now; at least restart the sessions
	}
	if rr.Err == -2 {
		r.Violation("panic-in-process:"+st.Kind, map[string]any{"sql": st.SQL, "panic": rr.ErrText})
		return true
	}
	asQuery := !rr.IsOK
	for _, route := range []string{"text", "binary"} {
		if route == "binary" && st.NoBin {
			// keep engine P in step with a text execution
			wireExec(t.bin, st.SQL, false, asQuery)
			continue
		}
		conn := t.text
		if route == "binary" {
			conn = t.bin
		}
		w := wireExec(conn, st.SQL, route == "binary", asQuery)
		if w.Err == -1 {
			r.Inconclusive("watchdog:" + route)
			connLost = true
			continue
		}
		if w.Err == -3 || w.Err == -4 {
			connLost = true // connection-level failure: the connection is unusable from here on
		}
		r.Eval(1)
		r.Count("seq.compared."+route, 1)
		if st.ErrPos > 0 {
			r.Count("seq.midstream-error-statements", 1)
		}
		mode, detail := compare(st, rr, w, route == "binary")
		outcome := "rows"
		switch {
		case rr.Err != 0:
			outcome = fmt.Sprintf("error-%d", rr.Err)
			r.Count("seq.errors-compared", 1)
			if w.Partial {
				r.Count("seq.midstream-errors", 1)
				outcome += "-midstream"
			}
		case rr.IsOK:
			outcome = "ok"
			r.Count("seq.ok-results", 1)
		}
		r.Distinct(fmt.Sprintf("seq|%s|%s|%s|%s", route, st.Kind, sizeClass(len(rr.Rows)), outcome))
		if mode == midstreamSig {
			r.Count("seq.midstream-errors", 1)
			r.Violation(midstreamSig, map[string]any{"statement_index": i, "sql": st.SQL, "route": route, "detail": detail})
		} else if mode != "" {
			r.Violation(fmt.Sprintf("wire-%s:%s:%s", mode, route, st.Kind), map[string]any{"statement_index": i, "sql": st.SQL, "route": route, "detail": detail,
				"in_process": rr, "wire": w, "in_process_first_rows": clipRows(rr.Rows, 3), "wire_first_rows": clipRows(w.Rows, 3)})
		} else if i < 3 && route == "text" {
			r.Sample(map[string]any{"sql": st.SQL, "rows": len(rr.Rows), "compared": "columns, type classes, row sequence as Type.SQL text, id run, affected rows / insert id / errno", "first_row": clipRows(w.Rows, 1)})
		}
	}
	return connLost
}

// ---------- part 2: concurrent clients ----------

func concurrent(r *core.Run, srv *core.Srv, rep int) {
	type tier struct{ clients, stmts int }
	tiers := []tier{{1, r.N(8, 40)}, {8, r.N(25, 150)}, {32, r.N(4, 30)}}
	for ti, t := range tiers {
		var wg sync.WaitGroup
		var seq atomic.Int64
		for c := 0; c < t.clients; c++ {
			wg.Add(1)
			go func(c int) {
				defer wg.Done()
				rnd := r.Rand(fmt.Sprintf("conc-%d-%d", rep, ti), c)
				binary := c%2 == 1
				db, conn, err := openConnTo(srv, "")
				if err != nil {
					r.Inconclusive("connect")
					return
				}
				defer func() { conn.Close(); db.Close() }()
				for i := 0; i < t.stmts; i++ {
					k := pickSize(rnd)
					if i == 0 && c == 0 && t.clients <= 8 {
						k = 5000 // the 5 000-row size once per small tier
					}
					lo := 1 + rnd.Intn(nBig-k)
					hi := lo + k - 1
					tag := fmt.Sprintf("r%d-t%d-c%d-s%d-%d", rep, ti, c, i, seq.Add(1))
					if k <= 300 {
						// a wide tag (~2.5 KB per row) on small results: the last, partial batch is then large
						// enough for its socket write to be descheduled while other connections convert rows,
						// which is when a result buffer handed back too early gets overwritten
						tag += strings.Repeat("~"+tag, 90)
					}
					q := fmt.Sprintf("SELECT id, payload, '%s' AS tag, n FROM big WHERE id BETWEEN %d AND %d ORDER BY id", tag, lo, hi)
					abandon := k >= 256 && rnd.Intn(9) == 0
					if abandon {
						// stop reading after some rows and drop the connection; continue on a fresh one
						if m := abandonMidResult(conn, q, binary, 1+rnd.Intn(k-1), lo, tag); m != "" {
							r.Violation("concurrent-"+sigClass(m), map[string]any{"sql": q, "client": c, "binary": binary, "abandoned": true, "detail": m})
						}
						r.Count("conc.abandoned", 1)
						conn.Close()
						db.Close()
						db, conn, err = openConnTo(srv, "")
						if err != nil {
							r.Inconclusive("connect")
							return
						}
						continue
					}
					var args []any
					if binary {
						q = fmt.Sprintf("SELECT id, payload, '%s' AS tag, n FROM big WHERE id BETWEEN ? AND ? ORDER BY id", tag)
						args = []any{lo, hi}
					}
					ctx, cancel := context.WithTimeout(context.Background(), watchdog)
					rows, err := conn.QueryContext(ctx, q, args...)
					if err != nil {
						cancel()
						if ctx.Err() != nil {
							r.Inconclusive("watchdog:concurrent")
							return
						}
						r.Eval(1)
						r.Violation("concurrent-statement-failed", map[string]any{"sql": q, "client": c, "error": err.Error()})
						continue
					}
					m := checkStream(rows, lo, hi, tag, -1)
					rows.Close()
					timedOut := ctx.Err() != nil
					cancel()
					if timedOut {
						r.Inconclusive("watchdog:concurrent")
						return
					}
					r.Eval(1)
					r.Count("conc.result-sets", 1)
					proto := "text"
					if binary {
						proto = "binary"
					}
					r.Distinct(fmt.Sprintf("conc|%s|clients=%d|%s", proto, t.clients, sizeClass(k)))
					if m != "" {
						r.Violation("concurrent-"+sigClass(m), map[string]any{"sql": q, "args": args, "client": c, "clients": t.clients, "binary": binary, "detail": m})
					}
				}
			}(c)
		}
		wg.Wait()
	}
}

// sigClass keeps the failure class of a checkStream message (the text before the first colon).
func sigClass(m string) string {
	if k := strings.Index(m, ":"); k > 0 {
		return m[:k]
	}
	return m
}

// checkStream reads up to limit rows (-1: all) and checks ids lo.., payload, tag and the n column.
func checkStream(rows *dsql.Rows, lo, hi int, tag string, limit int) string {
	i := 0
	for (limit < 0 || i < limit) && rows.Next() {
		var id int
		var payload, tg string
		var n dsql.NullInt64
		if err := rows.Scan(&id, &payload, &tg, &n); err != nil {
			return "scan-error:" + core.StripVolatile(err.Error())
		}
		exp := lo + i
		switch {
		case tg != tag:
			return fmt.Sprintf("foreign-row: row %d carries tag %q, statement tag is %q", i, tg, tag)
		case id != exp:
			return fmt.Sprintf("id-run-broken: row %d has id %d, expected %d", i, id, exp)
		case payload != fmt.Sprintf("p%d", id):
			return fmt.Sprintf("payload-of-another-row: id %d with payload %q", id, payload)
		case (id%7 == 0) == n.Valid || (n.Valid && n.Int64 != int64(id)*1000003):
			return fmt.Sprintf("n-of-another-row: id %d with n %v", id, n)
		}
		i++
	}
	if limit >= 0 {
		return ""
	}
	if err := rows.Err(); err != nil {
		return "stream-error:" + core.StripVolatile(err.Error())
	}
	if i != hi-lo+1 {
		return fmt.Sprintf("rows-lost: received %d rows, expected %d", i, hi-lo+1)
	}
	return ""
}

func abandonMidResult(conn *dsql.Conn, q string, binary bool, after, lo int, tag string) string {
	ctx, cancel := context.WithCancel(context.Background())
	defer cancel()
	var rows *dsql.Rows
	var err error
	if binary {
		st, perr := conn.PrepareContext(ctx, q)
		if perr != nil {
			return "prepare-failed:" + core.StripVolatile(perr.Error())
		}
		defer st.Close()
		rows, err = st.QueryContext(ctx)
	} else {
		rows, err = conn.QueryContext(ctx, q)
	}
	if err != nil {
		return "statement-failed:" + core.StripVolatile(err.Error())
	}
	m := checkStream(rows, lo, 0, tag, after)
	cancel() // the driver closes the connection: the server sees the client go away mid-result
	rows.Close()
	return m
}

// pinnedWitnesses replays fixed cases on every run (kept even while silent).
func pinnedWitnesses(r *core.Run, engR *core.Eng, srvT, srvP *core.Srv) {
	t := &triple{engR: engR, srvT: srvT, srvP: srvP, ref: engR.NewSess()}
	if t.reconnect("text") != nil || t.reconnect("binary") != nil {
		return
	}
	defer t.close()
	for i, hi := range []int{128, 129, 512, 640} {
		st := stmt{Kind: "pinned-boundary", SQL: fmt.Sprintf("SELECT id, payload FROM big WHERE id <= %d ORDER BY id", hi), Ordered: true, Lo: 1, Hi: hi}
		runTriple(r, t, st, 100000+i)
	}
	// an error at row 100 (nothing flushed yet) must arrive as the engine's error
	early := stmt{Kind: "pinned-early-error", SQL: "SELECT id, 9223372036854775807 + IF(id = 100, 1, 0) AS boom FROM big WHERE id <= 600 ORDER BY id", Lo: 1, Hi: 600, ErrPos: 100}
	runTriple(r, t, early, 100010)
	// known finding (via=domain: EXPLAIN is not generated): the MySQL-format EXPLAIN row carries the text
	// "NULL" in its BIGINT UNSIGNED / DOUBLE columns; a typed client cannot decode the row
	{
		q := "EXPLAIN SELECT id FROM big WHERE id < 5"
		rr := refExec(t.ref, q)
		w := wireExec(t.text, q, false, true)
		textInNumeric := false
		for _, row := range rr.Rows {
			for j, cell := range row {
				if (rr.Classes[j] == "int" || rr.Classes[j] == "float") && cell != null && strings.Trim(cell, "0123456789.-+eE") != "" {
					textInNumeric = true
				}
			}
		}
		fails := rr.Err == 0 && (w.Err != 0 || textInNumeric)
		r.Eval(1)
		r.Pinned(explainSig, fmt.Sprintf("%s: in-process %d row(s) with non-numeric text in a numeric column=%v; text-protocol client: errno %d %q", q, len(rr.Rows), textInNumeric, w.Err, w.ErrText), fails,
			map[string]any{"sql": q, "in_process_rows": rr.Rows, "classes": rr.Classes, "wire_errno": w.Err, "wire_error": w.ErrText})
		if w.Err == -3 || w.Err == -4 {
			t.resetSessions()
		}
	}
	// known finding: the same error at row 300 (two batches flushed) drops the connection
	q := "SELECT id, 9223372036854775807 + IF(id = 300, 1, 0) AS boom FROM big WHERE id <= 600 ORDER BY id"
	rr := refExec(t.ref, q)
	w := wireExec(t.text, q, false, true)
	fails := rr.Err > 0 && w.Err != rr.Err
	r.Eval(1)
	r.Pinned(midstreamSig, fmt.Sprintf("%s: in-process errno %d, the text-protocol client received %d rows and then %q (errno %d)", q, rr.Err, len(w.Rows), w.ErrText, w.Err), fails,
		map[string]any{"sql": q, "in_process_errno": rr.Err, "wire_errno": w.Err, "wire_error": w.ErrText, "rows_received": len(w.Rows)})
}
