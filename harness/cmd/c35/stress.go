package main

import (
	"context"
	"fmt"
	"strings"
	"sync"

	"github.com/dolthub/go-mysql-server/verifhook"

	"verif/harness/core"
)

// partialBatchStress: 8 clients repeatedly read 100 wide rows (about 2.5 KB each) of their own, so every
// result ends in one large partial batch (< 128 rows) whose socket write is long enough to be descheduled
// while the other connections convert their rows. Anything the server shares between connections at that
// point (pooled conversion buffers, batch slices) shows up as a row carrying another statement's tag or
// another row's payload. Perturbation is off here: the point is volume, not widened windows.
func partialBatchStress(r *core.Run, eng *core.Eng) {
	verifhook.SetPerturb(false, 0)
	// slow network: tiny socket buffers on both ends, so the server's writer parks in the middle of a result
	// until the client reads on
	srv, err := eng.StartServerSlowNet()
	if err != nil {
		r.Inconclusive("slow-net-server-did-not-start")
		return
	}
	defer srv.Close()
	iters := r.N(45, 300)
	const clients = 8
	var wg sync.WaitGroup
	for c := 0; c < clients; c++ {
		wg.Add(1)
		go func(c int) {
			defer wg.Done()
			rnd := r.Rand("partial-batch-stress", c)
			binary := c%2 == 1
			db, err := srv.OpenSlow("root", "", "")
			if err != nil {
				r.Inconclusive("connect")
				return
			}
			cctx, ccancel := context.WithTimeout(context.Background(), watchdog)
			conn, err := db.Conn(cctx)
			ccancel()
			if err != nil {
				db.Close()
				r.Inconclusive("connect")
				return
			}
			defer func() { conn.Close(); db.Close() }()
			for i := 0; i < iters; i++ {
				k := 90 + rnd.Intn(35) // always a single partial batch
				lo := 1 + rnd.Intn(nBig-k)
				hi := lo + k - 1
				base := fmt.Sprintf("st-c%d-i%d", c, i)
				tag := base + strings.Repeat("~"+base, 40)
				q := fmt.Sprintf("SELECT id, payload, '%s' AS tag, n FROM big WHERE id BETWEEN %d AND %d ORDER BY id", tag, lo, hi)
				var args []any
				if binary {
					q = fmt.Sprintf("SELECT id, payload, '%s' AS tag, n FROM big WHERE id BETWEEN ? AND ? ORDER BY id", tag)
					args = []any{lo, hi}
				}
				ctx, cancel := context.WithTimeout(context.Background(), watchdog)
				rows, err := conn.QueryContext(ctx, q, args...)
				if err != nil {
					cancel()
					if ctx.Err() != nil {
						r.Inconclusive("watchdog:partial-batch-stress")
						return
					}
					r.Eval(1)
					r.Violation("partial-batch-stress-statement-failed", map[string]any{"client": c, "iteration": i, "error": err.Error()})
					return
				}
				m := checkStream(rows, lo, hi, tag, -1)
				rows.Close()
				timedOut := ctx.Err() != nil
				cancel()
				if timedOut {
					r.Inconclusive("watchdog:partial-batch-stress")
					return
				}
				r.Eval(1)
				r.Count("stress.result-sets", 1)
				if m != "" {
					r.Violation("partial-batch-stress-"+sigClass(m), map[string]any{"client": c, "binary": binary, "iteration": i, "rows": k, "detail": core.Clip(m, 400)})
					return
				}
			}
			r.Distinct(fmt.Sprintf("partial-batch-stress|client%d|binary=%v|ok", c, binary))
		}(c)
	}
	wg.Wait()
	r.Floor(r.Counter("stress.result-sets") > 0, "the partial-batch stress phase did not run")
}
