// C36 — concurrent read-only sessions are race-free and isolated.
//
// One engine over a fixed database. Every item of a ~200-item read-only workload (joins, subqueries,
// CTEs, windows, views, every information_schema table, SHOW *, system/user/status variables,
// SQL-level and binary-protocol prepared statements, functions with internal caches, EXPLAIN) is
// first run alone — twice, on different sessions — on two routes: in-process sessions registered with
// the ProcessList exactly like the server's handler does, and real server connections. Then S
// sessions run seeded permutations of the items concurrently under the race detector.
// Oracles: (1) any race-detector report with a frame in the repository; (2) the result of an item
// under concurrency must equal its result alone (items whose two alone runs differ, or which are
// declared volatile, are executed but not compared); (3) a session's own user variable keeps its own
// value; (4) at quiescence the process list is empty, Threads_running = 0, Threads_connected and the
// memory manager's cache count are back at their values before the storm.
package main

import (
	"context"
	dsql "database/sql"
	"fmt"
	"sort"
	"strings"
	"sync"
	"time"

	"github.com/dolthub/go-mysql-server/sql"
	"github.com/dolthub/go-mysql-server/verifhook"

	"verif/harness/core"
	"verif/harness/g4lib"
)

const f7sig = "race:information_schema.AssignCatalog-writes-shared-table"

var watchdog = 120 * time.Second

// route is one way of running items: in-process registered session or server connection.
type route interface {
	name() string
	sid() int64
	run(it item) string // canonical result of the whole item
	close()
}

// ---- in-process route ----

type inproc struct{ p *g4lib.PSess }

func (r *inproc) name() string { return "inproc" }
func (r *inproc) sid() int64   { return int64(r.p.ID) }
func (r *inproc) close()       { r.p.Close() }
func (r *inproc) run(it item) string {
	stmts := it.Stmts
	if it.Bind != nil {
		stmts = []string{it.Inline}
	}
	var parts []string
	for _, s := range stmts {
		res := r.p.Query(s)
		switch {
		case res.TimedOut:
			parts = append(parts, "TIMEOUT")
		case res.Panic != nil:
			parts = append(parts, "PANIC:"+res.Panic.Site+":"+core.StripVolatile(res.Panic.Value))
		case res.Err != nil:
			parts = append(parts, "ERR:"+res.ErrClass()+":"+core.StripVolatile(res.Err.Error()))
		default:
			cols := make([]string, len(res.Schema))
			for i, c := range res.Schema {
				cols[i] = c.Name
			}
			parts = append(parts, strings.Join(cols, ",")+"\n"+strings.Join(core.SortedRows(res.Rows), "\n"))
		}
	}
	return strings.Join(parts, "\n--\n")
}

// ---- server route ----

type srvconn struct {
	db   *dsql.DB
	conn *dsql.Conn
	id   int64
}

func openSrv(srv *core.Srv) (*srvconn, error) {
	db, err := srv.Open("root", "", "")
	if err != nil {
		return nil, err
	}
	ctx, cancel := context.WithTimeout(context.Background(), watchdog)
	defer cancel()
	conn, err := db.Conn(ctx)
	if err != nil {
		db.Close()
		return nil, err
	}
	c := &srvconn{db: db, conn: conn}
	if err := conn.QueryRowContext(ctx, "SELECT CONNECTION_ID()").Scan(&c.id); err != nil {
		c.close()
		return nil, err
	}
	return c, nil
}
func (r *srvconn) name() string { return "server" }
func (r *srvconn) sid() int64   { return r.id }
func (r *srvconn) close()       { r.conn.Close(); r.db.Close() }
func (r *srvconn) run(it item) string {
	var parts []string
	for _, s := range it.Stmts {
		parts = append(parts, r.one(s, it.Bind))
	}
	return strings.Join(parts, "\n--\n")
}
func (r *srvconn) one(s string, bind []any) string {
	ctx, cancel := context.WithTimeout(context.Background(), watchdog)
	defer cancel()
	rows, err := r.conn.QueryContext(ctx, s, bind...)
	if err != nil {
		if ctx.Err() != nil {
			return "TIMEOUT"
		}
		return "ERR:" + core.StripVolatile(err.Error())
	}
	defer rows.Close()
	cols, _ := rows.Columns()
	var out []string
	for rows.Next() {
		vals := make([]dsql.RawBytes, len(cols))
		ptrs := make([]any, len(cols))
		for i := range vals {
			ptrs[i] = &vals[i]
		}
		if err := rows.Scan(ptrs...); err != nil {
			return "ERR:scan:" + core.StripVolatile(err.Error())
		}
		cells := make([]string, len(cols))
		for i, v := range vals {
			if v == nil {
				cells[i] = "NULL"
			} else {
				cells[i] = "'" + string(v) + "'"
			}
		}
		out = append(out, strings.Join(cells, "|"))
	}
	if err := rows.Err(); err != nil {
		if ctx.Err() != nil {
			return "TIMEOUT"
		}
		return "ERR:" + core.StripVolatile(err.Error())
	}
	sort.Strings(out)
	return strings.Join(cols, ",") + "\n" + strings.Join(out, "\n")
}

func bad(res string) string {
	for _, p := range strings.Split(res, "\n--\n") {
		for _, pre := range []string{"ERR:", "PANIC:", "TIMEOUT"} {
			if strings.HasPrefix(p, pre) {
				return p
			}
		}
	}
	return ""
}

// lastValue extracts the single value of the last statement of an item's result.
func lastValue(res string) string {
	l := res[strings.LastIndex(res, "\n")+1:]
	return strings.Trim(l, "'")
}

type calib struct {
	base   map[string]string // kind -> result alone
	stable map[string]bool
}

func main() {
	r := core.NewRun("C36", "exploration",
		"one engine, fixed database; each evaluation is one workload item run by one of S concurrent sessions (in-process sessions registered with the ProcessList, and real server connections) whose canonical result is compared with the same item run alone on the same route, plus the quiescence checks (process list empty, Threads_running=0, Threads_connected and cache count back to baseline) and every race-detector report; distinct = (route, statement kind) executed and compared under concurrency")
	r.Assume("read-only means no DML/DDL/ANALYZE; session-local writes (SET @v, SET SESSION, PREPARE, USE, read-only transactions) are part of the workload")
	r.Assume("items whose two runs alone (different sessions) differ, and items declared volatile (process list, status counters, connection id), are executed for the race detector but their results are not compared")
	r.Extra("race_build", g4lib.RaceEnabled())

	e := core.NewEng("c36db") // a name no other monitor uses: a client that lands on a foreign server (port shared via SO_REUSEPORT) fails at connect
	setup := e.NewSess()
	setupDB(setup)
	srv, err := e.StartServer()
	if err != nil {
		r.Floor(false, "server did not start: "+err.Error())
		r.Finish()
	}
	var isTables []string
	for _, row := range setup.MustExec("SELECT table_name FROM information_schema.tables WHERE table_schema = 'information_schema' ORDER BY 1").Rows {
		isTables = append(isTables, strings.Trim(core.Canon(row[0]), "'"))
	}
	items := workload(isTables)
	r.Count("workload.items", int64(len(items)))
	pl := e.E.ProcessList
	waitGone := func(ids []int64) bool { // server connections are torn down asynchronously
		deadline := time.Now().Add(watchdog)
		for {
			n := 0
			for _, p := range pl.Processes() {
				for _, id := range ids {
					if int64(p.Connection) == id {
						n++
					}
				}
			}
			if n == 0 {
				return true
			}
			if time.Now().After(deadline) {
				return false
			}
			time.Sleep(time.Millisecond)
		}
	}

	// ---- alone: baseline results, stability, leak-freeness of the registries ----
	for i := 0; i < 5000 && len(pl.Processes()) > 0; i++ { // the server's start-up probe connection is torn down asynchronously
		time.Sleep(time.Millisecond)
	}
	questions := func() uint64 { v, _ := g4lib.StatusUint("Questions"); return v }
	open := func(rt string) (route, error) {
		if rt == "inproc" {
			return &inproc{g4lib.NewPSess(e)}, nil
		}
		return openSrv(srv)
	}
	readMe := item{Kind: "own-uservar-read", Stmts: []string{"SELECT @me"}}
	setMe := func(sid int64) item {
		return item{Kind: "own-uservar-set", Stmts: []string{fmt.Sprintf("SET @me = %d", sid)}}
	}
	qcost := map[string]map[string]uint64{} // route -> item kind -> increments of the global Questions counter when run alone
	questionsReliable := true
	caches0 := e.E.MemoryManager.NumCaches()
	conn0, _ := g4lib.StatusUint("Threads_connected")
	cal := map[string]*calib{"inproc": {map[string]string{}, map[string]bool{}}, "server": {map[string]string{}, map[string]bool{}}}
	usable := map[string][]int{}
	for _, rt := range []string{"inproc", "server"} {
		var results [2]map[string]string
		var qd [2]map[string]uint64
		for pass := 0; pass < 2; pass++ {
			q0 := questions()
			ro, err := open(rt)
			if err != nil {
				r.Floor(false, "could not open a session: "+err.Error())
				r.Finish()
			}
			results[pass] = map[string]string{}
			qd[pass] = map[string]uint64{"(open)": questions() - q0}
			for _, it := range append([]item{setMe(ro.sid()), readMe}, items...) {
				q0 = questions()
				results[pass][it.Kind] = ro.run(it)
				qd[pass][it.Kind] = questions() - q0
			}
			q0 = questions()
			ro.close()
			waitGone([]int64{ro.sid()})
			qd[pass]["(close)"] = questions() - q0
		}
		qcost[rt] = qd[0]
		for k, v := range qd[0] {
			if qd[1][k] != v {
				questionsReliable = false
				r.Extra("questions-cost-unstable."+rt+"."+k, fmt.Sprint(v, " vs ", qd[1][k]))
			}
		}
		for i, it := range items {
			a, b := results[0][it.Kind], results[1][it.Kind]
			if p := bad(a); p != "" {
				r.Inconclusive("fails-alone:" + rt + ":" + it.Kind)
				r.Count("items.failing-alone."+rt, 1)
				if len(p) > 200 {
					p = p[:200]
				}
				r.Extra("fails-alone."+rt+"."+it.Kind, p)
				continue
			}
			usable[rt] = append(usable[rt], i)
			cal[rt].base[it.Kind] = a
			cal[rt].stable[it.Kind] = a == b && !it.Volatile
			if a != b && !it.Volatile {
				r.Count("items.unstable-alone."+rt, 1)
				r.Extra("unstable-alone."+rt+"."+it.Kind, true)
			}
		}
	}
	cachesAlone := e.E.MemoryManager.NumCaches()
	connAlone, _ := g4lib.StatusUint("Threads_connected")
	runAlone, _ := g4lib.StatusUint("Threads_running")
	registriesCleanAlone := cachesAlone == caches0 && connAlone == conn0 && runAlone == 0 && len(pl.Processes()) == 0
	r.Extra("registries-clean-after-alone-runs", registriesCleanAlone)
	if !registriesCleanAlone {
		r.Assume(fmt.Sprintf("the registries do not return to baseline even when the workload runs alone (caches %d->%d, Threads_connected %d->%d, Threads_running %d, processes %d): the quiescence check compares with the values after the alone runs",
			caches0, cachesAlone, conn0, connAlone, runAlone, len(pl.Processes())))
	}

	verifhook.SetPerturb(true, uint64(r.Seed))

	// ---- pinned witness of F7 (information_schema AssignCatalog wrote the shared table object) ----
	{
		var wg sync.WaitGroup
		for g := 0; g < 4; g++ {
			wg.Add(1)
			go func(g int) {
				defer wg.Done()
				p := g4lib.NewPSess(e)
				defer p.Close()
				for i := 0; i < 25; i++ {
					p.Query("SELECT COUNT(*) FROM information_schema.tables")
					p.Query("SHOW TABLES")
				}
			}(g)
		}
		wg.Wait()
		reports, _ := core.RaceReports()
		hit := ""
		for _, rep := range reports {
			if isF7(rep) {
				hit = rep.Sig
			}
		}
		r.Pinned(f7sig, "4 sessions x 25 x (SELECT COUNT(*) FROM information_schema.tables; SHOW TABLES) concurrently: race report "+hit, hit != "",
			map[string]any{"witness": "4 goroutines, each 25 x {SELECT COUNT(*) FROM information_schema.tables; SHOW TABLES} on one engine under -race", "report": hit})
	}

	// ---- the storm ----
	reps := r.N(2, 4)
	nIn, nSrv := r.N(8, 16), r.N(4, 8)
	perSession := r.N(230, 600)
	type mismatch struct {
		route string
		item  int
		got   string
		sid   int64
		rep   int
	}
	var mmMu sync.Mutex
	var mismatches []mismatch
	segments := 2
	for rep := 0; rep < reps; rep++ {
		// every second storm runs with the hooks quiet: no hit counters, no perturbation, hence no
		// synchronization added by the instrumentation that could order two racing accesses for the detector
		// (no session goroutine of an earlier storm is left at this point)
		verifhook.SetQuiet(rep%2 == 1)
		r.Count(fmt.Sprintf("storms.hooks-quiet=%v", rep%2 == 1), 1)
		var wg sync.WaitGroup
		var idMu sync.Mutex
		var ids []int64
		var expectedQ uint64
		timeouts := false
		qBefore := questions()
		start := make(chan struct{})
		for si := 0; si < nIn+nSrv; si++ {
			rt := "inproc"
			if si >= nIn {
				rt = "server"
			}
			wg.Add(1)
			go func(si int, rt string) {
				defer wg.Done()
				rnd := r.Rand(fmt.Sprintf("storm-%d", rep), si)
				c := cal[rt]
				idx := usable[rt]
				var myQ uint64
				defer func() {
					idMu.Lock()
					expectedQ += myQ
					idMu.Unlock()
				}()
				<-start
				for seg := 0; seg < segments; seg++ {
					// connect and disconnect inside the storm: AddConnection / RemoveConnection run concurrently too
					ro, err := open(rt)
					if err != nil {
						r.Inconclusive("server-connect")
						idMu.Lock()
						timeouts = true
						idMu.Unlock()
						return
					}
					if p, ok := ro.(*inproc); ok {
						p.p.Redact = si%2 == 1
					}
					idMu.Lock()
					ids = append(ids, ro.sid())
					idMu.Unlock()
					r.Count("sessions."+rt, 1)
					myQ += qcost[rt]["(open)"] + qcost[rt]["(close)"]
					ro.run(setMe(ro.sid()))
					myQ += qcost[rt]["own-uservar-set"]
					done := 0
					for done < perSession/segments {
						perm := rnd.Perm(len(idx))
						for _, k := range perm {
							if done >= perSession/segments {
								break
							}
							done++
							if done%16 == 0 {
								got := ro.run(readMe)
								myQ += qcost[rt]["own-uservar-read"]
								r.Eval(1)
								if lastValue(got) != fmt.Sprint(ro.sid()) {
									r.Violation("isolation:user-variable-of-another-session:"+rt, map[string]any{"session": ro.sid(), "SELECT @me": got})
								}
							}
							it := items[idx[k]]
							got := ro.run(it)
							myQ += qcost[rt][it.Kind]
							r.Count("statements."+rt, int64(len(it.Stmts)))
							if strings.Contains(got, "TIMEOUT") {
								r.Inconclusive("watchdog:" + it.Kind)
								idMu.Lock()
								timeouts = true
								idMu.Unlock()
								continue
							}
							if !c.stable[it.Kind] {
								r.Count("items.executed-not-compared", 1)
								if p := bad(got); strings.HasPrefix(p, "PANIC:") {
									r.Eval(1)
									r.Violation(g4lib.Sig("concurrent-"+core.Clip(p, 100)), map[string]any{"route": rt, "item": it, "result": core.Clip(got, 2000)})
								}
								continue
							}
							r.Eval(1)
							r.Distinct(rt + "|" + it.Kind)
							if got != c.base[it.Kind] {
								mmMu.Lock()
								mismatches = append(mismatches, mismatch{rt, idx[k], got, ro.sid(), rep})
								mmMu.Unlock()
							} else if rep == 0 && si == 0 && done <= 3 {
								r.Sample(map[string]any{"route": rt, "item": it.Kind, "statements": it.Stmts, "compared": "sorted canonical result under concurrency == result alone", "result": core.Clip(got, 200)})
							}
						}
					}
					ro.close()
				}
			}(si, rt)
		}
		close(start)
		wg.Wait()
		// quiescence
		if !waitGone(ids) {
			r.Inconclusive("watchdog:connections-not-torn-down")
			continue
		}
		if questionsReliable && !timeouts {
			r.Eval(1)
			if got := questions() - qBefore; got != expectedQ {
				r.Violation("status:Questions-counter-lost-or-extra-increments", map[string]any{"rep": rep, "increments_expected_from_alone_costs": expectedQ, "increments_observed": got})
			}
		}
		// every mismatch is re-examined alone: an item that also varies when nothing else runs (20 fresh
		// runs) is unstable by itself and says nothing about concurrency.
		judged := map[string]bool{}
		for _, m := range mismatches {
			it := items[m.item]
			key := m.route + "|" + it.Kind
			if !judged[key] {
				judged[key] = true
				var ro route
				if m.route == "inproc" {
					ro = &inproc{g4lib.NewPSess(e)}
				} else if c, err := openSrv(srv); err == nil {
					ro = c
				}
				if ro != nil {
					for k := 0; k < 20 && cal[m.route].stable[it.Kind]; k++ {
						if ro.run(it) != cal[m.route].base[it.Kind] {
							cal[m.route].stable[it.Kind] = false
						}
					}
					ro.close()
					waitGone([]int64{ro.sid()})
				}
			}
			if !cal[m.route].stable[it.Kind] {
				r.Inconclusive("unstable-alone:" + key)
				continue
			}
			sig := "concurrent-result-differs:" + m.route + ":" + it.Kind
			if p := bad(m.got); p != "" {
				sig = "concurrent-failure:" + m.route + ":" + it.Kind + ":" + core.Clip(p, 80)
			}
			r.Violation(g4lib.Sig(sig), map[string]any{"route": m.route, "item": it, "alone": core.Clip(cal[m.route].base[it.Kind], 3000), "concurrent": core.Clip(m.got, 3000), "session": m.sid, "rep": m.rep})
		}
		mismatches = nil
		procs := pl.Processes()
		running, _ := g4lib.StatusUint("Threads_running")
		connected, _ := g4lib.StatusUint("Threads_connected")
		caches := e.E.MemoryManager.NumCaches()
		r.Eval(4)
		w := map[string]any{"rep": rep, "processes": len(procs), "Threads_running": running, "Threads_connected": connected, "Threads_connected_before": connAlone, "caches": caches, "caches_before": cachesAlone}
		if len(procs) != 0 {
			r.Violation("quiescence:process-list-not-empty", w)
		}
		if running != runAlone {
			r.Violation("quiescence:Threads_running-not-zero", w)
		}
		if connected != connAlone {
			r.Violation("quiescence:Threads_connected-not-back-to-baseline", w)
		}
		if caches != cachesAlone {
			r.Violation("quiescence:memory-manager-caches-not-back-to-baseline", w)
		}
	}
	verifhook.SetQuiet(false)
	srv.Close()

	// status-variable registry under direct concurrent use: increments from many goroutines are all counted
	{
		const G, N = 16, 20000
		before := questions()
		var wg sync.WaitGroup
		for g := 0; g < G; g++ {
			wg.Add(1)
			go func() {
				defer wg.Done()
				for i := 0; i < N; i++ {
					sql.StatusVariables.IncrementGlobal("Questions", 1)
				}
			}()
		}
		wg.Wait()
		r.Eval(1)
		if got := questions() - before; got != G*N {
			r.Violation("status:concurrent-increments-lost", map[string]any{"goroutines": G, "increments_each": N, "expected": G * N, "observed": got})
		}
	}

	g4lib.ReportRaces(r, func(rep core.RaceReport) string {
		if isF7(rep) {
			return f7sig
		}
		return ""
	})
	hits := verifhook.Counters()
	r.Count("hook.processlist.enter", hits["processlist.enter"])
	r.Floor(g4lib.RaceEnabled(), "not a race build or no race log configured (run through ./check)")
	r.Floor(hits["processlist.enter"] > 0, "the process list was never entered")
	r.Floor(r.Counter("statements.inproc") > 0 && r.Counter("statements.server") > 0, "a route executed nothing")
	r.Floor(len(usable["inproc"]) > len(items)*3/4 && len(usable["server"]) > len(items)*3/4, "more than a quarter of the workload fails when run alone")
	r.Finish()
}

// isF7 recognises the known information_schema race: one side is the write in AssignCatalog of an
// information_schema table object shared by all sessions.
func isF7(rep core.RaceReport) bool {
	return strings.Contains(rep.Sig, "sql/information_schema.") && strings.Contains(rep.Sig, ".AssignCatalog")
}
