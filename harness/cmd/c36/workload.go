package main

import (
	"fmt"
	"strings"

	"verif/harness/core"
)

// item is one unit of the read-only workload: one or more statements that a session runs in order.
type item struct {
	Kind     string   // statement kind (evidence: distinct kinds executed under concurrency)
	Stmts    []string // run in order on one session; the item's result is the list of their results
	Volatile bool     // result legitimately depends on other sessions / connection ids: executed, not compared
	Bind     []any    // server route: the single statement is sent as a binary-protocol prepared statement with these arguments
	Inline   string   // in-process text equivalent of a Bind item
}

func setupDB(s *core.Sess) {
	s.MustExec("CREATE TABLE t1 (id INT PRIMARY KEY, a INT, b VARCHAR(20), c DECIMAL(10,2), d DATE, KEY ia (a), KEY ib (b))")
	s.MustExec("CREATE TABLE t2 (id INT PRIMARY KEY, t1id INT, v VARCHAR(30) COLLATE utf8mb4_0900_ai_ci, j JSON, KEY it (t1id))")
	s.MustExec("CREATE TABLE t3 (k VARCHAR(10) PRIMARY KEY, n BIGINT, f DOUBLE, ts DATETIME, e ENUM('x','y','z'), s SET('p','q','r'))")
	s.MustExec("CREATE TABLE geo (id INT PRIMARY KEY, p POINT NOT NULL)")
	s.MustExec("CREATE TABLE ft (id INT PRIMARY KEY, doc TEXT, FULLTEXT KEY fdoc (doc))")
	var b strings.Builder
	b.WriteString("INSERT INTO t1 VALUES ")
	for i := 1; i <= 200; i++ {
		if i > 1 {
			b.WriteString(",")
		}
		av := fmt.Sprint(i % 13)
		if i%17 == 0 {
			av = "NULL"
		}
		fmt.Fprintf(&b, "(%d,%s,'%s',%d.%02d,'2020-%02d-%02d')", i, av, []string{"apple", "Banana", "cherry", "date", "Éclair", "fig"}[i%6]+fmt.Sprint(i%4), i*7%1000, i%100, i%12+1, i%28+1)
	}
	s.MustExec(b.String())
	b.Reset()
	b.WriteString("INSERT INTO t2 VALUES ")
	for i := 1; i <= 120; i++ {
		if i > 1 {
			b.WriteString(",")
		}
		fmt.Fprintf(&b, "(%d,%d,'%s','{\"k\": %d, \"arr\": [1, %d, \"x\"], \"o\": {\"n\": null}}')", i, (i*3)%210+1, []string{"Alpha", "alpha", "BETA", "beta", "Gamma", "résumé", "resume"}[i%7], i, i%5)
	}
	s.MustExec(b.String())
	b.Reset()
	b.WriteString("INSERT INTO t3 VALUES ")
	for i := 1; i <= 40; i++ {
		if i > 1 {
			b.WriteString(",")
		}
		fmt.Fprintf(&b, "('k%02d',%d,%d.5,'2021-03-%02d 10:%02d:00','%s','%s')", i, int64(i)*1000003, i, i%28+1, i, []string{"x", "y", "z"}[i%3], []string{"p", "p,q", "q,r", "p,q,r"}[i%4])
	}
	s.MustExec(b.String())
	s.MustExec("INSERT INTO geo VALUES (1, POINT(1,2)), (2, POINT(3,4)), (3, POINT(-1,5))")
	s.MustExec("INSERT INTO ft VALUES (1,'the quick brown fox'),(2,'jumps over the lazy dog'),(3,'quick dog runs'),(4,'nothing to see here')")
	s.MustExec("CREATE VIEW v1 AS SELECT t1.id, t1.a, t2.v FROM t1 JOIN t2 ON t1.id = t2.t1id")
	s.MustExec("CREATE VIEW v2 AS SELECT a, COUNT(*) AS c, SUM(c) AS sc FROM t1 GROUP BY a")
}

func q(kind string, stmts ...string) item { return item{Kind: kind, Stmts: stmts} }
func vol(kind string, stmts ...string) item {
	return item{Kind: kind, Stmts: stmts, Volatile: true}
}

// workload returns the fixed list of read-only items. ANALYZE TABLE is deliberately absent (it
// rewrites the statistics provider: a write, outside the property).
func workload(infoSchemaTables []string) []item {
	its := []item{
		q("scan", "SELECT * FROM t1"),
		q("scan-filter", "SELECT id, b FROM t1 WHERE c > 300 AND b LIKE '%a%'"),
		q("pk-lookup", "SELECT * FROM t1 WHERE id = 77"),
		q("pk-range", "SELECT id, a FROM t1 WHERE id BETWEEN 20 AND 60"),
		q("index-lookup", "SELECT id FROM t1 WHERE a = 5"),
		q("index-range", "SELECT id, a FROM t1 WHERE a >= 3 AND a < 7"),
		q("index-in", "SELECT id FROM t1 WHERE a IN (1, 2, 12)"),
		q("index-string", "SELECT id FROM t1 WHERE b = 'cherry2'"),
		q("is-null", "SELECT id FROM t1 WHERE a IS NULL"),
		q("order-limit", "SELECT id, c FROM t1 ORDER BY c DESC, id LIMIT 10"),
		q("order-offset", "SELECT id FROM t1 ORDER BY id LIMIT 5 OFFSET 190"),
		q("distinct", "SELECT DISTINCT a FROM t1"),
		q("group-by", "SELECT a, COUNT(*), SUM(c), MIN(d), MAX(b) FROM t1 GROUP BY a"),
		q("group-having", "SELECT a, COUNT(*) FROM t1 GROUP BY a HAVING COUNT(*) > 14"),
		q("agg-scalar", "SELECT COUNT(*), COUNT(a), COUNT(DISTINCT a), AVG(c) FROM t1"),
		q("group-concat", "SELECT a, GROUP_CONCAT(id ORDER BY id SEPARATOR '-') FROM t1 WHERE id < 40 GROUP BY a"),
		q("inner-join", "SELECT t1.id, t2.id FROM t1 JOIN t2 ON t1.id = t2.t1id"),
		q("left-join", "SELECT t1.id, t2.id FROM t1 LEFT JOIN t2 ON t1.id = t2.t1id WHERE t1.id < 50"),
		q("join-3", "SELECT x.id, y.id, z.k FROM t1 x JOIN t2 y ON x.id = y.t1id JOIN t3 z ON z.n = y.id * 1000003"),
		q("cross-join", "SELECT COUNT(*) FROM t3 a CROSS JOIN t3 b WHERE a.n < b.n"),
		q("self-join-range", "SELECT COUNT(*) FROM t1 x JOIN t1 y ON x.a = y.a AND x.id < y.id"),
		q("semi-join", "SELECT id FROM t1 WHERE id IN (SELECT t1id FROM t2)"),
		q("anti-join", "SELECT id FROM t1 WHERE id NOT IN (SELECT t1id FROM t2) AND id < 80"),
		q("exists", "SELECT id FROM t1 WHERE EXISTS (SELECT 1 FROM t2 WHERE t2.t1id = t1.id AND t2.v = 'beta')"),
		q("scalar-subquery", "SELECT id, (SELECT COUNT(*) FROM t2 WHERE t2.t1id = t1.id) FROM t1 WHERE id < 30"),
		q("uncorrelated-subquery", "SELECT id FROM t1 WHERE c > (SELECT AVG(c) FROM t1)"),
		q("derived-table", "SELECT s.a, s.m FROM (SELECT a, MAX(c) AS m FROM t1 GROUP BY a) s WHERE s.m > 900"),
		q("lateral-like", "SELECT t1.id, d.cnt FROM t1 JOIN (SELECT t1id, COUNT(*) cnt FROM t2 GROUP BY t1id) d ON d.t1id = t1.id"),
		q("cte", "WITH big AS (SELECT id, c FROM t1 WHERE c > 500) SELECT COUNT(*), SUM(c) FROM big"),
		q("cte-two", "WITH a AS (SELECT id FROM t1 WHERE a = 1), b AS (SELECT t1id FROM t2) SELECT a.id FROM a JOIN b ON a.id = b.t1id"),
		q("recursive-cte", "WITH RECURSIVE r(n) AS (SELECT 1 UNION ALL SELECT n + 1 FROM r WHERE n < 50) SELECT SUM(n), COUNT(*) FROM r"),
		q("union", "SELECT a FROM t1 WHERE a < 3 UNION SELECT t1id FROM t2 WHERE t1id < 10"),
		q("union-all", "SELECT id FROM t1 WHERE id < 5 UNION ALL SELECT id FROM t2 WHERE id < 5"),
		q("intersect", "SELECT id FROM t1 INTERSECT SELECT t1id FROM t2"),
		q("except", "SELECT id FROM t1 WHERE id < 30 EXCEPT SELECT t1id FROM t2"),
		q("window-rank", "SELECT id, RANK() OVER (PARTITION BY a ORDER BY c, id), ROW_NUMBER() OVER (ORDER BY id) FROM t1 WHERE a IS NOT NULL"),
		q("window-sum", "SELECT id, SUM(c) OVER (PARTITION BY a ORDER BY id ROWS BETWEEN 1 PRECEDING AND 1 FOLLOWING) FROM t1 WHERE a < 4"),
		q("window-lag", "SELECT id, LAG(c, 1) OVER (ORDER BY id), LEAD(id) OVER (ORDER BY id), FIRST_VALUE(b) OVER (PARTITION BY a ORDER BY id) FROM t1 WHERE id < 60"),
		q("window-named", "SELECT id, COUNT(*) OVER w, MAX(c) OVER w FROM t1 WHERE id < 40 WINDOW w AS (PARTITION BY a)"),
		q("view", "SELECT * FROM v1"),
		q("view-agg", "SELECT * FROM v2"),
		q("view-join", "SELECT v1.id, v2.c FROM v1 JOIN v2 ON v1.a = v2.a WHERE v1.id < 100"),
		q("case-coalesce", "SELECT id, CASE WHEN a IS NULL THEN 'n' WHEN a < 5 THEN 'lo' ELSE 'hi' END, COALESCE(a, -1), IFNULL(a, 0), NULLIF(a, 3) FROM t1 WHERE id < 60"),
		q("collation-ci", "SELECT id FROM t2 WHERE v = 'ALPHA'"),
		q("collation-accent", "SELECT id FROM t2 WHERE v = 'resume'"),
		q("collation-order", "SELECT v, COUNT(*) FROM t2 GROUP BY v"),
		q("collate-expr", "SELECT id FROM t1 WHERE b COLLATE utf8mb4_0900_ai_ci = 'eclair1'"),
		q("string-funcs", "SELECT id, UPPER(b), LENGTH(b), CHAR_LENGTH(b), CONCAT(b, '-', id), SUBSTRING(b, 2, 3), REPLACE(b, 'a', 'A'), LPAD(b, 12, '*'), REVERSE(b), MD5(b), SHA1(b) FROM t1 WHERE id < 40"),
		q("hash-funcs", "SELECT id, CRC32(b), SHA2(b, 256), TO_BASE64(b), HEX(b) FROM t1 WHERE id < 40"),
		q("regex", "SELECT id FROM t1 WHERE b REGEXP '^[a-c].*[0-2]$'"),
		q("regex-funcs", "SELECT id, REGEXP_REPLACE(b, '[aeiou]', '_'), REGEXP_SUBSTR(b, '[a-z]+'), REGEXP_INSTR(b, 'r'), REGEXP_LIKE(b, 'AN', 'i') FROM t1 WHERE id < 40"),
		q("like", "SELECT id FROM t1 WHERE b LIKE 'b%' OR b LIKE '_ig%'"),
		q("json-extract", "SELECT id, JSON_EXTRACT(j, '$.k'), j->>'$.arr[1]', JSON_LENGTH(j, '$.arr'), JSON_CONTAINS(j, '1', '$.arr'), JSON_TYPE(j) FROM t2 WHERE id < 40"),
		q("json-build", "SELECT id, JSON_OBJECT('id', id, 'v', v), JSON_ARRAY(id, v, NULL), JSON_KEYS(j), JSON_VALID(j), JSON_UNQUOTE(JSON_EXTRACT(j, '$.arr[2]')) FROM t2 WHERE id < 30"),
		q("json-agg", "SELECT t1id, JSON_ARRAYAGG(id) FROM t2 WHERE t1id < 30 GROUP BY t1id"),
		q("json-table", "SELECT jt.* FROM JSON_TABLE('[{\"a\":1,\"b\":\"x\"},{\"a\":2,\"b\":\"y\"}]', '$[*]' COLUMNS (a INT PATH '$.a', b VARCHAR(5) PATH '$.b')) jt"),
		q("date-funcs", "SELECT id, YEAR(d), MONTH(d), DAYOFWEEK(d), DATE_ADD(d, INTERVAL 40 DAY), DATEDIFF(d, '2020-01-01'), DATE_FORMAT(d, '%Y/%m/%d %W'), LAST_DAY(d), WEEK(d) FROM t1 WHERE id < 50"),
		q("datetime-funcs", "SELECT k, HOUR(ts), MINUTE(ts), UNIX_TIMESTAMP(ts), TIMESTAMPDIFF(MINUTE, '2021-03-01 00:00:00', ts), DATE(ts), TIME(ts), STR_TO_DATE('2021-05-06', '%Y-%m-%d') FROM t3"),
		q("convert-tz", "SELECT k, CONVERT_TZ(ts, '+00:00', '+05:30'), CONVERT_TZ(ts, 'UTC', 'America/New_York') FROM t3"),
		q("math-funcs", "SELECT k, ABS(n), MOD(n, 7), ROUND(f, 1), FLOOR(f), CEIL(f), POW(f, 2), SQRT(f), LOG(f + 1), GREATEST(n, 5), LEAST(f, 3), SIGN(n), TRUNCATE(f, 0) FROM t3"),
		q("cast-convert", "SELECT id, CAST(c AS SIGNED), CAST(id AS CHAR), CAST(b AS BINARY), CONVERT(c, DECIMAL(12,4)), CAST(d AS DATETIME), CONVERT(b USING latin1), CAST('12' AS UNSIGNED) + a FROM t1 WHERE id < 40"),
		q("enum-set", "SELECT k, e, s, e + 0, s + 0, FIND_IN_SET('q', s) FROM t3 WHERE e <> 'y'"),
		q("decimal-arith", "SELECT id, c * 3, c / 7, c + a, c - id, -c, c % 5 FROM t1 WHERE id < 60"),
		q("bit-ops", "SELECT id, id & 5, id | 8, id ^ 3, id << 2, id >> 1, BIT_COUNT(id) FROM t1 WHERE id < 30"),
		q("geometry", "SELECT id, ST_AsText(p), ST_X(p), ST_Y(p), ST_SRID(p), ST_AsWKB(p), ST_Distance(p, POINT(0,0)) FROM geo"),
		q("geometry-fn", "SELECT ST_AsText(ST_GeomFromText('POLYGON((0 0,4 0,4 4,0 4,0 0))')), ST_Area(ST_GeomFromText('POLYGON((0 0,4 0,4 4,0 4,0 0))')), ST_Within(POINT(1,1), ST_GeomFromText('POLYGON((0 0,4 0,4 4,0 4,0 0))'))"),
		q("fulltext", "SELECT id FROM ft WHERE MATCH(doc) AGAINST ('quick dog')"),
		q("no-table", "SELECT 1 + 1, 'x', NULL, 1.5e3, 0x41, b'101', TRUE, 10 DIV 3, 7 / 2"),
		q("values", "SELECT * FROM (VALUES ROW(1,'a'), ROW(2,'b'), ROW(3,NULL)) v (x, y)"),
		q("sysvars", "SELECT @@version_comment, @@autocommit, @@sql_mode, @@max_allowed_packet, @@character_set_client, @@collation_connection, @@session.sql_select_limit, @@global.max_connections"),
		q("sysvars-2", "SELECT @@lower_case_table_names, @@innodb_lock_wait_timeout, @@GLOBAL.long_query_time, @@tx_isolation, @@time_zone"),
		q("set-session-var", "SET @@session.sql_select_limit = 1000000", "SELECT @@session.sql_select_limit", "SET SESSION group_concat_max_len = 2048", "SELECT @@group_concat_max_len",
			"SET @@session.sql_select_limit = DEFAULT", "SET SESSION group_concat_max_len = DEFAULT", "SELECT @@session.sql_select_limit, @@group_concat_max_len"),
		q("user-vars", "SET @x = 41, @y = 'abc'", "SELECT @x + 1, CONCAT(@y, 'd'), @nope", "SET @z := (SELECT MAX(id) FROM t1)", "SELECT @z"),
		q("sql-prepare", "PREPARE p1 FROM 'SELECT id, b FROM t1 WHERE a = ? AND id < ?'", "SET @pa = 4, @pb = 120", "EXECUTE p1 USING @pa, @pb", "SET @pa = 9", "EXECUTE p1 USING @pa, @pb", "DEALLOCATE PREPARE p1"),
		q("sql-prepare-agg", "PREPARE p2 FROM 'SELECT COUNT(*) FROM t2 WHERE v = ?'", "SET @pv = 'gamma'", "EXECUTE p2 USING @pv", "DEALLOCATE PREPARE p2"),
		q("explain", "EXPLAIN SELECT t1.id FROM t1 JOIN t2 ON t1.id = t2.t1id WHERE t1.a = 3"),
		q("explain-plan", "EXPLAIN PLAN SELECT a, COUNT(*) FROM t1 WHERE id > 10 GROUP BY a"),
		q("explain-format", "EXPLAIN FORMAT=TREE SELECT * FROM v1 WHERE a = 2"),
		q("describe", "DESCRIBE t1"),
		q("describe-view", "DESCRIBE v1"),
		q("show-tables", "SHOW TABLES"),
		q("show-full-tables", "SHOW FULL TABLES"),
		q("show-tables-like", "SHOW TABLES LIKE 't%'"),
		q("show-create-table", "SHOW CREATE TABLE t1"),
		q("show-create-table-2", "SHOW CREATE TABLE t2"),
		q("show-create-view", "SHOW CREATE VIEW v1"),
		q("show-columns", "SHOW COLUMNS FROM t3"),
		q("show-full-columns", "SHOW FULL COLUMNS FROM t2"),
		q("show-indexes", "SHOW INDEXES FROM t1"),
		q("show-keys", "SHOW KEYS FROM t2"),
		q("show-databases", "SHOW DATABASES"),
		q("show-schemas", "SHOW SCHEMAS"),
		q("show-variables", "SHOW VARIABLES LIKE 'max_%'"),
		q("show-session-variables", "SHOW SESSION VARIABLES LIKE 'sql_%'"),
		q("show-global-variables", "SHOW GLOBAL VARIABLES LIKE 'innodb%'"),
		q("show-all-variables", "SHOW VARIABLES"),
		vol("show-status", "SHOW STATUS"),
		vol("show-global-status", "SHOW GLOBAL STATUS LIKE 'Threads%'"),
		vol("show-session-status", "SHOW SESSION STATUS LIKE 'Com%'"),
		vol("show-processlist", "SHOW PROCESSLIST"),
		vol("show-full-processlist", "SHOW FULL PROCESSLIST"),
		q("show-charset", "SHOW CHARACTER SET"),
		q("show-collation", "SHOW COLLATION WHERE Charset = 'utf8mb4' AND Collation LIKE '%0900%'"),
		q("show-collation-all", "SHOW COLLATION"),
		q("show-table-status", "SHOW TABLE STATUS"),
		q("show-engines", "SHOW ENGINES"),
		q("show-plugins", "SHOW PLUGINS"),
		q("show-privileges", "SHOW PRIVILEGES"),
		q("show-triggers", "SHOW TRIGGERS"),
		q("show-events", "SHOW EVENTS"),
		q("show-procedure-status", "SHOW PROCEDURE STATUS"),
		q("show-function-status", "SHOW FUNCTION STATUS"),
		q("show-warnings", "SELECT CAST('12abc' AS SIGNED)", "SHOW WARNINGS"),
		q("current-user-db", "SELECT CURRENT_USER(), USER(), DATABASE(), SCHEMA(), VERSION()"),
		vol("connection-id", "SELECT CONNECTION_ID()"),
		q("found-rows", "SELECT SQL_CALC_FOUND_ROWS id FROM t1 ORDER BY id LIMIT 3", "SELECT FOUND_ROWS()"),
		q("row-count", "SELECT id FROM t1 WHERE id = 1", "SELECT ROW_COUNT()"),
		q("last-insert-id", "SELECT LAST_INSERT_ID()"),
		q("info-columns-filter", "SELECT table_name, column_name, data_type, column_key FROM information_schema.columns WHERE table_schema = 'c36db'"),
		q("info-tables-filter", "SELECT table_name, table_type, engine FROM information_schema.tables WHERE table_schema = 'c36db'"),
		q("info-statistics-filter", "SELECT table_name, index_name, column_name, seq_in_index FROM information_schema.statistics WHERE table_schema = 'c36db'"),
		q("info-join", "SELECT t.table_name, COUNT(c.column_name) FROM information_schema.tables t JOIN information_schema.columns c ON t.table_schema = c.table_schema AND t.table_name = c.table_name WHERE t.table_schema = 'c36db' GROUP BY t.table_name"),
		q("info-views", "SELECT table_name, view_definition FROM information_schema.views WHERE table_schema = 'c36db'"),
		q("use-db", "USE c36db", "SELECT DATABASE()"),
		q("use-info-schema", "USE information_schema", "SELECT COUNT(*) FROM schemata", "USE c36db"),
		q("qualified-names", "SELECT c36db.t1.id FROM c36db.t1 WHERE c36db.t1.id = 3"),
		q("begin-readonly", "START TRANSACTION READ ONLY", "SELECT COUNT(*) FROM t1", "COMMIT"),
		q("begin-select-rollback", "BEGIN", "SELECT SUM(a) FROM t1", "ROLLBACK"),
		{Kind: "binary-prepared", Stmts: []string{"SELECT id, b, c FROM t1 WHERE a = ? AND c > ?"}, Bind: []any{3, 100.5}, Inline: "SELECT id, b, c FROM t1 WHERE a = 3 AND c > 100.5"},
		{Kind: "binary-prepared-str", Stmts: []string{"SELECT id FROM t2 WHERE v = ? OR id = ?"}, Bind: []any{"BETA", 7}, Inline: "SELECT id FROM t2 WHERE v = 'BETA' OR id = 7"},
		{Kind: "binary-prepared-agg", Stmts: []string{"SELECT a, COUNT(*) FROM t1 WHERE id > ? GROUP BY a"}, Bind: []any{50}, Inline: "SELECT a, COUNT(*) FROM t1 WHERE id > 50 GROUP BY a"},
	}
	for _, t := range infoSchemaTables {
		if t == "column_statistics" {
			continue // panics (nil pointer in TrackedRowIter.Next) even alone on this backend: a sequential defect, not this property
		}
		it := item{Kind: "information_schema." + t, Stmts: []string{"SELECT * FROM information_schema." + t}}
		// processlist: other sessions. tables: avg_row_length of an empty table is whatever the previously
		// iterated table left in the variable, and the iteration order is a map order — unstable even alone
		// (a sequential defect, not a concurrency one); the filtered item info-tables-filter is compared.
		if t == "processlist" || t == "tables" {
			it.Volatile = true
		}
		its = append(its, it)
	}
	return its
}
