// C37 — process list and KILL track and cancel exactly the targeted work.
//
// Part 1 (API histories): goroutines drive one sqle.ProcessList through protocol-conforming call
// sequences (Add → Ready → (BeginQuery→EndQuery | BeginOperation→EndOperation)* → Remove per
// connection) while killers call Kill, observers call Processes() and read Threads_running /
// Threads_connected, and connections issue the documented error calls (Begin* on an unregistered
// connection, BeginQuery with a pid in use, BeginOperation while one is running). Every call is
// stamped call/return on one logical clock; the history is checked with porcupine against a small
// sequential model (connection → command, query text, pid, cancel registered, latest context
// cancelled) and Threads_connected against its own counter model; at the end of every history the
// counters must be back at their start values (conservation).
// Part 2 (server scenarios): real connections; SHOW PROCESSLIST shows exactly the open connections
// with the text of the statements they are blocked in; KILL QUERY interrupts exactly the target and
// the next statement on that connection works; KILL CONNECTION closes exactly the target; after all
// clients closed the counters are back at baseline.
package main

import (
	"context"
	"fmt"
	"sort"
	"strings"
	"sync"
	"sync/atomic"
	"time"

	sqle "github.com/dolthub/go-mysql-server"
	"github.com/dolthub/go-mysql-server/sql"
	"github.com/dolthub/go-mysql-server/verifhook"

	"verif/harness/core"
	"verif/harness/g4lib"
)

const porcupineTimeout = 120 * time.Second
const f8sig = "counter:Threads_running-incremented-by-failed-BeginQuery"

var watchdog = 120 * time.Second // generous: the box is shared; a fired watchdog is inconclusive unless reproduced

type step struct {
	Kind string `json:"kind"` // query op dup unreg-q unreg-op nested-op ; kill procs running connected
	Slot int    `json:"slot"`
	N    int    `json:"n,omitempty"` // ctxerr looks / yields inside
}

type connProg struct {
	Slot  int    `json:"slot"`
	Pre   []step `json:"pre"`  // before AddConnection (error calls)
	Body  []step `json:"body"` // between Ready and Remove
	Post  []step `json:"post"` // after RemoveConnection (error calls)
	Twice bool   `json:"twice"` // a second life on slot+1 (a new connection id)
}

type apiHist struct {
	Case  int        `json:"case"`
	Conns []connProg `json:"connections"`
	Aux   [][]step   `json:"aux"` // killers / observers
}

func genAPI(rnd interface{ Intn(int) int }, idx int) apiHist {
	h := apiHist{Case: idx}
	nc := 1 + rnd.Intn(3)
	slot := 0
	budget := 44
	for c := 0; c < nc; c++ {
		p := connProg{Slot: slot}
		slot++
		if rnd.Intn(3) == 0 {
			p.Pre = append(p.Pre, step{Kind: []string{"unreg-q", "unreg-op"}[rnd.Intn(2)]})
		}
		n := 1 + rnd.Intn(4)
		for i := 0; i < n; i++ {
			k := []string{"query", "query", "query", "op", "op", "dup", "nested-op"}[rnd.Intn(7)]
			p.Body = append(p.Body, step{Kind: k, N: rnd.Intn(3)})
		}
		if rnd.Intn(3) == 0 {
			p.Post = append(p.Post, step{Kind: []string{"unreg-q", "unreg-op"}[rnd.Intn(2)]})
		}
		if rnd.Intn(4) == 0 && slot < g4lib.MaxSlots-1 {
			p.Twice = true
			slot++
		}
		budget -= 4 + 4*n
		h.Conns = append(h.Conns, p)
	}
	na := 1 + rnd.Intn(2)
	for a := 0; a < na; a++ {
		var prog []step
		n := 2 + rnd.Intn(5)
		if budget < 8 {
			n = 2
		}
		for i := 0; i < n; i++ {
			k := []string{"kill", "kill", "kill", "procs", "procs", "running", "connected"}[rnd.Intn(7)]
			prog = append(prog, step{Kind: k, Slot: rnd.Intn(slot), N: rnd.Intn(4)})
		}
		budget -= n
		h.Aux = append(h.Aux, prog)
	}
	return h
}

type apiOutcome struct {
	ops      []g4lib.PLOp
	fails    []string
	stalled  bool
	runEnd   int64
	connEnd  int64
	procsEnd int
}

func newCtx(id uint32, pid uint64, q string) *sql.Context {
	bs := sql.NewBaseSessionWithClientServer("verif", sql.Client{User: "u", Address: "h"}, id)
	return sql.NewContext(context.Background(), sql.WithSession(bs), sql.WithPid(pid), sql.WithQuery(q))
}

// runAPI executes one history on a fresh ProcessList. Histories run one at a time: the status
// counters are process-global.
func runAPI(h apiHist) apiOutcome {
	var out apiOutcome
	pl := sqle.NewProcessList()
	clock := &g4lib.Clock{}
	base := uint32(1000 + (h.Case%1000)*10)
	run0, _ := g4lib.StatusUint("Threads_running")
	conn0, _ := g4lib.StatusUint("Threads_connected")
	var pidSeq atomic.Uint64
	pidSeq.Store(uint64(h.Case)*1000 + 1)
	var lastPid [g4lib.MaxSlots]atomic.Uint64 // pid of the query a slot most recently began (for "dup")
	nClients := len(h.Conns) + len(h.Aux)
	per := make([][]g4lib.PLOp, nClients)
	perFail := make([][]string, nClients)
	start := make(chan struct{})
	var wg sync.WaitGroup

	for ci, cp := range h.Conns {
		wg.Add(1)
		go func(ci int, cp connProg) {
			defer wg.Done()
			rec := func(o g4lib.PLOp) { o.Client = ci; per[ci] = append(per[ci], o) }
			var latest *sql.Context // context of the latest successful Begin*
			latestSlot := -1
			look := func(slot int) {
				if latest == nil || latestSlot != slot { // the model tracks the latest context per connection slot
					return
				}
				call := clock.Tick()
				cancelled := latest.Err() != nil
				rec(g4lib.PLOp{Kind: g4lib.PCtxErr, Slot: slot, Call: call, Ret: clock.Tick(), OK: cancelled})
			}
			beginQ := func(slot int, pid uint64, q string) (*sql.Context, bool) {
				ctx := newCtx(base+uint32(slot), pid, q)
				call := clock.Tick()
				nctx, err := pl.BeginQuery(ctx, q)
				ret := clock.Tick()
				rec(g4lib.PLOp{Kind: g4lib.PBeginQ, Slot: slot, Pid: pid, Query: q, Call: call, Ret: ret, OK: err == nil})
				if err == nil {
					if nctx.Pid() != pid || nctx.Session.ID() != base+uint32(slot) {
						perFail[ci] = append(perFail[ci], "BeginQuery returned a context with another pid/session")
					}
					latest, latestSlot = nctx, slot
					lastPid[slot].Store(pid)
				}
				return nctx, err == nil
			}
			endQ := func(slot int, ctx *sql.Context) {
				call := clock.Tick()
				pl.EndQuery(ctx)
				rec(g4lib.PLOp{Kind: g4lib.PEndQ, Slot: slot, Pid: ctx.Pid(), Call: call, Ret: clock.Tick()})
			}
			beginOp := func(slot int) (*sql.Context, bool) {
				ctx := newCtx(base+uint32(slot), pidSeq.Add(1), "")
				call := clock.Tick()
				nctx, err := pl.BeginOperation(ctx)
				ret := clock.Tick()
				rec(g4lib.PLOp{Kind: g4lib.PBeginOp, Slot: slot, Call: call, Ret: ret, OK: err == nil})
				if err == nil {
					latest, latestSlot = nctx, slot
				}
				return nctx, err == nil
			}
			endOp := func(slot int, ctx *sql.Context) {
				call := clock.Tick()
				pl.EndOperation(ctx)
				rec(g4lib.PLOp{Kind: g4lib.PEndOp, Slot: slot, Call: call, Ret: clock.Tick()})
			}
			errCalls := func(slot int, steps []step) {
				for _, st := range steps {
					if st.Kind == "unreg-q" {
						if ctx, ok := beginQ(slot, pidSeq.Add(1), "never"); ok {
							endQ(slot, ctx) // keep the protocol even if the engine wrongly accepted it
						}
					} else {
						if ctx, ok := beginOp(slot); ok {
							endOp(slot, ctx)
						}
					}
				}
			}
			<-start
			lives := 1
			if cp.Twice {
				lives = 2
			}
			for life := 0; life < lives; life++ {
				slot := cp.Slot + life
				id := base + uint32(slot)
				errCalls(slot, cp.Pre)
				call := clock.Tick()
				pl.AddConnection(id, "127.0.0.1:9")
				rec(g4lib.PLOp{Kind: g4lib.PAdd, Slot: slot, Call: call, Ret: clock.Tick()})
				sess := sql.NewBaseSessionWithClientServer("verif", sql.Client{User: "u", Address: "h"}, id)
				call = clock.Tick()
				pl.ConnectionReady(sess)
				rec(g4lib.PLOp{Kind: g4lib.PReady, Slot: slot, Call: call, Ret: clock.Tick()})
				var prevQ *sql.Context // context of this connection's previous, already ended query
				for bi, st := range cp.Body {
					switch st.Kind {
					case "query", "dup":
						pid := pidSeq.Add(1)
						if st.Kind == "dup" { // try the pid another connection used most recently
							other := (slot + 1 + bi) % g4lib.MaxSlots
							if p := lastPid[other].Load(); p != 0 && other != slot {
								pid = p
							}
						}
						q := fmt.Sprintf("SELECT %d /* c%d */", bi, slot)
						ctx, ok := beginQ(slot, pid, q)
						if !ok {
							continue
						}
						for k := 0; k < st.N+1; k++ {
							verifhook.Point("harness.conn.in-query")
							verifhook.Point("harness.conn.in-query")
							look(slot)
						}
						if prevQ != nil && bi%2 == 1 {
							// a late, repeated end-of-query notification for the connection's PREVIOUS query (what a
							// delayed iterator Close produces) while this one is in flight: it names another pid
							// and must leave the running query, its context and the counters alone
							// (it carries a pid of its own that no connection ever began: the harness's "dup" steps
							// may legitimately re-use the pid of an ended query on another connection, and
							// EndQuery(pid) frees that pid)
							endQ(slot, newCtx(base+uint32(slot), pidSeq.Add(1), "late end of an earlier query"))
							look(slot)
						}
						prevQ = ctx
						if st.N == 2 { // the documented error: an operation while a query is running
							if octx, ok := beginOp(slot); ok {
								endOp(slot, octx)
							}
						}
						endQ(slot, ctx)
						look(slot)
					case "op", "nested-op":
						ctx, ok := beginOp(slot)
						if !ok {
							continue
						}
						for k := 0; k < st.N; k++ {
							verifhook.Point("harness.conn.in-op")
							look(slot)
						}
						if st.Kind == "nested-op" {
							if octx, ok := beginOp(slot); ok {
								endOp(slot, octx)
							}
						}
						endOp(slot, ctx)
						look(slot)
					}
				}
				call = clock.Tick()
				pl.RemoveConnection(id)
				rec(g4lib.PLOp{Kind: g4lib.PRemove, Slot: slot, Call: call, Ret: clock.Tick(), OK: true})
				look(slot)
				errCalls(slot, cp.Post)
			}
		}(ci, cp)
	}
	for ai, prog := range h.Aux {
		ci := len(h.Conns) + ai
		wg.Add(1)
		go func(ci int, prog []step) {
			defer wg.Done()
			rec := func(o g4lib.PLOp) { o.Client = ci; per[ci] = append(per[ci], o) }
			<-start
			for _, st := range prog {
				for k := 0; k < st.N; k++ {
					verifhook.Point("harness.aux.yield")
				}
				switch st.Kind {
				case "kill":
					call := clock.Tick()
					pl.Kill(base + uint32(st.Slot))
					rec(g4lib.PLOp{Kind: g4lib.PKill, Slot: st.Slot, Call: call, Ret: clock.Tick()})
				case "procs":
					call := clock.Tick()
					ps := pl.Processes()
					ret := clock.Tick()
					m := map[int][2]string{}
					for _, p := range ps {
						slot := int(p.Connection) - int(base)
						if _, dup := m[slot]; dup {
							perFail[ci] = append(perFail[ci], "Processes() lists a connection twice")
						}
						m[slot] = [2]string{string(p.Command), p.Query}
						if (p.Command == sql.ProcessCommandQuery) != (p.QueryPid != 0) {
							perFail[ci] = append(perFail[ci], fmt.Sprintf("Processes(): command %s with query pid %d", p.Command, p.QueryPid))
						}
					}
					rec(g4lib.PLOp{Kind: g4lib.PProcs, Call: call, Ret: ret, Procs: g4lib.ProcsCanon(m)})
				case "running":
					call := clock.Tick()
					v, _ := g4lib.StatusUint("Threads_running")
					rec(g4lib.PLOp{Kind: g4lib.PRunning, Call: call, Ret: clock.Tick(), N: int64(v) - int64(run0)})
				case "connected":
					call := clock.Tick()
					v, _ := g4lib.StatusUint("Threads_connected")
					rec(g4lib.PLOp{Kind: g4lib.PConnRead, Call: call, Ret: clock.Tick(), N: int64(v) - int64(conn0)})
				}
			}
		}(ci, prog)
	}
	done := make(chan struct{})
	go func() { wg.Wait(); close(done) }()
	close(start)
	select {
	case <-done:
	case <-time.After(watchdog):
		out.stalled = true
		return out
	}
	for i := range per {
		out.ops = append(out.ops, per[i]...)
		out.fails = append(out.fails, perFail[i]...)
	}
	sort.Slice(out.ops, func(i, j int) bool { return out.ops[i].Call < out.ops[j].Call })
	run1, _ := g4lib.StatusUint("Threads_running")
	conn1, _ := g4lib.StatusUint("Threads_connected")
	out.runEnd, out.connEnd, out.procsEnd = int64(run1)-int64(run0), int64(conn1)-int64(conn0), len(pl.Processes())
	return out
}

func judgeAPI(r *core.Run, h apiHist, o apiOutcome) {
	wit := func(extra map[string]any) map[string]any {
		m := map[string]any{"history": h, "seed": r.Seed, "ops": o.ops}
		for k, v := range extra {
			m[k] = v
		}
		return m
	}
	for _, f := range o.fails {
		r.Eval(1)
		r.Violation(g4lib.Sig("processlist:"+core.StripVolatile(f)), wit(map[string]any{"failure": f}))
	}
	// conservation at the end of the history: everything was ended and removed
	r.Eval(3)
	if o.runEnd != 0 {
		sig := "counter:Threads_running-not-conserved"
		if o.runEnd > 0 && failedBeginQ(o.ops) == o.runEnd {
			sig = f8sig // exactly one leaked increment per failed BeginQuery: the known F8 shape
		}
		r.Violation(sig, wit(map[string]any{"Threads_running_delta": o.runEnd, "failed_BeginQuery_calls": failedBeginQ(o.ops)}))
	}
	if o.connEnd != 0 {
		r.Violation("counter:Threads_connected-not-conserved", wit(map[string]any{"Threads_connected_delta": o.connEnd}))
	}
	if o.procsEnd != 0 {
		r.Violation("processlist:not-empty-after-all-removed", wit(map[string]any{"processes": o.procsEnd}))
	}
	switch res := g4lib.CheckPLHistory(o.ops, porcupineTimeout); {
	case res == "unknown":
		r.Inconclusive("porcupine-timeout")
	case res != "ok":
		r.Eval(1)
		sig := "processlist:not-linearizable:" + strings.TrimPrefix(res, "illegal:")
		if res == "illegal:process-list" && o.runEnd > 0 && failedBeginQ(o.ops) == o.runEnd && linearizableWithoutRunningReads(o.ops) {
			sig = f8sig
		}
		r.Violation(sig, wit(nil))
	default:
		r.Eval(1)
	}
	// evidence
	overl := 0
	for i := range o.ops {
		for j := i + 1; j < len(o.ops); j++ {
			if o.ops[i].Client != o.ops[j].Client && o.ops[i].Call < o.ops[j].Ret && o.ops[j].Call < o.ops[i].Ret {
				overl++
			}
		}
	}
	if overl > 0 {
		r.Count("api.histories-with-overlap", 1)
	}
	inQuery := map[int]bool{}
	for _, op := range o.ops {
		res := ""
		switch op.Kind {
		case g4lib.PBeginQ, g4lib.PBeginOp:
			res = fmt.Sprintf("ok=%v", op.OK)
			if !op.OK {
				r.Count("api.error-calls", 1)
			}
			if op.Kind == g4lib.PBeginQ && op.OK {
				inQuery[op.Slot] = true
			}
		case g4lib.PEndQ:
			inQuery[op.Slot] = false
		case g4lib.PCtxErr:
			res = fmt.Sprintf("cancelled=%v", op.OK)
			if op.OK && inQuery[op.Slot] {
				r.Count("api.kill-observed-during-query", 1)
			}
		case g4lib.PProcs:
			res = fmt.Sprintf("n=%d", strings.Count(op.Procs, ":")/2)
			if strings.Contains(op.Procs, ":Query:") {
				r.Count("api.processes-saw-running-query", 1)
			}
		case g4lib.PRunning:
			res = fmt.Sprintf("n=%d", op.N)
		}
		r.Distinct("api|" + op.Kind + "|" + res)
		r.Count("api.ops", 1)
	}
	r.Count("api.histories", 1)
	if h.Case < 2 {
		n := len(o.ops)
		if n > 8 {
			n = 8
		}
		r.Sample(map[string]any{"history": fmt.Sprintf("api#%d", h.Case), "clients": len(h.Conns) + len(h.Aux), "ops": len(o.ops), "first_ops": o.ops[:n],
			"checked": "porcupine vs process-list model; Threads_connected counter model; conservation at the end"})
	}
}

func failedBeginQ(ops []g4lib.PLOp) int64 {
	var n int64
	for _, o := range ops {
		if o.Kind == g4lib.PBeginQ && !o.OK {
			n++
		}
	}
	return n
}

// linearizableWithoutRunningReads: the history is fine once the Threads_running reads are dropped
// (used only to attribute a non-linearizable history to the known counter leak F8).
func linearizableWithoutRunningReads(ops []g4lib.PLOp) bool {
	var rest []g4lib.PLOp
	for _, o := range ops {
		if o.Kind != g4lib.PRunning {
			rest = append(rest, o)
		}
	}
	return g4lib.CheckPLHistory(rest, porcupineTimeout) == "ok"
}

// pinnedF8 replays the witness of F8: a failing BeginQuery must not change Threads_running.
func pinnedF8(r *core.Run) {
	pl := sqle.NewProcessList()
	run0, _ := g4lib.StatusUint("Threads_running")
	_, err1 := pl.BeginQuery(newCtx(77, 7001, "SELECT 1"), "SELECT 1") // connection 77 was never added
	pl.AddConnection(78, "h:1")
	pl.ConnectionReady(sql.NewBaseSessionWithClientServer("verif", sql.Client{User: "u", Address: "h"}, 78))
	pl.AddConnection(79, "h:2")
	pl.ConnectionReady(sql.NewBaseSessionWithClientServer("verif", sql.Client{User: "u", Address: "h"}, 79))
	c1, errOK := pl.BeginQuery(newCtx(78, 7002, "SELECT 2"), "SELECT 2")
	_, err2 := pl.BeginQuery(newCtx(79, 7002, "SELECT 3"), "SELECT 3") // pid 7002 is in use
	if errOK == nil {
		pl.EndQuery(c1)
	}
	pl.RemoveConnection(78)
	pl.RemoveConnection(79)
	run1, _ := g4lib.StatusUint("Threads_running")
	leaked := int64(run1) - int64(run0)
	r.Eval(1)
	what := fmt.Sprintf("BeginQuery on an unregistered connection (err=%v) and with a pid in use (err=%v) leave Threads_running %+d after everything ended", err1 != nil, err2 != nil, leaked)
	r.Pinned(f8sig, what, leaked != 0 && err1 != nil && err2 != nil, map[string]any{"witness": "fresh ProcessList: BeginQuery(conn 77 never added) -> error; Add/Ready 78, 79; BeginQuery(78, pid 7002) ok; BeginQuery(79, pid 7002) -> ErrPidAlreadyUsed; EndQuery; Remove both", "Threads_running_delta": leaked})
	if leaked != 0 { // put the process-global counter back so that later deltas start clean
		sql.StatusVariables.IncrementGlobal("Threads_running", int(-leaked))
	}
	if err1 == nil || err2 == nil || errOK != nil {
		r.Violation("processlist:documented-error-call-accepted", map[string]any{"unregistered_err": fmt.Sprint(err1), "pid_in_use_err": fmt.Sprint(err2), "valid_err": fmt.Sprint(errOK)})
	}
}

func main() {
	r := core.NewRun("C37", "exploration",
		"part 1: each case is one concurrent history of ProcessList API calls by 2-5 goroutines following the documented call protocol, checked with porcupine against a sequential model (plus Threads_connected as its own counter and conservation of both counters at the end); part 2: server scenarios with real connections checking SHOW PROCESSLIST contents, KILL QUERY / KILL CONNECTION targeting and counter conservation; distinct = (part, operation, outcome class)")
	r.Assume("only protocol-conforming call sequences are generated (no RemoveConnection between a connection's own Begin and End, no nested queries); Threads_connected is incremented outside the list's mutex, so it is checked as a separate linearizable counter, not atomically with Processes()")
	r.Assume("bounded restatement of 'KILL takes effect': the killed statement (SLEEP(1000) or an astronomically long cross join) must return an error within a 120 s watchdog; a fired watchdog is inconclusive unless the scenario is stuck again twice when re-run alone")
	r.Extra("race_build", g4lib.RaceEnabled())

	eng := core.NewEng("c37db") // (unique name: foreign servers sharing the port reject the connect); also initialises the process-global status variables
	srv, err := eng.StartServer()
	if err != nil {
		r.Floor(false, "server did not start: "+err.Error())
		r.Finish()
	}
	verifhook.SetPerturb(true, uint64(r.Seed))
	pinnedF8(r)

	nAPI := r.N(500, 15000)
	var stalledAPI []apiHist
	r.Parallel("api", 1, func(int) {
		for i := 0; i < nAPI; i++ {
			h := genAPI(r.Rand("api", i), i)
			func() {
				defer func() {
					if rec := recover(); rec != nil {
						p := core.CapturePanic(rec)
						r.Violation(g4lib.Sig(p.Sig()), map[string]any{"history": h, "panic": p.Value, "stack": core.Clip(p.Stack, 3000)})
					}
				}()
				o := runAPI(h)
				if o.stalled {
					r.Inconclusive("watchdog:api")
					stalledAPI = append(stalledAPI, h)
					return
				}
				judgeAPI(r, h, o)
			}()
		}
	})
	for k, h := range stalledAPI {
		if k >= 2 {
			break
		}
		if runAPI(h).stalled && runAPI(h).stalled {
			r.Violation("processlist:call-never-returned", map[string]any{"history": h, "what": "the history did not finish within the watchdog three times"})
		}
	}

	serverScenarios(r, eng, srv)
	srv.Close()

	g4lib.ReportRaces(r, nil)
	hits := verifhook.Counters()
	r.Count("hook.processlist.enter", hits["processlist.enter"])
	r.Floor(g4lib.RaceEnabled(), "not a race build or no race log configured (run through ./check)")
	r.Floor(hits["processlist.enter"] > 0, "the process list's schedule point was never hit")
	r.Floor(r.Counter("api.histories-with-overlap") > 0, "no API history had overlapping calls")
	r.Floor(r.Counter("api.error-calls") > 0, "no documented error call was exercised")
	r.Floor(r.Counter("api.kill-observed-during-query") > 0, "no Kill was ever observed by a running query's context")
	r.Floor(r.Counter("api.processes-saw-running-query") > 0, "Processes() never saw a running query")
	r.Floor(r.Counter("server.kill-query.interrupted") > 0, "KILL QUERY never interrupted a statement")
	r.Floor(r.Counter("server.kill-connection.closed") > 0, "KILL CONNECTION never closed a connection")
	r.Floor(r.Counter("server.processlist.checked") > 0, "SHOW PROCESSLIST was never checked")
	r.Finish()
}
