package main

import (
	"context"
	dsql "database/sql"
	"fmt"
	"strings"
	"time"

	"verif/harness/core"
	"verif/harness/g4lib"
)

type wconn struct {
	db   *dsql.DB
	conn *dsql.Conn
	id   int64
	role string // idle sleeper joiner
	stmt string // the blocking statement
	done chan error
	stop context.CancelFunc // aborts the blocking statement client-side (the driver drops the connection)
}

func openConn(srv *core.Srv) (*wconn, error) {
	db, err := srv.Open("root", "", "")
	if err != nil {
		return nil, err
	}
	ctx, cancel := context.WithTimeout(context.Background(), watchdog)
	defer cancel()
	conn, err := db.Conn(ctx)
	if err != nil {
		db.Close()
		return nil, err
	}
	w := &wconn{db: db, conn: conn}
	if err := conn.QueryRowContext(ctx, "SELECT CONNECTION_ID()").Scan(&w.id); err != nil {
		w.close()
		return nil, err
	}
	return w, nil
}

func (w *wconn) close() { w.conn.Close(); w.db.Close() }

// scalar runs a one-value statement under the watchdog. stalled=true when the watchdog fired.
func (w *wconn) scalar(q string) (val dsql.NullString, err error, stalled bool) {
	ctx, cancel := context.WithTimeout(context.Background(), watchdog)
	defer cancel()
	err = w.conn.QueryRowContext(ctx, q).Scan(&val)
	return val, err, err != nil && ctx.Err() != nil
}

func (w *wconn) exec(q string) (error, bool) {
	ctx, cancel := context.WithTimeout(context.Background(), watchdog)
	defer cancel()
	_, err := w.conn.ExecContext(ctx, q)
	return err, err != nil && ctx.Err() != nil
}

type plRow struct {
	id      int64
	command string
	info    dsql.NullString
}

func (w *wconn) processlist(full bool) ([]plRow, error) {
	q := "SHOW PROCESSLIST"
	if full {
		q = "SHOW FULL PROCESSLIST"
	}
	ctx, cancel := context.WithTimeout(context.Background(), watchdog)
	defer cancel()
	rows, err := w.conn.QueryContext(ctx, q)
	if err != nil {
		return nil, err
	}
	defer rows.Close()
	cols, _ := rows.Columns()
	var out []plRow
	for rows.Next() {
		vals := make([]dsql.NullString, len(cols))
		ptrs := make([]any, len(cols))
		for i := range vals {
			ptrs[i] = &vals[i]
		}
		if err := rows.Scan(ptrs...); err != nil {
			return nil, err
		}
		var r plRow
		for i, c := range cols {
			switch strings.ToLower(c) {
			case "id":
				fmt.Sscan(vals[i].String, &r.id)
			case "command":
				r.command = vals[i].String
			case "info":
				r.info = vals[i]
			}
		}
		out = append(out, r)
	}
	return out, rows.Err()
}

type scenario struct {
	Case    int      `json:"case"`
	Roles   []string `json:"roles"`
	KillQ   int      `json:"kill_query_target"`      // index into workers, -1 none
	KillC   int      `json:"kill_connection_target"` // index into workers, -1 none
	KillKW  string   `json:"kill_connection_syntax"`
	Full    bool     `json:"show_full"`
	IdleKQ  bool     `json:"kill_query_on_idle_first"`
}

func genScenario(rnd interface{ Intn(int) int }, idx int) scenario {
	sc := scenario{Case: idx, KillQ: -1, KillC: -1, Full: rnd.Intn(2) == 0, IdleKQ: rnd.Intn(3) == 0}
	n := 2 + rnd.Intn(3)
	var blocked []int
	for i := 0; i < n; i++ {
		role := []string{"idle", "sleeper", "sleeper", "joiner"}[rnd.Intn(4)]
		if i == 0 {
			role = "sleeper"
		}
		if i == 1 {
			role = "idle"
		}
		sc.Roles = append(sc.Roles, role)
		if role != "idle" {
			blocked = append(blocked, i)
		}
	}
	sc.KillQ = blocked[rnd.Intn(len(blocked))]
	sc.KillC = rnd.Intn(n)
	sc.KillKW = []string{"KILL CONNECTION", "KILL"}[rnd.Intn(2)]
	return sc
}

// infoMatches: the Info column shows the statement; without FULL MySQL shows its first 100 characters,
// so either rendering is accepted there.
func infoMatches(info, stmt string, full bool) bool {
	if info == stmt {
		return true
	}
	return !full && len(stmt) > 100 && info == stmt[:100]
}

const longJoin = "SELECT COUNT(*) FROM big a JOIN big b JOIN big c JOIN big d WHERE a.id + b.id + c.id + d.id < 0"

// runScenario returns the violations found (sig -> detail) and, if a watchdog fired, the stage.
func runScenario(r *core.Run, eng *core.Eng, srv *core.Srv, sc scenario) (vio map[string]string, stuck string, incon string) {
	vio = map[string]string{}
	pl := eng.E.ProcessList
	waitEmpty := func() bool {
		deadline := time.Now().Add(watchdog)
		for len(pl.Processes()) > 0 {
			if time.Now().After(deadline) {
				return false
			}
			time.Sleep(time.Millisecond)
		}
		return true
	}
	if !waitEmpty() {
		return vio, "connections-of-earlier-scenario-never-removed", ""
	}
	conn0, _ := g4lib.StatusUint("Threads_connected")
	run0, _ := g4lib.StatusUint("Threads_running")

	ctl, err := openConn(srv)
	if err != nil {
		return vio, "", "connect"
	}
	var workers []*wconn
	all := []*wconn{ctl}
	defer func() {
		// on an early return statements may still be blocked: abort them first, (*sql.Conn).Close waits for them
		for _, w := range all {
			if w.stop != nil {
				w.stop()
			}
		}
		for _, w := range all {
			w.close()
		}
	}()
	for i, role := range sc.Roles {
		w, err := openConn(srv)
		if err != nil {
			return vio, "", "connect"
		}
		w.role = role
		switch role {
		case "sleeper":
			w.stmt = fmt.Sprintf("SELECT SLEEP(%d)", 1000+i) // distinct texts: cross-talk in Info is visible
		case "joiner":
			w.stmt = fmt.Sprintf("%s /* w%d */", longJoin, i)
		}
		workers = append(workers, w)
		all = append(all, w)
	}
	for _, w := range workers {
		if w.stmt != "" {
			w.done = make(chan error, 1)
			bctx, stop := context.WithCancel(context.Background())
			w.stop = stop
			go func(w *wconn) {
				var v dsql.NullString
				w.done <- w.conn.QueryRowContext(bctx, w.stmt).Scan(&v)
			}(w)
		}
	}
	byID := map[int64]*wconn{}
	for _, w := range all {
		byID[w.id] = w
	}
	returned := func(w *wconn) (bool, error) {
		select {
		case err := <-w.done:
			w.done <- err
			return true, err
		default:
			return false, nil
		}
	}
	showStmt := "SHOW PROCESSLIST"
	if sc.Full {
		showStmt = "SHOW FULL PROCESSLIST"
	}
	// checkRows: what may be asserted on EVERY observation. want: connection id -> expected picture.
	checkRows := func(rows []plRow, open map[int64]bool) {
		seen := map[int64]bool{}
		for _, row := range rows {
			if seen[row.id] {
				vio["server:processlist-duplicate-connection"] = fmt.Sprintf("connection %d listed twice", row.id)
			}
			seen[row.id] = true
			w := byID[row.id]
			if w == nil || !open[row.id] {
				vio["server:processlist-shows-unknown-connection"] = fmt.Sprintf("row for connection %d which is not one of the open connections", row.id)
				continue
			}
			if row.command == "Query" && row.info.Valid && row.info.String != "" {
				allowed := map[string]bool{w.stmt: w.stmt != "", "SELECT CONNECTION_ID()": true, "SELECT 41 + 1": true, "SELECT 1": true}
				if w == ctl {
					allowed = map[string]bool{showStmt: true}
					for _, k := range []string{"KILL QUERY", "KILL CONNECTION", "KILL"} {
						for id := range byID {
							allowed[fmt.Sprintf("%s %d", k, id)] = true
						}
					}
				}
				okInfo := allowed[row.info.String]
				for a, on := range allowed {
					if on && infoMatches(row.info.String, a, sc.Full) {
						okInfo = true
					}
				}
				if !okInfo {
					vio["server:processlist-shows-another-statement"] = fmt.Sprintf("connection %d is shown running %q, which it never sent", row.id, row.info.String)
				}
			}
		}
		for id := range open {
			if !seen[id] {
				vio["server:processlist-misses-open-connection"] = fmt.Sprintf("open connection %d is not listed", id)
			}
		}
	}
	// pollUntil polls SHOW PROCESSLIST until the expected command/info picture of every open connection is shown.
	pollUntil := func(open map[int64]bool, stage string) bool {
		deadline := time.Now().Add(watchdog)
		for {
			rows, err := ctl.processlist(sc.Full)
			if err != nil {
				incon = "show-processlist-failed:" + core.StripVolatile(err.Error())
				return false
			}
			r.Count("server.processlist.polls", 1)
			checkRows(rows, open)
			okAll := true
			for _, row := range rows {
				w := byID[row.id]
				if w == nil || w == ctl {
					continue
				}
				done := false
				if w.done != nil {
					done, _ = returned(w)
				}
				if w.stmt != "" && !done {
					if !(row.command == "Query" && infoMatches(row.info.String, w.stmt, sc.Full)) {
						okAll = false
					}
				} else if row.command != "Sleep" {
					okAll = false
				}
			}
			if okAll && len(rows) == len(open) {
				r.Count("server.processlist.checked", 1)
				return true
			}
			if time.Now().After(deadline) {
				stuck = stage
				return false
			}
			time.Sleep(2 * time.Millisecond)
		}
	}
	open := map[int64]bool{}
	for _, w := range all {
		open[w.id] = true
	}
	if !pollUntil(open, "processlist-never-shows-the-blocked-statements") {
		return
	}
	waitReturn := func(w *wconn, stage string) (error, bool) {
		select {
		case err := <-w.done:
			w.done <- err
			return err, true
		case <-time.After(watchdog):
			stuck = stage
			return nil, false
		}
	}
	ended := map[*wconn]bool{} // workers whose blocking statement was ended by a KILL aimed at them
	othersUntouched := func(except *wconn, after string) {
		for _, w := range workers {
			if w == except || w.done == nil || !open[w.id] || ended[w] {
				continue
			}
			if done, err := returned(w); done {
				vio["server:kill-hit-another-connection"] = fmt.Sprintf("%s: connection %d (not the target) had its statement %q end with %v", after, w.id, w.stmt, err)
			}
		}
	}

	// KILL QUERY on an idle connection first: must not affect its next statement
	if sc.IdleKQ {
		for _, w := range workers {
			if w.role == "idle" {
				if err, st := ctl.exec(fmt.Sprintf("KILL QUERY %d", w.id)); st {
					stuck = "kill-statement-itself-hangs"
					return
				} else if err != nil {
					incon = "kill-query-rejected:" + core.StripVolatile(err.Error())
					return
				}
				v, err, st := w.scalar("SELECT 41 + 1")
				if st {
					stuck = "statement-after-kill-on-idle-hangs"
					return
				}
				if err != nil || v.String != "42" {
					vio["server:kill-query-on-idle-breaks-next-statement"] = fmt.Sprintf("connection %d: SELECT 41 + 1 after KILL QUERY while idle -> %v, %v", w.id, v, err)
				}
				r.Count("server.kill-query.on-idle", 1)
				break
			}
		}
	}

	// KILL naming ids that no connection has (beyond 32 bits with a live connection's id in the low bits, and a
	// plain unused one): whatever the statement answers, no connection's statement may end
	tq := workers[sc.KillQ]
	for _, q := range []string{fmt.Sprintf("KILL QUERY %d", uint64(tq.id)+1<<32), fmt.Sprintf("KILL CONNECTION %d", uint64(tq.id)+1<<33),
		fmt.Sprintf("KILL QUERY %d", uint64(workers[0].id)+3<<32), "KILL QUERY 987654"} {
		if _, st := ctl.exec(q); st {
			stuck = "kill-statement-itself-hangs"
			return
		}
		r.Count("server.kill.unused-id", 1)
	}
	time.Sleep(150 * time.Millisecond)
	othersUntouched(nil, "after KILL statements naming ids no connection has")
	if len(vio) > 0 {
		return
	}

	// KILL QUERY on a blocked statement
	if err, st := ctl.exec(fmt.Sprintf("KILL QUERY %d", tq.id)); st {
		stuck = "kill-statement-itself-hangs"
		return
	} else if err != nil {
		incon = "kill-query-rejected:" + core.StripVolatile(err.Error())
		return
	}
	qerr, ok := waitReturn(tq, "kill-query-did-not-interrupt:"+tq.role)
	if !ok {
		return
	}
	if qerr == nil {
		vio["server:killed-statement-returned-success"] = fmt.Sprintf("%q on connection %d returned without error after KILL QUERY", tq.stmt, tq.id)
	} else {
		r.Count("server.kill-query.interrupted", 1)
		r.Distinct("server|kill-query|" + tq.role + "|" + core.StripVolatile(qerr.Error()))
	}
	ended[tq] = true
	othersUntouched(tq, "after KILL QUERY")
	v, err, st := tq.scalar("SELECT 41 + 1")
	if st {
		stuck = "statement-after-kill-query-hangs"
		return
	}
	if err != nil || v.String != "42" {
		vio["server:kill-query-affects-next-statement"] = fmt.Sprintf("connection %d: SELECT 41 + 1 after its query was killed -> %v, %v", tq.id, v, err)
	}
	if !pollUntil(open, "processlist-never-settles-after-kill-query") {
		return
	}

	// KILL CONNECTION
	tc := workers[sc.KillC]
	if err, st := ctl.exec(fmt.Sprintf("%s %d", sc.KillKW, tc.id)); st {
		stuck = "kill-statement-itself-hangs"
		return
	} else if err != nil {
		incon = "kill-connection-rejected:" + core.StripVolatile(err.Error())
		return
	}
	if tc.done != nil {
		if done, _ := returned(tc); !done {
			cerr, ok := waitReturn(tc, "kill-connection-did-not-interrupt:"+tc.role)
			if !ok {
				return
			}
			if cerr == nil {
				vio["server:killed-statement-returned-success"] = fmt.Sprintf("%q on connection %d returned without error after %s", tc.stmt, tc.id, sc.KillKW)
			}
		}
	}
	ended[tc] = true
	delete(open, tc.id)
	// the connection is gone: it disappears from the process list and refuses further statements
	deadline := time.Now().Add(watchdog)
	for {
		gone := true
		for _, p := range pl.Processes() {
			if int64(p.Connection) == tc.id {
				gone = false
			}
		}
		if gone {
			break
		}
		if time.Now().After(deadline) {
			stuck = "killed-connection-stays-in-process-list"
			return
		}
		time.Sleep(time.Millisecond)
	}
	if _, err, _ := tc.scalar("SELECT 1"); err == nil {
		vio["server:killed-connection-still-usable"] = fmt.Sprintf("connection %d executed SELECT 1 after %s", tc.id, sc.KillKW)
	} else {
		r.Count("server.kill-connection.closed", 1)
		r.Distinct("server|kill-connection|" + tc.role)
	}
	othersUntouched(tc, "after "+sc.KillKW)
	for _, w := range workers {
		if w != tc && (w.done == nil || w == tq) {
			v, err, st := w.scalar("SELECT 1")
			if st {
				stuck = "statement-on-untargeted-connection-hangs"
				return
			}
			if err != nil || v.String != "1" {
				vio["server:kill-connection-hit-another-connection"] = fmt.Sprintf("connection %d (not the target): SELECT 1 -> %v, %v", w.id, v, err)
			}
		}
	}
	if !pollUntil(open, "processlist-never-settles-after-kill-connection") {
		return
	}

	// clean up: interrupt what is still blocked, close everything, conservation
	for _, w := range workers {
		if w.done != nil && open[w.id] {
			if done, _ := returned(w); !done {
				if err, st := ctl.exec(fmt.Sprintf("KILL QUERY %d", w.id)); st || err != nil {
					stuck = "kill-statement-itself-hangs"
					return
				}
				if _, ok := waitReturn(w, "kill-query-did-not-interrupt:"+w.role); !ok {
					return
				}
			}
		}
	}
	for _, w := range all {
		w.close()
	}
	if !waitEmpty() {
		stuck = "closed-connections-never-removed"
		return
	}
	conn1, _ := g4lib.StatusUint("Threads_connected")
	run1, _ := g4lib.StatusUint("Threads_running")
	if conn1 != conn0 {
		vio["server:Threads_connected-not-conserved"] = fmt.Sprintf("Threads_connected %d before, %d after all clients closed", conn0, conn1)
	}
	if run1 != run0 || run1 != 0 {
		vio["server:Threads_running-not-conserved"] = fmt.Sprintf("Threads_running %d before, %d after all clients closed", run0, run1)
	}
	return
}

func serverScenarios(r *core.Run, eng *core.Eng, srv *core.Srv) {
	s := eng.NewSess()
	s.MustExec("CREATE TABLE big (id INT PRIMARY KEY)")
	var b strings.Builder
	b.WriteString("INSERT INTO big VALUES ")
	for i := 0; i < 3000; i++ {
		if i > 0 {
			b.WriteString(",")
		}
		fmt.Fprintf(&b, "(%d)", i)
	}
	s.MustExec(b.String())
	n := r.N(30, 400)
	reruns, stalls := 0, 0
	r.Parallel("server", 1, func(int) {
		for i := 0; i < n; i++ {
			if stalls >= 3 { // every stall costs a full watchdog: stop after three, the rest stays unexamined
				r.Inconclusive("server-scenarios-skipped-after-repeated-stalls")
				continue
			}
			sc := genScenario(r.Rand("server", i), i)
			vio, stuck, incon := runScenario(r, eng, srv, sc)
			if stuck != "" {
				stalls++
			}
			if stuck != "" && len(vio) > 0 {
				// something was already refuted before the stage got stuck: report that, do not wait again
				for sig, detail := range vio {
					r.Violation(sig, map[string]any{"scenario": sc, "seed": r.Seed, "detail": detail, "then_stuck_at": stuck})
				}
				r.Inconclusive("watchdog:" + stuck)
				continue
			}
			if stuck != "" {
				r.Inconclusive("watchdog:" + stuck)
				// bounded progress: stuck twice more, alone (scenarios always run alone), at the same stage =
				// violation. At most two scenarios are re-examined so that the run stays bounded.
				if reruns < 2 {
					reruns++
					_, s2, _ := runScenario(r, eng, srv, sc)
					_, s3, _ := runScenario(r, eng, srv, sc)
					if s2 == stuck && s3 == stuck {
						r.Violation("server:stuck:"+stuck, map[string]any{"scenario": sc, "seed": r.Seed, "what": "the stage did not complete within the watchdog three times in a row"})
					}
				}
				continue
			}
			if incon != "" {
				r.Inconclusive(incon)
				continue
			}
			r.Eval(6)
			r.Count("server.scenarios", 1)
			for sig, detail := range vio {
				r.Violation(sig, map[string]any{"scenario": sc, "seed": r.Seed, "detail": detail})
			}
			if i < 2 {
				r.Sample(map[string]any{"scenario": sc, "checked": "SHOW PROCESSLIST contents at every poll; KILL QUERY interrupts only the target and the next statement works; KILL CONNECTION closes only the target; counters conserved after all clients closed"})
			}
		}
	})
}
