package main

import (
	"context"
	"errors"
	"fmt"
	"net"

	"github.com/dolthub/vitess/go/mysql"
	"github.com/dolthub/vitess/go/sqltypes"

	sqle "github.com/dolthub/go-mysql-server"
	"github.com/dolthub/go-mysql-server/memory"
	"github.com/dolthub/go-mysql-server/server"
	"github.com/dolthub/go-mysql-server/sql"

	"verif/harness/core"
)

// handlerHistories drives the server's connection handler itself (the object the wire layer calls for every
// command) with sequential histories over a few connections: GET_LOCK / RELEASE_LOCK / RELEASE_ALL_LOCKS /
// IS_FREE_LOCK / IS_USED_LOCK, COM_RESET_CONNECTION and disconnects. The go-sql-driver never sends
// COM_RESET_CONNECTION, so this is the only route to the session-reset path. One goroutine, so the model is
// exact: a lock is (owner, count); a reset or a disconnect releases everything the connection holds.

type hAddr struct{}

func (hAddr) Network() string { return "tcp" }
func (hAddr) String() string  { return "localhost:0" }

type hConn struct{ net.Conn }

func (*hConn) Close() error         { return nil }
func (*hConn) RemoteAddr() net.Addr { return hAddr{} }
func (*hConn) LocalAddr() net.Addr  { return hAddr{} }

type hListener struct{ done chan struct{} }

func (l *hListener) Accept() (net.Conn, error) { <-l.done; return nil, errors.New("listener closed") }
func (l *hListener) Close() error {
	select {
	case <-l.done:
	default:
		close(l.done)
	}
	return nil
}
func (l *hListener) Addr() net.Addr { return hAddr{} }

func handlerHistories(r *core.Run) {
	n := r.N(60, 1500)
	db := memory.NewDatabase("c38hdb")
	pro := memory.NewDBProvider(db)
	engine := sqle.NewDefault(pro)
	defer engine.Close()
	var h mysql.Handler
	cfg := server.Config{Protocol: "tcp", Address: "localhost:0", Listener: &hListener{done: make(chan struct{})}, DisableConnectionWatcher: true}
	srv, err := server.NewServerWithHandler(cfg, engine, sql.NewContext, memory.NewSessionBuilder(pro), nil,
		func(inner mysql.Handler) (mysql.Handler, error) { h = inner; return inner, nil })
	if err != nil || h == nil {
		r.Inconclusive("handler-mode:server-construction-failed")
		return
	}
	defer srv.Close()
	nextID := uint32(5000)
	for i := 0; i < n; i++ {
		rnd := r.Rand("handler", i)
		type lk struct {
			owner uint32
			count int
		}
		model := map[string]*lk{}
		names := []string{fmt.Sprintf("h%d-a", i), fmt.Sprintf("h%d-b", i), fmt.Sprintf("h%d-c", i)}
		var log []string
		bad := func(what string, extra map[string]any) {
			w := map[string]any{"case": i, "history": log, "what": what}
			for k, v := range extra {
				w[k] = v
			}
			r.Violation("handler:"+what, w)
		}
		newConn := func() *mysql.Conn {
			nextID++
			c := &mysql.Conn{ConnectionID: nextID, Conn: &hConn{}}
			h.NewConnection(c)
			if err := h.ComInitDB(c, "c38hdb"); err != nil {
				return nil
			}
			return c
		}
		query := func(c *mysql.Conn, q string) (string, bool) {
			out, rows := "", 0
			err := h.ComQuery(context.Background(), c, q, func(res *sqltypes.Result, more bool) error {
				for _, row := range res.Rows {
					rows++
					if row[0].IsNull() {
						out = "NULL"
					} else {
						out = row[0].ToString()
					}
				}
				return nil
			})
			log = append(log, fmt.Sprintf("conn %d: %s -> %s err=%v", c.ConnectionID, q, out, err))
			return out, err == nil && rows == 1
		}
		releaseAll := func(id uint32) int {
			k := 0
			for _, nm := range names {
				if l := model[nm]; l != nil && l.owner == id {
					k++
					delete(model, nm)
				}
			}
			return k
		}
		conns := []*mysql.Conn{newConn(), newConn(), newConn()}
		ok := conns[0] != nil && conns[1] != nil && conns[2] != nil
		if !ok {
			r.Inconclusive("handler-mode:connection-setup-failed")
			continue
		}
		steps := 12 + rnd.Intn(14)
		failed := false
		for s := 0; s < steps && !failed; s++ {
			ci := rnd.Intn(len(conns))
			c := conns[ci]
			nm := names[rnd.Intn(len(names))]
			l := model[nm]
			expect := func(q, want, what string) {
				got, fine := query(c, q)
				r.Eval(1)
				if !fine || got != want {
					bad(what, map[string]any{"statement": q, "connection": c.ConnectionID, "got": got, "want": want})
					failed = true
				}
			}
			switch op := rnd.Intn(100); {
			case op < 30:
				want := "0"
				if l == nil || l.owner == c.ConnectionID {
					want = "1"
				}
				expect(fmt.Sprintf("SELECT GET_LOCK('%s', 0)", nm), want, "get_lock-outcome")
				if want == "1" && !failed {
					if l == nil {
						model[nm] = &lk{c.ConnectionID, 1}
					} else {
						l.count++
					}
				}
			case op < 45:
				want := "NULL"
				if l != nil {
					want = "0"
					if l.owner == c.ConnectionID {
						want = "1"
					}
				}
				got, fine := query(c, fmt.Sprintf("SELECT RELEASE_LOCK('%s')", nm))
				r.Eval(1)
				// a name nobody holds reports NULL (never existed) or 0 (exists, free): one class
				if !fine || (got != want && !(l == nil && (got == "0" || got == "NULL"))) {
					bad("release_lock-outcome", map[string]any{"connection": c.ConnectionID, "name": nm, "got": got, "want": want})
					failed = true
				}
				if l != nil && l.owner == c.ConnectionID && !failed {
					if l.count--; l.count == 0 {
						delete(model, nm)
					}
				}
			case op < 60:
				want := "1"
				if l != nil {
					want = "0"
				}
				expect(fmt.Sprintf("SELECT IS_FREE_LOCK('%s')", nm), want, "is_free_lock-outcome")
			case op < 72:
				want := "NULL"
				if l != nil {
					want = fmt.Sprint(l.owner)
				}
				expect(fmt.Sprintf("SELECT IS_USED_LOCK('%s')", nm), want, "is_used_lock-outcome")
			case op < 80:
				held, acq := 0, 0
				for _, x := range names {
					if m := model[x]; m != nil && m.owner == c.ConnectionID {
						held++
						acq += m.count
					}
				}
				got, fine := query(c, "SELECT RELEASE_ALL_LOCKS()")
				r.Eval(1)
				if !fine || (got != fmt.Sprint(held) && got != fmt.Sprint(acq)) {
					bad("release_all_locks-count", map[string]any{"connection": c.ConnectionID, "got": got, "names_held": held, "acquisitions": acq})
					failed = true
				}
				releaseAll(c.ConnectionID)
			case op < 91:
				// COM_RESET_CONNECTION: the session ends, the connection lives on with a fresh one
				err := h.ComResetConnection(c)
				log = append(log, fmt.Sprintf("conn %d: COM_RESET_CONNECTION err=%v", c.ConnectionID, err))
				r.Eval(1)
				r.Count("handler.resets", 1)
				if err != nil {
					bad("reset-connection-failed", map[string]any{"connection": c.ConnectionID, "error": err.Error()})
					failed = true
				}
				if releaseAll(c.ConnectionID) > 0 {
					r.Count("handler.resets-while-holding-locks", 1)
				}
			default:
				h.ConnectionClosed(c)
				log = append(log, fmt.Sprintf("conn %d: disconnect", c.ConnectionID))
				r.Count("handler.disconnects", 1)
				releaseAll(c.ConnectionID)
				conns[ci] = newConn()
				if conns[ci] == nil {
					r.Inconclusive("handler-mode:connection-setup-failed")
					failed = true
				}
			}
		}
		// everyone leaves; a fresh connection must find every name free and be able to take it
		for _, c := range conns {
			if c != nil {
				h.ConnectionClosed(c)
			}
		}
		if !failed {
			fc := newConn()
			if fc != nil {
				for _, nm := range names {
					got, fine := query(fc, fmt.Sprintf("SELECT GET_LOCK('%s', 0)", nm))
					r.Eval(1)
					if !fine || got != "1" {
						bad("lock-held-after-every-holder-left", map[string]any{"name": nm, "got": got})
						break
					}
				}
				h.ConnectionClosed(fc)
			}
			r.Distinct(fmt.Sprintf("handler-history|steps=%d", steps/4))
		}
		if i == 0 {
			r.Sample(map[string]any{"mode": "handler", "history": core.ClipStrings(log, 12)})
		}
	}
	r.Floor(r.Counter("handler.resets-while-holding-locks") > 0, "no COM_RESET_CONNECTION was issued while the connection held a named lock")
}
