// C38 — named locks give mutual exclusion and are linearizable.
//
// Histories of lock operations issued by 2–6 concurrent sessions on 2–3 names are recorded at the
// client boundary (call stamp before invoking, return stamp after the reply, one logical clock) in
// three modes: the LockSubsystem Go API, the GET_LOCK family through in-process SQL sessions, and the
// same through real server connections that disconnect while holding locks. Oracles:
//  1. porcupine, partitioned by lock name, against the sequential model (owner, count) — existence is
//     NOT in the model, ReleaseAll/disconnect is decomposed into one release per name;
//  2. direct mutual exclusion: a per-name holder counter maintained by the sessions must never exceed 1;
//  3. program-order checks on a session's own holdings (re-entrant acquire succeeds, holder's unlock
//     succeeds, non-holder's unlock fails, own lock reported as held by self, ReleaseAll count);
//  4. existence is monotonic (no "does not exist" after a returned successful acquire);
//  5. bounded progress: a history that does not finish within the watchdog is inconclusive and re-run
//     alone twice; stuck both times = violation.
package main

import (
	"context"
	"fmt"
	"sort"
	"strings"
	"sync"
	"sync/atomic"
	"time"

	"github.com/dolthub/go-mysql-server/sql"
	"github.com/dolthub/go-mysql-server/verifhook"

	"verif/harness/core"
	"verif/harness/g4lib"
)

const porcupineTimeout = 60 * time.Second

var watchdog = 120 * time.Second // generous (shared box); a fired watchdog is never a verdict by itself

// plan is one planned operation of a session program.
type plan struct {
	Kind string `json:"kind"` // try lock0 lock2ms lockinf unlock relall state isfree disconnect
	Name int    `json:"name"`
}

type hist struct {
	Mode  string   `json:"mode"`
	Case  int      `json:"case"`
	Names []string `json:"names"`
	Progs [][]plan `json:"programs"`
}

// rec is one recorded operation plus what is not part of the model.
type rec struct {
	g4lib.LockOp
	NoExist bool `json:"noexist,omitempty"` // state read said LockDoesNotExist
}

type fail struct {
	Sig    string `json:"sig"`
	Detail string `json:"detail"`
}

// lockClient is one session in one of the three modes.
type lockClient interface {
	ID() int64
	Acquire(name, via string) (bool, error)
	Unlock(name string) (bool, error)
	ReleaseAll() (int, error)
	State(name string) (owner int64, noexist bool, err error)
	IsFree(name string) (free bool, supported bool, err error)
	Disconnect() error // server mode: close and wait until the server has finished the connection
}

var errStall = fmt.Errorf("watchdog")

// outcome of running one history
type outcome struct {
	ops     []rec
	fails   []fail
	stalled bool
	incon   string
	sids    []int64
}

func genHist(rnd interface{ Intn(int) int }, mode string, idx int, maxOps int) hist {
	ns := 2 + rnd.Intn(2)
	k := 2 + rnd.Intn(5)
	if mode == "server" {
		k = 2 + rnd.Intn(3)
	}
	h := hist{Mode: mode, Case: idx}
	pool := []string{"a", "b", "lock c", "L", "x_y"}
	for i := 0; i < ns; i++ {
		h.Names = append(h.Names, fmt.Sprintf("%s#%s%d", pool[(idx+i)%len(pool)], mode, idx)) // unique per history: engines are reused
	}
	per := maxOps / k
	if per < 3 {
		per = 3
	}
	for s := 0; s < k; s++ {
		n := 2 + rnd.Intn(per)
		var p []plan
		for i := 0; i < n; i++ {
			name := rnd.Intn(ns)
			if rnd.Intn(3) == 0 {
				name = 0 // a hot name
			}
			var kind string
			switch x := rnd.Intn(20); {
			case x < 4:
				kind = "try"
			case x < 6:
				kind = "lock0"
			case x < 8:
				kind = "lock2ms"
			case x < 11:
				kind = "lockinf"
			case x < 15:
				kind = "unlock"
			case x < 16:
				kind = "relall"
			case x < 19:
				kind = "state"
			default:
				kind = "isfree"
			}
			p = append(p, plan{kind, name})
		}
		if mode == "server" && rnd.Intn(2) == 0 {
			p = append(p, plan{"disconnect", 0})
		} else {
			p = append(p, plan{"relall", 0})
		}
		h.Progs = append(h.Progs, p)
	}
	return h
}

// runHist executes a history: one goroutine per session, released together.
func runHist(h hist, mk func(i int) (lockClient, error), final func() (lockClient, error)) outcome {
	var out outcome
	k := len(h.Progs)
	clients := make([]lockClient, k)
	for i := range clients {
		c, err := mk(i)
		if err != nil {
			out.incon = "client-setup:" + err.Error()
			return out
		}
		clients[i] = c
		out.sids = append(out.sids, c.ID())
	}
	clock := &g4lib.Clock{}
	holders := make([]atomic.Int32, len(h.Names))
	perSess := make([][]rec, k)
	perFail := make([][]fail, k)
	stalls := make([]atomic.Bool, k)
	start := make(chan struct{})
	var wg sync.WaitGroup
	for s := 0; s < k; s++ {
		wg.Add(1)
		go func(s int) {
			defer wg.Done()
			c := clients[s]
			own := make([]int, len(h.Names))
			tainted := false
			bad := func(sig, detail string) {
				if !tainted {
					perFail[s] = append(perFail[s], fail{sig, detail})
				}
				tainted = true
			}
			add := func(kind, via string, name int, call, ret int64, ok bool, owner int64, noexist bool) {
				perSess[s] = append(perSess[s], rec{LockOp: g4lib.LockOp{Client: s, Sess: c.ID(), Kind: kind, Via: via,
					Name: h.Names[name], Call: call, Ret: ret, OK: ok, Owner: owner}, NoExist: noexist})
			}
			releaseAllLike := func(via string, do func() (int, error)) bool {
				held, total := 0, 0
				for n := range own {
					if own[n] > 0 {
						held++
						total += own[n]
						holders[n].Add(-1)
						own[n] = 0
					}
				}
				call := clock.Tick()
				cnt, err := do()
				ret := clock.Tick()
				if err == errStall {
					stalls[s].Store(true)
					return false
				}
				if err != nil {
					bad("lock:unexpected-error:"+via, err.Error())
					return false
				}
				for n := range h.Names {
					add(g4lib.LRelAll, via, n, call, ret, true, 0, false)
				}
				if via == "relall" && cnt != held && cnt != total {
					bad("lock:releaseall-count", fmt.Sprintf("session %d held %d names (%d acquisitions) by its own program order, ReleaseAll returned %d", c.ID(), held, total, cnt))
				}
				return true
			}
			<-start
			for _, p := range h.Progs[s] {
				if stalls[s].Load() {
					break
				}
				n := p.Name
				name := h.Names[n]
				switch p.Kind {
				case "try", "lock0", "lock2ms", "lockinf":
					via := p.Kind
					if via == "lockinf" && own[n] == 0 {
						// deadlock avoidance: block only on a name above everything held
						for m := n; m < len(own); m++ {
							if own[m] > 0 {
								via = "try"
							}
						}
					}
					contended := via == "lockinf" && own[n] == 0 && holders[n].Load() > 0
					call := clock.Tick()
					ok, err := c.Acquire(name, via)
					ret := clock.Tick()
					if err == errStall {
						stalls[s].Store(true)
						continue
					}
					if err != nil {
						bad("lock:unexpected-error:acquire", err.Error())
						continue
					}
					v := via
					if contended && ok {
						v += "+waited"
					}
					add(g4lib.LAcquire, v, n, call, ret, ok, 0, false)
					if ok {
						own[n]++
						if own[n] == 1 {
							if c := holders[n].Add(1); c != 1 && !tainted {
								bad("lock:mutual-exclusion", fmt.Sprintf("lock %q: %d sessions inside after a successful acquire by session %d", name, c, clients[s].ID()))
							}
						}
					} else if own[n] > 0 {
						bad("lock:reentrant-acquire-failed", fmt.Sprintf("session %d holds %q (count %d) and its %s failed", c.ID(), name, own[n], via))
					} else if via == "lockinf" {
						bad("lock:infinite-wait-returned-failure", fmt.Sprintf("session %d: untimed acquire of %q returned not-acquired", c.ID(), name))
					}
				case "unlock":
					had := own[n]
					if had == 1 {
						holders[n].Add(-1)
					}
					call := clock.Tick()
					ok, err := c.Unlock(name)
					ret := clock.Tick()
					if err == errStall {
						stalls[s].Store(true)
						continue
					}
					if err != nil {
						bad("lock:unexpected-error:unlock", err.Error())
						continue
					}
					add(g4lib.LUnlock, "unlock", n, call, ret, ok, 0, false)
					if ok && had == 0 {
						bad("lock:nonholder-unlock-succeeded", fmt.Sprintf("session %d does not hold %q but its unlock succeeded", c.ID(), name))
					} else if !ok && had > 0 {
						bad("lock:holder-unlock-failed", fmt.Sprintf("session %d holds %q (count %d) but its unlock failed", c.ID(), name, had))
					} else if ok {
						own[n]--
					}
				case "relall":
					releaseAllLike("relall", c.ReleaseAll)
				case "disconnect":
					releaseAllLike("disconnect", func() (int, error) { return 0, c.Disconnect() })
				case "state":
					call := clock.Tick()
					owner, noexist, err := c.State(name)
					ret := clock.Tick()
					if err == errStall {
						stalls[s].Store(true)
						continue
					}
					if err != nil {
						bad("lock:unexpected-error:state", err.Error())
						continue
					}
					add(g4lib.LState, "state", n, call, ret, owner != 0, owner, noexist)
					if own[n] > 0 && owner != c.ID() {
						bad("lock:state-misreports-own-lock", fmt.Sprintf("session %d holds %q but the state read says owner=%d", c.ID(), name, owner))
					}
				case "isfree":
					call := clock.Tick()
					free, supported, err := c.IsFree(name)
					ret := clock.Tick()
					if err == errStall {
						stalls[s].Store(true)
						continue
					}
					if err != nil {
						bad("lock:unexpected-error:isfree", err.Error())
						continue
					}
					if !supported {
						continue
					}
					add(g4lib.LIsFree, "isfree", n, call, ret, free, 0, false)
					if own[n] > 0 && free {
						bad("lock:state-misreports-own-lock", fmt.Sprintf("session %d holds %q but IS_FREE_LOCK says free", c.ID(), name))
					}
				}
			}
		}(s)
	}
	done := make(chan struct{})
	go func() { wg.Wait(); close(done) }()
	close(start)
	select {
	case <-done:
	case <-time.After(watchdog):
		out.stalled = true
		return out // session slices are still being written: not read
	}
	for s := 0; s < k; s++ {
		if stalls[s].Load() {
			out.stalled = true
		}
		out.ops = append(out.ops, perSess[s]...)
		out.fails = append(out.fails, perFail[s]...)
	}
	if out.stalled {
		return out
	}
	// every session has released everything (ReleaseAll or completed disconnect): a final reader must
	// see every name not held.
	if final != nil {
		fc, err := final()
		if err != nil {
			out.incon = "final-reader:" + err.Error()
			return out
		}
		for n, name := range h.Names {
			call := clock.Tick()
			owner, noexist, err := fc.State(name)
			ret := clock.Tick()
			if err != nil {
				out.incon = "final-reader:" + err.Error()
				return out
			}
			out.ops = append(out.ops, rec{LockOp: g4lib.LockOp{Client: k, Sess: fc.ID(), Kind: g4lib.LState, Via: "final-state",
				Name: h.Names[n], Call: call, Ret: ret, OK: owner != 0, Owner: owner}, NoExist: noexist})
			if owner != 0 {
				out.fails = append(out.fails, fail{"lock:held-after-all-released", fmt.Sprintf("lock %q still owned by %d after every session released all its locks or disconnected", name, owner)})
			}
		}
	}
	return out
}

// judge applies the offline oracles and records evidence.
func judge(r *core.Run, h hist, o outcome) {
	label := fmt.Sprintf("%s#%d", h.Mode, h.Case)
	if o.incon != "" {
		r.Inconclusive(h.Mode + ":" + core.StripVolatile(o.incon))
		return
	}
	wit := func(extra map[string]any) map[string]any {
		m := map[string]any{"history": label, "seed": r.Seed, "names": h.Names, "session_ids": o.sids, "programs": h.Progs, "ops": o.ops}
		for k, v := range extra {
			m[k] = v
		}
		return m
	}
	for _, f := range o.fails {
		r.Eval(1)
		r.Violation(f.Sig+":"+h.Mode, wit(map[string]any{"failure": f}))
	}
	ops := make([]g4lib.LockOp, len(o.ops))
	for i := range o.ops {
		ops[i] = o.ops[i].LockOp
	}
	// existence monotonicity
	firstAcq := map[string]int64{}
	for _, op := range o.ops {
		if op.Kind == g4lib.LAcquire && op.OK {
			if v, ok := firstAcq[op.Name]; !ok || op.Ret < v {
				firstAcq[op.Name] = op.Ret
			}
		}
	}
	for _, op := range o.ops {
		if op.Kind == g4lib.LState {
			if t, ok := firstAcq[op.Name]; ok && op.Call > t {
				r.Eval(1)
				if op.NoExist {
					r.Violation("lock:existence-regressed:"+h.Mode, wit(map[string]any{"name": op.Name, "read": op}))
				}
			}
		}
	}
	v := g4lib.CheckLockHistory(ops, porcupineTimeout)
	r.Eval(v.Parts - len(v.Unknown))
	r.Count("partitions.checked", int64(v.Parts))
	for range v.Unknown {
		r.Inconclusive("porcupine-timeout")
	}
	for _, n := range v.Illegal {
		r.Violation("lock:not-linearizable:"+h.Mode, wit(map[string]any{"name": n, "sub_history": g4lib.OpsOfName(ops, n)}))
	}
	// evidence: what kinds of operations were seen with which outcome, alone or overlapped
	ov := make([]bool, len(ops))
	for i := range ops {
		for j := range ops {
			if i != j && ops[i].Name == ops[j].Name && ops[i].Client != ops[j].Client && ops[i].Call < ops[j].Ret && ops[j].Call < ops[i].Ret {
				ov[i] = true
				break
			}
		}
	}
	reent := map[string]int{}
	sort.SliceStable(o.ops, func(i, j int) bool { return o.ops[i].Call < o.ops[j].Call })
	for i, op := range ops {
		res := "fail"
		if op.OK {
			res = "ok"
		}
		c := "alone"
		if ov[i] {
			c = "overlapped"
			r.Count("ops.overlapped", 1)
		}
		r.Distinct(fmt.Sprintf("%s|%s|%s|%s|%s", h.Mode, op.Kind, op.Via, res, c))
		r.Count("ops."+h.Mode, 1)
		switch {
		case op.Kind == g4lib.LAcquire && !op.OK:
			r.Count("acquire.refused", 1)
		case op.Kind == g4lib.LAcquire && strings.HasSuffix(op.Via, "+waited"):
			r.Count("acquire.waited-then-acquired", 1)
		case op.Kind == g4lib.LUnlock && !op.OK:
			r.Count("unlock.refused", 1)
		case op.Kind == g4lib.LState && op.Owner != 0 && op.Owner != op.Sess:
			r.Count("state.saw-other-holder", 1)
		}
	}
	for _, op := range o.ops {
		key := fmt.Sprintf("%d/%s", op.Client, op.Name)
		switch {
		case op.Kind == g4lib.LAcquire && op.OK:
			reent[key]++
			if reent[key] == 2 {
				r.Count("acquire.reentrant", 1)
			}
		case op.Kind == g4lib.LUnlock && op.OK:
			reent[key]--
		case op.Kind == g4lib.LRelAll:
			if reent[key] > 0 {
				r.Count("releaseall.released-a-held-name."+op.Via, 1)
			}
			reent[key] = 0
		}
	}
	r.Count("histories."+h.Mode, 1)
	if g4lib.Overlaps(ops) > 0 {
		r.Count("histories.with-overlap", 1)
	}
	if h.Case < 2 {
		r.Sample(map[string]any{"history": label, "names": h.Names, "sessions": len(h.Progs), "ops": len(ops), "partitions": v.Parts,
			"first_ops": firstN(o.ops, 6), "checked": "porcupine per name vs (owner,count) model; holder counter; program-order checks"})
	}
}

func firstN(a []rec, n int) []rec {
	if len(a) > n {
		return a[:n]
	}
	return a
}

// ---------- API mode ----------

type apiClient struct {
	ls  *sql.LockSubsystem
	ctx *sql.Context
	id  int64
}

func newAPIClient(ls *sql.LockSubsystem, id uint32) *apiClient {
	bs := sql.NewBaseSessionWithClientServer("verif", sql.Client{User: "root", Address: "localhost"}, id)
	return &apiClient{ls: ls, ctx: sql.NewContext(context.Background(), sql.WithSession(bs)), id: int64(id)}
}
func (c *apiClient) ID() int64 { return c.id }
func (c *apiClient) Acquire(name, via string) (bool, error) {
	var err error
	switch via {
	case "try":
		return c.ls.TryLock(c.ctx, name)
	case "lock0":
		err = c.ls.Lock(c.ctx, name, 0)
	case "lock2ms":
		err = c.ls.Lock(c.ctx, name, 2*time.Millisecond)
	default:
		err = c.ls.Lock(c.ctx, name, -1)
	}
	if err == nil {
		return true, nil
	}
	if sql.ErrLockTimeout.Is(err) {
		return false, nil
	}
	return false, err
}
func (c *apiClient) Unlock(name string) (bool, error) {
	err := c.ls.Unlock(c.ctx, name)
	if err == nil {
		return true, nil
	}
	if sql.ErrLockNotOwned.Is(err) || sql.ErrLockDoesNotExist.Is(err) {
		return false, nil // one outcome class
	}
	return false, err
}
func (c *apiClient) ReleaseAll() (int, error) { return c.ls.ReleaseAll(c.ctx) }
func (c *apiClient) State(name string) (int64, bool, error) {
	st, owner := c.ls.GetLockState(name)
	switch st {
	case sql.LockInUse:
		if owner == 0 {
			return 0, false, fmt.Errorf("LockInUse with owner 0")
		}
		return int64(owner), false, nil
	case sql.LockFree:
		return 0, false, nil
	case sql.LockDoesNotExist:
		return 0, true, nil
	}
	return 0, false, fmt.Errorf("unknown lock state %d", st)
}
func (c *apiClient) IsFree(name string) (bool, bool, error) { return false, false, nil }
func (c *apiClient) Disconnect() error                     { return fmt.Errorf("no disconnect in api mode") }

func runAPI(r *core.Run, h hist, rnd interface{ Intn(int) int }) outcome {
	ls := sql.NewLockSubsystem()
	ids := []uint32{1, 2, 3, 4, 5, 6, 7}
	if rnd.Intn(4) == 0 {
		ids[rnd.Intn(len(ids))] = 0xFFFFFFFF
	}
	off := uint32(rnd.Intn(1000)) * 7
	return runHist(h, func(i int) (lockClient, error) {
		id := ids[i]
		if id != 0xFFFFFFFF {
			id += off
		}
		return newAPIClient(ls, id), nil
	}, func() (lockClient, error) { return newAPIClient(ls, 999999), nil })
}

// ---------- SQL mode (in-process sessions) ----------

type sqlClient struct {
	s *core.Sess
}

func (c *sqlClient) ID() int64 { return int64(c.s.ID) }
func (c *sqlClient) one(q string) (val any, err error) {
	res := c.s.Exec(q)
	if res.TimedOut {
		return nil, errStall
	}
	if res.Panic != nil {
		return nil, fmt.Errorf("panic in %s: %s at %s", q, res.Panic.Value, res.Panic.Site)
	}
	if res.Err != nil {
		return nil, fmt.Errorf("%s: %v", q, res.Err)
	}
	if len(res.Rows) != 1 || len(res.Rows[0]) != 1 {
		return nil, fmt.Errorf("%s: %d rows", q, len(res.Rows))
	}
	return res.Rows[0][0], nil
}

func quote(name string) string { return "'" + strings.ReplaceAll(name, "'", "''") + "'" }

func sqlTimeout(via string) string {
	switch via {
	case "lockinf":
		return "-1"
	case "lock2ms":
		return "1" // seconds: the shortest positive timeout SQL can express
	}
	return "0"
}

func asInt(v any) (int64, bool) {
	if v == nil {
		return 0, false
	}
	var n int64
	if _, err := fmt.Sscan(strings.Trim(core.Canon(v), "'"), &n); err != nil {
		return 0, false
	}
	return n, true
}

func (c *sqlClient) Acquire(name, via string) (bool, error) {
	v, err := c.one("SELECT GET_LOCK(" + quote(name) + ", " + sqlTimeout(via) + ")")
	if err != nil {
		return false, err
	}
	n, ok := asInt(v)
	if !ok || (n != 0 && n != 1) {
		return false, fmt.Errorf("GET_LOCK returned %s", core.Canon(v))
	}
	return n == 1, nil
}
func (c *sqlClient) Unlock(name string) (bool, error) {
	v, err := c.one("SELECT RELEASE_LOCK(" + quote(name) + ")")
	if err != nil {
		return false, err
	}
	n, ok := asInt(v)
	if !ok {
		return false, nil // NULL: lock does not exist — same class as not owned
	}
	if n != 0 && n != 1 {
		return false, fmt.Errorf("RELEASE_LOCK returned %s", core.Canon(v))
	}
	return n == 1, nil
}
func (c *sqlClient) ReleaseAll() (int, error) {
	v, err := c.one("SELECT RELEASE_ALL_LOCKS()")
	if err != nil {
		return 0, err
	}
	n, ok := asInt(v)
	if !ok {
		return 0, fmt.Errorf("RELEASE_ALL_LOCKS returned %s", core.Canon(v))
	}
	return int(n), nil
}
func (c *sqlClient) State(name string) (int64, bool, error) {
	v, err := c.one("SELECT IS_USED_LOCK(" + quote(name) + ")")
	if err != nil {
		return 0, false, err
	}
	n, ok := asInt(v)
	if !ok {
		return 0, false, nil
	}
	if n == 0 {
		return 0, false, fmt.Errorf("IS_USED_LOCK returned 0")
	}
	return n, false, nil
}
func (c *sqlClient) IsFree(name string) (bool, bool, error) {
	v, err := c.one("SELECT IS_FREE_LOCK(" + quote(name) + ")")
	if err != nil {
		return false, true, err
	}
	n, ok := asInt(v)
	if !ok || (n != 0 && n != 1) {
		return false, true, fmt.Errorf("IS_FREE_LOCK returned %s", core.Canon(v))
	}
	return n == 1, true, nil
}
func (c *sqlClient) Disconnect() error { return fmt.Errorf("no disconnect in sql mode") }

func runSQL(h hist) outcome {
	pe := <-pool
	defer func() { pool <- pe }()
	e := pe.eng
	return runHist(h, func(i int) (lockClient, error) { return &sqlClient{e.NewSess()}, nil },
		func() (lockClient, error) { return &sqlClient{e.NewSess()}, nil })
}

func main() {
	r := core.NewRun("C38", "exploration",
		"each case is one concurrent history of lock operations (2-6 sessions, 2-3 names) in one of three modes (LockSubsystem API, GET_LOCK family in-process, GET_LOCK family over server connections with disconnects); an evaluation is one per-name sub-history checked by porcupine against the (owner,count) model, or one direct mutual-exclusion / program-order / existence-monotonicity check; distinct = (mode, operation, how issued, outcome, overlapped-or-alone)")
	r.Assume("existence of a lock name is not part of the model (creation is published before the acquiring CAS); LockFree/LockDoesNotExist and ErrLockNotOwned/ErrLockDoesNotExist are one outcome class each")
	r.Assume("ReleaseAll and disconnect are decomposed into one release per name sharing the call/return interval; ReleaseAll's count may be the number of names or the number of acquisitions held")
	r.Assume("blocking acquires are only issued on a name above every name the session holds (no deadlock by construction); a history that does not finish within the 120 s watchdog is inconclusive unless it is stuck again twice when re-run alone")
	r.Extra("race_build", g4lib.RaceEnabled())
	// Engines are created one after the other before any concurrency: sqle.New re-initialises the
	// process-global status variables, which races with every other live engine (a harness artifact,
	// not lock behaviour). Histories use unique lock names, so reusing an engine is harmless.
	if err := makePool(16); err != nil {
		r.Inconclusive("server-start")
		r.Floor(false, "could not start the servers: "+err.Error())
		r.Finish()
	}
	verifhook.SetPerturb(true, uint64(r.Seed))

	var stalledMu sync.Mutex
	var stalled []hist
	stall := func(h hist) {
		r.Inconclusive("watchdog:" + h.Mode)
		stalledMu.Lock()
		stalled = append(stalled, h)
		stalledMu.Unlock()
	}

	t0 := time.Now()
	phase := func(name string) { // wall time per phase: evidence only
		r.Extra("phase_s."+name, time.Since(t0).Seconds())
		t0 = time.Now()
	}
	nAPI := r.N(2000, 30000)
	r.Parallel("api", nAPI, func(i int) {
		rnd := r.Rand("api", i)
		h := genHist(rnd, "api", i, 40)
		o := runAPI(r, h, rnd)
		if o.stalled {
			stall(h)
			return
		}
		judge(r, h, o)
	})
	phase("api")
	nSQL := r.N(250, 2000)
	r.Parallel("sql", nSQL, func(i int) {
		rnd := r.Rand("sql", i)
		h := genHist(rnd, "sql", i, 30)
		o := runSQL(h)
		if o.stalled {
			stall(h)
			return
		}
		judge(r, h, o)
	})
	phase("sql")
	nSrv := r.N(40, 200)
	r.Parallel("server", nSrv, func(i int) {
		rnd := r.Rand("server", i)
		h := genHist(rnd, "server", i, 24)
		o := runServer(h)
		if o.stalled {
			stall(h)
			return
		}
		judge(r, h, o)
	})

	phase("server")
	// bounded progress: re-run every stalled history alone, twice
	sort.Slice(stalled, func(i, j int) bool { return stalled[i].Mode+fmt.Sprint(stalled[i].Case) < stalled[j].Mode+fmt.Sprint(stalled[j].Case) })
	for k, h := range stalled {
		if k >= 3 { // the re-runs are sequential and each may wait for the watchdog: keep the run bounded
			break
		}
		stuck := 0
		for rep := 0; rep < 2; rep++ {
			var o outcome
			switch h.Mode {
			case "api":
				o = runAPI(r, h, r.Rand("api", h.Case))
			case "sql":
				o = runSQL(h)
			default:
				o = runServer(h)
			}
			if o.stalled {
				stuck++
			} else {
				judge(r, h, o)
			}
		}
		r.Eval(1)
		if stuck == 2 {
			r.Violation("lock:waiter-stuck:"+h.Mode, map[string]any{"history": fmt.Sprintf("%s#%d", h.Mode, h.Case), "seed": r.Seed, "names": h.Names, "programs": h.Progs,
				"what": "the history did not finish within the watchdog three times, twice of them running alone: a waiting acquire never got the lock although every holder releases"})
		}
	}

	handlerHistories(r)

	g4lib.ReportRaces(r, nil)
	hits := verifhook.Counters()
	for _, p := range []string{"lock.try.loaded", "lock.try.acquired", "lock.unlock.loaded", "lock.releaseall.loaded"} {
		r.Count("hook."+p, hits[p])
	}
	r.Floor(hits["lock.try.loaded"] > 0 && hits["lock.try.acquired"] > 0 && hits["lock.unlock.loaded"] > 0 && hits["lock.releaseall.loaded"] > 0, "a schedule point of the lock subsystem was never hit")
	r.Floor(r.Counter("acquire.refused") > 0, "no acquire was ever refused (no contention reached)")
	r.Floor(r.Counter("acquire.waited-then-acquired") > 0, "no waiting acquire ever obtained a lock that was held when it was called")
	r.Floor(r.Counter("acquire.reentrant") > 0, "no re-entrant acquire")
	r.Floor(r.Counter("unlock.refused") > 0, "no unlock by a non-holder")
	r.Floor(r.Counter("releaseall.released-a-held-name.relall") > 0, "ReleaseAll never released a held lock")
	r.Floor(r.Counter("releaseall.released-a-held-name.disconnect") > 0, "no disconnect while holding a lock")
	r.Floor(r.Counter("histories.with-overlap") > 0, "no history had overlapping operations on one name")
	r.Floor(r.Counter("histories.server") > 0 && r.Counter("histories.sql") > 0 && r.Counter("histories.api") > 0, "a mode produced no conclusive history")
	r.Finish()
}
