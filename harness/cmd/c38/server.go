package main

import (
	"context"
	dsql "database/sql"
	"fmt"
	"time"

	"verif/harness/core"
)

// srvClient is one real server connection (pinned *sql.Conn: no transparent reconnects).
type srvClient struct {
	eng  *core.Eng
	db   *dsql.DB
	conn *dsql.Conn
	id   int64
}

func openSrvClient(srv *core.Srv) (*srvClient, error) {
	db, err := srv.Open("root", "", "")
	if err != nil {
		return nil, err
	}
	ctx, cancel := context.WithTimeout(context.Background(), watchdog)
	defer cancel()
	conn, err := db.Conn(ctx)
	if err != nil {
		db.Close()
		return nil, err
	}
	c := &srvClient{eng: srv.Eng, db: db, conn: conn}
	var id int64
	if err := conn.QueryRowContext(ctx, "SELECT CONNECTION_ID()").Scan(&id); err != nil {
		conn.Close()
		db.Close()
		return nil, err
	}
	c.id = id
	return c, nil
}

func (c *srvClient) ID() int64 { return c.id }

func (c *srvClient) one(q string) (dsql.NullInt64, error) {
	ctx, cancel := context.WithTimeout(context.Background(), watchdog)
	defer cancel()
	var v dsql.NullInt64
	err := c.conn.QueryRowContext(ctx, q).Scan(&v)
	if err != nil {
		if ctx.Err() != nil {
			return v, errStall
		}
		return v, fmt.Errorf("%s: %v", q, err)
	}
	return v, nil
}

func (c *srvClient) Acquire(name, via string) (bool, error) {
	v, err := c.one("SELECT GET_LOCK(" + quote(name) + ", " + sqlTimeout(via) + ")")
	if err != nil {
		return false, err
	}
	if !v.Valid || (v.Int64 != 0 && v.Int64 != 1) {
		return false, fmt.Errorf("GET_LOCK returned %v", v)
	}
	return v.Int64 == 1, nil
}
func (c *srvClient) Unlock(name string) (bool, error) {
	v, err := c.one("SELECT RELEASE_LOCK(" + quote(name) + ")")
	if err != nil {
		return false, err
	}
	if !v.Valid {
		return false, nil
	}
	if v.Int64 != 0 && v.Int64 != 1 {
		return false, fmt.Errorf("RELEASE_LOCK returned %v", v)
	}
	return v.Int64 == 1, nil
}
func (c *srvClient) ReleaseAll() (int, error) {
	v, err := c.one("SELECT RELEASE_ALL_LOCKS()")
	if err != nil {
		return 0, err
	}
	if !v.Valid {
		return 0, fmt.Errorf("RELEASE_ALL_LOCKS returned NULL")
	}
	return int(v.Int64), nil
}
func (c *srvClient) State(name string) (int64, bool, error) {
	v, err := c.one("SELECT IS_USED_LOCK(" + quote(name) + ")")
	if err != nil {
		return 0, false, err
	}
	if !v.Valid {
		return 0, false, nil
	}
	if v.Int64 == 0 {
		return 0, false, fmt.Errorf("IS_USED_LOCK returned 0")
	}
	return v.Int64, false, nil
}
func (c *srvClient) IsFree(name string) (bool, bool, error) {
	v, err := c.one("SELECT IS_FREE_LOCK(" + quote(name) + ")")
	if err != nil {
		return false, true, err
	}
	if !v.Valid || (v.Int64 != 0 && v.Int64 != 1) {
		return false, true, fmt.Errorf("IS_FREE_LOCK returned %v", v)
	}
	return v.Int64 == 1, true, nil
}

// Disconnect closes the connection and returns once the server has finished it: the handler releases
// the session's locks before it removes the connection from the process list, so "absent from the
// process list" (read through the Go API, no SQL) is a sound return stamp for the implied ReleaseAll.
func (c *srvClient) Disconnect() error {
	c.conn.Close()
	c.db.Close()
	deadline := time.Now().Add(watchdog)
	for {
		present := false
		for _, p := range c.eng.E.ProcessList.Processes() {
			if int64(p.Connection) == c.id {
				present = true
			}
		}
		if !present {
			return nil
		}
		if time.Now().After(deadline) {
			return errStall
		}
		time.Sleep(200 * time.Microsecond)
	}
}

func (c *srvClient) close() {
	c.conn.Close()
	c.db.Close()
}

type pooled struct {
	eng *core.Eng
	srv *core.Srv
}

var pool chan *pooled

func makePool(n int) error {
	pool = make(chan *pooled, n)
	for i := 0; i < n; i++ {
		e := core.NewEng("c38db") // unique name: a foreign server sharing the port rejects the connect
		srv, err := e.StartServer()
		if err != nil {
			return err
		}
		pool <- &pooled{e, srv}
	}
	return nil
}

func runServer(h hist) outcome {
	pe := <-pool
	defer func() { pool <- pe }()
	srv := pe.srv
	var opened []*srvClient
	defer func() {
		for _, c := range opened {
			c.close()
		}
	}()
	mk := func(i int) (lockClient, error) {
		c, err := openSrvClient(srv)
		if err != nil {
			return nil, err
		}
		opened = append(opened, c)
		return c, nil
	}
	return runHist(h, mk, func() (lockClient, error) { return mk(-1) })
}
