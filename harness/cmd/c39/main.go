// C39 — privilege checks allow exactly what the grants permit.
// Oracle: a reference model of accounts, roles, role edges and privilege sets at the global / database / table /
// routine level (g11lib). A seeded history of CREATE/DROP USER/ROLE, GRANT, REVOKE, GRANT/REVOKE role is run by
// root; after every step a probe set of statements with an unambiguous privilege requirement is run as each
// account (in-process sessions, reused over the history so the per-session privilege cache must be invalidated)
// and allow / deny must equal the model; a denied statement must leave data, schema and accounts unchanged; SHOW
// GRANTS must list the model's grants.
package main

import (
	"fmt"
	"sort"
	"strings"

	"verif/harness/core"
	"verif/harness/g11lib"
)

type witness struct {
	Case      int      `json:"case"`
	History   []string `json:"history_sql_run_by_root"`
	Model     []string `json:"model_after_history"`
	Session   string   `json:"session_identity,omitempty"`
	Account   string   `json:"resolved_account,omitempty"`
	Statement string   `json:"statement,omitempty"`
	Expected  string   `json:"expected,omitempty"`
	Actual    string   `json:"actual,omitempty"`
	Detail    any      `json:"detail,omitempty"`
}

func main() {
	r := core.NewRun("C39", "exploration",
		"each evaluation is one (history prefix, session identity, probe statement) allow/deny outcome compared with the privilege model, one no-effect check of a denied statement, or one SHOW GRANTS comparison; distinct = (probe kind, expected outcome, level that supplies the deciding privilege, own grant / direct role / nested role)")
	r.Assume("granted roles are always active in this engine (SET ROLE does not parse), so the model unites the grants of every transitively granted role")
	r.Assume("global SUPER implies every privilege (documented in UserHasPrivileges); the generator grants SUPER only as part of ALL ON *.*")
	r.Assume("judged statements: SELECT (1-2 tables), INSERT VALUES, UPDATE SET const, DELETE without column reference, REPLACE, CREATE/DROP TABLE, ALTER ADD COLUMN (necessary ALTER, sufficient ALTER+CREATE+INSERT), CREATE INDEX, CREATE VIEW (necessary CREATE VIEW, sufficient +SELECT), CREATE TRIGGER, CALL, CREATE USER, GRANT (necessary priv+GRANT OPTION effective or UPDATE on mysql, sufficient both at one level)")
	r.Assume("domain exclusions (each replayed from a pinned witness): REVOKE ALL PRIVILEGES, GRANT OPTION only for accounts with global grants only; a database-level REVOKE that leaves no database-level privilege only for accounts without table/routine grants in that database; REVOKE ALL ON <level> only where the level holds no GRANT OPTION; no standing trigger in the fixture (DELETE without WHERE)")
	r.Assume("session identities are the account's literal host, or a non-local host for '%' accounts; accounts use hosts '%' and 'localhost' only (host-pattern overlap is C40's subject)")

	nHist := r.N(220, 4000)
	steps := 15
	r.Parallel("history", nHist, func(i int) { runHistory(r, i, steps) })
	pinned(r)

	r.Floor(r.Counter("outcome.ok") > 200 && r.Counter("outcome.denied") > 200, "fewer than 200 allowed or 200 denied judged outcomes")
	r.Floor(r.Counter("allowed-via.table") > 0 && r.Counter("allowed-via.db") > 0 && r.Counter("allowed-via.global") > 0 && r.Counter("allowed-via.routine") > 0,
		"an allowed outcome was not seen for every level of the hierarchy")
	r.Floor(r.Counter("allowed-by.direct-role") > 0, "no outcome was allowed through a role")
	r.Floor(r.Counter("noeffect.checked") > 100, "fewer than 100 no-effect checks of denied statements")
	r.Finish()
}

var sessionHosts = []string{"localhost", "10.1.2.3", "client.example.com"}

func runHistory(r *core.Run, i int, steps int) {
	rnd := r.Rand("history", i)
	f := g11lib.NewFix(nil)
	defer f.Close()
	m := g11lib.NewModel()
	g := &g11lib.Gen{Rnd: rnd, M: m}
	var hist []string
	wit := func(w witness) witness {
		w.Case = i
		w.History = append([]string{}, hist...)
		w.Model = m.Describe()
		return w
	}
	baseData := f.DataFingerprint()
	// every probe must work for root on the fresh fixture (otherwise "allowed" could never be observed)
	if i == 0 {
		for _, p := range g11lib.Probes {
			res := f.Root.Exec(p.SQL)
			if c := g11lib.Classify(res); c != g11lib.OutOK {
				r.Violation("harness:probe-fails-for-root:"+p.Kind, wit(witness{Statement: p.SQL, Actual: c}))
			}
			for _, q := range p.Restore {
				f.Root.MustExec(q)
			}
		}
		if f.DataFingerprint() != baseData {
			r.Violation("harness:restore-incomplete", wit(witness{Detail: "fixture differs after running and undoing every probe as root"}))
			return
		}
	}
	for s := 0; s < steps; s++ {
		st := g.Next(s == steps-1)
		hist = append(hist, st.SQL)
		before := g11lib.AccountFingerprint(f.Mdb)
		res := f.Root.Exec(st.SQL)
		cls := g11lib.Classify(res)
		r.Count("step."+st.Kind, 1)
		if st.ExpectErr {
			r.Eval(1)
			after := g11lib.AccountFingerprint(f.Mdb)
			if cls == g11lib.OutOK || before != after {
				sig := "history-step-on-missing-or-existing-account-took-effect:" + st.Kind
				if st.Misaddr {
					sig = "stmt-on-missing-account-applied-to-host-pattern-match:" + st.Kind
				}
				r.Violation(sig, wit(witness{Statement: st.SQL, Expected: "error (the named account does not exist / already exists), no change", Actual: cls,
					Detail: map[string]any{"accounts_before": strings.Split(before, "\n"), "accounts_after": strings.Split(after, "\n")}}))
				return // model and engine have diverged
			}
			r.Distinct("step-rejected|" + st.Kind)
		} else if cls != g11lib.OutOK {
			if strings.HasPrefix(cls, "other:1105:syntax error") {
				r.Inconclusive("history statement does not parse: " + st.Kind)
			} else {
				r.Violation("history-step-failed:"+st.Kind, wit(witness{Statement: st.SQL, Expected: "ok", Actual: cls + " / " + fmt.Sprint(res.Err)}))
			}
			return
		}
		checkShowGrants(r, f, m, wit)
		acctFP := g11lib.AccountFingerprint(f.Mdb)
		if !probeAll(r, rnd, f, m, baseData, acctFP, wit) {
			return // the fixture no longer equals its baseline: later observations would only repeat this one
		}
	}
}

// checkShowGrants compares SHOW GRANTS of every model account with the model.
func checkShowGrants(r *core.Run, f *g11lib.Fix, m *g11lib.Model, wit func(witness) witness) {
	for _, k := range m.Keys() {
		a := m.Acc[k]
		lines, err := f.ShowGrants(a)
		r.Eval(1)
		if err != nil {
			r.Violation("show-grants-fails-for-existing-account", wit(witness{Account: k, Actual: err.Error()}))
			continue
		}
		pg := g11lib.ParseShowGrants(lines)
		var diffs []string
		cat := ""
		setCat := func(c string) {
			if cat == "" || cat == c {
				cat = c
			} else {
				cat = "several-differences"
			}
		}
		for lk, want := range a.Grants {
			nonGO := 0
			for p := range want {
				if p != "GRANT OPTION" {
					nonGO++
				}
			}
			if nonGO == 0 {
				// a level holding only GRANT OPTION is displayed without it (cosmetic; recorded, not judged)
				r.Count("show-grants.level-with-only-grant-option", 1)
				continue
			}
			got := pg.Levels[lk]
			if got.String() != want.String() {
				diffs = append(diffs, fmt.Sprintf("%s: model {%s} shown {%s}", lk, want, got))
				if len(got) == 0 {
					setCat("granted-level-not-shown:" + levelKind(lk))
				} else {
					setCat("privileges-differ:" + levelKind(lk))
				}
			}
		}
		for lk, got := range pg.Levels {
			if len(got) > 0 && len(a.Grants[lk]) == 0 {
				diffs = append(diffs, fmt.Sprintf("%s: model {} shown {%s}", lk, got))
				setCat("shown-level-not-granted:" + levelKind(lk))
			}
		}
		var wantRoles []string
		for _, rk := range m.RolesOf(k, false) {
			wantRoles = append(wantRoles, rk)
		}
		sort.Strings(wantRoles)
		if strings.Join(wantRoles, ",") != strings.Join(pg.Roles, ",") {
			diffs = append(diffs, fmt.Sprintf("roles: model %v shown %v", wantRoles, pg.Roles))
			if strings.Join(wantRoles, ",") == strings.Join(dedup(pg.Roles), ",") {
				// the same role listed twice: a second GRANT role … with a different ADMIN OPTION adds a second edge
				setCat("role-edge-duplicated-by-regrant-with-other-admin-option")
			} else {
				setCat("roles-differ")
			}
		}
		if len(pg.Bad) > 0 {
			diffs = append(diffs, fmt.Sprintf("unparsed lines %v", pg.Bad))
			setCat("unparsed-line")
		}
		if len(diffs) > 0 {
			r.Violation("show-grants:"+cat, wit(witness{Account: k, Detail: map[string]any{"diffs": diffs, "show_grants": lines}}))
		} else if len(a.Grants) > 0 {
			r.Distinct(fmt.Sprintf("show-grants|levels=%d|roles=%d", len(a.Grants), len(wantRoles)))
		}
	}
}

func dedup(a []string) []string {
	var out []string
	for i, x := range a {
		if i == 0 || x != a[i-1] {
			out = append(out, x)
		}
	}
	return out
}

func levelKind(lk string) string {
	switch {
	case lk == "*.*":
		return "global"
	case strings.HasPrefix(lk, "proc:"):
		return "routine"
	case strings.HasSuffix(lk, ".*"):
		return "db"
	}
	return "table"
}

func probeAll(r *core.Run, rnd interface{ Intn(int) int }, f *g11lib.Fix, m *g11lib.Model, baseData, acctFP string, wit func(witness) witness) bool {
	type ident struct{ user, host string }
	var ids []ident
	seenName := map[string]bool{}
	for _, k := range m.Keys() {
		a := m.Acc[k]
		if a.IsRole {
			continue
		}
		h := a.Host
		if h == "%" {
			h = sessionHosts[rnd.Intn(len(sessionHosts))]
			if h == "localhost" && m.Acc[a.Name+"@localhost"] != nil {
				h = "10.1.2.3"
			}
		}
		ids = append(ids, ident{a.Name, h})
		seenName[a.Name] = true
	}
	// one identity that matches no account (never created, or dropped)
	for _, n := range []string{"u1", "u2", "u3", "u4", "ghost"} {
		if !seenName[n] {
			ids = append(ids, ident{n, "localhost"})
			break
		}
	}
	for _, id := range ids {
		acc := m.Resolve(id.user, id.host)
		sess := f.Sess(id.user, id.host)
		if rnd.Intn(5) == 0 {
			sess = f.FreshSess(id.user, id.host)
		}
		nProbe := 6
		if acc == nil {
			nProbe = 1
		}
		var effNested, effDirect, effOwn g11lib.Eff
		if acc != nil {
			effNested = m.Effective(acc.Key(), true)
			effDirect = m.Effective(acc.Key(), false)
			effOwn = g11lib.Eff{Levels: acc.Grants}
		}
		// half of the probes are drawn from those the model allows (otherwise almost everything is a denial)
		var allowedIdx []int
		if acc != nil {
			for k, p := range g11lib.Probes {
				if k > 0 && p.Expected(effNested) == g11lib.OutOK {
					allowedIdx = append(allowedIdx, k)
				}
			}
		}
		for n := 0; n < nProbe; n++ {
			p := g11lib.Probes[rnd.Intn(len(g11lib.Probes))]
			if n%2 == 1 && len(allowedIdx) > 0 {
				p = g11lib.Probes[allowedIdx[rnd.Intn(len(allowedIdx))]]
			}
			want := g11lib.OutNoAccount
			if acc != nil {
				want = p.Expected(effNested)
			}
			res := sess.Exec(p.SQL)
			got := g11lib.Classify(res)
			sid := id.user + "@" + id.host
			an := ""
			if acc != nil {
				an = acc.Key()
			}
			w := witness{Session: sid, Account: an, Statement: p.SQL, Expected: want, Actual: got}
			if strings.HasPrefix(got, "other:") {
				if res.Panic != nil {
					r.Violation(res.Panic.Sig(), wit(w))
				} else if want == g11lib.OutOK || want == g11lib.OutDenied || want == g11lib.OutNoAccount {
					// the statement neither ran nor was refused for lack of privileges
					r.Violation("probe-outcome-neither-ok-nor-denied:"+p.Kind, wit(w))
				} else {
					r.Inconclusive("probe failed with another error where the outcome is not judged")
				}
				if !restore(r, f, p, baseData, acctFP, wit, w, false) {
					return false
				}
				continue
			}
			switch want {
			case "":
				r.Count("not-judged."+p.Kind, 1)
			default:
				r.Eval(1)
				r.Count("outcome."+want, 1)
				by := "n/a"
				if acc != nil && want == g11lib.OutOK {
					switch {
					case p.Enough(effOwn):
						by = "own-grant"
					case p.Enough(effDirect):
						by = "direct-role"
					default:
						by = "nested-role"
					}
					r.Count("allowed-by."+by, 1)
					r.Count("allowed-via."+p.Via(effNested), 1)
				}
				if got == want {
					via := "n/a"
					if acc != nil {
						via = p.Via(effNested)
					}
					r.Distinct(fmt.Sprintf("%s|%s|via=%s|by=%s", p.Kind, want, via, by))
					if want == g11lib.OutOK && by != "own-grant" {
						r.Sample(map[string]any{"history": wit(w).History, "session": sid, "statement": p.SQL, "model_and_engine": want, "allowed_by": by})
					}
				} else {
					sig := fmt.Sprintf("outcome-mismatch:%s:model-%s:engine-%s", p.Kind, want, got)
					switch {
					case by == "nested-role" && got == g11lib.OutDenied:
						// the deciding privilege is held only by a role that is granted to a granted role
						sig = "role-granted-to-role-not-inherited"
					case p.Kind == "create-table:d.newt" && want == g11lib.OutOK && got == g11lib.OutDenied && p.Via(effNested) == "table":
						sig = "create-table-ignores-table-level-create-grant"
					case p.Kind == "create-view:d.vnew" && want == g11lib.OutOK && got == g11lib.OutDenied && p.Via(effNested) == "table":
						sig = "create-view-ignores-table-level-create-view-grant"
					case p.Kind == "grant:global" && want == g11lib.OutDenied && got == g11lib.OutOK &&
						effNested.OnDB("DELETE", "d") && effNested.OnDB("GRANT OPTION", "d"):
						// the global check falls back to the privileges held on the session's current database (d)
						sig = "global-grant-allowed-by-current-database-privileges"
					}
					r.Violation(sig, wit(w))
				}
			}
			if !restore(r, f, p, baseData, acctFP, wit, w, got != g11lib.OutOK) {
				return false
			}
		}
	}
	return true
}

// restore undoes an allowed statement as root and checks the no-effect clause for a refused one.
func restore(r *core.Run, f *g11lib.Fix, p g11lib.Probe, baseData, acctFP string, wit func(witness) witness, w witness, refused bool) bool {
	if !refused {
		for _, q := range p.Restore {
			if res := f.Root.Exec(q); res.Failed() {
				w.Detail = fmt.Sprintf("undo statement %q failed: %v", q, res.Err)
				r.Violation("harness:undo-failed:"+p.Kind, wit(w))
				return false
			}
		}
		if len(p.Restore) == 0 {
			return true
		}
	}
	d, a := f.DataFingerprint(), g11lib.AccountFingerprint(f.Mdb)
	if refused {
		r.Eval(1)
		r.Count("noeffect.checked", 1)
		if d != baseData || a != acctFP {
			w.Detail = map[string]any{"data_before": strings.Split(baseData, "\n"), "data_after": strings.Split(d, "\n"),
				"accounts_before": strings.Split(acctFP, "\n"), "accounts_after": strings.Split(a, "\n")}
			r.Violation("refused-statement-had-an-effect:"+p.Kind, wit(w))
			return false
		}
		return true
	}
	if d != baseData || a != acctFP {
		w.Detail = map[string]any{"data_before": strings.Split(baseData, "\n"), "data_after": strings.Split(d, "\n"),
			"accounts_before": strings.Split(acctFP, "\n"), "accounts_after": strings.Split(a, "\n")}
		r.Violation("harness:state-not-restored-after-allowed:"+p.Kind, wit(w))
		return false
	}
	return true
}
