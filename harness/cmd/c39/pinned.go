package main

import (
	"strings"

	"github.com/dolthub/go-mysql-server/sql/mysql_db"

	"verif/harness/core"
	"verif/harness/g11lib"
)

// pinned replays the witnesses of the known findings of C39 (findings/C39.txt) on every run.
func pinned(r *core.Run) {
	type step struct{ who, sql string }
	type pw struct {
		sig, what string
		setup     []string
		// the observation: a statement run as `who`, and the outcome that the property prescribes
		who, sql, want string
		// or: SHOW GRANTS of an account must (not) contain a fragment
		grantsOf, fragment string
		mustContain        bool
	}
	for _, p := range []pw{
		{sig: "role-granted-to-role-not-inherited",
			what:  "privileges of a role granted to a granted role are not inherited",
			setup: []string{"CREATE USER pu1", "CREATE ROLE pr1", "CREATE ROLE pr2", "GRANT SELECT ON d.t1 TO pr1", "GRANT pr1 TO pr2", "GRANT pr2 TO pu1"},
			who:   "pu1", sql: "SELECT id FROM d.t1", want: g11lib.OutOK},
		{sig: "stmt-on-missing-account-applied-to-host-pattern-match:grant",
			what:     "GRANT … TO 'pu2'@'localhost' (no such account) is applied to 'pu2'@'%'",
			setup:    []string{"CREATE USER 'pu2'@'%'", "GRANT SELECT ON d2.* TO 'pu2'@'localhost'"},
			grantsOf: "pu2", fragment: "`d2`", mustContain: false},
		{sig: "stmt-on-missing-account-applied-to-host-pattern-match:drop-user",
			what:     "DROP USER 'pu3'@'localhost' (no such account) drops 'pu3'@'%'",
			setup:    []string{"CREATE USER 'pu3'@'%'", "DROP USER 'pu3'@'localhost'"},
			grantsOf: "pu3", fragment: "USAGE", mustContain: true},
		{sig: "stmt-on-missing-account-applied-to-host-pattern-match:grant-role",
			what:     "GRANT role TO 'pu4'@'localhost' (no such account) is applied to 'pu4'@'%'",
			setup:    []string{"CREATE USER 'pu4'@'%'", "CREATE ROLE pr4", "GRANT pr4 TO 'pu4'@'localhost'"},
			grantsOf: "pu4", fragment: "pr4", mustContain: false},
		{sig: "revoke-all-privileges-keeps-lower-levels",
			what:  "REVOKE ALL PRIVILEGES, GRANT OPTION FROM u leaves u's database/table/routine grants in place",
			setup: []string{"CREATE USER pu5", "GRANT SELECT ON d.t1 TO pu5", "REVOKE ALL PRIVILEGES, GRANT OPTION FROM pu5"},
			who:   "pu5", sql: "SELECT id FROM d.t1", want: g11lib.OutDenied},
		{sig: "db-level-revoke-leaving-no-db-privilege-drops-table-grants",
			what:  "a REVOKE … ON d.* that leaves the account without database-level privileges on d also removes its table- and routine-level grants inside d",
			setup: []string{"CREATE USER pu6", "GRANT SELECT ON d.t1 TO pu6", "GRANT INSERT ON d.* TO pu6", "REVOKE INSERT ON d.* FROM pu6"},
			who:   "pu6", sql: "SELECT id FROM d.t1", want: g11lib.OutOK},
		{sig: "create-table-ignores-table-level-create-grant",
			what:  "CREATE TABLE d.newt is refused to the holder of CREATE ON d.newt (only database/global CREATE is honoured)",
			setup: []string{"CREATE USER pu8", "GRANT CREATE ON d.newt TO pu8"},
			who:   "pu8", sql: "CREATE TABLE d.newt (a INT)", want: g11lib.OutOK},
		{sig: "create-view-ignores-table-level-create-view-grant",
			what:  "CREATE VIEW d.vnew is refused to the holder of CREATE VIEW ON d.vnew and SELECT ON d.t1",
			setup: []string{"CREATE USER pu9", "GRANT CREATE VIEW ON d.vnew TO pu9", "GRANT SELECT ON d.t1 TO pu9"},
			who:   "pu9", sql: "CREATE VIEW d.vnew AS SELECT id FROM d.t1", want: g11lib.OutOK},
		{sig: "global-grant-allowed-by-current-database-privileges",
			what:  "GRANT DELETE ON *.* is allowed to a user who holds DELETE and GRANT OPTION only on the session's current database",
			setup: []string{"CREATE USER pu10", "GRANT DELETE ON d.* TO pu10 WITH GRANT OPTION"},
			who:   "pu10", sql: "GRANT DELETE ON *.* TO 'sink'@'%'", want: g11lib.OutDenied},
		{sig: "show-grants:role-edge-duplicated-by-regrant-with-other-admin-option",
			what:     "granting a role again with a different ADMIN OPTION adds a second role edge (SHOW GRANTS lists the role twice)",
			setup:    []string{"CREATE USER pu11", "CREATE ROLE pr11", "GRANT pr11 TO pu11 WITH ADMIN OPTION", "GRANT pr11 TO pu11"},
			grantsOf: "pu11", fragment: "`pr11`@`%`, `pr11`@`%`", mustContain: false},
		{sig: "routine-grant-with-grant-option-dropped",
			what:     "GRANT EXECUTE ON PROCEDURE d.p1 TO u WITH GRANT OPTION does not record the GRANT OPTION",
			setup:    []string{"CREATE USER pu12", "GRANT EXECUTE ON PROCEDURE d.p1 TO pu12 WITH GRANT OPTION"},
			grantsOf: "pu12", fragment: "WITH GRANT OPTION", mustContain: true},
		{sig: "delete-without-where-needs-trigger-privilege",
			what: "DELETE FROM t without WHERE is refused to a holder of DELETE when any trigger exists in the current database (TRIGGER on the triggered table is demanded)",
			setup: []string{"CREATE USER pu7", "GRANT DELETE ON d.* TO pu7",
				"CREATE TRIGGER ptr BEFORE INSERT ON t2 FOR EACH ROW SET NEW.v = 1"},
			who: "pu7", sql: "DELETE FROM d.t1", want: g11lib.OutOK},
	} {
		f := g11lib.NewFix(nil)
		failed := false
		for _, q := range p.setup {
			f.Root.Exec(q) // the statements under test may fail (that is the correct behaviour for some)
		}
		obs := ""
		if p.who != "" {
			got := g11lib.Classify(f.FreshSess(p.who, "localhost").Exec(p.sql))
			obs = p.sql + " as " + p.who + " -> " + got + ", prescribed " + p.want
			failed = got != p.want
		} else {
			lines, err := g11lib.ShowGrantsOn(f.Root, p.grantsOf, "%")
			text := strings.Join(lines, " | ")
			if err != nil {
				text = "ERR " + err.Error()
			}
			has := strings.Contains(text, p.fragment)
			failed = has != p.mustContain
			obs = "SHOW GRANTS FOR " + p.grantsOf + "@% -> " + text
		}
		f.Close()
		r.Pinned(p.sig, p.what+" ("+obs+")", failed, map[string]any{"setup_as_root": p.setup, "observation": obs})
		r.Count("pinned.replayed", 1)
	}
	// An existing account named with host 127.0.0.1 is resolved through the login matcher as well (127.0.0.1 is rewritten
	// to localhost before the exact lookup), so the statement lands on an earlier account of that name whose pattern
	// matches. Observed by exact key through the Reader (every SQL observation goes through the same resolver).
	{
		f := g11lib.NewFix(nil)
		setup := []string{"CREATE USER 'pu13'@'127.0.%'", "CREATE USER 'pu13'@'127.0.0.1'", "GRANT SELECT ON d.t1 TO 'pu13'@'127.0.0.1'"}
		for _, q := range setup {
			f.Root.Exec(q)
		}
		rd := f.Mdb.Reader()
		named, _ := rd.GetUser(mysql_db.UserPrimaryKey{Host: "127.0.0.1", User: "pu13"})
		other, _ := rd.GetUser(mysql_db.UserPrimaryKey{Host: "127.0.%", User: "pu13"})
		obs := "accounts missing"
		failed := true
		if named != nil && other != nil {
			n, o := g11lib.PrivSetText(named.PrivilegeSet), g11lib.PrivSetText(other.PrivilegeSet)
			obs = "'pu13'@'127.0.0.1': " + n + " ; 'pu13'@'127.0.%': " + o
			failed = !strings.Contains(n, "d.t1{SELECT}") || strings.Contains(o, "d.t1{SELECT}")
		}
		rd.Close()
		f.Close()
		r.Pinned("stmt-on-127.0.0.1-account-applied-to-earlier-pattern-account",
			"GRANT … TO 'pu13'@'127.0.0.1' (an existing account) is applied to 'pu13'@'127.0.%' created before it ("+obs+")", failed,
			map[string]any{"setup_as_root": setup, "observation": obs})
		r.Count("pinned.replayed", 1)
	}
}
