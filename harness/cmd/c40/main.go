// C40 — authentication accepts exactly the valid credentials.
//
// Part 1 (real go-sql-driver connections from 127.0.0.1 to an in-process TCP server): seeded account sets with
// overlapping host patterns and same-name users on different hosts, distinct passwords, locked flags; login attempts
// with the right / wrong / empty / prefix / case-changed / extended / over-long password, the password of another
// account, unknown and case-changed user names; ALTER USER … IDENTIFIED BY, DROP USER, lock/unlock between attempts.
// A model picks the account MySQL would match (exact host > pattern > '%') and says accept iff that account is
// unlocked and the password is exactly its password. After an accepted login the session must run as the matched
// account: CURRENT_USER() and a marker table only that account may read.
// Part 2 (a raw-socket client): handshake responses that are truncated, extended, zero-length, over-long, carry a
// lying length prefix or a wrong plugin name must never be accepted unless they are a well-formed proof of the
// password, and the server must keep accepting valid logins afterwards.
package main

import (
	dsql "database/sql"
	"errors"
	"fmt"
	"math/rand"
	"os"
	"strconv"
	"strings"

	"github.com/dolthub/go-mysql-server/sql"
	"github.com/dolthub/go-mysql-server/sql/mysql_db"
	"github.com/go-sql-driver/mysql"

	"verif/harness/core"
	"verif/harness/g11lib"
)

type acct struct {
	user, host string
	pw         string
	plugin     string // "mysql_native_password" or "caching_sha2_password"
	locked     bool
	class      int // 3 exact, 2 pattern, 1 '%', 0 does not match a client at 127.0.0.1
	marker     string
	dropped    bool
}

func (a *acct) key() string { return a.user + "@" + a.host }

var (
	userPool  = []string{"al", "bo", "cy", "di"}
	exactPool = []string{"localhost", "127.0.0.1"}
	pattPool  = []string{"127.0.0.%", "127.%", "127.0.0._", "127.0.%", "127.%.1", "127.%.0.1", "%.0.0.1"}
	missPool  = []string{"10.%", "192.168.1.5", "%.example.com", "otherhost", "128.%", "127.0.1.%", "27.%", "%.0.0.2", "127.0.0.11", "127.%.0", "127.0.%.2", "12%.0.0", "127.0.0.1%5"}
	pwPool    = []string{"", "pw", "Secret1", "a b", "pässwörd", "0", "longer-password-123", "x"}
)

type world struct {
	accts []*acct
}

// matched is the account MySQL picks for `user` connecting from 127.0.0.1: the most specific matching host.
func (w *world) matched(user string) *acct {
	var best *acct
	for _, a := range w.accts {
		if a.dropped || a.user != user || a.class == 0 {
			continue
		}
		if best == nil || a.class > best.class {
			best = a
		}
	}
	return best
}

// others are the remaining accounts of the user that also match the client.
func (w *world) others(user string, not *acct) []*acct {
	var out []*acct
	for _, a := range w.accts {
		if !a.dropped && a.user == user && a.class > 0 && a != not {
			out = append(out, a)
		}
	}
	return out
}

// verdict is the model's answer for a chosen account and a presented password.
func verdict(a *acct, pw string) string {
	if a == nil || a.locked {
		return "reject"
	}
	if a.pw == pw {
		return "accept"
	}
	return "reject"
}

type witness struct {
	Case     int      `json:"case"`
	Setup    []string `json:"statements_run_by_root"`
	Accounts []string `json:"accounts"`
	Attempt  string   `json:"attempt"`
	Model    string   `json:"model"`
	Engine   string   `json:"engine"`
	Detail   any      `json:"detail,omitempty"`
}

func main() {
	r := core.NewRun("C40", "exploration",
		"each evaluation is one login attempt (driver or raw socket) whose accept/reject outcome is compared with the account model, or one check after an accepted login that the session runs as the matched account (CURRENT_USER(), marker table); distinct = (host class of the matched account, password variant, outcome) and (raw response variant, outcome)")
	r.Assume("all clients connect from 127.0.0.1; the account MySQL matches is the one with the most specific host: a literal 'localhost'/'127.0.0.1' before a wildcard pattern before '%'; a user name has at most one account per specificity class, so the order is unambiguous")
	r.Assume("caching_sha2_password accounts cannot complete authentication without TLS on this server (transport policy): for them only 'never accepted with a wrong password' is judged")
	r.Assume("locked flags are set through the Editor API (ALTER USER … ACCOUNT LOCK does not parse)")
	r.Assume("a handshake response that announces another plugin is answered by an auth switch; after the switch the credentials are judged like any other")
	nCases := r.N(120, 2500)
	attempts := r.N(20, 40)
	if one := os.Getenv("VERIF_C40_CASE"); one != "" {
		// replay of a single case (debugging aid): VERIF_C40_CASE=<index> with the same tier and seed
		k, _ := strconv.Atoi(one)
		runCase(r, k, attempts)
		r.Finish()
	}
	r.Parallel("accounts", nCases, func(i int) { runCase(r, i, attempts) })
	pinned(r)
	r.Floor(r.Counter("login.accept") > 50 && r.Counter("login.reject") > 200, "fewer than 50 accepted or 200 rejected driver logins")
	r.Floor(r.Counter("session.checked") > 50, "fewer than 50 accepted sessions checked for the account they run as")
	r.Floor(r.Counter("raw.control-accepted") > 10, "the raw client's well-formed control login was accepted fewer than 10 times")
	r.Floor(r.Counter("raw.malformed-rejected") > 100, "fewer than 100 malformed handshake responses rejected")
	r.Floor(r.Counter("server.alive-after-raw") > 10, "server liveness after malformed responses was not observed")
	r.Finish()
}

// open connects without a default database (an account without privileges on d could not select it).
func open(srv *core.Srv, user, pass string) (*dsql.DB, error) {
	cfg := mysql.NewConfig()
	cfg.User, cfg.Passwd, cfg.Net, cfg.Addr = user, pass, "tcp", srv.Addr
	cfg.AllowNativePasswords = true
	cfg.AllowCleartextPasswords = false
	conn, err := mysql.NewConnector(cfg)
	if err != nil {
		return nil, err
	}
	db := dsql.OpenDB(conn)
	db.SetMaxOpenConns(1)
	db.SetMaxIdleConns(1)
	return db, nil
}

// login returns "accept", "reject" (ER 1045) or "other:<text>".
func login(srv *core.Srv, user, pass string) (string, *dsql.DB) {
	db, err := open(srv, user, pass)
	if err != nil {
		return "other:" + err.Error(), nil
	}
	if err := db.Ping(); err != nil {
		db.Close()
		var me *mysql.MySQLError
		if errors.As(err, &me) && me.Number == 1045 {
			return "reject", nil
		}
		return "other:" + core.StripVolatile(err.Error()), nil
	}
	return "accept", db
}

func runCase(r *core.Run, i int, attempts int) {
	rnd := r.Rand("accounts", i)
	f := g11lib.NewFix(nil)
	defer f.Close()
	w := &world{}
	var setup []string
	root := func(q string) bool {
		setup = append(setup, q)
		res := f.Root.Exec(q)
		if res.Failed() {
			r.Violation("setup-statement-fails:"+strings.Fields(q)[0]+"-"+strings.Fields(q)[1], map[string]any{"case": i, "statements": setup, "error": fmt.Sprint(res.Err)})
			return false
		}
		return true
	}
	create := func(user, host string, class int) bool {
		a := &acct{user: user, host: host, class: class, plugin: "mysql_native_password", pw: pwPool[rnd.Intn(len(pwPool))]}
		// passwords of the same user's accounts are pairwise distinct, so an outcome tells which account was used
		for tries := 0; tries < 20; tries++ {
			clash := false
			for _, o := range w.accts {
				if !o.dropped && o.user == user && o.pw == a.pw {
					clash = true
				}
			}
			if !clash {
				break
			}
			a.pw = pwPool[rnd.Intn(len(pwPool))] + fmt.Sprint(tries)
		}
		q := fmt.Sprintf("CREATE USER '%s'@'%s'", user, host)
		if a.pw != "" {
			if rnd.Intn(8) == 0 {
				a.plugin = "caching_sha2_password"
				q += fmt.Sprintf(" IDENTIFIED WITH caching_sha2_password BY '%s'", a.pw)
			} else {
				q += fmt.Sprintf(" IDENTIFIED BY '%s'", a.pw)
			}
		}
		if !root(q) {
			return false
		}
		a.marker = fmt.Sprintf("m%d", len(w.accts))
		if !root("CREATE TABLE d." + a.marker + " (id INT)") {
			return false
		}
		// The marker privilege is written through the Editor by exact key: GRANT … TO 'u'@'127.0.0.1' resolves the
		// named account with the login matcher and may hit another account of that name (a C39 finding).
		ed := f.Mdb.Editor()
		u, ok := ed.GetUser(mysql_db.UserPrimaryKey{Host: host, User: user})
		if ok {
			u.PrivilegeSet.AddTable("d", a.marker, sql.PrivilegeType_Select)
			ed.PutUser(u)
		}
		ed.Close()
		if !ok {
			r.Violation("created-account-not-found-by-its-key", map[string]any{"case": i, "statements": setup, "account": a.key()})
			return false
		}
		setup = append(setup, fmt.Sprintf("-- Editor: %s gets SELECT ON d.%s", a.key(), a.marker))
		w.accts = append(w.accts, a)
		return true
	}
	nUsers := 2 + rnd.Intn(3)
	for u := 0; u < nUsers; u++ {
		user := userPool[u]
		// shuffled creation order: the engine's choice among several matching accounts depends on it
		type hc struct {
			host  string
			class int
		}
		var hs []hc
		if rnd.Intn(3) == 0 {
			hs = append(hs, hc{exactPool[rnd.Intn(len(exactPool))], 3})
		}
		if rnd.Intn(2) == 0 {
			hs = append(hs, hc{pattPool[rnd.Intn(len(pattPool))], 2})
		}
		if rnd.Intn(2) == 0 {
			hs = append(hs, hc{"%", 1})
		}
		for k := rnd.Intn(3); k > 0; k-- {
			h := missPool[rnd.Intn(len(missPool))]
			dup := false
			for _, x := range hs {
				if x.host == h {
					dup = true
				}
			}
			if !dup {
				hs = append(hs, hc{h, 0})
			}
		}
		rnd.Shuffle(len(hs), func(a, b int) { hs[a], hs[b] = hs[b], hs[a] })
		for _, x := range hs {
			if !create(user, x.host, x.class) {
				return
			}
		}
	}
	setLocked := func(a *acct, v bool) {
		ed := f.Mdb.Editor()
		if u, ok := ed.GetUser(mysql_db.UserPrimaryKey{Host: a.host, User: a.user}); ok {
			u.Locked = v
			ed.PutUser(u)
			a.locked = v
			setup = append(setup, fmt.Sprintf("-- Editor: %s Locked=%v", a.key(), v))
		}
		ed.Close()
	}
	for _, a := range w.accts {
		if rnd.Intn(7) == 0 {
			setLocked(a, true)
		}
	}
	srv, err := g11lib.StartExclusiveServer(f.E)
	if err != nil {
		r.Inconclusive("server did not start")
		return
	}
	defer srv.Close()
	describe := func() []string {
		var out []string
		for _, a := range w.accts {
			if !a.dropped {
				out = append(out, fmt.Sprintf("%s password=%q plugin=%s locked=%v matches-127.0.0.1=%v marker=d.%s", a.key(), a.pw, a.plugin, a.locked, a.class > 0, a.marker))
			}
		}
		return out
	}
	wit := func(attempt, model, engine string, detail any) witness {
		return witness{Case: i, Setup: append([]string{}, setup...), Accounts: describe(), Attempt: attempt, Model: model, Engine: engine, Detail: detail}
	}

	for n := 0; n < attempts; n++ {
		// account changes between attempts
		if n > 0 && rnd.Intn(6) == 0 {
			live := []*acct{}
			for _, a := range w.accts {
				if !a.dropped {
					live = append(live, a)
				}
			}
			if len(live) > 0 {
				a := live[rnd.Intn(len(live))]
				switch rnd.Intn(4) {
				case 0:
					// stays distinct from the passwords of the user's other accounts
					np := fmt.Sprintf("%s-new%d", pwPool[1+rnd.Intn(len(pwPool)-1)], n)
					if root(fmt.Sprintf("ALTER USER '%s'@'%s' IDENTIFIED BY '%s'", a.user, a.host, np)) {
						a.pw, a.plugin = np, "mysql_native_password"
					}
					if !stateAsModel(f, w) {
						r.Inconclusive("ALTER USER changed another account than the one named (account resolution, C39 finding)")
						return
					}
				case 1:
					if root(fmt.Sprintf("DROP USER '%s'@'%s'", a.user, a.host)) {
						a.dropped = true
					}
					if !stateAsModel(f, w) {
						r.Inconclusive("DROP USER dropped another account than the one named (account resolution, C39 finding)")
						return
					}
				case 2:
					setLocked(a, !a.locked)
				case 3:
					// a new overlapping account for the same name
					for _, x := range []struct {
						h string
						c int
					}{{"%", 1}, {pattPool[rnd.Intn(len(pattPool))], 2}, {exactPool[rnd.Intn(2)], 3}} {
						free := true
						for _, o := range w.accts {
							if !o.dropped && o.user == a.user && (o.class == x.c || o.host == x.h) {
								free = false
							}
						}
						if free {
							create(a.user, x.h, x.c)
							break
						}
					}
				}
			}
		}
		// the attempt
		user := userPool[rnd.Intn(len(userPool))]
		nameKind := "known-name"
		switch rnd.Intn(12) {
		case 0:
			user, nameKind = "nobody", "unknown-name"
		case 1:
			user, nameKind = strings.ToUpper(user), "case-changed-name"
		}
		m := w.matched(user)
		base := "pw"
		if m != nil {
			base = m.pw
		}
		variant, pass := "", ""
		switch rnd.Intn(10) {
		case 0, 1, 2:
			variant, pass = "right", base
		case 3:
			variant, pass = "wrong", base+"-wrong"
			if base == "" {
				pass = "wrong"
			}
		case 4:
			variant, pass = "empty", ""
		case 5:
			variant, pass = "prefix", base
			if len(base) > 1 {
				pass = base[:len(base)-1]
			} else {
				variant, pass = "wrong", "zz"
			}
		case 6:
			variant, pass = "case-changed", swapCase(base)
		case 7:
			variant, pass = "extended", base+"x"
		case 8:
			variant, pass = "over-long", base+strings.Repeat("y", 300)
		case 9:
			variant, pass = "other-accounts-password", "other"
			if os := w.others(user, m); len(os) > 0 {
				pass = os[rnd.Intn(len(os))].pw
			} else if len(w.accts) > 0 {
				pass = w.accts[rnd.Intn(len(w.accts))].pw
			}
		}
		want := verdict(m, pass)
		got, db := login(srv, user, pass)
		attempt := fmt.Sprintf("login user=%q password=%q from 127.0.0.1 (%s, %s)", user, pass, nameKind, variant)
		hostClass := "none"
		if m != nil {
			hostClass = []string{"miss", "any-host", "pattern", "exact"}[m.class]
		}
		judged := true
		if m != nil && m.plugin == "caching_sha2_password" && want == "accept" {
			judged = false // cannot complete without TLS
			r.Count("login.not-judged.sha2-needs-tls", 1)
		}
		if strings.HasPrefix(got, "other:") {
			if want == "accept" && judged {
				r.Eval(1)
				r.Violation("valid-login-fails-with-another-error", wit(attempt, want, got, nil))
			} else {
				r.Count("login.not-accepted-with-other-error", 1)
			}
		} else if judged {
			r.Eval(1)
			r.Count("login."+got, 1)
			if got == want {
				r.Distinct(fmt.Sprintf("login|%s|%s|%s|%s", hostClass, nameKind, variant, got))
				if n < 2 && i < 3 {
					r.Sample(map[string]any{"accounts": describe(), "attempt": attempt, "model_and_engine": got})
				}
			} else {
				r.Violation(loginSig(w, user, m, pass, got, variant), wit(attempt, want, got, map[string]any{"matched_account_by_model": key(m)}))
			}
		}
		if db == nil {
			continue
		}
		// the session must run as the matched account
		if want == "accept" && m != nil {
			r.Count("session.checked", 1)
			var cu string
			err := db.QueryRow("SELECT CURRENT_USER()").Scan(&cu)
			r.Eval(1)
			wantCU := m.user + "@" + m.host
			usedOther := false
			if err != nil || cu != wantCU {
				sig := "current-user-is-not-the-matched-account"
				for _, o := range w.others(user, m) {
					if cu == o.user+"@"+o.host && verdict(o, pass) == "accept" {
						// the same password is valid for another matching account of this name, and the engine used that one
						usedOther = true
						sig = "less-specific-host-account-chosen"
						if strings.Contains(m.host, "_") {
							sig = "underscore-host-wildcard-not-matched"
						}
					}
				}
				r.Violation(sig, wit(attempt, wantCU, fmt.Sprintf("%s (err %v)", cu, err), nil))
			}
			if usedOther {
				db.Close()
				continue // the marker tables would only repeat the same observation
			}
			for _, a := range w.accts {
				if a.dropped || a.user != m.user {
					continue
				}
				var cnt int
				err := db.QueryRow("SELECT COUNT(*) FROM d." + a.marker).Scan(&cnt)
				r.Eval(1)
				allowed := err == nil
				if allowed != (a == m) {
					r.Violation("session-does-not-run-as-the-matched-account", wit(attempt, "only d."+m.marker+" readable ("+m.key()+")",
						fmt.Sprintf("d.%s (marker of %s) readable=%v err=%v", a.marker, a.key(), allowed, err), nil))
				}
			}
			r.Distinct("session-runs-as|" + hostClass)
		}
		db.Close()
	}
	rawPart(r, rnd, i, w, srv, wit)
}

// stateAsModel checks by exact key that every live account exists with the model's password hash and every dropped
// one is gone (account statements resolve their target with the login matcher and can hit a neighbour).
func stateAsModel(f *g11lib.Fix, w *world) bool {
	rd := f.Mdb.Reader()
	defer rd.Close()
	live := map[string]bool{}
	for _, a := range w.accts {
		if !a.dropped {
			live[a.key()] = true
		}
	}
	for _, a := range w.accts {
		if a.dropped && live[a.key()] {
			continue // created again later
		}
		u, ok := rd.GetUser(mysql_db.UserPrimaryKey{Host: a.host, User: a.user})
		if ok == a.dropped {
			return false
		}
		if ok && a.plugin == "mysql_native_password" && u.AuthString != g11lib.NativeHash(a.pw) {
			return false
		}
	}
	return true
}

func key(a *acct) string {
	if a == nil {
		return "(none)"
	}
	return a.key()
}

func swapCase(s string) string {
	b := []rune(s)
	changed := false
	for i, c := range b {
		switch {
		case c >= 'a' && c <= 'z':
			b[i] = c - 32
			changed = true
		case c >= 'A' && c <= 'Z':
			b[i] = c + 32
			changed = true
		}
	}
	if !changed {
		return s + "A"
	}
	return string(b)
}

// loginSig names a mismatch: the known classes are recognised by what the engine's answer is consistent with.
func loginSig(w *world, user string, m *acct, pass, got, variant string) string {
	if m != nil {
		// consistent with the engine having used another account of this user that also matches the client?
		for _, o := range w.others(user, m) {
			if verdict(o, pass) == got {
				if strings.Contains(m.host, "_") {
					return "underscore-host-wildcard-not-matched"
				}
				return "less-specific-host-account-chosen"
			}
		}
		if strings.Contains(m.host, "_") && got == "reject" {
			return "underscore-host-wildcard-not-matched"
		}
	}
	return fmt.Sprintf("login-outcome-mismatch:%s:model-%s:engine-%s", variant, verdict(m, pass), got)
}

// rawPart sends malformed handshake responses for one native-password account that is the only match of its name.
func rawPart(r *core.Run, rnd *rand.Rand, i int, w *world, srv *core.Srv, wit func(string, string, string, any) witness) {
	var target *acct
	for _, a := range w.accts {
		if a.dropped || a.locked || a.pw == "" || a.plugin != "mysql_native_password" || a.class == 0 || strings.Contains(a.host, "_") {
			continue
		}
		if len(w.others(a.user, a)) == 0 {
			target = a
			break
		}
	}
	if target == nil {
		r.Count("raw.no-unambiguous-target", 1)
		return
	}
	pw := target.pw
	right := func(s []byte) []byte { return g11lib.NativeScramble(pw, s) }
	sized := func(n int) func([]byte) []byte {
		return func(s []byte) []byte {
			x := g11lib.NativeScramble(pw, s)
			if n <= len(x) {
				return x[:n]
			}
			pad := make([]byte, n-len(x))
			for k := range pad {
				pad[k] = byte(rnd.Intn(256))
			}
			return append(x, pad...)
		}
	}
	type variant struct {
		name       string
		a          g11lib.RawAttempt
		wellFormed bool // a correct proof of the password in a well-formed packet: must be accepted
	}
	nat := "mysql_native_password"
	vs := []variant{
		{"control:right-scramble", g11lib.RawAttempt{User: target.user, Plugin: nat, Response: right}, true},
		{"wrong-password-scramble", g11lib.RawAttempt{User: target.user, Plugin: nat, Response: func(s []byte) []byte { return g11lib.NativeScramble(pw+"!", s) }}, false},
		{"zero-length-with-length-prefix", g11lib.RawAttempt{User: target.user, Plugin: nat, Response: func([]byte) []byte { return nil }}, false},
		{"truncated-1", g11lib.RawAttempt{User: target.user, Plugin: nat, Response: sized(1)}, false},
		{"truncated-" + fmt.Sprint(2+rnd.Intn(17)), g11lib.RawAttempt{User: target.user, Plugin: nat, Response: sized(2 + rnd.Intn(17))}, false},
		{"truncated-19", g11lib.RawAttempt{User: target.user, Plugin: nat, Response: sized(19)}, false},
		{"extended-21", g11lib.RawAttempt{User: target.user, Plugin: nat, Response: sized(21)}, false},
		{"extended-40", g11lib.RawAttempt{User: target.user, Plugin: nat, Response: sized(40)}, false},
		{"extended-255-lenenc", g11lib.RawAttempt{User: target.user, Plugin: nat, Response: sized(255), Lenenc: true}, false},
		{"all-zero-20", g11lib.RawAttempt{User: target.user, Plugin: nat, Response: func([]byte) []byte { return make([]byte, 20) }}, false},
		{"one-bit-flipped", g11lib.RawAttempt{User: target.user, Plugin: nat, Response: func(s []byte) []byte {
			x := g11lib.NativeScramble(pw, s)
			x[rnd.Intn(20)] ^= 1 << uint(rnd.Intn(8))
			return x
		}}, false},
		{"length-prefix-larger-than-data", g11lib.RawAttempt{User: target.user, Plugin: nat, Response: sized(5), LieAboutLength: 20}, false},
		{"length-prefix-beyond-packet", g11lib.RawAttempt{User: target.user, Plugin: nat, Response: right, LieAboutLength: 200}, false},
		{"unknown-plugin-then-right-scramble", g11lib.RawAttempt{User: target.user, Plugin: "bogus_plugin", Response: right}, true},
		{"unknown-plugin-then-truncated", g11lib.RawAttempt{User: target.user, Plugin: "bogus_plugin", Response: right, SwitchResponse: sized(7)}, false},
		{"sha2-plugin-then-wrong", g11lib.RawAttempt{User: target.user, Plugin: "caching_sha2_password", Response: right, SwitchResponse: func([]byte) []byte { return make([]byte, 20) }}, false},
		{"clear-password-plugin-with-cleartext", g11lib.RawAttempt{User: target.user, Plugin: "mysql_clear_password", Response: func([]byte) []byte { return append([]byte(pw), 0) }}, false},
		{"unknown-user-right-length", g11lib.RawAttempt{User: "nobody", Plugin: nat, Response: right}, false},
		{"unknown-user-truncated", g11lib.RawAttempt{User: "nobody", Plugin: nat, Response: sized(3)}, false},
	}
	for _, v := range vs {
		o := g11lib.RawLogin(srv.Addr, v.a)
		attempt := fmt.Sprintf("raw handshake as %q (account %s, password %q): %s", v.a.User, target.key(), pw, v.name)
		if o.Kind == "timeout" || strings.HasPrefix(o.Kind, "protocol:") {
			r.Inconclusive("raw client: " + strings.SplitN(o.Kind, ":", 3)[0] + " " + v.name)
			continue
		}
		r.Eval(1)
		switch {
		case v.wellFormed && o.Kind == "ok":
			r.Count("raw.control-accepted", 1)
			r.Distinct("raw|" + v.name + "|ok")
		case v.wellFormed:
			r.Violation("raw-well-formed-credentials-not-accepted:"+strings.SplitN(v.name, "-", 2)[0], wit(attempt, "ok", fmt.Sprintf("%+v", o), nil))
		case o.Kind == "ok":
			sig := "malformed-auth-response-accepted:" + v.name
			if strings.HasPrefix(v.name, "extended-") {
				// the first 20 bytes are the correct scramble, the rest is ignored by the server
				sig = "native-auth-response-with-trailing-bytes-accepted"
			}
			r.Violation(sig, wit(attempt, "rejected (error packet or connection closed)", fmt.Sprintf("%+v", o), nil))
		default:
			r.Count("raw.malformed-rejected", 1)
			r.Count("raw.rejected-by."+o.Kind, 1)
			if o.Kind == "closed" {
				r.Count("raw.closed-without-error-packet."+strings.SplitN(v.name, "-", 2)[0], 1)
			}
			r.Distinct("raw|" + v.name + "|" + o.Kind)
		}
	}
	// the server is still up and still authenticates
	got, db := login(srv, target.user, pw)
	r.Eval(1)
	if got != "accept" {
		r.Violation("server-does-not-accept-valid-login-after-malformed-responses", wit("login "+target.key()+" after the raw attempts", "accept", got, nil))
	} else {
		r.Count("server.alive-after-raw", 1)
		db.Close()
	}
}
