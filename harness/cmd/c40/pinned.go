package main

import (
	"fmt"

	"verif/harness/core"
	"verif/harness/g11lib"
)

// pinned replays the known findings of C40 (findings/C40.txt) on every run.
func pinned(r *core.Run) {
	f := g11lib.NewFix(nil)
	defer f.Close()
	for _, q := range []string{
		"CREATE USER 'pa'@'%' IDENTIFIED BY 'any-host-pw'",
		"CREATE USER 'pa'@'127.%' IDENTIFIED BY 'pattern-pw'",
		"CREATE USER 'pb'@'127.0.0._' IDENTIFIED BY 'underscore-pw'",
		"CREATE USER 'pc'@'localhost' IDENTIFIED BY 'pc-pw'",
	} {
		f.Root.MustExec(q)
	}
	srv, err := g11lib.StartExclusiveServer(f.E)
	if err != nil {
		r.Inconclusive("pinned: server did not start")
		return
	}
	defer srv.Close()
	try := func(u, p string) string {
		got, db := login(srv, u, p)
		if db != nil {
			db.Close()
		}
		return got
	}
	g1, g2 := try("pa", "pattern-pw"), try("pa", "any-host-pw")
	r.Pinned("less-specific-host-account-chosen",
		fmt.Sprintf("with 'pa'@'%%' (created first) and 'pa'@'127.%%', a client at 127.0.0.1 is authenticated against 'pa'@'%%' (password of 'pa'@'127.%%' -> %s, password of 'pa'@'%%' -> %s)", g1, g2),
		g1 != "accept" || g2 != "reject", map[string]any{"pattern_account_password": g1, "any_host_account_password": g2})
	g3 := try("pb", "underscore-pw")
	r.Pinned("underscore-host-wildcard-not-matched",
		fmt.Sprintf("'pb'@'127.0.0._' does not match a client at 127.0.0.1 (right password -> %s)", g3), g3 != "accept", map[string]any{"outcome": g3})
	o := g11lib.RawLogin(srv.Addr, g11lib.RawAttempt{User: "pc", Plugin: "mysql_native_password", Response: func(s []byte) []byte {
		return append(g11lib.NativeScramble("pc-pw", s), 0xde, 0xad, 0xbe, 0xef)
	}})
	r.Pinned("native-auth-response-with-trailing-bytes-accepted",
		fmt.Sprintf("a 24-byte mysql_native_password response whose first 20 bytes are the correct scramble is accepted (%s)", o.Kind), o.Kind == "ok", map[string]any{"outcome": fmt.Sprintf("%+v", o)})
	r.Count("pinned.replayed", 3)
}
