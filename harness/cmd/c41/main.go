// C41 — persisted accounts and grants reload identically.
// Oracle (metamorphic, engine A vs engine B): engine A runs a seeded account history (the C39 generator plus
// attributes that only matter to persistence) with a capturing MySQLDbPersistence; at checkpoints the last image
// handed to the persister is loaded with MySQLDb.LoadData into engine B, which has the same schema and no accounts.
// Then (1) the complete account state read through the Go API (every field of every account, every privilege at
// every level, every role edge) is equal, ephemeral accounts excepted; (2) SHOW GRANTS FOR every account is
// text-equal; (3) every probe statement of the C39 probe set gives the same outcome for every account; (4)
// password checks (MySQLDb.ValidateHash with right / wrong / empty passwords) agree; (5) persisting B again yields
// an image that decodes to the same content (fixpoint).
package main

import (
	"fmt"
	"net"
	"sort"
	"strings"

	"github.com/dolthub/go-mysql-server/sql"
	"github.com/dolthub/go-mysql-server/sql/mysql_db"

	"verif/harness/core"
	"verif/harness/g11lib"
)

type witness struct {
	Case    int      `json:"case"`
	History []string `json:"history_run_by_root_on_engine_A"`
	Edits   []string `json:"edits_through_the_Editor_API,omitempty"`
	What    string   `json:"what"`
	A       any      `json:"engine_A_before_persist"`
	B       any      `json:"engine_B_after_LoadData"`
}

func main() {
	r := core.NewRun("C41", "exploration",
		"each evaluation compares one observation between the engine that persisted and a fresh engine that loaded the image: one account's complete state, one SHOW GRANTS output, one (account, probe statement) outcome, one password check, or one re-persisted image; distinct = feature of the account state that went through the round trip (levels, dynamic privileges, lock, TLS fields, attributes, plugin, role edges, admin option)")
	r.Assume("the image is the last byte slice given to MySQLDbPersistence.Persist; it is loaded with MySQLDb.LoadData into an engine whose mysql database is empty")
	r.Assume("ephemeral super users must not be in the image; the super_user / user vector an account is stored in is not compared (LoadData documents that it does not restore the super-user flag)")
	r.Assume("column-level grants, dynamic privileges, lock flags, attributes and TLS subject/issuer/cipher are set through the Editor API (GRANT of column privileges and ALTER USER … ACCOUNT LOCK are not implemented in SQL)")
	r.Assume("the fixpoint is judged on the decoded content of the two images; byte equality is only counted (dynamic privileges are serialized in map order)")

	n := r.N(200, 4000)
	r.Parallel("state", n, func(i int) { runCase(r, i) })
	pinned(r)
	r.Floor(r.Counter("checkpoint") >= int64(n), "fewer checkpoints than cases")
	r.Floor(r.Counter("probe.compared") > 1000, "fewer than 1000 probe outcomes compared")
	r.Floor(r.Counter("probe.allowed-in-both") > 100, "fewer than 100 probes allowed in both engines")
	r.Floor(r.Counter("password.accepted-in-both") > 20, "fewer than 20 password checks accepted in both engines")
	r.Floor(r.Counter("image.bytes") > 0, "no image captured")
	r.Finish()
}

func runCase(r *core.Run, i int) {
	rnd := r.Rand("state", i)
	capA := &g11lib.Capture{}
	a := g11lib.NewFix(capA)
	defer a.Close()
	m := g11lib.NewModel()
	g := &g11lib.Gen{Rnd: rnd, M: m, Rich: true, NoRegrant: true}
	var hist, edits []string
	steps := 6 + rnd.Intn(12)
	mid := steps / 2
	for s := 0; s < steps; s++ {
		st := g.Next(false)
		hist = append(hist, st.SQL)
		res := a.Root.Exec(st.SQL)
		cls := g11lib.Classify(res)
		if (cls == g11lib.OutOK) == st.ExpectErr {
			// C39's subject; here the two engines only have to agree, but the model no longer describes A
			r.Count("history.step-outcome-differs-from-model", 1)
		}
		// extra SQL that matters to persistence
		switch rnd.Intn(9) {
		case 0:
			if us := userKeys(m); len(us) > 0 {
				u := m.Acc[us[rnd.Intn(len(us))]]
				q := fmt.Sprintf("GRANT REPLICATION_SLAVE_ADMIN ON *.* TO %s", u.SQLName())
				if rnd.Intn(2) == 0 {
					q += " WITH GRANT OPTION"
				}
				hist = append(hist, q)
				a.Root.Exec(q)
			}
		case 1:
			if us := userKeys(m); len(us) > 0 {
				u := m.Acc[us[rnd.Intn(len(us))]]
				pw := []string{"changed", "", "x y"}[rnd.Intn(3)]
				q := fmt.Sprintf("ALTER USER %s IDENTIFIED BY '%s'", u.SQLName(), pw)
				hist = append(hist, q)
				if res := a.Root.Exec(q); !res.Failed() {
					u.Password = pw
					u.Plugin = "mysql_native_password"
				}
			}
		}
		if s == mid || s == steps-1 {
			if s == steps-1 {
				edits = apiEdits(r, rnd, a, m)
			}
			checkpoint(r, i, a, capA, m, hist, edits)
		}
	}
}

func userKeys(m *g11lib.Model) []string {
	var out []string
	for _, k := range m.Keys() {
		out = append(out, k)
	}
	return out
}

// apiEdits changes accounts of engine A through the Editor API and persists.
func apiEdits(r *core.Run, rnd interface{ Intn(int) int }, a *g11lib.Fix, m *g11lib.Model) []string {
	var log []string
	ctx := a.Root.Ctx()
	ed := a.Mdb.Editor()
	defer ed.Close()
	keys := m.Keys()
	nEd := rnd.Intn(4)
	for k := 0; k < nEd && len(keys) > 0; k++ {
		acc := m.Acc[keys[rnd.Intn(len(keys))]]
		u, ok := ed.GetUser(mysql_db.UserPrimaryKey{Host: acc.Host, User: acc.Name})
		if !ok {
			continue
		}
		// the set replaces an entry only when it is handed the stored pointer (Editor.PutUser looks the old entry up by
		// full equality), so — like the engine's own GRANT code — the account is changed in place
		cp := u
		what := ""
		switch rnd.Intn(8) {
		case 0:
			cp.Locked = !cp.Locked
			what = fmt.Sprintf("Locked=%v", cp.Locked)
		case 1:
			s := []string{`{"comment": "made by the harness"}`, "", `{"a": [1, 2, {"b": null}], "ü": "ß"}`}[rnd.Intn(3)]
			cp.Attributes = &s
			what = fmt.Sprintf("Attributes=%q", s)
		case 2:
			cp.SslType, cp.SslCipher, cp.X509Issuer, cp.X509Subject = "SPECIFIED", "ECDHE-RSA-AES128", "/CN=ca/O=x", "/CN=client"
			what = "TLS cipher/issuer/subject"
		case 3:
			cp.PrivilegeSet.AddColumn("d", "t1", "id", sql.PrivilegeType_Select)
			cp.PrivilegeSet.AddColumn("d", "t1", "v", sql.PrivilegeType_Update, sql.PrivilegeType_Insert)
			what = "column privileges d.t1.id{SELECT} d.t1.v{UPDATE,INSERT}"
		case 4:
			cp.PrivilegeSet.AddGlobalDynamic(true, "replication_slave_admin")
			cp.PrivilegeSet.AddGlobalDynamic(false, "binlog_admin", "clone_admin")
			what = "dynamic privileges replication_slave_admin(wgo), binlog_admin, clone_admin"
		case 5:
			cp.PrivilegeSet.AddRoutine("d", "f1", false, sql.PrivilegeType_Execute, sql.PrivilegeType_GrantOption)
			cp.PrivilegeSet.AddRoutine("d2", "p9", true, sql.PrivilegeType_AlterRoutine)
			what = "routine privileges FUNCTION d.f1{EXECUTE,GRANT OPTION} PROCEDURE d2.p9{ALTER ROUTINE}"
		case 6:
			cp.Identity = "identity-" + acc.Name
			what = "Identity"
		case 7:
			cp.PrivilegeSet.AddDatabase("Mixed_Case_DB", sql.PrivilegeType_Select)
			cp.PrivilegeSet.AddTable("d", "Tbl-with space", sql.PrivilegeType_Insert)
			what = "database/table names with upper case and spaces"
		}
		ed.PutUser(cp)
		log = append(log, acc.Key()+": "+what)
		r.Distinct("api-edit|" + strings.SplitN(what, "=", 2)[0])
	}
	if rnd.Intn(3) == 0 {
		a.Mdb.AddEphemeralSuperUser(ed, "eph", "localhost", "ephpw")
		log = append(log, "AddEphemeralSuperUser eph@localhost")
		r.Distinct("ephemeral-super-user")
	}
	if rnd.Intn(4) == 0 {
		a.Mdb.AddSuperUser(ed, "super2", "%", "s2pw")
		log = append(log, "AddSuperUser super2@%")
		r.Distinct("second-super-user")
	}
	if err := a.Mdb.Persist(ctx, ed); err != nil {
		r.Violation("persist-returns-error", map[string]any{"error": err.Error(), "edits": log})
	}
	return log
}

// fingerprintWithoutEphemeral is AccountFingerprint minus the accounts that must not be persisted.
func fingerprintWithoutEphemeral(mdb *mysql_db.MySQLDb) []string {
	rd := mdb.Reader()
	defer rd.Close()
	var lines []string
	rd.VisitUsers(func(u *mysql_db.User) {
		if !u.IsEphemeral {
			lines = append(lines, g11lib.UserLine(u))
		}
	})
	eph := map[string]bool{}
	rd.VisitUsers(func(u *mysql_db.User) {
		if u.IsEphemeral {
			eph[u.User+"@"+u.Host] = true
		}
	})
	rd.VisitRoleEdges(func(e *mysql_db.RoleEdge) {
		lines = append(lines, fmt.Sprintf("edge %s@%s -> %s@%s admin=%v", e.FromUser, e.FromHost, e.ToUser, e.ToHost, e.WithAdminOption))
	})
	sort.Strings(lines)
	return lines
}

type acct struct{ name, host string }

func listAccounts(mdb *mysql_db.MySQLDb) []acct {
	rd := mdb.Reader()
	defer rd.Close()
	var out []acct
	rd.VisitUsers(func(u *mysql_db.User) {
		if !u.IsEphemeral {
			out = append(out, acct{u.User, u.Host})
		}
	})
	sort.Slice(out, func(i, j int) bool { return out[i].name+"@"+out[i].host < out[j].name+"@"+out[j].host })
	return out
}

func checkpoint(r *core.Run, i int, a *g11lib.Fix, capA *g11lib.Capture, m *g11lib.Model, hist, edits []string) {
	r.Count("checkpoint", 1)
	img, calls := capA.Last()
	r.Count("image.bytes", int64(len(img)))
	r.Count("persist.calls", int64(calls))
	wit := func(what string, av, bv any) witness {
		return witness{Case: i, History: append([]string{}, hist...), Edits: edits, What: what, A: av, B: bv}
	}
	capB := &g11lib.Capture{}
	b := g11lib.NewFixNoAccounts(capB)
	defer b.Close()
	if err := b.Mdb.LoadData(b.Root.Ctx(), img); err != nil {
		r.Eval(1)
		r.Violation("loaddata-rejects-persisted-image", wit("LoadData error: "+err.Error(), len(img), nil))
		return
	}

	// (1) complete account state
	fa, fb := fingerprintWithoutEphemeral(a.Mdb), fingerprintWithoutEphemeral(b.Mdb)
	if i < 3 {
		r.Sample(map[string]any{"history": hist, "api_edits": edits, "image_bytes": len(img), "persist_calls": calls,
			"state_lines_engine_A": core.ClipStrings(fa, 6), "equal_after_LoadData": len(diffLines(fa, fb)) == 0})
	}
	r.Eval(1)
	if d := diffLines(fa, fb); len(d) > 0 {
		r.Violation("account-state-differs:"+classifyStateDiff(d), wit("account state read through the Go API differs (- only in A, + only in B)", nil, d))
	}
	for _, l := range fa {
		noteFeatures(r, l)
	}
	// ephemeral accounts must not arrive in B
	{
		rd := b.Mdb.Reader()
		_, ok := rd.GetUser(mysql_db.UserPrimaryKey{Host: "localhost", User: "eph"})
		rd.Close()
		r.Eval(1)
		if ok {
			r.Violation("ephemeral-super-user-was-persisted", wit("eph@localhost exists after reload", nil, nil))
		}
	}

	// (2) SHOW GRANTS, (3) probe outcomes, (4) password checks — for every account of A
	accts := listAccounts(a.Mdb)
	for _, ac := range accts {
		ga, ea := g11lib.ShowGrantsOn(a.Root, ac.name, ac.host)
		gb, eb := g11lib.ShowGrantsOn(b.Root, ac.name, ac.host)
		r.Eval(1)
		if fmt.Sprint(ea) != fmt.Sprint(eb) || !core.SameStrings(ga, gb) {
			r.Violation("show-grants-differs-after-reload", wit("SHOW GRANTS FOR "+ac.name+"@"+ac.host, map[string]any{"rows": ga, "err": fmt.Sprint(ea)}, map[string]any{"rows": gb, "err": fmt.Sprint(eb)}))
		} else if len(ga) > 1 {
			r.Distinct(fmt.Sprintf("show-grants-equal|lines=%d", len(ga)))
		}
		if ac.name == "root" || ac.name == "sink" {
			continue
		}
		host := ac.host
		if host == "%" {
			host = "10.1.2.3"
		}
		sa, sb := a.FreshSess(ac.name, host), b.FreshSess(ac.name, host)
		for _, p := range g11lib.Probes {
			oa := g11lib.Classify(sa.Exec(p.SQL))
			ob := g11lib.Classify(sb.Exec(p.SQL))
			r.Eval(1)
			r.Count("probe.compared", 1)
			if oa != ob {
				r.Violation("probe-outcome-differs-after-reload:"+p.Kind, wit(p.SQL+" as "+ac.name+"@"+host, oa, ob))
			} else if oa == g11lib.OutOK {
				r.Count("probe.allowed-in-both", 1)
				r.Distinct("probe-allowed-in-both|" + p.Kind)
			}
			if oa == g11lib.OutOK {
				for _, q := range p.Restore {
					a.Root.Exec(q)
				}
			}
			if ob == g11lib.OutOK {
				for _, q := range p.Restore {
					b.Root.Exec(q)
				}
			}
		}
	}
	salt := []byte("01234567890123456789")
	addr := &net.TCPAddr{IP: net.IPv4(127, 0, 0, 1), Port: 40000}
	for _, ac := range accts {
		mp := ""
		if ma := m.Acc[ac.name+"@"+ac.host]; ma != nil {
			mp = ma.Password
		}
		if ac.name == "super2" {
			mp = "s2pw"
		}
		for _, pw := range []string{mp, "", "wrong", mp + "x"} {
			_, ea := a.Mdb.ValidateHash(salt, ac.name, g11lib.NativeScramble(pw, salt), addr)
			_, eb := b.Mdb.ValidateHash(salt, ac.name, g11lib.NativeScramble(pw, salt), addr)
			r.Eval(1)
			if (ea == nil) != (eb == nil) {
				r.Violation("password-check-differs-after-reload", wit(fmt.Sprintf("ValidateHash(%s from 127.0.0.1, password %q)", ac.name, pw), fmt.Sprint(ea), fmt.Sprint(eb)))
			} else if ea == nil {
				r.Count("password.accepted-in-both", 1)
			} else {
				r.Count("password.rejected-in-both", 1)
			}
		}
	}

	// (5) fixpoint: persist B, decode both images
	if res := b.Root.Exec("FLUSH PRIVILEGES"); res.Failed() {
		r.Violation("flush-privileges-fails-after-reload", wit(fmt.Sprint(res.Err), nil, nil))
		return
	}
	img2, _ := capB.Last()
	d1, e1 := g11lib.DecodeImage(img)
	d2, e2 := g11lib.DecodeImage(img2)
	r.Eval(1)
	if e1 != nil || e2 != nil {
		r.Violation("image-not-decodable", wit(fmt.Sprintf("decode errors: %v / %v", e1, e2), len(img), len(img2)))
		return
	}
	if d := diffLines(d1, d2); len(d) > 0 {
		r.Violation("re-persisted-image-differs:"+classifyStateDiff(d), wit("decoded content of the image persisted by B differs from the image it loaded (- first image, + second image)", nil, d))
	} else if string(img) == string(img2) {
		r.Count("fixpoint.byte-identical", 1)
	} else {
		r.Count("fixpoint.same-content-different-bytes", 1)
	}
	// the image itself must describe engine A
	r.Eval(1)
	if d := diffLines(fa, d1); len(d) > 0 {
		r.Violation("image-differs-from-persisting-engine:"+classifyStateDiff(d), wit("decoded image vs. engine A's state (- A, + image)", nil, d))
	}
}

func diffLines(a, b []string) []string {
	ma, mb := map[string]int{}, map[string]int{}
	for _, x := range a {
		ma[x]++
	}
	for _, x := range b {
		mb[x]++
	}
	var out []string
	for x, n := range ma {
		for k := mb[x]; k < n; k++ {
			out = append(out, "- "+x)
		}
	}
	for x, n := range mb {
		for k := ma[x]; k < n; k++ {
			out = append(out, "+ "+x)
		}
	}
	sort.Strings(out)
	return out
}

// classifyStateDiff names what differs, narrowly: which kind of line, and for edges whether only the admin flag.
func classifyStateDiff(d []string) string {
	onlyEdges, onlyUsers := true, true
	for _, l := range d {
		if strings.HasPrefix(l[2:], "edge ") {
			onlyUsers = false
		} else {
			onlyEdges = false
		}
	}
	if onlyEdges {
		strip := func(l string) string {
			return strings.TrimSuffix(strings.TrimSuffix(l[2:], "admin=true"), "admin=false")
		}
		minus, plus := map[string]bool{}, map[string]bool{}
		for _, l := range d {
			if l[0] == '-' {
				minus[strip(l)] = true
			} else {
				plus[strip(l)] = true
			}
		}
		same := len(minus) == len(plus)
		for k := range minus {
			if !plus[k] {
				same = false
			}
		}
		if same {
			// the same edges on both sides, only the admin flag differs
			return "role-edge-admin-option-lost"
		}
		return "role-edges"
	}
	if onlyUsers {
		// which field of the account line differs
		fields := map[string]bool{}
		byAcct := map[string][2]string{}
		for _, l := range d {
			name := strings.Fields(l[2:])[1]
			e := byAcct[name]
			if l[0] == '-' {
				e[0] = l[2:]
			} else {
				e[1] = l[2:]
			}
			byAcct[name] = e
		}
		for _, e := range byAcct {
			if e[0] == "" {
				fields["account-appeared"] = true
				continue
			}
			if e[1] == "" {
				fields["account-missing"] = true
				continue
			}
			ha, pa, _ := strings.Cut(e[0], " privs=")
			hb, pb, _ := strings.Cut(e[1], " privs=")
			if ha != hb {
				// fields before the privilege set: name of the first one that differs
				fa, fb := strings.SplitN(ha, " ", 6), strings.SplitN(hb, " ", 6) // user name locked plugin auth rest
				named := false
				for k := 2; k < len(fa) && k < len(fb) && k < 5; k++ {
					if fa[k] != fb[k] {
						fields[strings.SplitN(fa[k], "=", 2)[0]] = true
						named = true
						break
					}
				}
				if !named {
					fields["identity-tls-or-attributes"] = true
				}
			}
			if pa != pb {
				fields["privileges"] = true
			}
		}
		var fs []string
		for f := range fields {
			fs = append(fs, f)
		}
		sort.Strings(fs)
		return "account:" + strings.Join(fs, "+")
	}
	return "accounts-and-edges"
}

func noteFeatures(r *core.Run, line string) {
	if strings.HasPrefix(line, "edge ") {
		if strings.HasSuffix(line, "admin=true") {
			r.Distinct("roundtrip|role-edge-with-admin-option")
		} else {
			r.Distinct("roundtrip|role-edge")
		}
		return
	}
	for _, f := range []struct{ frag, name string }{
		{"locked=true", "locked"}, {"plugin=caching_sha2_password", "caching-sha2"}, {"auth=*", "native-hash"}, {"ssl=ANY", "require-ssl"},
		{"ssl=X509", "require-x509"}, {"ssl=SPECIFIED", "tls-fields"}, {"attr={", "attributes"}, {"attr= ", "empty-attributes"},
		{"identity=identity-", "identity"}, {" PROCEDURE ", "procedure-level"}, {" FUNCTION ", "function-level"},
		{"d.t1.id{", "column-level"}, {"dyn{REPLICATION", "dynamic-with-grant-option"}, {"BINLOG_ADMIN", "dynamic-plain"},
		{" d.*{", "db-level"}, {" d.t1{", "table-level"}, {"mixed_case_db", "mixed-case-name"}, {"GRANT OPTION", "grant-option"},
	} {
		if strings.Contains(line, f.frag) {
			r.Distinct("roundtrip|" + f.name)
		}
	}
	if !strings.Contains(line, "privs=*.*{}") {
		r.Distinct("roundtrip|global-level")
	}
}

// pinned replays the known findings of C41.
func pinned(r *core.Run) {
	capA := &g11lib.Capture{}
	a := g11lib.NewFix(capA)
	defer a.Close()
	for _, q := range []string{"CREATE USER pu1", "CREATE ROLE pr1", "GRANT pr1 TO pu1 WITH ADMIN OPTION"} {
		a.Root.MustExec(q)
	}
	img, _ := capA.Last()
	capB := &g11lib.Capture{}
	b := g11lib.NewFixNoAccounts(capB)
	defer b.Close()
	failed := false
	obs := ""
	if err := b.Mdb.LoadData(b.Root.Ctx(), img); err != nil {
		failed, obs = true, "LoadData: "+err.Error()
	} else {
		d := diffLines(fingerprintWithoutEphemeral(a.Mdb), fingerprintWithoutEphemeral(b.Mdb))
		failed = len(d) > 0
		obs = strings.Join(d, " ; ")
	}
	// the same witness at the fixpoint check, and its effect on an allow/deny decision
	b.Root.Exec("FLUSH PRIVILEGES")
	obs2, failed2 := "", false
	if capB != nil {
		img2, _ := capB.Last()
		d1, _ := g11lib.DecodeImage(img)
		d2, _ := g11lib.DecodeImage(img2)
		d := diffLines(d1, d2)
		failed2 = len(d) > 0
		obs2 = strings.Join(d, " ; ")
	}
	ga := g11lib.Classify(a.FreshSess("pu1", "localhost").Exec("GRANT pr1 TO 'sink'@'%'"))
	gb := g11lib.Classify(b.FreshSess("pu1", "localhost").Exec("GRANT pr1 TO 'sink'@'%'"))
	obs += fmt.Sprintf(" ; GRANT pr1 TO sink as pu1: %s before, %s after reload", ga, gb)
	r.Pinned("re-persisted-image-differs:role-edge-admin-option-lost", "the image persisted after a reload has lost WITH ADMIN OPTION ("+obs2+")", failed2,
		map[string]any{"setup": "as above, then FLUSH PRIVILEGES on the reloaded engine", "diff": obs2})
	r.Pinned("account-state-differs:role-edge-admin-option-lost", "WITH ADMIN OPTION of a role edge is written to the image but not read back ("+obs+")", failed,
		map[string]any{"setup": "CREATE USER pu1; CREATE ROLE pr1; GRANT pr1 TO pu1 WITH ADMIN OPTION; persist; LoadData into a fresh engine", "diff": obs})
}
