// C42 — read-only modes block every write and nothing else.
//
// Oracle (metamorphic, twin engines): every statement of the catalogue is executed once on a
// writable twin and once on an identically prepared engine that is in one of four read-only modes
// (Engine.ReadOnly, Engine.IsServerLocked, START TRANSACTION READ ONLY, memory.ReadOnlyDatabase).
//   - the read-only engine's database fingerprint (all rows + catalog listing) must never change;
//   - if the twin's fingerprint changed, the statement is a write by observation and the read-only
//     engine must have rejected it with an error (a panic is not a rejection);
//   - statements that are read-only by kind must succeed with the same result as on the twin.
//
// Not asserted: CALL (rejected wholesale by the engine modes), SET GLOBAL, account statements
// (recorded only), writes-by-kind that are no-ops on this data.
package main

import (
	"fmt"
	"os"
	"path/filepath"
	"sort"
	"strings"
	"sync/atomic"
	"time"

	"github.com/dolthub/go-mysql-server/memory"
	"github.com/dolthub/go-mysql-server/sql"
	"github.com/dolthub/go-mysql-server/sql/analyzer/analyzererrors"

	"verif/harness/core"
	"verif/harness/g9blib"
)

const (
	modeEngineRO = "engine-ro"
	modeLocked   = "server-locked"
	modeTxnRO    = "txn-ro"
	modeDbRO     = "db-ro"
)

var modes = []string{modeEngineRO, modeLocked, modeTxnRO, modeDbRO}

// params is one parameterisation of the setup and of the literals in the templates.
type params struct {
	idx           int
	qualify       bool // the session's current database is `other`; every object of d is written d.name
	autocommitOff bool
	sfx           string // suffix of object names
	nrows         int
	vals          []int
	words         []string
	new1, new2    int
}

var wordPool = []string{"apple", "moon", "dog", "it''s", "back\\\\slash", "ünï", "x y", "Zed", "", "NULLish"}

func makeParams(r *core.Run, idx int) *params {
	p := &params{idx: idx}
	if idx == 0 {
		p.nrows, p.vals, p.words = 3, []int{10, 20, 30, 40, 50, 60}, []string{"apple", "moon", "dog", "cat", "sun", "tree"}
		p.new1, p.new2 = 101, 102
		return p
	}
	rnd := r.Rand("params", idx)
	p.qualify = idx%2 == 1
	p.autocommitOff = idx%4 >= 2
	if rnd.Intn(2) == 0 {
		p.sfx = []string{"_x", "2", " sp", "Q"}[rnd.Intn(4)]
	}
	p.nrows = 2 + rnd.Intn(5)
	for i := 0; i < 6; i++ {
		p.vals = append(p.vals, rnd.Intn(200)-20)
		p.words = append(p.words, wordPool[rnd.Intn(len(wordPool))])
	}
	p.new1 = 100 + rnd.Intn(400)
	p.new2 = p.new1 + 1 + rnd.Intn(50)
	return p
}

func (p *params) obj(name string) string {
	q := g9blib.QuoteIdent(name + p.sfx)
	if p.qualify {
		return "`d`." + q
	}
	return q
}

func (p *params) bare(name string) string { return g9blib.QuoteIdent(name + p.sfx) }

// expand substitutes the placeholders of a template.
func (p *params) expand(s string, loadfile, outfile string) string {
	rep := strings.NewReplacer(
		"{t}", p.obj("t"), "{u}", p.obj("u"), "{lg}", p.obj("lg"), "{lg2}", p.obj("lg2"), "{np}", p.obj("np"),
		"{ft}", p.obj("ft"), "{ta}", p.obj("ta"), "{v}", p.obj("v"), "{nv}", p.obj("nv"), "{nt}", p.obj("nt"), "{nt2}", p.obj("nt2"),
		"{tmp}", p.obj("tmp"), "{o}", "`other`.`o`", "{othernt}", "`other`.`ont`",
		"{trg}", p.obj("trg"), "{trgbare}", p.bare("trg"), "{ntrg}", p.obj("ntrg"),
		"{pw}", p.obj("pw"), "{pr}", p.obj("pr"), "{pd}", p.obj("pd"), "{npn}", p.obj("npn"),
		"{ev}", p.obj("ev"), "{nev}", p.obj("nev"),
		"{new1}", fmt.Sprint(p.new1), "{new2}", fmt.Sprint(p.new2),
		"{v1}", fmt.Sprint(p.vals[0]), "{v2}", fmt.Sprint(p.vals[1]),
		"{s1}", "'"+p.words[0]+"'", "{s2}", "'"+p.words[1]+"'",
		"{loadfile}", loadfile, "{outfile}", outfile, "{idx}", fmt.Sprint(p.idx),
	)
	return rep.Replace(s)
}

// setupSQL builds database d (and `other`) for a parameterisation. Every name is fully qualified so
// the statements work whatever the current database is.
func (p *params) setupSQL() []string {
	q := func(n string) string { return "`d`." + g9blib.QuoteIdent(n+p.sfx) }
	var out []string
	add := func(f string, a ...any) { out = append(out, fmt.Sprintf(f, a...)) }
	add("CREATE TABLE %s (id INT PRIMARY KEY, a INT, s VARCHAR(20), KEY ia (a), CONSTRAINT ck1 CHECK (a > -1000))", q("t"))
	add("CREATE TABLE %s (id INT PRIMARY KEY, tid INT, KEY itid (tid), CONSTRAINT fk1 FOREIGN KEY (tid) REFERENCES %s (id) ON DELETE CASCADE ON UPDATE CASCADE)", q("u"), q("t"))
	add("CREATE TABLE %s (n INT PRIMARY KEY AUTO_INCREMENT, msg VARCHAR(50))", q("lg"))
	add("CREATE TABLE %s (n INT PRIMARY KEY, msg VARCHAR(50) DEFAULT 'dm')", q("lg2"))
	add("CREATE TABLE %s (a INT NOT NULL, b INT)", q("np"))
	add("CREATE TABLE %s (id INT PRIMARY KEY, doc TEXT, doc2 TEXT, FULLTEXT KEY ftk (doc))", q("ft"))
	for i := 1; i <= p.nrows; i++ {
		add("INSERT INTO %s VALUES (%d, %d, '%s')", q("t"), i, p.vals[i%len(p.vals)]+1000*0, p.words[i%len(p.words)])
	}
	for i := 1; i <= p.nrows; i++ {
		add("INSERT INTO %s VALUES (%d, %d)", q("u"), i, 1+(i*7)%p.nrows)
	}
	add("INSERT INTO %s (msg) VALUES ('first'), ('second')", q("lg"))
	add("INSERT INTO %s VALUES (1, 'one'), (2, 'two')", q("lg2"))
	add("INSERT INTO %s VALUES (%d, 1), (%d, 2), (%d, 3)", q("np"), 2000+p.vals[2], 3000+p.vals[3], 4000+p.vals[4])
	add("INSERT INTO %s VALUES (1, 'apple moon', 'x'), (2, 'dog apple', 'y'), (3, 'sun', 'z')", q("ft"))
	add("CREATE VIEW %s AS SELECT id, a FROM %s WHERE a > -500", q("v"), q("t"))
	add("CREATE TRIGGER %s AFTER INSERT ON %s FOR EACH ROW INSERT INTO %s (msg) VALUES (concat('ins ', NEW.id))", q("trg"), q("t"), q("lg"))
	// a table whose AFTER triggers write nothing: the trigger executor, not the DML node, is then the root of the plan
	add("CREATE TABLE %s (id INT PRIMARY KEY, a INT)", q("ta"))
	add("INSERT INTO %s VALUES (1, %d), (2, %d), (3, %d)", q("ta"), p.vals[0], p.vals[1], p.vals[2])
	add("CREATE TRIGGER %s AFTER INSERT ON %s FOR EACH ROW SET @c42ai = NEW.id", q("tai"), q("ta"))
	add("CREATE TRIGGER %s AFTER UPDATE ON %s FOR EACH ROW SET @c42au = NEW.a + OLD.a", q("tau"), q("ta"))
	add("CREATE TRIGGER %s AFTER DELETE ON %s FOR EACH ROW SET @c42ad = OLD.id", q("tad"), q("ta"))
	add("CREATE PROCEDURE %s(x INT) INSERT INTO %s VALUES (x, x, 'proc')", q("pw"), q("t"))
	add("CREATE PROCEDURE %s() SELECT count(*) FROM %s", q("pr"), q("t"))
	add("CREATE PROCEDURE %s() BEGIN UPDATE %s SET b = b + 1; DELETE FROM %s WHERE n = 1; END", q("pd"), q("np"), q("lg2"))
	add("CREATE EVENT %s ON SCHEDULE EVERY 1 DAY DISABLE DO INSERT INTO %s (msg) VALUES ('ev')", q("ev"), q("lg"))
	add("CREATE TABLE `other`.`o` (id INT PRIMARY KEY, b INT)")
	add("INSERT INTO `other`.`o` VALUES (1, %d), (2, %d)", p.vals[0], p.vals[1])
	return out
}

var acctSetup = []string{
	"CREATE USER 'c42u1'@'localhost' IDENTIFIED BY 'pw'",
	"CREATE ROLE c42r1",
	"GRANT SELECT ON other.* TO 'c42u1'@'localhost'",
}

// env is one prepared engine with the session the statement under test runs on.
type env struct {
	e       *core.Eng
	s       *core.Sess
	newSess func() *core.Sess
}

// unwrapProvider is the database provider handed to memory sessions of the db-ro engine: the engine
// (analyzer, catalog) sees memory.ReadOnlyDatabase, while the session's commit hook — which only
// knows *memory.Database / *memory.HistoryDatabase and otherwise fails every statement, reads
// included, with "unknown database type memory.ReadOnlyDatabase" (findings/C42.md) — gets the
// wrapped database.
type unwrapProvider struct{ sql.DatabaseProvider }

func (p unwrapProvider) Database(ctx *sql.Context, name string) (sql.Database, error) {
	db, err := p.DatabaseProvider.Database(ctx, name)
	if ro, ok := db.(memory.ReadOnlyDatabase); ok {
		return ro.HistoryDatabase, nil
	}
	return db, err
}

var connIDs uint32 = 1 << 24

func sessWith(e *core.Eng, pro sql.DatabaseProvider) *core.Sess {
	id := atomic.AddUint32(&connIDs, 1)
	bs := sql.NewBaseSessionWithClientServer("verif", sql.Client{User: "root", Address: "localhost"}, id)
	ms := memory.NewSession(bs, pro)
	ms.SetCurrentDatabase(e.DB)
	return &core.Sess{Eng: e, S: ms, ID: id, User: "root"}
}

// build prepares an engine for (mode, parameterisation). readOnly=false builds the writable twin.
func build(mode string, p *params, readOnly bool) (*env, error) {
	var main sql.Database
	var hist *memory.HistoryDatabase
	if mode == modeDbRO {
		hist = memory.NewHistoryDatabase("d")
		main = hist
	} else {
		main = memory.NewDatabase("d")
	}
	other := memory.NewDatabase("other")
	e := g9blib.NewEng(main, other)
	newSess := e.NewSess
	s := e.NewSess()
	for _, q := range p.setupSQL() {
		if r := s.Exec(q); r.Failed() {
			e.Close()
			return nil, fmt.Errorf("setup failed: %s: %v", q, r.Err)
		}
	}
	if mode == modeDbRO && readOnly {
		// same database objects, d wrapped as a read-only database, fresh engine
		e.Close()
		e = g9blib.NewEng(memory.ReadOnlyDatabase{HistoryDatabase: hist}, other)
		roEng := e
		newSess = func() *core.Sess { return sessWith(roEng, unwrapProvider{roEng.Pro}) }
		s = newSess()
	}
	for _, q := range acctSetup {
		if r := s.Exec(q); r.Failed() {
			e.Close()
			return nil, fmt.Errorf("account setup failed: %s: %v", q, r.Err)
		}
	}
	s = newSess()
	if p.qualify {
		if r := s.Exec("USE other"); r.Failed() {
			e.Close()
			return nil, fmt.Errorf("USE other failed: %v", r.Err)
		}
	}
	if p.autocommitOff {
		if r := s.Exec("SET autocommit = 0"); r.Failed() {
			e.Close()
			return nil, fmt.Errorf("SET autocommit failed: %v", r.Err)
		}
	}
	return &env{e: e, s: s, newSess: newSess}, nil
}

// enter switches the prepared engine/session into the mode (the twin gets the writable equivalent).
func (v *env) enter(mode string, readOnly bool) error {
	switch mode {
	case modeEngineRO:
		if readOnly {
			v.e.E.ReadOnly.Store(true)
		}
	case modeLocked:
		if readOnly {
			v.e.E.IsServerLocked = true
		}
	case modeTxnRO:
		q := "START TRANSACTION"
		if readOnly {
			q = "START TRANSACTION READ ONLY"
		}
		if r := v.s.Exec(q); r.Failed() {
			return fmt.Errorf("%s failed: %v", q, r.Err)
		}
	}
	return nil
}

// leave makes pending effects visible before the final fingerprint: COMMIT on the statement's session.
func (v *env) leave() { v.s.Exec("COMMIT") }

func rejectionKind(err error) string {
	switch {
	case err == nil:
		return ""
	case sql.ErrReadOnly.Is(err):
		return "ErrReadOnly"
	case sql.ErrDatabaseWriteLocked.Is(err):
		return "ErrDatabaseWriteLocked"
	case sql.ErrReadOnlyTransaction.Is(err):
		return "ErrReadOnlyTransaction"
	case analyzererrors.ErrReadOnlyDatabase.Is(err):
		return "ErrReadOnlyDatabase"
	}
	return "other-error"
}

// outcome is everything observed for one (template, mode, parameterisation).
type outcome struct {
	Mode, Kind, Group, Class, SQL string
	Via                           string // "query" = Engine.Query; "bound" = Engine.BoundQueryPlan + PrepQueryPlanForExecution (the ComExecuteBound path)
	Pre                           []string
	Param                         int
	TwinErr, RoErr                string
	RoPanic                       string
	RoPanicSig                    string
	TwinChanged, RoChanged        bool
	TwinDiff, RoDiff              []string
	TwinRows, RoRows              []string
	Inconclusive                  string
}

func errText(r *core.Result) string {
	switch {
	case r.Panic != nil:
		return "PANIC " + r.Panic.Value + " @ " + r.Panic.Site
	case r.TimedOut:
		return "TIMEOUT"
	case r.Err != nil:
		return r.Err.Error()
	}
	return ""
}

// execBound runs a statement the way server.Handler.ComExecuteBound does: bind + analyze first
// (Engine.BoundQueryPlan), then hand the analyzed plan to Engine.PrepQueryPlanForExecution — the
// second call site of readOnlyCheck.
func execBound(s *core.Sess, q string) *core.Result {
	res := &core.Result{SQL: q}
	done := make(chan struct{})
	go func() {
		defer close(done)
		defer func() {
			if rec := recover(); rec != nil {
				res.Panic = core.CapturePanic(rec)
			}
		}()
		ctx := s.Ctx()
		parsed, _, err := s.Eng.E.Parser.ParseOneWithOptions(ctx, q, sql.LoadSqlMode(ctx).ParserOptions())
		if err != nil {
			res.Err = err
			return
		}
		node, err := s.Eng.E.BoundQueryPlan(ctx, q, parsed, nil)
		if err != nil {
			res.Err = err
			return
		}
		sch, iter, _, err := s.Eng.E.PrepQueryPlanForExecution(ctx, q, node, nil)
		if err != nil {
			res.Err = err
			return
		}
		res.Schema = sch
		rows, err := sql.RowIterToRows(ctx, iter)
		if err != nil {
			res.Err = err
			return
		}
		res.Rows = rows
	}()
	select {
	case <-done:
		return res
	case <-time.After(core.StmtTimeout):
		return &core.Result{SQL: q, TimedOut: true}
	}
}

func observe(r *core.Run, mode, via string, t tmpl, p *params, caseNo int) *outcome {
	o := &outcome{Mode: mode, Via: via, Kind: t.kind, Group: t.group, Class: t.class, Param: p.idx}
	scope := ""
	if mode == modeDbRO {
		scope = "d" // other databases of the engine stay writable in this mode
	}
	loadfile := filepath.Join(r.Scratch(), fmt.Sprintf("load-%d.csv", caseNo))
	os.WriteFile(loadfile, []byte(fmt.Sprintf("%d,5,lo\n%d,6,ad\n", p.new1+600, p.new1+601)), 0o644)
	defer os.Remove(loadfile)

	w, err := build(mode, p, false)
	if err != nil {
		o.Inconclusive = "twin-" + err.Error()
		return o
	}
	defer w.e.Close()
	ro, err := build(mode, p, true)
	if err != nil {
		o.Inconclusive = "ro-" + err.Error()
		return o
	}
	defer ro.e.Close()

	fpW0, fpR0 := g9blib.FingerprintOn(w.newSess()), g9blib.FingerprintOn(ro.newSess())
	if len(fpW0.Errs)+len(fpR0.Errs) > 0 {
		o.Inconclusive = "fingerprint-failed-before: " + strings.Join(append(fpW0.Errs, fpR0.Errs...), "; ")
		return o
	}
	if !g9blib.Same(fpW0.Flat(""), fpR0.Flat("")) {
		o.Inconclusive = "twin-and-ro-differ-after-setup"
		o.TwinDiff = g9blib.Diff(fpW0.Flat(""), fpR0.Flat(""), 5)
		return o
	}
	outW := filepath.Join(r.Scratch(), fmt.Sprintf("out-%d-w", caseNo))
	outR := filepath.Join(r.Scratch(), fmt.Sprintf("out-%d-r", caseNo))
	defer os.Remove(outW)
	defer os.Remove(outR)
	for _, pq := range t.pre {
		o.Pre = append(o.Pre, p.expand(pq, loadfile, outW))
	}
	o.SQL = p.expand(t.sql, loadfile, outW)
	sqlR := p.expand(t.sql, loadfile, outR)

	for _, pq := range o.Pre {
		rw, rr := w.s.Exec(pq), ro.s.Exec(pq)
		if rw.Failed() || rr.Failed() {
			o.Inconclusive = fmt.Sprintf("prelude failed: %s: twin=%q ro=%q", pq, errText(rw), errText(rr))
			return o
		}
	}
	if err := w.enter(mode, false); err != nil {
		o.Inconclusive = "twin-enter: " + err.Error()
		return o
	}
	if err := ro.enter(mode, true); err != nil {
		o.Inconclusive = "ro-enter: " + err.Error()
		return o
	}
	var resW, resR *core.Result
	if via == "bound" {
		resW, resR = execBound(w.s, o.SQL), execBound(ro.s, sqlR)
	} else {
		resW, resR = w.s.Exec(o.SQL), ro.s.Exec(sqlR)
	}
	w.leave()
	ro.leave()
	if resW.TimedOut || resR.TimedOut {
		o.Inconclusive = "watchdog"
		return o
	}
	o.TwinErr, o.RoErr = errText(resW), errText(resR)
	if resR.Panic != nil {
		o.RoPanic = resR.Panic.Value
		o.RoPanicSig = strings.ReplaceAll(resR.Panic.Sig(), " ", "-") // signatures in findings files are blank-free
	}
	if resW.Panic != nil {
		// the statement panics without any read-only mode: not this property's business
		o.Inconclusive = "twin-panics: " + o.TwinErr
		return o
	}
	fpW1, fpR1 := g9blib.FingerprintOn(w.newSess()), g9blib.FingerprintOn(ro.newSess())
	if len(fpW1.Errs)+len(fpR1.Errs) > 0 {
		o.Inconclusive = "fingerprint-failed-after: " + strings.Join(append(fpW1.Errs, fpR1.Errs...), "; ")
		return o
	}
	a, b := fpW0.Flat(scope), fpW1.Flat(scope)
	o.TwinChanged = !g9blib.Same(a, b)
	if o.TwinChanged {
		o.TwinDiff = g9blib.Diff(a, b, 4)
	}
	a, b = fpR0.Flat(scope), fpR1.Flat(scope)
	o.RoChanged = !g9blib.Same(a, b)
	if o.RoChanged {
		o.RoDiff = g9blib.Diff(a, b, 4)
	}
	if !resW.Failed() {
		o.TwinRows = core.SortedRows(resW.Rows)
	}
	if !resR.Failed() {
		o.RoRows = core.SortedRows(resR.Rows)
	}
	r.Count("rejected-by:"+mode+":"+rejectionKind(resR.Err), boolInt(resR.Err != nil))
	if via == "bound" {
		r.Count("bound-path-rejected-by:"+mode+":"+rejectionKind(resR.Err), boolInt(resR.Err != nil))
	}
	return o
}

func boolInt(b bool) int64 {
	if b {
		return 1
	}
	return 0
}

// sigClass maps (mode, template) to the input class named in a signature. Three input classes are
// coarse on purpose because the engine treats all their members alike (findings/C42.md): DDL inside a
// READ ONLY transaction, CALL inside one, and the listed DDL kinds against a read-only database.
func sigClass(o *outcome) string {
	switch {
	case o.Mode == modeTxnRO && o.Group == "ddl":
		return modeTxnRO + ":ddl"
	case o.Mode == modeTxnRO && o.Group == "prep" && strings.Contains(o.Kind, "-table"):
		return modeTxnRO + ":ddl"
	case o.Mode == modeTxnRO && o.Group == "call":
		return modeTxnRO + ":call"
	case o.Mode == modeDbRO && dbRoUnguarded[o.Kind]:
		return modeDbRO + ":ddl-unguarded"
	}
	return o.Mode + ":" + o.Kind
}

// judge turns an outcome into verdicts.
func judge(r *core.Run, o *outcome) {
	if o.Inconclusive != "" {
		r.Inconclusive(core.Clip(core.StripVolatile(o.Inconclusive), 60))
		r.Count("inconclusive-cases", 1)
		if os.Getenv("C42_DEBUG") != "" {
			fmt.Fprintf(os.Stderr, "INCONCLUSIVE %s %s p%d: %s\n", o.Mode, o.Kind, o.Param, o.Inconclusive)
		}
		return
	}
	wit := func() map[string]any {
		return map[string]any{"mode": o.Mode, "via": o.Via, "kind": o.Kind, "param": o.Param, "prelude": o.Pre, "sql": o.SQL,
			"twin_error": o.TwinErr, "ro_error": o.RoErr, "twin_changed": o.TwinChanged, "twin_diff": o.TwinDiff,
			"ro_changed": o.RoChanged, "ro_diff": o.RoDiff, "twin_rows": core.ClipStrings(o.TwinRows, 8), "ro_rows": core.ClipStrings(o.RoRows, 8)}
	}
	roRejected := o.RoErr != "" && o.RoPanic == ""
	// (1) the read-only engine's own state never changes
	r.Eval(1)
	if o.RoChanged {
		if o.TwinChanged && !roRejected && o.RoPanic == "" {
			r.Violation("write-accepted:"+sigClass(o), wit())
		} else {
			r.Violation("ro-state-changed-despite-rejection:"+sigClass(o), wit())
		}
	}
	// (2) a write by observation must be rejected
	if o.TwinChanged {
		r.Eval(1)
		r.Count("writes-by-observation:"+o.Mode, 1)
		switch {
		case o.RoPanic != "":
			r.Violation(o.RoPanicSig, wit())
		case !roRejected:
			if !o.RoChanged { // otherwise already reported under (1)
				r.Violation("write-not-rejected-silent-noop:"+sigClass(o), wit())
			}
		default:
			r.Count("writes-rejected:"+o.Mode, 1)
			r.Distinct("rejected|" + o.Mode + "|" + o.Via + "|" + o.Kind)
		}
	} else if o.RoPanic != "" {
		// a panic on a statement that is not a write by observation still is not a delivered result
		r.Eval(1)
		r.Violation(o.RoPanicSig, wit())
	}
	// (3) nothing else: read-only statements succeed with the same result
	if o.Class == "r" || o.Class == "rs" {
		if o.TwinErr != "" {
			r.Inconclusive("read-template-fails-on-twin")
			return
		}
		if o.TwinChanged {
			// a statement from the read list that changes the twin is a mistake in the catalogue
			r.Violation("catalogue-read-statement-writes:"+o.Kind, wit())
			return
		}
		r.Eval(1)
		r.Count("reads-evaluated:"+o.Mode, 1)
		switch {
		case o.RoPanic != "":
			// reported above
		case o.RoErr != "":
			r.Violation("read-rejected:"+o.Mode+":"+o.Kind, wit())
		case o.Class == "r" && !core.SameStrings(o.TwinRows, o.RoRows):
			r.Violation("read-result-differs:"+o.Mode+":"+o.Kind, wit())
		default:
			if len(o.RoRows) > 0 {
				r.Distinct("read-ok|" + o.Mode + "|" + o.Via + "|" + o.Kind)
			}
		}
	}
	if o.Group == "acct" {
		r.Count("account-stmt:"+o.Mode+":"+map[bool]string{true: "rejected", false: "accepted"}[o.RoErr != ""], 1)
	}
}

func main() {
	r := core.NewRun("C42", "exploration",
		"each case = (statement template, read-only mode, parameterisation) run on a writable twin and on a read-only engine; "+
			"distinct = (mode, template) pairs where a write by observation was rejected or a read returned rows equal to the twin's")
	r.Assume("fingerprint = SHOW FULL TABLES, SHOW CREATE of every table/view, all rows, SHOW TRIGGERS / PROCEDURE STATUS / FUNCTION STATUS / EVENTS of every user database; accounts, global variables, temporary tables, files and session state are not part of it")
	r.Assume("in mode db-ro only database d is read-only: the fingerprint is restricted to d, writes to database `other` are legitimate")
	r.Assume("CALL of a non-writing procedure, SET GLOBAL, account statements, SELECT … FOR UPDATE / INTO OUTFILE and writes-by-kind that are no-ops on this data may be accepted or rejected")

	nparams := r.N(2, 30)
	type job struct {
		mode, via string
		t         tmpl
		p         *params
	}
	var ps []*params
	for i := 0; i < nparams; i++ {
		ps = append(ps, makeParams(r, i))
	}
	var jobs []job
	for _, p := range ps {
		for _, m := range modes {
			for _, t := range catalogue {
				jobs = append(jobs, job{m, "query", t, p})
			}
		}
	}
	// the bound-plan API path (second readOnlyCheck call site): statements without a prelude, first
	// two parameterisations, the two engine-level modes in full and the other two on DML/DDL only
	for pi, p := range ps {
		if pi >= 2 {
			break
		}
		for _, m := range modes {
			for _, t := range catalogue {
				if len(t.pre) > 0 || t.group == "prep" || t.group == "txn" || t.group == "set" || t.group == "acct" {
					continue
				}
				if (m == modeTxnRO || m == modeDbRO) && t.class != "w" {
					continue
				}
				jobs = append(jobs, job{m, "bound", t, p})
			}
		}
	}
	only := os.Getenv("C42_ONLY")
	debug := os.Getenv("C42_DEBUG") != ""
	outs := make([]*outcome, len(jobs))
	r.Parallel("catalogue", len(jobs), func(i int) {
		j := jobs[i]
		if only != "" && !strings.Contains(j.t.kind, only) {
			return
		}
		o := observe(r, j.mode, j.via, j.t, j.p, i)
		outs[i] = o
		judge(r, o)
	})
	if debug {
		for _, o := range outs {
			if o == nil {
				continue
			}
			fmt.Fprintf(os.Stderr, "p%d %-5s %-14s %-38s %-2s twinChanged=%-5v roChanged=%-5v twinErr=%q roErr=%q\n", o.Param, o.Via, o.Mode, o.Kind, o.Class, o.TwinChanged, o.RoChanged, core.Clip(o.TwinErr, 70), core.Clip(o.RoErr, 70))
		}
	}
	// samples: a few real cases
	for _, want := range []string{"insert-values", "alter-add-column", "select-join", "call-writing-proc", "show-create-table", "drop-database-main"} {
		for _, o := range outs {
			if o != nil && o.Kind == want && o.Mode == modeEngineRO && o.Param == 0 && o.Via == "query" {
				r.Sample(map[string]any{"mode": o.Mode, "sql": o.SQL, "twin_changed": o.TwinChanged, "twin_diff": o.TwinDiff, "ro_error": o.RoErr, "ro_changed": o.RoChanged, "ro_rows": core.ClipStrings(o.RoRows, 3)})
			}
		}
	}
	r.Extra("templates", len(catalogue))
	r.Extra("modes", modes)
	r.Extra("parameterisations", nparams)

	pinned(r)

	// floors: every mode saw writes by observation, rejected some with its own error kind, and evaluated reads
	if only == "" {
		for _, m := range modes {
			r.Floor(r.Counter("writes-by-observation:"+m) >= int64(60*nparams), "mode "+m+": fewer than 60 writes by observation per parameterisation")
			r.Floor(r.Counter("reads-evaluated:"+m) >= int64(70*nparams), "mode "+m+": fewer than 70 read statements evaluated per parameterisation")
		}
		r.Floor(r.Counter("rejected-by:"+modeEngineRO+":ErrReadOnly") >= int64(100*nparams), "engine.readOnlyCheck (ErrReadOnly) hardly reached")
		r.Floor(r.Counter("rejected-by:"+modeLocked+":ErrDatabaseWriteLocked") >= int64(100*nparams), "engine.readOnlyCheck (ErrDatabaseWriteLocked) hardly reached")
		r.Floor(r.Counter("rejected-by:"+modeTxnRO+":ErrReadOnlyTransaction") >= int64(50*nparams), "validateReadOnlyTransaction hardly rejected anything")
		r.Floor(r.Counter("rejected-by:"+modeDbRO+":ErrReadOnlyDatabase") >= int64(60*nparams), "validateReadOnlyDatabase hardly reached")
		r.Floor(r.Counter("bound-path-rejected-by:"+modeEngineRO+":ErrReadOnly") >= 100, "readOnlyCheck in PrepQueryPlanForExecution (ErrReadOnly) hardly reached")
		r.Floor(r.Counter("bound-path-rejected-by:"+modeLocked+":ErrDatabaseWriteLocked") >= 100, "readOnlyCheck in PrepQueryPlanForExecution (ErrDatabaseWriteLocked) hardly reached")
	}
	var cn []string
	for _, t := range catalogue {
		cn = append(cn, t.kind)
	}
	sort.Strings(cn)
	for i := 1; i < len(cn); i++ {
		if cn[i] == cn[i-1] {
			panic("duplicate template kind " + cn[i])
		}
	}
	r.Finish()
}
