package main

import (
	"fmt"
	"strings"

	"github.com/dolthub/go-mysql-server/memory"

	"verif/harness/core"
	"verif/harness/g9blib"
)

// Known findings of C42 (findings/C42.txt, findings/C42.md). Signatures:
const (
	sigF33        = "panic:sql/analyzer.validateReadOnlyTransaction.func1:runtime-error:-invalid-memory-address-or-nil-pointer-dereference"
	sigTxnDDL     = "write-accepted:txn-ro:ddl"
	sigTxnCall    = "write-accepted:txn-ro:call"
	sigDbRoDDL    = "write-accepted:db-ro:ddl-unguarded"
	sigDbRoCommit = "read-rejected:db-ro:plain-memory-session"
)

// dbRoUnguarded is the input class of sigDbRoDDL: DDL kinds whose plan carries no ResolvedTable of
// the read-only database below a root node that validateReadOnlyDatabase inspects.
var dbRoUnguarded = map[string]bool{
	"alter-add-foreign-key": true, "alter-auto-increment": true, "alter-database-collate": true,
	"alter-drop-constraint-fk": true, "alter-drop-default": true, "alter-drop-foreign-key": true,
	"alter-rename-to": true, "alter-set-default": true, "alter-table-collate": true, "alter-table-comment": true,
	"alter-table-convert-charset": true, "create-procedure": true, "create-procedure-block": true,
	"create-view-constant": true, "drop-database-main": true, "drop-procedure": true, "drop-procedure-if-exists": true,
	"drop-view": true, "drop-view-if-exists": true, "rename-table": true, "rename-tables-two": true, "rename-view": true,
}

func findTmpl(kind string) tmpl {
	for _, t := range catalogue {
		if t.kind == kind {
			return t
		}
	}
	panic("no template " + kind)
}

// pinned replays one witness per known finding on the default parameterisation, every run.
func pinned(r *core.Run) {
	p0 := makeParams(r, 0)
	type pw struct {
		sig, mode, kind, what string
		fails                 func(o *outcome) bool
	}
	accepted := func(o *outcome) bool { return o.Inconclusive == "" && o.TwinChanged && o.RoChanged && o.RoErr == "" }
	for k, w := range []pw{
		// F33 was fixed in /repo (d9ff0608d): the line in findings/C42.txt is "fixed:", so a regression of this witness is reported as a VIOLATION
		{sigF33, modeTxnRO, "insert-values", "DML on a permanent table inside START TRANSACTION READ ONLY panics (nil sql.TemporaryTable) instead of returning ErrReadOnlyTransaction",
			func(o *outcome) bool { return o.RoPanicSig == sigF33 }},
		{sigTxnDDL, modeTxnRO, "create-table", "DDL inside START TRANSACTION READ ONLY is executed (MySQL: error 1792)", accepted},
		{sigTxnCall, modeTxnRO, "call-writing-proc", "CALL of a procedure that INSERTs inside START TRANSACTION READ ONLY executes the INSERT", accepted},
		{sigDbRoDDL, modeDbRO, "drop-database-main", "DDL that reaches a read-only database without a ResolvedTable child (here DROP DATABASE d) is executed", accepted},
	} {
		o := observe(r, w.mode, "query", findTmpl(w.kind), p0, 1_000_000+k)
		r.Pinned(w.sig, fmt.Sprintf("%s [%s: %s -> twin_changed=%v ro_changed=%v ro_error=%q]", w.what, w.mode, o.SQL, o.TwinChanged, o.RoChanged, core.Clip(o.RoErr, 80)),
			w.fails(o), map[string]any{"mode": w.mode, "sql": o.SQL, "ro_error": o.RoErr, "ro_changed": o.RoChanged, "ro_diff": o.RoDiff, "inconclusive": o.Inconclusive})
	}

	// via=domain: memory.ReadOnlyDatabase with an ordinary memory.Session fails every statement that
	// touches a table, reads included, when the statement's implicit transaction is committed. The
	// exploration runs db-ro sessions over a provider that unwraps the database (see unwrapProvider).
	hist := memory.NewHistoryDatabase("d")
	e := g9blib.NewEng(hist)
	s := e.NewSess()
	s.MustExec("CREATE TABLE t (id INT PRIMARY KEY, a INT)")
	s.MustExec("INSERT INTO t VALUES (1, 1)")
	e.Close()
	e2 := g9blib.NewEng(memory.ReadOnlyDatabase{HistoryDatabase: hist})
	defer e2.Close()
	res := e2.NewSess().Exec("SELECT * FROM t")
	fails := res.Err != nil && strings.Contains(res.Err.Error(), "unknown database type")
	r.Pinned(sigDbRoCommit, fmt.Sprintf("SELECT on a memory.ReadOnlyDatabase through a plain memory.Session fails at commit [SELECT * FROM t -> %q]", errText(res)),
		fails, map[string]any{"sql": "SELECT * FROM t", "error": errText(res)})
	if !fails && res.Failed() {
		r.Violation("read-rejected:db-ro:plain-memory-session-other-error", map[string]any{"sql": "SELECT * FROM t", "error": errText(res)})
	}
	r.Assume("db-ro sessions use a provider that hands memory.Session the wrapped *memory.HistoryDatabase (domain exclusion of finding " + sigDbRoCommit + "): a break confined to plain memory.Session + ReadOnlyDatabase commit handling is not seen")
}
