// C43 — information_schema and SHOW reflect the catalog.
//
// Oracle (reference model over DDL histories): a catalog model is built from the generated DDL
// statements the engine accepted (tables with columns, keys, checks, foreign keys; views; triggers;
// procedures; databases). After every step the rows of information_schema.TABLES, COLUMNS,
// STATISTICS, KEY_COLUMN_USAGE, TABLE_CONSTRAINTS, REFERENTIAL_CONSTRAINTS, CHECK_CONSTRAINTS,
// TRIGGERS, ROUTINES, PARAMETERS, VIEWS, SCHEMATA and of SHOW TABLES / FULL TABLES / COLUMNS /
// INDEXES / TRIGGERS / PROCEDURE STATUS — projected on the columns the model defines, rendered as
// a client sees them (Type.SQL) — must equal the model as keyed sets; SHOW CREATE must work for
// every object of the model and fail for the object dropped or renamed last.
package main

import (
	"fmt"
	"math/rand"
	"os"
	"sort"
	"strings"

	"github.com/dolthub/go-mysql-server/sql"

	"verif/harness/core"
	"verif/harness/g9blib"
)

func main() {
	r := core.NewRun("C43", "exploration",
		"each case = one seeded DDL history (create/alter/rename/drop of tables, indexes, keys, checks, foreign keys, views, triggers, procedures, databases); "+
			"after every accepted or rejected step every catalog relation is compared with the model; distinct = (relation, DDL operation kind) pairs compared after a step that changed the model")
	r.Assume("only model-defined columns are compared; cells whose MySQL value is not clear-cut (COLUMN_KEY under unique-key promotion or prefixed unique keys, ACTION_ORDER after a trigger drop, attributes of view columns) are skipped")
	r.Assume("a generated DDL statement the engine rejects leaves the model unchanged (the comparison then checks that the catalog did not change either)")
	r.Assume("plain palette: no generated columns, expression defaults, ENUM/SET defaults, literal defaults on fractional-second temporals, unnamed constraints")
	n := r.N(200, 5000)
	steps := 12
	r.Parallel("hist", n, func(i int) {
		runHistory(r, r.Rand("hist", i), i, steps)
	})
	pinned(r)
	r.Floor(r.Counter("steps-compared") >= int64(n*steps/2), "fewer than half of the steps reached a comparison")
	for _, rel := range []string{"TABLES", "COLUMNS", "STATISTICS", "KEY_COLUMN_USAGE", "TABLE_CONSTRAINTS", "REFERENTIAL_CONSTRAINTS", "CHECK_CONSTRAINTS", "TRIGGERS", "ROUTINES", "VIEWS", "SHOW COLUMNS", "SHOW INDEXES"} {
		r.Floor(r.Counter("rows-matched:"+rel) >= int64(n/4), "relation "+rel+" hardly had any expected row")
	}
	r.Finish()
}

// ---- observation ----

// wire renders one value the way a client receives it.
func wire(ctx *sql.Context, t sql.Type, v any) *string {
	if v == nil {
		return nil
	}
	val, err := t.SQL(ctx, nil, v)
	if err != nil {
		s := "SQLERR:" + err.Error()
		return &s
	}
	if val.IsNull() {
		return nil
	}
	s := val.ToString()
	return &s
}

func cell(p *string) string {
	if p == nil {
		return "NULL"
	}
	if g9blib.IsSkip(p) {
		return "*"
	}
	return "'" + *p + "'"
}

type mismatch struct {
	Relation string   `json:"relation"`
	Kind     string   `json:"kind"` // missing-row, extra-row, wrong-value, query-failed
	Column   string   `json:"column,omitempty"`
	Key      []string `json:"key,omitempty"`
	Expected string   `json:"expected,omitempty"`
	Got      string   `json:"got,omitempty"`
	Query    string   `json:"query"`
	Class    string   `json:"class"`
}

// valueClass names the failure mode of one wrong cell in a blank-free way.
func valueClass(exp, got *string) string {
	switch {
	case exp == nil && got != nil:
		return "expected-NULL-got-" + short(*got, true)
	case exp != nil && got == nil:
		return "expected-" + short(*exp, false) + "-got-NULL"
	case *got == g9blib.Lit(*exp):
		return "got-sql-quoted-literal"
	case *got == "("+*exp+")":
		return "got-extra-parentheses"
	case *got == *exp+" 00:00:00":
		return "date-literal-printed-with-time"
	case *exp == "time" && *got == "time(6)":
		return "time-printed-as-time(6)"
	case strings.Contains(*exp, " on update ") && *got == (*exp)[:strings.Index(*exp, " on update ")]:
		return "on-update-clause-missing"
	case strings.HasPrefix(*exp, "on update ") && *got == "":
		return "on-update-clause-missing"
	case len(*got) < len(*exp) && len(*exp)-len(*got) <= 3 && strings.HasSuffix(*exp, *got):
		return "text-lost-its-first-characters"
	}
	return "expected-" + short(*exp, false) + "-got-" + short(*got, true)
}

// short keeps enumerable values verbatim and abstracts free text and (unless keepNum) numbers.
func short(s string, keepNum bool) string {
	if s == "" {
		return "empty"
	}
	if strings.Trim(s, "0123456789") == "" {
		if keepNum && len(s) <= 3 {
			return s
		}
		return "number"
	}
	if len(s) <= 24 && strings.Trim(s, "ABCDEFGHIJKLMNOPQRSTUVWXYZ_ ()0123456789") == "" {
		return strings.ReplaceAll(s, " ", "_")
	}
	return "text"
}

// compare checks one relation; returns the first mismatch per (kind, column).
func compare(s *core.Sess, e *g9blib.Expect) (matched int, out []*mismatch) {
	res := s.Exec(e.Query)
	if res.Failed() {
		msg := ""
		if res.Err != nil {
			msg = res.Err.Error()
		} else if res.Panic != nil {
			msg = "PANIC " + res.Panic.Value + " @ " + res.Panic.Site
		}
		return 0, []*mismatch{{Relation: e.Name, Kind: "query-failed", Query: e.Query, Got: msg, Class: strings.ReplaceAll(core.StripVolatile(msg), " ", "-")}}
	}
	ctx := s.Ctx()
	idx := make([]int, len(e.Cols))
	for i, c := range e.Cols {
		idx[i] = -1
		if strings.HasPrefix(c, "#") {
			fmt.Sscanf(c, "#%d", &idx[i])
			continue
		}
		for k, sc := range res.Schema {
			if strings.EqualFold(sc.Name, c) {
				idx[i] = k
				break
			}
		}
		if idx[i] < 0 {
			return 0, []*mismatch{{Relation: e.Name, Kind: "query-failed", Query: e.Query, Got: "result has no column " + c, Class: "no-column-" + c}}
		}
	}
	keyOf := func(cells []*string) string {
		var p []string
		for i := 0; i < e.KeyN; i++ {
			p = append(p, cell(cells[i]))
		}
		return strings.Join(p, "|")
	}
	got := map[string][]*string{}
	var gotOrder []string
	for _, row := range res.Rows {
		cells := make([]*string, len(e.Cols))
		for i, k := range idx {
			cells[i] = wire(ctx, res.Schema[k].Type, row[k])
		}
		k := keyOf(cells)
		if _, dup := got[k]; dup {
			out = append(out, &mismatch{Relation: e.Name, Kind: "extra-row", Key: strings.Split(k, "|"), Query: e.Query, Class: "duplicate-key"})
			continue
		}
		got[k] = cells
		gotOrder = append(gotOrder, k)
	}
	seenClass := map[string]bool{}
	add := func(m *mismatch) {
		c := m.Kind + ":" + m.Column + ":" + m.Class
		if !seenClass[c] {
			seenClass[c] = true
			out = append(out, m)
		}
	}
	exp := map[string]bool{}
	for _, er := range e.Rows {
		k := keyOf(er)
		exp[k] = true
		g, ok := got[k]
		if !ok {
			add(&mismatch{Relation: e.Name, Kind: "missing-row", Key: strings.Split(k, "|"), Query: e.Query})
			continue
		}
		okRow := true
		for i := e.KeyN; i < len(e.Cols); i++ {
			if g9blib.IsSkip(er[i]) {
				continue
			}
			if (er[i] == nil) != (g[i] == nil) || (er[i] != nil && *er[i] != *g[i]) {
				okRow = false
				add(&mismatch{Relation: e.Name, Kind: "wrong-value", Column: e.Cols[i], Key: strings.Split(k, "|"), Expected: cell(er[i]), Got: cell(g[i]), Query: e.Query, Class: valueClass(er[i], g[i])})
			}
		}
		if okRow {
			matched++
		}
	}
	for _, k := range gotOrder {
		if !exp[k] {
			add(&mismatch{Relation: e.Name, Kind: "extra-row", Key: strings.Split(k, "|"), Query: e.Query})
		}
	}
	return matched, out
}

func (m *mismatch) sig() string {
	rel := strings.ReplaceAll(m.Relation, " ", "-")
	switch m.Kind {
	case "wrong-value":
		return rel + ":wrong-value:" + m.Column + ":" + m.Class
	case "query-failed":
		return rel + ":query-failed:" + m.Class
	}
	if m.Class != "" {
		return rel + ":" + m.Kind + ":" + m.Class
	}
	return rel + ":" + m.Kind
}

// ---- history ----

type hist struct {
	r        *core.Run
	rnd      *rand.Rand
	cat      *g9blib.Catalog
	e        *core.Eng
	s        *core.Sess
	log      []string
	nameN    int
	gone     []string        // "TABLE d.x" style objects that must no longer be showable
	oldNames map[string]bool // former names of renamed tables
}

// classify refines a mismatch's class with what the model knows about the input (so that signatures
// name the input class, not just the two values).
func (h *hist) classify(ex *g9blib.Expect, m *mismatch) {
	tableOf := func() (*g9blib.Table, string) {
		var sn, tn, cn string
		switch ex.Name {
		case "COLUMNS":
			if len(m.Key) == 3 {
				sn, tn, cn = strings.Trim(m.Key[0], "'"), strings.Trim(m.Key[1], "'"), strings.Trim(m.Key[2], "'")
			}
		case "SHOW COLUMNS":
			sn, tn = ex.Schema, ex.Table
			if len(m.Key) == 1 {
				cn = strings.Trim(m.Key[0], "'")
			}
		}
		if s := h.cat.Schemas[sn]; s != nil {
			return s.Tables[tn], cn
		}
		return nil, cn
	}
	switch {
	case (m.Column == "COLUMN_KEY" || m.Column == "Key") && m.Kind == "wrong-value" && m.Got == "'MUL'":
		if t, cn := tableOf(); t != nil {
			nonLeading, others := false, 0
			for _, ix := range t.Indexes {
				for k, p := range ix.Cols {
					if p.Col == cn {
						if k > 0 {
							nonLeading = true
						}
						if !(ix.Kind == "UNIQUE" && len(ix.Cols) == 1) {
							others++
						}
					}
				}
			}
			if nonLeading && m.Expected == "''" {
				m.Class = "non-leading-index-column-flagged-MUL"
			} else if others > 0 && m.Expected == "'UNI'" {
				m.Class = "unique-column-flagged-MUL-when-in-another-index"
			}
		}
	case ex.Name == "TRIGGERS" && m.Column == "ACTION_ORDER" && len(m.Key) == 2:
		if sch := h.cat.Schemas[strings.Trim(m.Key[0], "'")]; sch != nil {
			if me := sch.Triggers[strings.Trim(m.Key[1], "'")]; me != nil {
				for _, o := range sch.Triggers {
					if o.Table != me.Table && o.Timing == me.Timing && o.Event == me.Event && o.Seq < me.Seq {
						m.Class = "counts-triggers-of-other-tables"
					}
				}
			}
		}
	case ex.Name == "SHOW INDEXES" && m.Column == "Table" && h.oldNames[strings.Trim(m.Got, "'")]:
		m.Class = "old-name-after-rename-table"
	case ex.Name == "SHOW TRIGGERS" && (m.Kind == "extra-row" || m.Kind == "missing-row") && ex.Schema != "d":
		// the session's current database is d: SHOW TRIGGERS FROM <other> listing d's triggers instead
		m.Class = "from-clause-ignored"
	}
}

func (h *hist) fresh(prefix string) string { h.nameN++; return fmt.Sprintf("%s%d", prefix, h.nameN) }

func hasDependents(s *g9blib.MSchema, table string) bool {
	for _, v := range s.Views {
		if strings.Contains(v.Select, " FROM "+g9blib.Q(table)) {
			return true
		}
	}
	for _, t := range s.Triggers {
		if t.Table == table {
			return true
		}
	}
	return false
}

func referencedByFK(s *g9blib.MSchema, table string) bool {
	for _, t := range s.Tables {
		for _, fk := range t.FKs {
			if fk.Parent == table {
				return true
			}
		}
	}
	return false
}

func colInUse(t *g9blib.Table, col string) bool {
	for _, p := range t.PKCols() {
		if p == col {
			return true
		}
	}
	for _, ix := range t.Indexes {
		for _, p := range ix.Cols {
			if p.Col == col {
				return true
			}
		}
	}
	for _, ck := range t.Checks {
		for _, id := range ck.Idents {
			if id == col {
				return true
			}
		}
	}
	for _, fk := range t.FKs {
		for _, c := range fk.Cols {
			if c == col {
				return true
			}
		}
	}
	return false
}

// plainTable draws a table of the plain palette and normalises it for the model: every constraint
// named, no literal default on fractional temporals.
func (h *hist) plainTable(schema *g9blib.MSchema, name string) *g9blib.Table {
	pt, hasParent := schema.Tables["parent"]
	if hasParent {
		if pk := pt.PKCols(); len(pk) != 1 || pk[0] != "id" {
			hasParent = false
		}
	}
	t := g9blib.GenTable(h.rnd, name, g9blib.GenOpts{Rich: false, WithFK: hasParent, MaxCols: 6})
	for _, c := range t.Cols {
		normCol(c)
	}
	if hasParent && len(t.FKs) == 0 && h.rnd.Intn(3) == 0 && t.Col("pid") == nil {
		// make sure foreign keys are common: a dedicated, indexed reference column
		it := g9blib.TypeSpec{SQL: "INT", Class: "int", ColType: "int", DataType: "int", SRID: -1}
		t.Cols = append(t.Cols, &g9blib.Col{Name: "pid", T: it})
		acts := []string{"", "CASCADE", "SET NULL", "RESTRICT", "NO ACTION"}
		t.FKs = append(t.FKs, &g9blib.FK{Cols: []string{"pid"}, Parent: "parent", ParentCol: []string{"id"}, OnDelete: acts[h.rnd.Intn(5)], OnUpdate: acts[h.rnd.Intn(5)]})
	}
	for i, ck := range t.Checks {
		ck.Name = fmt.Sprintf("%s_ck%d", name, i)
	}
	for i, fk := range t.FKs {
		fk.Name = fmt.Sprintf("%s_fk%d", name, i)
		// MySQL needs (and otherwise silently adds) an index led by the FK column: declare one
		have := false
		for _, ix := range t.Indexes {
			if len(ix.Cols) > 0 && ix.Cols[0].Col == fk.Cols[0] && noPrefix(ix) {
				have = true // (whether an index with a prefixed later part also serves the FK is not clear-cut: not relied on)
			}
		}
		if pk := t.PKCols(); len(pk) > 0 && pk[0] == fk.Cols[0] {
			have = true
		}
		if !have {
			t.Indexes = append(t.Indexes, &g9blib.Index{Name: fmt.Sprintf("%s_fkix%d", name, i), Cols: []g9blib.IdxCol{{Col: fk.Cols[0]}}})
		}
	}
	return t
}

func noPrefix(ix *g9blib.Index) bool {
	for _, p := range ix.Cols {
		if p.Prefix > 0 {
			return false
		}
	}
	return true
}

func normCol(c *g9blib.Col) {
	if (c.T.Class == "datetime" || c.T.Class == "timestamp" || c.T.Class == "time") && c.T.Fsp > 0 && c.DefaultLit {
		c.Default, c.DefaultLit, c.DefaultVal = "", false, ""
	}
	if c.T.Class == "float" && c.DefaultLit {
		c.Default, c.DefaultLit, c.DefaultVal = "", false, ""
	}
}

func (h *hist) newCol(t *g9blib.Table) *g9blib.Col {
	for {
		tt := g9blib.GenTable(h.rnd, "x", g9blib.GenOpts{Rich: false, MaxCols: 1})
		c := tt.Cols[0]
		c.InlinePK, c.AutoInc, c.InlineUniq = false, false, false
		normCol(c)
		c.Name = h.fresh("nc")
		if t.Col(c.Name) == nil {
			return c
		}
	}
}

type step struct {
	kind  string
	sql   string
	apply func()
}

// nextStep draws one DDL operation that is valid in the model.
func (h *hist) nextStep() *step {
	rnd := h.rnd
	for try := 0; try < 50; try++ {
		var sn string
		names := make([]string, 0, len(h.cat.Schemas))
		for n := range h.cat.Schemas {
			names = append(names, n)
		}
		sort.Strings(names)
		sn = names[rnd.Intn(len(names))]
		s := h.cat.Schemas[sn]
		tn := ""
		var t *g9blib.Table
		if len(s.Tables) > 0 {
			var tns []string
			for n := range s.Tables {
				tns = append(tns, n)
			}
			sort.Strings(tns)
			tn = tns[rnd.Intn(len(tns))]
			t = s.Tables[tn]
		}
		qt := g9blib.Q(sn) + "." + g9blib.Q(tn)
		switch op := rnd.Intn(26); op {
		case 0, 1:
			if len(s.Tables) >= 4 {
				continue
			}
			name := h.fresh("t")
			if rnd.Intn(3) == 0 {
				// a homonym: a name another database already uses, or the name of an information_schema table
				cands := []string{"events", "tables", "columns"}
				for on, os := range h.cat.Schemas {
					if on == sn {
						continue
					}
					for n := range os.Tables {
						if n != "parent" {
							cands = append(cands, n)
						}
					}
				}
				sort.Strings(cands)
				// never twice in one database: constraint names are derived from the table name and stay with a renamed table
				if c := cands[rnd.Intn(len(cands))]; !nameTaken(s, c) && !h.oldNames[sn+"."+c] {
					name = c
					h.oldNames[sn+"."+c] = true
				}
			}
			nt := h.plainTable(s, name)
			ddl := strings.Replace(nt.SQL(), "CREATE TABLE "+g9blib.Q(name), "CREATE TABLE "+g9blib.Q(sn)+"."+g9blib.Q(name), 1)
			return &step{"create-table", ddl, func() { s.Tables[name] = nt }}
		case 2:
			if t == nil || tn == "parent" && referencedByFK(s, tn) || hasDependents(s, tn) {
				continue
			}
			return &step{"drop-table", "DROP TABLE " + qt, func() { delete(s.Tables, tn); h.gone = []string{"TABLE " + qt} }}
		case 3:
			if t == nil || referencedByFK(s, tn) || hasDependents(s, tn) {
				continue
			}
			nn := h.fresh("r")
			if cur := h.cat.Schemas["d"]; sn != "d" && cur != nil && nameTaken(cur, tn) {
				// RENAME TABLE resolves both names in the session's current database (d) whatever their qualifier
				// (planbuilder.buildRenameTable drops it), so with a homonym in d it renames that table instead: a DDL
				// defect outside this property, which the model cannot follow. Without the homonym the statement is rejected.
				r := h.r
				r.Count("rename-table-qualifier-ignored-skipped", 1)
				continue
			}
			return &step{"rename-table", "RENAME TABLE " + qt + " TO " + g9blib.Q(sn) + "." + g9blib.Q(nn), func() {
				delete(s.Tables, tn)
				t.Name = nn
				s.Tables[nn] = t
				h.oldNames[tn] = true
				h.gone = []string{"TABLE " + qt}
			}}
		case 4, 5:
			if t == nil || len(t.Cols) >= 9 {
				continue
			}
			c := h.newCol(t)
			pos, at := "", len(t.Cols)
			switch rnd.Intn(3) {
			case 0:
				pos, at = " FIRST", 0
			case 1:
				k := rnd.Intn(len(t.Cols))
				pos, at = " AFTER "+g9blib.Q(t.Cols[k].Name), k+1
			}
			return &step{"add-column", "ALTER TABLE " + qt + " ADD COLUMN " + c.ColSQL() + pos, func() {
				t.Cols = append(t.Cols[:at], append([]*g9blib.Col{c}, t.Cols[at:]...)...)
			}}
		case 6:
			if t == nil || len(t.Cols) < 2 || hasDependents(s, tn) {
				continue
			}
			k := rnd.Intn(len(t.Cols))
			c := t.Cols[k]
			if colInUse(t, c.Name) || tn == "parent" {
				continue
			}
			return &step{"drop-column", "ALTER TABLE " + qt + " DROP COLUMN " + g9blib.Q(c.Name), func() {
				t.Cols = append(t.Cols[:k], t.Cols[k+1:]...)
			}}
		case 7:
			if t == nil || hasDependents(s, tn) || tn == "parent" {
				continue
			}
			k := rnd.Intn(len(t.Cols))
			old := t.Cols[k]
			if colInUse(t, old.Name) {
				continue
			}
			c := h.newCol(t)
			c.Name = old.Name
			return &step{"modify-column", "ALTER TABLE " + qt + " MODIFY COLUMN " + c.ColSQL(), func() { t.Cols[k] = c }}
		case 8:
			if t == nil || hasDependents(s, tn) || tn == "parent" {
				continue
			}
			k := rnd.Intn(len(t.Cols))
			old := t.Cols[k]
			for _, ck := range t.Checks {
				for _, id := range ck.Idents {
					if id == old.Name {
						old = nil
					}
				}
				if old == nil {
					break
				}
			}
			if old == nil {
				continue
			}
			isPK := false
			for _, p := range t.PKCols() {
				if p == old.Name {
					isPK = true
				}
			}
			if isPK {
				continue // RENAME COLUMN of a primary-key column corrupts the key (an ALTER defect, findings/C43.md), excluded
			}
			nn := h.fresh("rc")
			oldName := old.Name
			return &step{"rename-column", "ALTER TABLE " + qt + " RENAME COLUMN " + g9blib.Q(oldName) + " TO " + g9blib.Q(nn), func() {
				old.Name = nn
				for i, p := range t.PK {
					if p == oldName {
						t.PK[i] = nn
					}
				}
				for _, ix := range t.Indexes {
					for i := range ix.Cols {
						if ix.Cols[i].Col == oldName {
							ix.Cols[i].Col = nn
						}
					}
				}
				for _, fk := range t.FKs {
					for i := range fk.Cols {
						if fk.Cols[i] == oldName {
							fk.Cols[i] = nn
						}
					}
				}
			}}
		case 9:
			if t == nil {
				continue
			}
			k := rnd.Intn(len(t.Cols))
			c := t.Cols[k]
			if c.AutoInc || !(c.T.Class == "int" || c.T.Class == "char") {
				continue
			}
			if rnd.Intn(3) == 0 && c.Default != "" {
				return &step{"drop-default", "ALTER TABLE " + qt + " ALTER COLUMN " + g9blib.Q(c.Name) + " DROP DEFAULT", func() { c.Default, c.DefaultLit, c.DefaultVal = "", false, "" }}
			}
			v := fmt.Sprint(rnd.Intn(90))
			lit := v
			if c.T.Class == "char" {
				v = []string{"nd", "x y", "it's", ""}[rnd.Intn(4)]
				if len(v) > c.T.Len {
					v = ""
				}
				lit = g9blib.Lit(v)
			}
			return &step{"set-default", "ALTER TABLE " + qt + " ALTER COLUMN " + g9blib.Q(c.Name) + " SET DEFAULT " + lit, func() { c.Default, c.DefaultLit, c.DefaultVal = lit, true, v }}
		case 10, 11:
			if t == nil || len(t.Indexes) >= 4 {
				continue
			}
			var cands []*g9blib.Col
			for _, c := range t.Cols {
				switch c.T.Class {
				case "int", "uint", "bool", "decimal", "char", "date", "datetime", "timestamp", "year", "enum":
					cands = append(cands, c)
				}
			}
			if len(cands) == 0 {
				continue
			}
			ix := &g9blib.Index{Name: h.fresh("ix")}
			if rnd.Intn(3) == 0 {
				ix.Kind = "UNIQUE"
			}
			seen := map[string]bool{}
			for j := 0; j < 1+rnd.Intn(2); j++ {
				c := cands[rnd.Intn(len(cands))]
				if seen[c.Name] {
					continue
				}
				seen[c.Name] = true
				p := g9blib.IdxCol{Col: c.Name}
				if c.T.Class == "char" && c.T.Len > 2 && rnd.Intn(3) == 0 {
					p.Prefix = 1 + rnd.Intn(c.T.Len-1)
				}
				ix.Cols = append(ix.Cols, p)
			}
			q := "ALTER TABLE " + qt + " ADD " + ix.ClauseSQL()
			if rnd.Intn(2) == 0 {
				u := ""
				if ix.Kind == "UNIQUE" {
					u = "UNIQUE "
				}
				q = "CREATE " + u + "INDEX " + g9blib.Q(ix.Name) + " ON " + qt + " " + ix.PartsSQL()
			}
			return &step{"add-index", q, func() { t.Indexes = append(t.Indexes, ix) }}
		case 12:
			if t == nil || len(t.Indexes) == 0 {
				continue
			}
			k := rnd.Intn(len(t.Indexes))
			ix := t.Indexes[k]
			needed := false
			for _, fk := range t.FKs {
				if ix.Cols[0].Col == fk.Cols[0] {
					needed = true
				}
			}
			if needed || referencedByFK(s, tn) {
				continue
			}
			q := "ALTER TABLE " + qt + " DROP INDEX " + g9blib.Q(ix.Name)
			if rnd.Intn(2) == 0 {
				q = "DROP INDEX " + g9blib.Q(ix.Name) + " ON " + qt
			}
			return &step{"drop-index", q, func() { t.Indexes = append(t.Indexes[:k], t.Indexes[k+1:]...) }}
		case 13:
			if t == nil || len(t.Indexes) == 0 {
				continue
			}
			ix := t.Indexes[rnd.Intn(len(t.Indexes))]
			nn := h.fresh("rix")
			return &step{"rename-index", "ALTER TABLE " + qt + " RENAME INDEX " + g9blib.Q(ix.Name) + " TO " + g9blib.Q(nn), func() { ix.Name = nn }}
		case 14:
			if t == nil || referencedByFK(s, tn) {
				continue
			}
			if pk := t.PKCols(); len(pk) > 0 {
				auto := false
				for _, c := range t.Cols {
					if c.AutoInc {
						auto = true
					}
				}
				lead := false
				for _, fk := range t.FKs {
					if pk[0] == fk.Cols[0] {
						lead = true
					}
				}
				if auto || lead {
					continue
				}
				return &step{"drop-primary-key", "ALTER TABLE " + qt + " DROP PRIMARY KEY", func() {
					t.PK = nil
					for _, c := range t.Cols {
						if c.InlinePK {
							c.InlinePK = false
						}
					}
				}}
			}
			var cands []*g9blib.Col
			for _, c := range t.Cols {
				if c.NotNull && (c.T.Class == "int" || c.T.Class == "uint" || c.T.Class == "char" || c.T.Class == "date" || c.T.Class == "decimal") {
					cands = append(cands, c)
				}
			}
			if len(cands) == 0 {
				continue
			}
			c := cands[rnd.Intn(len(cands))]
			return &step{"add-primary-key", "ALTER TABLE " + qt + " ADD PRIMARY KEY (" + g9blib.Q(c.Name) + ")", func() { t.PK = []string{c.Name} }}
		case 15:
			if t == nil {
				continue
			}
			if len(t.Checks) > 0 && rnd.Intn(2) == 0 {
				k := rnd.Intn(len(t.Checks))
				ck := t.Checks[k]
				kw := "CHECK"
				if rnd.Intn(2) == 0 {
					kw = "CONSTRAINT"
				}
				return &step{"drop-check", "ALTER TABLE " + qt + " DROP " + kw + " " + g9blib.Q(ck.Name), func() { t.Checks = append(t.Checks[:k], t.Checks[k+1:]...) }}
			}
			var cands []*g9blib.Col
			for _, c := range t.Cols {
				if c.T.Class == "int" && !c.AutoInc {
					cands = append(cands, c)
				}
			}
			if len(cands) == 0 {
				continue
			}
			c := cands[rnd.Intn(len(cands))]
			ck := &g9blib.Check{Name: h.fresh("ck"), Expr: g9blib.Q(c.Name) + " > -1000", Idents: []string{c.Name}, NotEnforced: rnd.Intn(5) == 0}
			return &step{"add-check", "ALTER TABLE " + qt + " ADD " + ck.ClauseSQL(), func() { t.Checks = append(t.Checks, ck) }}
		case 16:
			if t == nil || tn == "parent" {
				continue
			}
			if len(t.FKs) > 0 && rnd.Intn(2) == 0 {
				k := rnd.Intn(len(t.FKs))
				fk := t.FKs[k]
				return &step{"drop-foreign-key", "ALTER TABLE " + qt + " DROP FOREIGN KEY " + g9blib.Q(fk.Name), func() { t.FKs = append(t.FKs[:k], t.FKs[k+1:]...) }}
			}
			if pt, ok := s.Tables["parent"]; !ok || len(pt.PKCols()) != 1 || pt.PKCols()[0] != "id" {
				continue
			}
			var c *g9blib.Col
			for _, ix := range t.Indexes {
				if x := t.Col(ix.Cols[0].Col); x != nil && x.T.SQL == "INT" && noPrefix(ix) {
					c = x
				}
			}
			if c == nil {
				continue
			}
			fk := &g9blib.FK{Name: h.fresh("fk"), Cols: []string{c.Name}, Parent: "parent", ParentCol: []string{"id"}, OnDelete: []string{"", "CASCADE", "RESTRICT", "NO ACTION"}[rnd.Intn(4)], OnUpdate: []string{"", "CASCADE"}[rnd.Intn(2)]}
			return &step{"add-foreign-key", "ALTER TABLE " + qt + " ADD " + fk.ClauseSQL(), func() { t.FKs = append(t.FKs, fk) }}
		case 17:
			if t == nil {
				continue
			}
			cm := []string{"", "tc one", "it's", "x y"}[rnd.Intn(4)]
			return &step{"alter-comment", "ALTER TABLE " + qt + " COMMENT = " + g9blib.Lit(cm), func() { t.Comment = cm }}
		case 18, 19:
			if t == nil || len(s.Views) >= 3 {
				continue
			}
			name := h.fresh("v")
			v := &g9blib.View{Name: name}
			var sel []string
			for _, c := range t.Cols {
				if rnd.Intn(2) == 0 || len(sel) == 0 {
					if rnd.Intn(3) == 0 {
						al := h.fresh("al")
						sel = append(sel, g9blib.Q(c.Name)+" AS "+g9blib.Q(al))
						v.Columns = append(v.Columns, al)
					} else {
						sel = append(sel, g9blib.Q(c.Name))
						v.Columns = append(v.Columns, c.Name)
					}
				}
			}
			v.Select = "SELECT " + strings.Join(sel, ", ") + " FROM " + g9blib.Q(tn)
			// the view body names the table unqualified: create it with the schema as current database
			return &step{"create-view", "CREATE VIEW " + g9blib.Q(sn) + "." + g9blib.Q(name) + " AS " + strings.Replace(v.Select, " FROM "+g9blib.Q(tn), " FROM "+qt, 1), func() { s.Views[name] = v }}
		case 20:
			if len(s.Views) == 0 {
				continue
			}
			var vs []string
			for n := range s.Views {
				vs = append(vs, n)
			}
			sort.Strings(vs)
			vn := vs[rnd.Intn(len(vs))]
			return &step{"drop-view", "DROP VIEW " + g9blib.Q(sn) + "." + g9blib.Q(vn), func() { delete(s.Views, vn); h.gone = []string{"VIEW " + g9blib.Q(sn) + "." + g9blib.Q(vn)} }}
		case 21:
			if t == nil || len(s.Triggers) >= 4 {
				continue
			}
			name := h.fresh("trg")
			tr := &g9blib.MTrigger{Name: name, Table: tn, Timing: []string{"BEFORE", "AFTER"}[rnd.Intn(2)], Event: []string{"INSERT", "UPDATE", "DELETE"}[rnd.Intn(3)]}
			tr.Body = fmt.Sprintf("SET @c43_%s = %d", name, rnd.Intn(100))
			q := fmt.Sprintf("CREATE TRIGGER %s.%s %s %s ON %s FOR EACH ROW %s", g9blib.Q(sn), g9blib.Q(name), tr.Timing, tr.Event, qt, tr.Body)
			return &step{"create-trigger", q, func() { tr.Seq = h.cat.NextSeq(); s.Triggers[name] = tr }}
		case 22:
			if len(s.Triggers) == 0 {
				continue
			}
			var ts []string
			for n := range s.Triggers {
				ts = append(ts, n)
			}
			sort.Strings(ts)
			n := ts[rnd.Intn(len(ts))]
			tr := s.Triggers[n]
			return &step{"drop-trigger", "DROP TRIGGER " + g9blib.Q(sn) + "." + g9blib.Q(n), func() {
				delete(s.Triggers, n)
				s.TriggerDropped[tr.Table+"|"+tr.Timing+"|"+tr.Event] = true
				h.gone = []string{"TRIGGER " + g9blib.Q(sn) + "." + g9blib.Q(n)}
			}}
		case 23:
			if len(s.Procs) >= 3 {
				continue
			}
			var p *g9blib.Proc
			name := h.fresh("pr")
			for {
				p = g9blib.GenProc(rnd, name, true)
				if !strings.Contains(p.Body, "log") && !strings.Contains(p.Body, "base") {
					break
				}
			}
			q := strings.Replace(p.SQL(), "CREATE PROCEDURE "+g9blib.Q(name), "CREATE PROCEDURE "+g9blib.Q(sn)+"."+g9blib.Q(name), 1)
			return &step{"create-procedure", q, func() { s.Procs[name] = p }}
		case 24:
			if len(s.Procs) == 0 {
				continue
			}
			var ps []string
			for n := range s.Procs {
				ps = append(ps, n)
			}
			sort.Strings(ps)
			n := ps[rnd.Intn(len(ps))]
			return &step{"drop-procedure", "DROP PROCEDURE " + g9blib.Q(sn) + "." + g9blib.Q(n), func() { delete(s.Procs, n); h.gone = []string{"PROCEDURE " + g9blib.Q(sn) + "." + g9blib.Q(n)} }}
		case 25:
			if _, ok := h.cat.Schemas["d2"]; ok {
				if rnd.Intn(3) > 0 {
					continue
				}
				return &step{"drop-database", "DROP DATABASE d2", func() { delete(h.cat.Schemas, "d2") }}
			}
			return &step{"create-database", "CREATE DATABASE d2", func() { h.cat.AddSchema("d2") }}
		}
	}
	return nil
}

// nameTaken reports whether a table or view of the schema already has the name, case-insensitively.
func nameTaken(s *g9blib.MSchema, name string) bool {
	for n := range s.Tables {
		if strings.EqualFold(n, name) {
			return true
		}
	}
	for n := range s.Views {
		if strings.EqualFold(n, name) {
			return true
		}
	}
	return false
}

func parentModel() *g9blib.Table {
	it := g9blib.TypeSpec{SQL: "INT", Class: "int", ColType: "int", DataType: "int", SRID: -1}
	return &g9blib.Table{Name: "parent", Cols: []*g9blib.Col{
		{Name: "id", T: it, NotNull: true},
		{Name: "k", T: g9blib.TypeSpec{SQL: "VARCHAR(10)", Class: "char", ColType: "varchar(10)", DataType: "varchar", Len: 10, SRID: -1}, NotNull: true},
		{Name: "n", T: g9blib.TypeSpec{SQL: "BIGINT", Class: "int", ColType: "bigint", DataType: "bigint", SRID: -1}},
	}, PK: []string{"id"}, Indexes: []*g9blib.Index{{Name: "uk", Kind: "UNIQUE", Cols: []g9blib.IdxCol{{Col: "k"}}}}}
}

type histWitness struct {
	Case     int       `json:"case"`
	History  []string  `json:"history"`
	Step     string    `json:"step_kind"`
	Accepted bool      `json:"step_accepted"`
	Mismatch *mismatch `json:"mismatch"`
}

func runHistory(r *core.Run, rnd *rand.Rand, caseNo, steps int) {
	e := g9blib.NewEngNamed("d")
	defer e.Close()
	h := &hist{r: r, rnd: rnd, cat: g9blib.NewCatalog(), e: e, s: e.NewSess(), oldNames: map[string]bool{}}
	d := h.cat.AddSchema("d")
	exec := func(q string) *core.Result {
		h.log = append(h.log, q)
		return h.s.Exec(q)
	}
	if res := exec(g9blib.ParentDDL); res.Failed() {
		r.Inconclusive("setup-failed")
		return
	}
	d.Tables["parent"] = parentModel()
	debug := os.Getenv("C43_DEBUG") != ""
	for k := 0; k <= steps; k++ {
		kind, accepted := "initial", true
		if k > 0 {
			st := h.nextStep()
			if st == nil {
				break
			}
			kind = st.kind
			h.gone = nil
			res := exec(st.sql)
			if res.TimedOut {
				r.Inconclusive("watchdog")
				return
			}
			if res.Panic != nil {
				// a panic in DDL is not this property's failure; the history cannot be trusted further
				r.Inconclusive("ddl-panics")
				r.Count("ddl-panic:"+res.Panic.Site, 1)
				if debug {
					fmt.Fprintf(os.Stderr, "DDL-PANIC %s: %s\n   history: %s\n", res.Panic.Value, st.sql, strings.Join(h.log, " ;; "))
				}
				return
			}
			accepted = res.Err == nil
			if accepted {
				st.apply()
				r.Count("step-accepted:"+kind, 1)
			} else {
				h.log[len(h.log)-1] += "   -- rejected: " + core.Clip(res.Err.Error(), 120)
				r.Count("step-rejected:"+kind, 1)
				if debug {
					fmt.Fprintf(os.Stderr, "REJECTED %s: %s: %v\n", kind, core.Clip(st.sql, 200), res.Err)
				}
			}
		}
		// compare every relation with the model
		bad := false
		for _, ex := range h.cat.Expectations() {
			matched, mm := compare(h.s, ex)
			r.Eval(1)
			r.Count("rows-matched:"+ex.Name, int64(matched))
			if len(mm) == 0 {
				if accepted && matched > 0 {
					r.Distinct(ex.Name + "|" + kind)
				}
				continue
			}
			for _, m := range mm {
				h.classify(ex, m)
				if !accepted && !r.IsKnown(m.sig()) {
					// the rejected statement changed the catalog (DDL atomicity is not this property): the model cannot follow
					r.Inconclusive("rejected-ddl-had-effects")
					r.Count("rejected-ddl-had-effects:"+kind, 1)
					if debug {
						fmt.Fprintf(os.Stderr, "REJECTED-BUT-EFFECT %s: %s\n", m.sig(), core.Clip(h.log[len(h.log)-1], 300))
					}
					return
				}
				if !r.IsKnown(m.sig()) {
					bad = true // later steps would only repeat an unknown difference; known ones do not stop the history
				}
				r.Violation(m.sig(), &histWitness{Case: caseNo, History: append([]string{}, h.log...), Step: kind, Accepted: accepted, Mismatch: m})
			}
		}
		// SHOW CREATE works for every modelled object and fails for the one that just went away
		for _, sn := range sortedNames(h.cat.Schemas) {
			s := h.cat.Schemas[sn]
			check := func(kind, name string) {
				q := "SHOW CREATE " + kind + " " + g9blib.Q(sn) + "." + g9blib.Q(name)
				res := h.s.Exec(q)
				r.Eval(1)
				if res.Failed() || len(res.Rows) != 1 {
					bad = true
					r.Violation("SHOW-CREATE-"+kind+":fails-for-existing-object", &histWitness{Case: caseNo, History: append([]string{}, h.log...), Step: kind, Accepted: accepted,
						Mismatch: &mismatch{Relation: "SHOW CREATE " + kind, Kind: "query-failed", Query: q, Got: fmt.Sprint(res.Err)}})
				}
			}
			for n := range s.Tables {
				check("TABLE", n)
			}
			for n := range s.Views {
				check("VIEW", n)
			}
			for n := range s.Triggers {
				check("TRIGGER", n)
			}
			for n := range s.Procs {
				check("PROCEDURE", n)
			}
		}
		for _, g := range h.gone {
			q := "SHOW CREATE " + g
			res := h.s.Exec(q)
			r.Eval(1)
			if !res.Failed() {
				bad = true
				r.Violation("SHOW-CREATE:succeeds-for-dropped-object:"+strings.Fields(g)[0], &histWitness{Case: caseNo, History: append([]string{}, h.log...), Step: kind, Accepted: accepted,
					Mismatch: &mismatch{Relation: "SHOW CREATE", Kind: "extra-row", Query: q}})
			}
		}
		r.Count("steps-compared", 1)
		if bad {
			return // later steps would repeat the same difference
		}
		if k == steps && caseNo%37 == 0 {
			r.Sample(map[string]any{"case": caseNo, "history": h.log, "compared": "12 information_schema relations + SHOW statements after each of the steps"})
		}
	}
}

func sortedNames(m map[string]*g9blib.MSchema) []string {
	var out []string
	for n := range m {
		out = append(out, n)
	}
	sort.Strings(out)
	return out
}
