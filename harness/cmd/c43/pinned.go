package main

import (
	"fmt"
	"strings"

	"verif/harness/core"
	"verif/harness/g9blib"
)

// pinnedCase is one hand-written witness of a known finding: after setup, the cell (row selected by
// where, column col) of query must be `want` (the MySQL value); the finding still fails while it is not.
type pinnedCase struct {
	sigs  []string
	what  string
	setup []string
	query string
	where map[string]string
	col   string
	want  *string // nil = NULL; for row-existence witnesses use wantRows
	// wantRows >= 0: the number of rows matching where must equal it (col/want unused)
	wantRows int
}

func str(s string) *string { return &s }

func pinned(r *core.Run) {
	base := []string{
		"CREATE TABLE t (id INT NOT NULL, a INT, s VARCHAR(20) DEFAULT 'abc', dd DATE DEFAULT '2020-01-02', tm TIME, u INT, " +
			"ts DATETIME DEFAULT CURRENT_TIMESTAMP ON UPDATE CURRENT_TIMESTAMP, PRIMARY KEY (id), KEY ix (a, s(5)), UNIQUE KEY ua (u), KEY ub (u))",
		"CREATE PROCEDURE pp(IN x INT) COMMENT 'it''s' BEGIN SET @v = x; END",
		"CREATE TABLE old_name (id INT PRIMARY KEY, b INT, KEY ib (b))",
		"RENAME TABLE old_name TO new_name",
		"CREATE DATABASE d2",
		"CREATE TRIGGER trg BEFORE INSERT ON t FOR EACH ROW SET @x = 1",
		"CREATE TRIGGER trg_other BEFORE INSERT ON new_name FOR EACH ROW SET @x = 2",
	}
	cases := []pinnedCase{
		{[]string{"COLUMNS:wrong-value:COLUMN_DEFAULT:date-literal-printed-with-time"}, "COLUMN_DEFAULT of a DATE column shows a time part", nil,
			"SELECT * FROM information_schema.COLUMNS WHERE TABLE_SCHEMA = 'd'", map[string]string{"TABLE_NAME": "t", "COLUMN_NAME": "dd"}, "COLUMN_DEFAULT", str("2020-01-02"), -1},
		{[]string{"COLUMNS:wrong-value:COLUMN_KEY:non-leading-index-column-flagged-MUL", "SHOW-COLUMNS:wrong-value:Key:non-leading-index-column-flagged-MUL"}, "COLUMN_KEY is MUL for a column that is only a non-leading part of an index", nil,
			"SELECT * FROM information_schema.COLUMNS WHERE TABLE_SCHEMA = 'd'", map[string]string{"TABLE_NAME": "t", "COLUMN_NAME": "s"}, "COLUMN_KEY", str(""), -1},
		{[]string{"COLUMNS:wrong-value:COLUMN_KEY:unique-column-flagged-MUL-when-in-another-index", "SHOW-COLUMNS:wrong-value:Key:unique-column-flagged-MUL-when-in-another-index"}, "COLUMN_KEY is MUL instead of UNI for a unique column that also occurs in another index", nil,
			"SELECT * FROM information_schema.COLUMNS WHERE TABLE_SCHEMA = 'd'", map[string]string{"TABLE_NAME": "t", "COLUMN_NAME": "u"}, "COLUMN_KEY", str("UNI"), -1},
		{[]string{"COLUMNS:wrong-value:COLUMN_TYPE:time-printed-as-time(6)", "SHOW-COLUMNS:wrong-value:Type:time-printed-as-time(6)"}, "COLUMN_TYPE of a TIME column is time(6)", nil,
			"SELECT * FROM information_schema.COLUMNS WHERE TABLE_SCHEMA = 'd'", map[string]string{"TABLE_NAME": "t", "COLUMN_NAME": "tm"}, "COLUMN_TYPE", str("time"), -1},
		{[]string{"COLUMNS:wrong-value:EXTRA:on-update-clause-missing", "SHOW-COLUMNS:wrong-value:Extra:on-update-clause-missing"}, "EXTRA omits 'on update CURRENT_TIMESTAMP'", nil,
			"SELECT * FROM information_schema.COLUMNS WHERE TABLE_SCHEMA = 'd'", map[string]string{"TABLE_NAME": "t", "COLUMN_NAME": "ts"}, "EXTRA", str("DEFAULT_GENERATED on update CURRENT_TIMESTAMP"), -1},
		{[]string{"ROUTINES:wrong-value:ROUTINE_DEFINITION:text-lost-its-first-characters"}, "ROUTINE_DEFINITION loses its first character(s) when a characteristic before the body contains an escaped character", nil,
			"SELECT * FROM information_schema.ROUTINES WHERE ROUTINE_SCHEMA = 'd'", map[string]string{"ROUTINE_NAME": "pp"}, "ROUTINE_DEFINITION", str("BEGIN SET @v = x; END"), -1},
		{[]string{"SHOW-COLUMNS:wrong-value:Default:got-sql-quoted-literal"}, "SHOW COLUMNS prints string defaults as quoted SQL literals", nil,
			"SHOW COLUMNS FROM t", map[string]string{"Field": "s"}, "Default", str("abc"), -1},
		{[]string{"SHOW-INDEXES:wrong-value:Sub_part:expected-number-got-NULL"}, "SHOW INDEXES never shows the prefix length", nil,
			"SHOW INDEXES FROM t", map[string]string{"Key_name": "ix", "Seq_in_index": "2"}, "Sub_part", str("5"), -1},
		{[]string{"STATISTICS:wrong-value:SUB_PART:expected-NULL-got-0"}, "STATISTICS.SUB_PART is 0 instead of NULL for an unprefixed part of an index that has a prefixed part", nil,
			"SELECT * FROM information_schema.STATISTICS WHERE TABLE_SCHEMA = 'd'", map[string]string{"TABLE_NAME": "t", "INDEX_NAME": "ix", "SEQ_IN_INDEX": "1"}, "SUB_PART", nil, -1},
		{[]string{"SHOW-INDEXES:wrong-value:Table:old-name-after-rename-table"}, "SHOW INDEXES keeps the old table name after RENAME TABLE", nil,
			"SHOW INDEXES FROM new_name", map[string]string{"Key_name": "ib"}, "Table", str("new_name"), -1},
		{[]string{"TRIGGERS:wrong-value:ACTION_ORDER:counts-triggers-of-other-tables"}, "TRIGGERS.ACTION_ORDER counts triggers with the same timing and event on other tables", nil,
			"SELECT * FROM information_schema.TRIGGERS WHERE TRIGGER_SCHEMA = 'd'", map[string]string{"TRIGGER_NAME": "trg_other"}, "ACTION_ORDER", str("1"), -1},
		{[]string{"SHOW-TRIGGERS:extra-row:from-clause-ignored", "SHOW-TRIGGERS:missing-row:from-clause-ignored"}, "SHOW TRIGGERS FROM <db> ignores the FROM clause and lists the current database's triggers", nil,
			"SHOW TRIGGERS FROM d2", map[string]string{"Trigger": "trg"}, "", nil, 0},
	}
	e := g9blib.NewEngNamed("d")
	defer e.Close()
	s := e.NewSess()
	for _, q := range base {
		s.MustExec(q)
	}
	ctx := s.Ctx()
	for _, c := range cases {
		res := s.Exec(c.query)
		got, rows := "<row not found>", 0
		fails := true
		if res.Failed() {
			got = fmt.Sprint("query failed: ", res.Err)
		} else {
			for _, row := range res.Rows {
				match := true
				var cellV *string
				for k, sc := range res.Schema {
					v := wire(ctx, sc.Type, row[k])
					if want, ok := c.where[sc.Name]; ok {
						if v == nil || *v != want {
							match = false
						}
					}
					for wk, want := range c.where {
						if strings.EqualFold(wk, sc.Name) && wk != sc.Name && (v == nil || *v != want) {
							match = false
						}
					}
					if strings.EqualFold(sc.Name, c.col) {
						cellV = v
					}
				}
				if match {
					rows++
					got = cell(cellV)
					if c.wantRows < 0 {
						fails = (cellV == nil) != (c.want == nil) || (cellV != nil && *cellV != *c.want)
					}
				}
			}
			if c.wantRows >= 0 {
				fails = rows != c.wantRows
				got = fmt.Sprintf("%d matching rows", rows)
			}
		}
		want := cell(c.want)
		if c.wantRows >= 0 {
			want = fmt.Sprintf("%d matching rows", c.wantRows)
		}
		for _, sig := range c.sigs {
			r.Pinned(sig, fmt.Sprintf("%s [%s %v %s: MySQL %s, engine %s]", c.what, c.query, c.where, c.col, want, got), fails,
				map[string]any{"setup": base, "query": c.query, "where": c.where, "column": c.col, "expected": want, "got": got})
		}
	}
}
