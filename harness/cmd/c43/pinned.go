package main

import "verif/harness/core"

func pinned(r *core.Run) {}
