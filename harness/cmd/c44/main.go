// C44 — system and user variables store and scope values correctly.
//
// Part A (every registered system variable × candidate values derived from its declared type × SESSION/GLOBAL):
//   - `SET <scope> v = <value>` succeeds exactly when the scope rules allow it, the variable is dynamic and the
//     variable type's Convert accepts the value (the Go value of the literal is obtained with `SELECT <literal>`);
//   - on success `SELECT @@<scope>.v` returns Convert's value, which for numbers and strings must also be the value
//     that was assigned (no silent change), and the other scope's value is untouched; a new session starts from the
//     new global value;
//   - on failure both the session and the global value are unchanged.
//
// Part B (3 sessions + sessions opened later, a model of global / per-session / @user values): histories of SET
// SESSION / SET GLOBAL / SET @@… / SET @u and reads; every read must return what the model holds.
//
// The registry is process-global: everything runs on one goroutine and defaults are restored (and checked) after
// every variable and every history.
package main

import (
	"fmt"
	"math"
	"math/big"
	"reflect"
	"sort"
	"strings"

	"github.com/dolthub/go-mysql-server/sql"
	"github.com/dolthub/go-mysql-server/sql/variables"

	"verif/harness/core"
)

func main() {
	r := core.NewRun("C44", "exploration",
		"part A: one evaluation per (system variable, scope, candidate value) SET outcome and per read-back / unchanged-value / new-session check; part B: one evaluation per read in a multi-session SET history; distinct = (variable type, scope kind, value class, outcome) and (history operation kinds)")
	r.Assume("the Go value a literal evaluates to is taken from SELECT <literal> on the same engine; ON/OFF/TRUE/FALSE keywords are booleans, a bare identifier is its text")
	r.Assume("variables with a NotifyChanged callback, time_zone and the linked character_set_*/collation_* variables may reject more than their type's Convert (their extra validation is part of 'validates the value'); for them only 'Convert rejects ⇒ SET fails', read-back and no-effect-on-failure are judged")
	r.Assume("SET SESSION v = DEFAULT is judged only while the global value equals the compiled default (MySQL takes the global value, the engine the compiled default)")
	r.Assume("SET PERSIST is not judged: the in-memory session does not implement persistence")

	e := core.NewEng("d")
	defer e.Close()
	func() {
		defer func() {
			if rec := recover(); rec != nil {
				p := core.CapturePanic(rec)
				r.Violation(p.Sig(), map[string]any{"panic": p.Value, "stack": p.Stack})
			}
		}()
		partA(r, e)
		partB(r, e)
		pinned(r, e)
	}()
	r.Floor(r.Counter("A.set.accepted") > 300 && r.Counter("A.set.rejected") > 300, "fewer than 300 accepted or 300 rejected SETs in part A")
	r.Floor(r.Counter("A.variables") >= 300, "fewer than 300 system variables swept")
	r.Floor(r.Counter("A.declared-range-agrees") > 500, "fewer than 500 integer SETs compared with the declared range")
	r.Floor(r.Counter("B.reads") > 500, "fewer than 500 reads in scoping histories")
	r.Floor(r.Counter("B.new-session-sees-global") > 20, "no new session observed a changed global value")
	r.Finish()
}

// ---- helpers ----

type cand struct {
	lit   string // SQL text of the value
	class string // value class for evidence
	isNum bool   // the literal is a plain number (read-back must be numerically equal)
	isStr bool   // the literal is a quoted string
	str   string // its text
}

func num(s, class string) cand { return cand{lit: s, class: class, isNum: true} }
func str(s, class string) cand {
	return cand{lit: "'" + strings.ReplaceAll(s, "'", "''") + "'", class: class, isStr: true, str: s}
}
func raw(s, class string) cand { return cand{lit: s, class: class} }

// goValue evaluates a literal the way the SET statement will see it.
func goValue(s *core.Sess, c cand) (any, bool) {
	switch strings.ToUpper(c.lit) {
	case "ON", "TRUE":
		return true, true
	case "OFF", "FALSE":
		return false, true
	case "NULL":
		return nil, true
	}
	if !c.isNum && !c.isStr {
		// bare identifier (enum member name)
		if isIdent(c.lit) {
			return c.lit, true
		}
	}
	res := s.Exec("SELECT " + c.lit)
	if res.Failed() || len(res.Rows) != 1 {
		return nil, false
	}
	return res.Rows[0][0], true
}

func isIntLit(s string) bool {
	for i, c := range s {
		if !(c >= '0' && c <= '9') && !(i == 0 && c == '-') {
			return false
		}
	}
	return s != ""
}

func isIdent(s string) bool {
	if s == "" {
		return false
	}
	for i, c := range s {
		if !(c == '_' || (c >= 'a' && c <= 'z') || (c >= 'A' && c <= 'Z') || (i > 0 && c >= '0' && c <= '9')) {
			return false
		}
	}
	return true
}

// read returns the canonical text of @@scope.name ("ERR:<class>" when the read fails).
func read(s *core.Sess, scope, name string) string {
	res := s.Exec(fmt.Sprintf("SELECT @@%s.%s", scope, name))
	if res.Failed() {
		return "ERR:" + res.ErrClass()
	}
	if len(res.Rows) != 1 || len(res.Rows[0]) != 1 {
		return "ERR:shape"
	}
	return core.Canon(res.Rows[0][0])
}

func typeKind(t sql.Type) string {
	n := fmt.Sprintf("%T", t)
	switch {
	case strings.Contains(n, "SystemBool"):
		return "bool"
	case strings.Contains(n, "systemInt"):
		return "int"
	case strings.Contains(n, "systemUint"):
		return "uint"
	case strings.Contains(n, "systemDouble"):
		return "double"
	case strings.Contains(n, "systemEnum"):
		return "enum"
	case strings.Contains(n, "systemSet"):
		return "set"
	case strings.Contains(n, "systemString"):
		return "string"
	}
	return "other:" + n
}

// enumMembers discovers the members of an enum system type through Convert(index).
func enumMembers(ctx *sql.Context, t sql.Type) []string {
	var out []string
	for i := 0; i < 64; i++ {
		v, _, err := t.Convert(ctx, i)
		if err != nil {
			break
		}
		out = append(out, fmt.Sprint(v))
	}
	return out
}

// intBounds finds the accepted integer interval around the default by bisection on Convert.
func intBounds(ctx *sql.Context, t sql.Type, def int64) (lo, hi int64, ok bool) {
	acc := func(v int64) bool { _, _, err := t.Convert(ctx, v); return err == nil }
	if !acc(def) {
		return 0, 0, false
	}
	a, b := def, int64(math.MaxInt64)
	if acc(b) {
		hi = b
	} else {
		for b-a > 1 {
			m := a + (b-a)/2
			if acc(m) {
				a = m
			} else {
				b = m
			}
		}
		hi = a
	}
	a, b = int64(math.MinInt64), def
	if acc(a) {
		lo = a
	} else {
		for b-a > 1 {
			m := a + (b-a)/2
			if acc(m) {
				b = m
			} else {
				a = m
			}
		}
		lo = b
	}
	return lo, hi, true
}

func candidates(r *core.Run, ctx *sql.Context, rnd interface{ Intn(int) int }, sv sql.SystemVariable, extra int) []cand {
	t := sv.GetType()
	kind := typeKind(t)
	var cs []cand
	switch kind {
	case "bool":
		cs = []cand{num("0", "zero"), num("1", "one"), raw("ON", "kw-on"), raw("OFF", "kw-off"), raw("TRUE", "kw-true"), raw("FALSE", "kw-false"),
			str("ON", "str-on"), str("off", "str-off"), str("True", "str-true"), str("yes", "str-invalid"), num("2", "int-invalid"), num("-1", "int-invalid"),
			num("0.5", "fraction"), num("1.0", "integral-decimal"), raw("NULL", "null"), str("", "empty-string")}
	case "int", "uint":
		def := int64(0)
		switch d := sv.GetDefault().(type) {
		case int64:
			def = d
		case uint64:
			if d <= math.MaxInt64 {
				def = int64(d)
			}
		case int:
			def = int64(d)
		}
		cs = []cand{num("0", "zero"), num("1", "one"), num("-1", "minus-one"), num("-2", "negative"), num("255", "small"), num("65536", "medium"),
			num("4294967295", "2^32-1"), num("4294967296", "2^32"), num("9223372036854775807", "2^63-1"), num("9223372036854775808", "2^63"),
			num("18446744073709551615", "2^64-1"), num("-9223372036854775808", "-2^63"), str("5", "numeric-string"), str("abc", "str-invalid"),
			num("1.0", "integral-decimal"), num("1.5", "fraction"), raw("NULL", "null"), raw("ON", "kw-on")}
		if lo, hi, ok := intBounds(ctx, t, def); ok {
			cs = append(cs, num(fmt.Sprint(lo), "at-min"), num(fmt.Sprint(hi), "at-max"))
			if lo > math.MinInt64 {
				cs = append(cs, num(fmt.Sprint(lo-1), "below-min"))
			}
			if hi < math.MaxInt64 {
				cs = append(cs, num(fmt.Sprint(hi+1), "above-max"))
			}
			for k := 0; k < extra; k++ {
				span := hi/2 - lo/2
				if span <= 0 {
					break
				}
				v := lo + int64(rnd.Intn(1<<30))%(2*span+1)
				cs = append(cs, num(fmt.Sprint(v), "in-range-random"))
			}
		}
	case "double":
		cs = []cand{num("0", "zero"), num("1", "one"), num("0.5", "fraction"), num("-1.5", "negative"), num("1e10", "large"), num("1e300", "huge"),
			str("x", "str-invalid"), str("0.25", "numeric-string"), raw("NULL", "null"),
			// spellings strconv.ParseFloat turns into values that are no numbers: never a valid value of a numeric variable
			str("nan", "str-not-a-number"), str("NaN", "str-not-a-number"), str("inf", "str-not-a-number"), str("-Inf", "str-not-a-number"), str("+infinity", "str-not-a-number")}
	case "enum":
		ms := enumMembers(ctx, t)
		for i, m := range ms {
			if i < 4 || rnd.Intn(3) == 0 {
				cs = append(cs, str(m, "member-name"), str(flipCase(m), "member-name-other-case"), num(fmt.Sprint(i), "member-index"))
				if isIdent(m) && !isKeywordish(m) {
					cs = append(cs, raw(m, "member-bare-identifier"))
				}
			}
		}
		cs = append(cs, num(fmt.Sprint(len(ms)), "index-out-of-range"), num("-1", "index-negative"), str("no_such_member", "str-invalid"), raw("NULL", "null"),
			num("0.5", "fraction"), str("", "empty-string"))
	case "set":
		var vals []string
		if st, ok := t.(sql.SetType); ok {
			vals = st.Values()
		}
		cs = append(cs, str("", "empty-set"), num("0", "bits-zero"), raw("NULL", "null"), str("no_such_member", "str-invalid"))
		if len(vals) > 0 {
			a := vals[rnd.Intn(len(vals))]
			b := vals[rnd.Intn(len(vals))]
			cs = append(cs, str(a, "one-member"), str(flipCase(a), "one-member-other-case"), str(a+","+b, "two-members"), str(b+","+a, "two-members-reversed"),
				str(a+",no_such_member", "member-plus-invalid"), num("1", "bits-one"), num("3", "bits-three"))
			if len(vals) < 63 {
				cs = append(cs, num(fmt.Sprint(uint64(1)<<uint(len(vals))), "bits-out-of-range"))
			}
			for k := 0; k < extra; k++ {
				n := 1 + rnd.Intn(4)
				var p []string
				for j := 0; j < n; j++ {
					p = append(p, vals[rnd.Intn(len(vals))])
				}
				cs = append(cs, str(strings.Join(p, ","), "random-members"))
			}
		}
	case "string":
		cs = []cand{str("abc", "text"), str("", "empty-string"), str("ünï cödé", "non-ascii"), str(strings.Repeat("x", 300), "long"), raw("NULL", "null"),
			num("5", "number"), num("1.5", "fraction"), str(fmt.Sprint(sv.GetDefault()), "default-text")}
	default:
		cs = []cand{num("1", "one"), str("abc", "text"), raw("NULL", "null")}
	}
	cs = append(cs, raw("DEFAULT", "default-keyword"))
	return cs
}

func flipCase(s string) string {
	if s == strings.ToUpper(s) {
		return strings.ToLower(s)
	}
	return strings.ToUpper(s)
}

func isKeywordish(s string) bool {
	switch strings.ToUpper(s) {
	case "ON", "OFF", "TRUE", "FALSE", "DEFAULT", "NULL", "ALL", "SYSTEM", "FILE", "TABLE", "NONE", "ROW", "FULL", "INNODB", "MEMORY", "MIXED", "STATEMENT", "AUTO", "ALWAYS", "NEVER":
		return true
	}
	return false
}

// extraValidation names variables whose SET may reject a value their type accepts.
func extraValidation(sv sql.SystemVariable) bool {
	if m, ok := sv.(*sql.MysqlSystemVariable); ok && m.NotifyChanged != nil {
		return true
	}
	switch strings.ToLower(sv.GetName()) {
	case "time_zone", "character_set_connection", "collation_connection", "character_set_server", "collation_server":
		return true
	}
	return false
}

func scopeKind(sv sql.SystemVariable) string {
	m, ok := sv.(*sql.MysqlSystemVariable)
	if !ok {
		return "custom"
	}
	switch m.Scope.Type {
	case sql.SystemVariableScope_Global:
		return "global-only"
	case sql.SystemVariableScope_Session:
		return "session-only"
	case sql.SystemVariableScope_Both:
		return "both"
	case sql.SystemVariableScope_Persist:
		return "global-persist"
	}
	return "other"
}

// display renders Convert's result the way a read shows it (SET types are stored as bits and read as text).
func display(t sql.Type, v any) any {
	if st, ok := t.(sql.SetType); ok {
		if bits, ok := v.(uint64); ok {
			if s, err := st.BitsToString(bits); err == nil {
				return s
			}
		}
	}
	return v
}

func restoreDefaults(defaults map[string]any, names ...string) error {
	m := map[string]any{}
	for _, n := range names {
		m[n] = defaults[n]
	}
	return sql.SystemVariables.AssignValues(m)
}

// inDeclaredRange reads lowerbound/upperbound(/negativeOne) from the system type's value.
func inDeclaredRange(t sql.Type, kind string, n *big.Int) (in bool, known bool) {
	v := reflect.ValueOf(t)
	if v.Kind() != reflect.Struct {
		return false, false
	}
	lo, hi := v.FieldByName("lowerbound"), v.FieldByName("upperbound")
	if !lo.IsValid() || !hi.IsValid() {
		return false, false
	}
	var l, h *big.Int
	switch kind {
	case "int":
		if lo.Kind() != reflect.Int64 || hi.Kind() != reflect.Int64 {
			return false, false
		}
		l, h = big.NewInt(lo.Int()), big.NewInt(hi.Int())
		if neg := v.FieldByName("negativeOne"); neg.IsValid() && neg.Kind() == reflect.Bool && neg.Bool() && n.Cmp(big.NewInt(-1)) == 0 {
			return true, true
		}
	case "uint":
		if lo.Kind() != reflect.Uint64 || hi.Kind() != reflect.Uint64 {
			return false, false
		}
		l, h = new(big.Int).SetUint64(lo.Uint()), new(big.Int).SetUint64(hi.Uint())
	default:
		return false, false
	}
	return n.Cmp(l) >= 0 && n.Cmp(h) <= 0, true
}

// numberChangeSig names how an accepted number differs from the number stored (stored a, assigned b).
func numberChangeSig(kind, class string, a, b *big.Rat) string {
	two64 := new(big.Rat).SetInt(new(big.Int).Lsh(big.NewInt(1), 64))
	switch {
	case kind == "int" && b.IsInt() && new(big.Rat).Sub(b, two64).Cmp(a) == 0:
		return "int-variable-stores-unsigned-literal-above-2^63-wrapped-negative"
	case kind == "uint" && b.IsInt() && b.Sign() < 0 && new(big.Rat).Add(b, two64).Cmp(a) == 0:
		return "uint-variable-stores-negative-literal-wrapped-to-2^64-minus-n"
	case kind == "uint" && !b.IsInt() && a.IsInt():
		d := new(big.Rat).Sub(a, b)
		if d.Abs(d).Cmp(big.NewRat(1, 2)) <= 0 {
			return "uint-variable-rounds-fractional-literal"
		}
	}
	return fmt.Sprintf("accepted-number-stored-as-a-different-number:%s:%s", kind, class)
}

// ---- part A ----

func partA(r *core.Run, e *core.Eng) {
	all := sql.SystemVariables.GetAllGlobalVariables()
	var names []string
	defaults := map[string]any{}
	for n, v := range all {
		names = append(names, n)
		defaults[n] = v
	}
	sort.Strings(names)
	extra := r.N(0, 30)
	linked := map[string]string{"character_set_connection": "collation_connection", "collation_connection": "character_set_connection",
		"character_set_server": "collation_server", "collation_server": "character_set_server"}
	for vi, name := range names {
		sv, _, ok := sql.SystemVariables.GetGlobal(name)
		if !ok || sv == nil {
			r.Inconclusive("variable listed but GetGlobal does not return it")
			continue
		}
		if m, ok := sv.(*sql.MysqlSystemVariable); ok && m.ValueFunction != nil {
			// computed on every read (uptime …): only the read-only rule is checked
			s := e.NewSess()
			res := s.Exec(fmt.Sprintf("SET GLOBAL %s = 1", name))
			r.Eval(1)
			if !res.Failed() {
				r.Violation("computed-variable-accepts-set", map[string]any{"variable": name})
			}
			r.Distinct("computed|read-only")
			continue
		}
		if name == "character_set_database" || name == "collation_database" {
			// documented: the session value is derived from the current database on every read
			r.Count("A.skipped.derived-from-current-database", 1)
			continue
		}
		r.Count("A.variables", 1)
		rnd := r.Rand("A/"+name, 0)
		s := e.NewSess()
		ctx := s.Ctx()
		t := sv.GetType()
		kind, sk := typeKind(t), scopeKind(sv)
		readOnly := sv.IsReadOnly()
		xv := extraValidation(sv)
		haveBefore := false
		var lastS, lastG string
		for _, c := range candidates(r, ctx, rnd, sv, extra) {
			for _, scope := range []string{"SESSION", "GLOBAL"} {
				// system variable names are case-insensitive: spell the name in upper or mixed case in a third of
				// the statements (reads always use the lower-case name)
				spelled := name
				switch rnd.Intn(6) {
				case 0:
					spelled = strings.ToUpper(name)
				case 1:
					b := []byte(name)
					for k := range b {
						if k%2 == 0 && b[k] >= 'a' && b[k] <= 'z' {
							b[k] -= 32
						}
					}
					spelled = string(b)
				}
				stmt := fmt.Sprintf("SET %s %s = %s", scope, spelled, c.lit)
				if rnd.Intn(3) == 0 {
					stmt = fmt.Sprintf("SET @@%s.%s = %s", strings.ToLower(scope), spelled, c.lit)
				}
				wit := map[string]any{"variable": name, "type": kind, "declared_scope": sk, "read_only": readOnly, "statement": stmt}
				// what the statement must do
				scopeErr := (scope == "SESSION" && sk == "global-only") || (scope == "SESSION" && sk == "global-persist") || (scope == "GLOBAL" && sk == "session-only")
				var want any
				accept := false
				judgeAccept := true
				if c.lit == "DEFAULT" {
					want = defaults[name]
					accept = true
					if scope == "SESSION" && read(s, "global", name) != core.Canon(display(t, defaults[name])) {
						judgeAccept = false
					}
				} else {
					g, ok := goValue(s, c)
					if !ok {
						r.Inconclusive("literal not evaluable")
						continue
					}
					cv, _, err := t.Convert(ctx, g)
					accept = err == nil
					want = cv
					wit["go_value_of_literal"] = fmt.Sprintf("%T:%v", g, g)
				}
				if c.isNum && isIntLit(c.lit) {
					switch name {
					case "sql_mode", "collation_connection", "collation_server", "lc_time_names":
						// MySQL-compatible integer forms (mode bitmask, collation id) are translated before the type sees them
						r.Count("A.skipped.special-integer-form", 1)
						continue
					}
				}
				mustFail := scopeErr || readOnly
				// nothing else touches the registry (single goroutine), so the values read after the previous statement of
				// this session are the values before this one
				if !haveBefore {
					lastS, lastG = read(s, "session", name), read(s, "global", name)
					haveBefore = true
				}
				beforeS, beforeG := lastS, lastG
				res := s.Exec(stmt)
				afterS, afterG := read(s, "session", name), read(s, "global", name)
				lastS, lastG = afterS, afterG
				wit["before"] = map[string]string{"session": beforeS, "global": beforeG}
				wit["after"] = map[string]string{"session": afterS, "global": afterG}
				if res.Panic != nil {
					r.Eval(1)
					r.Violation(res.Panic.Sig(), wit)
					continue
				}
				if res.TimedOut {
					r.Inconclusive("watchdog")
					continue
				}
				failed := res.Err != nil
				if failed {
					wit["error"] = res.Err.Error()
					if strings.Contains(res.Err.Error(), "syntax error") {
						r.Inconclusive("statement does not parse")
						continue
					}
					if strings.Contains(name, ".") && sql.ErrUnknownSystemVariable.Is(res.Err) {
						r.Inconclusive("component variable (dotted name) cannot be addressed by SET")
						continue
					}
				}
				outcome := "accepted"
				if failed {
					outcome = "rejected"
				}
				r.Count("A.set."+outcome, 1)
				// 1. accept / reject
				r.Eval(1)
				switch {
				case mustFail && !failed:
					r.Violation(fmt.Sprintf("set-accepted-against-scope-or-read-only:%s:%s", sk, scope), wit)
				case !mustFail && !accept && !failed:
					r.Violation(fmt.Sprintf("set-accepts-value-the-type-rejects:%s:%s", kind, c.class), wit)
				case !mustFail && accept && failed && judgeAccept && !xv:
					r.Violation(fmt.Sprintf("set-rejects-value-the-type-accepts:%s:%s", kind, c.class), wit)
				default:
					r.Distinct(fmt.Sprintf("%s|%s|%s|%s|%s", kind, sk, scope, c.class, outcome))
				}
				// 1b. integers against the range the type declares (read from the type value, independent of Convert)
				if c.isNum && isIntLit(c.lit) && (kind == "int" || kind == "uint") && !mustFail {
					if n, ok := new(big.Int).SetString(c.lit, 10); ok {
						if in, known := inDeclaredRange(t, kind, n); known {
							r.Eval(1)
							switch {
							case in && failed && !xv:
								wit["declared_range"] = fmt.Sprintf("%+v", t)
								r.Violation("set-rejects-integer-inside-declared-range:"+kind, wit)
							case !in && !failed:
								// an accepted out-of-range value that is stored as another number is named below (numberChangeSig)
								mine := afterS
								if scope == "GLOBAL" {
									mine = afterG
								}
								if a, okA := core.Rat(mine); okA && a.Cmp(new(big.Rat).SetInt(n)) == 0 {
									wit["declared_range"] = fmt.Sprintf("%+v", t)
									r.Violation("set-accepts-integer-outside-declared-range:"+kind, wit)
								}
							default:
								r.Count("A.declared-range-agrees", 1)
							}
						}
					}
				}
				// 2. effect
				if failed {
					r.Eval(1)
					if beforeS != afterS || beforeG != afterG {
						r.Violation(fmt.Sprintf("failed-set-changed-the-value:%s:%s", kind, scope), wit)
					}
					continue
				}
				mine, other := afterS, afterG
				otherBefore := beforeG
				if scope == "GLOBAL" {
					mine, other, otherBefore = afterG, afterS, beforeS
				}
				if kind == "double" {
					// whatever the type's own Convert says: a numeric variable holds a finite number
					r.Eval(1)
					if _, isNumber := core.Rat(strings.TrimPrefix(mine, "f")); !isNumber {
						r.Violation("double-variable-holds-a-non-number:"+c.class, wit)
						continue
					}
				}
				if accept && judgeAccept {
					r.Eval(1)
					wantText := core.Canon(display(t, want))
					wit["convert_result"] = wantText
					if mine != wantText {
						sig := fmt.Sprintf("read-back-differs-from-converted-value:%s:%s", kind, c.class)
						if c.class == "member-bare-identifier" {
							sig = "enum-bare-identifier-stored-as-another-member:" + strings.ToUpper(c.lit)
						}
						r.Violation(sig, wit)
					} else if c.isNum && (kind == "int" || kind == "uint" || kind == "double") {
						// "returns exactly the value assigned": the number read back is the number assigned
						a, okA := core.Rat(strings.TrimPrefix(mine, "f"))
						b, okB := core.Rat(c.lit)
						if okA && okB && a.Cmp(b) != 0 && len(res.Warnings) == 0 {
							r.Violation(numberChangeSig(kind, c.class, a, b), wit)
						}
					} else if c.isStr && kind == "string" && mine != core.Canon(c.str) {
						r.Violation("accepted-string-stored-as-a-different-string", wit)
					}
				}
				// the other scope is untouched (linked charset/collation variables move together in one scope only)
				r.Eval(1)
				if other != otherBefore {
					r.Violation(fmt.Sprintf("set-%s-changed-the-other-scope:%s", strings.ToLower(scope), kind), wit)
				}
				// a new session starts from the global value
				if scope == "GLOBAL" && sk == "both" {
					n := e.NewSess()
					r.Eval(1)
					if got := read(n, "session", name); got != afterG {
						wit["new_session_value"] = got
						r.Violation("new-session-does-not-start-from-global-value:"+kind, wit)
					}
				}
				if vi%40 == 0 && c.class == "default-keyword" {
					r.Sample(wit)
				}
			}
		}
		// restore and verify
		toRestore := []string{name}
		if l, ok := linked[name]; ok {
			toRestore = append(toRestore, l)
		}
		if err := restoreDefaults(defaults, toRestore...); err != nil {
			// the registered default is rejected by the variable's own type: rebuild the registry from its defaults
			r.Count("A.default-rejected-by-own-type", 1)
			variables.InitSystemVariables()
		}
		if got, wantText := read(e.NewSess(), "global", name), core.Canon(display(t, defaults[name])); got != wantText && !strings.HasPrefix(got, "ERR:") {
			r.Violation("harness:default-not-restored", map[string]any{"variable": name, "global": got, "default": wantText})
		}
	}
}
