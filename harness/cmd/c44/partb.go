package main

import (
	"fmt"
	"strings"

	"github.com/dolthub/go-mysql-server/sql"

	"verif/harness/core"
)

// palette: dynamic variables of both scopes whose value does not change how the harness's own statements run.
var palette = []struct {
	name string
	vals []string // SQL literals that are valid values
}{
	{"wait_timeout", []string{"1", "100", "28800", "31536000"}},
	{"net_read_timeout", []string{"1", "30", "45", "31536000"}},
	{"net_write_timeout", []string{"1", "60", "99"}},
	{"lock_wait_timeout", []string{"1", "50", "31536000"}},
	{"max_execution_time", []string{"0", "7", "123456"}},
	{"default_week_format", []string{"0", "3", "7"}},
	{"group_concat_max_len", []string{"4", "1024", "99999"}},
	{"interactive_timeout", []string{"1", "28800", "77"}},
	{"big_tables", []string{"0", "1"}},
	{"sql_notes", []string{"0", "1"}},
	{"completion_type", []string{"'NO_CHAIN'", "'CHAIN'", "'RELEASE'"}},
	{"myisam_stats_method", []string{"'nulls_unequal'", "'nulls_equal'", "'nulls_ignored'"}},
}

type userVal struct {
	lit  string
	want string // canonical text of the value read back
}

var userVals = []userVal{
	{"5", "5"}, {"-17", "-17"}, {"9223372036854775807", "9223372036854775807"}, {"'abc'", "'abc'"}, {"''", "''"}, {"'ünï'", "'ünï'"},
	{"1.5", "1.5"}, {"-0.25", "-0.25"}, {"NULL", "NULL"}, {"'5'", "'5'"}, {"0", "0"}, {"18446744073709551615", "18446744073709551615"},
	{"'it''s'", "'it's'"}, {"123456789012345678.5", "123456789012345678.5"},
}

type bModel struct {
	global  map[string]string
	session []map[string]string // per session
	user    []map[string]string
}

func partB(r *core.Run, e *core.Eng) {
	defaults := map[string]any{}
	all := sql.SystemVariables.GetAllGlobalVariables()
	var names []string
	for _, p := range palette {
		sv, _, ok := sql.SystemVariables.GetGlobal(p.name)
		if !ok || sv == nil || sv.IsReadOnly() || scopeKind(sv) != "both" {
			r.Violation("harness:palette-variable-unusable", map[string]any{"variable": p.name})
			return
		}
		defaults[p.name] = all[p.name]
		names = append(names, p.name)
	}
	nHist := r.N(120, 3000)
	for h := 0; h < nHist; h++ {
		rnd := r.Rand("B", h)
		var log []string
		m := &bModel{global: map[string]string{}}
		var sess []*core.Sess
		probe := e.NewSess()
		for _, n := range names {
			m.global[n] = read(probe, "global", n)
		}
		open := func() {
			s := e.NewSess()
			sess = append(sess, s)
			sv := map[string]string{}
			for k, v := range m.global {
				sv[k] = v
			}
			m.session = append(m.session, sv)
			m.user = append(m.user, map[string]string{})
			log = append(log, fmt.Sprintf("-- open session s%d", len(sess)-1))
		}
		for k := 0; k < 3; k++ {
			open()
		}
		steps := 12 + rnd.Intn(14)
		kinds := map[string]bool{}
		bad := false
		for st := 0; st < steps && !bad; st++ {
			si := rnd.Intn(len(sess))
			s := sess[si]
			p := palette[rnd.Intn(len(palette))]
			val := p.vals[rnd.Intn(len(p.vals))]
			run := func(q string) *core.Result {
				log = append(log, fmt.Sprintf("s%d: %s", si, q))
				return s.Exec(q)
			}
			canonOf := func(lit string) string {
				res := probe.Exec("SELECT " + lit)
				if res.Failed() {
					return "ERR"
				}
				return core.Canon(res.Rows[0][0])
			}
			check := func(what, scope, name, want string) {
				got := read(s, scope, name)
				log = append(log, fmt.Sprintf("s%d: SELECT @@%s.%s -> %s (model %s)", si, scope, name, got, want))
				r.Eval(1)
				r.Count("B.reads", 1)
				if got != want {
					bad = true
					r.Violation("scoping:"+what, map[string]any{"history": append([]string{}, log...), "session": si, "variable": name, "scope": scope, "model": want, "engine": got})
				}
			}
			switch op := rnd.Intn(12); op {
			case 0, 1:
				spell := []string{"SET SESSION %s = %s", "SET %s = %s", "SET @@session.%s = %s", "SET @@%s = %s", "SET LOCAL %s = %s"}[rnd.Intn(5)]
				res := run(fmt.Sprintf(spell, p.name, val))
				kinds["set-session"] = true
				if res.Failed() {
					bad = true
					r.Violation("scoping:valid-session-set-fails", map[string]any{"history": append([]string{}, log...), "error": fmt.Sprint(res.Err)})
					break
				}
				m.session[si][p.name] = canonOf(val)
				check("session-value-after-set-session", "session", p.name, m.session[si][p.name])
				check("global-value-after-set-session", "global", p.name, m.global[p.name])
			case 2, 3:
				spell := []string{"SET GLOBAL %s = %s", "SET @@global.%s = %s"}[rnd.Intn(2)]
				res := run(fmt.Sprintf(spell, p.name, val))
				kinds["set-global"] = true
				if res.Failed() {
					bad = true
					r.Violation("scoping:valid-global-set-fails", map[string]any{"history": append([]string{}, log...), "error": fmt.Sprint(res.Err)})
					break
				}
				m.global[p.name] = canonOf(val)
				check("global-value-after-set-global", "global", p.name, m.global[p.name])
				check("own-session-value-after-set-global", "session", p.name, m.session[si][p.name])
			case 4:
				// read everything everywhere for one variable
				kinds["read-all"] = true
				for k := range sess {
					si, s = k, sess[k]
					check("session-value-in-other-session", "session", p.name, m.session[k][p.name])
					check("global-value-in-other-session", "global", p.name, m.global[p.name])
				}
			case 5:
				if len(sess) < 6 {
					open()
					kinds["open-session"] = true
					si, s = len(sess)-1, sess[len(sess)-1]
					changed := false
					for _, n := range names {
						check("new-session-starts-from-global", "session", n, m.global[n])
						if m.global[n] != core.Canon(display(mustType(n), defaults[n])) {
							changed = true
						}
					}
					if changed {
						r.Count("B.new-session-sees-global", 1)
					}
				}
			case 6:
				res := run(fmt.Sprintf("SET GLOBAL %s = DEFAULT", p.name))
				kinds["global-default"] = true
				if res.Failed() {
					bad = true
					r.Violation("scoping:set-global-default-fails", map[string]any{"history": append([]string{}, log...), "error": fmt.Sprint(res.Err)})
					break
				}
				m.global[p.name] = core.Canon(display(mustType(p.name), defaults[p.name]))
				check("global-value-after-default", "global", p.name, m.global[p.name])
				check("own-session-value-after-global-default", "session", p.name, m.session[si][p.name])
			case 7:
				// multi-assignment: session of one variable, global of another, a user variable
				q := palette[rnd.Intn(len(palette))]
				qv := q.vals[rnd.Intn(len(q.vals))]
				uv := userVals[rnd.Intn(len(userVals))]
				if q.name == p.name {
					break
				}
				res := run(fmt.Sprintf("SET SESSION %s = %s, GLOBAL %s = %s, @m = %s", p.name, val, q.name, qv, uv.lit))
				kinds["multi-assignment"] = true
				if res.Failed() {
					bad = true
					r.Violation("scoping:valid-multi-assignment-fails", map[string]any{"history": append([]string{}, log...), "error": fmt.Sprint(res.Err)})
					break
				}
				m.session[si][p.name] = canonOf(val)
				m.global[q.name] = canonOf(qv)
				m.user[si]["m"] = uv.want
				check("session-value-after-multi-set", "session", p.name, m.session[si][p.name])
				check("global-value-after-multi-set", "global", q.name, m.global[q.name])
				check("session-of-second-variable-after-multi-set", "session", q.name, m.session[si][q.name])
			case 8, 9:
				uv := userVals[rnd.Intn(len(userVals))]
				un := []string{"a", "b", "Mixed"}[rnd.Intn(3)]
				spell := "SET @%s = %s"
				if rnd.Intn(3) == 0 {
					spell = "SET @%s := %s"
				}
				res := run(fmt.Sprintf(spell, un, uv.lit))
				kinds["set-user"] = true
				if res.Failed() {
					bad = true
					r.Violation("user-variable:set-fails", map[string]any{"history": append([]string{}, log...), "error": fmt.Sprint(res.Err)})
					break
				}
				m.user[si][strings.ToLower(un)] = uv.want
			case 10, 11:
				// read a user variable (possibly never set, possibly set in another session, possibly in another case)
				un := []string{"a", "b", "mixed", "MIXED", "never_set", "m"}[rnd.Intn(6)]
				want, ok := m.user[si][strings.ToLower(un)]
				if !ok {
					want = "NULL"
				}
				res := run("SELECT @" + un)
				kinds["read-user"] = true
				r.Eval(1)
				r.Count("B.reads", 1)
				got := "ERR"
				if !res.Failed() && len(res.Rows) == 1 {
					got = core.Canon(res.Rows[0][0])
				}
				if got != want {
					bad = true
					r.Violation("user-variable:read-differs", map[string]any{"history": append([]string{}, log...), "session": si, "variable": un, "model": want, "engine": got})
				}
			}
		}
		var ks []string
		for k := range kinds {
			ks = append(ks, k)
		}
		sortStrings(ks)
		r.Distinct("history|" + strings.Join(ks, "+"))
		if h < 2 {
			r.Sample(map[string]any{"scoping_history": log})
		}
		if err := restoreDefaults(defaults, names...); err != nil {
			r.Violation("harness:restore-default-failed", map[string]any{"error": err.Error()})
			return
		}
	}
}

func mustType(name string) sql.Type {
	sv, _, _ := sql.SystemVariables.GetGlobal(name)
	return sv.GetType()
}

func sortStrings(a []string) {
	for i := 1; i < len(a); i++ {
		for j := i; j > 0 && a[j] < a[j-1]; j-- {
			a[j], a[j-1] = a[j-1], a[j]
		}
	}
}

// pinned replays the known findings of C44 (findings/C44.txt) on every run.
func pinned(r *core.Run, e *core.Eng) {
	defaults := sql.SystemVariables.GetAllGlobalVariables()
	type pw struct {
		sig, what, stmt, scope, name string
		// prescribed: the statement fails, or the value read back is `want`
		mustFail bool
		want     string
	}
	for _, p := range []pw{
		{sig: "uint-variable-stores-negative-literal-wrapped-to-2^64-minus-n", what: "a negative literal assigned to an unsigned variable is stored as 2^64-n",
			stmt: "SET SESSION bulk_insert_buffer_size = -1", scope: "session", name: "bulk_insert_buffer_size", mustFail: true},
		{sig: "int-variable-stores-unsigned-literal-above-2^63-wrapped-negative", what: "a literal above 2^63-1 assigned to a signed variable is stored as literal-2^64",
			stmt: "SET GLOBAL delayed_insert_timeout = 18446744073709551615", scope: "global", name: "delayed_insert_timeout", mustFail: true},
		{sig: "uint-variable-rounds-fractional-literal", what: "a fractional literal assigned to an unsigned variable is rounded silently (signed variables reject it)",
			stmt: "SET SESSION bulk_insert_buffer_size = 1.5", scope: "session", name: "bulk_insert_buffer_size", mustFail: true},
		{sig: "set-accepted-against-scope-or-read-only:global-persist:SESSION", what: "SET SESSION of a variable declared GLOBAL(+PERSIST) is accepted",
			stmt: "SET SESSION server_id = 7", scope: "session", name: "server_id", mustFail: true},
		{sig: "enum-bare-identifier-stored-as-another-member:PERFORMANCE_SCHEMA", what: "SET default_storage_engine = PERFORMANCE_SCHEMA (bare word) stores the first member instead",
			stmt: "SET SESSION default_storage_engine = PERFORMANCE_SCHEMA", scope: "session", name: "default_storage_engine", want: "'PERFORMANCE_SCHEMA'"},
	} {
		s := e.NewSess()
		before := read(s, p.scope, p.name)
		res := s.Exec(p.stmt)
		after := read(s, p.scope, p.name)
		fails := false
		if p.mustFail {
			fails = !res.Failed()
		} else {
			fails = !res.Failed() && after != p.want
		}
		obs := fmt.Sprintf("%s: error=%v, @@%s.%s %s -> %s", p.stmt, res.Err, p.scope, p.name, before, after)
		r.Pinned(p.sig, p.what+" ("+obs+")", fails, map[string]any{"statement": p.stmt, "observation": obs})
		r.Count("pinned.replayed", 1)
		if err := restoreDefaults(defaults, p.name); err != nil {
			r.Violation("harness:restore-default-failed", map[string]any{"variable": p.name, "error": err.Error()})
		}
	}
}
