package main

// Statement generator for C45. A statement is built as a list of tokens whose class the harness knows
// by construction (identifier / string / number / hex / bit / bind placeholder / structural / comment);
// every generator token is exactly one token of the vitess lexer, which the monitor verifies on each
// case before using positions.

import (
	"fmt"
	"math/rand"
	"strings"
)

const (
	cK = 'K' // keyword, punctuation, operator: structural
	cI = 'I' // identifier (user supplied name)
	cS = 'S' // string literal
	cN = 'N' // integer / float / 0x number
	cH = 'H' // X'..'
	cB = 'B' // b'..'
	cP = 'P' // bind placeholder
	cC = 'C' // comment (dropped by the redactor)
	cF = 'F' // free: function name, charset, engine, system variable … (may or may not be redacted)
)

type tok struct {
	text  string
	cls   byte
	pos   string // position kind of an identifier
	probe string // unique canary text that must not appear in the output ("" for keyword-identifiers)
	word  bool   // identifier spelled as a non-reserved keyword
	glue  bool   // no whitespace before this token
}

type builder struct {
	rnd   *rand.Rand
	toks  []tok
	kwIDs []string  // usable non-reserved keywords
	pool  []string  // identifier lexemes to reuse within a statement (equal lexemes -> equal tokens)
	kwPct int       // percentage of identifiers spelled as keywords
	names *namePool // optional shared pool (concurrent part)
}

type namePool struct{ idents, strs []string }

func (b *builder) add(t tok) { b.toks = append(b.toks, t) }

func (b *builder) kw(words ...string) {
	for _, w := range words {
		for _, part := range strings.Fields(w) {
			if b.rnd.Intn(6) == 0 {
				part = strings.ToLower(part)
			}
			b.add(tok{text: part, cls: cK})
		}
	}
}

// p adds punctuation / operators (each argument is one lexer token).
func (b *builder) p(syms ...string) {
	for _, s := range syms {
		b.add(tok{text: s, cls: cK})
	}
}

func (b *builder) glued(s string) { b.add(tok{text: s, cls: cK, glue: true}) }

func (b *builder) free(s string) { b.add(tok{text: s, cls: cF}) }

const b36 = "abcdefghijklmnopqrstuvwxyz0123456789"

func canary(rnd *rand.Rand) string {
	var sb strings.Builder
	sb.WriteString("zq")
	for i := 0; i < 3; i++ {
		sb.WriteByte(b36[rnd.Intn(26)])
	}
	sb.WriteByte(byte('0' + rnd.Intn(10)))
	for i := 0; i < 3; i++ {
		sb.WriteByte(b36[rnd.Intn(36)])
	}
	return sb.String()
}

func mixCase(rnd *rand.Rand, w string) string {
	switch rnd.Intn(4) {
	case 0:
		return strings.ToUpper(w)
	case 1:
		return strings.ToUpper(w[:1]) + w[1:]
	}
	return w
}

// id adds an identifier token at a position of the given kind.
func (b *builder) id(pos string) {
	b.idGlue(pos, false)
}

func (b *builder) idGlue(pos string, glue bool) {
	rnd := b.rnd
	// reuse a lexeme of this statement now and then
	if len(b.pool) > 0 && rnd.Intn(3) == 0 {
		t := b.pool[rnd.Intn(len(b.pool))]
		b.add(b.identTok(t, pos, glue))
		return
	}
	var text string
	switch {
	case b.names != nil && rnd.Intn(4) > 0:
		text = b.names.idents[rnd.Intn(len(b.names.idents))]
	case len(b.kwIDs) > 0 && rnd.Intn(100) < b.kwPct:
		text = mixCase(rnd, b.kwIDs[rnd.Intn(len(b.kwIDs))])
	default:
		c := canary(rnd)
		switch rnd.Intn(10) {
		case 0:
			text = "`" + c + " x y`"
		case 1:
			text = "`" + c + "``" + "é√`"
		case 2:
			text = "`" + c + "-1.5'\"`"
		case 3:
			text = "`select " + c + "`"
		case 4:
			text = strings.ToUpper(c)
		case 5:
			text = c + "_" + b36[rnd.Intn(26):][:1] + "$"
		default:
			text = c
		}
	}
	b.pool = append(b.pool, text)
	b.add(b.identTok(text, pos, glue))
}

func (b *builder) identTok(text, pos string, glue bool) tok {
	t := tok{text: text, cls: cI, pos: pos, glue: glue}
	if k := strings.Index(strings.ToLower(text), "zq"); k >= 0 && len(text) >= k+9 {
		t.probe = text[k : k+9]
	} else {
		t.word = true
	}
	return t
}

// qname adds [db .] name.
func (b *builder) qname(pos string) {
	if b.rnd.Intn(4) == 0 {
		b.id("db-qualifier")
		b.glued(".")
		b.idGlue(pos, true)
		return
	}
	b.id(pos)
}

func (b *builder) colref() {
	switch b.rnd.Intn(6) {
	case 0:
		b.id("table-qualifier")
		b.glued(".")
		b.idGlue("column", true)
	case 1:
		if b.rnd.Intn(3) == 0 {
			b.id("db-qualifier")
			b.glued(".")
			b.idGlue("table-qualifier", true)
			b.glued(".")
			b.idGlue("column", true)
			return
		}
		b.id("column")
	default:
		b.id("column")
	}
}

func (b *builder) str() {
	rnd := b.rnd
	if b.names != nil && rnd.Intn(3) > 0 {
		s := b.names.strs[rnd.Intn(len(b.names.strs))]
		b.add(tok{text: "'" + s + "'", cls: cS, probe: s})
		return
	}
	c := canary(rnd)
	var text string
	switch rnd.Intn(9) {
	case 0:
		text = "'it''s " + c + "'"
	case 1:
		text = "'" + c + "\\n\\t\\\\ \\' end'"
	case 2:
		text = "\"" + c + " dq 'inner'\""
	case 3:
		text = "'" + c + "\n second line'"
	case 4:
		text = "'%" + c + "_%'"
	case 5:
		text = "'" + c + " ünï√ 日本'"
	case 6:
		text = "'2021-03-04 " + c + "'"
	case 7:
		text = "'/* " + c + " */ -- x'"
	default:
		text = "'" + c + "'"
	}
	b.add(tok{text: text, cls: cS, probe: c})
}

func digits(rnd *rand.Rand, n int) string {
	var sb strings.Builder
	sb.WriteByte(byte('1' + rnd.Intn(9)))
	for i := 1; i < n; i++ {
		sb.WriteByte(byte('0' + rnd.Intn(10)))
	}
	return sb.String()
}

func (b *builder) num() {
	rnd := b.rnd
	d := digits(rnd, 7+rnd.Intn(3))
	var text string
	switch rnd.Intn(7) {
	case 0:
		text = d + "." + digits(rnd, 3)
	case 1:
		text = d + "e" + fmt.Sprint(1+rnd.Intn(5))
	case 2:
		text = d[:5] + "." + d[5:] + "E-" + fmt.Sprint(1+rnd.Intn(5))
	case 3:
		text = "0x" + strings.ToUpper(fmt.Sprintf("%x", rnd.Int63()|1<<40))
	case 4:
		text = "." + d
	default:
		text = d
	}
	if rnd.Intn(8) == 0 {
		b.p("-")
	}
	b.add(tok{text: text, cls: cN, probe: text})
}

func (b *builder) hex() {
	h := strings.ToUpper(fmt.Sprintf("%012x", b.rnd.Int63()&0xFFFFFFFFFFFF|1<<44))
	pre := "X"
	if b.rnd.Intn(2) == 0 {
		pre = "x"
	}
	b.add(tok{text: pre + "'" + h + "'", cls: cH, probe: h})
}

func (b *builder) bit() {
	var sb strings.Builder
	sb.WriteByte('1')
	for i := 0; i < 17; i++ {
		sb.WriteByte(byte('0' + b.rnd.Intn(2)))
	}
	pre := "b"
	if b.rnd.Intn(2) == 0 {
		pre = "B"
	}
	b.add(tok{text: pre + "'" + sb.String() + "'", cls: cB, probe: sb.String()})
}

func (b *builder) placeholder() {
	if b.rnd.Intn(3) == 0 {
		b.add(tok{text: ":" + []string{"arg", "p1", "val"}[b.rnd.Intn(3)], cls: cP})
		return
	}
	b.add(tok{text: "?", cls: cP})
}

func (b *builder) literal() {
	switch x := b.rnd.Intn(20); {
	case x < 7:
		b.str()
	case x < 14:
		b.num()
	case x < 15:
		b.hex()
	case x < 16:
		b.bit()
	case x < 17:
		b.placeholder()
	case x < 18:
		b.kw([]string{"NULL", "TRUE", "FALSE"}[b.rnd.Intn(3)])
	case x < 19:
		b.kw([]string{"DATE", "TIME", "TIMESTAMP"}[b.rnd.Intn(3)])
		b.str()
	default:
		b.free([]string{"_utf8mb4", "_latin1", "_binary"}[b.rnd.Intn(3)])
		b.str()
	}
}

var binops = []string{"=", "<", ">", "<=", ">=", "<>", "!=", "<=>", "+", "-", "*", "/", "%", "&", "|", "^", "<<", ">>", "AND", "OR", "XOR", "&&", "||", "DIV", "MOD", "LIKE", "REGEXP"}
var funcs = []string{"CONCAT", "COALESCE", "LOWER", "ABS", "IFNULL", "GREATEST", "LENGTH", "json_extract", "DATE_FORMAT", "my_udf"}

func (b *builder) expr(depth int) {
	rnd := b.rnd
	if depth <= 0 {
		if rnd.Intn(2) == 0 {
			b.colref()
		} else {
			b.literal()
		}
		return
	}
	switch rnd.Intn(14) {
	case 0, 1:
		b.colref()
	case 2, 3:
		b.literal()
	case 4, 5:
		b.expr(depth - 1)
		op := binops[rnd.Intn(len(binops))]
		if op[0] >= 'A' && op[0] <= 'Z' {
			b.kw(op)
		} else {
			b.p(op)
		}
		b.expr(depth - 1)
	case 6:
		b.p("(")
		b.expr(depth - 1)
		b.p(")")
	case 7:
		b.free(funcs[rnd.Intn(len(funcs))])
		b.glued("(")
		n := 1 + rnd.Intn(3)
		for i := 0; i < n; i++ {
			if i > 0 {
				b.p(",")
			}
			b.expr(depth - 1)
		}
		b.p(")")
	case 8:
		b.expr(depth - 1)
		if rnd.Intn(2) == 0 {
			b.kw("NOT")
		}
		b.kw("IN")
		b.p("(")
		n := 1 + rnd.Intn(4)
		for i := 0; i < n; i++ {
			if i > 0 {
				b.p(",")
			}
			b.literal()
		}
		b.p(")")
	case 9:
		b.expr(depth - 1)
		b.kw("BETWEEN")
		b.literal()
		b.kw("AND")
		b.literal()
	case 10:
		b.colref()
		b.kw("IS")
		if rnd.Intn(2) == 0 {
			b.kw("NOT")
		}
		b.kw("NULL")
	case 11:
		b.kw("CASE WHEN")
		b.expr(depth - 1)
		b.kw("THEN")
		b.literal()
		b.kw("ELSE")
		b.literal()
		b.kw("END")
	case 12:
		b.kw("CAST")
		b.p("(")
		b.expr(depth - 1)
		b.kw("AS")
		b.kw([]string{"SIGNED", "CHAR", "DATE", "JSON", "UNSIGNED"}[rnd.Intn(5)])
		b.p(")")
	case 13:
		if depth >= 2 {
			b.colref()
			b.kw("IN")
			b.p("(")
			b.selectCore(depth-2, false)
			b.p(")")
		} else {
			b.colref()
			b.p([]string{"->", "->>"}[rnd.Intn(2)])
			b.str()
		}
	}
}

func (b *builder) tableRef() {
	b.qname("table")
	switch b.rnd.Intn(5) {
	case 0:
		b.kw("AS")
		b.id("table-alias")
	case 1:
		b.id("table-alias")
	}
}

func (b *builder) selectCore(depth int, top bool) {
	rnd := b.rnd
	b.kw("SELECT")
	if rnd.Intn(8) == 0 {
		b.kw("DISTINCT")
	}
	n := 1 + rnd.Intn(3)
	for i := 0; i < n; i++ {
		if i > 0 {
			b.p(",")
		}
		if rnd.Intn(8) == 0 {
			b.p("*")
			continue
		}
		b.expr(depth)
		switch rnd.Intn(4) {
		case 0:
			b.kw("AS")
			b.id("column-alias")
		case 1:
			b.id("column-alias")
		}
	}
	if rnd.Intn(10) == 0 {
		return
	}
	b.kw("FROM")
	b.tableRef()
	if top && rnd.Intn(8) == 0 {
		b.kw("PARTITION")
		b.p("(")
		b.id("partition-name")
		b.p(")")
	}
	if rnd.Intn(8) == 0 {
		b.kw([]string{"USE INDEX", "FORCE INDEX", "IGNORE INDEX"}[rnd.Intn(3)])
		b.p("(")
		b.id("index-hint")
		b.p(")")
	}
	for j := rnd.Intn(3); j > 0; j-- {
		b.kw([]string{"JOIN", "LEFT JOIN", "INNER JOIN", "RIGHT JOIN", "CROSS JOIN"}[rnd.Intn(5)])
		b.tableRef()
		if rnd.Intn(4) == 0 {
			b.kw("USING")
			b.p("(")
			b.id("using-column")
			b.p(")")
		} else {
			b.kw("ON")
			b.expr(1)
		}
	}
	if rnd.Intn(3) > 0 {
		b.kw("WHERE")
		b.expr(depth)
	}
	if rnd.Intn(5) == 0 {
		b.kw("GROUP BY")
		b.colref()
		if rnd.Intn(2) == 0 {
			b.kw("HAVING")
			b.expr(1)
		}
	}
	if top && rnd.Intn(10) == 0 {
		b.kw("WINDOW")
		b.id("window-name")
		b.kw("AS")
		b.p("(")
		b.kw("PARTITION BY")
		b.colref()
		b.p(")")
	}
	if rnd.Intn(5) == 0 {
		b.kw("ORDER BY")
		b.colref()
		if rnd.Intn(2) == 0 {
			b.kw([]string{"ASC", "DESC"}[rnd.Intn(2)])
		}
	}
	if rnd.Intn(5) == 0 {
		b.kw("LIMIT")
		if rnd.Intn(3) == 0 {
			b.placeholder()
		} else {
			b.num()
		}
	}
}

type stmtGen struct {
	name string
	f    func(b *builder)
}

func colType(b *builder) {
	rnd := b.rnd
	switch rnd.Intn(7) {
	case 0:
		b.kw("INT")
	case 1:
		b.kw("BIGINT UNSIGNED")
	case 2:
		b.kw("VARCHAR")
		b.p("(")
		b.add(tok{text: fmt.Sprint(10 + rnd.Intn(200)), cls: cF})
		b.p(")")
	case 3:
		b.kw("DECIMAL")
		b.p("(")
		b.add(tok{text: "10", cls: cF})
		b.p(",")
		b.add(tok{text: "2", cls: cF})
		b.p(")")
	case 4:
		b.kw("TEXT")
	case 5:
		b.kw("DATETIME")
	case 6:
		b.kw("ENUM")
		b.p("(")
		b.str()
		b.p(",")
		b.str()
		b.p(")")
	}
	if rnd.Intn(3) == 0 {
		b.kw("NOT NULL")
	}
	if rnd.Intn(3) == 0 {
		b.kw("DEFAULT")
		if rnd.Intn(2) == 0 {
			b.str()
		} else {
			b.num()
		}
	}
	if rnd.Intn(5) == 0 {
		b.kw("COMMENT")
		b.str()
	}
}

var stmtGens = []stmtGen{
	{"select", func(b *builder) {
		if b.rnd.Intn(6) == 0 {
			b.kw("WITH")
			b.id("cte-name")
			if b.rnd.Intn(2) == 0 {
				b.p("(")
				b.id("cte-column")
				b.p(")")
			}
			b.kw("AS")
			b.p("(")
			b.selectCore(1, false)
			b.p(")")
		}
		b.selectCore(2+b.rnd.Intn(2), true)
		if b.rnd.Intn(8) == 0 {
			b.kw([]string{"UNION", "UNION ALL", "INTERSECT", "EXCEPT"}[b.rnd.Intn(4)])
			b.selectCore(1, false)
		}
		if b.rnd.Intn(12) == 0 {
			b.kw("FOR UPDATE")
		}
	}},
	{"insert", func(b *builder) {
		b.kw([]string{"INSERT INTO", "REPLACE INTO", "INSERT IGNORE INTO"}[b.rnd.Intn(3)])
		b.qname("table")
		n := 1 + b.rnd.Intn(3)
		if b.rnd.Intn(4) > 0 {
			b.p("(")
			for i := 0; i < n; i++ {
				if i > 0 {
					b.p(",")
				}
				b.id("insert-column")
			}
			b.p(")")
		}
		if b.rnd.Intn(5) == 0 {
			b.selectCore(1, false)
		} else {
			b.kw("VALUES")
			for r := 0; r < 1+b.rnd.Intn(2); r++ {
				if r > 0 {
					b.p(",")
				}
				b.p("(")
				for i := 0; i < n; i++ {
					if i > 0 {
						b.p(",")
					}
					b.literal()
				}
				b.p(")")
			}
		}
		if b.rnd.Intn(5) == 0 {
			b.kw("ON DUPLICATE KEY UPDATE")
			b.id("update-column")
			b.p("=")
			b.expr(1)
		}
	}},
	{"update", func(b *builder) {
		b.kw("UPDATE")
		b.tableRef()
		b.kw("SET")
		for i := 0; i < 1+b.rnd.Intn(2); i++ {
			if i > 0 {
				b.p(",")
			}
			b.colref()
			b.p("=")
			b.expr(1)
		}
		if b.rnd.Intn(4) > 0 {
			b.kw("WHERE")
			b.expr(2)
		}
	}},
	{"delete", func(b *builder) {
		b.kw("DELETE FROM")
		b.qname("table")
		if b.rnd.Intn(4) > 0 {
			b.kw("WHERE")
			b.expr(2)
		}
		if b.rnd.Intn(6) == 0 {
			b.kw("LIMIT")
			b.num()
		}
	}},
	{"create-table", func(b *builder) {
		b.kw("CREATE TABLE")
		if b.rnd.Intn(4) == 0 {
			b.kw("IF NOT EXISTS")
		}
		b.qname("table")
		b.p("(")
		n := 1 + b.rnd.Intn(4)
		for i := 0; i < n; i++ {
			if i > 0 {
				b.p(",")
			}
			b.id("column-definition")
			colType(b)
		}
		for k := b.rnd.Intn(3); k > 0; k-- {
			b.p(",")
			switch b.rnd.Intn(5) {
			case 0:
				b.kw("PRIMARY KEY")
				b.p("(")
				b.id("index-column")
				b.p(")")
			case 1:
				b.kw([]string{"INDEX", "KEY", "UNIQUE KEY", "UNIQUE INDEX"}[b.rnd.Intn(4)])
				b.id("index-name")
				b.p("(")
				b.id("index-column")
				b.p(")")
			case 2:
				b.kw("CONSTRAINT")
				b.id("constraint-name")
				b.kw("CHECK")
				b.p("(")
				b.expr(1)
				b.p(")")
			case 3:
				b.kw("CONSTRAINT")
				b.id("constraint-name")
				b.kw("FOREIGN KEY")
				b.p("(")
				b.id("index-column")
				b.p(")")
				b.kw("REFERENCES")
				b.qname("fk-referenced-table")
				b.p("(")
				b.id("fk-referenced-column")
				b.p(")")
				if b.rnd.Intn(2) == 0 {
					b.kw("ON DELETE CASCADE")
				}
			case 4:
				b.kw("CONSTRAINT")
				b.id("constraint-name")
				b.kw("UNIQUE")
				b.p("(")
				b.id("index-column")
				b.p(")")
			}
		}
		b.p(")")
		if b.rnd.Intn(4) == 0 {
			b.kw("COMMENT")
			b.p("=")
			b.str()
		}
		if b.rnd.Intn(6) == 0 {
			b.kw("ENGINE")
			b.p("=")
			b.free("InnoDB")
		}
	}},
	{"alter-table", func(b *builder) {
		b.kw("ALTER TABLE")
		b.qname("table")
		switch b.rnd.Intn(9) {
		case 0:
			b.kw("ADD COLUMN")
			b.id("column-definition")
			colType(b)
			if b.rnd.Intn(3) == 0 {
				b.kw("AFTER")
				b.id("column")
			}
		case 1:
			b.kw("DROP COLUMN")
			b.id("column")
		case 2:
			b.kw("ADD INDEX")
			b.id("index-name")
			b.p("(")
			b.id("index-column")
			b.p(")")
		case 3:
			b.kw("DROP INDEX")
			b.id("index-name")
		case 4:
			b.kw("ADD CONSTRAINT")
			b.id("constraint-name")
			b.kw("CHECK")
			b.p("(")
			b.expr(1)
			b.p(")")
		case 5:
			b.kw("RENAME TO")
			b.qname("table")
		case 6:
			b.kw("RENAME COLUMN")
			b.id("column")
			b.kw("TO")
			b.id("column")
		case 7:
			b.kw("MODIFY COLUMN")
			b.id("column-definition")
			colType(b)
		case 8:
			b.kw("DROP CONSTRAINT")
			b.id("constraint-name")
		}
	}},
	{"drop", func(b *builder) {
		switch b.rnd.Intn(6) {
		case 0:
			b.kw("DROP TABLE")
			if b.rnd.Intn(2) == 0 {
				b.kw("IF EXISTS")
			}
			b.qname("table")
			if b.rnd.Intn(3) == 0 {
				b.p(",")
				b.qname("table")
			}
		case 1:
			b.kw("DROP VIEW")
			b.qname("view-name")
		case 2:
			b.kw("DROP INDEX")
			b.id("index-name")
			b.kw("ON")
			b.qname("table")
		case 3:
			b.kw("DROP DATABASE")
			b.id("database-name")
		case 4:
			b.kw("TRUNCATE TABLE")
			b.qname("table")
		case 5:
			b.kw("RENAME TABLE")
			b.qname("table")
			b.kw("TO")
			b.qname("table")
		}
	}},
	{"create-index", func(b *builder) {
		b.kw("CREATE")
		if b.rnd.Intn(3) == 0 {
			b.kw("UNIQUE")
		}
		b.kw("INDEX")
		b.id("index-name")
		b.kw("ON")
		b.qname("table")
		b.p("(")
		b.id("index-column")
		if b.rnd.Intn(3) == 0 {
			b.p(",")
			b.id("index-column")
		}
		b.p(")")
	}},
	{"create-view", func(b *builder) {
		b.kw("CREATE")
		if b.rnd.Intn(3) == 0 {
			b.kw("OR REPLACE")
		}
		b.kw("VIEW")
		b.qname("view-name")
		b.kw("AS")
		b.selectCore(1, false)
	}},
	{"create-database", func(b *builder) {
		b.kw([]string{"CREATE DATABASE", "CREATE SCHEMA"}[b.rnd.Intn(2)])
		if b.rnd.Intn(2) == 0 {
			b.kw("IF NOT EXISTS")
		}
		b.id("database-name")
	}},
	{"create-trigger", func(b *builder) {
		b.kw("CREATE TRIGGER")
		b.id("trigger-name")
		b.kw([]string{"BEFORE", "AFTER"}[b.rnd.Intn(2)])
		b.kw([]string{"INSERT", "UPDATE", "DELETE"}[b.rnd.Intn(3)])
		b.kw("ON")
		b.qname("table")
		b.kw("FOR EACH ROW")
		b.kw("SET")
		b.free("NEW")
		b.glued(".")
		b.idGlue("column", true)
		b.p("=")
		b.expr(1)
	}},
	{"create-procedure", func(b *builder) {
		b.kw("CREATE PROCEDURE")
		b.id("procedure-name")
		b.p("(")
		if b.rnd.Intn(2) == 0 {
			b.kw([]string{"IN", "OUT", "INOUT"}[b.rnd.Intn(3)])
			b.id("procedure-parameter")
			b.kw("INT")
		}
		b.p(")")
		b.selectCore(1, false)
	}},
	{"call", func(b *builder) {
		b.kw("CALL")
		b.qname("procedure-name")
		b.p("(")
		for i := b.rnd.Intn(3); i > 0; i-- {
			b.literal()
			if i > 1 {
				b.p(",")
			}
		}
		b.p(")")
	}},
	{"prepare", func(b *builder) {
		switch b.rnd.Intn(3) {
		case 0:
			b.kw("PREPARE")
			b.id("prepared-statement-name")
			b.kw("FROM")
			b.str()
		case 1:
			b.kw("EXECUTE")
			b.id("prepared-statement-name")
			if b.rnd.Intn(2) == 0 {
				b.kw("USING")
				b.uservar()
			}
		case 2:
			b.kw("DEALLOCATE PREPARE")
			b.id("prepared-statement-name")
		}
	}},
	{"set", func(b *builder) {
		b.kw("SET")
		switch b.rnd.Intn(4) {
		case 0:
			b.uservar()
			b.p("=")
			b.expr(1)
		case 1:
			b.free([]string{"@@session.sql_mode", "@@global.max_connections", "@@autocommit", "@@SESSION.time_zone"}[b.rnd.Intn(4)])
			b.p("=")
			b.literal()
		case 2:
			b.kw([]string{"SESSION", "GLOBAL"}[b.rnd.Intn(2)])
			b.free([]string{"sql_mode", "max_connections", "autocommit"}[b.rnd.Intn(3)])
			b.p("=")
			b.literal()
		case 3:
			b.kw("NAMES")
			b.free("utf8mb4")
		}
	}},
	{"use", func(b *builder) {
		b.kw("USE")
		b.id("database-name")
	}},
	{"show", func(b *builder) {
		switch b.rnd.Intn(8) {
		case 0:
			b.kw("SHOW TABLES")
			if b.rnd.Intn(2) == 0 {
				b.kw("FROM")
				b.id("database-name")
			}
			if b.rnd.Intn(2) == 0 {
				b.kw("LIKE")
				b.str()
			}
		case 1:
			b.kw("SHOW COLUMNS FROM")
			b.qname("table")
		case 2:
			b.kw("SHOW CREATE TABLE")
			b.qname("table")
		case 3:
			b.kw("SHOW INDEX FROM")
			b.qname("table")
		case 4:
			b.kw("SHOW VARIABLES LIKE")
			b.str()
		case 5:
			b.kw("SHOW STATUS LIKE")
			b.str()
		case 6:
			b.kw([]string{"DESCRIBE", "DESC", "EXPLAIN"}[b.rnd.Intn(3)])
			b.qname("table")
		case 7:
			b.kw("SHOW CREATE VIEW")
			b.qname("view-name")
		}
	}},
	{"transaction", func(b *builder) {
		switch b.rnd.Intn(7) {
		case 0:
			b.kw("BEGIN")
		case 1:
			b.kw("START TRANSACTION")
		case 2:
			b.kw("COMMIT")
		case 3:
			b.kw("ROLLBACK")
		case 4:
			b.kw("SAVEPOINT")
			b.id("savepoint-name")
		case 5:
			b.kw("ROLLBACK TO SAVEPOINT")
			b.id("savepoint-name")
		case 6:
			b.kw("RELEASE SAVEPOINT")
			b.id("savepoint-name")
		}
	}},
	{"explain", func(b *builder) {
		b.kw("EXPLAIN")
		b.selectCore(1, true)
	}},
	{"users", func(b *builder) {
		user := func() {
			if b.rnd.Intn(2) == 0 {
				b.str()
			} else {
				b.id("user-name")
			}
			if b.rnd.Intn(2) == 0 {
				b.glued("@")
				t := len(b.toks)
				b.str()
				b.toks[t].glue = true
			}
		}
		switch b.rnd.Intn(5) {
		case 0:
			b.kw("CREATE USER")
			user()
		case 1:
			b.kw("DROP USER")
			user()
		case 2:
			b.kw("GRANT")
			b.kw([]string{"SELECT", "INSERT", "ALL"}[b.rnd.Intn(3)])
			b.kw("ON")
			if b.rnd.Intn(2) == 0 {
				b.id("grant-database")
				b.glued(".")
				b.glued("*")
			} else {
				b.id("grant-database")
				b.glued(".")
				b.idGlue("grant-table", true)
			}
			b.kw("TO")
			user()
		case 3:
			b.kw("REVOKE SELECT ON")
			b.id("grant-database")
			b.glued(".")
			b.glued("*")
			b.kw("FROM")
			user()
		case 4:
			b.kw("CREATE ROLE")
			b.id("role-name")
		}
	}},
	{"misc", func(b *builder) {
		switch b.rnd.Intn(6) {
		case 0:
			b.kw("ANALYZE TABLE")
			b.qname("table")
		case 1:
			b.kw("LOCK TABLES")
			b.qname("table")
			b.kw([]string{"READ", "WRITE"}[b.rnd.Intn(2)])
		case 2:
			b.kw("UNLOCK TABLES")
		case 3:
			b.kw("KILL")
			if b.rnd.Intn(2) == 0 {
				b.kw("QUERY")
			}
			b.num()
		case 4:
			b.kw("LOAD DATA INFILE")
			b.str()
			b.kw("INTO TABLE")
			b.qname("table")
		case 5:
			b.kw("SIGNAL SQLSTATE")
			b.add(tok{text: "'45000'", cls: cS, probe: ""})
			b.kw("SET MESSAGE_TEXT")
			b.p("=")
			b.str()
		}
	}},
}

func (b *builder) uservar() {
	c := canary(b.rnd)
	text := "@" + c
	if b.rnd.Intn(4) == 0 {
		text = "@`" + c + " v`"
	}
	b.add(tok{text: text, cls: cI, pos: "user-variable", probe: c})
}

var comments = []func(c string) string{
	func(c string) string { return "/* " + c + " */" },
	func(c string) string { return "/* " + c + "\n 'quoted' `bt` */" },
	func(c string) string { return "-- " + c + " trailing\n" },
	func(c string) string { return "# " + c + "\n" },
	func(c string) string { return "/*+ " + c + " */" },
}

// render produces the SQL text, sprinkling whitespace variants and (optionally) comments carrying canaries.
func render(rnd *rand.Rand, toks []tok, withComments bool) (string, []tok) {
	var sb strings.Builder
	out := make([]tok, 0, len(toks)+2)
	for i, t := range toks {
		if i > 0 && !t.glue {
			switch rnd.Intn(12) {
			case 0:
				sb.WriteString("\n")
			case 1:
				sb.WriteString("\t ")
			case 2:
				sb.WriteString("  ")
			default:
				sb.WriteString(" ")
			}
			if withComments && rnd.Intn(14) == 0 {
				c := canary(rnd)
				txt := comments[rnd.Intn(len(comments))](c)
				sb.WriteString(txt)
				sb.WriteString(" ")
				out = append(out, tok{text: txt, cls: cC, probe: c})
			}
		}
		sb.WriteString(t.text)
		out = append(out, t)
	}
	if withComments && rnd.Intn(10) == 0 {
		c := canary(rnd)
		txt := " -- " + c
		sb.WriteString(txt)
		out = append(out, tok{text: txt, cls: cC, probe: c})
	}
	return sb.String(), out
}

// mutate makes a (probably) unparseable variant by a token-level edit.
func mutate(rnd *rand.Rand, toks []tok) []tok {
	t := append([]tok(nil), toks...)
	if len(t) == 0 {
		return t
	}
	i := rnd.Intn(len(t))
	switch rnd.Intn(6) {
	case 0:
		t = append(t[:i], t[i+1:]...)
	case 1:
		t = append(t[:i+1], t[i:]...)
	case 2:
		g := []string{")", "(", ",", "SELECT", "FROM", ";", "=", "'"}[rnd.Intn(8)]
		t = append(t[:i], append([]tok{{text: g, cls: cK}}, t[i:]...)...)
	case 3:
		j := rnd.Intn(len(t))
		t[i], t[j] = t[j], t[i]
	case 4:
		t = t[:i]
	case 5:
		t = append(t, tok{text: ";", cls: cK}, tok{text: "SELECT", cls: cK}, tok{text: "1", cls: cF})
	}
	return t
}
