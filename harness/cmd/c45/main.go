// C45 — trace redaction never leaks identifiers or literals.
//
// Statements are rendered from token lists whose classes the harness knows (gen.go). Oracles:
//
//	(a) leak: every canary lexeme (identifier, literal content, comment body) is absent from the
//	    redacted text, case-insensitively — needs no alignment;
//	(b) structure: the output has exactly one space-separated token per non-comment input token (input
//	    lexed with the vitess tokenizer, an external module); identifier positions hold `nK`, literal
//	    positions a value placeholder, bind placeholders pass through; an identifier spelled as a
//	    non-reserved keyword must be a placeholder too;
//	(c) mapping: every placeholder in the output is the mapping's token for that position's lexeme,
//	    both maps are injective, tokens are n1..nN / v1..vM;
//	(d) unparseable input (as judged by sqlparser.Parse) gives exactly "<unparseable>", an error, and
//	    leaves the mapping unchanged;
//	(e) concurrent redactions into one shared Mapping: race-detector clean, final maps injective, every
//	    produced string consistent with the final mapping.
package main

import (
	"fmt"
	"math/rand"
	"regexp"
	"sort"
	"strings"
	"sync"

	"github.com/dolthub/vitess/go/vt/sqlparser"

	"github.com/dolthub/go-mysql-server/sql/sqlredact"

	"verif/harness/core"
	"verif/harness/g3lib"
)

var (
	reIdent = regexp.MustCompile("^`n[1-9][0-9]*`$")
	reStr   = regexp.MustCompile(`^'v[1-9][0-9]*'$`)
	reNum   = regexp.MustCompile(`^:v[1-9][0-9]*$`)
	reHex   = regexp.MustCompile(`^X'v[1-9][0-9]*'$`)
	reBit   = regexp.MustCompile(`^B'v[1-9][0-9]*'$`)
)

type lexTok struct {
	typ int
	val string
}

func lex(sql string) (toks []lexTok, comments int, lexErr bool) {
	tk := sqlparser.NewStringTokenizer(sql)
	for {
		typ, val := tk.Scan()
		if typ == 0 {
			return
		}
		if typ == sqlparser.LEX_ERROR {
			return toks, comments, true
		}
		if typ == sqlparser.COMMENT {
			comments++
			continue
		}
		toks = append(toks, lexTok{typ, string(val)})
	}
}

var kwCandidates = strings.Fields(`status name data user value comment type date time timestamp year level mode offset format json text
action no only role event view tables columns count first last account password temporary enum bit bool serial signed unsigned engine
engines charset collation indexes keys plugins processlist variables warnings errors global session local begin commit rollback start
transaction isolation committed work truncate fields full triggers events open close host hosts logs master slave replica source path
nested any some avg max min sum current following preceding unbounded row rows definer invoker security sql contains language handler
found message_text cascade restrict partitions hash linear less than algorithm merge temptable undefined cascaded option enforced
visible invisible always stored srid geometry point polygon description cipher issuer subject version names next prior query cache
channel code cost day hour minute second month week quarter end exchange expire flush grants import insert_method labels`)

// keywordIdents keeps the candidates that the lexer emits with a keyword token type (not ID) and
// that the grammar accepts as a column and table name.
func keywordIdents() []string {
	var out []string
	for _, w := range kwCandidates {
		ts, _, bad := lex(w)
		if bad || len(ts) != 1 || ts[0].typ == sqlparser.ID {
			continue
		}
		if _, err := sqlparser.Parse("SELECT " + w + " FROM " + w); err != nil {
			continue
		}
		out = append(out, w)
	}
	return out
}

const sigKeywordOutsideWalk = "leak:keyword-identifier-outside-ast-walk-emitted-verbatim"

// walkIdents is the harness's own computation of the identifier strings that sqlparser.Walk reaches
// as TableIdent / ColIdent nodes (the input class of the known finding is defined by it).
func walkIdents(stmt sqlparser.Statement) map[string]struct{} {
	set := map[string]struct{}{}
	_ = sqlparser.Walk(func(n sqlparser.SQLNode) (bool, error) {
		switch v := n.(type) {
		case sqlparser.TableIdent:
			set[v.String()] = struct{}{}
		case sqlparser.ColIdent:
			set[v.String()] = struct{}{}
		}
		return true, nil
	}, stmt)
	return set
}

type caseInfo struct {
	gen     string
	sql     string
	toks    []tok
	mutated bool
}

func mapsEqual(a, b map[string]string) bool {
	if len(a) != len(b) {
		return false
	}
	for k, v := range a {
		if b[k] != v {
			return false
		}
	}
	return true
}

// checkMaps: injective, well-formed tokens; contiguous numbering.
func checkMaps(r *g3lib.Rec, m *sqlredact.Mapping, wit func() map[string]any) bool {
	ok := true
	for ns, mp := range map[string]map[string]string{"n": m.Idents(), "v": m.Values()} {
		seen := map[string]string{}
		nums := map[int]bool{}
		for orig, t := range mp {
			var k int
			if len(t) < 2 || t[:1] != ns || !allDigits(t[1:]) {
				w := wit()
				w["lexeme"], w["token"] = orig, t
				r.Violation("mapping:malformed-token:"+ns, w)
				return false
			}
			fmt.Sscan(t[1:], &k)
			nums[k] = true
			if prev, dup := seen[t]; dup {
				w := wit()
				w["lexemes"], w["token"] = []string{prev, orig}, t
				r.Violation("mapping:two-lexemes-share-a-token:"+ns, w)
				return false
			}
			seen[t] = orig
		}
		for k := 1; k <= len(mp); k++ {
			if !nums[k] {
				w := wit()
				w["missing"] = fmt.Sprintf("%s%d of %d", ns, k, len(mp))
				r.Violation("mapping:token-numbers-not-contiguous:"+ns, w)
				ok = false
				break
			}
		}
	}
	return ok
}

func allDigits(s string) bool {
	for _, c := range s {
		if c < '0' || c > '9' {
			return false
		}
	}
	return s != ""
}

func classCompatible(cls byte, typ int, val string) bool {
	switch cls {
	case cI:
		return typ == sqlparser.ID || (typ > 255 && val != "" && typ != sqlparser.STRING && typ != sqlparser.INTEGRAL && typ != sqlparser.FLOAT && typ != sqlparser.HEX && typ != sqlparser.HEXNUM && typ != sqlparser.BIT_LITERAL && typ != sqlparser.VALUE_ARG && typ != sqlparser.LIST_ARG)
	case cS:
		return typ == sqlparser.STRING
	case cN:
		return typ == sqlparser.INTEGRAL || typ == sqlparser.FLOAT || typ == sqlparser.HEXNUM
	case cH:
		return typ == sqlparser.HEX
	case cB:
		return typ == sqlparser.BIT_LITERAL
	case cP:
		return typ == sqlparser.VALUE_ARG || typ == sqlparser.LIST_ARG
	}
	return true
}

// consistentWithMapping checks clause (c) for one produced string: the placeholder at every position
// is the mapping's token for the lexeme at that position.
func consistentWithMapping(lx []lexTok, outToks []string, idents, values map[string]string) (string, int) {
	for i, t := range lx {
		o := outToks[i]
		switch {
		case reIdent.MatchString(o):
			if idents[t.val] != o[1:len(o)-1] {
				return "ident", i
			}
		case reStr.MatchString(o):
			if values[t.val] != o[1:len(o)-1] {
				return "value", i
			}
		case reNum.MatchString(o):
			if t.typ == sqlparser.VALUE_ARG || t.typ == sqlparser.LIST_ARG {
				continue // a bind placeholder such as :v1 passes through
			}
			if values[t.val] != o[1:] {
				return "value", i
			}
		case reHex.MatchString(o), reBit.MatchString(o):
			if values[t.val] != o[2:len(o)-1] {
				return "value", i
			}
		}
	}
	return "", -1
}

// checkOne judges one redaction. shared == nil: fresh mapping through RedactSQLForTrace.
func checkOne(r *g3lib.Rec, ci caseInfo, shared *sqlredact.Mapping) {
	stmt, perr := sqlparser.Parse(ci.sql)
	var walked map[string]struct{}
	if perr == nil {
		walked = walkIdents(stmt)
	}
	var out string
	var err error
	var m *sqlredact.Mapping
	var beforeI, beforeV map[string]string
	if shared == nil {
		out, m, err = sqlredact.RedactSQLForTrace(ci.sql)
		beforeI, beforeV = map[string]string{}, map[string]string{}
	} else {
		beforeI, beforeV = shared.Idents(), shared.Values()
		m = shared
		out, err = sqlredact.RedactSQLForTraceInto(ci.sql, shared)
	}
	wit := func() map[string]any {
		return map[string]any{"generator": ci.gen, "sql": ci.sql, "redacted": out, "err": fmt.Sprint(err), "shared_mapping": shared != nil}
	}
	r.Eval(1)
	if perr != nil {
		// (d)
		r.Distinct(fmt.Sprintf("unparseable|%s|mutated=%v|shared=%v", ci.gen, ci.mutated, shared != nil))
		r.Count("unparseable", 1)
		switch {
		case out != sqlredact.UnparseableMarker:
			r.Violation("unparseable:output-is-not-the-marker", wit())
		case err == nil:
			r.Violation("unparseable:no-error-returned", wit())
		case !mapsEqual(beforeI, m.Idents()) || !mapsEqual(beforeV, m.Values()):
			r.Violation("unparseable:mapping-gained-entries", wit())
		}
		return
	}
	r.Count("parseable", 1)
	if err != nil || out == sqlredact.UnparseableMarker {
		lx, _, lexErr := lex(ci.sql)
		_ = lx
		if lexErr {
			r.Inconclusive("parses-but-tokenizer-reports-lex-error")
			return
		}
		r.Violation("parseable:marker-or-error-returned", wit())
		return
	}
	// (a) leak of canaries
	lowOut := strings.ToLower(out)
	for _, t := range ci.toks {
		if t.probe != "" && strings.Contains(lowOut, strings.ToLower(t.probe)) {
			w := wit()
			w["leaked"], w["class"], w["position"] = t.probe, string(t.cls), t.pos
			r.Violation(fmt.Sprintf("leak:canary:%c:%s", t.cls, t.pos), w)
			return
		}
	}
	// alignment of generator tokens with lexer tokens
	lx, ncomm, lexErr := lex(ci.sql)
	if lexErr {
		r.Inconclusive("parses-but-tokenizer-reports-lex-error")
		return
	}
	var mine []tok
	gcomm := 0
	for _, t := range ci.toks {
		if t.cls == cC {
			gcomm++
			continue
		}
		mine = append(mine, t)
	}
	aligned := len(mine) == len(lx)
	if aligned {
		for i := range mine {
			if !classCompatible(mine[i].cls, lx[i].typ, lx[i].val) {
				aligned = false
				break
			}
		}
	}
	// (b) structure by lexer type: needs no generator knowledge
	outToks := strings.Split(out, " ")
	if len(outToks) != len(lx) {
		w := wit()
		w["input_tokens"], w["output_tokens"] = len(lx), len(outToks)
		r.Violation("structure:token-count-differs", w)
		return
	}
	for i, t := range lx {
		o := outToks[i]
		bad := ""
		switch t.typ {
		case sqlparser.ID:
			if !reIdent.MatchString(o) {
				bad = "ID"
			}
		case sqlparser.STRING:
			if !reStr.MatchString(o) {
				bad = "STRING"
			}
		case sqlparser.INTEGRAL, sqlparser.FLOAT, sqlparser.HEXNUM:
			if !reNum.MatchString(o) {
				bad = "NUMBER"
			}
		case sqlparser.HEX:
			if !reHex.MatchString(o) {
				bad = "HEX"
			}
		case sqlparser.BIT_LITERAL:
			if !reBit.MatchString(o) {
				bad = "BIT"
			}
		case sqlparser.VALUE_ARG, sqlparser.LIST_ARG:
			if o != t.val {
				bad = "BINDVAR"
			}
		}
		if bad != "" {
			w := wit()
			w["position"], w["input_token"], w["output_token"] = i, t.val, o
			r.Violation("structure:"+bad+"-token-not-replaced-by-its-placeholder", w)
			return
		}
	}
	// (c) mapping
	if kind, at := consistentWithMapping(lx, outToks, m.Idents(), m.Values()); kind != "" {
		w := wit()
		w["position"], w["lexeme"], w["output_token"] = at, lx[at].val, outToks[at]
		r.Violation("mapping:placeholder-differs-from-mapping:"+kind, w)
		return
	}
	if !checkMaps(r, m, wit) {
		return
	}
	if shared == nil {
		// a fresh mapping holds exactly the lexemes that were replaced
		want := map[string]bool{}
		for i, t := range lx {
			o := outToks[i]
			if reIdent.MatchString(o) {
				want["n:"+t.val] = true
			} else if (reStr.MatchString(o) || reNum.MatchString(o) || reHex.MatchString(o) || reBit.MatchString(o)) && t.typ != sqlparser.VALUE_ARG && t.typ != sqlparser.LIST_ARG {
				want["v:"+t.val] = true
			}
		}
		if len(want) != len(m.Idents())+len(m.Values()) {
			w := wit()
			w["replaced_lexemes"], w["mapping_entries"] = len(want), len(m.Idents())+len(m.Values())
			r.Violation("mapping:entries-differ-from-replaced-lexemes", w)
			return
		}
	}
	if !aligned {
		r.Inconclusive("generator-tokens-do-not-align-with-lexer:" + ci.gen)
		return
	}
	r.Eval(1)
	// (b) by generator class: identifier positions (also keyword-spelled) and literal positions
	classes := map[byte]bool{}
	for i, t := range mine {
		classes[t.cls] = true
		o := outToks[i]
		switch t.cls {
		case cI:
			style := "canary"
			if t.word {
				style = "keyword"
			} else if strings.HasPrefix(t.text, "`") {
				style = "quoted"
			}
			if reIdent.MatchString(o) {
				r.Distinct(fmt.Sprintf("ident|%s|%s|redacted", t.pos, style))
				continue
			}
			w := wit()
			w["position_kind"], w["identifier"], w["output_token"] = t.pos, t.text, o
			if strings.EqualFold(o, t.text) {
				// known finding: the redactor learns keyword-spelled identifiers only from the TableIdent /
				// ColIdent nodes that sqlparser.Walk reaches; names the AST keeps elsewhere are emitted as
				// "keywords". The harness recomputes that reachable set itself: a verbatim keyword-identifier
				// that IS reachable is a different failure.
				r.Count("leakmatrix."+ci.gen+"."+t.pos, 1)
				if _, reached := walked[t.text]; !reached {
					r.Violation(sigKeywordOutsideWalk, w)
				} else {
					r.Violation("leak:keyword-identifier-reachable-by-ast-walk-emitted-verbatim:"+t.pos, w)
				}
			} else {
				r.Violation("structure:identifier-position-without-placeholder:"+t.pos, w)
			}
			return
		case cS, cN, cH, cB:
			if !(reStr.MatchString(o) || reNum.MatchString(o) || reHex.MatchString(o) || reBit.MatchString(o) || reIdent.MatchString(o)) {
				w := wit()
				w["literal"], w["output_token"] = t.text, o
				r.Violation(fmt.Sprintf("structure:literal-position-without-placeholder:%c", t.cls), w)
				return
			}
		}
	}
	var cl []string
	for c := range classes {
		cl = append(cl, string(c))
	}
	sort.Strings(cl)
	r.Distinct(fmt.Sprintf("stmt|%s|%s|comments=%v|shared=%v", ci.gen, strings.Join(cl, ""), ncomm > 0, shared != nil))
	_ = gcomm
}

func genCase(rnd *rand.Rand, kwIDs []string, names *namePool, kwPct int, allowMutation bool) caseInfo {
	g := stmtGens[rnd.Intn(len(stmtGens))]
	if rnd.Intn(3) == 0 {
		g = stmtGens[rnd.Intn(4)] // more DML
	}
	b := &builder{rnd: rnd, kwIDs: kwIDs, kwPct: kwPct, names: names}
	g.f(b)
	toks := b.toks
	mutated := false
	if allowMutation && rnd.Intn(8) == 0 {
		toks = mutate(rnd, toks)
		mutated = true
	}
	sql, rendered := render(rnd, toks, rnd.Intn(2) == 0)
	return caseInfo{gen: g.name, sql: sql, toks: rendered, mutated: mutated}
}

func main() {
	r := core.NewRun("C45", "exploration",
		"each evaluation is one generated statement (22 statement families, identifiers as unique canaries / quoted / non-reserved keywords, all literal kinds, comments with canaries, token mutations) redacted and judged: canary absent from output, one placeholder-or-structural token per lexer token, placeholders equal to the mapping's tokens, maps injective, unparseable -> marker; distinct = (statement family, token classes present, comments, shared mapping) and (identifier position kind, spelling style)")
	r.Assume("parseability is decided by sqlparser.Parse (the same external parser the redactor uses); the input's token sequence is taken from the vitess tokenizer")
	r.Assume("over-redaction (function names, charsets, engine names, type lengths replaced by placeholders) is allowed and not judged")
	kwIDs := keywordIdents()
	r.Extra("keyword_identifiers_used", len(kwIDs))
	r.Floor(len(kwIDs) >= 40, "fewer than 40 non-reserved keywords usable as identifiers")

	n := r.N(20000, 250000)
	const chunks = 64
	r.Parallel("stmts", chunks, func(w int) {
		rec := g3lib.NewRec(r)
		defer rec.Flush()
		for i := w; i < n; i += chunks {
			rnd := r.Rand("stmts", i)
			if i%5 == 4 {
				// a session: 2-4 statements redacted into one mapping
				m := sqlredact.NewMapping()
				names := sessionNames(rnd, kwIDs)
				for k := 2 + rnd.Intn(3); k > 0; k-- {
					checkOne(rec, genCase(rnd, kwIDs, names, 15, true), m)
				}
				continue
			}
			ci := genCase(rnd, kwIDs, nil, 30, true)
			checkOne(rec, ci, nil)
			if i < 5 {
				out, _, _ := sqlredact.RedactSQLForTrace(ci.sql)
				rec.Sample(map[string]any{"sql": ci.sql, "redacted": out})
			}
		}
	})

	concurrent(r, kwIDs)
	pinned(r)

	reports, blocks := core.RaceReports()
	r.Count("race.blocks", int64(blocks))
	for _, rep := range reports {
		r.Violation(rep.Sig, rep.Block)
	}
	r.Floor(r.Counter("parseable") > int64(n)/2, "fewer than half of the generated statements parse")
	r.Floor(r.Counter("unparseable") > int64(n)/50, "too few unparseable inputs")
	r.Finish()
}

func sessionNames(rnd *rand.Rand, kwIDs []string) *namePool {
	p := &namePool{}
	for i := 0; i < 8; i++ {
		p.idents = append(p.idents, canary(rnd))
	}
	p.idents = append(p.idents, "`"+canary(rnd)+" q`", strings.ToUpper(canary(rnd)))
	for i := 0; i < 6; i++ {
		p.strs = append(p.strs, canary(rnd)+" s")
	}
	return p
}

// concurrent: clause (e).
func concurrent(r *core.Run, kwIDs []string) {
	rounds := r.N(40, 300)
	per := r.N(100, 200) // 16 goroutines x per redactions x rounds
	const G = 16
	rec := g3lib.NewRec(r)
	defer rec.Flush()
	for round := 0; round < rounds; round++ {
		rnd := r.Rand("concurrent", round)
		names := sessionNames(rnd, kwIDs)
		var stmts []caseInfo
		var lexed [][]lexTok
		for len(stmts) < 60 {
			ci := genCase(rnd, kwIDs, names, 0, false)
			if _, err := sqlparser.Parse(ci.sql); err != nil {
				continue
			}
			lx, _, bad := lex(ci.sql)
			if bad {
				continue
			}
			stmts = append(stmts, ci)
			lexed = append(lexed, lx)
		}
		m := sqlredact.NewMapping()
		type produced struct {
			stmt int
			out  string
			err  error
		}
		results := make([][]produced, G)
		var wg sync.WaitGroup
		start := make(chan struct{})
		for g := 0; g < G; g++ {
			wg.Add(1)
			grnd := rand.New(rand.NewSource(rnd.Int63()))
			go func(g int) {
				defer wg.Done()
				<-start
				for k := 0; k < per; k++ {
					s := grnd.Intn(len(stmts))
					switch grnd.Intn(10) {
					case 0:
						_ = m.Idents()
						_ = m.String()
					case 1:
						_ = m.RedactIdent(names.idents[grnd.Intn(len(names.idents))])
					case 2:
						_ = m.RedactValue(names.strs[grnd.Intn(len(names.strs))])
					}
					out, err := sqlredact.RedactSQLForTraceInto(stmts[s].sql, m)
					results[g] = append(results[g], produced{s, out, err})
				}
			}(g)
		}
		close(start)
		wg.Wait()
		idents, values := m.Idents(), m.Values()
		wit := func() map[string]any {
			return map[string]any{"round": round, "idents": len(idents), "values": len(values)}
		}
		rec.Eval(1)
		if !checkMaps(rec, m, wit) {
			continue
		}
		okRound := true
		for g := 0; g < G && okRound; g++ {
			for _, p := range results[g] {
				rec.Eval(1)
				w := func() map[string]any {
					return map[string]any{"round": round, "sql": stmts[p.stmt].sql, "redacted": p.out, "err": fmt.Sprint(p.err)}
				}
				if p.err != nil || p.out == sqlredact.UnparseableMarker {
					rec.Violation("concurrent:parseable-statement-rejected", w())
					okRound = false
					break
				}
				outToks := strings.Split(p.out, " ")
				if len(outToks) != len(lexed[p.stmt]) {
					rec.Violation("concurrent:token-count-differs", w())
					okRound = false
					break
				}
				if kind, at := consistentWithMapping(lexed[p.stmt], outToks, idents, values); kind != "" {
					ww := w()
					ww["position"], ww["lexeme"], ww["output_token"] = at, lexed[p.stmt][at].val, outToks[at]
					rec.Violation("concurrent:output-inconsistent-with-final-mapping:"+kind, ww)
					okRound = false
					break
				}
				low := strings.ToLower(p.out)
				for _, t := range stmts[p.stmt].toks {
					if t.probe != "" && strings.Contains(low, strings.ToLower(t.probe)) {
						ww := w()
						ww["leaked"] = t.probe
						rec.Violation("concurrent:leak:canary", ww)
						okRound = false
						break
					}
				}
			}
		}
		rec.Distinct(fmt.Sprintf("concurrent|idents=%d|values=%d", len(idents)/5*5, len(values)/5*5))
		rec.Count("concurrent.rounds", 1)
		rec.Count("concurrent.redactions", int64(G*per))
	}
}
