package main

import (
	"fmt"
	"strings"

	"github.com/dolthub/vitess/go/vt/sqlparser"

	"github.com/dolthub/go-mysql-server/sql/sqlredact"

	"verif/harness/core"
)

type pinnedLeak struct {
	pos, sql, word string
}

// one witness per root cause: names the AST keeps as plain strings, DDL table specifications, and
// statements whose inner statement sqlparser.Walk does not descend into.
var pinnedLeaks = []pinnedLeak{
	{"constraint-name", "CREATE TABLE t1 (a INT, CONSTRAINT status CHECK (a > 0))", "status"},
	{"column-definition", "CREATE TABLE t1 (account INT)", "account"},
	{"fk-referenced-table", "CREATE TABLE t1 (a INT, CONSTRAINT c1 FOREIGN KEY (a) REFERENCES data (a))", "data"},
	{"explain:column", "EXPLAIN SELECT password FROM t1", "password"},
	{"create-procedure:table", "CREATE PROCEDURE p1 () SELECT 1 FROM account", "account"},
	{"procedure-name", "CALL status(1)", "status"},
	{"prepared-statement-name", "PREPARE status FROM 'select 1'", "status"},
	{"trigger-name", "CREATE TRIGGER status BEFORE INSERT ON t1 FOR EACH ROW SET NEW.a = 1", "status"},
	{"user-name", "CREATE USER name@localhost", "name"},
	{"database-name", "SHOW TABLES FROM status", "status"},
	{"window-name", "SELECT a FROM t1 WINDOW name AS (PARTITION BY a)", "name"},
	{"partition-name", "SELECT a FROM t1 PARTITION (status)", "status"},
}

// pinned replays the witnesses of the known finding.
func pinned(r *core.Run) {
	var still []string
	var wits []map[string]any
	for _, p := range pinnedLeaks {
		out, _, err := sqlredact.RedactSQLForTrace(p.sql)
		stmt, perr := sqlparser.Parse(p.sql)
		if err != nil || perr != nil {
			continue
		}
		_, reached := walkIdents(stmt)[p.word]
		leaks := false
		for _, t := range strings.Split(out, " ") {
			if strings.EqualFold(t, p.word) {
				leaks = true
			}
		}
		if leaks && !reached {
			still = append(still, p.pos)
			wits = append(wits, map[string]any{"position_kind": p.pos, "sql": p.sql, "redacted": out, "identifier": p.word})
		}
	}
	r.Extra("pinned_keyword_leaks_still_failing", still)
	what := fmt.Sprintf("identifiers spelled as non-reserved keywords are emitted verbatim in %d of %d pinned positions (%s); e.g. CREATE TABLE t1 (a INT, CONSTRAINT status CHECK (a > 0)) -> CREATE TABLE `n1` ( `n2` INT , CONSTRAINT status CHECK ( `n2` > :v1 ) )",
		len(still), len(pinnedLeaks), strings.Join(still, ", "))
	r.Pinned(sigKeywordOutsideWalk, what, len(still) > 0, wits)
}
