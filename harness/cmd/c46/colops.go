package main

// One-dimensional part: cut ordering, constructors, and every operation of MySQLRangeColumnExpr,
// exhaustively over all well-formed column expressions of a column (136 non-empty cut pairs + the
// canonical empty expression), for an integer and a string typed column.

import (
	"context"
	"fmt"

	"github.com/dolthub/go-mysql-server/sql"

	"verif/harness/g3lib"
)

type wexpr struct {
	lo, up int
}

// allExprs lists every well-formed column expression: lower cut strictly below upper cut, plus the
// canonical empty expression (AboveAll, AboveAll). Inverted expressions are outside the operations'
// contract (DESIGN §7) and never generated.
func allExprs() []wexpr {
	var out []wexpr
	for lo := 0; lo < posAll; lo++ {
		for up := lo + 1; up <= posAll; up++ {
			out = append(out, wexpr{lo, up})
		}
	}
	out = append(out, wexpr{posAll, posAll})
	return out
}

func contiguous(m uint16) bool {
	if m == 0 {
		return true
	}
	for m&1 == 0 {
		m >>= 1
	}
	return m&(m+1) == 0
}

func relClass(a, b uint16) string {
	switch {
	case a == 0 && b == 0:
		return "both-empty"
	case a == 0:
		return "a-empty"
	case b == 0:
		return "b-empty"
	case a == b:
		return "equal"
	case a&b == 0:
		if contiguous(a | b) {
			return "adjacent"
		}
		return "apart"
	case a&^b == 0:
		return "a-in-b"
	case b&^a == 0:
		return "b-in-a"
	}
	return "partial"
}

func colViolation(r *g3lib.Rec, d *dom, op, mode string, a, b sql.MySQLRangeColumnExpr, detail map[string]any) {
	w := map[string]any{"op": op, "type": d.name, "a": a.String(), "b": b.String()}
	for k, v := range detail {
		w[k] = v
	}
	r.Violation("col:"+op+":"+mode, w)
}

func cutOrdering(r *g3lib.Rec, ctx context.Context, d *dom) {
	for p := 0; p < nPos; p++ {
		for q := 0; q < nPos; q++ {
			cp, cq := d.cutAt(p), d.cutAt(q)
			got, err := cp.Compare(ctx, cq, d.typ)
			r.Eval(1)
			r.Distinct(fmt.Sprintf("cutcmp|%T|%T|%d", cp, cq, sign(p-q)))
			if err != nil {
				r.Violation("cut:compare:error", map[string]any{"type": d.name, "a": cp.String(), "b": cq.String(), "err": err.Error()})
				continue
			}
			if sign(got) != sign(p-q) {
				r.Violation(fmt.Sprintf("cut:compare:wrong-order:%T-vs-%T", cp, cq), map[string]any{"type": d.name, "a": cp.String(), "b": cq.String(), "got": got, "want": sign(p - q)})
			}
			lo, hi, err := sql.OrderedCuts(ctx, cp, cq, d.typ)
			r.Eval(1)
			if err != nil {
				r.Violation("cut:orderedcuts:error", map[string]any{"type": d.name, "a": cp.String(), "b": cq.String(), "err": err.Error()})
			} else {
				pl, _ := d.posOf(lo)
				ph, _ := d.posOf(hi)
				if pl != min(p, q) || ph != max(p, q) {
					r.Violation("cut:orderedcuts:wrong", map[string]any{"type": d.name, "a": cp.String(), "b": cq.String(), "lo": lo.String(), "hi": hi.String()})
				}
			}
			mx, err1 := sql.GetMySQLRangeCutMax(ctx, d.typ, cp, nil, cq)
			mn, err2 := sql.GetMySQLRangeCutMin(ctx, d.typ, nil, cp, cq)
			r.Eval(2)
			if err1 != nil || err2 != nil {
				r.Violation("cut:minmax:error", map[string]any{"type": d.name, "a": cp.String(), "b": cq.String()})
			} else {
				pm, _ := d.posOf(mx)
				pn, _ := d.posOf(mn)
				if pm != max(p, q) {
					r.Violation("cut:max:wrong", map[string]any{"type": d.name, "a": cp.String(), "b": cq.String(), "max": mx.String()})
				}
				if pn != min(p, q) {
					r.Violation("cut:min:wrong", map[string]any{"type": d.name, "a": cp.String(), "b": cq.String(), "min": mn.String()})
				}
			}
		}
	}
}

// constructors checks "building": every exported constructor denotes the key set its name says.
func constructors(r *g3lib.Rec, d *dom) {
	keyPt := func(j int) int { return 2 + 2*j } // point index of key j
	// below(j, incl): points < kj (or <=), NULL excluded
	rangeMask := func(loPt, hiPt int) uint16 { // points loPt..hiPt inclusive
		var m uint16
		for p := loPt; p <= hiPt; p++ {
			if p >= 0 && p < nPts {
				m |= 1 << uint(p)
			}
		}
		return m
	}
	check := func(name string, e sql.MySQLRangeColumnExpr, want uint16, args ...any) {
		r.Eval(1)
		c := d.decode(e)
		r.Distinct("ctor|" + name + "|" + d.name)
		if !c.ok || c.mask() != want {
			r.Violation("ctor:"+name+":wrong-key-set", map[string]any{"type": d.name, "args": fmt.Sprint(args...), "expr": e.String(), "got_mask": c.mask(), "want_mask": want})
		}
	}
	check("All", sql.AllRangeColumnExpr(d.typ), fullMask)
	check("Empty", sql.EmptyRangeColumnExpr(d.typ), 0)
	check("Null", sql.NullRangeColumnExpr(d.typ), 1)
	check("NotNull", sql.NotNullRangeColumnExpr(d.typ), fullMask&^1)
	for j := 0; j < nKeys; j++ {
		k := d.keys[j]
		check("LessThan", sql.LessThanRangeColumnExpr(k, d.typ), rangeMask(1, keyPt(j)-1), k)
		check("LessOrEqual", sql.LessOrEqualRangeColumnExpr(k, d.typ), rangeMask(1, keyPt(j)), k)
		check("GreaterThan", sql.GreaterThanRangeColumnExpr(k, d.typ), rangeMask(keyPt(j)+1, nPts-1), k)
		check("GreaterOrEqual", sql.GreaterOrEqualRangeColumnExpr(k, d.typ), rangeMask(keyPt(j), nPts-1), k)
		for j2 := j; j2 < nKeys; j2++ {
			k2 := d.keys[j2]
			check("Closed", sql.ClosedRangeColumnExpr(k, k2, d.typ), rangeMask(keyPt(j), keyPt(j2)), k, k2)
			if j2 > j { // Open(k,k) is an inverted expression: out of contract
				check("Open", sql.OpenRangeColumnExpr(k, k2, d.typ), rangeMask(keyPt(j)+1, keyPt(j2)-1), k, k2)
			}
		}
	}
	// a NULL argument denotes the empty set (comparison with NULL is never true)
	check("LessThan(nil)", sql.LessThanRangeColumnExpr(nil, d.typ), 0)
	check("LessOrEqual(nil)", sql.LessOrEqualRangeColumnExpr(nil, d.typ), 0)
	check("GreaterThan(nil)", sql.GreaterThanRangeColumnExpr(nil, d.typ), 0)
	check("GreaterOrEqual(nil)", sql.GreaterOrEqualRangeColumnExpr(nil, d.typ), 0)
	check("Closed(nil)", sql.ClosedRangeColumnExpr(nil, d.keys[0], d.typ), 0)
	check("Open(nil)", sql.OpenRangeColumnExpr(d.keys[0], nil, d.typ), 0)
}

// colPair checks every two-operand operation of MySQLRangeColumnExpr on (a, b).
func colPair(r *g3lib.Rec, ctx context.Context, d *dom, wa, wb wexpr) {
	a, b := d.expr(wa.lo, wa.up), d.expr(wb.lo, wb.up)
	ma, mb := mask(wa.lo, wa.up), mask(wb.lo, wb.up)
	rel := relClass(ma, mb)
	shape := fmt.Sprintf("%d|%d|%s", a.Type(), b.Type(), rel)
	bad := func(op, mode string, detail map[string]any) { colViolation(r, d, op, mode, a, b, detail) }

	// TryIntersect
	x, ok, err := a.TryIntersect(ctx, b)
	r.Eval(1)
	r.Distinct("tryintersect|" + shape)
	if err != nil {
		bad("tryintersect", "error", map[string]any{"err": err.Error()})
	} else {
		c := d.decode(x)
		if !c.ok || c.mask() != ma&mb {
			bad("tryintersect", "wrong-key-set", map[string]any{"result": x.String()})
		} else if ok != (ma&mb != 0) {
			bad("tryintersect", "wrong-flag", map[string]any{"result": x.String(), "ok": ok})
		}
	}
	// Overlaps
	x, ok, err = a.Overlaps(ctx, b)
	r.Eval(1)
	r.Distinct("overlaps|" + shape)
	if err != nil {
		bad("overlaps", "error", map[string]any{"err": err.Error()})
	} else if ok != (ma&mb != 0) {
		bad("overlaps", "wrong-flag", map[string]any{"ok": ok})
	} else if ok {
		c := d.decode(x)
		if !c.ok || c.mask() != ma&mb {
			bad("overlaps", "wrong-key-set", map[string]any{"result": x.String()})
		}
	}
	// TryUnion: when it succeeds the result is exactly the union (success itself is not demanded)
	x, ok, err = a.TryUnion(ctx, b)
	r.Eval(1)
	r.Distinct(fmt.Sprintf("tryunion|%s|%v", shape, ok))
	if err != nil {
		bad("tryunion", "error", map[string]any{"err": err.Error()})
	} else if ok {
		c := d.decode(x)
		if !c.ok || c.mask() != ma|mb {
			bad("tryunion", "wrong-key-set", map[string]any{"result": x.String()})
		}
	} else if contiguous(ma|mb) && ma != 0 && mb != 0 {
		r.Count("col.tryunion.declined-contiguous", 1)
	}
	// Subtract
	parts, err := a.Subtract(ctx, b)
	r.Eval(1)
	r.Distinct(fmt.Sprintf("subtract|%s|%d", shape, len(parts)))
	if err != nil {
		bad("subtract", "error", map[string]any{"err": err.Error()})
	} else {
		var u uint16
		over := false
		okc := true
		var ps []string
		for _, p := range parts {
			c := d.decode(p)
			okc = okc && c.ok
			if u&c.mask() != 0 {
				over = true
			}
			u |= c.mask()
			ps = append(ps, p.String())
		}
		if !okc || u != ma&^mb {
			bad("subtract", "wrong-key-set", map[string]any{"result": ps})
		} else if over {
			bad("subtract", "pieces-overlap", map[string]any{"result": ps})
		}
	}
	// IsConnected: for non-empty operands, connected <=> the union has no gap
	conn, err := a.IsConnected(ctx, b)
	if err != nil {
		r.Eval(1)
		bad("isconnected", "error", map[string]any{"err": err.Error()})
	} else if ma != 0 && mb != 0 {
		r.Eval(1)
		r.Distinct("isconnected|" + shape)
		if conn != contiguous(ma|mb) {
			bad("isconnected", "wrong-flag", map[string]any{"got": conn})
		}
	}
	// IsSubsetOf / IsSupersetOf: true must mean pointwise inclusion; false must mean non-inclusion when
	// the candidate subset is non-empty (the empty expression is reported as a subset only of ranges
	// that are unbounded above: not asserted).
	sub, err := a.IsSubsetOf(ctx, b)
	r.Eval(1)
	r.Distinct(fmt.Sprintf("issubset|%s|%v", shape, sub))
	if err != nil {
		bad("issubsetof", "error", map[string]any{"err": err.Error()})
	} else if sub && ma&^mb != 0 {
		bad("issubsetof", "true-but-not-subset", nil)
	} else if !sub && ma != 0 && ma&^mb == 0 {
		bad("issubsetof", "false-but-subset", nil)
	}
	sup, err := a.IsSupersetOf(ctx, b)
	r.Eval(1)
	if err != nil {
		bad("issupersetof", "error", map[string]any{"err": err.Error()})
	} else if sup && mb&^ma != 0 {
		bad("issupersetof", "true-but-not-superset", nil)
	} else if !sup && mb != 0 && mb&^ma == 0 {
		bad("issupersetof", "false-but-superset", nil)
	}
	// Equals <=> same cuts
	eq, err := a.Equals(ctx, b)
	r.Eval(1)
	if err != nil {
		bad("equals", "error", map[string]any{"err": err.Error()})
	} else if eq != (wa == wb) {
		bad("equals", "wrong-flag", map[string]any{"got": eq})
	}
}

func colSingle(r *g3lib.Rec, ctx context.Context, d *dom, w wexpr) {
	e := d.expr(w.lo, w.up)
	emp, err := e.IsEmpty(ctx)
	r.Eval(1)
	if err != nil {
		r.Violation("col:isempty:error", map[string]any{"type": d.name, "a": e.String(), "err": err.Error()})
	} else if emp != (mask(w.lo, w.up) == 0) {
		r.Violation("col:isempty:wrong-flag", map[string]any{"type": d.name, "a": e.String(), "got": emp})
	}
	if e.Type() == sql.RangeType_Invalid {
		r.Count("col.type.invalid-for-wellformed", 1)
	}
}

// simplify checks SimplifyRangeColumn on one list.
func simplify(r *g3lib.Rec, ctx context.Context, d *dom, ws []wexpr) {
	in := make([]sql.MySQLRangeColumnExpr, len(ws))
	var want uint16
	var ins []string
	for i, w := range ws {
		in[i] = d.expr(w.lo, w.up)
		want |= mask(w.lo, w.up)
		ins = append(ins, in[i].String())
	}
	out, err := sql.SimplifyRangeColumn(ctx, in...)
	r.Eval(1)
	bad := func(mode string, outs []string) {
		r.Violation("col:simplify:"+mode, map[string]any{"type": d.name, "in": ins, "out": outs})
	}
	if err != nil {
		bad("error", []string{err.Error()})
		return
	}
	var u uint16
	var outs []string
	prevUp := -1
	over, unsorted, okc := false, false, true
	for _, e := range out {
		c := d.decode(e)
		okc = okc && c.ok
		if u&c.mask() != 0 {
			over = true
		}
		u |= c.mask()
		if c.ok && c.lo < prevUp {
			unsorted = true
		}
		prevUp = c.up
		outs = append(outs, e.String())
	}
	r.Distinct(fmt.Sprintf("simplify|in=%d|out=%d", len(ws), len(out)))
	switch {
	case !okc || u != want:
		bad("wrong-key-set", outs)
	case over:
		bad("pieces-overlap", outs)
	case unsorted:
		bad("not-sorted", outs)
	}
}
