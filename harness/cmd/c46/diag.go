package main

// Root-cause classification for the known finding "interval tree under-estimates MaxUpperbound".
// A violation is filed under that finding only when the harness has *observed* the mechanism: the
// tree holds a left child whose recorded MaxUpperbound is below an upper bound stored in its subtree,
// the probe's lower cut falls in between (so FindConnections prunes the subtree), and a stored range
// sharing key tuples with the probe is not returned. Anything else keeps its own signature.

import (
	"context"
	"fmt"
	"strings"

	"github.com/dolthub/go-mysql-server/sql"

	"verif/harness/core"
	"verif/harness/g3lib"
)

const (
	sigTreeMaxUpper = "tree:findconnections:missed-overlapping-range:left-subtree-pruned-by-underestimated-maxupperbound"
	sigROLMaxUpper  = "rol:error:overlapping-ranges:findconnections-missed-range-pruned-by-underestimated-maxupperbound"
)

// trueMaxUp is the largest upper cut stored in a subtree.
func trueMaxUp(n *tnode) int {
	if n == nil {
		return -1
	}
	return max(n.up, trueMaxUp(n.left), trueMaxUp(n.right))
}

// wronglyPruned reports whether FindConnections' pruning rule ("skip the left subtree when the
// probe's lower cut is above left.MaxUpperbound") would skip a subtree that stores an upper cut at or
// above the probe's lower cut, anywhere in the tree (inner trees included).
func wronglyPruned(t *ttree, probe box, col int) bool {
	if t == nil || t.root == nil || col >= len(probe.c) {
		return false
	}
	lo := probe.c[col].lo
	var f func(n *tnode) bool
	f = func(n *tnode) bool {
		if n == nil {
			return false
		}
		if n.left != nil && n.left.maxUp < lo && lo <= trueMaxUp(n.left) {
			return true
		}
		if n.inner != nil && wronglyPruned(n.inner, probe, col+1) {
			return true
		}
		return f(n.left) || f(n.right)
	}
	return f(t.root)
}

// minimizeROL drops ranges while RemoveOverlappingRanges keeps failing with the same class of error.
func minimizeROL(ctx context.Context, in []sql.MySQLRange, class string) []sql.MySQLRange {
	cur := append([]sql.MySQLRange(nil), in...)
	for changed := true; changed; {
		changed = false
		for i := 0; i < len(cur) && len(cur) > 1; i++ {
			cand := append(append([]sql.MySQLRange(nil), cur[:i]...), cur[i+1:]...)
			_, err := sql.RemoveOverlappingRanges(ctx, append([]sql.MySQLRange(nil), cand...)...)
			if err != nil && strings.HasPrefix(err.Error(), class) {
				cur = cand
				changed = true
				i--
			}
		}
	}
	return cur
}

func reportROLError(r *g3lib.Rec, ctx context.Context, s *rset, err error) {
	n := s.n()
	msg := err.Error()
	w := map[string]any{"types": domNames(s.doms), "in": rangesString(s.ranges), "err": msg}
	if !strings.HasPrefix(msg, "overlapping ranges") {
		r.Violation(fmt.Sprintf("rol:error:%s:n=%d", core.StripVolatile(msg), n), w)
		return
	}
	min := minimizeROL(ctx, s.ranges, "overlapping ranges")
	w["minimized_in"] = rangesString(min)
	explained, detail := diagnoseROL(ctx, s.doms, min)
	w["diagnosis"] = detail
	if explained && n >= 2 {
		r.Violation(sigROLMaxUpper, w)
		return
	}
	r.Violation(fmt.Sprintf("rol:error:overlapping-ranges:unexplained:n=%d", n), w)
}

// diagnoseROL re-runs RemoveOverlappingRanges' loop through the exported tree API while watching the
// tree, and reports whether a FindConnections call missed a stored overlapping range because of an
// under-estimated MaxUpperbound.
func diagnoseROL(ctx context.Context, doms []*dom, in []sql.MySQLRange) (bool, map[string]any) {
	ranges := append([]sql.MySQLRange(nil), in...)
	tree, err := sql.NewMySQLRangeColumnExprTree(ranges[0], sql.GetColExprTypes(ranges))
	if err != nil {
		return false, map[string]any{"err": err.Error()}
	}
	n := len(doms)
	model := map[string]box{}
	b0 := decodeRange(doms, ranges[0])
	model[b0.key()] = b0
	var steps []string
	for i := 1; i < len(ranges) && i < 500; i++ {
		rang := ranges[i]
		pb := decodeRange(doms, rang)
		conns, err := tree.FindConnections(ctx, rang, 0)
		if err != nil {
			return false, map[string]any{"err": err.Error()}
		}
		seen := map[string]bool{}
		for _, c := range conns {
			seen[decodeRange(doms, c).key()] = true
		}
		pp := psetOf(n, pb)
		for k, m := range model {
			if seen[k] || psetOf(n, m).and(pp).isEmpty() {
				continue
			}
			snap, err := snapshot(ctx, doms, 0, tree)
			if err != nil {
				return false, map[string]any{"err": err.Error()}
			}
			return wronglyPruned(snap, pb, 0), map[string]any{"steps": steps, "probe": rang.String(), "missed_stored_key": k, "tree_first_column": tree.String()}
		}
		found := false
		for _, c := range conns {
			if c == nil {
				continue
			}
			newRanges, ok, err := c.RemoveOverlap(ctx, rang)
			if err != nil {
				return false, map[string]any{"err": err.Error()}
			}
			if ok {
				found = true
				if err := tree.Remove(ctx, c); err != nil {
					return false, map[string]any{"err": err.Error()}
				}
				delete(model, decodeRange(doms, c).key())
				steps = append(steps, fmt.Sprintf("remove %s (overlaps/merges with %s) -> requeue %d ranges", c.String(), rang.String(), len(newRanges)))
				ranges = append(ranges, newRanges...)
				break
			}
		}
		if !found {
			if err := tree.Insert(ctx, rang); err != nil {
				return false, map[string]any{"err": err.Error()}
			}
			model[pb.key()] = pb
			steps = append(steps, "insert "+rang.String())
		}
	}
	return false, map[string]any{"steps": steps, "note": "no missed connection observed while replaying the loop"}
}
