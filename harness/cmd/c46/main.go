// C46 — index range operations preserve the set of keys they denote.
//
// Oracle: membership by enumeration. Every column has a 16-point key domain (NULL lowest, 7 cut keys
// and a real key in every gap between adjacent cut positions); a range over n columns denotes a
// set of key tuples that the harness computes from the exported cut types alone (model.go). Each
// operation's result is compared tuple by tuple with the set the operation's meaning prescribes.
package main

import (
	"context"
	"fmt"
	"strings"
	"sync/atomic"
	"time"

	"github.com/dolthub/go-mysql-server/sql"

	"verif/harness/core"
	"verif/harness/g3lib"
)

// caseTimeout is the watchdog of one case (normal latency: microseconds to milliseconds). A fired
// watchdog is inconclusive and cuts the run short: an endless loop inside RemoveOverlappingRanges
// also grows its work list without bound.
const caseTimeout = 20 * time.Second

const intersectRangesSig = "intersectranges:returns-first-operand-not-the-intersection"

func main() {
	r := core.NewRun("C46", "exploration",
		"each evaluation compares one range operation's result with the key-tuple set computed by enumeration over a 16-point-per-column domain (NULL lowest); distinct = (operation, column count, pointwise relation / shape of operands, outcome shape) and distinct interval-tree shapes")
	r.Assume("column expressions are well-formed: lower cut strictly below upper cut, or the canonical empty (AboveAll, AboveAll); inverted expressions are outside the operations' contract")
	r.Assume("cut keys are 7 values of the column type (TINYINT 0,2,..,12 / VARCHAR b,d,..,n); the key domain adds NULL and a real key in every gap, so cut predicates and pointwise predicates coincide for non-empty operands")
	r.Assume("IsSubsetOf/IsSupersetOf answering false for an empty candidate subset, TryUnion/TryMerge declining a possible merge, and FindConnections missing a merely touching range are measured, not judged")
	ctx := context.Background()
	sctx := sql.NewEmptyContext()
	_ = sctx

	// ---- one-dimensional, exhaustive ----
	exprs := allExprs()
	doms := []*dom{domInt, domStr}
	rec0 := g3lib.NewRec(r)
	for _, d := range doms {
		cutOrdering(rec0, ctx, d)
		constructors(rec0, d)
		for _, w := range exprs {
			colSingle(rec0, ctx, d, w)
		}
	}
	rec0.Flush()
	r.Parallel("colpairs", len(doms)*len(exprs), func(i int) {
		rec := g3lib.NewRec(r)
		defer rec.Flush()
		d := doms[i/len(exprs)]
		a := exprs[i%len(exprs)]
		for _, b := range exprs {
			colPair(rec, ctx, d, a, b)
		}
	})
	// one-column range sets of <= 2 ranges exhaustively (<= 3 in thorough): RemoveOverlappingRanges + SimplifyRangeColumn
	var smallSets int64
	ne := len(exprs)
	r.Parallel("smallsets", len(doms)*ne*ne, func(i int) {
		d := doms[i/(ne*ne)]
		a, b := exprs[(i/ne)%ne], exprs[i%ne]
		g3lib.Guard(r, "smallsets", i, caseTimeout, func() {
			rec := g3lib.NewRec(r)
			defer rec.Flush()
			one := func(ws ...wexpr) {
				s := &rset{doms: []*dom{d}}
				for _, w := range ws {
					rg := sql.MySQLRange{d.expr(w.lo, w.up)}
					s.ranges = append(s.ranges, rg)
					s.boxes = append(s.boxes, decodeRange(s.doms, rg))
				}
				checkROL(rec, ctx, s, false)
				simplify(rec, ctx, d, ws)
				atomic.AddInt64(&smallSets, 1)
			}
			if i%ne == 0 {
				one(a)
			}
			one(a, b)
			if !r.Quick() {
				for _, c := range exprs {
					one(a, b, c)
				}
			}
		})
	})
	r.Count("exhaustive.one-column-sets", smallSets)

	// ---- random range sets over 1..3 columns ----
	nsets := r.N(30000, 500000)
	var done int64
	r.Parallel("sets", nsets, func(i int) {
		rnd := r.Rand("sets", i)
		ncols := 1 + rnd.Intn(3)
		if rnd.Intn(4) == 0 {
			ncols = 3
		}
		nr := 1 + rnd.Intn(8)
		s := genSet(rnd, ncols, nr)
		ok := g3lib.Guard(r, "sets", i, caseTimeout, func() {
			r := g3lib.NewRec(r)
			defer r.Flush()
			checkROL(r, ctx, s, i < 3)
			checkCollIntersect(r, ctx, s)
			checkSort(r, ctx, s)
			for k := 0; k+1 < len(s.ranges) && k < 3; k++ {
				checkPair(r, ctx, s.doms, s.ranges[k], s.ranges[k+1])
			}
			if len(s.ranges) >= 2 {
				checkPair(r, ctx, s.doms, s.ranges[len(s.ranges)-1], s.ranges[0])
				// a sub-range pair: guarantees subset / equal relations are frequent
				x, err := s.ranges[0].Intersect(ctx, s.ranges[1])
				if err == nil && len(x) == len(s.ranges[0]) {
					checkPair(r, ctx, s.doms, x, s.ranges[0])
					checkPair(r, ctx, s.doms, s.ranges[1], x)
				}
				checkPair(r, ctx, s.doms, s.ranges[0], s.ranges[0])
			}
			if ncols == 1 {
				ws := make([]wexpr, len(s.boxes))
				for k, b := range s.boxes {
					ws[k] = wexpr{b.c[0].lo, b.c[0].up}
				}
				simplify(r, ctx, s.doms[0], ws)
			}
			if len(s.ranges) >= 2 && len(s.ranges) <= 4 {
				r.Eval(1)
				if mode, wit := checkIntersectRanges(r, ctx, s); mode != "" {
					r.Violation("intersectranges:"+mode, wit)
				}
			}
		})
		if ok {
			atomic.AddInt64(&done, 1)
		}
	})
	r.Count("sets.completed", done)

	// ---- interval tree histories ----
	nh := r.N(3000, 50000)
	var hdone int64
	r.Parallel("tree", nh, func(i int) {
		rnd := r.Rand("tree", i)
		ncols := 1 + rnd.Intn(3)
		nops := 10 + rnd.Intn(40)
		disjoint := i%5 != 4
		if g3lib.Guard(r, "tree", i, caseTimeout, func() {
			rec := g3lib.NewRec(r)
			defer rec.Flush()
			treeHistory(rec, ctx, rnd, ncols, nops, disjoint)
		}) {
			atomic.AddInt64(&hdone, 1)
		}
	})
	r.Count("tree.histories-completed", hdone)

	g3lib.Guard(r, "pinned", 0, caseTimeout, func() { pinned(r, ctx) })

	// floors: the mechanisms named in the anchors were exercised
	r.Floor(done*10 >= int64(nsets)*9, fmt.Sprintf("only %d of %d range sets completed", done, nsets))
	r.Floor(hdone*10 >= int64(nh)*9, fmt.Sprintf("only %d of %d tree histories completed", hdone, nh))
	r.Floor(r.Counter("rol.sets-with-overlap") > int64(nsets)/10, "RemoveOverlappingRanges hardly ever saw overlapping input")
	r.Floor(r.Counter("rol.sets-split-into-more-ranges") > 0, "no overlap removal ever split ranges")
	r.Floor(r.Counter("removeoverlap.split") > 0, "RemoveOverlap never cut a pair into pieces")
	r.Floor(r.Counter("tree.disjoint.depth>=4") > 0, "interval tree never reached depth 4 (no rebalancing exercised)")
	r.Floor(r.Counter("tree.disjoint.remove") > 0 && r.Counter("tree.disjoint.findconnections-nonempty") > 0, "interval tree removes / successful FindConnections not exercised")
	r.Finish()
}

// pinned replays the witnesses of known findings on every run.
func pinned(r *core.Run, ctx context.Context) {
	d := domInt
	// (1) IntersectRanges ignores the computed intersection
	s := &rset{doms: []*dom{d}}
	for _, w := range []wexpr{{2, 7}, {4, 11}} { // [0,4] and [2,8] -> intersection [2,4]
		rg := sql.MySQLRange{d.expr(w.lo, w.up)}
		s.ranges = append(s.ranges, rg)
		s.boxes = append(s.boxes, decodeRange(s.doms, rg))
	}
	mode, wit := checkIntersectRanges(g3lib.NewRec(r), ctx, s)
	r.Pinned(intersectRangesSig, "IntersectRanges({[0,4]},{[2,8]}) returns {[0,4]} instead of {[2,4]}", "intersectranges:"+mode == intersectRangesSig, wit)

	// (2) interval tree: MaxUpperbound under-estimated after a rotation (insert-only history, 3 columns)
	doms3 := []*dom{d, d, d}
	mk := func(p [][2]int) sql.MySQLRange {
		rg := make(sql.MySQLRange, len(p))
		for c := range p {
			rg[c] = doms3[c].expr(p[c][0], p[c][1])
		}
		return rg
	}
	script := [][][2]int{
		{{15, 16}, {9, 10}, {5, 8}},
		{{1, 16}, {2, 4}, {10, 15}},
		{{13, 16}, {13, 16}, {11, 13}},
		{{10, 13}, {14, 16}, {8, 11}},
		{{11, 13}, {4, 7}, {14, 15}},
	}
	probe, missed := mk([][2]int{{14, 16}, {2, 3}, {7, 12}}), mk(script[1])
	fails := false
	w := map[string]any{"probe": probe.String(), "missed": missed.String()}
	func() {
		defer func() { recover() }()
		tree, err := sql.NewMySQLRangeColumnExprTree(mk(script[0]), []sql.Type{d.typ, d.typ, d.typ})
		if err != nil {
			return
		}
		hist := []string{"new " + mk(script[0]).String()}
		for _, p := range script[1:] {
			if tree.Insert(ctx, mk(p)) != nil {
				return
			}
			hist = append(hist, "insert "+mk(p).String())
		}
		conns, err := tree.FindConnections(ctx, probe, 0)
		if err != nil {
			return
		}
		found := false
		mk1 := decodeRange(doms3, missed).key()
		for _, c := range conns {
			if decodeRange(doms3, c).key() == mk1 {
				found = true
			}
		}
		snap, _ := snapshot(ctx, doms3, 0, tree)
		fails = !found && wronglyPruned(snap, decodeRange(doms3, probe), 0)
		w["history"], w["returned"], w["tree"] = hist, rangesString(conns), tree.String()
	}()
	r.Pinned(sigTreeMaxUpper, "FindConnections misses stored range "+missed.String()+" that shares key tuples with probe "+probe.String()+" (left subtree pruned: its MaxUpperbound was lowered by a rotation)", fails, w)

	// (3) the same defect through RemoveOverlappingRanges: error "overlapping ranges" on a well-formed input
	rs := &rset{doms: doms3}
	for _, p := range [][][2]int{
		{{0, 15}, {7, 15}, {1, 15}},
		{{0, 16}, {5, 8}, {1, 2}},
		{{12, 13}, {0, 16}, {4, 5}},
		{{12, 14}, {8, 9}, {15, 16}},
		{{3, 8}, {4, 11}, {0, 1}},
		{{12, 16}, {10, 11}, {0, 2}},
	} {
		rs.ranges = append(rs.ranges, mk(p))
		rs.boxes = append(rs.boxes, decodeRange(doms3, mk(p)))
	}
	fails = false
	w = map[string]any{"in": rangesString(rs.ranges)}
	func() {
		defer func() { recover() }()
		_, err := sql.RemoveOverlappingRanges(ctx, append([]sql.MySQLRange(nil), rs.ranges...)...)
		if err != nil && strings.HasPrefix(err.Error(), "overlapping ranges") {
			explained, detail := diagnoseROL(ctx, doms3, rs.ranges)
			fails = explained
			w["err"], w["diagnosis"] = err.Error(), detail
		}
	}()
	// … and through SQL: a disjunction of conjunctions over a 3-column index
	e := core.NewEng("d")
	defer e.Close()
	ss := e.NewSess()
	ss.MustExec("CREATE TABLE t (id INT PRIMARY KEY, a TINYINT, b TINYINT, c TINYINT, KEY abc (a,b,c))")
	ss.MustExec("INSERT INTO t VALUES (1,8,6,NULL),(2,12,NULL,0),(3,4,0,8),(4,2,14,1),(5,NULL,1,1)")
	q := "SELECT id FROM t WHERE (a IS NOT NULL AND b > 12) OR (a > 10 AND a < 16) OR ((a > 8 AND a < 14) AND b IS NULL) OR (a = 8 AND b >= 6 AND c IS NULL) OR (a >= 4 AND b <= 0 AND c = 8)"
	res := ss.Exec(q)
	sqlFails := res.Err != nil && strings.Contains(res.Err.Error(), "overlapping ranges")
	w["sql"], w["sql_fails_with_overlapping_ranges"] = q, sqlFails
	r.Extra("sql_witness_overlapping_ranges_error", sqlFails)
	r.Pinned(sigROLMaxUpper, "RemoveOverlappingRanges returns error \"overlapping ranges\" for 6 well-formed 3-column ranges (FindConnections missed a stored range); same error from a SELECT with an OR of 5 conjunctions over KEY(a,b,c)", fails, w)
}
