package main

// The harness's own model of cuts, column expressions and ranges. Nothing here calls the code under
// test: a cut is decoded by a type switch on the exported cut types and mapped to a position on a
// line; membership of a key in a column expression is "position of lower cut <= point < position of
// upper cut".
//
// Per column the cut keys are k0 < k1 < … < k6 and the key domain is
//   NULL, g0, k0, g1, k1, …, k6, g7        (16 points)
// where every g is a real key of the column type lying strictly between its neighbours (integers:
// keys 0,2,…,12 and gaps -1,1,…,13; strings: keys b,d,…,n and gaps a,c,…,o). Every pair of adjacent
// cut positions therefore has a key of the domain between them, so predicates over cuts (subset,
// overlap, connected) coincide with the pointwise predicates over the domain for non-empty operands.
//
// positions: 0 BelowNull, 1 AboveNull, 2+2j Below[kj], 3+2j Above[kj], 16 AboveAll
// points:    i in 0..15 lies between position i and i+1 (0 = NULL, 2+2j = kj, odd = gap keys)

import (
	"fmt"
	"strings"

	"github.com/dolthub/go-mysql-server/sql"
	"github.com/dolthub/go-mysql-server/sql/types"
	"github.com/dolthub/vitess/go/sqltypes"
)

const (
	nPos     = 17
	posAll   = 16
	nPts     = 16
	nKeys    = 7
	fullMask = uint16(0xFFFF)
)

type dom struct {
	name string
	typ  sql.Type
	keys [nKeys]any
	pts  [nPts]any // pts[0] = nil (NULL)
}

var domInt, domStr *dom

func init() {
	domInt = &dom{name: "int8", typ: types.Int8}
	for j := 0; j < nKeys; j++ {
		domInt.keys[j] = int8(2 * j)
	}
	for i := 1; i < nPts; i++ {
		domInt.pts[i] = int8(i - 2)
	}
	domStr = &dom{name: "varchar", typ: types.MustCreateStringWithDefaults(sqltypes.VarChar, 10)}
	for j := 0; j < nKeys; j++ {
		domStr.keys[j] = string(rune('b' + 2*j))
	}
	for i := 1; i < nPts; i++ {
		domStr.pts[i] = string(rune('a' + i - 1))
	}
}

// cutAt builds the library cut for a model position.
func (d *dom) cutAt(p int) sql.MySQLRangeCut {
	switch {
	case p == 0:
		return sql.BelowNull{}
	case p == 1:
		return sql.AboveNull{}
	case p == posAll:
		return sql.AboveAll{}
	case p%2 == 0:
		return sql.Below{Key: d.keys[(p-2)/2], Typ: d.typ}
	}
	return sql.Above{Key: d.keys[(p-3)/2], Typ: d.typ}
}

// posOf decodes a library cut into its model position.
func (d *dom) posOf(c sql.MySQLRangeCut) (int, bool) {
	switch c := c.(type) {
	case sql.BelowNull:
		return 0, true
	case sql.AboveNull:
		return 1, true
	case sql.AboveAll:
		return posAll, true
	case sql.Below:
		for j, k := range d.keys {
			if k == c.Key {
				return 2 + 2*j, true
			}
		}
	case sql.Above:
		for j, k := range d.keys {
			if k == c.Key {
				return 3 + 2*j, true
			}
		}
	}
	return -1, false
}

// expr builds a library column expression from two model positions.
func (d *dom) expr(lo, up int) sql.MySQLRangeColumnExpr {
	return sql.MySQLRangeColumnExpr{LowerBound: d.cutAt(lo), UpperBound: d.cutAt(up), Typ: d.typ}
}

// mask is the set of domain points in (lo, up).
func mask(lo, up int) uint16 {
	if lo >= up {
		return 0
	}
	return uint16(((uint32(1) << uint(up)) - 1) &^ ((uint32(1) << uint(lo)) - 1))
}

// cexpr is a decoded column expression.
type cexpr struct {
	lo, up int
	ok     bool
}

func (c cexpr) mask() uint16 { return mask(c.lo, c.up) }

func (d *dom) decode(e sql.MySQLRangeColumnExpr) cexpr {
	if e.LowerBound == nil || e.UpperBound == nil {
		return cexpr{-1, -1, false}
	}
	lo, ok1 := d.posOf(e.LowerBound)
	up, ok2 := d.posOf(e.UpperBound)
	return cexpr{lo, up, ok1 && ok2}
}

// box is the decoded form of a MySQLRange: one mask per column.
type box struct {
	m  []uint16
	c  []cexpr
	ok bool // every cut decoded and the arity is right
}

func decodeRange(doms []*dom, r sql.MySQLRange) box {
	b := box{ok: len(r) == len(doms)}
	if !b.ok {
		return b
	}
	for i, e := range r {
		c := doms[i].decode(e)
		if !c.ok {
			b.ok = false
		}
		b.c = append(b.c, c)
		b.m = append(b.m, c.mask())
	}
	return b
}

func (b box) empty() bool {
	for _, m := range b.m {
		if m == 0 {
			return true
		}
	}
	return len(b.m) == 0
}

// cmpBoxes orders two ranges the way a sorted collection is ordered: column by column, lower cut
// then upper cut.
func cmpBoxes(a, b box) int {
	for i := range a.c {
		if a.c[i].lo != b.c[i].lo {
			return sign(a.c[i].lo - b.c[i].lo)
		}
		if a.c[i].up != b.c[i].up {
			return sign(a.c[i].up - b.c[i].up)
		}
	}
	return 0
}

func sign(x int) int {
	switch {
	case x < 0:
		return -1
	case x > 0:
		return 1
	}
	return 0
}

func (b box) key() string {
	var sb strings.Builder
	for _, c := range b.c {
		fmt.Fprintf(&sb, "%d:%d|", c.lo, c.up)
	}
	return sb.String()
}

// pset is a set of key tuples over n columns: bits[prefix] is the mask of last-column points, prefix
// enumerating the points of the first n-1 columns.
type pset struct {
	n    int
	bits []uint16
}

func newPset(n int) *pset {
	sz := 1
	for i := 1; i < n; i++ {
		sz *= nPts
	}
	return &pset{n: n, bits: make([]uint16, sz)}
}

// add unions a box into the set and reports whether some tuple of the box was already present.
func (s *pset) add(b box) (overlap bool) {
	if b.empty() {
		return false
	}
	last := b.m[s.n-1]
	switch s.n {
	case 1:
		overlap = s.bits[0]&last != 0
		s.bits[0] |= last
	case 2:
		for p0 := 0; p0 < nPts; p0++ {
			if b.m[0]&(1<<uint(p0)) == 0 {
				continue
			}
			if s.bits[p0]&last != 0 {
				overlap = true
			}
			s.bits[p0] |= last
		}
	case 3:
		for p0 := 0; p0 < nPts; p0++ {
			if b.m[0]&(1<<uint(p0)) == 0 {
				continue
			}
			for p1 := 0; p1 < nPts; p1++ {
				if b.m[1]&(1<<uint(p1)) == 0 {
					continue
				}
				if s.bits[p0*nPts+p1]&last != 0 {
					overlap = true
				}
				s.bits[p0*nPts+p1] |= last
			}
		}
	default:
		panic("pset arity")
	}
	return overlap
}

func (s *pset) equal(o *pset) bool {
	for i := range s.bits {
		if s.bits[i] != o.bits[i] {
			return false
		}
	}
	return true
}

func (s *pset) isEmpty() bool {
	for _, b := range s.bits {
		if b != 0 {
			return false
		}
	}
	return true
}

func (s *pset) and(o *pset) *pset {
	r := newPset(s.n)
	for i := range s.bits {
		r.bits[i] = s.bits[i] & o.bits[i]
	}
	return r
}

func (s *pset) subsetOf(o *pset) bool {
	for i := range s.bits {
		if s.bits[i]&^o.bits[i] != 0 {
			return false
		}
	}
	return true
}

func (s *pset) count() int {
	n := 0
	for _, b := range s.bits {
		for ; b != 0; b &= b - 1 {
			n++
		}
	}
	return n
}

// firstDiff returns one key tuple that is in exactly one of the two sets (for witnesses).
func (s *pset) firstDiff(o *pset, doms []*dom) (tuple []any, inFirst bool, found bool) {
	for i := range s.bits {
		d := s.bits[i] ^ o.bits[i]
		if d == 0 {
			continue
		}
		for p := 0; p < nPts; p++ {
			if d&(1<<uint(p)) == 0 {
				continue
			}
			idx := make([]int, s.n)
			idx[s.n-1] = p
			rest := i
			for c := s.n - 2; c >= 0; c-- {
				idx[c] = rest % nPts
				rest /= nPts
			}
			for c, pi := range idx {
				tuple = append(tuple, doms[c].pts[pi])
			}
			return tuple, s.bits[i]&(1<<uint(p)) != 0, true
		}
	}
	return nil, false, false
}

func psetOf(n int, boxes ...box) *pset {
	s := newPset(n)
	for _, b := range boxes {
		s.add(b)
	}
	return s
}

func rangesString(rs []sql.MySQLRange) []string {
	out := make([]string, len(rs))
	for i, r := range rs {
		out[i] = r.String()
	}
	return out
}

func domNames(doms []*dom) string {
	s := make([]string, len(doms))
	for i, d := range doms {
		s[i] = d.name
	}
	return strings.Join(s, ",")
}
