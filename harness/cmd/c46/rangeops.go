package main

// Multi-column part: MySQLRange / MySQLRangeCollection operations checked by enumeration of all key
// tuples of the domain (16^n tuples, n = 1..3).

import (
	"context"
	"fmt"
	"math/rand"
	"strings"

	"github.com/dolthub/go-mysql-server/sql"

	"verif/harness/g3lib"
)

// rset is a generated range set with its decoded form.
type rset struct {
	doms   []*dom
	ranges []sql.MySQLRange
	boxes  []box
}

func (s *rset) n() int { return len(s.doms) }

func genWexpr(rnd *rand.Rand) wexpr {
	switch x := rnd.Intn(100); {
	case x < 7:
		return wexpr{posAll, posAll} // empty
	case x < 14:
		return wexpr{0, posAll} // all
	case x < 19:
		return wexpr{0, 1} // NULL only
	case x < 25:
		return wexpr{1, posAll} // NOT NULL
	case x < 45: // point
		j := rnd.Intn(nKeys)
		return wexpr{2 + 2*j, 3 + 2*j}
	case x < 55: // half-bounded
		p := 2 + rnd.Intn(14)
		switch rnd.Intn(3) {
		case 0:
			return wexpr{p, posAll}
		case 1:
			return wexpr{1, p}
		}
		return wexpr{0, p}
	}
	lo := rnd.Intn(posAll)
	up := lo + 1 + rnd.Intn(posAll-lo)
	return wexpr{lo, up}
}

func genSet(rnd *rand.Rand, ncols, nranges int) *rset {
	s := &rset{}
	for c := 0; c < ncols; c++ {
		if rnd.Intn(3) == 0 {
			s.doms = append(s.doms, domStr)
		} else {
			s.doms = append(s.doms, domInt)
		}
	}
	for i := 0; i < nranges; i++ {
		rg := make(sql.MySQLRange, ncols)
		for c := 0; c < ncols; c++ {
			w := genWexpr(rnd)
			rg[c] = s.doms[c].expr(w.lo, w.up)
		}
		s.ranges = append(s.ranges, rg)
		s.boxes = append(s.boxes, decodeRange(s.doms, rg))
	}
	return s
}

type collCheck struct {
	op           string
	mustSort     bool
	mustDisjoint bool
}

// checkCollection compares an output list of ranges with the wanted key-tuple set: exact union,
// pairwise disjoint, sorted. Returns the decoded output.
func checkCollection(r *g3lib.Rec, cc collCheck, doms []*dom, in []sql.MySQLRange, want *pset, out []sql.MySQLRange, extra map[string]any) []box {
	n := len(doms)
	r.Eval(1)
	wit := func() map[string]any {
		w := map[string]any{"op": cc.op, "types": domNames(doms), "in": rangesString(in), "out": rangesString(out)}
		for k, v := range extra {
			w[k] = v
		}
		return w
	}
	got := newPset(n)
	var boxes []box
	overlap, unsorted, malformed := false, false, false
	for i, o := range out {
		b := decodeRange(doms, o)
		if !b.ok {
			if len(o) == 0 { // the "no range" placeholder of an emptied collection
				continue
			}
			malformed = true
			continue
		}
		for _, c := range b.c {
			if c.lo > c.up {
				r.Count("out.inverted-column-expr", 1)
			}
		}
		if got.add(b) {
			overlap = true
		}
		if i > 0 && len(boxes) > 0 && cmpBoxes(boxes[len(boxes)-1], b) > 0 {
			unsorted = true
		}
		boxes = append(boxes, b)
	}
	sfx := fmt.Sprintf(":n=%d", n)
	switch {
	case malformed:
		r.Violation(cc.op+":malformed-output"+sfx, wit())
	case !got.equal(want):
		w := wit()
		if t, inGot, ok := got.firstDiff(want, doms); ok {
			w["tuple"] = fmt.Sprint(t)
			if inGot {
				w["tuple_is"] = "in output, not in input"
				r.Violation(cc.op+":gained-keys"+sfx, w)
			} else {
				w["tuple_is"] = "in input, not in output"
				r.Violation(cc.op+":lost-keys"+sfx, w)
			}
		}
	case cc.mustDisjoint && overlap:
		r.Violation(cc.op+":output-ranges-overlap"+sfx, wit())
	case cc.mustSort && unsorted:
		r.Violation(cc.op+":output-not-sorted"+sfx, wit())
	}
	return boxes
}

func countOverlapPairs(n int, boxes []box) int {
	k := 0
	for i := range boxes {
		for j := i + 1; j < len(boxes); j++ {
			ov := !boxes[i].empty() && !boxes[j].empty()
			for c := 0; c < n && ov; c++ {
				if boxes[i].m[c]&boxes[j].m[c] == 0 {
					ov = false
				}
			}
			if ov {
				k++
			}
		}
	}
	return k
}

// checkROL runs RemoveOverlappingRanges on a set.
func checkROL(r *g3lib.Rec, ctx context.Context, s *rset, sample bool) {
	n := s.n()
	want := psetOf(n, s.boxes...)
	in := append([]sql.MySQLRange(nil), s.ranges...) // the function appends to its argument slice
	out, err := sql.RemoveOverlappingRanges(ctx, in...)
	if err != nil {
		r.Eval(1)
		reportROLError(r, ctx, s, err)
		return
	}
	boxes := checkCollection(r, collCheck{"rol", true, true}, s.doms, s.ranges, want, out, nil)
	ov := countOverlapPairs(n, s.boxes)
	if ov > 0 {
		r.Count("rol.sets-with-overlap", 1)
	}
	if len(out) > len(s.ranges) {
		r.Count("rol.sets-split-into-more-ranges", 1)
	}
	r.Distinct(fmt.Sprintf("rol|n=%d|in=%d|out=%d|ovpairs=%d", n, len(s.ranges), len(boxes), min(ov, 6)))
	if sample {
		r.Sample(map[string]any{"op": "RemoveOverlappingRanges", "types": domNames(s.doms), "in": rangesString(s.ranges), "out": rangesString(out),
			"key_tuples_in_union": want.count(), "compared": "per-tuple membership over the 16^n domain, pairwise disjointness, order"})
	}
}

func boxRel(n int, a, b box) string {
	pa, pb := psetOf(n, a), psetOf(n, b)
	switch {
	case pa.isEmpty() && pb.isEmpty():
		return "both-empty"
	case pa.isEmpty():
		return "a-empty"
	case pb.isEmpty():
		return "b-empty"
	case pa.equal(pb):
		return "equal"
	case pa.and(pb).isEmpty():
		return "disjoint"
	case pa.subsetOf(pb):
		return "a-in-b"
	case pb.subsetOf(pa):
		return "b-in-a"
	}
	return "partial"
}

// checkPair checks every two-operand operation of MySQLRange on (a, b).
func checkPair(r *g3lib.Rec, ctx context.Context, doms []*dom, a, b sql.MySQLRange) {
	n := len(doms)
	ba, bb := decodeRange(doms, a), decodeRange(doms, b)
	pa, pb := psetOf(n, ba), psetOf(n, bb)
	rel := boxRel(n, ba, bb)
	tag := fmt.Sprintf("n=%d|%s", n, rel)
	wit := func(op string, more map[string]any) map[string]any {
		w := map[string]any{"op": op, "types": domNames(doms), "a": a.String(), "b": b.String(), "relation": rel}
		for k, v := range more {
			w[k] = v
		}
		return w
	}
	sfx := fmt.Sprintf(":n=%d", n)

	// Intersect = pointwise AND
	x, err := a.Intersect(ctx, b)
	r.Eval(1)
	r.Distinct("intersect|" + tag)
	if err != nil {
		r.Violation("intersect:error"+sfx, wit("Intersect", map[string]any{"err": err.Error()}))
	} else {
		bx := decodeRange(doms, x)
		if !bx.ok || !psetOf(n, bx).equal(pa.and(pb)) {
			r.Violation("intersect:wrong-key-set"+sfx, wit("Intersect", map[string]any{"result": x.String()}))
		}
	}
	// TryMerge: when ok, exactly the union
	m, ok, err := a.TryMerge(ctx, b)
	r.Eval(1)
	r.Distinct(fmt.Sprintf("trymerge|%s|%v", tag, ok))
	if err != nil {
		r.Violation("trymerge:error"+sfx, wit("TryMerge", map[string]any{"err": err.Error()}))
	} else if ok {
		bm := decodeRange(doms, m)
		if !bm.ok || !psetOf(n, bm).equal(psetOf(n, ba, bb)) {
			r.Violation("trymerge:wrong-key-set"+sfx, wit("TryMerge", map[string]any{"result": m.String()}))
		}
	}
	// RemoveOverlap: always a disjoint cover of the union
	parts, ok, err := a.RemoveOverlap(ctx, b)
	if err != nil {
		r.Eval(1)
		r.Violation("removeoverlap:error"+sfx, wit("RemoveOverlap", map[string]any{"err": err.Error()}))
	} else {
		r.Distinct(fmt.Sprintf("removeoverlap|%s|%v|parts=%d", tag, ok, len(parts)))
		checkCollection(r, collCheck{"removeoverlap", false, true}, doms, []sql.MySQLRange{a, b}, psetOf(n, ba, bb), parts, map[string]any{"ok": ok})
		if len(parts) > 2 {
			r.Count("removeoverlap.split", 1)
		}
	}
	// predicates
	inter := !pa.and(pb).isEmpty()
	got, err := a.Overlaps(ctx, b)
	r.Eval(1)
	r.Distinct(fmt.Sprintf("overlaps|%s|%v", tag, got))
	if err != nil {
		r.Violation("overlaps:error"+sfx, wit("Overlaps", map[string]any{"err": err.Error()}))
	} else if got != inter {
		r.Violation("overlaps:wrong-flag"+sfx, wit("Overlaps", map[string]any{"got": got}))
	}
	got, err = a.IsConnected(ctx, b)
	r.Eval(1)
	if err != nil {
		r.Violation("isconnected:error"+sfx, wit("IsConnected", map[string]any{"err": err.Error()}))
	} else if got != inter {
		r.Violation("isconnected:wrong-flag"+sfx, wit("IsConnected", map[string]any{"got": got}))
	}
	sub, err := a.IsSubsetOf(ctx, b)
	r.Eval(1)
	r.Distinct(fmt.Sprintf("issubset|%s|%v", tag, sub))
	if err != nil {
		r.Violation("issubsetof:error"+sfx, wit("IsSubsetOf", map[string]any{"err": err.Error()}))
	} else if sub && !pa.subsetOf(pb) {
		r.Violation("issubsetof:true-but-not-subset"+sfx, wit("IsSubsetOf", nil))
	} else if !sub && !ba.empty() && pa.subsetOf(pb) {
		r.Violation("issubsetof:false-but-subset"+sfx, wit("IsSubsetOf", nil))
	}
	sup, err := a.IsSupersetOf(ctx, b)
	r.Eval(1)
	if err != nil {
		r.Violation("issupersetof:error"+sfx, wit("IsSupersetOf", map[string]any{"err": err.Error()}))
	} else if sup && !pb.subsetOf(pa) {
		r.Violation("issupersetof:true-but-not-superset"+sfx, wit("IsSupersetOf", nil))
	} else if !sup && !bb.empty() && pb.subsetOf(pa) {
		r.Violation("issupersetof:false-but-superset"+sfx, wit("IsSupersetOf", nil))
	}
	// Compare / Equals follow the cut order
	cmp, err := a.Compare(ctx, b)
	r.Eval(1)
	if err != nil {
		r.Violation("compare:error"+sfx, wit("Compare", map[string]any{"err": err.Error()}))
	} else if sign(cmp) != cmpBoxes(ba, bb) {
		r.Violation("compare:wrong-order"+sfx, wit("Compare", map[string]any{"got": cmp, "want": cmpBoxes(ba, bb)}))
	}
	eq, err := a.Equals(ctx, b)
	r.Eval(1)
	if err != nil {
		r.Violation("equals:error"+sfx, wit("Equals", map[string]any{"err": err.Error()}))
	} else if eq != (ba.key() == bb.key()) {
		r.Violation("equals:wrong-flag"+sfx, wit("Equals", map[string]any{"got": eq}))
	}
}

// checkCollIntersect: (A1 ∪ … ) ∩ (B1 ∪ …) through MySQLRangeCollection.Intersect.
func checkCollIntersect(r *g3lib.Rec, ctx context.Context, s *rset) {
	if len(s.ranges) < 2 {
		return
	}
	n := s.n()
	h := len(s.ranges) / 2
	A := sql.MySQLRangeCollection(append([]sql.MySQLRange(nil), s.ranges[:h]...))
	B := sql.MySQLRangeCollection(append([]sql.MySQLRange(nil), s.ranges[h:]...))
	want := psetOf(n, s.boxes[:h]...).and(psetOf(n, s.boxes[h:]...))
	out, err := A.Intersect(ctx, B)
	if err != nil {
		r.Eval(1)
		if strings.HasPrefix(err.Error(), "overlapping ranges") {
			// Collection.Intersect = RemoveOverlappingRanges over the pairwise intersections: classify the
			// error on exactly that intermediate input
			mid := &rset{doms: s.doms}
			for _, ra := range A {
				for _, rb := range B {
					if x, e2 := ra.Intersect(ctx, rb); e2 == nil && len(x) > 0 {
						mid.ranges = append(mid.ranges, x)
						mid.boxes = append(mid.boxes, decodeRange(s.doms, x))
					}
				}
			}
			if _, e3 := sql.RemoveOverlappingRanges(ctx, append([]sql.MySQLRange(nil), mid.ranges...)...); e3 != nil {
				reportROLError(r, ctx, mid, e3)
				return
			}
		}
		r.Violation(fmt.Sprintf("collintersect:error:n=%d", n), map[string]any{"types": domNames(s.doms), "a": rangesString(A), "b": rangesString(B), "err": err.Error()})
		return
	}
	r.Distinct(fmt.Sprintf("collintersect|n=%d|a=%d|b=%d|out=%d", n, len(A), len(B), len(out)))
	checkCollection(r, collCheck{"collintersect", true, true}, s.doms, s.ranges, want, out, map[string]any{"a": rangesString(A), "b": rangesString(B)})
}

// checkSort: SortRanges returns a sorted permutation.
func checkSort(r *g3lib.Rec, ctx context.Context, s *rset) {
	out, err := sql.SortRanges(ctx, s.ranges...)
	r.Eval(1)
	if err != nil {
		r.Violation("sortranges:error", map[string]any{"in": rangesString(s.ranges), "err": err.Error()})
		return
	}
	cnt := map[string]int{}
	for _, b := range s.boxes {
		cnt[b.key()]++
	}
	var prev *box
	bad := len(out) != len(s.ranges)
	for _, o := range out {
		b := decodeRange(s.doms, o)
		cnt[b.key()]--
		if prev != nil && cmpBoxes(*prev, b) > 0 {
			bad = true
		}
		bb := b
		prev = &bb
	}
	for _, v := range cnt {
		if v != 0 {
			bad = true
		}
	}
	if bad {
		r.Violation(fmt.Sprintf("sortranges:not-a-sorted-permutation:n=%d", s.n()), map[string]any{"in": rangesString(s.ranges), "out": rangesString(out)})
	}
}

// checkIntersectRanges: IntersectRanges(r1, r2, …) is the pointwise AND of its arguments (nil = empty).
func checkIntersectRanges(r *g3lib.Rec, ctx context.Context, s *rset) (mode string, wit map[string]any) {
	n := s.n()
	want := psetOf(n, s.boxes[0])
	for _, b := range s.boxes[1:] {
		want = want.and(psetOf(n, b))
	}
	out := sql.IntersectRanges(ctx, s.ranges...)
	got := newPset(n)
	if out != nil {
		got = psetOf(n, decodeRange(s.doms, out))
	}
	if !got.equal(want) {
		mode := "wrong-key-set"
		if got.equal(psetOf(n, s.boxes[0])) {
			mode = "returns-first-operand-not-the-intersection"
		}
		return mode, map[string]any{"op": "IntersectRanges", "types": domNames(s.doms), "in": rangesString(s.ranges), "out": fmt.Sprint(out), "want_tuples": want.count(), "got_tuples": got.count()}
	}
	return "", nil
}
