package main

// Interval-tree part: histories of Insert / Remove / FindConnections / GetRangeCollection on a
// MySQLRangeColumnExprTree against a list model. The tree's nodes are reached through its exported
// Iterator() (the node type is unexported but its fields are exported, so they are read by
// reflection); node colours come from the tree's String().
//
// Verdict-carrying: (1) the ranges stored in the tree (walked structurally) are exactly the model's,
// (2) the in-order walk is sorted (search-tree order, which GetRangeCollection's order depends on),
// (3) GetRangeCollection denotes the union of the model's ranges, sorted, pairwise disjoint,
// (4) FindConnections returns only stored ranges and every stored range that shares a key tuple
// with the probe. Max-upper-bound and red-black invariants are *measured* (evidence counters): they
// are internal, and only their observable consequence (4) is part of the property.

import (
	"context"
	"encoding/json"
	"fmt"
	"math/rand"
	"os"
	"reflect"
	"regexp"
	"strings"

	"github.com/dolthub/go-mysql-server/sql"

	"verif/harness/g3lib"
)

type tnode struct {
	lo, up, maxUp int
	ok            bool
	left, right   *tnode
	inner         *ttree
	red           bool
	parentOK      bool
}

// histOp is one scripted tree operation: kind new/insert/remove and the (lower, upper) cut positions
// per column.
type histOp struct {
	Kind string   `json:"kind"`
	Pos  [][2]int `json:"pos"`
}

func posPairs(b box) [][2]int {
	out := make([][2]int, len(b.c))
	for i, c := range b.c {
		out[i] = [2]int{c.lo, c.up}
	}
	return out
}

type ttree struct {
	root  *tnode
	nodes int
}

var colorRe = regexp.MustCompile(`color: (\d)`)

// snapshot reads a (sub)tree structurally.
func snapshot(ctx context.Context, doms []*dom, col int, tree *sql.MySQLRangeColumnExprTree) (*ttree, error) {
	if tree == nil {
		return nil, nil
	}
	it := tree.Iterator()
	first, err := it.Next(ctx)
	if err != nil {
		return nil, err
	}
	v := reflect.ValueOf(first)
	if v.IsNil() {
		return &ttree{}, nil
	}
	for {
		p := v.Elem().FieldByName("Parent")
		if p.IsNil() {
			break
		}
		v = p
	}
	t := &ttree{}
	// colours: String() lists the nodes in reverse in-order
	var colors []bool
	for _, m := range colorRe.FindAllStringSubmatch(tree.String(), -1) {
		colors = append(colors, m[1] == "1")
	}
	var rev []*tnode
	var walk func(v, parent reflect.Value) (*tnode, error)
	walk = func(v, parent reflect.Value) (*tnode, error) {
		if v.IsNil() {
			return nil, nil
		}
		e := v.Elem()
		n := &tnode{}
		t.nodes++
		d := doms[col]
		cut := func(name string) (int, bool) {
			c, _ := e.FieldByName(name).Interface().(sql.MySQLRangeCut)
			if c == nil {
				return -1, false
			}
			return d.posOf(c)
		}
		var ok1, ok2, ok3 bool
		n.lo, ok1 = cut("LowerBound")
		n.up, ok2 = cut("UpperBound")
		n.maxUp, ok3 = cut("MaxUpperbound")
		n.ok = ok1 && ok2 && ok3
		n.parentOK = e.FieldByName("Parent").Pointer() == parent.Pointer()
		var err error
		if n.right, err = walk(e.FieldByName("Right"), v); err != nil {
			return nil, err
		}
		rev = append(rev, n)
		if n.left, err = walk(e.FieldByName("Left"), v); err != nil {
			return nil, err
		}
		if in := e.FieldByName("Inner"); !in.IsNil() {
			if col+1 >= len(doms) {
				return nil, fmt.Errorf("inner tree below the last column")
			}
			n.inner, err = snapshot(ctx, doms, col+1, in.Interface().(*sql.MySQLRangeColumnExprTree))
			if err != nil {
				return nil, err
			}
		}
		return n, nil
	}
	var err2 error
	t.root, err2 = walk(v, reflect.Zero(v.Type()))
	if err2 != nil {
		return nil, err2
	}
	if len(colors) == len(rev) {
		for i, n := range rev {
			n.red = colors[i]
		}
	}
	return t, nil
}

type treeStats struct {
	unsorted, badParent, badCut             int
	maxUnder, maxOver, redRed, blackUneven  int
	redRoot, nodes, maxDepth, twoChildNodes int
}

// contents lists the stored ranges (as cut-position keys) and gathers the structural measurements.
func (t *ttree) contents(prefix []cexpr, ncols int, out map[string]int, st *treeStats) {
	if t == nil || t.root == nil {
		return
	}
	if t.root.red {
		st.redRoot++
	}
	var prev *tnode
	var inorder func(n *tnode, depth int) (maxUp int, bh int)
	inorder = func(n *tnode, depth int) (int, int) {
		if n == nil {
			return -1, 1
		}
		if depth > st.maxDepth {
			st.maxDepth = depth
		}
		st.nodes++
		if !n.ok {
			st.badCut++
		}
		if !n.parentOK {
			st.badParent++
		}
		if n.left != nil && n.right != nil {
			st.twoChildNodes++
		}
		lm, lb := inorder(n.left, depth+1)
		if prev != nil && (prev.lo > n.lo || (prev.lo == n.lo && prev.up >= n.up)) {
			st.unsorted++
		}
		prev = n
		cur := append(append([]cexpr(nil), prefix...), cexpr{n.lo, n.up, n.ok})
		if n.inner != nil {
			n.inner.contents(cur, ncols, out, st)
		} else {
			out[box{c: cur}.key()]++
		}
		rm, rb := inorder(n.right, depth+1)
		sub := max(n.up, lm, rm)
		if n.maxUp < sub {
			st.maxUnder++
		} else if n.maxUp > sub {
			st.maxOver++
		}
		if n.red && ((n.left != nil && n.left.red) || (n.right != nil && n.right.red)) {
			st.redRed++
		}
		if lb != rb {
			st.blackUneven++
		}
		bh := lb
		if !n.red {
			bh++
		}
		return sub, bh
	}
	inorder(t.root, 1)
}

func (t *ttree) shape() string {
	if t == nil {
		return ""
	}
	var sb strings.Builder
	var f func(n *tnode)
	f = func(n *tnode) {
		if n == nil {
			sb.WriteByte('.')
			return
		}
		sb.WriteByte('(')
		f(n.left)
		if n.red {
			sb.WriteByte('r')
		} else {
			sb.WriteByte('b')
		}
		f(n.right)
		sb.WriteByte(')')
	}
	f(t.root)
	return sb.String()
}

// treeHistory runs one history. disjointOnly: the stored ranges are kept pairwise disjoint (the way
// RemoveOverlappingRanges uses the tree) and every check is a verdict; otherwise arbitrary ranges are
// stored and only measurements are taken.
func treeHistory(r *g3lib.Rec, ctx context.Context, rnd *rand.Rand, ncols, nops int, disjointOnly bool) {
	var doms []*dom
	for c := 0; c < ncols; c++ {
		if rnd.Intn(3) == 0 {
			doms = append(doms, domStr)
		} else {
			doms = append(doms, domInt)
		}
	}
	types := make([]sql.Type, ncols)
	for c := range doms {
		types[c] = doms[c].typ
	}
	genRange := func() (sql.MySQLRange, box) {
		rg := make(sql.MySQLRange, ncols)
		for c := 0; c < ncols; c++ {
			var w wexpr
			if rnd.Intn(3) > 0 { // narrow expressions so that many disjoint ranges fit
				lo := rnd.Intn(posAll)
				w = wexpr{lo, min(posAll, lo+1+rnd.Intn(3))}
			} else {
				w = genWexpr(rnd)
			}
			rg[c] = doms[c].expr(w.lo, w.up)
		}
		return rg, decodeRange(doms, rg)
	}
	type stored struct {
		rg sql.MySQLRange
		b  box
	}
	model := map[string]stored{}
	var hist []string
	modelUnion := func() *pset {
		s := newPset(ncols)
		for _, m := range model {
			s.add(m.b)
		}
		return s
	}
	fits := func(b box) bool {
		if !disjointOnly {
			return true
		}
		if b.empty() {
			return rnd.Intn(4) == 0
		}
		pb := psetOf(ncols, b)
		for _, m := range model {
			if !psetOf(ncols, m.b).and(pb).isEmpty() {
				return false
			}
		}
		return true
	}
	var first sql.MySQLRange
	var fb box
	for {
		first, fb = genRange()
		if fits(fb) {
			break
		}
	}
	tree, err := sql.NewMySQLRangeColumnExprTree(first, types)
	if err != nil {
		r.Violation("tree:new:error", map[string]any{"range": first.String(), "err": err.Error()})
		return
	}
	model[fb.key()] = stored{first, fb}
	hist = append(hist, "new "+first.String())
	ops := []histOp{{"new", posPairs(fb)}}
	mode := "disjoint"
	if !disjointOnly {
		mode = "any"
	}
	violate := func(sig string, more map[string]any) {
		w := map[string]any{"types": domNames(doms), "history": append([]string(nil), hist...), "tree": tree.String()}
		for k, v := range more {
			w[k] = v
		}
		if disjointOnly {
			r.Violation(fmt.Sprintf("tree:%s:n=%d", sig, ncols), w)
		} else {
			r.Count("tree.anycontent."+sig, 1)
		}
	}

	observe := func() bool {
		snap, err := snapshot(ctx, doms, 0, tree)
		if err != nil {
			violate("snapshot-error", map[string]any{"err": err.Error()})
			return false
		}
		got := map[string]int{}
		var st treeStats
		if snap != nil {
			snap.contents(nil, ncols, got, &st)
		}
		r.Eval(1)
		same := len(got) == len(model)
		for k, c := range got {
			if _, ok := model[k]; !ok || c != 1 {
				same = false
			}
		}
		if !same {
			var want []string
			for _, m := range model {
				want = append(want, m.rg.String())
			}
			violate("stored-ranges-differ-from-model", map[string]any{"model": want, "stored_keys": fmt.Sprint(got)})
			return false
		}
		if st.unsorted > 0 || st.badCut > 0 {
			violate("search-order-broken", map[string]any{"unsorted": st.unsorted, "bad_cut": st.badCut})
			return false
		}
		r.Count("tree."+mode+".maxupper-underestimate", int64(st.maxUnder))
		r.Count("tree."+mode+".maxupper-overestimate", int64(st.maxOver))
		r.Count("tree."+mode+".red-red", int64(st.redRed))
		r.Count("tree."+mode+".black-height-uneven", int64(st.blackUneven))
		r.Count("tree."+mode+".red-root", int64(st.redRoot))
		r.Count("tree."+mode+".bad-parent-pointer", int64(st.badParent))
		r.Count("tree."+mode+".observations", 1)
		if st.maxDepth >= 4 {
			r.Count("tree."+mode+".depth>=4", 1)
		}
		if disjointOnly && snap != nil {
			r.Distinct(fmt.Sprintf("tree|n=%d|%s", ncols, snap.shape()))
		}

		// GetRangeCollection
		coll, err := tree.GetRangeCollection(ctx)
		if err != nil {
			r.Eval(1)
			violate("getrangecollection:error", map[string]any{"err": err.Error()})
			return false
		}
		if disjointOnly {
			var in []sql.MySQLRange
			for _, m := range model {
				in = append(in, m.rg)
			}
			checkCollection(r, collCheck{"tree:getrangecollection", true, true}, doms, in, modelUnion(), coll, map[string]any{"history": append([]string(nil), hist...)})
		}

		// FindConnections probes
		for q := 0; q < 4; q++ {
			probe, pb := genRange()
			conns, err := tree.FindConnections(ctx, probe, 0)
			r.Eval(1)
			if err != nil {
				violate("findconnections:error", map[string]any{"probe": probe.String(), "err": err.Error()})
				return false
			}
			seen := map[string]bool{}
			for _, c := range conns {
				cb := decodeRange(doms, c)
				if _, ok := model[cb.key()]; !ok || !cb.ok {
					violate("findconnections:returned-range-not-stored", map[string]any{"probe": probe.String(), "returned": c.String()})
					return false
				}
				seen[cb.key()] = true
			}
			pp := psetOf(ncols, pb)
			for k, m := range model {
				if seen[k] {
					continue
				}
				if !psetOf(ncols, m.b).and(pp).isEmpty() {
					w := map[string]any{"probe": probe.String(), "missed": m.rg.String(), "returned": rangesString(conns)}
					if disjointOnly && ncols >= 2 && wronglyPruned(snap, pb, 0) {
						w["types"], w["history"], w["tree"] = domNames(doms), append([]string(nil), hist...), tree.String()
						w["ops"], w["probe_pos"], w["missed_pos"] = append([]histOp(nil), ops...), posPairs(pb), posPairs(m.b)
						if os.Getenv("C46_DUMP") != "" {
							j, _ := json.Marshal(w)
							fmt.Fprintf(os.Stderr, "DUMP %d %s\n", len(ops), j)
						}
						r.Violation(sigTreeMaxUpper, w)
					} else {
						violate("findconnections:missed-overlapping-range", w)
					}
					return false
				}
				// connected (touching) in every column but not returned: measured only
				touch := true
				for c := 0; c < ncols; c++ {
					if !(pb.c[c].lo <= m.b.c[c].up && m.b.c[c].lo <= pb.c[c].up) {
						touch = false
					}
				}
				if touch {
					r.Count("tree."+mode+".findconnections-missed-touching", 1)
				}
			}
			if len(conns) > 0 {
				r.Count("tree."+mode+".findconnections-nonempty", 1)
			}
		}
		return true
	}

	if !observe() {
		return
	}
	for op := 0; op < nops; op++ {
		if rnd.Intn(100) < 62 || len(model) == 0 {
			rg, b := genRange()
			if !fits(b) {
				continue
			}
			hist = append(hist, "insert "+rg.String())
			ops = append(ops, histOp{"insert", posPairs(b)})
			before, _ := snapshot(ctx, doms, 0, tree)
			if err := tree.Insert(ctx, rg); err != nil {
				violate("insert:error", map[string]any{"err": err.Error()})
				return
			}
			// insert's own duty, whatever state rotations and removals left behind (known finding): when the new
			// range became a new leaf and the tree was not restructured, every node it descended through records an
			// upper bound at least as large as the new one
			if after, err := snapshot(ctx, doms, 0, tree); err == nil && before != nil && after != nil {
				if path, pure := pureLeafInsert(before.root, after.root, b.c[0].lo, b.c[0].up); pure {
					r.Count("tree."+mode+".insert-as-new-leaf-without-restructuring", 1)
					for _, a := range path {
						if a.maxUp < b.c[0].up {
							r.Violation(fmt.Sprintf("tree:insert:ancestor-maxupperbound-below-inserted-upper-bound:n=%d", ncols),
								map[string]any{"types": domNames(doms), "history": append([]string(nil), hist...), "tree": tree.String(), "ancestor_max_upper": a.maxUp, "inserted_upper": b.c[0].up})
							return
						}
					}
				}
			}
			model[b.key()] = stored{rg, b}
			r.Count("tree."+mode+".insert", 1)
		} else {
			// remove a stored range (mostly) or an absent one
			var rg sql.MySQLRange
			var b box
			if rnd.Intn(8) == 0 {
				rg, b = genRange()
			} else {
				k := rnd.Intn(len(model))
				keys := make([]string, 0, len(model))
				for key := range model {
					keys = append(keys, key)
				}
				sortStrings(keys)
				rg, b = model[keys[k]].rg, model[keys[k]].b
			}
			hist = append(hist, "remove "+rg.String())
			ops = append(ops, histOp{"remove", posPairs(b)})
			if err := tree.Remove(ctx, rg); err != nil {
				violate("remove:error", map[string]any{"err": err.Error()})
				return
			}
			delete(model, b.key())
			r.Count("tree."+mode+".remove", 1)
		}
		if !observe() {
			return
		}
	}
}

// pureLeafInsert reports whether after equals before plus exactly one new leaf (lo, up) at the first level, and
// returns the nodes of after on the way down to it.
func pureLeafInsert(before, after *tnode, lo, up int) ([]*tnode, bool) {
	var path []*tnode
	found := false
	var walk func(b, a *tnode, anc []*tnode) bool
	walk = func(b, a *tnode, anc []*tnode) bool {
		switch {
		case b == nil && a == nil:
			return true
		case b == nil:
			if found || a.lo != lo || a.up != up || a.left != nil || a.right != nil {
				return false
			}
			found = true
			path = append([]*tnode(nil), anc...)
			return true
		case a == nil || b.lo != a.lo || b.up != a.up:
			return false
		}
		next := append(append([]*tnode(nil), anc...), a)
		return walk(b.left, a.left, next) && walk(b.right, a.right, next)
	}
	ok := walk(before, after, nil)
	return path, ok && found
}

func sortStrings(s []string) {
	for i := 1; i < len(s); i++ {
		for j := i; j > 0 && s[j] < s[j-1]; j-- {
			s[j], s[j-1] = s[j-1], s[j]
		}
	}
}
