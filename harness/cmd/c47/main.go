// C47 — in-memory indexed sets behave like sets.
//
// Reference model: a bag (Go slice) of elements with the equality the container was given. The
// pinned in_mem_table tests document that the container permits duplicates (Put never rejects; Count
// counts occurrences; Remove and RemoveMany remove every equal occurrence), so the model is a bag
// with remove-all-equal; half of the histories additionally keep *set discipline* (never Put an element
// equal to a present one), where the bag model and a strict set model coincide.
//
// After every operation of a history the whole observable state is audited against the model: for
// every keyer and every key of the small key space GetMany (as a multiset), Get for every possible
// element, Count, VisitEntries. Return values of Remove / Get are judged (found ⇔ present).
//
// Layers: (1) IndexedSet API, (2) MultiMap API, (3) IndexedSetTable / MultiIndexedSetTable and their
// editors (Insert / Update / Delete / Truncate through sql.RowInserter… with row ↔ element
// conversions, wrapped by the locking editors), (4) the mysql.user and mysql.role_edges grant tables
// through SQL DML.
package main

import (
	"fmt"
	"sort"

	"sync"

	"github.com/dolthub/go-mysql-server/sql"
	imt "github.com/dolthub/go-mysql-server/sql/in_mem_table"
	"github.com/dolthub/go-mysql-server/sql/types"

	"verif/harness/core"
	"verif/harness/g2lib"
)

// elem: equality is (a, b); tag tells occurrences apart without taking part in equality (the
// "sidecar" of the pinned tests).
type elem struct {
	a, b int
	tag  int
}

func eq(x, y *elem) bool { return x.a == y.a && x.b == y.b }

type keyA struct{}
type keyB struct{}
type keyAB struct{}
type abKey struct{ a, b int }

func (keyA) GetKey(e *elem) any  { return e.a }
func (keyB) GetKey(e *elem) any  { return e.b }
func (keyAB) GetKey(e *elem) any { return abKey{e.a, e.b} }

const space = 4 // a, b ∈ 0..space-1

func (e *elem) String() string { return fmt.Sprintf("%d/%d#%d", e.a, e.b, e.tag) }

func render(es []*elem) []string {
	out := make([]string, 0, len(es))
	for _, e := range es {
		if e == nil {
			out = append(out, "<nil>")
		} else {
			out = append(out, e.String())
		}
	}
	sort.Strings(out)
	return out
}

// bag is the reference model.
type bag struct{ es []*elem }

func (m *bag) put(e *elem) { m.es = append(m.es, e) }
func (m *bag) has(e *elem) bool {
	for _, x := range m.es {
		if eq(x, e) {
			return true
		}
	}
	return false
}
func (m *bag) remove(e *elem) bool {
	found := false
	var keep []*elem
	for _, x := range m.es {
		if eq(x, e) {
			found = true
		} else {
			keep = append(keep, x)
		}
	}
	m.es = keep
	return found
}
func (m *bag) removeWhere(pred func(*elem) bool) {
	var keep []*elem
	for _, x := range m.es {
		if !pred(x) {
			keep = append(keep, x)
		}
	}
	m.es = keep
}
func (m *bag) where(pred func(*elem) bool) []*elem {
	var out []*elem
	for _, x := range m.es {
		if pred(x) {
			out = append(out, x)
		}
	}
	return out
}

type history struct {
	ops []string
}

func (h *history) add(f string, a ...any) { h.ops = append(h.ops, fmt.Sprintf(f, a...)) }

func main() {
	r := core.NewRun("C47", "exploration",
		"one evaluation = one operation of a seeded history followed by a full audit of the container against a bag model (every keyer × every key, Get of every element, Count, VisitEntries); distinct = (layer, mode, operation, outcome class)")
	r.Assume("equal elements have equal keys under every keyer (as in the pinned tests and in mysql_db: keys are functions of the fields the equality looks at)")
	r.Assume("duplicates are permitted by the container (pinned test TestIndexedSetCount): the model is a bag in which Remove / RemoveMany delete every equal occurrence (pinned TestIndexedSetRemove / RemoveMany)")
	r.Assume("editor layer: Update/Delete are called with rows that exist, and Update never moves a row onto another existing primary key (the editors document that as the caller's duty)")
	indexedSetHistories(r)
	multiMapHistories(r)
	tableHistories(r)
	multiTableHistories(r)
	grantTablesSQL(r)
	r.Finish()
}

// auditSet compares the whole observable state of an IndexedSet with the model.
func auditSet(r *core.Run, set imt.IndexedSet[*elem], keyers []imt.Keyer[*elem], m *bag, h *history, layer, mode string) bool {
	fail := func(sig string, extra map[string]any) bool {
		w := map[string]any{"layer": layer, "mode": mode, "history": h.ops, "model": render(m.es)}
		for k, v := range extra {
			w[k] = v
		}
		r.Violation(sig+":"+layer+":"+mode, w)
		return false
	}
	var p *g2lib.Panic
	// Count
	var cnt int
	if p = g2lib.Guard(func() { cnt = set.Count() }); p != nil {
		return fail(p.Sig(), map[string]any{"call": "Count", "panic": p.Value})
	}
	if cnt != len(m.es) {
		return fail("count-differs-from-model", map[string]any{"count": cnt, "expected": len(m.es)})
	}
	// VisitEntries
	var visited []*elem
	if p = g2lib.Guard(func() { set.VisitEntries(func(e *elem) { visited = append(visited, e) }) }); p != nil {
		return fail(p.Sig(), map[string]any{"call": "VisitEntries", "panic": p.Value})
	}
	if !core.SameStrings(render(visited), render(m.es)) {
		return fail("visitentries-differs-from-model", map[string]any{"visited": render(visited)})
	}
	// every keyer × every key
	for ki, k := range keyers {
		var keys []any
		var preds []func(*elem) bool
		switch k.(type) {
		case keyA:
			for a := 0; a < space; a++ {
				a := a
				keys = append(keys, a)
				preds = append(preds, func(e *elem) bool { return e.a == a })
			}
		case keyB:
			for b := 0; b < space; b++ {
				b := b
				keys = append(keys, b)
				preds = append(preds, func(e *elem) bool { return e.b == b })
			}
		case keyAB:
			for a := 0; a < space; a++ {
				for b := 0; b < space; b++ {
					a, b := a, b
					keys = append(keys, abKey{a, b})
					preds = append(preds, func(e *elem) bool { return e.a == a && e.b == b })
				}
			}
		}
		for i, key := range keys {
			var got []*elem
			if p = g2lib.Guard(func() { got = set.GetMany(k, key) }); p != nil {
				return fail(p.Sig(), map[string]any{"call": "GetMany", "panic": p.Value})
			}
			want := m.where(preds[i])
			if !core.SameStrings(render(got), render(want)) {
				return fail("getmany-differs-from-model", map[string]any{"keyer_index": ki, "keyer": fmt.Sprintf("%T", k), "key": fmt.Sprint(key), "got": render(got), "expected": render(want)})
			}
			// the result belongs to the caller: scribbling on it must not reach the container
			for j := range got {
				got[j] = nil
			}
		}
	}
	// Get of every possible element
	for a := 0; a < space; a++ {
		for b := 0; b < space; b++ {
			probe := &elem{a, b, -1}
			var res *elem
			var found bool
			if p = g2lib.Guard(func() { res, found = set.Get(probe) }); p != nil {
				return fail(p.Sig(), map[string]any{"call": "Get", "panic": p.Value})
			}
			if found != m.has(probe) {
				return fail("get-found-differs-from-model", map[string]any{"probe": probe.String(), "found": found})
			}
			if found && (res == nil || !eq(res, probe) || res.tag < 0) {
				return fail("get-returns-wrong-element", map[string]any{"probe": probe.String(), "returned": fmt.Sprint(res)})
			}
			if !found && res != nil {
				return fail("get-returns-element-when-not-found", map[string]any{"probe": probe.String(), "returned": fmt.Sprint(res)})
			}
		}
	}
	return true
}

func indexedSetHistories(r *core.Run) {
	n := r.N(5000, 200000)
	per := 50
	keyerSets := [][]imt.Keyer[*elem]{
		{keyA{}, keyB{}},
		{keyAB{}, keyA{}, keyB{}},
		{keyB{}},
		{keyA{}, keyAB{}},
	}
	r.Parallel("indexedset", (n+per-1)/per, func(w int) {
		rnd := r.Rand("indexedset", w)
		for c := 0; c < per; c++ {
			keyers := keyerSets[rnd.Intn(len(keyerSets))]
			mode := "set-discipline"
			if rnd.Intn(2) == 0 {
				mode = "with-duplicates"
			}
			set := imt.NewIndexedSet[*elem](eq, keyers)
			m := &bag{}
			h := &history{}
			h.add("keyers=%T mode=%s", keyers, mode)
			tag := 0
			ok := true
			for step := 0; step < 60 && ok; step++ {
				e := &elem{rnd.Intn(space), rnd.Intn(space), 0}
				op := rnd.Intn(100)
				var p *g2lib.Panic
				opName, outcome := "", ""
				switch {
				case op < 40:
					opName = "Put"
					if mode == "set-discipline" && m.has(e) {
						outcome = "skipped-equal-present"
						break
					}
					tag++
					e.tag = tag
					h.add("Put(%s)", e)
					p = g2lib.Guard(func() { set.Put(e) })
					if m.has(e) {
						outcome = "duplicate"
					} else {
						outcome = "new"
					}
					m.put(e)
				case op < 62:
					opName = "Remove"
					e.tag = -1
					h.add("Remove(%s)", e)
					var res *elem
					var found bool
					p = g2lib.Guard(func() { res, found = set.Remove(e) })
					want := m.remove(e)
					outcome = fmt.Sprintf("found=%v", want)
					if p == nil && found != want {
						r.Violation("remove-found-differs-from-model:indexedset:"+mode, map[string]any{"history": h.ops, "found": found, "expected": want})
						ok = false
					} else if p == nil && found && (res == nil || !eq(res, e)) {
						r.Violation("remove-returns-wrong-element:indexedset:"+mode, map[string]any{"history": h.ops, "returned": fmt.Sprint(res)})
						ok = false
					} else if p == nil && !found && res != nil {
						r.Violation("remove-returns-element-when-not-found:indexedset:"+mode, map[string]any{"history": h.ops, "returned": fmt.Sprint(res)})
						ok = false
					}
				case op < 76:
					opName = "RemoveMany"
					k := keyers[rnd.Intn(len(keyers))]
					key := k.GetKey(e)
					h.add("RemoveMany(%T, %v)", k, key)
					before := len(m.es)
					p = g2lib.Guard(func() { set.RemoveMany(k, key) })
					m.removeWhere(func(x *elem) bool { return k.GetKey(x) == key })
					outcome = fmt.Sprintf("removed%d", min3(before-len(m.es)))
				case op < 79:
					opName = "Clear"
					h.add("Clear()")
					p = g2lib.Guard(func() { set.Clear() })
					m.es = nil
					outcome = "cleared"
				case op < 84:
					opName = "RemoveMany-foreign-keyer"
					// a keyer the set was not built with: documented to do nothing
					var fk imt.Keyer[*elem] = keyAB{}
					present := false
					for _, k := range keyers {
						if k == fk {
							present = true
						}
					}
					if present {
						outcome = "not-foreign"
						break
					}
					h.add("RemoveMany(foreign keyAB, %v)", fk.GetKey(e))
					p = g2lib.Guard(func() { set.RemoveMany(fk, fk.GetKey(e)) })
					outcome = "no-op"
				default:
					opName = "audit-only"
					outcome = "read"
				}
				if p != nil {
					r.Violation(p.Sig()+":indexedset", map[string]any{"history": h.ops, "panic": p.Value})
					ok = false
					break
				}
				if !ok {
					break
				}
				if !auditSet(r, set, keyers, m, h, "indexedset", mode) {
					ok = false
					break
				}
				r.Eval(1)
				r.Distinct("indexedset|" + mode + "|" + opName + "|" + outcome)
				r.Count("indexedset:"+opName, 1)
			}
			if ok && w == 0 && c == 0 {
				r.Sample(map[string]any{"layer": "indexedset", "history": h.ops, "final_model": render(m.es)})
			}
		}
	})
	r.Floor(r.Counter("indexedset:Put") > 1000 && r.Counter("indexedset:Remove") > 1000 && r.Counter("indexedset:RemoveMany") > 500, "IndexedSet: Put / Remove / RemoveMany were not exercised")
}

func min3(x int) int {
	if x > 3 {
		return 3
	}
	return x
}

func multiMapHistories(r *core.Run) {
	n := r.N(2000, 80000)
	per := 50
	r.Parallel("multimap", (n+per-1)/per, func(w int) {
		rnd := r.Rand("multimap", w)
		for c := 0; c < per; c++ {
			mm := imt.NewMultiMap[*elem](eq)
			model := map[int][]*elem{}
			h := &history{}
			tag := 0
			ok := true
			for step := 0; step < 50 && ok; step++ {
				k := rnd.Intn(3)
				e := &elem{rnd.Intn(3), rnd.Intn(2), -1}
				var p *g2lib.Panic
				opName := ""
				switch op := rnd.Intn(100); {
				case op < 45:
					opName = "Put"
					tag++
					e.tag = tag
					h.add("Put(%d, %s)", k, e)
					p = g2lib.Guard(func() { mm.Put(k, e) })
					model[k] = append(model[k], e)
				case op < 75:
					opName = "Remove"
					h.add("Remove(%d, %s)", k, e)
					var found bool
					var res *elem
					p = g2lib.Guard(func() { res, found = mm.Remove(k, e) })
					want := false
					var keep []*elem
					for _, x := range model[k] {
						if eq(x, e) {
							want = true
						} else {
							keep = append(keep, x)
						}
					}
					model[k] = keep
					if p == nil && (found != want || (found && (res == nil || !eq(res, e))) || (!found && res != nil)) {
						r.Violation("remove-result-differs-from-model:multimap", map[string]any{"history": h.ops, "found": found, "expected": want, "returned": fmt.Sprint(res)})
						ok = false
					}
				case op < 80:
					opName = "Clear"
					h.add("Clear()")
					p = g2lib.Guard(func() { mm.Clear() })
					model = map[int][]*elem{}
				default:
					opName = "audit-only"
				}
				if p != nil {
					r.Violation(p.Sig()+":multimap", map[string]any{"history": h.ops, "panic": p.Value})
					break
				}
				if !ok {
					break
				}
				// audit
				var all []*elem
				for kk := 0; kk < 3 && ok; kk++ {
					var got []*elem
					if p := g2lib.Guard(func() { got = mm.GetMany(kk) }); p != nil {
						r.Violation(p.Sig()+":multimap", map[string]any{"history": h.ops, "panic": p.Value})
						ok = false
						break
					}
					if !core.SameStrings(render(got), render(model[kk])) {
						r.Violation("getmany-differs-from-model:multimap", map[string]any{"history": h.ops, "key": kk, "got": render(got), "expected": render(model[kk])})
						ok = false
						break
					}
					for j := range got {
						got[j] = nil
					}
					all = append(all, model[kk]...)
					for a := 0; a < 3 && ok; a++ {
						for b := 0; b < 2; b++ {
							probe := &elem{a, b, -1}
							res, found := mm.Get(kk, probe)
							want := false
							for _, x := range model[kk] {
								if eq(x, probe) {
									want = true
								}
							}
							if found != want || (found && (res == nil || !eq(res, probe) || res.tag < 0)) {
								r.Violation("get-differs-from-model:multimap", map[string]any{"history": h.ops, "key": kk, "probe": probe.String(), "found": found, "expected": want})
								ok = false
								break
							}
						}
					}
				}
				if !ok {
					break
				}
				var visited []*elem
				mm.VisitEntries(func(e *elem) { visited = append(visited, e) })
				if !core.SameStrings(render(visited), render(all)) {
					r.Violation("visitentries-differs-from-model:multimap", map[string]any{"history": h.ops, "visited": render(visited), "expected": render(all)})
					break
				}
				r.Eval(1)
				r.Distinct(fmt.Sprintf("multimap|%s|size%d", opName, min3(len(all))))
				r.Count("multimap:"+opName, 1)
			}
		}
	})
}

// ---- table / editor layer ----

var elemSchema = sql.Schema{
	{Name: "a", Type: types.Int64, Source: "elems", PrimaryKey: true},
	{Name: "b", Type: types.Int64, Source: "elems", PrimaryKey: true},
	{Name: "payload", Type: types.Int64, Source: "elems"},
}

func rowInts(row sql.Row) (a, b, c int, err error) {
	if len(row) != 3 {
		return 0, 0, 0, fmt.Errorf("bad row")
	}
	x, ok1 := row[0].(int64)
	y, ok2 := row[1].(int64)
	z, ok3 := row[2].(int64)
	if !ok1 || !ok2 || !ok3 {
		return 0, 0, 0, fmt.Errorf("bad row")
	}
	return int(x), int(y), int(z), nil
}

var elemOps = imt.ValueOps[*elem]{
	ToRow: func(ctx *sql.Context, e *elem) (sql.Row, error) {
		return sql.Row{int64(e.a), int64(e.b), int64(e.tag)}, nil
	},
	FromRow: func(ctx *sql.Context, row sql.Row) (*elem, error) {
		a, b, c, err := rowInts(row)
		if err != nil {
			return nil, err
		}
		return &elem{a, b, c}, nil
	},
	UpdateWithRow: func(ctx *sql.Context, row sql.Row, e *elem) (*elem, error) {
		a, b, c, err := rowInts(row)
		if err != nil {
			return nil, err
		}
		cp := *e
		cp.a, cp.b, cp.tag = a, b, c
		return &cp, nil
	},
}

func readTable(ctx *sql.Context, t sql.Table) ([]string, error) {
	pi, err := t.Partitions(ctx)
	if err != nil {
		return nil, err
	}
	var out []string
	for {
		part, err := pi.Next(ctx)
		if err != nil {
			break
		}
		ri, err := t.PartitionRows(ctx, part)
		if err != nil {
			return nil, err
		}
		rows, err := sql.RowIterToRows(ctx, ri)
		if err != nil {
			return nil, err
		}
		for _, row := range rows {
			out = append(out, core.CanonRow(row))
		}
	}
	sort.Strings(out)
	return out, nil
}

func tableHistories(r *core.Run) {
	n := r.N(2000, 60000)
	per := 25
	keyers := []imt.Keyer[*elem]{keyAB{}, keyA{}, keyB{}}
	r.Parallel("table", (n+per-1)/per, func(w int) {
		rnd := r.Rand("table", w)
		ctx := sql.NewEmptyContext()
		for c := 0; c < per; c++ {
			set := imt.NewIndexedSet[*elem](eq, keyers)
			var mu sync.RWMutex
			tbl := imt.NewIndexedSetTable[*elem]("elems", elemSchema, sql.Collation_Default, set, elemOps, &mu, mu.RLocker())
			wrap := rnd.Intn(3) // 0: table's own OperationLocking editor, 1: StatementLocking around the raw editor, 2: raw editor
			var stmtMu sync.Mutex
			editor := func() sql.TableEditor {
				switch wrap {
				case 1:
					return imt.StatementLockingTableEditor{L: &stmtMu, E: &imt.IndexedSetTableEditor[*elem]{Set: set, Ops: elemOps}}
				case 2:
					return &imt.IndexedSetTableEditor[*elem]{Set: set, Ops: elemOps}
				}
				return imt.OperationLockingTableEditor{L: &mu, E: &imt.IndexedSetTableEditor[*elem]{Set: set, Ops: elemOps}}
			}
			m := &bag{}
			h := &history{}
			h.add("editor-wrapping=%d", wrap)
			payload := 0
			ok := true
			for step := 0; step < 40 && ok; step++ {
				var p *g2lib.Panic
				var err error
				opName, outcome := "", ""
				e := &elem{rnd.Intn(space), rnd.Intn(space), 0}
				payload++
				e.tag = payload
				row := sql.Row{int64(e.a), int64(e.b), int64(e.tag)}
				ed := editor()
				run := func(f func() error) {
					p = g2lib.Guard(func() {
						ed.StatementBegin(ctx)
						err = f()
						if err != nil {
							ed.DiscardChanges(ctx, err)
						} else {
							err = ed.StatementComplete(ctx)
						}
					})
				}
				switch op := rnd.Intn(100); {
				case op < 40:
					opName = "Insert"
					h.add("Insert(%v)", row)
					if wrap == 0 && rnd.Intn(2) == 0 {
						ins := tbl.Inserter(ctx)
						p = g2lib.Guard(func() { err = ins.Insert(ctx, row) })
					} else {
						run(func() error { return ed.Insert(ctx, row) })
					}
					if m.has(e) {
						outcome = "duplicate-key"
						if p == nil && (err == nil || !sql.ErrPrimaryKeyViolation.Is(err)) {
							r.Violation("insert-of-existing-key-not-rejected:table", map[string]any{"history": h.ops, "error": fmt.Sprint(err)})
							ok = false
						}
					} else {
						outcome = "inserted"
						if p == nil && err != nil {
							r.Violation("insert-of-new-key-rejected:table", map[string]any{"history": h.ops, "error": fmt.Sprint(err)})
							ok = false
						}
						m.put(e)
					}
				case op < 60:
					opName = "Delete"
					// an existing row (exact) most of the time, otherwise an absent key
					if len(m.es) > 0 && rnd.Intn(4) != 0 {
						x := m.es[rnd.Intn(len(m.es))]
						row = sql.Row{int64(x.a), int64(x.b), int64(x.tag)}
						e = x
					}
					h.add("Delete(%v)", row)
					run(func() error { return ed.Delete(ctx, row) })
					if m.remove(e) {
						outcome = "deleted"
					} else {
						outcome = "absent"
					}
					if p == nil && err != nil {
						r.Violation("delete-fails:table", map[string]any{"history": h.ops, "error": fmt.Sprint(err)})
						ok = false
					}
				case op < 85:
					opName = "Update"
					if len(m.es) == 0 {
						outcome = "skipped-empty"
						break
					}
					x := m.es[rnd.Intn(len(m.es))]
					old := sql.Row{int64(x.a), int64(x.b), int64(x.tag)}
					if rnd.Intn(6) == 0 {
						// a new row the value operations refuse (wrong arity / wrong Go type): the update must fail and change nothing
						bad := sql.Row{int64(x.a), int64(x.b)}
						if rnd.Intn(2) == 0 {
							bad = sql.Row{int64(rnd.Intn(space)), "not-a-number", int64(payload)}
						}
						h.add("Update(%v -> refused row %v)", old, bad)
						run(func() error { return ed.Update(ctx, old, bad) })
						outcome = "refused"
						if p == nil && err == nil {
							r.Violation("update-with-refused-row-reports-success:table", map[string]any{"history": h.ops})
							ok = false
						}
						r.Count("table:Update-refused", 1)
						break
					}
					nw := &elem{x.a, x.b, payload}
					if rnd.Intn(2) == 0 { // move to another key that is free
						nw.a, nw.b = rnd.Intn(space), rnd.Intn(space)
						if !eq(nw, x) && m.has(nw) {
							nw.a, nw.b = x.a, x.b
						}
					}
					newRow := sql.Row{int64(nw.a), int64(nw.b), int64(nw.tag)}
					h.add("Update(%v -> %v)", old, newRow)
					run(func() error { return ed.Update(ctx, old, newRow) })
					if eq(nw, x) {
						outcome = "same-key"
					} else {
						outcome = "moved-key"
					}
					m.remove(x)
					m.put(nw)
					if p == nil && err != nil {
						r.Violation("update-fails:table", map[string]any{"history": h.ops, "error": fmt.Sprint(err)})
						ok = false
					}
				case op < 88:
					opName = "Truncate"
					h.add("Truncate()")
					var cnt int
					p = g2lib.Guard(func() { cnt, err = tbl.Truncate(ctx) })
					outcome = "truncated"
					if p == nil && (err != nil || cnt != len(m.es)) {
						r.Violation("truncate-count-differs-from-model:table", map[string]any{"history": h.ops, "count": cnt, "expected": len(m.es), "error": fmt.Sprint(err)})
						ok = false
					}
					m.es = nil
				default:
					opName = "read"
					outcome = "read"
				}
				if p != nil {
					r.Violation(p.Sig()+":table", map[string]any{"history": h.ops, "panic": p.Value})
					ok = false
				}
				if !ok {
					break
				}
				if !auditSet(r, set, keyers, m, h, "table", fmt.Sprintf("wrap%d", wrap)) {
					ok = false
					break
				}
				var rows []string
				var rerr error
				if p := g2lib.Guard(func() { rows, rerr = readTable(ctx, tbl) }); p != nil || rerr != nil {
					r.Violation("table-read-fails:table", map[string]any{"history": h.ops, "error": fmt.Sprint(rerr), "panic": p})
					break
				}
				var want []string
				for _, x := range m.es {
					want = append(want, core.CanonRow(sql.Row{int64(x.a), int64(x.b), int64(x.tag)}))
				}
				sort.Strings(want)
				if !core.SameStrings(rows, want) {
					r.Violation("table-rows-differ-from-model:table", map[string]any{"history": h.ops, "rows": rows, "expected": want})
					break
				}
				r.Eval(1)
				r.Distinct(fmt.Sprintf("table|wrap%d|%s|%s", wrap, opName, outcome))
				r.Count("table:"+opName, 1)
			}
		}
	})
	r.Floor(r.Counter("table:Insert") > 500 && r.Counter("table:Update") > 300 && r.Counter("table:Delete") > 300, "table editors: Insert / Update / Delete were not exercised")
}

// ---- multi table: one element holds several rows ----

type group struct {
	key     int
	members map[int]bool
}

func groupEq(x, y *group) bool { return x.key == y.key }

type groupKeyer struct{}

func (groupKeyer) GetKey(g *group) any { return g.key }

var groupSchema = sql.Schema{
	{Name: "k", Type: types.Int64, Source: "groups", PrimaryKey: true},
	{Name: "member", Type: types.Int64, Source: "groups", PrimaryKey: true},
}

func copyGroup(g *group) *group {
	c := &group{key: g.key, members: map[int]bool{}}
	for k := range g.members {
		c.members[k] = true
	}
	return c
}

var groupOps = imt.MultiValueOps[*group]{
	ToRows: func(ctx *sql.Context, g *group) ([]sql.Row, error) {
		var rows []sql.Row
		for mbr := range g.members {
			rows = append(rows, sql.Row{int64(g.key), int64(mbr)})
		}
		return rows, nil
	},
	FromRow: func(ctx *sql.Context, row sql.Row) (*group, error) {
		if len(row) != 2 {
			return nil, fmt.Errorf("bad row")
		}
		k, ok := row[0].(int64)
		if !ok {
			return nil, fmt.Errorf("bad row")
		}
		return &group{key: int(k), members: map[int]bool{}}, nil
	},
	AddRow: func(ctx *sql.Context, row sql.Row, g *group) (*group, error) {
		c := copyGroup(g)
		c.members[int(row[1].(int64))] = true
		return c, nil
	},
	DeleteRow: func(ctx *sql.Context, row sql.Row, g *group) (*group, error) {
		c := copyGroup(g)
		delete(c.members, int(row[1].(int64)))
		return c, nil
	},
}

func multiTableHistories(r *core.Run) {
	n := r.N(1000, 30000)
	per := 25
	r.Parallel("multitable", (n+per-1)/per, func(w int) {
		rnd := r.Rand("multitable", w)
		ctx := sql.NewEmptyContext()
		for c := 0; c < per; c++ {
			set := imt.NewIndexedSet[*group](groupEq, []imt.Keyer[*group]{groupKeyer{}})
			var mu sync.RWMutex
			tbl := imt.NewMultiIndexedSetTable[*group]("groups", groupSchema, sql.Collation_Default, set, groupOps, &mu, mu.RLocker())
			model := map[int]map[int]bool{} // existing groups -> members
			h := &history{}
			ok := true
			for step := 0; step < 40 && ok; step++ {
				k, mbr := rnd.Intn(3), rnd.Intn(4)
				row := sql.Row{int64(k), int64(mbr)}
				var err error
				var p *g2lib.Panic
				opName, outcome := "", ""
				switch op := rnd.Intn(100); {
				case op < 15:
					opName = "create-group"
					if _, ex := model[k]; ex {
						outcome = "exists"
						break
					}
					h.add("Put(group %d)", k)
					p = g2lib.Guard(func() { set.Put(&group{key: k, members: map[int]bool{}}) })
					model[k] = map[int]bool{}
					outcome = "created"
				case op < 55:
					opName = "Insert"
					h.add("Insert(%v)", row)
					ins := tbl.Inserter(ctx)
					p = g2lib.Guard(func() { err = ins.Insert(ctx, row) })
					if g, ex := model[k]; ex {
						g[mbr] = true
						outcome = "added"
						if p == nil && err != nil {
							r.Violation("multi-insert-fails:multitable", map[string]any{"history": h.ops, "error": fmt.Sprint(err)})
							ok = false
						}
					} else {
						outcome = "no-entry"
						if p == nil && err != imt.ErrEntryNotFound {
							r.Violation("multi-insert-without-entry-not-rejected:multitable", map[string]any{"history": h.ops, "error": fmt.Sprint(err)})
							ok = false
						}
					}
				case op < 80:
					opName = "Delete"
					h.add("Delete(%v)", row)
					del := tbl.Deleter(ctx)
					p = g2lib.Guard(func() { err = del.Delete(ctx, row) })
					if g, ex := model[k]; ex {
						delete(g, mbr)
						outcome = "deleted"
						if p == nil && err != nil {
							r.Violation("multi-delete-fails:multitable", map[string]any{"history": h.ops, "error": fmt.Sprint(err)})
							ok = false
						}
					} else {
						outcome = "no-entry"
						if p == nil && err != imt.ErrEntryNotFound {
							r.Violation("multi-delete-without-entry-not-rejected:multitable", map[string]any{"history": h.ops, "error": fmt.Sprint(err)})
							ok = false
						}
					}
				case op < 92:
					opName = "Update"
					g, ex := model[k]
					if !ex || len(g) == 0 {
						outcome = "skipped"
						break
					}
					var ms []int
					for x := range g {
						ms = append(ms, x)
					}
					sort.Ints(ms)
					oldM := ms[rnd.Intn(len(ms))]
					old := sql.Row{int64(k), int64(oldM)}
					h.add("Update(%v -> %v)", old, row)
					upd := tbl.Updater(ctx)
					p = g2lib.Guard(func() { err = upd.Update(ctx, old, row) })
					delete(g, oldM)
					g[mbr] = true
					outcome = "updated"
					if p == nil && err != nil {
						r.Violation("multi-update-fails:multitable", map[string]any{"history": h.ops, "error": fmt.Sprint(err)})
						ok = false
					}
				default:
					opName = "read"
					outcome = "read"
				}
				if p != nil {
					r.Violation(p.Sig()+":multitable", map[string]any{"history": h.ops, "panic": p.Value})
					ok = false
				}
				if !ok {
					break
				}
				rows, rerr := readTable(ctx, tbl)
				if rerr != nil {
					r.Violation("table-read-fails:multitable", map[string]any{"history": h.ops, "error": fmt.Sprint(rerr)})
					break
				}
				var want []string
				for gk, g := range model {
					for mb := range g {
						want = append(want, core.CanonRow(sql.Row{int64(gk), int64(mb)}))
					}
				}
				sort.Strings(want)
				if !core.SameStrings(rows, want) {
					r.Violation("table-rows-differ-from-model:multitable", map[string]any{"history": h.ops, "rows": rows, "expected": want})
					break
				}
				if cnt := set.Count(); cnt != len(model) {
					r.Violation("count-differs-from-model:multitable", map[string]any{"history": h.ops, "count": cnt, "expected": len(model)})
					break
				}
				r.Eval(1)
				r.Distinct("multitable|" + opName + "|" + outcome)
				r.Count("multitable:"+opName, 1)
			}
		}
	})
}


