package main

import (
	"fmt"
	"sort"
	"strings"

	"github.com/dolthub/go-mysql-server/sql/mysql_db"

	"verif/harness/core"
	"verif/harness/g2lib"
)

// grantTablesSQL drives the IndexedSetTable-backed grant tables mysql.user (keyers: (Host,User) and
// User) and mysql.role_edges (keyers: all four columns, TO side, FROM side) with SQL DML and compares
// full scans and filtered reads with a keyed model after every statement.
func grantTablesSQL(r *core.Run) {
	n := r.N(160, 5000)
	const workers = 8
	users := []string{"ua", "ub", "uc"}
	hosts := []string{"h1", "h2", "h3"}
	roles := []string{"r1", "r2"}
	r.Parallel("grant-sql", workers, func(w int) {
		for i := w; i < n; i += workers {
			rnd := r.Rand("grant-sql", i)
			e := core.NewEng("d")
			mdb := e.E.Analyzer.Catalog.MySQLDb
			mdb.AddRootAccount()
			mdb.SetPersister(&mysql_db.NoopPersister{})
			s := e.NewSess()
			um := map[[2]string]bool{{"root", "localhost"}: true} // (User, Host)
			em := map[[4]string]string{}                          // (FROM_HOST, FROM_USER, TO_HOST, TO_USER) -> admin option
			var hist []string
			ok := true
			exec := func(q string) *core.Result {
				hist = append(hist, q)
				res := s.Exec(q)
				if res.TimedOut {
					r.Inconclusive("timeout")
					ok = false
				} else if res.Panic != nil {
					r.Violation(g2lib.CorePanicSig(res.Panic)+":grant-sql", map[string]any{"history": hist, "panic": res.Panic.Value})
					ok = false
				}
				return res
			}
			affected := func(res *core.Result) int {
				if o, is := res.Ok(); is {
					return int(o.RowsAffected)
				}
				return -1
			}
			for step := 0; step < 25 && ok; step++ {
				u, h := users[rnd.Intn(3)], hosts[rnd.Intn(3)]
				ro, tu := roles[rnd.Intn(2)], users[rnd.Intn(3)]
				ek := [4]string{"%", ro, h, tu}
				opName, outcome := "", ""
				switch op := rnd.Intn(100); {
				case op < 22:
					opName = "user-insert"
					res := exec(fmt.Sprintf("INSERT INTO mysql.user (Host, User) VALUES ('%s', '%s')", h, u))
					if !ok {
						break
					}
					if um[[2]string{u, h}] {
						outcome = "duplicate"
						if res.Err == nil {
							r.Violation("insert-of-existing-key-not-rejected:grant-sql:user", map[string]any{"history": hist})
							ok = false
						}
					} else {
						outcome = "inserted"
						if res.Err != nil {
							r.Violation("insert-of-new-key-rejected:grant-sql:user", map[string]any{"history": hist, "error": res.Err.Error()})
							ok = false
						}
						um[[2]string{u, h}] = true
					}
				case op < 34:
					opName = "user-delete-by-key"
					res := exec(fmt.Sprintf("DELETE FROM mysql.user WHERE User = '%s' AND Host = '%s'", u, h))
					if !ok {
						break
					}
					want := 0
					if um[[2]string{u, h}] {
						want = 1
						delete(um, [2]string{u, h})
					}
					outcome = fmt.Sprintf("removed%d", want)
					if res.Err != nil || affected(res) != want {
						r.Violation("delete-affected-rows-differ-from-model:grant-sql:user", map[string]any{"history": hist, "affected": affected(res), "expected": want, "error": fmt.Sprint(res.Err)})
						ok = false
					}
				case op < 42:
					opName = "user-delete-by-secondary-key"
					res := exec(fmt.Sprintf("DELETE FROM mysql.user WHERE User = '%s'", u))
					if !ok {
						break
					}
					want := 0
					for k := range um {
						if k[0] == u {
							want++
							delete(um, k)
						}
					}
					outcome = fmt.Sprintf("removed%d", min3(want))
					if res.Err != nil || affected(res) != want {
						r.Violation("delete-affected-rows-differ-from-model:grant-sql:user", map[string]any{"history": hist, "affected": affected(res), "expected": want, "error": fmt.Sprint(res.Err)})
						ok = false
					}
				case op < 58:
					opName = "user-update-key"
					// move one existing row to a free key (moving onto an existing key is the caller's error, see assumptions)
					var keys [][2]string
					for k := range um {
						if k[0] != "root" {
							keys = append(keys, k)
						}
					}
					if len(keys) == 0 {
						outcome = "skipped-empty"
						break
					}
					sort.Slice(keys, func(a, b int) bool { return keys[a][0]+keys[a][1] < keys[b][0]+keys[b][1] })
					k := keys[rnd.Intn(len(keys))]
					nk := [2]string{u, h}
					if um[nk] {
						outcome = "skipped-target-exists"
						break
					}
					res := exec(fmt.Sprintf("UPDATE mysql.user SET User = '%s', Host = '%s' WHERE User = '%s' AND Host = '%s'", nk[0], nk[1], k[0], k[1]))
					if !ok {
						break
					}
					delete(um, k)
					um[nk] = true
					outcome = "moved"
					if res.Err != nil {
						r.Violation("update-fails:grant-sql:user", map[string]any{"history": hist, "error": res.Err.Error()})
						ok = false
					}
				case op < 74:
					opName = "edge-insert"
					adm := "N"
					if rnd.Intn(2) == 0 {
						adm = "Y"
					}
					res := exec(fmt.Sprintf("INSERT INTO mysql.role_edges (FROM_HOST, FROM_USER, TO_HOST, TO_USER, WITH_ADMIN_OPTION) VALUES ('%s','%s','%s','%s','%s')", ek[0], ek[1], ek[2], ek[3], adm))
					if !ok {
						break
					}
					if _, ex := em[ek]; ex {
						outcome = "duplicate"
						if res.Err == nil {
							r.Violation("insert-of-existing-key-not-rejected:grant-sql:role_edges", map[string]any{"history": hist})
							ok = false
						}
					} else {
						outcome = "inserted"
						if res.Err != nil {
							r.Violation("insert-of-new-key-rejected:grant-sql:role_edges", map[string]any{"history": hist, "error": res.Err.Error()})
							ok = false
						}
						em[ek] = adm
					}
				case op < 84:
					opName = "edge-delete-by-to-key"
					res := exec(fmt.Sprintf("DELETE FROM mysql.role_edges WHERE TO_USER = '%s' AND TO_HOST = '%s'", tu, h))
					if !ok {
						break
					}
					want := 0
					for k := range em {
						if k[3] == tu && k[2] == h {
							want++
							delete(em, k)
						}
					}
					outcome = fmt.Sprintf("removed%d", min3(want))
					if res.Err != nil || affected(res) != want {
						r.Violation("delete-affected-rows-differ-from-model:grant-sql:role_edges", map[string]any{"history": hist, "affected": affected(res), "expected": want, "error": fmt.Sprint(res.Err)})
						ok = false
					}
				case op < 90:
					opName = "edge-delete-by-from-key"
					res := exec(fmt.Sprintf("DELETE FROM mysql.role_edges WHERE FROM_USER = '%s'", ro))
					if !ok {
						break
					}
					want := 0
					for k := range em {
						if k[1] == ro {
							want++
							delete(em, k)
						}
					}
					outcome = fmt.Sprintf("removed%d", min3(want))
					if res.Err != nil || affected(res) != want {
						r.Violation("delete-affected-rows-differ-from-model:grant-sql:role_edges", map[string]any{"history": hist, "affected": affected(res), "expected": want, "error": fmt.Sprint(res.Err)})
						ok = false
					}
				case op < 98:
					opName = "edge-update"
					var keys [][4]string
					for k := range em {
						keys = append(keys, k)
					}
					if len(keys) == 0 {
						outcome = "skipped-empty"
						break
					}
					sort.Slice(keys, func(a, b int) bool { return strings.Join(keys[a][:], "|") < strings.Join(keys[b][:], "|") })
					k := keys[rnd.Intn(len(keys))]
					nk := [4]string{"%", k[1], h, tu}
					if _, ex := em[nk]; ex && nk != k {
						outcome = "skipped-target-exists"
						break
					}
					res := exec(fmt.Sprintf("UPDATE mysql.role_edges SET TO_HOST = '%s', TO_USER = '%s' WHERE FROM_HOST = '%s' AND FROM_USER = '%s' AND TO_HOST = '%s' AND TO_USER = '%s'", nk[2], nk[3], k[0], k[1], k[2], k[3]))
					if !ok {
						break
					}
					adm := em[k]
					delete(em, k)
					em[nk] = adm
					outcome = "moved"
					if res.Err != nil {
						r.Violation("update-fails:grant-sql:role_edges", map[string]any{"history": hist, "error": res.Err.Error()})
						ok = false
					}
				default:
					opName = "edge-truncate"
					res := exec("TRUNCATE TABLE mysql.role_edges")
					if !ok {
						break
					}
					outcome = "truncated"
					if res.Err != nil {
						r.Inconclusive("truncate-rejected")
					} else {
						em = map[[4]string]string{}
					}
				}
				if !ok {
					break
				}
				// ---- audit ----
				check := func(q string, want []string, what string) bool {
					res := s.Exec(q)
					if res.TimedOut {
						r.Inconclusive("timeout")
						return false
					}
					if res.Panic != nil {
						r.Violation(g2lib.CorePanicSig(res.Panic)+":grant-sql", map[string]any{"history": hist, "sql": q, "panic": res.Panic.Value})
						return false
					}
					if res.Err != nil {
						r.Violation("read-fails:grant-sql", map[string]any{"history": hist, "sql": q, "error": res.Err.Error()})
						return false
					}
					got := core.SortedRows(res.Rows)
					sort.Strings(want)
					if !core.SameStrings(got, want) {
						r.Violation(what+"-differs-from-model:grant-sql", map[string]any{"history": hist, "sql": q, "rows": got, "expected": want})
						return false
					}
					return true
				}
				var all []string
				for k := range um {
					all = append(all, "'"+k[0]+"'|'"+k[1]+"'")
				}
				if ok = check("SELECT User, Host FROM mysql.user", all, "user-full-scan"); !ok {
					break
				}
				fu := users[rnd.Intn(3)]
				var byUser []string
				for k := range um {
					if k[0] == fu {
						byUser = append(byUser, "'"+k[0]+"'|'"+k[1]+"'")
					}
				}
				if ok = check(fmt.Sprintf("SELECT User, Host FROM mysql.user WHERE User = '%s'", fu), byUser, "user-by-secondary-key"); !ok {
					break
				}
				var edges, byTo, byFrom []string
				ft, fr := users[rnd.Intn(3)], roles[rnd.Intn(2)]
				for k, adm := range em {
					a := "1"
					if adm == "Y" {
						a = "2"
					}
					row := fmt.Sprintf("'%s'|'%s'|'%s'|'%s'|%s", k[0], k[1], k[2], k[3], a)
					edges = append(edges, row)
					if k[3] == ft {
						byTo = append(byTo, row)
					}
					if k[1] == fr {
						byFrom = append(byFrom, row)
					}
				}
				if ok = check("SELECT FROM_HOST, FROM_USER, TO_HOST, TO_USER, WITH_ADMIN_OPTION+0 FROM mysql.role_edges", edges, "role-edges-full-scan"); !ok {
					break
				}
				if ok = check(fmt.Sprintf("SELECT FROM_HOST, FROM_USER, TO_HOST, TO_USER, WITH_ADMIN_OPTION+0 FROM mysql.role_edges WHERE TO_USER = '%s'", ft), byTo, "role-edges-by-to-key"); !ok {
					break
				}
				if ok = check(fmt.Sprintf("SELECT FROM_HOST, FROM_USER, TO_HOST, TO_USER, WITH_ADMIN_OPTION+0 FROM mysql.role_edges WHERE FROM_USER = '%s'", fr), byFrom, "role-edges-by-from-key"); !ok {
					break
				}
				// the Go-level set behind mysql.user
				r.Eval(1)
				r.Distinct("grant-sql|" + opName + "|" + outcome)
				r.Count("grant-sql:"+opName, 1)
			}
			if ok && i == 0 {
				r.Sample(map[string]any{"layer": "grant-sql", "history": hist})
			}
			e.Close()
		}
	})
	r.Floor(r.Counter("grant-sql:user-insert") > 100 && r.Counter("grant-sql:edge-insert") > 100, "grant tables through SQL were not exercised")
}
