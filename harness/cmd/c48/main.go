// C48 — guarded goroutines turn panics into errors.
//
// API level: generated groups of functions run through errguard.Go on errgroup.Group (plain,
// WithContext, SetLimit). Oracle: the process survives; Wait() is non-nil iff some function failed;
// the returned error is attributable to one failing function — the identical error value for a
// returned error, "panic recovered: <rendering of that function's unique panic value>" plus a stack
// for a panic; every function ran (started == n), non-panicking ones to completion, deferred calls of
// panicking ones ran; no goroutine is left behind; the race detector stays silent.
// RecoverAndLog: a goroutine whose first defer is RecoverAndLog survives any panic value and logs it
// exactly once. System level (server.go): a query whose row iterator panics inside the handler's
// guarded pipeline goroutines yields an error to that client while other connections keep working.
package main

import (
	"context"
	"errors"
	"fmt"
	"math/rand"
	"runtime"
	"strings"
	"sync"
	"sync/atomic"
	"time"

	"github.com/sirupsen/logrus"
	"golang.org/x/sync/errgroup"

	"github.com/dolthub/go-mysql-server/errguard"

	"verif/harness/core"
	"verif/harness/g3lib"
)

type customPanic struct {
	ID   int
	Note string
}

type stringerPanic struct{ id int }

func (s stringerPanic) String() string { return fmt.Sprintf("stringer-canary-%d", s.id) }

type errPanicsInError struct{ id int }

func (e errPanicsInError) Error() string { panic(fmt.Sprintf("inner-error-method-panic-%d", e.id)) }

// kinds of function behaviour
const (
	kNil = iota
	kSentinel
	kWrapped
	kJoined
	kPanicString
	kPanicError
	kPanicWrappedError
	kPanicNil
	kPanicStruct
	kPanicPtr
	kPanicInt
	kPanicStringer
	kPanicErrMethodPanics
	kNilDeref
	kIndexRange
	kClosedChan
	kNilMap
	kDivZero
	kTypeAssert
	kPanicAfterWork
	kPanicInDefer
	kRepanic
	kRecoveredInside // panics and recovers by itself: counts as success
	kNestedPanic     // inner errguard group whose child panics; outer returns inner.Wait()
	kNestedError
	kNestedOK
	kDeepStackPanic
	kWaitCtx // blocks until the group context is cancelled or the harness releases it; returns nil
	nKinds
)

var kindNames = [...]string{"nil", "sentinel", "wrapped", "joined", "panic-string", "panic-error", "panic-wrapped-error", "panic-nil",
	"panic-struct", "panic-ptr", "panic-int", "panic-stringer", "panic-error-method-panics", "nil-deref", "index-range", "closed-chan",
	"nil-map", "div-zero", "type-assert", "panic-after-work", "panic-in-defer", "repanic", "recovered-inside", "nested-panic",
	"nested-error", "nested-ok", "deep-stack-panic", "wait-ctx"}

type fnSpec struct {
	kind int
	id   int
	// what the harness expects
	fails    bool   // contributes an error to the group
	isPanic  bool   // … by panicking
	errVal   error  // the exact error value returned (returned-error kinds)
	sentinel error  // errors.Is target
	render   string // text that must follow "panic recovered: " (panic kinds); substring match
	// observations
	started, finished, deferred, work int32
}

var zero int

func deep(n int, v any) {
	if n == 0 {
		panic(v)
	}
	deep(n-1, v)
}

// build prepares the closure and the expectation of one function.
func (f *fnSpec) build(ctx context.Context, release <-chan struct{}) func() error {
	id := f.id
	canary := fmt.Sprintf("c48-canary-%d", id)
	done := func() { atomic.AddInt32(&f.finished, 1) }
	start := func() { atomic.AddInt32(&f.started, 1) }
	dfr := func() { atomic.AddInt32(&f.deferred, 1) }
	switch f.kind {
	case kNil:
		return func() error { start(); defer dfr(); runtime.Gosched(); done(); return nil }
	case kSentinel:
		f.fails, f.errVal = true, errors.New("sentinel-"+canary)
		f.sentinel = f.errVal
		return func() error { start(); defer dfr(); done(); return f.errVal }
	case kWrapped:
		f.sentinel = errors.New("sentinel-" + canary)
		f.fails, f.errVal = true, fmt.Errorf("while doing work: %w", f.sentinel)
		return func() error { start(); defer dfr(); runtime.Gosched(); done(); return f.errVal }
	case kJoined:
		f.sentinel = errors.New("sentinel-" + canary)
		f.fails, f.errVal = true, errors.Join(errors.New("other"), f.sentinel)
		return func() error { start(); defer dfr(); done(); return f.errVal }
	case kPanicString:
		f.fails, f.isPanic, f.render = true, true, canary
		return func() error { start(); defer dfr(); panic(canary) }
	case kPanicError:
		f.fails, f.isPanic, f.render = true, true, "error-"+canary
		return func() error { start(); defer dfr(); panic(errors.New("error-" + canary)) }
	case kPanicWrappedError:
		f.fails, f.isPanic, f.render = true, true, "outer: inner-"+canary
		return func() error {
			start()
			defer dfr()
			panic(fmt.Errorf("outer: %w", errors.New("inner-"+canary)))
		}
	case kPanicNil:
		f.fails, f.isPanic, f.render = true, true, "panic called with nil argument"
		return func() error { start(); defer dfr(); panic(nil) }
	case kPanicStruct:
		v := customPanic{ID: id, Note: canary}
		f.fails, f.isPanic, f.render = true, true, fmt.Sprintf("%v", v)
		return func() error { start(); defer dfr(); panic(v) }
	case kPanicPtr:
		pv := &customPanic{ID: id, Note: canary}
		f.fails, f.isPanic, f.render = true, true, fmt.Sprintf("%v", pv)
		return func() error { start(); defer dfr(); panic(pv) }
	case kPanicInt:
		f.fails, f.isPanic, f.render = true, true, fmt.Sprint(1000000+id)
		return func() error { start(); defer dfr(); panic(1000000 + id) }
	case kPanicStringer:
		f.fails, f.isPanic, f.render = true, true, fmt.Sprintf("stringer-canary-%d", id)
		return func() error { start(); defer dfr(); panic(stringerPanic{id}) }
	case kPanicErrMethodPanics:
		// fmt catches a panic inside the value's Error method and prints a %!v(PANIC=…) marker
		f.fails, f.isPanic, f.render = true, true, fmt.Sprintf("inner-error-method-panic-%d", id)
		return func() error { start(); defer dfr(); panic(errPanicsInError{id}) }
	case kNilDeref:
		f.fails, f.isPanic, f.render = true, true, "nil pointer dereference"
		return func() error { start(); defer dfr(); var p *customPanic; return errors.New(p.Note) }
	case kIndexRange:
		f.fails, f.isPanic, f.render = true, true, "index out of range"
		return func() error {
			start()
			defer dfr()
			s := make([]int, 3)
			i := 5 + zero
			s[i] = 1
			return nil
		}
	case kClosedChan:
		f.fails, f.isPanic, f.render = true, true, "send on closed channel"
		return func() error {
			start()
			defer dfr()
			c := make(chan int, 1)
			close(c)
			c <- 1
			return nil
		}
	case kNilMap:
		f.fails, f.isPanic, f.render = true, true, "assignment to entry in nil map"
		return func() error { start(); defer dfr(); var m map[string]int; m[canary] = 1; return nil }
	case kDivZero:
		f.fails, f.isPanic, f.render = true, true, "integer divide by zero"
		return func() error { start(); defer dfr(); return fmt.Errorf("%d", id/zero) }
	case kTypeAssert:
		f.fails, f.isPanic, f.render = true, true, "interface conversion"
		return func() error { start(); defer dfr(); var x any = canary; return fmt.Errorf("%d", x.(int)) }
	case kPanicAfterWork:
		f.fails, f.isPanic, f.render = true, true, "after-work-"+canary
		return func() error {
			start()
			defer dfr()
			for i := 0; i < 50; i++ {
				atomic.AddInt32(&f.work, 1)
				if i%10 == 0 {
					runtime.Gosched()
				}
			}
			panic(fmt.Errorf("after-work-%s", canary))
		}
	case kPanicInDefer:
		f.fails, f.isPanic, f.render = true, true, "in-defer-"+canary
		return func() error {
			start()
			defer dfr()
			defer func() { panic("in-defer-" + canary) }()
			return nil
		}
	case kRepanic:
		f.fails, f.isPanic, f.render = true, true, "second-"+canary
		return func() error {
			start()
			defer dfr()
			defer func() {
				if r := recover(); r != nil {
					panic("second-" + canary)
				}
			}()
			panic("first-" + canary)
		}
	case kRecoveredInside:
		return func() (err error) {
			start()
			defer dfr()
			defer func() { recover(); done() }()
			panic("swallowed-" + canary)
		}
	case kNestedPanic:
		f.fails, f.isPanic, f.render = true, true, "nested-"+canary
		return func() error {
			start()
			defer dfr()
			var inner errgroup.Group
			errguard.Go(&inner, func() error { return nil })
			errguard.Go(&inner, func() error { panic("nested-" + canary) })
			err := inner.Wait()
			done()
			return err
		}
	case kNestedError:
		f.sentinel = errors.New("nested-sentinel-" + canary)
		f.fails, f.errVal = true, f.sentinel
		return func() error {
			start()
			defer dfr()
			var inner errgroup.Group
			errguard.Go(&inner, func() error { return f.sentinel })
			err := inner.Wait()
			done()
			return err
		}
	case kNestedOK:
		return func() error {
			start()
			defer dfr()
			inner, _ := errgroup.WithContext(context.Background())
			for i := 0; i < 3; i++ {
				errguard.Go(inner, func() error { runtime.Gosched(); return nil })
			}
			err := inner.Wait()
			done()
			return err
		}
	case kDeepStackPanic:
		f.fails, f.isPanic, f.render = true, true, "deep-"+canary
		return func() error { start(); defer dfr(); deep(200, "deep-"+canary); return nil }
	case kWaitCtx:
		return func() error {
			start()
			defer dfr()
			select {
			case <-ctx.Done():
			case <-release:
			}
			done()
			return nil
		}
	}
	panic("unknown kind")
}

func pickKind(rnd *rand.Rand, failRate int, allowWait bool) int {
	if rnd.Intn(100) >= failRate {
		switch rnd.Intn(10) {
		case 0:
			return kRecoveredInside
		case 1:
			return kNestedOK
		case 2, 3:
			if allowWait {
				return kWaitCtx
			}
		}
		return kNil
	}
	for {
		k := rnd.Intn(nKinds)
		switch k {
		case kNil, kRecoveredInside, kNestedOK, kWaitCtx:
			continue
		}
		return k
	}
}

type groupWitness struct {
	Case    int      `json:"case"`
	Mode    string   `json:"mode"`
	Limit   int      `json:"limit"`
	Kinds   []string `json:"kinds"`
	WaitErr string   `json:"wait_err"`
	Detail  string   `json:"detail"`
}

func trunc(s string, n int) string {
	if len(s) > n {
		return s[:n] + "…"
	}
	return s
}

// runGroup generates and runs one group and judges it.
func runGroup(r *g3lib.Rec, rnd *rand.Rand, caseNo int) {
	n := 1 + rnd.Intn(8)
	switch rnd.Intn(6) {
	case 0:
		n = 1
	case 1:
		n = 9 + rnd.Intn(56)
	}
	mode := []string{"plain", "withcontext", "limit", "withcontext+limit"}[rnd.Intn(4)]
	failRate := []int{0, 10, 10, 30, 60, 100}[rnd.Intn(6)]
	limit := 0
	var g *errgroup.Group
	ctx := context.Background()
	if strings.HasPrefix(mode, "withcontext") {
		g, ctx = errgroup.WithContext(context.Background())
	} else {
		g = new(errgroup.Group)
	}
	if strings.HasSuffix(mode, "limit") {
		limit = 1 + rnd.Intn(8)
		g.SetLimit(limit)
	}
	release := make(chan struct{})
	specs := make([]*fnSpec, n)
	fns := make([]func() error, n)
	wit := groupWitness{Case: caseNo, Mode: mode, Limit: limit}
	nfail, npanic := 0, 0
	for i := range specs {
		specs[i] = &fnSpec{kind: pickKind(rnd, failRate, mode == "withcontext"), id: caseNo*100 + i}
		fns[i] = specs[i].build(ctx, release)
		wit.Kinds = append(wit.Kinds, kindNames[specs[i].kind])
		if specs[i].fails {
			nfail++
		}
		if specs[i].isPanic {
			npanic++
		}
	}
	for i := range fns {
		errguard.Go(g, fns[i])
		if rnd.Intn(4) == 0 {
			runtime.Gosched()
		}
	}
	close(release)
	err := g.Wait()
	r.Eval(1)
	if err != nil {
		wit.WaitErr = trunc(err.Error(), 300)
	}
	bad := func(sig, detail string) {
		w := wit
		w.Detail = detail
		r.Violation("group:"+sig, w)
	}

	// 1. non-nil iff some function failed
	if (err != nil) != (nfail > 0) {
		if err == nil {
			bad("wait-nil-although-a-function-failed", fmt.Sprintf("%d failing functions", nfail))
		} else {
			bad("wait-error-although-no-function-failed", "")
		}
		return
	}
	// 2. attribution
	first := "none"
	if err != nil {
		var owner *fnSpec
		msg := err.Error()
		for _, f := range specs {
			if !f.fails {
				continue
			}
			if !f.isPanic && err == f.errVal {
				owner = f
				break
			}
		}
		if owner == nil && strings.HasPrefix(msg, "panic recovered: ") {
			rest := msg[len("panic recovered: "):]
			head := rest
			if k := strings.Index(rest, "\n"); k >= 0 {
				head = rest[:k]
			}
			for _, f := range specs {
				if f.isPanic && strings.Contains(head, f.render) {
					owner = f
					break
				}
			}
			if owner != nil && !(strings.Contains(rest, "\ngoroutine ") && strings.Contains(rest, "runtime/debug.Stack")) {
				bad("panic-error-without-stack:"+kindNames[owner.kind], "")
				return
			}
		}
		if owner == nil {
			// a returned error that is not the identical value: changed on the way?
			for _, f := range specs {
				if f.fails && !f.isPanic && f.sentinel != nil && errors.Is(err, f.sentinel) {
					bad("returned-error-not-propagated-unchanged:"+kindNames[f.kind], "errors.Is matches but the value differs")
					return
				}
			}
			bad("wait-error-not-attributable-to-a-failing-function", "")
			return
		}
		if !owner.isPanic && owner.sentinel != nil && !errors.Is(err, owner.sentinel) {
			bad("sentinel-lost:"+kindNames[owner.kind], "")
			return
		}
		first = kindNames[owner.kind]
	}
	// 3. every function ran; non-panicking ones completed; deferred calls ran
	for _, f := range specs {
		st, fin, df := atomic.LoadInt32(&f.started), atomic.LoadInt32(&f.finished), atomic.LoadInt32(&f.deferred)
		if st != 1 {
			bad("function-not-run-exactly-once:"+kindNames[f.kind], fmt.Sprintf("id=%d started=%d", f.id, st))
			return
		}
		if df != 1 {
			bad("deferred-call-of-function-not-run:"+kindNames[f.kind], fmt.Sprintf("id=%d deferred=%d", f.id, df))
			return
		}
		wantFin := int32(1)
		if f.isPanic && f.kind != kNestedPanic {
			wantFin = 0
		}
		if f.kind == kSentinel || f.kind == kWrapped || f.kind == kJoined || f.kind == kNestedError {
			wantFin = 1
		}
		if fin != wantFin {
			bad("function-completion-count-wrong:"+kindNames[f.kind], fmt.Sprintf("id=%d finished=%d want=%d", f.id, fin, wantFin))
			return
		}
		if f.kind == kPanicAfterWork && atomic.LoadInt32(&f.work) != 50 {
			bad("partial-work-lost", fmt.Sprintf("work=%d", f.work))
			return
		}
	}
	// 4. group context cancelled with the returned error as cause
	if strings.HasPrefix(mode, "withcontext") {
		if ctx.Err() == nil {
			bad("group-context-not-cancelled-after-wait", "")
			return
		}
		if err != nil && context.Cause(ctx) != err {
			bad("group-context-cause-differs-from-wait-error", trunc(fmt.Sprint(context.Cause(ctx)), 200))
			return
		}
	}
	nb := "1"
	switch {
	case n > 8:
		nb = "9+"
	case n > 1:
		nb = "2-8"
	}
	r.Distinct(fmt.Sprintf("group|%s|n=%s|fail=%d|panics=%d|first=%s", mode, nb, min(nfail, 3), min(npanic, 3), first))
	if err != nil {
		r.Count("groups.failed", 1)
		if first != "none" && npanic > 0 {
			r.Count("groups.with-panics", 1)
		}
	} else {
		r.Count("groups.clean", 1)
	}
	if caseNo < 4 && err != nil {
		r.Sample(map[string]any{"mode": mode, "limit": limit, "functions": wit.Kinds, "wait_error_head": trunc(err.Error(), 160), "attributed_to": first})
	}
}

// ---- RecoverAndLog ----

type logHook struct {
	mu      sync.Mutex
	entries map[string][]string // what -> messages
}

func (h *logHook) Levels() []logrus.Level { return logrus.AllLevels }
func (h *logHook) Fire(e *logrus.Entry) error {
	const pfx = "panic recovered in "
	if !strings.HasPrefix(e.Message, pfx) {
		return nil
	}
	rest := e.Message[len(pfx):]
	k := strings.Index(rest, ":")
	if k < 0 {
		return nil
	}
	h.mu.Lock()
	h.entries[rest[:k]] = append(h.entries[rest[:k]], rest[k+1:])
	h.mu.Unlock()
	return nil
}
func (h *logHook) take(what string) []string {
	h.mu.Lock()
	defer h.mu.Unlock()
	v := h.entries[what]
	delete(h.entries, what)
	return v
}

func recoverAndLogCase(r *g3lib.Rec, hook *logHook, rnd *rand.Rand, caseNo int) {
	what := fmt.Sprintf("verif-goroutine-%d", caseNo)
	var kind int
	for {
		kind = rnd.Intn(nKinds)
		if kind != kWaitCtx && kind != kNestedOK && kind != kNestedError && kind != kNestedPanic {
			break
		}
	}
	f := &fnSpec{kind: kind, id: caseNo}
	fn := f.build(context.Background(), nil)
	done := make(chan struct{})
	var after int32
	go func() {
		defer close(done)
		defer errguard.RecoverAndLog(what)
		_ = fn()
		atomic.StoreInt32(&after, 1)
	}()
	<-done
	r.Eval(1)
	logs := hook.take(what)
	w := map[string]any{"case": caseNo, "kind": kindNames[kind], "logged": len(logs)}
	r.Distinct("recoverandlog|" + kindNames[kind])
	switch {
	case f.isPanic && len(logs) != 1:
		r.Violation("recoverandlog:panic-not-logged-exactly-once:"+kindNames[kind], w)
	case f.isPanic && !(strings.Contains(logs[0], f.render) && strings.Contains(logs[0], "goroutine ")):
		w["log"] = trunc(logs[0], 300)
		r.Violation("recoverandlog:log-lacks-value-or-stack:"+kindNames[kind], w)
	case !f.isPanic && len(logs) != 0:
		r.Violation("recoverandlog:logged-without-panic:"+kindNames[kind], w)
	case !f.isPanic && atomic.LoadInt32(&after) != 1:
		r.Violation("recoverandlog:normal-return-disturbed:"+kindNames[kind], w)
	}
}

// settle waits (patiently, bounded) for the goroutine count to fall back to the baseline.
func settle(base int) int {
	n := runtime.NumGoroutine()
	for i := 0; i < 2000 && n > base; i++ {
		time.Sleep(5 * time.Millisecond)
		runtime.Gosched()
		n = runtime.NumGoroutine()
	}
	return n
}

func main() {
	r := core.NewRun("C48", "exploration",
		"each evaluation is one generated errgroup of 1-64 functions run through errguard.Go (or one RecoverAndLog goroutine, or one server query with a panicking row iterator) judged against the expectation computed from the generated behaviours; distinct = (group mode, size class, failing/panicking counts, kind of the function the returned error is attributed to), RecoverAndLog panic kinds, (query shape, panic kind, panic position) at server level")
	r.Assume("which failing function's error Wait returns is schedule dependent (errgroup keeps the first): the oracle accepts any failing function of the group but demands exact attribution (identical error value, or that function's unique panic rendering plus a stack)")
	r.Assume("runtime.Goexit and os.Exit inside a guarded function are not panics and are not generated")
	hook := &logHook{entries: map[string][]string{}}
	logrus.AddHook(hook)
	logrus.SetLevel(logrus.ErrorLevel)

	base := runtime.NumGoroutine()

	ngroups := r.N(20000, 300000)
	r.Parallel("groups", 64, func(w int) {
		rec := g3lib.NewRec(r)
		defer rec.Flush()
		for i := w; i < ngroups; i += 64 {
			runGroup(rec, r.Rand("groups", i), i)
		}
	})
	left := settle(base)
	r.Eval(1)
	r.Extra("goroutines", map[string]int{"baseline": base, "after_groups": left})
	if left > base {
		buf := make([]byte, 1<<16)
		buf = buf[:runtime.Stack(buf, true)]
		r.Violation("group:goroutines-left-behind-at-quiescence", map[string]any{"baseline": base, "after": left, "stacks": trunc(string(buf), 6000)})
	}

	nral := r.N(4000, 40000)
	r.Parallel("recoverandlog", 32, func(w int) {
		rec := g3lib.NewRec(r)
		defer rec.Flush()
		for i := w; i < nral; i += 32 {
			recoverAndLogCase(rec, hook, r.Rand("recoverandlog", i), i)
		}
	})
	left = settle(base)
	r.Eval(1)
	if left > base {
		r.Violation("recoverandlog:goroutines-left-behind-at-quiescence", map[string]any{"baseline": base, "after": left})
	}

	serverLevel(r)

	reports, blocks := core.RaceReports()
	r.Count("race.blocks", int64(blocks))
	for _, rep := range reports {
		r.Violation(rep.Sig, rep.Block)
	}
	r.Floor(r.Counter("groups.with-panics") > int64(ngroups)/10, "too few groups with a panicking function")
	r.Floor(r.Counter("groups.clean") > 0, "no group without failure was observed")
	r.Finish()
}
