package main

// System level: a SQL function registered by the harness (no hook in /repo) panics when it meets a
// chosen row. Through a real TCP server the panic happens inside the handler's guarded pipeline
// goroutines (row reader or row-to-wire conversion); the client must get an error, the process and the
// other connections must keep working. In-process, a panic inside a GROUP BY runs in rowexec's guarded
// grouping goroutines and must come back as an error from the iterator, not as a panic.

import (
	"context"
	dsql "database/sql"
	"errors"
	"fmt"
	"strings"
	"sync"
	"sync/atomic"
	"time"

	"github.com/dolthub/go-mysql-server/sql"
	"github.com/dolthub/go-mysql-server/sql/types"

	"verif/harness/core"
	"verif/harness/g3lib"
)

// verifPanic(x, k, mode): returns x, panics when x == k.
type verifPanic struct{ x, k, mode sql.Expression }

var _ sql.FunctionExpression = (*verifPanic)(nil)

func (v *verifPanic) Resolved() bool {
	return v.x.Resolved() && v.k.Resolved() && v.mode.Resolved()
}
func (v *verifPanic) String() string {
	return fmt.Sprintf("verif_panic(%s, %s, %s)", v.x, v.k, v.mode)
}
func (v *verifPanic) FunctionName() string         { return "verif_panic" }
func (v *verifPanic) Description() string          { return "panics on a chosen row" }
func (v *verifPanic) Type(*sql.Context) sql.Type   { return types.Int64 }
func (v *verifPanic) IsNullable(*sql.Context) bool { return true }
func (v *verifPanic) IsNonDeterministic() bool     { return true }
func (v *verifPanic) Children() []sql.Expression   { return []sql.Expression{v.x, v.k, v.mode} }
func (v *verifPanic) WithChildren(_ *sql.Context, c ...sql.Expression) (sql.Expression, error) {
	if len(c) != 3 {
		return nil, fmt.Errorf("verif_panic: 3 children")
	}
	return &verifPanic{c[0], c[1], c[2]}, nil
}

var panicsRaised int64

func toI64(ctx *sql.Context, v any) (int64, bool) {
	if v == nil {
		return 0, false
	}
	c, _, err := types.Int64.Convert(ctx, v)
	if err != nil {
		return 0, false
	}
	x, ok := c.(int64)
	return x, ok
}

func (v *verifPanic) Eval(ctx *sql.Context, row sql.Row) (interface{}, error) {
	xv, err := v.x.Eval(ctx, row)
	if err != nil {
		return nil, err
	}
	kv, err := v.k.Eval(ctx, row)
	if err != nil {
		return nil, err
	}
	mv, err := v.mode.Eval(ctx, row)
	if err != nil {
		return nil, err
	}
	x, ok1 := toI64(ctx, xv)
	k, ok2 := toI64(ctx, kv)
	m, _ := toI64(ctx, mv)
	if ok1 && ok2 && x == k {
		atomic.AddInt64(&panicsRaised, 1)
		switch m {
		case 0:
			panic(fmt.Sprintf("verif-sql-canary-%d", k))
		case 1:
			panic(fmt.Errorf("verif-sql-canary-error-%d", k))
		case 2:
			var p *customPanic
			_ = p.Note
		case 3:
			panic(customPanic{ID: int(k), Note: "verif-sql-canary-struct"})
		case 4:
			return nil, fmt.Errorf("verif-sql-plain-error-%d", k) // control: an ordinary error
		case 5:
			deep(1500, fmt.Sprintf("verif-sql-canary-deep-%d", k))
		}
	}
	return x, nil
}

const tableRows = 700

// groupByPendingMax bounds the rows left unread behind a failing GROUP BY row in generated cases (the
// channel between rowexec's two grouping goroutines buffers 512 rows).
const groupByPendingMax = 400

const sigGroupByHang = "groupby-failure-with-more-than-512-rows-pending-never-returns"

var shapes = []struct {
	name string
	q    string // %[1]d = row limit, %[2]d = k, %[3]d = mode
	rows func(limit int) int
}{
	{"project", "SELECT id, verif_panic(id, %[2]d, %[3]d) FROM t WHERE id <= %[1]d", func(l int) int { return l }},
	{"filter", "SELECT id FROM t WHERE id <= %[1]d AND verif_panic(id, %[2]d, %[3]d) >= 0", func(l int) int { return l }},
	{"orderby", "SELECT id FROM t WHERE id <= %[1]d ORDER BY verif_panic(id, %[2]d, %[3]d) DESC", func(l int) int { return l }},
	{"groupby", "SELECT verif_panic(id, %[2]d, %[3]d) %% 7 AS g, COUNT(*) FROM t WHERE id <= %[1]d GROUP BY g", func(l int) int { return min(l, 7) }},
	{"aggregate", "SELECT SUM(verif_panic(id, %[2]d, %[3]d)) FROM t WHERE id <= %[1]d", func(l int) int { return 1 }},
	{"subquery", "SELECT id FROM t WHERE id <= %[1]d AND id IN (SELECT verif_panic(id, %[2]d, %[3]d) FROM t)", func(l int) int { return l }},
	// the panic is raised while the GROUP BY's child produces a row (rowexec's reading goroutine), not in the grouping one
	{"groupby-child-filter", "SELECT id %% 7 AS g, COUNT(*) FROM t WHERE id <= %[1]d AND verif_panic(id, %[2]d, %[3]d) >= 0 GROUP BY g", func(l int) int { return min(l, 7) }},
	{"groupby-child-derived", "SELECT x %% 7 AS g, COUNT(*) FROM (SELECT verif_panic(id, %[2]d, %[3]d) AS x FROM t WHERE id <= %[1]d) s GROUP BY g", func(l int) int { return min(l, 7) }},
}

var modeNames = []string{"panic-string", "panic-error", "nil-deref", "panic-struct", "plain-error", "deep-stack-panic"}

func posClass(k, limit int) string {
	switch {
	case k > limit:
		return "never"
	case k == 1:
		return "first-row"
	case k == limit:
		return "last-row"
	case k >= 127 && k <= 130:
		return "batch-boundary"
	}
	return "middle"
}

func serverLevel(r *core.Run) {
	e := core.NewEng("d")
	defer e.Close()
	setup := e.NewSess()
	e.E.Analyzer.Catalog.RegisterFunction(setup.Ctx(), sql.Function3{Name: "verif_panic", Fn: func(_ *sql.Context, a, b, c sql.Expression) sql.Expression {
		return &verifPanic{a, b, c}
	}})
	setup.MustExec("CREATE TABLE t (id INT PRIMARY KEY, v INT)")
	for lo := 1; lo <= tableRows; lo += 100 {
		var vs []string
		for id := lo; id < lo+100 && id <= tableRows; id++ {
			vs = append(vs, fmt.Sprintf("(%d,%d)", id, id%13))
		}
		setup.MustExec("INSERT INTO t VALUES " + strings.Join(vs, ","))
	}
	srv, err := e.StartServer()
	if err != nil {
		r.Inconclusive("server-did-not-start")
		return
	}
	defer srv.Close()

	const workers = 6
	ncases := r.N(360, 4000)
	var completed int64
	r.Parallel("server", workers, func(w int) {
		rec := g3lib.NewRec(r)
		defer rec.Flush()
		a, err1 := srv.Open("root", "", "")
		b, err2 := srv.Open("root", "", "")
		if err1 != nil || err2 != nil {
			r.Inconclusive("client-open-failed")
			return
		}
		defer a.Close()
		defer b.Close()
		inproc := e.NewSess()
		for i := w; i < ncases; i += workers {
			rnd := r.Rand("server", i)
			sh := shapes[rnd.Intn(len(shapes))]
			mode := rnd.Intn(len(modeNames))
			limit := []int{1, 5, 128, 129, 300, tableRows}[rnd.Intn(6)]
			var k int
			switch rnd.Intn(6) {
			case 0:
				k = 1
			case 1:
				k = limit
			case 2:
				k = tableRows + 1000 // never matches
			case 3:
				k = min(limit, 127+rnd.Intn(4))
			default:
				k = 1 + rnd.Intn(limit)
			}
			if strings.HasPrefix(sh.name, "groupby") && k <= limit && limit-k > groupByPendingMax {
				// known finding (via=domain): a failure in the grouping goroutine with more than 512 rows still
				// to be read leaves the reading goroutine blocked on its channel and Wait() never returns
				k = limit - rnd.Intn(groupByPendingMax+1)
				rec.Count("server.groupby-cases-moved-out-of-the-hanging-class", 1)
			}
			q := fmt.Sprintf(sh.q, limit, k, mode)
			// the subquery scans the whole table: it fails whenever k is a stored id
			willFail := k <= limit || (sh.name == "subquery" && k <= tableRows)
			if sh.name == "orderby" && limit < 2 {
				willFail = false // a single row is never compared, the sort expression is not evaluated
			}
			pc := posClass(k, limit)
			if sh.name == "subquery" && k <= tableRows && k > limit {
				pc = "middle"
			}
			wit := map[string]any{"case": i, "sql": q, "mode": modeNames[mode], "position": pc}

			// bystander: another connection keeps querying while the panicking statement runs
			stop := make(chan struct{})
			var bwg sync.WaitGroup
			var bErr atomic.Value
			var bQueries int64
			bwg.Add(1)
			go func() {
				defer bwg.Done()
				for {
					var n int
					cctx, cancel := context.WithTimeout(context.Background(), core.StmtTimeout)
					err := b.QueryRowContext(cctx, "SELECT COUNT(*) FROM t").Scan(&n)
					cancel()
					if err != nil {
						bErr.Store(fmt.Sprintf("error: %v", err))
						return
					}
					if n != tableRows {
						bErr.Store(fmt.Sprintf("count=%d", n))
						return
					}
					atomic.AddInt64(&bQueries, 1)
					select {
					case <-stop:
						return
					default:
					}
				}
			}()

			cctx, cancel := context.WithTimeout(context.Background(), core.StmtTimeout)
			nrows, qerr := runQuery(cctx, a, q)
			timedOut := errors.Is(cctx.Err(), context.DeadlineExceeded)
			cancel()
			close(stop)
			bwg.Wait()
			if timedOut {
				rec.Inconclusive("server-query-watchdog:" + sh.name)
				r.Extra("server_watchdog_case", wit)
				// the connection may be stuck: replace it
				a.Close()
				a, _ = srv.Open("root", "", "")
				continue
			}
			rec.Eval(1)
			atomic.AddInt64(&completed, 1)
			if qerr != nil {
				wit["client_error"] = trunc(qerr.Error(), 300)
			}
			wit["rows"] = nrows
			switch {
			case willFail && qerr == nil:
				rec.Violation("server:panicking-row-iterator-but-client-got-a-complete-result:"+sh.name+":"+modeNames[mode], wit)
			case !willFail && qerr != nil:
				rec.Violation("server:error-without-panic:"+sh.name, wit)
			case !willFail && nrows != sh.rows(limit):
				rec.Violation("server:wrong-row-count-without-panic:"+sh.name, wit)
			}
			if v := bErr.Load(); v != nil {
				wit["bystander"] = v
				rec.Violation("server:bystander-connection-disturbed-during-panicking-query:"+sh.name, wit)
			}
			if willFail && qerr != nil {
				rec.Count("server.failed-as-expected", 1)
				if mode != 4 {
					rec.Count("server.panic-turned-into-client-error", 1)
					if strings.Contains(qerr.Error(), "panic recovered") {
						rec.Count("server.client-error-mentions-panic-recovered", 1)
					}
				}
			}
			rec.Count("server.bystander-queries", atomic.LoadInt64(&bQueries))
			// the connection that saw the failure is usable afterwards (database/sql reconnects if it was dropped)
			var one int
			c2, cancel2 := context.WithTimeout(context.Background(), core.StmtTimeout)
			if err := a.QueryRowContext(c2, "SELECT 1").Scan(&one); err != nil || one != 1 {
				wit["after"] = fmt.Sprint(err)
				rec.Violation("server:connection-unusable-after-panicking-query:"+sh.name, wit)
			}
			cancel2()
			rec.Distinct(fmt.Sprintf("server|%s|%s|%s", sh.name, modeNames[mode], pc))
			if i < 6 && willFail {
				rec.Sample(wit)
			}

			// in-process: grouping goroutines of rowexec (errguard.Go in groupByGroupingIter.compute)
			if strings.HasPrefix(sh.name, "groupby") {
				res := inproc.Exec(q)
				if res.TimedOut {
					rec.Inconclusive("inprocess-groupby-watchdog")
					inproc = e.NewSess()
					continue
				}
				rec.Eval(1)
				switch {
				case res.Panic != nil && mode != 4:
					wit["panic"] = res.Panic.Value
					rec.Violation("inprocess:groupby-panic-escaped-the-guarded-goroutines:"+modeNames[mode], wit)
				case willFail && res.Err == nil && res.Panic == nil:
					rec.Violation("inprocess:groupby-complete-result-despite-panic", wit)
				case !willFail && res.Failed():
					rec.Violation("inprocess:groupby-error-without-panic", wit)
				}
				rec.Distinct(fmt.Sprintf("inprocess|groupby|%s|%s", modeNames[mode], pc))
			}
		}
	})
	pinnedGroupByHang(r, e)
	r.Count("server.cases-completed", completed)
	r.Count("server.panics-raised", atomic.LoadInt64(&panicsRaised))
	r.Floor(completed*10 >= int64(ncases)*8, fmt.Sprintf("only %d of %d server cases completed", completed, ncases))
	r.Floor(r.Counter("server.panic-turned-into-client-error") > int64(ncases)/5, "too few panicking queries reached the client as errors")
	r.Floor(r.Counter("server.bystander-queries") > 0, "no bystander query ran")
	_ = time.Second
}

func runQuery(ctx context.Context, db *dsql.DB, q string) (int, error) {
	rows, err := db.QueryContext(ctx, q)
	if err != nil {
		return 0, err
	}
	defer rows.Close()
	n := 0
	for rows.Next() {
		n++
	}
	return n, rows.Err()
}

// pinnedGroupByHang replays the known finding's witness in-process under a 10 s watchdog (the hung
// statement's goroutines stay behind; this runs last).
func pinnedGroupByHang(r *core.Run, e *core.Eng) {
	// The hang is a race between the reading goroutine filling its 512-row channel and the group
	// context being cancelled, so the witness is attempted several times; attempts that do not hang
	// return an error within milliseconds.
	q := fmt.Sprintf(shapes[3].q, tableRows, 1, 5)
	hung, attempts := false, 0
	var last *core.Result
	for attempts < 40 && !hung {
		attempts++
		s := e.NewSess()
		done := make(chan *core.Result, 1)
		go func() { done <- s.Exec(q) }()
		select {
		case last = <-done:
		case <-time.After(10 * time.Second):
			hung = true
		}
	}
	w := map[string]any{"sql": q, "rows_in_table": tableRows, "attempts": attempts, "an_attempt_did_not_return_within_10s": hung}
	if last != nil {
		w["outcome_of_returning_attempts"] = fmt.Sprint(last.Err)
	}
	r.Extra("groupby_hang_witness", w)
	r.Pinned(sigGroupByHang, fmt.Sprintf("GROUP BY whose grouping expression panics on row 1 of 700: attempt %d never returned (rowexec's reading goroutine stays blocked on its 512-row channel, errgroup.Wait never returns)", attempts), hung, w)
	r.Assume("GROUP BY cases whose failing row leaves more than 400 rows unread are moved out of the core domain (known finding " + sigGroupByHang + ", via=domain); a new break confined to that class is not seen")
}
