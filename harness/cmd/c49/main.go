// C49 — name suggestions pick a closest candidate.
//
// Reference: the distance the code documents (golang-levenshtein with default options: insert 1,
// delete 1, substitute 2), which is the indel distance |a| + |b| − 2·LCS(a, b) on bytes, computed here
// through a longest-common-subsequence table — a different algorithm from the two-row DP under test.
// Standard Levenshtein (substitute 1) is deliberately NOT the oracle (DESIGN §7).
//
// Oracle: with T = similartext.DistanceSkipped, the suggestion lists exactly the candidates whose
// distance to the name is minimal among those with distance < T (one entry per occurrence in the
// candidate list), and is empty iff no candidate is below T or the name is empty.
//
// Workload: (1) Find / FindFromMap directly through verifhook/internalshim; (2) end to end where a
// suggestion is reachable on this tree: unknown database names through SQL (USE x, SELECT … FROM x.t),
// the catalog's table lookup through its Go API.
package main

import (
	"fmt"
	"sort"
	"strings"

	"github.com/dolthub/go-mysql-server/sql"
	"github.com/dolthub/go-mysql-server/verifhook/internalshim"

	"verif/harness/core"
	"verif/harness/g2lib"
)

// indel is the reference distance: |a| + |b| − 2·LCS(a, b), bytewise.
func indel(a, b string) int {
	la, lb := len(a), len(b)
	lcs := make([][]int, la+1)
	for i := range lcs {
		lcs[i] = make([]int, lb+1)
	}
	for i := la - 1; i >= 0; i-- {
		for j := lb - 1; j >= 0; j-- {
			if a[i] == b[j] {
				lcs[i][j] = lcs[i+1][j+1] + 1
			} else if lcs[i+1][j] >= lcs[i][j+1] {
				lcs[i][j] = lcs[i+1][j]
			} else {
				lcs[i][j] = lcs[i][j+1]
			}
		}
	}
	return la + lb - 2*lcs[0][0]
}

// expected returns the candidates that must be suggested (in candidate order) and the minimal distance.
func expected(names []string, src string, threshold int) ([]string, int) {
	if src == "" {
		return nil, -1
	}
	min := -1
	for _, n := range names {
		d := indel(n, src)
		if d < threshold && (min == -1 || d < min) {
			min = d
		}
	}
	if min == -1 {
		return nil, -1
	}
	var out []string
	for _, n := range names {
		if indel(n, src) == min {
			out = append(out, n)
		}
	}
	return out, min
}

const prefix = ", maybe you mean "

// parse splits a suggestion text into the suggested names. ok=false: the text has another shape.
func parse(s string) (names []string, ok bool) {
	if s == "" {
		return nil, true
	}
	if !strings.HasPrefix(s, prefix) || !strings.HasSuffix(s, "?") {
		return nil, false
	}
	body := s[len(prefix) : len(s)-1]
	return strings.Split(body, " or "), true
}

func sorted(a []string) []string {
	b := append([]string{}, a...)
	sort.Strings(b)
	return b
}

// judge compares one suggestion with the reference. ordered=true also checks candidate order.
func judge(r *core.Run, entry string, names []string, src, got string, threshold int, extra map[string]any) bool {
	want, min := expected(names, src, threshold)
	r.Eval(1)
	wit := map[string]any{"entry": entry, "candidates": names, "name": src, "suggestion": got, "expected": want, "expected_min_distance": min, "threshold": threshold}
	dists := map[string]int{}
	for _, n := range names {
		dists[n] = indel(n, src)
	}
	wit["reference_distances"] = dists
	for k, v := range extra {
		wit[k] = v
	}
	gotNames, ok := parse(got)
	if !ok {
		r.Violation("suggestion-text-has-unexpected-shape:"+entry, wit)
		return false
	}
	switch {
	case len(want) == 0 && len(gotNames) > 0:
		if src == "" {
			r.Violation("suggestion-for-empty-name:"+entry, wit)
		} else {
			r.Violation("suggests-a-candidate-at-or-beyond-the-threshold:"+entry, wit)
		}
		return false
	case len(want) > 0 && len(gotNames) == 0:
		r.Violation("no-suggestion-although-a-candidate-qualifies:"+entry, wit)
		return false
	}
	if !core.SameStrings(sorted(gotNames), sorted(want)) {
		// which way is it wrong?
		wantSet := map[string]bool{}
		for _, w := range want {
			wantSet[w] = true
		}
		for _, g := range gotNames {
			if !wantSet[g] {
				r.Violation("suggests-a-candidate-that-is-not-closest:"+entry, wit)
				return false
			}
		}
		r.Violation("suggestion-misses-or-repeats-closest-candidates:"+entry, wit)
		return false
	}
	cls := "none"
	if len(want) > 0 {
		cls = fmt.Sprintf("min%d|ties%d", min, len(want))
	}
	beyond := 0
	for _, n := range names {
		if d := dists[n]; d >= threshold && d <= threshold+1 {
			beyond++
		}
	}
	r.Distinct(fmt.Sprintf("%s|%s|n%d|justbeyond%d|namelen%d", entry, cls, len(names), min3(beyond), len(src)))
	r.Count(entry+":"+cls, 1)
	return true
}

func min3(x int) int {
	if x > 3 {
		return 3
	}
	return x
}

const alphabet = "abcd"

func randWord(rnd interface{ Intn(int) int }, maxLen int) string {
	n := rnd.Intn(maxLen + 1)
	b := make([]byte, n)
	for i := range b {
		b[i] = alphabet[rnd.Intn(len(alphabet))]
		if rnd.Intn(12) == 0 {
			b[i] -= 32 // case variant
		}
	}
	return string(b)
}

// mutate applies k random single-byte edits.
func mutate(rnd interface{ Intn(int) int }, s string, k int) string {
	b := []byte(s)
	for ; k > 0; k-- {
		switch op := rnd.Intn(3); {
		case op == 0 || len(b) == 0: // insert
			p := rnd.Intn(len(b) + 1)
			b = append(b[:p], append([]byte{alphabet[rnd.Intn(len(alphabet))]}, b[p:]...)...)
		case op == 1: // delete
			p := rnd.Intn(len(b))
			b = append(b[:p], b[p+1:]...)
		default: // substitute
			b[rnd.Intn(len(b))] = alphabet[rnd.Intn(len(alphabet))]
		}
	}
	return string(b)
}

func genCase(rnd interface{ Intn(int) int }) (names []string, src string) {
	src = randWord(rnd, 8)
	if rnd.Intn(20) == 0 {
		src = ""
	}
	n := rnd.Intn(9)
	for i := 0; i < n; i++ {
		switch rnd.Intn(8) {
		case 0:
			names = append(names, src)
		case 1:
			names = append(names, strings.ToUpper(src))
		case 2, 3, 4:
			names = append(names, mutate(rnd, src, 1+rnd.Intn(3)))
		case 5:
			if len(names) > 0 {
				names = append(names, names[rnd.Intn(len(names))]) // duplicate
				break
			}
			fallthrough
		default:
			names = append(names, randWord(rnd, 8))
		}
	}
	return
}

func main() {
	r := core.NewRun("C49", "exploration",
		"one evaluation = one (candidate list, name) instance whose suggestion is compared with the indel-distance reference; distinct = (entry point, minimal distance and number of ties or none, list size, candidates just beyond the threshold, name length)")
	threshold := internalshim.DistanceSkipped()
	r.Extra("threshold_DistanceSkipped", threshold)
	r.Assume("documented metric: insert 1, delete 1, substitute 2 (indel distance), bytewise and case-sensitive; standard Levenshtein is not the oracle")
	r.Assume("ties: all candidates at the minimal distance are listed once per occurrence (documented by the pinned test 'aka or ake'); order is not judged")
	r.Floor(threshold >= 1, "DistanceSkipped < 1")

	direct(r, threshold)
	viaSQL(r, threshold)
	viaCatalog(r, threshold)
	r.Finish()
}

func direct(r *core.Run, threshold int) {
	n := r.N(100000, 5000000)
	per := 2000
	r.Parallel("direct", (n+per-1)/per, func(w int) {
		rnd := r.Rand("direct", w)
		for k := 0; k < per; k++ {
			names, src := genCase(rnd)
			var got string
			if p := g2lib.Guard(func() { got = internalshim.SimilarFind(names, src) }); p != nil {
				r.Violation(p.Sig(), map[string]any{"entry": "Find", "candidates": names, "name": src, "panic": p.Value})
				continue
			}
			ok := judge(r, "Find", names, src, got, threshold, nil)
			if ok && w == 0 && k < 3 {
				r.Sample(map[string]any{"entry": "Find", "candidates": names, "name": src, "suggestion": got})
			}
			// the map form: candidates are the keys
			m := map[string]int{}
			for i, x := range names {
				m[x] = i
			}
			var keys []string
			for x := range m {
				keys = append(keys, x)
			}
			sort.Strings(keys)
			if p := g2lib.Guard(func() { got = internalshim.SimilarFindFromMap(m, src) }); p != nil {
				r.Violation(p.Sig(), map[string]any{"entry": "FindFromMap", "candidates": keys, "name": src, "panic": p.Value})
				continue
			}
			judge(r, "FindFromMap", keys, src, got, threshold, nil)
		}
	})
	r.Floor(r.Counter("Find:none") > 100 && r.Counter("Find:min0|ties1") > 100 && r.Counter("Find:min2|ties1") > 100, "direct: outcome classes none / exact / distance-2 were not all reached")
}

// extract takes the suggestion part out of an error text "...: <name><suggestion>".
func extract(msg, name string) (string, bool) {
	k := strings.Index(msg, ": "+name)
	if k < 0 {
		return "", false
	}
	return msg[k+2+len(name):], true
}

func dbWord(rnd interface{ Intn(int) int }) string {
	// database / table identifiers: lower-case letters, at least 2 characters, prefixed so that they
	// cannot collide with system schemas or keywords
	w := "q"
	n := 1 + rnd.Intn(5)
	for i := 0; i < n; i++ {
		w += string(alphabet[rnd.Intn(len(alphabet))])
	}
	return w
}

func viaSQL(r *core.Run, threshold int) {
	n := r.N(300, 10000)
	const workers = 8
	r.Parallel("sql", workers, func(w int) {
		for i := w; i < n; i += workers {
			rnd := r.Rand("sql", i)
			e := core.NewEng("d")
			s := e.NewSess()
			made := map[string]bool{}
			var setup []string
			for k := rnd.Intn(6); k > 0; k-- {
				name := dbWord(rnd)
				if made[name] {
					continue
				}
				q := "CREATE DATABASE " + name
				if res := s.Exec(q); res.Failed() {
					continue
				}
				made[name] = true
				setup = append(setup, q)
			}
			// candidate list = what the provider holds (lower-cased keys)
			var names []string
			for _, db := range e.Pro.AllDatabases(s.Ctx()) {
				names = append(names, strings.ToLower(db.Name()))
			}
			sort.Strings(names)
			for trial := 0; trial < 3; trial++ {
				var unknown string
				if len(names) > 0 && rnd.Intn(4) != 0 {
					unknown = mutate(rnd, names[rnd.Intn(len(names))], 1+rnd.Intn(3))
				} else {
					unknown = dbWord(rnd)
				}
				if unknown == "" || made[unknown] || contains(names, unknown) || unknown == "information_schema" || unknown == "mysql" || !isIdent(unknown) {
					continue
				}
				var q string
				if trial%2 == 0 {
					q = "USE " + unknown
				} else {
					q = "SELECT * FROM " + unknown + ".t"
				}
				res := s.Exec(q)
				if res.TimedOut {
					r.Inconclusive("timeout")
					continue
				}
				if res.Panic != nil {
					r.Violation(g2lib.CorePanicSig(res.Panic), map[string]any{"setup": setup, "sql": q, "panic": res.Panic.Value})
					continue
				}
				if res.Err == nil || !sql.ErrDatabaseNotFound.Is(res.Err) {
					r.Inconclusive("statement-did-not-fail-with-database-not-found")
					r.Extra("inconclusive_example", map[string]any{"setup": setup, "sql": q, "error": fmt.Sprint(res.Err)})
					continue
				}
				sug, ok := extract(res.Err.Error(), unknown)
				if !ok {
					r.Inconclusive("error-text-without-the-name")
					continue
				}
				if judge(r, "sql-database", names, unknown, sug, threshold, map[string]any{"setup": setup, "sql": q, "error": res.Err.Error()}) && i < 2 {
					r.Sample(map[string]any{"entry": "sql-database", "databases": names, "sql": q, "error": res.Err.Error()})
				}
			}
			e.Close()
		}
	})
	r.Floor(r.Counter("sql-database:none")+r.Counter("sql-database:min1|ties1")+r.Counter("sql-database:min2|ties1") > 20, "SQL: unknown-database suggestions were not reached")
}

func contains(a []string, x string) bool {
	for _, y := range a {
		if y == x {
			return true
		}
	}
	return false
}

func isIdent(s string) bool {
	for _, c := range s {
		if !(c >= 'a' && c <= 'z') {
			return false
		}
	}
	return len(s) > 0
}

// viaCatalog: the analyzer catalog's table lookup (sql/analyzer/catalog.go suggestSimilarTables).
func viaCatalog(r *core.Run, threshold int) {
	n := r.N(300, 10000)
	const workers = 8
	r.Parallel("catalog", workers, func(w int) {
		for i := w; i < n; i += workers {
			rnd := r.Rand("catalog", i)
			e := core.NewEng("d")
			s := e.NewSess()
			made := map[string]bool{}
			var setup []string
			for k := rnd.Intn(7); k > 0; k-- {
				name := dbWord(rnd)
				if made[name] {
					continue
				}
				q := fmt.Sprintf("CREATE TABLE %s (id INT PRIMARY KEY)", name)
				if res := s.Exec(q); res.Failed() {
					continue
				}
				made[name] = true
				setup = append(setup, q)
			}
			ctx := s.Ctx()
			db, err := e.Pro.Database(ctx, "d")
			if err != nil {
				r.Inconclusive("database-d-missing")
				e.Close()
				continue
			}
			names, err := db.GetTableNames(ctx)
			if err != nil {
				r.Inconclusive("table-names-unavailable")
				e.Close()
				continue
			}
			sort.Strings(names)
			for trial := 0; trial < 3; trial++ {
				var unknown string
				if len(names) > 0 && rnd.Intn(4) != 0 {
					unknown = mutate(rnd, names[rnd.Intn(len(names))], 1+rnd.Intn(3))
				} else {
					unknown = dbWord(rnd)
				}
				if unknown == "" || made[strings.ToLower(unknown)] || contains(names, unknown) {
					continue
				}
				var lerr error
				if p := g2lib.Guard(func() { _, _, lerr = e.E.Analyzer.Catalog.Table(ctx, "d", unknown) }); p != nil {
					r.Violation(p.Sig(), map[string]any{"setup": setup, "lookup": unknown, "panic": p.Value})
					continue
				}
				if lerr == nil || !sql.ErrTableNotFound.Is(lerr) {
					r.Inconclusive("lookup-did-not-fail-with-table-not-found")
					continue
				}
				sug, ok := extract(lerr.Error(), unknown)
				if !ok {
					r.Inconclusive("error-text-without-the-name")
					continue
				}
				if judge(r, "catalog-table", names, unknown, sug, threshold, map[string]any{"setup": setup, "lookup": unknown, "error": lerr.Error()}) && i < 2 {
					r.Sample(map[string]any{"entry": "catalog-table", "tables": names, "lookup": unknown, "error": lerr.Error()})
				}
			}
			e.Close()
		}
	})
	r.Floor(r.Counter("catalog-table:none")+r.Counter("catalog-table:min1|ties1")+r.Counter("catalog-table:min2|ties1") > 20, "catalog: unknown-table suggestions were not reached")
}
