// C50 — data exported with SELECT … INTO OUTFILE loads back identically with LOAD DATA INFILE.
//
// Oracle (metamorphic): table t (generated schema and rows) is exported with an option set, loaded into
// a same-schema table t2 with the same option set, and SELECT * of both must be equal as multisets of
// canonical rows, NULL distinct from every value. Files live under the run's scratch directory, which is
// what secure_file_priv is set to.
//
// Core domain (DESIGN §4 C50 / F25): string values over letters, digits, space, '.', '_', '-' and
// multi-byte text, the empty string, NULL, integers of every width, decimals, simple doubles, booleans,
// temporal columns (the file holds Go's time text, which the engine's own loader reads back).
// Excluded by a predicate on the input (known finding F25, via=domain, each with a pinned witness): values
// containing the enclosure, escape or a terminator / line-prefix string, the texts \N and NULL, and
// binary columns.
package main

import (
	"fmt"
	"math/rand"
	"os"
	"path/filepath"
	"strings"

	"github.com/dolthub/go-mysql-server/sql"

	"verif/harness/core"
	"verif/harness/g12lib"
)

type opts struct {
	ft, enc, esc, lt, sb string
	encOpt               bool
	defaults             bool // no FIELDS / LINES clause at all
}

func (o opts) clause() string {
	if o.defaults {
		return ""
	}
	var b strings.Builder
	b.WriteString(" FIELDS TERMINATED BY " + g12lib.Q(o.ft))
	if o.enc != "" {
		if o.encOpt {
			b.WriteString(" OPTIONALLY")
		}
		b.WriteString(" ENCLOSED BY " + g12lib.Q(o.enc))
	}
	b.WriteString(" ESCAPED BY " + g12lib.Q(o.esc))
	b.WriteString(" LINES")
	if o.sb != "" {
		b.WriteString(" STARTING BY " + g12lib.Q(o.sb))
	}
	b.WriteString(" TERMINATED BY " + g12lib.Q(o.lt))
	return b.String()
}

func (o opts) key() string {
	if o.defaults {
		return "defaults"
	}
	return fmt.Sprintf("ft=%q enc=%q opt=%v esc=%q lt=%q sb=%q", o.ft, o.enc, o.encOpt, o.esc, o.lt, o.sb)
}

// grid enumerates the option grid; combinations MySQL documents as ambiguous (escape character equal to a
// terminator or to the enclosure) are left out.
func grid() []opts {
	out := []opts{{defaults: true, ft: "\t", esc: "\\", lt: "\n"}}
	for _, ft := range []string{",", "\t", "|", "ab"} {
		for _, enc := range []struct {
			c   string
			opt bool
		}{{"", false}, {"\"", false}, {"\"", true}, {"'", false}, {"'", true}} {
			for _, esc := range []string{"\\", "|", ""} {
				for _, lt := range []string{"\n", "\r\n", ";;"} {
					for _, sb := range []string{"", ">>"} {
						if esc != "" && (esc == ft || esc == enc.c) {
							continue
						}
						out = append(out, opts{ft: ft, enc: enc.c, encOpt: enc.opt, esc: esc, lt: lt, sb: sb})
					}
				}
			}
		}
	}
	return out
}

type colSpec struct {
	typ  string
	kind string // str | int | dec | dbl | bool
	gen  func(rnd *rand.Rand) string // SQL literal
}

// "q;z", ">q": the first byte of a multi-byte line terminator / line prefix on its own, inside a value
var strAlphabet = []string{"a", "b", "c", "x", "Z", "Q", "q;z", ">q", "0", "1", "7", " ", " ", ".", "_", "-", "é", "ß", "日本", "語", "😀", "ab", "NUL", "N", "ULL"}

func genStr(max int) func(rnd *rand.Rand) string {
	return func(rnd *rand.Rand) string {
		if rnd.Intn(6) == 0 {
			return "''"
		}
		n := 1 + rnd.Intn(max)
		var b strings.Builder
		for i := 0; i < n; i++ {
			b.WriteString(strAlphabet[rnd.Intn(len(strAlphabet))])
		}
		return g12lib.Q(b.String())
	}
}

func pickLit(vals ...string) func(rnd *rand.Rand) string {
	return func(rnd *rand.Rand) string { return vals[rnd.Intn(len(vals))] }
}

var colPalette = []colSpec{
	{"VARCHAR(60)", "str", genStr(8)},
	{"TEXT", "str", genStr(12)},
	{"CHAR(20)", "str", genStr(5)},
	{"VARCHAR(60) COLLATE utf8mb4_0900_ai_ci", "str", genStr(6)},
	{"INT", "int", pickLit("0", "1", "-1", "2147483647", "-2147483648", "42", "1000000")},
	{"BIGINT", "int", pickLit("0", "-9223372036854775808", "9223372036854775807", "123456789012", "-7")},
	{"BIGINT UNSIGNED", "int", pickLit("0", "18446744073709551615", "9223372036854775808", "5")},
	{"TINYINT", "int", pickLit("-128", "127", "0", "9")},
	{"SMALLINT UNSIGNED", "int", pickLit("0", "65535", "300")},
	{"DECIMAL(20,5)", "dec", pickLit("0", "1.5", "-999999999999999.99999", "999999999999999.99999", "0.00001", "-0.10000", "12345.67890")},
	{"DECIMAL(10,0)", "dec", pickLit("0", "-9999999999", "9999999999", "17")},
	{"DOUBLE", "dbl", pickLit("0", "1.5", "-0.25", "123456", "1e20", "-2.5e-7", "3.141592653589793")},
	{"BOOLEAN", "bool", pickLit("TRUE", "FALSE")},
	// temporal values are written in Go's time format, which the engine's loader reads back: inside the domain
	{"DATE", "time", pickLit("'2020-02-29'", "'1000-01-01'", "'9999-12-31'", "'1970-01-01'")},
	{"DATETIME", "time", pickLit("'2020-02-29 12:34:56'", "'1000-01-01 00:00:00'", "'9999-12-31 23:59:59'")},
	{"DATETIME(6)", "time", pickLit("'2020-02-29 12:34:56.789012'", "'1999-12-31 23:59:59.999999'", "'2001-01-01 00:00:00.000001'")},
	{"TIMESTAMP", "time", pickLit("'2020-02-29 12:34:56'", "'1970-01-01 00:00:01'", "'2038-01-19 03:14:07'")},
	{"TIME", "time", pickLit("'12:34:56'", "'-838:59:59'", "'838:59:59'", "'00:00:00'")},
	{"YEAR", "time", pickLit("1901", "2155", "2020", "1999")}, // YEAR 0 is excluded: pinned witness f25-year-zero
}

// valueExcluded is the domain predicate of F25 on one string value under one option set.
func valueExcluded(v string, o opts) bool {
	if v == "NULL" || strings.Contains(v, "\\N") {
		return true
	}
	for _, s := range []string{o.ft, o.enc, o.esc, o.lt, o.sb, "\n", "\r"} {
		if s != "" && strings.Contains(v, s) {
			return true
		}
	}
	return false
}

type caseData struct {
	create  string
	create2 string
	inserts []string
	cols    []colSpec
}

func genTable(rnd *rand.Rand, o opts) caseData {
	nc := 1 + rnd.Intn(5)
	var cd caseData
	var defs []string
	for c := 0; c < nc; c++ {
		cs := colPalette[rnd.Intn(len(colPalette))]
		cd.cols = append(cd.cols, cs)
		defs = append(defs, fmt.Sprintf("c%d %s", c, cs.typ))
	}
	cd.create = "CREATE TABLE t (" + strings.Join(defs, ", ") + ")"
	cd.create2 = "CREATE TABLE t2 (" + strings.Join(defs, ", ") + ")"
	nr := rnd.Intn(9)
	for k := 0; k < nr; k++ {
		var vals []string
		for _, cs := range cd.cols {
			if rnd.Intn(6) == 0 {
				vals = append(vals, "NULL")
				continue
			}
			lit := cs.gen(rnd)
			if cs.kind == "str" {
				// regenerate until the value is inside the core domain for this option set
				for tries := 0; tries < 50; tries++ {
					raw := strings.ReplaceAll(strings.Trim(lit, "'"), "''", "'")
					if !valueExcluded(raw, o) {
						break
					}
					lit = cs.gen(rnd)
					if tries == 49 {
						lit = "'x'"
					}
				}
			}
			vals = append(vals, lit)
		}
		cd.inserts = append(cd.inserts, "INSERT INTO t VALUES ("+strings.Join(vals, ", ")+")")
	}
	return cd
}

// roundTrip runs export + load and returns both row sets (sorted canonical) or the failing step.
func roundTrip(s *core.Sess, dir string, name string, o opts, cd caseData) (a, b []string, failStep string, failRes *core.Result, file string) {
	for _, q := range append([]string{cd.create, cd.create2}, cd.inserts...) {
		if res := s.Exec(q); res.Failed() {
			return nil, nil, "setup: " + q, res, ""
		}
	}
	file = filepath.Join(dir, name)
	os.Remove(file)
	q1 := "SELECT * FROM t INTO OUTFILE " + g12lib.Q(file) + o.clause()
	if res := s.Exec(q1); res.Failed() {
		return nil, nil, q1, res, file
	}
	q2 := "LOAD DATA INFILE " + g12lib.Q(file) + " INTO TABLE t2" + o.clause()
	if res := s.Exec(q2); res.Failed() {
		return nil, nil, q2, res, file
	}
	ra := s.Exec("SELECT * FROM t")
	rb := s.Exec("SELECT * FROM t2")
	if ra.Failed() || rb.Failed() {
		return nil, nil, "read back", ra, file
	}
	return core.SortedRows(ra.Rows), core.SortedRows(rb.Rows), "", nil, file
}

func fileText(path string) string {
	b, err := os.ReadFile(path)
	if err != nil {
		return "(unreadable: " + err.Error() + ")"
	}
	return core.Clip(fmt.Sprintf("%q", string(b)), 1500)
}

func main() {
	if len(os.Args) > 1 && os.Args[1] == "probe" {
		setSecureDir("/tmp")
		g12lib.ProbeMain(nil)
		return
	}
	r := core.NewRun("C50", "exploration",
		"for a generated table and option set, SELECT * FROM t INTO OUTFILE f <opts> followed by LOAD DATA INFILE f INTO TABLE t2 <same opts> must make SELECT * FROM t2 equal SELECT * FROM t as a multiset of canonical rows (NULL preserved); distinct = (option set, column kinds, NULL present, empty string present)")
	r.Assume("core domain: strings over letters/digits/space/._-/multi-byte text, empty string, NULL, integers, decimals, simple doubles, booleans; values containing the enclosure / escape / terminator / line-prefix strings, the texts \\N and NULL, and binary columns are excluded (F25, via=domain, pinned witnesses)")
	r.Assume("option combinations MySQL documents as ambiguous are not generated: escape character equal to the field terminator or to the enclosure character")
	dir := filepath.Join(r.Scratch(), "outfiles")
	os.MkdirAll(dir, 0o755)
	if err := setSecureDir(dir); err != nil {
		r.Floor(false, "cannot set secure_file_priv: "+err.Error())
		r.Finish()
	}
	g := grid()
	r.Extra("option_sets", len(g))
	n := r.N(1200, 20000)
	r.Parallel("roundtrip", n, func(i int) {
		rnd := r.Rand("roundtrip", i)
		o := g[i%len(g)]
		cd := genTable(rnd, o)
		e := core.NewEng("d")
		defer e.Close()
		s := e.NewSess()
		a, b, step, fres, file := roundTrip(s, dir, fmt.Sprintf("case-%d.txt", i), o, cd)
		defer os.Remove(file)
		wit := func() map[string]any {
			return map[string]any{"create": cd.create, "inserts": cd.inserts, "options": o.clause(), "file": fileText(file), "exported": a, "loaded": b, "case": i}
		}
		if step != "" {
			switch {
			case fres.Panic != nil:
				w := wit()
				w["step"], w["panic"] = step, fres.Panic.Value
				r.Violation(g12lib.PanicSig(fres.Panic.Stack, fres.Panic.Value, core.StripVolatile), w)
			case fres.TimedOut:
				r.Inconclusive("watchdog")
			case strings.HasPrefix(step, "setup"):
				r.Inconclusive("setup-refused:" + fres.ErrClass())
			case fres.Err != nil && (fres.ErrClass() == "1064" || strings.Contains(fres.Err.Error(), "unsupported")):
				r.Inconclusive("option-set-not-supported:" + o.key())
			default:
				w := wit()
				w["step"], w["error"] = step, fmt.Sprint(fres.Err)
				kind := "load-error"
				if strings.HasPrefix(step, "SELECT") {
					kind = "outfile-error"
				}
				r.Eval(1)
				r.Violation(g12lib.NoSpace(kind+":"+fres.ErrClass()+":"+core.StripVolatile(fmt.Sprint(fres.Err))), w)
			}
			return
		}
		r.Eval(1)
		kinds := map[string]bool{}
		for _, c := range cd.cols {
			kinds[c.kind] = true
		}
		var ks []string
		for _, k := range []string{"str", "int", "dec", "dbl", "bool", "time"} {
			if kinds[k] {
				ks = append(ks, k)
			}
		}
		hasNull, hasEmpty := false, false
		for _, row := range a {
			if strings.Contains(row, "NULL") {
				hasNull = true
			}
			if strings.Contains(row, "''") {
				hasEmpty = true
			}
		}
		if len(a) > 0 {
			r.Count("nonempty-tables", 1)
			r.Distinct(fmt.Sprintf("%s|%s|null=%v|empty=%v", o.key(), strings.Join(ks, "+"), hasNull, hasEmpty))
		}
		if hasNull {
			r.Count("tables-with-null", 1)
		}
		if !core.SameStrings(a, b) {
			r.Violation(classify(a, b, cd), wit())
			return
		}
		if len(a) > 1 {
			r.Sample(map[string]any{"create": cd.create, "options": o.clause(), "rows": core.ClipStrings(a, 4), "file": fileText(file)})
		}
	})
	pinned(r, dir)
	r.Floor(r.Counter("nonempty-tables") >= int64(n/2), "fewer than half of the cases exported a non-empty table")
	r.Floor(r.Counter("tables-with-null") > 20, "fewer than 20 exported tables contained NULL")
	r.Finish()
}

// classify names the failure mode: which column kinds differ and how.
func classify(a, b []string, cd caseData) string {
	if len(a) != len(b) {
		return "roundtrip-row-count-differs"
	}
	// drop the rows both sides have, then compare what is left position by position
	inB := map[string]int{}
	for _, x := range b {
		inB[x]++
	}
	var ra, rb []string
	for _, x := range a {
		if inB[x] > 0 {
			inB[x]--
			continue
		}
		ra = append(ra, x)
	}
	inA := map[string]int{}
	for _, x := range a {
		inA[x]++
	}
	for _, x := range b {
		if inA[x] > 0 {
			inA[x]--
			continue
		}
		rb = append(rb, x)
	}
	a, b = ra, rb
	kinds := map[string]bool{}
	for i := range a {
		if a[i] == b[i] {
			continue
		}
		fa, fb := strings.Split(a[i], "|"), strings.Split(b[i], "|")
		if len(fa) != len(fb) || len(fa) != len(cd.cols) {
			return "roundtrip-row-shape-differs"
		}
		for c := range fa {
			if fa[c] != fb[c] {
				mode := "value-changed"
				if fa[c] == "NULL" {
					mode = "null-became-value"
				} else if fb[c] == "NULL" {
					mode = "value-became-null"
				}
				kinds[cd.cols[c].kind+":"+mode] = true
			}
		}
	}
	var ks []string
	for k := range kinds {
		ks = append(ks, k)
	}
	if len(ks) == 0 {
		return "roundtrip-rows-differ"
	}
	sortStrings(ks)
	return "roundtrip-differs:" + strings.Join(ks, ",")
}

func sortStrings(a []string) {
	for i := 1; i < len(a); i++ {
		for j := i; j > 0 && a[j] < a[j-1]; j-- {
			a[j], a[j-1] = a[j-1], a[j]
		}
	}
}

func setSecureDir(dir string) error {
	// secure_file_priv is not dynamic: assign it the way a server start-up configuration does
	return sql.SystemVariables.AssignValues(map[string]interface{}{"secure_file_priv": dir})
}

// pinned replays the F25 witnesses (input classes excluded from the core domain).
func pinned(r *core.Run, dir string) {
	std := opts{ft: ",", enc: "\"", encOpt: true, esc: "\\", lt: "\n"}
	type pw struct {
		sig, what string
		o         opts
		create    string
		insert    string
	}
	ws := []pw{
		{"f25-enclosure-char-in-value", "a value containing the enclosure character is written unescaped and splits / corrupts on load", std, "c0 INT, c1 VARCHAR(30)", "(3, 'a\",b')"},
		{"f25-escape-char-in-value", "a value containing the escape character is written undoubled and loses it on load", std, "c0 INT, c1 VARCHAR(30)", "(6, 'back\\\\slash')"},
		{"f25-field-terminator-in-value", "a value containing the field terminator is written unescaped (no enclosure) and splits on load", opts{ft: ",", esc: "\\", lt: "\n"}, "c0 INT, c1 VARCHAR(30)", "(1, 'a,b')"},
		{"f25-line-terminator-in-value", "a value containing the line terminator does not survive the round trip", std, "c0 INT, c1 VARCHAR(30)", "(7, 'new\\nline')"},
		{"f25-backslash-N-text", "the two-character string \\N is indistinguishable from NULL", std, "c0 INT, c1 VARCHAR(30)", "(9, '\\\\N')"},
		{"f25-NULL-word-text", "the string 'NULL' is loaded as NULL even when enclosed", std, "c0 INT, c1 VARCHAR(30)", "(10, 'NULL')"},
		{"f25-year-zero", "YEAR 0000 is written as 0 and loads back as 2000", std, "c0 INT, c1 YEAR", "(13, 0)"},
		{"f25-binary-column", "BLOB/VARBINARY values are written as Go byte-slice text and do not load back", std, "c0 INT, c1 VARBINARY(10)", "(12, X'616263')"},
	}
	for k, w := range ws {
		e := core.NewEng("d")
		s := e.NewSess()
		cd := caseData{create: "CREATE TABLE t (" + w.create + ")", create2: "CREATE TABLE t2 (" + w.create + ")", inserts: []string{"INSERT INTO t VALUES " + w.insert}}
		a, b, step, fres, file := roundTrip(s, dir, fmt.Sprintf("pinned-%d.txt", k), w.o, cd)
		still := step != "" || !core.SameStrings(a, b)
		detail := ""
		if step != "" {
			detail = fmt.Sprintf(" (failed at %s: err=%v)", core.Clip(step, 60), fres.Err)
		} else if still {
			detail = fmt.Sprintf(" (exported %v, loaded %v)", a, b)
		}
		r.Eval(1)
		r.Pinned(w.sig, w.what+detail, still, map[string]any{"create": cd.create, "insert": cd.inserts, "options": w.o.clause(), "file": fileText(file), "exported": a, "loaded": b})
		os.Remove(file)
		e.Close()
	}
}
