// C51 — full-text search matches the indexed words and stays in sync.
//
// Oracle (reference tokenizer + match semantics, evaluated over the rows the table actually holds after
// every step of a DML history): for a search string S, a row matches iff some word of S equals some
// word of the row's document (the space-joined indexed columns) under the column collation.
//   (a) SELECT id FROM t WHERE MATCH(cols) AGAINST (S)            id multiset == ids of matching rows
//   (b) SELECT id, MATCH(cols) AGAINST (S) FROM t                 relevance > 0 exactly for matching rows
//   (c) … WHERE MATCH … ORDER BY MATCH … DESC                     a permutation of the matching ids
// after INSERT / UPDATE / DELETE / REPLACE / ON DUPLICATE KEY UPDATE / TRUNCATE steps and after ALTER
// TABLE DROP INDEX / ADD FULLTEXT on the populated table. Stop words and the 50 % threshold of MySQL are
// not assumed (the engine's parser has neither); boolean mode is out of scope.
package main

import (
	"fmt"
	"math/rand"
	"os"
	"sort"
	"strings"

	"verif/harness/core"
	"verif/harness/g12lib"
)

var vocab = []string{"apple", "Apple", "APPLE", "moon", "dog", "dogs", "cat", "quick", "brown", "fox", "don't", "rock'n'roll", "o'clock", "x2", "42", "2024", "abc_def", "_id", "go", "a", "to", "is",
	"café", "cafe", "résumé", "resume", "日本語", "日", "zebra", "lazy", "Moon", "über", "don", "roll", "clock"}
var separators = []string{" ", " ", " ", "  ", ", ", ". ", "-", "; ", "\t", " (", ") ", "! ", "/", " '", "' ", "\"", "+", "\n"}

type collSpec struct {
	name   string
	family string // bin | ci
}

var colls = []collSpec{{"utf8mb4_0900_ai_ci", "ci"}, {"utf8mb4_bin", "bin"}, {"utf8mb4_0900_bin", "bin"}, {"utf8mb4_general_ci", "ci"}}

type keyKind int

const (
	keyPK keyKind = iota
	keyUnique
	keyNone
	keyCompositePK
)

type tableSpec struct {
	key    keyKind
	ncols  int // 1 or 2 indexed columns
	coll   collSpec
	colTyp string
}

func (ts tableSpec) create() string {
	cols := []string{}
	switch ts.key {
	case keyPK:
		cols = append(cols, "id INT PRIMARY KEY")
	case keyUnique:
		cols = append(cols, "id INT NOT NULL")
	case keyNone:
		cols = append(cols, "id INT")
	case keyCompositePK:
		cols = append(cols, "id INT", "k2 INT")
	}
	cols = append(cols, fmt.Sprintf("d1 %s COLLATE %s", ts.colTyp, ts.coll.name))
	if ts.ncols == 2 {
		cols = append(cols, fmt.Sprintf("d2 %s COLLATE %s", ts.colTyp, ts.coll.name))
	}
	cols = append(cols, "other INT")
	switch ts.key {
	case keyUnique:
		cols = append(cols, "UNIQUE KEY uq (id)")
	case keyCompositePK:
		cols = append(cols, "PRIMARY KEY (id, k2)")
	}
	cols = append(cols, "FULLTEXT KEY ftx ("+ts.ftCols()+")")
	return "CREATE TABLE ft (" + strings.Join(cols, ", ") + ")"
}

func (ts tableSpec) ftCols() string {
	if ts.ncols == 2 {
		return "d1, d2"
	}
	return "d1"
}

func (ts tableSpec) keyName() string {
	return [...]string{"pk", "unique", "keyless", "composite-pk"}[ts.key]
}

func genDoc(rnd *rand.Rand) *string {
	if rnd.Intn(10) == 0 {
		return nil
	}
	n := rnd.Intn(13)
	var b strings.Builder
	if rnd.Intn(6) == 0 {
		b.WriteString(pick(rnd, separators))
	}
	for i := 0; i < n; i++ {
		if i > 0 {
			b.WriteString(pick(rnd, separators))
		}
		b.WriteString(pick(rnd, vocab))
	}
	if rnd.Intn(6) == 0 {
		b.WriteString(pick(rnd, separators))
	} else if n > 0 && rnd.Intn(6) == 0 {
		b.WriteString("'") // the text ends with an apostrophe directly after its last word
	}
	s := b.String()
	return &s
}

func genSearch(rnd *rand.Rand) string {
	n := 1 + rnd.Intn(3)
	var parts []string
	for i := 0; i < n; i++ {
		w := pick(rnd, vocab)
		switch rnd.Intn(8) {
		case 0:
			w = "absentword"
		case 1:
			w = strings.ToUpper(w)
		case 2:
			if len(parts) > 0 {
				w = parts[rnd.Intn(len(parts))] // repeated word
			}
		}
		parts = append(parts, w)
	}
	sep := " "
	if rnd.Intn(5) == 0 {
		sep = pick(rnd, separators)
	}
	if rnd.Intn(10) == 0 {
		return strings.Join(parts, sep) + "'"
	}
	return strings.Join(parts, sep)
}

func pick[T any](rnd *rand.Rand, xs []T) T { return xs[rnd.Intn(len(xs))] }

func lit(p *string) string {
	if p == nil {
		return "NULL"
	}
	return g12lib.Q(*p)
}

type row struct {
	id  string // canonical id (may repeat in keyless tables)
	doc string
}

// readRows returns the table's current rows: id and the document the tokenizer should see.
func readRows(s *core.Sess, ts tableSpec) ([]row, bool) {
	q := "SELECT id, d1 FROM ft"
	if ts.ncols == 2 {
		q = "SELECT id, d1, d2 FROM ft"
	}
	res := s.Exec(q)
	if res.Failed() {
		return nil, false
	}
	var out []row
	for _, r := range res.Rows {
		var cols []*string
		for _, v := range r[1:] {
			if v == nil {
				cols = append(cols, nil)
				continue
			}
			str := fmt.Sprint(v)
			cols = append(cols, &str)
		}
		out = append(out, row{id: core.Canon(r[0]), doc: g12lib.FTJoin(cols)})
	}
	return out, true
}

// expected computes, for a search string, the multiset of matching ids and for every row the number of
// distinct (under the collation) search words it contains.
func expected(rows []row, search string, family string) (ids []string, perRow map[string][]int) {
	sw := map[string]bool{}
	for _, w := range g12lib.FTWords(search) {
		sw[g12lib.FTFold(w, family)] = true
	}
	perRow = map[string][]int{}
	for _, r := range rows {
		dw := map[string]bool{}
		for _, w := range g12lib.FTWords(r.doc) {
			dw[g12lib.FTFold(w, family)] = true
		}
		n := 0
		for w := range sw {
			if dw[w] {
				n++
			}
		}
		perRow[r.id] = append(perRow[r.id], n)
		if n > 0 {
			ids = append(ids, r.id)
		}
	}
	sort.Strings(ids)
	return ids, perRow
}

func multiset(a []string) map[string]int {
	m := map[string]int{}
	for _, x := range a {
		m[x]++
	}
	return m
}

type monitor struct {
	r *core.Run
}

// check runs the three query forms for one search string and judges them against the reference.
func (m *monitor) check(s *core.Sess, ts tableSpec, hist []string, step int, search string) {
	r := m.r
	rows, ok := readRows(s, ts)
	if !ok {
		r.Inconclusive("cannot-read-table")
		return
	}
	want, perRow := expected(rows, search, ts.coll.family)
	match := "MATCH(" + ts.ftCols() + ") AGAINST (" + g12lib.Q(search)
	if step%2 == 1 {
		match += " IN NATURAL LANGUAGE MODE"
	}
	match += ")"
	wit := func(q string, got any) map[string]any {
		return map[string]any{"create": ts.create(), "history": hist, "search": search, "query": q, "expected_ids": want, "got": got, "rows": rowsForWitness(rows), "collation": ts.coll.name, "key": ts.keyName()}
	}
	key := fmt.Sprintf("%s|%s|cols=%d|words=%d|hits=%s", ts.keyName(), ts.coll.family, ts.ncols, len(g12lib.FTWords(search)), bucket(len(want)))

	// (a) filter
	qa := "SELECT id FROM ft WHERE " + match
	res := s.Exec(qa)
	switch {
	case res.Panic != nil:
		r.Violation(g12lib.PanicSig(res.Panic.Stack, res.Panic.Value, core.StripVolatile), wit(qa, res.Panic.Value))
	case res.TimedOut:
		r.Inconclusive("watchdog")
	case res.Err != nil:
		r.Violation(g12lib.NoSpace("match-filter-error:"+res.ErrClass()+":"+core.StripVolatile(res.Err.Error())), wit(qa, res.Err.Error()))
	default:
		var got []string
		for _, rw := range res.Rows {
			got = append(got, core.Canon(rw[0]))
		}
		sort.Strings(got)
		r.Eval(1)
		r.Distinct("filter|" + key)
		if len(want) > 0 {
			r.Count("filter.nonempty", 1)
		}
		if !core.SameStrings(got, want) {
			r.Violation(classifyFilter(got, want, perRow), wit(qa, got))
		} else if len(want) > 0 {
			r.Sample(map[string]any{"create": ts.create(), "search": search, "query": qa, "ids": got, "step": step})
		}
	}

	// (b) relevance for every row
	qb := "SELECT id, " + match + " FROM ft"
	res = s.Exec(qb)
	switch {
	case res.Panic != nil:
		r.Violation(g12lib.PanicSig(res.Panic.Stack, res.Panic.Value, core.StripVolatile), wit(qb, res.Panic.Value))
	case res.TimedOut:
		r.Inconclusive("watchdog")
	case res.Err != nil:
		r.Violation(g12lib.NoSpace("match-relevance-error:"+res.ErrClass()+":"+core.StripVolatile(res.Err.Error())), wit(qb, res.Err.Error()))
	default:
		var pos []string
		bad := false
		for _, rw := range res.Rows {
			rel, okf := toFloat(rw[1])
			if !okf {
				bad = true
				continue
			}
			if rel > 0 {
				pos = append(pos, core.Canon(rw[0]))
			} else if rel < 0 {
				bad = true
			}
		}
		sort.Strings(pos)
		r.Eval(1)
		r.Distinct("relevance|" + key)
		if bad {
			r.Violation("relevance-not-a-non-negative-number", wit(qb, core.ClipStrings(core.CanonRows(res.Rows), 30)))
		} else if len(res.Rows) != len(rows) {
			r.Violation("relevance-query-row-count", wit(qb, core.ClipStrings(core.CanonRows(res.Rows), 30)))
		} else if !core.SameStrings(pos, want) {
			sig := "relevance-positive-for-non-matching-row"
			if len(pos) < len(want) {
				sig = "relevance-zero-for-matching-row"
			}
			r.Violation(sig, wit(qb, pos))
		}
	}

	// (c) ordered by relevance: a permutation of the matching set (judged as a set: duplicates are form (a)'s business)
	if step%3 == 0 {
		qc := "SELECT id FROM ft WHERE " + match + " ORDER BY " + match + " DESC"
		res = s.Exec(qc)
		switch {
		case res.Panic != nil:
			r.Violation(g12lib.PanicSig(res.Panic.Stack, res.Panic.Value, core.StripVolatile), wit(qc, res.Panic.Value))
		case res.TimedOut:
			r.Inconclusive("watchdog")
		case res.Err != nil:
			r.Violation(g12lib.NoSpace("match-order-error:"+res.ErrClass()+":"+core.StripVolatile(res.Err.Error())), wit(qc, res.Err.Error()))
		default:
			gs := map[string]bool{}
			for _, rw := range res.Rows {
				gs[core.Canon(rw[0])] = true
			}
			ws := map[string]bool{}
			for _, id := range want {
				ws[id] = true
			}
			r.Eval(1)
			same := len(gs) == len(ws)
			for id := range gs {
				if !ws[id] {
					same = false
				}
			}
			if !same {
				r.Violation("order-by-relevance-id-set-differs", wit(qc, core.ClipStrings(core.CanonRows(res.Rows), 30)))
			}
		}
	}
}

// classifyFilter names the failure mode of form (a).
func classifyFilter(got, want []string, perRow map[string][]int) string {
	g, w := multiset(got), multiset(want)
	sameSet := len(g) == len(w)
	for id := range g {
		if w[id] == 0 {
			sameSet = false
		}
	}
	if sameSet {
		// F32: a row is returned once per distinct search word it contains
		f32 := true
		for id, n := range g {
			sum := 0
			for _, k := range perRow[id] {
				sum += k
			}
			if n != sum {
				f32 = false
			}
		}
		if f32 {
			return "filter-row-returned-once-per-matching-search-word"
		}
		return "filter-wrong-row-multiplicity"
	}
	extra, missing := false, false
	for id := range g {
		if w[id] == 0 {
			extra = true
		}
	}
	for id := range w {
		if g[id] == 0 {
			missing = true
		}
	}
	switch {
	case extra && missing:
		return "filter-extra-and-missing-rows"
	case extra:
		return "filter-returns-non-matching-row"
	}
	return "filter-misses-matching-row"
}

func bucket(n int) string {
	switch {
	case n == 0:
		return "0"
	case n == 1:
		return "1"
	case n <= 4:
		return "2-4"
	}
	return "5+"
}

func toFloat(v any) (float64, bool) {
	switch x := v.(type) {
	case float32:
		return float64(x), true
	case float64:
		return x, true
	case int64:
		return float64(x), true
	case int:
		return float64(x), true
	}
	return 0, false
}

func rowsForWitness(rows []row) []string {
	var out []string
	for _, r := range rows {
		out = append(out, r.id+": "+r.doc)
	}
	return core.ClipStrings(out, 40)
}

// history runs one generated DML/DDL history with searches after every step.
func (m *monitor) history(i int, rnd *rand.Rand, steps, searches int) {
	r := m.r
	ts := tableSpec{key: keyKind(i % 4), ncols: 1 + (i/4)%2, coll: colls[(i/8)%len(colls)], colTyp: pick(rnd, []string{"TEXT", "VARCHAR(300)", "LONGTEXT"})}
	e := core.NewEng("d")
	defer e.Close()
	s := e.NewSess()
	if res := s.Exec(ts.create()); res.Failed() {
		r.Inconclusive("create-table-refused:" + res.ErrClass())
		return
	}
	hist := []string{}
	nextID := 1
	indexed := true
	ids := func() int {
		if nextID <= 1 {
			return 1
		}
		return 1 + rnd.Intn(nextID-1)
	}
	insertVals := func(id int) string {
		v := fmt.Sprintf("(%d, ", id)
		if ts.key == keyCompositePK {
			v += fmt.Sprintf("%d, ", rnd.Intn(2))
		}
		v += lit(genDoc(rnd))
		if ts.ncols == 2 {
			v += ", " + lit(genDoc(rnd))
		}
		return v + fmt.Sprintf(", %d)", rnd.Intn(5))
	}
	for step := 0; step < steps; step++ {
		var q string
		op := rnd.Intn(100)
		switch {
		case step < 3 || op < 30:
			n := 1 + rnd.Intn(3)
			var vs []string
			for k := 0; k < n; k++ {
				id := nextID
				nextID++
				if ts.key == keyNone && rnd.Intn(4) == 0 {
					id = ids() // keyless tables may repeat an id
				}
				vs = append(vs, insertVals(id))
			}
			q = "INSERT INTO ft VALUES " + strings.Join(vs, ", ")
		case op < 50:
			col := "d1"
			if ts.ncols == 2 && rnd.Intn(2) == 0 {
				col = "d2"
			}
			switch rnd.Intn(4) {
			case 0:
				q = fmt.Sprintf("UPDATE ft SET %s = %s WHERE other = %d", col, lit(genDoc(rnd)), rnd.Intn(5))
			case 1:
				q = fmt.Sprintf("UPDATE ft SET %s = CONCAT(%s, ' ', %s) WHERE id = %d", col, col, g12lib.Q(pick(rnd, vocab)), ids())
			default:
				q = fmt.Sprintf("UPDATE ft SET %s = %s WHERE id = %d", col, lit(genDoc(rnd)), ids())
			}
		case op < 56:
			q = fmt.Sprintf("UPDATE ft SET other = other + 1 WHERE id = %d", ids()) // non-indexed column
		case op < 62 && ts.key != keyNone:
			q = fmt.Sprintf("UPDATE ft SET id = %d WHERE id = %d", nextID, ids()) // key change
			nextID++
		case op < 74:
			if rnd.Intn(3) == 0 {
				q = fmt.Sprintf("DELETE FROM ft WHERE other = %d", rnd.Intn(5))
			} else {
				q = fmt.Sprintf("DELETE FROM ft WHERE id = %d", ids())
			}
		// Known finding (via=domain): with REPLACE / ON DUPLICATE KEY UPDATE the row that is first rejected by the
		// duplicate key leaves its words (and its row hash) in the index tables. In the core domain REPLACE and
		// ODKU therefore only meet fresh keys; the colliding forms are replayed as pinned witnesses. A plain insert
		// that collides fails as a whole, is cleaned up by the engine and stays in the domain.
		case op < 82 && ts.key != keyNone:
			q = "REPLACE INTO ft VALUES " + insertVals(nextID)
			nextID++
		case op < 88 && (ts.key == keyPK || ts.key == keyUnique):
			q = "INSERT INTO ft VALUES " + insertVals(nextID) + " ON DUPLICATE KEY UPDATE d1 = " + lit(genDoc(rnd))
			nextID++
		case op < 90 && ts.key != keyNone:
			// a multi-row insert whose last row collides: the statement fails and must leave table and index
			// in agreement. (INSERT IGNORE of a colliding row is part of the known finding above: the skipped
			// row's words stay counted in the global-count table; pinned witness.)
			_ = rnd.Intn(2)
			q = "INSERT INTO ft VALUES " + insertVals(nextID) + ", " + insertVals(ids())
			nextID++
		case op < 92:
			q = "TRUNCATE TABLE ft"
		case op < 97:
			if indexed {
				q = "ALTER TABLE ft DROP INDEX ftx"
			} else {
				q = "ALTER TABLE ft ADD FULLTEXT KEY ftx (" + ts.ftCols() + ")"
			}
		default:
			q = fmt.Sprintf("DELETE FROM ft WHERE id > %d", ids())
		}
		res := s.Exec(q)
		hist = append(hist, q)
		if res.Panic != nil {
			r.Violation(g12lib.PanicSig(res.Panic.Stack, res.Panic.Value, core.StripVolatile), map[string]any{"create": ts.create(), "history": hist, "panic": res.Panic.Value, "stack": core.Clip(res.Panic.Stack, 3000)})
			return
		}
		if res.TimedOut {
			r.Inconclusive("watchdog")
			return
		}
		if res.Err == nil && strings.HasPrefix(q, "ALTER") {
			indexed = !indexed
			r.Count("alter."+strings.Fields(q)[3], 1)
		}
		if res.Err != nil {
			hist[len(hist)-1] = q + "   -- error: " + core.Clip(res.Err.Error(), 120)
			r.Count("dml.error:"+res.ErrClass(), 1)
		} else {
			r.Count("dml."+g12lib.FirstWord(q), 1)
		}
		if !indexed {
			// without the index MATCH must be refused, not answered from stale index tables
			res := s.Exec("SELECT id FROM ft WHERE MATCH(" + ts.ftCols() + ") AGAINST ('apple')")
			r.Eval(1)
			if res.Panic != nil {
				r.Violation(g12lib.PanicSig(res.Panic.Stack, res.Panic.Value, core.StripVolatile), map[string]any{"create": ts.create(), "history": hist, "panic": res.Panic.Value})
			} else if res.Err == nil {
				r.Violation("match-answered-without-fulltext-index", map[string]any{"create": ts.create(), "history": hist, "rows": core.CanonRows(res.Rows)})
			}
			continue
		}
		for k := 0; k < searches; k++ {
			m.check(s, ts, append([]string{}, hist...), step+k, genSearch(rnd))
		}
	}
}

func main() {
	if len(os.Args) > 1 && os.Args[1] == "probe" {
		g12lib.ProbeMain(nil)
		return
	}
	r := core.NewRun("C51", "exploration",
		"after every step of a generated DML/ALTER history, MATCH(cols) AGAINST(S) must return exactly the ids of the rows whose document shares a word with S under the reference tokenizer and the column collation (as a multiset), relevance must be > 0 exactly for those rows, and ORDER BY relevance must be a permutation of them; distinct = (query form, key kind, collation family, indexed columns, search words, hit bucket)")
	r.Assume("reference tokenizer: maximal runs of letters/digits/_ joined by single inner apostrophes, byte length >= 3; match = equality of some search word with some document word, exact under *_bin, case- and accent-folded under *_ai_ci / general_ci (Latin letters of the vocabulary only)")
	r.Assume("the reference is evaluated over the rows the table holds after each step (read back with a plain SELECT), so a failed or partially applied DML is not judged here (C13/C15), only the agreement of the index with the table")
	r.Assume("stop words, the 50% threshold, boolean mode and query expansion are out of scope")
	m := &monitor{r: r}
	nh := r.N(200, 5000)
	steps, searches := 30, 8
	r.Parallel("history", nh, func(i int) {
		m.history(i, r.Rand("history", i), steps, searches)
	})
	pinned(r)
	r.Floor(r.Counter("filter.nonempty") > 200, "fewer than 200 searches had a non-empty expected result")
	r.Floor(r.Counter("alter.ADD") > 0 && r.Counter("alter.DROP") > 0, "ALTER ADD/DROP FULLTEXT on a populated table was never exercised")
	r.Floor(r.Counter("dml.UPDATE") > 50 && r.Counter("dml.DELETE") > 50 && r.Counter("dml.REPLACE") > 10, "the DML history did not reach UPDATE/DELETE/REPLACE")
	r.Finish()
}

// pinned replays the witnesses of the known findings.
func pinned(r *core.Run) {
	// F32: a document is returned once per matching search word
	e := core.NewEng("d")
	defer e.Close()
	s := e.NewSess()
	setup := []string{
		"CREATE TABLE ft (id INT PRIMARY KEY, d1 TEXT COLLATE utf8mb4_0900_ai_ci, FULLTEXT KEY ftx (d1))",
		"INSERT INTO ft VALUES (1, 'apple pie'), (2, 'moon dog'), (3, 'apple moon dog'), (4, 'zebra')",
	}
	for _, q := range setup {
		s.MustExec(q)
	}
	q := "SELECT id FROM ft WHERE MATCH(d1) AGAINST ('Apple moon dog')"
	res := s.Exec(q)
	got := core.SortedRows(res.Rows)
	want := []string{"1", "2", "3"}
	r.Eval(1)
	still := !res.Failed() && !core.SameStrings(got, want)
	r.Pinned("filter-row-returned-once-per-matching-search-word", "MATCH(d1) AGAINST ('Apple moon dog') returns a document once per matching search word (ids "+strings.Join(got, ",")+", expected 1,2,3)", still,
		map[string]any{"setup": setup, "query": q, "expected": want, "got": got})

	// rejected insert row of ODKU / REPLACE stays indexed
	type pw struct {
		sig, what string
		setup     []string
		query     string
		want      []string
	}
	for _, w := range []pw{
		{"odku-rejected-insert-words-stay-indexed", "INSERT (1,'zebra lazy') ON DUPLICATE KEY UPDATE d1='dogs' leaves 'zebra' indexed for row 1",
			[]string{"CREATE TABLE ft (id INT PRIMARY KEY, d1 TEXT COLLATE utf8mb4_0900_ai_ci, other INT, FULLTEXT KEY ftx (d1))", "INSERT INTO ft VALUES (1, 'cafe quick', 4), (2, 'moon', 1)",
				"INSERT INTO ft VALUES (1, 'zebra lazy', 1) ON DUPLICATE KEY UPDATE d1 = 'dogs'"}, "SELECT id FROM ft WHERE MATCH(d1) AGAINST ('zebra')", []string{}},
		{"replace-shared-word-lost-from-index", "REPLACE (2,'moon quick') over (2,'moon') loses 'moon' from the index",
			[]string{"CREATE TABLE ft (id INT PRIMARY KEY, d1 TEXT COLLATE utf8mb4_0900_ai_ci, other INT, FULLTEXT KEY ftx (d1))", "INSERT INTO ft VALUES (1, 'cafe quick', 4), (2, 'moon', 1)",
				"REPLACE INTO ft VALUES (2, 'moon quick', 3)"}, "SELECT id FROM ft WHERE MATCH(d1) AGAINST ('moon')", []string{"2"}},
		{"insert-ignore-rejected-row-inflates-global-count", "three INSERT IGNORE of a colliding row (2,'apple …') leave 'apple' counted in the global-count table; after DELETE of row 2 the relevance of row 1 for 'apple' is negative",
			[]string{"CREATE TABLE ft (id INT PRIMARY KEY, d1 TEXT COLLATE utf8mb4_0900_ai_ci, other INT, FULLTEXT KEY ftx (d1))", "INSERT INTO ft VALUES (1, 'apple pie', 4), (2, 'moon', 1)",
				"INSERT IGNORE INTO ft VALUES (2, 'apple tart', 1)", "INSERT IGNORE INTO ft VALUES (2, 'apple cake', 1)", "INSERT IGNORE INTO ft VALUES (2, 'apple crumble', 1)", "DELETE FROM ft WHERE id = 2"},
			"SELECT id FROM ft WHERE MATCH(d1) AGAINST ('apple') > 0", []string{"1"}},
	} {
		e2 := core.NewEng("d")
		s2 := e2.NewSess()
		for _, q := range w.setup {
			s2.MustExec(q)
		}
		res := s2.Exec(w.query)
		got := core.SortedRows(res.Rows)
		r.Eval(1)
		r.Pinned(w.sig, w.what+" (got ids ["+strings.Join(got, ",")+"], expected ["+strings.Join(w.want, ",")+"])", res.Failed() || !core.SameStrings(got, w.want),
			map[string]any{"setup": w.setup, "query": w.query, "expected": w.want, "got": got})
		e2.Close()
	}
}
