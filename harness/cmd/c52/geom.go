package main

import (
	"encoding/binary"
	"fmt"
	"math"
	"math/rand"
	"strconv"
	"strings"

	"verif/harness/g5lib"
)

type L = g5lib.Law
type V = g5lib.Val
type Inst = g5lib.Inst

var Q = g5lib.Q

// geometry kinds = WKB type codes
const (
	kPoint = 1 + iota
	kLine
	kPoly
	kMPoint
	kMLine
	kMPoly
	kColl
)

var kindName = map[int]string{kPoint: "POINT", kLine: "LINESTRING", kPoly: "POLYGON", kMPoint: "MULTIPOINT", kMLine: "MULTILINESTRING", kMPoly: "MULTIPOLYGON", kColl: "GEOMETRYCOLLECTION"}

type pt [2]float64

// geom is the reference geometry value.
type geom struct {
	kind  int
	pts   []pt   // point (1), linestring
	rings [][]pt // polygon
	parts []geom // multi*, collection
}

// ---- coordinates ----

func genCoord(rnd *rand.Rand, lo, hi float64, wide bool) float64 {
	switch rnd.Intn(10) {
	case 0:
		return 0
	case 1:
		return math.Copysign(0, -1)
	case 2:
		if wide {
			return []float64{1e-300, -1e-300, 1e300, -1e300, 5e-324, 1.7976931348623157e308}[rnd.Intn(6)]
		}
		return []float64{1e-300, -1e-300, lo, hi}[rnd.Intn(4)]
	case 3, 4:
		return math.Round(lo + rnd.Float64()*(hi-lo))
	case 5:
		if wide {
			return []float64{0.1, 0.30000000000000004, 1.0 / 3, -2.5, 123456789.12345679, 0.000001}[rnd.Intn(6)]
		}
		return []float64{0.1, 0.30000000000000004, 1.0 / 3, -2.5, 12.345678912345679, 0.000001, 89.99999999999999}[rnd.Intn(7)]
	}
	return lo + rnd.Float64()*(hi-lo)
}

type coordGen func() pt

// coords returns a generator for an SRID: cartesian for 0 and 3857; for 4326 the WKT order is (lat, long).
func coords(rnd *rand.Rand, srid int) coordGen {
	if srid == 4326 {
		return func() pt { return pt{genCoord(rnd, -90, 90, false), genCoord(rnd, -180, 180, false)} }
	}
	return func() pt { return pt{genCoord(rnd, -1000, 1000, true), genCoord(rnd, -1000, 1000, true)} }
}

func genRing(rnd *rand.Rand, c coordGen) []pt {
	n := 3 + rnd.Intn(4)
	r := make([]pt, n, n+1)
	for i := range r {
		r[i] = c()
	}
	return append(r, r[0]) // closed
}

func genGeom(rnd *rand.Rand, c coordGen, kind, depth int) geom {
	switch kind {
	case kPoint:
		return geom{kind: kPoint, pts: []pt{c()}}
	case kLine:
		n := 2 + rnd.Intn(5)
		g := geom{kind: kLine}
		for i := 0; i < n; i++ {
			g.pts = append(g.pts, c())
		}
		return g
	case kPoly:
		g := geom{kind: kPoly, rings: [][]pt{genRing(rnd, c)}}
		for i := rnd.Intn(3); i > 0; i-- {
			g.rings = append(g.rings, genRing(rnd, c)) // "holes" (any closed ring: validity is not required for a round trip)
		}
		return g
	case kMPoint, kMLine, kMPoly:
		g := geom{kind: kind}
		for i := 1 + rnd.Intn(3); i > 0; i-- {
			g.parts = append(g.parts, genGeom(rnd, c, kind-3, 0))
		}
		return g
	}
	g := geom{kind: kColl}
	n := rnd.Intn(4)
	if depth <= 0 && n == 0 {
		return g // empty collection
	}
	for i := 0; i < n; i++ {
		k := 1 + rnd.Intn(7)
		if k == kColl && depth <= 0 {
			k = kPoint
		}
		g.parts = append(g.parts, genGeom(rnd, c, k, depth-1))
	}
	// core domain (known finding wkt-domain:*): an empty collection is only ever the LAST member of its parent —
	// ST_GeomFromText rejects or silently truncates 'GEOMETRYCOLLECTION(GEOMETRYCOLLECTION EMPTY, …more members)'
	var rest, empties []geom
	for _, p := range g.parts {
		if p.kind == kColl && len(p.parts) == 0 {
			empties = append(empties, p)
		} else {
			rest = append(rest, p)
		}
	}
	if len(empties) > 1 {
		empties = empties[:1]
	}
	g.parts = append(rest, empties...)
	return g
}

// noNegZero replaces −0 by 0 everywhere (GeoJSON text has no negative zero on this tree).
func (g geom) noNegZero() geom {
	fix := func(p pt) pt {
		for i := range p {
			if p[i] == 0 {
				p[i] = 0
			}
		}
		return p
	}
	out := geom{kind: g.kind}
	for _, p := range g.pts {
		out.pts = append(out.pts, fix(p))
	}
	for _, r := range g.rings {
		var nr []pt
		for _, p := range r {
			nr = append(nr, fix(p))
		}
		out.rings = append(out.rings, nr)
	}
	for _, p := range g.parts {
		out.parts = append(out.parts, p.noNegZero())
	}
	return out
}

// hasSinglePointMultiPoint reports a MULTIPOINT with exactly one point anywhere in g.
func (g geom) hasSinglePointMultiPoint() bool {
	if g.kind == kMPoint && len(g.parts) == 1 {
		return true
	}
	for _, p := range g.parts {
		if p.hasSinglePointMultiPoint() {
			return true
		}
	}
	return false
}

func genAny(rnd *rand.Rand, srid int) geom {
	return genGeom(rnd, coords(rnd, srid), 1+rnd.Intn(7), 2)
}

func (g geom) class() string {
	c := kindName[g.kind]
	if g.kind == kColl {
		if len(g.parts) == 0 {
			return c + "/empty"
		}
		for _, p := range g.parts {
			if p.kind == kColl {
				return c + "/nested"
			}
		}
	}
	if g.kind == kPoly && len(g.rings) > 1 {
		return c + "/holes"
	}
	return c
}

// ---- WKT ----

func fnum(f float64) string {
	if f == 0 && math.Signbit(f) {
		return "-0"
	}
	return strconv.FormatFloat(f, 'g', -1, 64)
}

func wktPts(ps []pt) string {
	parts := make([]string, len(ps))
	for i, p := range ps {
		parts[i] = fnum(p[0]) + " " + fnum(p[1])
	}
	return strings.Join(parts, ",")
}

func (g geom) body() string {
	switch g.kind {
	case kPoint, kLine:
		return "(" + wktPts(g.pts) + ")"
	case kPoly:
		rs := make([]string, len(g.rings))
		for i, r := range g.rings {
			rs[i] = "(" + wktPts(r) + ")"
		}
		return "(" + strings.Join(rs, ",") + ")"
	case kMPoint, kMLine, kMPoly:
		ps := make([]string, len(g.parts))
		for i, p := range g.parts {
			ps[i] = p.body()
		}
		return "(" + strings.Join(ps, ",") + ")"
	}
	if len(g.parts) == 0 {
		return " EMPTY"
	}
	ps := make([]string, len(g.parts))
	for i, p := range g.parts {
		ps[i] = p.wkt()
	}
	return "(" + strings.Join(ps, ",") + ")"
}

func (g geom) wkt() string { return kindName[g.kind] + g.body() }

// ---- WKB ----

func (g geom) wkb(order binary.ByteOrder) []byte {
	var b []byte
	u32 := func(x uint32) {
		var t [4]byte
		order.PutUint32(t[:], x)
		b = append(b, t[:]...)
	}
	f64 := func(x float64) {
		var t [8]byte
		order.PutUint64(t[:], math.Float64bits(x))
		b = append(b, t[:]...)
	}
	if order == binary.LittleEndian {
		b = append(b, 1)
	} else {
		b = append(b, 0)
	}
	u32(uint32(g.kind))
	switch g.kind {
	case kPoint:
		f64(g.pts[0][0])
		f64(g.pts[0][1])
	case kLine:
		u32(uint32(len(g.pts)))
		for _, p := range g.pts {
			f64(p[0])
			f64(p[1])
		}
	case kPoly:
		u32(uint32(len(g.rings)))
		for _, r := range g.rings {
			u32(uint32(len(r)))
			for _, p := range r {
				f64(p[0])
				f64(p[1])
			}
		}
	default:
		u32(uint32(len(g.parts)))
		for _, p := range g.parts {
			b = append(b, p.wkb(order)...)
		}
	}
	return b
}

func (g geom) hexLE() string { return strings.ToUpper(fmt.Sprintf("%x", g.wkb(binary.LittleEndian))) }

// swapped returns the geometry with x and y exchanged.
func (g geom) swapped() geom {
	out := geom{kind: g.kind}
	for _, p := range g.pts {
		out.pts = append(out.pts, pt{p[1], p[0]})
	}
	for _, r := range g.rings {
		var nr []pt
		for _, p := range r {
			nr = append(nr, pt{p[1], p[0]})
		}
		out.rings = append(out.rings, nr)
	}
	for _, p := range g.parts {
		out.parts = append(out.parts, p.swapped())
	}
	return out
}
