// C52 — geometry values round-trip through WKT/WKB and the spatial index agrees with the predicates.
//
// Reference: geometries are generated as Go values (POINT / LINESTRING / POLYGON with extra rings / MULTI* /
// nested and empty GEOMETRYCOLLECTION; coordinates incl. 0, −0, ±1e−300, ±1e300, integers, many-digit
// fractions; SRID 0, 3857, 4326) and encoded by an independent WKT printer and WKB encoder. Equality of
// geometries is byte equality of ST_AsWKB plus ST_SRID (ST_Equals is not used). Laws: ST_GeomFromText(ST_AsText(g))
// = g, ST_GeomFromWKB(ST_AsWKB(g)) = g (both byte orders on input), GeoJSON round trip, ST_SwapXY involution,
// stored column read-back, axis-order options for 4326, malformed WKT/WKB → error (not a value, not a panic).
// Spatial index: a table with SPATIAL KEY and an index-free twin answer ST_Intersects / ST_Within queries with
// the same ids, and the indexed plan uses the spatial index.
package main

import (
	"encoding/binary"
	"fmt"
	"math/rand"
	"strings"

	"verif/harness/core"
	"verif/harness/g5lib"
)

var srids = []int{0, 3857, 4326}

func main() {
	r := core.NewRun("C52", "exploration",
		"each evaluation is one law instance over a generated geometry (kind, SRID, coordinate classes) judged by byte equality of ST_AsWKB against an independent encoder, or one spatial-index probe compared with an index-free twin table; distinct = (law, geometry class, SRID) that held / (predicate, probe class) pairs")
	r.Fold(8, 3)
	r.Assume("SRIDs 0, 3857, 4326 (the ones this tree defines); for 4326 coordinates stay inside [-90,90]×[-180,180]; WKT is written in canonical upper-case form without extra blanks")
	r.Assume("geometry equality = byte equality of ST_AsWKB and equal ST_SRID; polygon rings are closed but otherwise arbitrary (validity is not needed for a round trip)")

	ru := g5lib.NewRunner(r, laws())
	ru.Batch = 20
	ru.EngSetup = []string{"CREATE TABLE geo (id INT PRIMARY KEY, g GEOMETRY)"}
	ru.Run("laws", r.N(8000, 200000))
	ru.Report()
	spatialIndex(r)
	pinned(r)
	r.Finish()
}

func fromText(g geom, srid int) string {
	return fmt.Sprintf("ST_GeomFromText(%s,%d)", Q(g.wkt()), srid)
}

func laws() []L {
	return []L{
		{Name: "wkt-roundtrip", Weight: 5, Gen: func(rnd *rand.Rand) *Inst {
			srid := srids[rnd.Intn(3)]
			g := genAny(rnd, srid)
			e := fromText(g, srid)
			want := g.hexLE()
			return g5lib.NewInst(fmt.Sprintf("%s/srid%d", g.class(), srid), g.wkt(), func(v []V) string {
				if !v[0].IsStr(want) {
					return "parsed-wkt-differs-from-reference-encoding"
				}
				if !v[1].IsStr(want) {
					return "geomfromtext-of-astext-differs"
				}
				if !v[2].IsInt(int64(srid)) || !v[3].IsInt(int64(srid)) {
					return "srid-not-preserved"
				}
				return ""
			}, "HEX(ST_AsWKB("+e+"))", fmt.Sprintf("HEX(ST_AsWKB(ST_GeomFromText(ST_AsText(%s),%d)))", e, srid), "ST_SRID("+e+")", fmt.Sprintf("ST_SRID(ST_GeomFromText(ST_AsText(%s),%d))", e, srid))
		}},
		{Name: "wkb-roundtrip", Weight: 5, Gen: func(rnd *rand.Rand) *Inst {
			srid := srids[rnd.Intn(3)]
			g := genAny(rnd, srid)
			le, be := g5lib.X(g.wkb(binary.LittleEndian)), g5lib.X(g.wkb(binary.BigEndian))
			e := fmt.Sprintf("ST_GeomFromWKB(%s,%d)", le, srid)
			want := g.hexLE()
			return g5lib.NewInst(fmt.Sprintf("%s/srid%d", g.class(), srid), g.wkt(), func(v []V) string {
				if !v[0].IsStr(want) {
					return "parsed-wkb-differs-from-input"
				}
				if !v[1].IsStr(want) {
					return "geomfromwkb-of-aswkb-differs"
				}
				if !v[2].IsStr(want) {
					return "big-endian-input-gives-another-geometry"
				}
				if !v[3].IsInt(int64(srid)) {
					return "srid-not-preserved"
				}
				t1, ok1 := v[4].Str()
				t2, ok2 := v[5].Str()
				if !ok1 || !ok2 || t1 != t2 {
					return "wkb-and-wkt-of-the-same-geometry-print-differently"
				}
				return ""
			}, "HEX(ST_AsWKB("+e+"))", fmt.Sprintf("HEX(ST_AsWKB(ST_GeomFromWKB(ST_AsWKB(%s),%d)))", e, srid), fmt.Sprintf("HEX(ST_AsWKB(ST_GeomFromWKB(%s,%d)))", be, srid),
				fmt.Sprintf("ST_SRID(ST_GeomFromWKB(ST_AsWKB(%s),%d))", e, srid), "ST_AsText("+e+")", "ST_AsText("+fromText(g, srid)+")")
		}},
		{Name: "geojson-roundtrip", Weight: 3, Gen: func(rnd *rand.Rand) *Inst {
			// GeoJSON is WGS 84: the geometry is created with SRID 4326 and must come back identical
			g := genAny(rnd, 4326).noNegZero() // −0 is printed as 0 in the JSON text: not judged
			e := fromText(g, 4326)
			cls := g.class()
			if g.hasSinglePointMultiPoint() {
				cls += "/single-point-multipoint"
			}
			return &Inst{Class: cls, Args: g.wkt(), OnErr: g5lib.ErrToCheck, Exprs: []string{fmt.Sprintf("HEX(ST_AsWKB(ST_GeomFromGeoJSON(ST_AsGeoJSON(%s))))", e), fmt.Sprintf("ST_SRID(ST_GeomFromGeoJSON(ST_AsGeoJSON(%s)))", e)}, Check: func(v []V) string {
				if g5lib.IsErr(v) {
					if g.hasSinglePointMultiPoint() && strings.Contains(g5lib.ErrOf(v), "invalid GeoJSON data") {
						return "single-point-multipoint-rejected-by-geomfromgeojson"
					}
					return "error"
				}
				if !v[0].IsStr(g.hexLE()) {
					return "geojson-roundtrip-differs"
				}
				if !v[1].IsInt(4326) {
					return "geojson-srid-not-4326"
				}
				return ""
			}}
		}},
		{Name: "swapxy", Weight: 3, Gen: func(rnd *rand.Rand) *Inst {
			srid := srids[rnd.Intn(2)] // cartesian (for 4326 a swap can leave the latitude range)
			g := genAny(rnd, srid)
			e := fromText(g, srid)
			return g5lib.NewInst(fmt.Sprintf("%s/srid%d", g.class(), srid), g.wkt(), func(v []V) string {
				if !v[0].IsStr(g.hexLE()) {
					return "not-an-involution"
				}
				if !v[1].IsStr(g.swapped().hexLE()) {
					return "swap-differs-from-reference"
				}
				if !v[2].IsInt(int64(srid)) {
					return "srid-not-preserved"
				}
				return ""
			}, fmt.Sprintf("HEX(ST_AsWKB(ST_SwapXY(ST_SwapXY(%s))))", e), fmt.Sprintf("HEX(ST_AsWKB(ST_SwapXY(%s)))", e), fmt.Sprintf("ST_SRID(ST_SwapXY(%s))", e))
		}},
		{Name: "stored-readback", Weight: 3, Gen: func(rnd *rand.Rand) *Inst {
			srid := srids[rnd.Intn(3)]
			g := genAny(rnd, srid)
			via := "text"
			val := fromText(g, srid)
			if rnd.Intn(2) == 0 {
				via, val = "wkb", fmt.Sprintf("ST_GeomFromWKB(%s,%d)", g5lib.X(g.wkb(binary.LittleEndian)), srid)
			}
			return &Inst{Class: fmt.Sprintf("%s/srid%d/%s", g.class(), srid, via), Args: g.wkt(), Setup: []string{"DELETE FROM geo", "INSERT INTO geo VALUES (1, " + val + ")"},
				Exprs: []string{"(SELECT HEX(ST_AsWKB(g)) FROM geo WHERE id = 1)", "(SELECT ST_SRID(g) FROM geo WHERE id = 1)", "(SELECT COUNT(*) FROM geo)"}, Check: func(v []V) string {
					if !v[2].IsInt(1) {
						return "row-not-stored"
					}
					if !v[0].IsStr(g.hexLE()) {
						return "stored-geometry-reads-back-differently"
					}
					if !v[1].IsInt(int64(srid)) {
						return "stored-srid-reads-back-differently"
					}
					return ""
				}}
		}},
		{Name: "axis-order-4326", Weight: 2, Gen: func(rnd *rand.Rand) *Inst {
			// 'axis-order=long-lat' reads the same numbers with the axes exchanged; lat-long / srid-defined are the default
			c := coords(rnd, 4326)
			// both orders must be in range: keep every coordinate within [-90, 90]
			cc := func() pt { p := c(); return pt{p[0], p[0] / 2} }
			g := genGeom(rnd, cc, 1+rnd.Intn(3), 0)
			w := Q(g.wkt())
			b := g5lib.X(g.wkb(binary.LittleEndian))
			return g5lib.NewInst(g.class(), g.wkt(), func(v []V) string {
				def, ok := v[0].Str()
				if !ok || def != g.hexLE() {
					return "default-axis-order-differs-from-reference"
				}
				if !v[1].IsStr(def) || !v[2].IsStr(def) {
					return "lat-long-or-srid-defined-differs-from-default"
				}
				if !v[3].IsStr(g.swapped().hexLE()) {
					return "long-lat-is-not-the-swapped-geometry"
				}
				if !v[4].IsStr(g.swapped().hexLE()) {
					return "wkb-long-lat-is-not-the-swapped-geometry"
				}
				return ""
			}, fmt.Sprintf("HEX(ST_AsWKB(ST_GeomFromText(%s,4326)))", w), fmt.Sprintf("HEX(ST_AsWKB(ST_GeomFromText(%s,4326,'axis-order=lat-long')))", w),
				fmt.Sprintf("HEX(ST_AsWKB(ST_GeomFromText(%s,4326,'axis-order=srid-defined')))", w), fmt.Sprintf("HEX(ST_AsWKB(ST_GeomFromText(%s,4326,'axis-order=long-lat')))", w),
				fmt.Sprintf("HEX(ST_AsWKB(ST_GeomFromWKB(%s,4326,'axis-order=long-lat')))", b))
		}},
		{Name: "malformed-rejected", Weight: 3, Gen: func(rnd *rand.Rand) *Inst {
			srid := srids[rnd.Intn(3)]
			g := genAny(rnd, srid)
			var expr, cls string
			wkb := g.wkb(binary.LittleEndian)
			switch rnd.Intn(6) {
			case 0: // truncated WKT
				w := g.wkt()
				if len(w) < 8 || g.kind == kColl && len(g.parts) == 0 {
					return nil
				}
				expr, cls = fmt.Sprintf("ST_GeomFromText(%s,%d)", Q(w[:len(w)-1-rnd.Intn(3)]), srid), "wkt-truncated"
			case 1: // unclosed ring
				c := coords(rnd, srid)
				ring := genRing(rnd, c)
				ring = ring[:len(ring)-1]
				if ring[0] == ring[len(ring)-1] {
					return nil
				}
				expr, cls = fmt.Sprintf("ST_GeomFromText(%s,%d)", Q("POLYGON(("+wktPts(ring)+"))"), srid), "wkt-unclosed-ring"
			case 2: // truncated WKB
				cut := 1 + rnd.Intn(len(wkb)-1)
				if g.kind >= kMPoint && cut >= 9 { // a multi geometry cut between members would need a count fix to be malformed
					cut = 5 + rnd.Intn(4)
				}
				expr, cls = fmt.Sprintf("ST_GeomFromWKB(%s,%d)", g5lib.X(wkb[:cut]), srid), "wkb-truncated"
			case 3: // byte order flag that is neither 0 nor 1
				bad := append([]byte{}, wkb...)
				bad[0] = byte(2 + rnd.Intn(254))
				expr, cls = fmt.Sprintf("ST_GeomFromWKB(%s,%d)", g5lib.X(bad), srid), "wkb-byte-order-flag"
			case 4: // unknown geometry type code
				bad := append([]byte{}, wkb...)
				bad[1] = byte(8 + rnd.Intn(200))
				expr, cls = fmt.Sprintf("ST_GeomFromWKB(%s,%d)", g5lib.X(bad), srid), "wkb-unknown-type"
			default: // garbage WKT
				expr, cls = fmt.Sprintf("ST_GeomFromText(%s,%d)", Q([]string{"POINT(1)", "POINT(1 2 3 4 5", "POINT(a b)", "CIRCLE(1 2)", "", "POINT(1 2))", "LINESTRING(1 2,)"}[rnd.Intn(7)]), srid), "wkt-garbage"
			}
			return &Inst{Class: cls + "/" + kindName[g.kind], Args: expr, OnErr: g5lib.ErrToCheck, Exprs: []string{"ST_AsText(" + expr + ")"}, Check: func(v []V) string {
				if g5lib.IsErr(v) {
					return ""
				}
				if v[0].IsNull() {
					return "" // NULL is also a rejection
				}
				return cls + "-accepted"
			}}
		}},
	}
}

// ---- spatial index vs. index-free twin ----

func box(x0, y0, x1, y1 float64) geom {
	return geom{kind: kPoly, rings: [][]pt{{{x0, y0}, {x1, y0}, {x1, y1}, {x0, y1}, {x0, y0}}}}
}

func spatialIndex(r *core.Run) {
	tables := r.N(40, 1200)
	probesPer := 25
	var engs [8]*core.Eng
	var sess [8]*core.Sess
	for w := range engs {
		engs[w] = core.NewEng("d")
		sess[w] = engs[w].NewSess()
	}
	defer func() {
		for _, e := range engs {
			e.Close()
		}
	}()
	var indexedPlans, probes int64
	r.Parallel("spatial-index", 8, func(w int) {
		s := sess[w]
		var ip, pr int64
		for t := w; t < tables; t += 8 {
			rnd := r.Rand("spatial-index", t)
			srid := []int{0, 0, 3857, 4326}[rnd.Intn(4)]
			lim := 100.0
			if srid == 4326 {
				lim = 80
			}
			small := func() float64 {
				if rnd.Intn(4) == 0 {
					return float64(rnd.Intn(int(2*lim)+1)) - lim // integers: shared edges and corners
				}
				return (rnd.Float64()*2 - 1) * lim
			}
			c := func() pt { return pt{small(), small()} }
			s.MustExec("DROP TABLE IF EXISTS gi")
			s.MustExec("DROP TABLE IF EXISTS gn")
			s.MustExec(fmt.Sprintf("CREATE TABLE gi (id INT PRIMARY KEY, g GEOMETRY NOT NULL SRID %d, SPATIAL KEY (g))", srid))
			s.MustExec(fmt.Sprintf("CREATE TABLE gn (id INT PRIMARY KEY, g GEOMETRY NOT NULL SRID %d)", srid))
			n := 5 + rnd.Intn(25)
			pointsOnly := rnd.Intn(2) == 0 // ST_Within supports only POINT as first argument on this tree
			var vals []string
			for i := 0; i < n; i++ {
				var g geom
				kindDraw := rnd.Intn(9)
				if pointsOnly {
					kindDraw = 0
				}
				switch kindDraw {
				case 0, 1, 2:
					g = geom{kind: kPoint, pts: []pt{c()}}
				case 3:
					p := c()
					g = box(p[0], p[1], p[0]+rnd.Float64()*20, p[1]+rnd.Float64()*20)
					if srid == 4326 {
						g = box(p[0], p[1], p[0]+rnd.Float64()*5, p[1]+rnd.Float64()*5)
					}
				case 4:
					g = geom{kind: kLine, pts: []pt{c(), c()}}
				case 5:
					g = geom{kind: kMPoint, parts: []geom{{kind: kPoint, pts: []pt{c()}}, {kind: kPoint, pts: []pt{c()}}}}
				case 6:
					g = geom{kind: kMLine, parts: []geom{{kind: kLine, pts: []pt{c(), c()}}, {kind: kLine, pts: []pt{c(), c(), c()}}}}
				default:
					// geometry collections (also nested): their bounding box is the union of the members' boxes, in
					// whatever order the members come
					mk := func() geom {
						switch rnd.Intn(3) {
						case 0:
							return geom{kind: kPoint, pts: []pt{c()}}
						case 1:
							return geom{kind: kLine, pts: []pt{c(), c()}}
						}
						p := c()
						return box(p[0], p[1], p[0]+rnd.Float64()*5, p[1]+rnd.Float64()*5)
					}
					parts := []geom{mk(), mk()}
					if rnd.Intn(2) == 0 {
						parts = append(parts, mk())
					}
					if rnd.Intn(4) == 0 {
						parts = append(parts, geom{kind: kColl, parts: []geom{mk(), mk()}})
					}
					g = geom{kind: kColl, parts: parts}
				}
				vals = append(vals, fmt.Sprintf("(%d, %s)", i, fromText(g, srid)))
			}
			s.MustExec("INSERT INTO gi VALUES " + strings.Join(vals, ","))
			s.MustExec("INSERT INTO gn VALUES " + strings.Join(vals, ","))
			for k := 0; k < probesPer; k++ {
				p := c()
				var probe geom
				pc := "box"
				switch rnd.Intn(5) {
				case 0:
					probe, pc = geom{kind: kPoint, pts: []pt{p}}, "point"
				case 1:
					probe, pc = box(-lim, -lim, lim, lim), "everything"
				default:
					wd, ht := rnd.Float64()*60, rnd.Float64()*60
					if rnd.Intn(3) == 0 {
						wd, ht = float64(rnd.Intn(30)), float64(rnd.Intn(30))
						p = pt{float64(int(p[0])), float64(int(p[1]))}
					}
					x1, y1 := p[0]+wd, p[1]+ht
					if srid == 4326 && (x1 > 89 || y1 > 179) {
						x1, y1 = p[0]+1, p[1]+1
					}
					probe = box(p[0], p[1], x1, y1)
				}
				fn := "ST_Intersects"
				if pointsOnly && rnd.Intn(2) == 0 {
					fn = "ST_Within"
				}
				lit := fromText(probe, srid)
				qi := fmt.Sprintf("SELECT id FROM gi WHERE %s(g, %s)", fn, lit)
				qn := fmt.Sprintf("SELECT id FROM gn WHERE %s(g, %s)", fn, lit)
				ri, rn := s.Exec(qi), s.Exec(qn)
				if ri.Panic != nil || rn.Panic != nil {
					r.Eval(1)
					pv := ri.Panic
					if pv == nil {
						pv = rn.Panic
					}
					r.Violation("spatial-index:panic:"+pv.Site, map[string]any{"indexed": qi, "panic": pv.Value})
					continue
				}
				if ri.TimedOut || rn.TimedOut {
					r.Inconclusive("timeout")
					continue
				}
				if ri.Err != nil || rn.Err != nil {
					// "unsupported spatial type" for some row: the index may or may not reach that row, so an
					// error on either side reaches no verdict
					r.Inconclusive(fn + ":error")
					continue
				}
				pr++
				r.Eval(1)
				a, b := core.SortedRows(ri.Rows), core.SortedRows(rn.Rows)
				if !core.SameStrings(a, b) {
					r.Violation("spatial-index:ids-differ-from-index-free-twin:"+fn, map[string]any{"setup": []string{"gi/gn SRID " + fmt.Sprint(srid), strings.Join(vals, ",")}, "indexed": qi, "indexed-ids": core.ClipStrings(a, 40), "plain-ids": core.ClipStrings(b, 40), "plan": s.Plan(qi)})
					continue
				}
				if k < 3 {
					if plan := s.Plan(qi); strings.Contains(plan, "IndexedTableAccess(gi)") && strings.Contains(plan, "index: [gi.g]") {
						ip++
					}
				}
				res := "empty"
				if len(a) == n {
					res = "all"
				} else if len(a) > 0 {
					res = "some"
				}
				r.Distinct(fmt.Sprintf("spatial-index|%s|%s|srid%d|%s", fn, pc, srid, res))
			}
		}
		r.Count("spatial-index-plans-using-the-index", ip)
		r.Count("spatial-index-probes", pr)
	})
	indexedPlans, probes = r.Counter("spatial-index-plans-using-the-index"), r.Counter("spatial-index-probes")
	r.Floor(indexedPlans > 0, "no probed plan used the spatial index (IndexedTableAccess on the SPATIAL KEY)")
	r.Floor(probes > 0, "no spatial-index probe reached a verdict")
}

// pinned replays the witnesses of the known findings (findings/C52.txt).
func pinned(r *core.Run) {
	// domain exclusion: an empty collection that is not the last member of its parent
	g5lib.Pin(r, "wkt-domain", "empty-collection-before-another-member-rejected", "ST_GeomFromText rejects a collection whose EMPTY member is followed by another member (ST_AsText produces such text)",
		"ST_AsText(ST_GeomFromText('GEOMETRYCOLLECTION(GEOMETRYCOLLECTION EMPTY,POINT(1 2))'))", "'GEOMETRYCOLLECTION(GEOMETRYCOLLECTION EMPTY,POINT(1 2))'", "ERR:invalid GIS data")
	g5lib.Pin(r, "wkt-domain", "empty-collection-before-another-member-truncates-nested-collection", "nested one level deeper the same text is accepted and the members after EMPTY are silently dropped",
		"ST_AsText(ST_GeomFromText('GEOMETRYCOLLECTION(POINT(0 0),GEOMETRYCOLLECTION(GEOMETRYCOLLECTION EMPTY,POINT(1 2)))'))",
		"'GEOMETRYCOLLECTION(POINT(0 0),GEOMETRYCOLLECTION(GEOMETRYCOLLECTION EMPTY,POINT(1 2)))'", "'GEOMETRYCOLLECTION(POINT(0 0),GEOMETRYCOLLECTION EMPTY)'")
	g5lib.Pin(r, "geojson-roundtrip", "single-point-multipoint-rejected-by-geomfromgeojson", "ST_GeomFromGeoJSON rejects the MultiPoint with one point that ST_AsGeoJSON printed",
		"ST_AsText(ST_GeomFromGeoJSON(ST_AsGeoJSON(ST_GeomFromText('MULTIPOINT((1 2))',4326))))", "'MULTIPOINT((1 2))'", "ERR:invalid GeoJSON data")
	// malformed WKB accepted / panicking
	rejected := func(v []V) string {
		if g5lib.IsErr(v) || v[0].IsNull() {
			return ""
		}
		return "wkb-byte-order-flag-accepted"
	}
	g5lib.PinnedInst(r, "malformed-rejected", "wkb-byte-order-flag-accepted", "ST_GeomFromWKB accepts a byte-order flag other than 0/1 (treated as little endian)",
		&Inst{Class: "pinned", OnErr: g5lib.ErrToCheck, Check: rejected, Exprs: []string{"ST_AsText(ST_GeomFromWKB(x'0201000000000000000000F03F0000000000000040'))"}})
	g5lib.PinnedInst(r, "malformed-rejected", "panic:sql/types.DeserializeLine", "ST_GeomFromWKB panics on a LINESTRING whose point count exceeds the data (slice bounds out of range)",
		&Inst{Class: "pinned", OnErr: g5lib.ErrToCheck, Check: func(v []V) string { return "" },
			Exprs: []string{"ST_AsText(ST_GeomFromWKB(x'0102000000030000000000000000000000000000000000000000000000000000F03F000000000000F03F'))"}})
}
