package main
import ("fmt";"os";"bufio";"strings";"verif/harness/core")
func main(){
 e:=core.NewEng("d"); s:=e.NewSess(); s2:=e.NewSess()
 sc:=bufio.NewScanner(os.Stdin); sc.Buffer(make([]byte,1<<20),1<<20)
 for sc.Scan(){ q:=strings.TrimSpace(sc.Text()); if q==""||strings.HasPrefix(q,"#"){continue}
  ss:=s; if strings.HasPrefix(q,"2:"){ss=s2;q=q[2:]}
  if strings.HasPrefix(q,"plan:"){fmt.Println(ss.Plan(q[5:]));continue}
  r:=ss.Exec(q)
  fmt.Printf("> %s\n", q)
  if r.Panic!=nil {fmt.Println("  PANIC",r.Panic.Value,r.Panic.Site);continue}
  if r.TimedOut {fmt.Println("  TIMEOUT");continue}
  if r.Err!=nil {fmt.Println("  ERR",r.ErrClass(),r.Err);continue}
  for _,row:=range r.Rows{fmt.Println("  ",core.CanonRow(row))}
  for _,w:=range r.Warnings{fmt.Println("  WARN",w.Code,w.Message)}
 }
}
