// scratch probe: reads lines "sN: sql" (or plain sql → s0) from stdin, prints results.
package main

import (
	"bufio"
	dsql "database/sql"
	"sort"
	"fmt"
	"os"
	"strings"
	"time"

	"github.com/dolthub/go-mysql-server/sql"
	"github.com/dolthub/vitess/go/sqltypes"
	"github.com/dolthub/vitess/go/vt/sqlparser"

	"verif/harness/core"
	"verif/harness/g10lib"
)

func main() {
	core.StmtTimeout = 8 * time.Second
	e := core.NewEng("d")
	ss := map[string]*core.Sess{}
	wdb := map[string]*dsql.DB{}
	wst := map[string]*dsql.Stmt{}
	var srv *core.Srv
	sc := bufio.NewScanner(os.Stdin)
	sc.Buffer(make([]byte, 1<<20), 1<<20)
	for sc.Scan() {
		line := strings.TrimSpace(sc.Text())
		if line == "" || strings.HasPrefix(line, "#") {
			continue
		}
		tag := "s0"
		if len(line) > 3 && (line[0] == 's' || line[0] == 'w') && line[2] == ':' {
			tag, line = line[:2], strings.TrimSpace(line[3:])
		}
		if tag[0] == 'w' {
			db, ok := wdb[tag]
			if !ok {
				if srv == nil {
					var err error
					srv, _, err = g10lib.StartServer(e, "")
					if err != nil {
						panic(err)
					}
				}
				db, _ = srv.Open("root", "", "")
				wdb[tag] = db
			}
			fmt.Printf("%s> %s\n", tag, line)
			if strings.HasPrefix(strings.ToUpper(line), "SELECT") {
				rows, err := db.Query(line)
				if err != nil {
					fmt.Println("   ERR", err)
					continue
				}
				cols, _ := rows.Columns()
				var out []string
				for rows.Next() {
					cells := make([]dsql.NullString, len(cols))
					ptrs := make([]any, len(cols))
					for i := range cells {
						ptrs[i] = &cells[i]
					}
					rows.Scan(ptrs...)
					var parts []string
					for _, c := range cells {
						if c.Valid {
							parts = append(parts, c.String)
						} else {
							parts = append(parts, "NULL")
						}
					}
					out = append(out, strings.Join(parts, "|"))
				}
				rows.Close()
				sort.Strings(out)
				fmt.Println("  ", out)
			} else if strings.HasPrefix(line, "WPREP: ") {
				st, err := db.Prepare(line[7:])
				fmt.Println("   prepared", err)
				wst[tag] = st
			} else if strings.HasPrefix(line, "WEXEC: ") {
				var pv int64
				fmt.Sscan(line[7:], &pv)
				rows, err := wst[tag].Query(pv)
				if err != nil {
					fmt.Println("   ERR", err)
					continue
				}
				n := 0
				for rows.Next() {
					n++
				}
				rows.Close()
				fmt.Println("   rows:", n)
			} else {
				_, err := db.Exec(line)
				if err != nil {
					fmt.Println("   ERR", err)
				} else {
					fmt.Println("   ok")
				}
			}
			continue
		}
		s, ok := ss[tag]
		if !ok {
			s = e.NewSess()
			ss[tag] = s
		}
		plan := false
		if strings.HasPrefix(line, "PLAN ") {
			plan = true
			line = line[5:]
		}
		if plan {
			fmt.Printf("%s> PLAN %s\n%s\n", tag, line, s.Plan(line))
			continue
		}
		var r *core.Result
		if strings.HasPrefix(line, "PREP: ") {
			_, err := s.Eng.E.PrepareQuery(s.Ctx(), line[6:])
			fmt.Printf("%s> %s\n   prepare err=%v\n", tag, line, err)
			continue
		}
		if strings.HasPrefix(line, "API: ") {
			parts := strings.Split(line[5:], " ## ")
			var pv int64
			fmt.Sscan(parts[1], &pv)
			bv, _ := sqltypes.BuildBindVariable(pv)
			v, _ := sqltypes.BindVariableToValue(bv)
			ex, _ := sqlparser.ExprFromValue(v)
			r = g10lib.Run(s, parts[0], func(ctx *sql.Context) (sql.Schema, sql.RowIter, error) {
				sch, it, _, err := s.Eng.E.QueryWithBindings(ctx, parts[0], nil, map[string]sqlparser.Expr{"v1": ex}, nil)
				return sch, it, err
			})
		} else {
			r = s.Exec(line)
		}
		fmt.Printf("%s> %s\n", tag, line)
		switch {
		case r.TimedOut:
			fmt.Println("   TIMEOUT")
		case r.Panic != nil:
			fmt.Println("   PANIC", r.Panic.Value, r.Panic.Site)
		case r.Err != nil:
			fmt.Println("   ERR", r.ErrClass(), r.Err)
		default:
			fmt.Println("  ", core.SortedRows(r.Rows))
		}
	}
}
