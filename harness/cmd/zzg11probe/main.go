// scratch probe (group 11): reads lines "user@host|sql" from stdin, runs them in-process with accounts enabled.
package main

import (
	"bufio"
	"fmt"
	"os"
	"strings"

	"github.com/dolthub/go-mysql-server/sql/mysql_db"
	"verif/harness/core"
)

func main() {
	e := core.NewEng("d")
	defer e.Close()
	mdb := e.E.Analyzer.Catalog.MySQLDb
	mdb.AddRootAccount()
	mdb.SetPersister(&mysql_db.NoopPersister{})
	sess := map[string]*core.Sess{}
	sc := bufio.NewScanner(os.Stdin)
	sc.Buffer(make([]byte, 1<<20), 1<<20)
	for sc.Scan() {
		line := strings.TrimSpace(sc.Text())
		if line == "" || strings.HasPrefix(line, "#") {
			continue
		}
		who := "root@localhost"
		q := line
		if k := strings.Index(line, "|"); k >= 0 {
			who, q = line[:k], line[k+1:]
		}
		s := sess[who]
		if s == nil {
			p := strings.SplitN(who, "@", 2)
			s = e.NewSessAs(p[0], p[1])
			sess[who] = s
		}
		r := s.Exec(q)
		fmt.Printf("%-16s %s\n", who, q)
		if r.Failed() {
			fmt.Printf("    ERR[%s] %v panic=%v\n", r.ErrClass(), r.Err, r.Panic != nil)
			if r.Panic != nil {
				fmt.Println(r.Panic.Value, r.Panic.Site)
			}
			continue
		}
		for _, row := range core.CanonRows(r.Rows) {
			fmt.Printf("    %s\n", row)
		}
	}
}
