package main

import (
	"fmt"
	"sort"

	"github.com/dolthub/go-mysql-server/sql"
	_ "github.com/dolthub/go-mysql-server/sql/variables"
	"verif/harness/core"
)

func main() {
	e := core.NewEng("d")
	defer e.Close()
	all := sql.SystemVariables.GetAllGlobalVariables()
	var names []string
	for n := range all {
		names = append(names, n)
	}
	sort.Strings(names)
	kinds := map[string]int{}
	for _, n := range names {
		sv, val, ok := sql.SystemVariables.GetGlobal(n)
		if !ok || sv == nil {
			fmt.Println(n, "NOT OK")
			continue
		}
		m, _ := sv.(*sql.MysqlSystemVariable)
		scope, notify, vf := "?", false, false
		if m != nil {
			scope = fmt.Sprint(m.Scope.Type)
			notify = m.NotifyChanged != nil
			vf = m.ValueFunction != nil
		}
		k := fmt.Sprintf("%T", sv.GetType())
		kinds[k+"/"+scope+fmt.Sprintf("/ro=%v", sv.IsReadOnly())]++
		fmt.Printf("%-50s %-28s scope=%s ro=%v notify=%v vf=%v val=%v (%T) default=%v\n", n, k, scope, sv.IsReadOnly(), notify, vf, val, val, sv.GetDefault())
	}
	fmt.Println(len(names), kinds)
}
