package main

import (
	"fmt"
	"time"

	"verif/harness/g11lib"
)

func main() {
	f := g11lib.NewFix(nil)
	defer f.Close()
	for _, q := range []string{
		"CREATE USER 'a'@'%' IDENTIFIED BY 'pwA'",
		"CREATE USER 'a'@'127.%' IDENTIFIED BY 'pwB'",
		"CREATE USER 'b'@'127.0.0.1' IDENTIFIED BY 'pwC'",
		"CREATE USER 'c'@'localhost'",
		"CREATE USER 'd'@'10.%' IDENTIFIED BY 'pwD'",
		"CREATE USER 'e'@'%' IDENTIFIED WITH caching_sha2_password BY 'pwE'",
		"CREATE USER 'g'@'%' IDENTIFIED WITH caching_sha2_password",
		"GRANT SELECT ON d.t1 TO 'a'@'%'",
		"GRANT SELECT ON d.t2 TO 'a'@'127.%'",
	} {
		f.Root.MustExec(q)
	}
	t0 := time.Now()
	srv, err := f.E.StartServer()
	if err != nil {
		panic(err)
	}
	defer srv.Close()
	fmt.Println("server start", time.Since(t0))
	try := func(u, p string) {
		t := time.Now()
		db, err := srv.Open(u, p, "")
		if err != nil {
			fmt.Println(u, p, "open err", err)
			return
		}
		defer db.Close()
		err = db.Ping()
		if err != nil {
			fmt.Printf("%-4s %-6q -> REJECT %v (%v)\n", u, p, err, time.Since(t))
			return
		}
		var cu, us string
		e2 := db.QueryRow("SELECT CURRENT_USER(), USER()").Scan(&cu, &us)
		var n int
		e3 := db.QueryRow("SELECT COUNT(*) FROM d.t1").Scan(&n)
		e4 := db.QueryRow("SELECT COUNT(*) FROM d.t2").Scan(&n)
		fmt.Printf("%-4s %-6q -> OK current_user=%s user=%s (%v) t1:%v t2:%v (%v)\n", u, p, cu, us, e2, e3, e4, time.Since(t))
	}
	for _, x := range [][2]string{{"a", "pwA"}, {"a", "pwB"}, {"a", ""}, {"a", "pwa"}, {"b", "pwC"}, {"b", "x"}, {"c", ""}, {"c", "x"}, {"d", "pwD"}, {"e", "pwE"}, {"e", "bad"}, {"e", ""}, {"g", ""}, {"g", "x"}, {"zz", ""}, {"zz", "x"}, {"A", "pwA"}, {"root", ""}} {
		try(x[0], x[1])
	}
	right := func(pw string) func([]byte) []byte { return func(s []byte) []byte { return g11lib.NativeScramble(pw, s) } }
	cut := func(pw string, n int) func([]byte) []byte {
		return func(s []byte) []byte {
			r := g11lib.NativeScramble(pw, s)
			if n <= len(r) {
				return r[:n]
			}
			return append(r, make([]byte, n-len(r))...)
		}
	}
	raw := func(label string, a g11lib.RawAttempt) {
		o := g11lib.RawLogin(srv.Addr, a)
		fmt.Printf("raw %-40s -> %+v\n", label, o)
	}
	raw("b right", g11lib.RawAttempt{User: "b", Plugin: "mysql_native_password", Response: right("pwC")})
	raw("b wrong", g11lib.RawAttempt{User: "b", Plugin: "mysql_native_password", Response: right("nope")})
	for _, n := range []int{0, 1, 10, 19, 21, 40} {
		raw(fmt.Sprintf("b cut/ext %d", n), g11lib.RawAttempt{User: "b", Plugin: "mysql_native_password", Response: cut("pwC", n)})
	}
	raw("b 255 lenenc", g11lib.RawAttempt{User: "b", Plugin: "mysql_native_password", Response: cut("pwC", 255), Lenenc: true})
	raw("b 70000 lenenc", g11lib.RawAttempt{User: "b", Plugin: "mysql_native_password", Response: cut("pwC", 70000), Lenenc: true})
	raw("b lie len 20 of 5", g11lib.RawAttempt{User: "b", Plugin: "mysql_native_password", Response: cut("pwC", 5), LieAboutLength: 20})
	raw("b lie len 200 of 20", g11lib.RawAttempt{User: "b", Plugin: "mysql_native_password", Response: right("pwC"), LieAboutLength: 200})
	raw("b plugin bogus", g11lib.RawAttempt{User: "b", Plugin: "bogus_plugin", Response: right("pwC")})
	raw("b plugin empty", g11lib.RawAttempt{User: "b", Plugin: "", Response: right("pwC")})
	raw("b plugin clear", g11lib.RawAttempt{User: "b", Plugin: "mysql_clear_password", Response: func([]byte) []byte { return []byte("pwC\x00") }})
	raw("b plugin sha2, switch short", g11lib.RawAttempt{User: "b", Plugin: "caching_sha2_password", Response: right("pwC"), SwitchResponse: cut("pwC", 7)})
	raw("b plugin sha2, switch right", g11lib.RawAttempt{User: "b", Plugin: "caching_sha2_password", Response: right("pwC")})
	raw("c empty", g11lib.RawAttempt{User: "c", Plugin: "mysql_native_password", Response: func([]byte) []byte { return nil }})
	raw("c junk3", g11lib.RawAttempt{User: "c", Plugin: "mysql_native_password", Response: func([]byte) []byte { return []byte{1, 2, 3} }})
	raw("zz right-ish", g11lib.RawAttempt{User: "zz", Plugin: "mysql_native_password", Response: right("x")})
	raw("zz short", g11lib.RawAttempt{User: "zz", Plugin: "mysql_native_password", Response: cut("x", 3)})
	try("b", "pwC")
	raw("g sha2 empty", g11lib.RawAttempt{User: "g", Plugin: "caching_sha2_password", Response: func([]byte) []byte { return nil }})
	raw("g native empty", g11lib.RawAttempt{User: "g", Plugin: "mysql_native_password", Response: func([]byte) []byte { return nil }})
	raw("g sha2 nul", g11lib.RawAttempt{User: "g", Plugin: "caching_sha2_password", Response: func([]byte) []byte { return []byte{0} }})
}
