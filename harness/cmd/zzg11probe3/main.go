package main

import (
	"fmt"

	"verif/harness/g11lib"
)

func main() {
	f := g11lib.NewFix(nil)
	defer f.Close()
	srv, err := f.E.StartServer()
	if err != nil {
		panic(err)
	}
	defer srv.Close()
	try := func(u, p string) {
		db, _ := srv.Open(u, p, "")
		defer db.Close()
		err = db.Ping()
		fmt.Printf("%-4s %-10q -> %v\n", u, p, err)
	}
	for _, q := range []string{
		"CREATE USER 'cy'@'127.0.0._' IDENTIFIED BY 'longer-password-123'",
		"CREATE USER 'cy'@'%' IDENTIFIED BY 'Secret1'",
		"GRANT SELECT ON d.* TO 'cy'@'%'",
	} {
		f.Root.MustExec(q)
	}
	try("cy", "Secret1")
	f.Root.MustExec("DROP USER 'cy'@'127.0.0._'")
	r := f.Root.Exec("SELECT user, host, authentication_string FROM mysql.user")
	fmt.Println(r.Rows, r.Err)
	try("cy", "Secret1")
	try("cy", "longer-password-123")
}
