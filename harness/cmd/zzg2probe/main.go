package main

import (
	"bufio"
	"fmt"
	"os"

	"verif/harness/core"
)

func main() {
	e := core.NewEng("d")
	defer e.Close()
	if os.Getenv("MYSQLDB") != "" {
		e.E.Analyzer.Catalog.MySQLDb.AddRootAccount()
	}
	s := e.NewSess()
	sc := bufio.NewScanner(os.Stdin)
	sc.Buffer(make([]byte, 1<<20), 1<<20)
	for sc.Scan() {
		q := sc.Text()
		if q == "" {
			continue
		}
		r := s.Exec(q)
		fmt.Printf("> %s\n", q)
		if r.Panic != nil {
			fmt.Printf("  PANIC %s | %s\n", r.Panic.Value, r.Panic.Site)
			continue
		}
		if r.Err != nil {
			fmt.Printf("  ERR(%s) %v\n", r.ErrClass(), r.Err)
			continue
		}
		for _, row := range r.Rows {
			fmt.Printf("  %s\n", core.CanonRow(row))
		}
		for _, w := range r.Warnings {
			fmt.Printf("  WARN %d %s\n", w.Code, w.Message)
		}
	}
}
