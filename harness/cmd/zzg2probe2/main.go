package main

import (
	"context"
	"fmt"
	"strings"

	"github.com/dolthub/go-mysql-server/sql"
	"github.com/dolthub/go-mysql-server/sql/types"
	"github.com/dolthub/vitess/go/sqltypes"
)

func main() {
	it := sql.NewCollationsIterator()
	n, withSorter, withEnc := 0, 0, 0
	ctx := context.Background()
	for c, ok := it.Next(); ok; c, ok = it.Next() {
		n++
		if c.Sorter == nil {
			continue
		}
		withSorter++
		if c.CharacterSet.Encoder() == nil {
			fmt.Println("sorter but no encoder:", c.Name)
			continue
		}
		withEnc++
		t, err := types.CreateString(sqltypes.VarChar, 64, c.ID)
		if err != nil {
			fmt.Println("create err", c.Name, err)
			continue
		}
		// ci check
		if strings.HasSuffix(c.Name, "_ci") {
			var bad []string
			for ch := 'a'; ch <= 'z'; ch++ {
				r, err := t.Compare(ctx, string(ch), string(ch-32))
				if err != nil || r != 0 {
					bad = append(bad, string(ch))
				}
			}
			for _, p := range [][2]string{{"é", "É"}, {"ö", "Ö"}, {"ñ", "Ñ"}, {"å", "Å"}, {"ø", "Ø"}, {"æ", "Æ"}, {"þ", "Þ"}, {"я", "Я"}, {"ω", "Ω"}} {
				r, err := t.Compare(ctx, p[0], p[1])
				if err != nil || r != 0 {
					bad = append(bad, p[0])
				}
			}
			if len(bad) > 0 {
				fmt.Println("ci-unequal", c.Name, bad, "cs-flag", c.IsCaseSensitive)
			}
		} else {
			r, _ := t.Compare(ctx, "a", "A")
			fmt.Println("non-ci", c.Name, "a vs A:", r, "caseSens", c.IsCaseSensitive, "pad", c.PadAttribute)
		}
	}
	fmt.Println("collations", n, "withSorter", withSorter, "withEncoder", withEnc)
}
