package main

import (
	"fmt"

	"github.com/dolthub/vitess/go/vt/sqlparser"
)

func main() {
	for _, q := range []string{"SELECT a FROM t WHERE a = .1234567", "SELECT t.1234", "SELECT a FROM t LIMIT 5 -- zz", "select 1 --x", "SELECT x'AB', X'AB' , 'a' 'b', \"dq 'in'\"", "SELECT a.`b`.c, :=", "KILL QUERY 123", "select 12.5E-3, 1e5x"} {
		tk := sqlparser.NewStringTokenizer(q)
		fmt.Print(q, " => ")
		for {
			typ, val := tk.Scan()
			if typ == 0 {
				break
			}
			fmt.Printf("[%d %q] ", typ, val)
		}
		fmt.Println()
	}
}
