package main

import (
	"fmt"
	"math/rand"
	"os"
	"strings"

	"verif/harness/core"
)

func main() {
	e := core.NewEng("d")
	defer e.Close()
	s := e.NewSess()
	s.MustExec("CREATE TABLE t (id INT PRIMARY KEY, a TINYINT, b TINYINT, c TINYINT, KEY abc (a,b,c))")
	s.MustExec("CREATE TABLE u (id INT PRIMARY KEY, a TINYINT, b TINYINT, c TINYINT)")
	id := 0
	vals := []string{"NULL", "0", "2", "4", "6", "8", "10", "12"}
	for _, a := range vals {
		for _, b := range vals {
			for _, c := range []string{"NULL", "0", "4", "12"} {
				id++
				q := fmt.Sprintf("(%d,%s,%s,%s)", id, a, b, c)
				s.MustExec("INSERT INTO t VALUES " + q)
				s.MustExec("INSERT INTO u VALUES " + q)
			}
		}
	}
	seed := int64(1)
	if len(os.Args) > 1 {
		fmt.Sscan(os.Args[1], &seed)
	}
	rnd := rand.New(rand.NewSource(seed))
	cond := func(col string) string {
		k := 2 * rnd.Intn(7)
		k2 := k + 2*rnd.Intn(4)
		switch rnd.Intn(9) {
		case 0:
			return col + " IS NULL"
		case 1:
			return col + " IS NOT NULL"
		case 2, 3:
			return fmt.Sprintf("%s = %d", col, k)
		case 4:
			return fmt.Sprintf("%s > %d", col, k)
		case 5:
			return fmt.Sprintf("%s <= %d", col, k)
		case 6:
			return fmt.Sprintf("%s BETWEEN %d AND %d", col, k, k2)
		case 7:
			return fmt.Sprintf("(%s > %d AND %s < %d)", col, k, col, k2+2)
		}
		return fmt.Sprintf("%s >= %d", col, k)
	}
	found := 0
	for i := 0; i < 4000 && found < 3; i++ {
		nd := 2 + rnd.Intn(5)
		var ds []string
		for j := 0; j < nd; j++ {
			cs := []string{cond("a")}
			if rnd.Intn(5) > 0 {
				cs = append(cs, cond("b"))
				if rnd.Intn(2) > 0 {
					cs = append(cs, cond("c"))
				}
			}
			ds = append(ds, "("+strings.Join(cs, " AND ")+")")
		}
		w := strings.Join(ds, " OR ")
		rt := s.Exec("SELECT id FROM t WHERE " + w)
		ru := s.Exec("SELECT id FROM u WHERE " + w)
		if rt.Failed() || ru.Failed() {
			fmt.Println("FAIL", rt.Err, rt.Panic != nil, "|", ru.Err, "\n  ", w)
			for ch := true; ch; {
				ch = false
				for k := 0; k < len(ds) && len(ds) > 1; k++ {
					c2 := append(append([]string(nil), ds[:k]...), ds[k+1:]...)
					r2 := s.Exec("SELECT id FROM t WHERE " + strings.Join(c2, " OR "))
					if r2.Err != nil && strings.Contains(r2.Err.Error(), "overlapping ranges") {
						ds = c2
						ch = true
						k--
					}
				}
			}
			fmt.Println("MIN:", strings.Join(ds, " OR "))
			found++
			continue
		}
		if !core.SameStrings(core.SortedRows(rt.Rows), core.SortedRows(ru.Rows)) {
			fmt.Println("DIFF", len(rt.Rows), len(ru.Rows), "\n  ", w, "\n", s.Plan("SELECT id FROM t WHERE "+w))
			found++
		}
	}
	fmt.Println("done")
}
