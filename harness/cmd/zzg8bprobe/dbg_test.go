package main

import (
	"fmt"
	"testing"

	"verif/harness/core"
)

func TestDbg(t *testing.T) {
	e := core.NewEng("d")
	defer e.Close()
	s := e.NewSess()
	for _, q := range []string{
		"CREATE TABLE t (id INT PRIMARY KEY, a INT, b INT, KEY ib(b))",
		"INSERT INTO t VALUES (21,1,0),(22,1,5),(23,1,1),(24,1,1),(25,2,7)",
		"BEGIN",
		"DELETE FROM t WHERE id = 22",
		"ROLLBACK",
	} {
		s.MustExec(q)
	}
	fmt.Println(core.SortedRows(s.Exec("SELECT id FROM t WHERE b <= 1").Rows))
	fmt.Println(core.SortedRows(s.Exec("SELECT id, (b <= 1) IS TRUE FROM t").Rows))
}
