// scratch probe (group 8b): reads statements (one per line, optional "[n] " session prefix) from stdin
package main

import (
	"bufio"
	"fmt"
	"os"
	"strings"
	"time"

	"verif/harness/core"
)

func main() {
	core.StmtTimeout = 10 * time.Second
	e := core.NewEng("d")
	defer e.Close()
	sess := map[string]*core.Sess{}
	sc := bufio.NewScanner(os.Stdin)
	sc.Buffer(make([]byte, 1<<20), 1<<20)
	for sc.Scan() {
		line := strings.TrimSpace(sc.Text())
		if line == "" || strings.HasPrefix(line, "#") {
			continue
		}
		sid := "1"
		if strings.HasPrefix(line, "[") {
			k := strings.Index(line, "]")
			sid = line[1:k]
			line = strings.TrimSpace(line[k+1:])
		}
		s, ok := sess[sid]
		if !ok {
			s = e.NewSess()
			sess[sid] = s
		}
		plan := false
		if strings.HasPrefix(line, "PLAN ") {
			plan = true
			line = line[5:]
		}
		line = strings.TrimSuffix(line, ";")
		if plan {
			fmt.Printf("[%s] PLAN %s\n%s", sid, line, s.Plan(line))
			continue
		}
		r := s.Exec(line)
		fmt.Printf("[%s] %s\n", sid, line)
		if r.Panic != nil {
			fmt.Printf("   PANIC %s @ %s\n", r.Panic.Value, r.Panic.Site)
		} else if r.TimedOut {
			fmt.Printf("   TIMEOUT\n")
		} else if r.Err != nil {
			fmt.Printf("   ERR(%s) %v\n", r.ErrClass(), r.Err)
		} else {
			fmt.Printf("   -> %s\n", strings.Join(core.CanonRows(r.Rows), " ; "))
		}
	}
}
