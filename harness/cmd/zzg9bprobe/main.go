package main

import (
	"bufio"
	"fmt"
	"os"
	"strings"

	"github.com/dolthub/go-mysql-server/memory"

	"verif/harness/core"
	"verif/harness/g9blib"
)

// directives: "#ro" engine read-only on; "#rw" off; "#lock" server locked; "#unlock"; "#sess" new session;
// "#rodb" rebuild engine with database d wrapped read-only (must have been created with "#hist" first)
func main() {
	e := g9blib.NewEngNamed("d", "other")
	s := e.NewSess()
	var hist *memory.HistoryDatabase
	sc := bufio.NewScanner(os.Stdin)
	sc.Buffer(make([]byte, 1<<20), 1<<20)
	for sc.Scan() {
		q := sc.Text()
		if q == "" {
			continue
		}
		if strings.HasPrefix(q, "#") {
			switch strings.TrimSpace(q) {
			case "#ro":
				e.E.ReadOnly.Store(true)
			case "#rw":
				e.E.ReadOnly.Store(false)
			case "#lock":
				e.E.IsServerLocked = true
			case "#unlock":
				e.E.IsServerLocked = false
			case "#sess":
				s = e.NewSess()
			case "#hist":
				hist = memory.NewHistoryDatabase("d")
				pro := memory.NewDBProvider(memory.NewDatabase("other"), hist)
				e = g9blib.NewEng(pro.AllDatabases(nil)...)
				s = e.NewSess()
			case "#rodb":
				pro := memory.NewDBProvider(memory.ReadOnlyDatabase{HistoryDatabase: hist}, e.Pro.AllDatabases(nil)[1])
				e = g9blib.NewEng(pro.AllDatabases(nil)...)
				s = e.NewSess()
			}
			fmt.Println(q)
			continue
		}
		r := s.Exec(q)
		fmt.Printf("> %s\n", q)
		if r.Panic != nil {
			fmt.Printf("  PANIC %s | %s\n", r.Panic.Value, r.Panic.Site)
			continue
		}
		if r.TimedOut {
			fmt.Printf("  TIMEOUT\n")
			continue
		}
		if r.Err != nil {
			fmt.Printf("  ERR(%s) %v\n", r.ErrClass(), r.Err)
			continue
		}
		for _, row := range r.Rows {
			fmt.Printf("  %s\n", core.CanonRow(row))
		}
		for _, w := range r.Warnings {
			fmt.Printf("  WARN %d %s\n", w.Code, w.Message)
		}
	}
}
