package core

import (
	"context"
	"fmt"
	"io"
	"math/big"
	"sort"
	"strconv"
	"strings"
	"sync/atomic"
	"time"

	sqle "github.com/dolthub/go-mysql-server"
	"github.com/dolthub/go-mysql-server/memory"
	"github.com/dolthub/go-mysql-server/sql"
	"github.com/dolthub/go-mysql-server/sql/types"
	"github.com/cockroachdb/apd/v3"
	"github.com/sirupsen/logrus"
)

func init() {
	logrus.SetOutput(io.Discard)
	logrus.SetLevel(logrus.PanicLevel)
}

// StmtTimeout is the per-statement watchdog. A fired watchdog is inconclusive, never a verdict by
// itself (except where a monitor says so).
var StmtTimeout = 60 * time.Second

// Eng is one in-memory engine with its provider.
type Eng struct {
	E   *sqle.Engine
	Pro *memory.DbProvider
	DB  string
}

var nextConn uint32 = 100

// NewEng creates a fresh engine over an empty in-memory database named db.
func NewEng(db string) *Eng {
	d := memory.NewDatabase(db)
	pro := memory.NewDBProvider(d)
	e := sqle.NewDefault(pro)
	return &Eng{E: e, Pro: pro, DB: db}
}

// Close releases the engine's background resources.
func (e *Eng) Close() { e.E.Close() }

// Sess is one client session of an engine.
type Sess struct {
	Eng  *Eng
	S    *memory.Session
	ID   uint32
	User string
}

// NewSess opens a session (own connection id) with the current database set.
func (e *Eng) NewSess() *Sess { return e.NewSessAs("root", "localhost") }

// NewSessAs opens a session for a given client identity.
func (e *Eng) NewSessAs(user, host string) *Sess {
	id := atomic.AddUint32(&nextConn, 1)
	bs := sql.NewBaseSessionWithClientServer("verif", sql.Client{User: user, Address: host, Capabilities: 0}, id)
	s := memory.NewSession(bs, e.Pro)
	s.SetCurrentDatabase(e.DB)
	return &Sess{Eng: e, S: s, ID: id, User: user}
}

// Ctx makes a fresh statement context on the session.
func (s *Sess) Ctx() *sql.Context {
	return sql.NewContext(context.Background(), sql.WithSession(s.S))
}

// Result is everything observable about one statement execution.
type Result struct {
	SQL      string
	Schema   sql.Schema
	Rows     []sql.Row
	Err      error
	Panic    *PanicInfo
	TimedOut bool
	Warnings []*sql.Warning
}

// Failed reports whether the statement did not deliver a result.
func (r *Result) Failed() bool { return r.Err != nil || r.Panic != nil || r.TimedOut }

// Ok returns the OkResult of a DML/DDL statement, if that is what was returned.
func (r *Result) Ok() (types.OkResult, bool) {
	if len(r.Rows) == 1 && len(r.Rows[0]) == 1 {
		if ok, is := r.Rows[0][0].(types.OkResult); is {
			return ok, true
		}
	}
	return types.OkResult{}, false
}

// ErrClass gives a coarse class for an error: the MySQL error number when the engine assigns one.
func (r *Result) ErrClass() string {
	if r.Panic != nil {
		return "panic"
	}
	if r.TimedOut {
		return "timeout"
	}
	if r.Err == nil {
		return ""
	}
	me := sql.CastSQLError(r.Err)
	if me != nil {
		return fmt.Sprintf("%d", me.Num)
	}
	return "err"
}

// Exec runs one statement to completion under the watchdog, recovering panics.
func (s *Sess) Exec(q string) *Result {
	ctx := s.Ctx()
	return s.ExecCtx(ctx, q)
}

// ExecCtx is Exec on a caller-made context.
func (s *Sess) ExecCtx(ctx *sql.Context, q string) *Result {
	res := &Result{SQL: q}
	done := make(chan struct{})
	cctx, cancel := context.WithCancel(ctx.Context)
	ctx = ctx.WithContext(cctx)
	defer cancel()
	go func() {
		defer close(done)
		defer func() {
			if rec := recover(); rec != nil {
				res.Panic = CapturePanic(rec)
			}
		}()
		ctx.Session.ClearWarnings()
		sch, iter, _, err := s.Eng.E.Query(ctx, q)
		if err != nil {
			res.Err = err
			return
		}
		rows, err := sql.RowIterToRows(ctx, iter)
		res.Schema = sch
		if err != nil {
			res.Err = err
			return
		}
		res.Rows = rows
		res.Warnings = ctx.Session.Warnings()
	}()
	select {
	case <-done:
		return res
	case <-time.After(StmtTimeout):
		cancel()
		select {
		case <-done:
		case <-time.After(5 * time.Second):
		}
		return &Result{SQL: q, TimedOut: true}
	}
}

// MustExec runs a setup statement and panics with the statement when it fails (harness bug or a
// violation attributed by the caller's recover).
func (s *Sess) MustExec(q string) *Result {
	r := s.Exec(q)
	if r.Failed() {
		panic(fmt.Sprintf("setup statement failed: %s: err=%v panic=%v timeout=%v", q, r.Err, r.Panic != nil, r.TimedOut))
	}
	return r
}

// Plan returns the physical plan text of a query.
func (s *Sess) Plan(q string) string {
	r := s.Exec("explain plan " + q)
	if r.Failed() {
		return "ERR:" + r.ErrClass()
	}
	var b strings.Builder
	for _, row := range r.Rows {
		b.WriteString(fmt.Sprint(row[0]))
		b.WriteString("\n")
	}
	return b.String()
}

// ---- canonical values ----

// Canon renders a value in canonical comparable text: numbers as exact normalised decimals, NULL
// distinct from everything, bytes as hex, times in a fixed layout, JSON key-sorted.
func Canon(v any) string {
	if v == nil {
		return "NULL"
	}
	if w, ok := v.(sql.AnyWrapper); ok {
		u, err := w.UnwrapAny(context.Background())
		if err != nil {
			return "UNWRAPERR:" + err.Error()
		}
		v = u
	}
	switch x := v.(type) {
	case bool:
		if x {
			return "1"
		}
		return "0"
	case int:
		return strconv.FormatInt(int64(x), 10)
	case int8:
		return strconv.FormatInt(int64(x), 10)
	case int16:
		return strconv.FormatInt(int64(x), 10)
	case int32:
		return strconv.FormatInt(int64(x), 10)
	case int64:
		return strconv.FormatInt(x, 10)
	case uint:
		return strconv.FormatUint(uint64(x), 10)
	case uint8:
		return strconv.FormatUint(uint64(x), 10)
	case uint16:
		return strconv.FormatUint(uint64(x), 10)
	case uint32:
		return strconv.FormatUint(uint64(x), 10)
	case uint64:
		return strconv.FormatUint(x, 10)
	case float32:
		return canonFloat(float64(x), 32)
	case float64:
		return canonFloat(x, 64)
	case apd.Decimal:
		return canonDecimalText(x.Text('f'))
	case *apd.Decimal:
		if x == nil {
			return "NULL"
		}
		return canonDecimalText(x.Text('f'))
	case string:
		return "'" + x + "'"
	case []byte:
		return fmt.Sprintf("x'%x'", x)
	case time.Time:
		return "t'" + x.UTC().Format("2006-01-02 15:04:05.000000") + "'"
	case types.Timespan:
		return "ts'" + x.String() + "'"
	case sql.JSONWrapper:
		s, err := types.JsonToMySqlString(context.Background(), x)
		if err != nil {
			return "JSONERR"
		}
		return "json:" + s
	case types.OkResult:
		info := ""
		if x.Info != nil {
			info = x.Info.String()
		}
		return fmt.Sprintf("OK(affected=%d,insertid=%d,info=%s)", x.RowsAffected, x.InsertID, info)
	case fmt.Stringer:
		return fmt.Sprintf("%T:%s", v, x.String())
	}
	return fmt.Sprintf("%T:%v", v, v)
}

func canonFloat(f float64, bits int) string {
	if f == 0 {
		return "0"
	}
	if f == float64(int64(f)) && f > -1e15 && f < 1e15 {
		return strconv.FormatInt(int64(f), 10)
	}
	return "f" + strconv.FormatFloat(f, 'g', -1, bits)
}

func canonDecimalText(s string) string {
	if strings.ContainsAny(s, "eE") {
		return s
	}
	if strings.Contains(s, ".") {
		s = strings.TrimRight(s, "0")
		s = strings.TrimSuffix(s, ".")
	}
	if s == "-0" || s == "" {
		s = "0"
	}
	return s
}

// CanonRow renders a row.
func CanonRow(row sql.Row) string {
	parts := make([]string, len(row))
	for i, v := range row {
		parts[i] = Canon(v)
	}
	return strings.Join(parts, "|")
}

// CanonRows renders all rows in result order.
func CanonRows(rows []sql.Row) []string {
	out := make([]string, len(rows))
	for i, r := range rows {
		out[i] = CanonRow(r)
	}
	return out
}

// SortedRows renders all rows as a sorted multiset.
func SortedRows(rows []sql.Row) []string {
	out := CanonRows(rows)
	sort.Strings(out)
	return out
}

// SameStrings compares two string slices elementwise.
func SameStrings(a, b []string) bool {
	if len(a) != len(b) {
		return false
	}
	for i := range a {
		if a[i] != b[i] {
			return false
		}
	}
	return true
}

// Rat parses a canonical numeric text into an exact rational (ok=false when not numeric).
func Rat(s string) (*big.Rat, bool) {
	s = strings.TrimPrefix(s, "f")
	r, ok := new(big.Rat).SetString(s)
	return r, ok
}

// Clip shortens a string for evidence samples.
func Clip(s string, n int) string {
	if len(s) > n {
		return s[:n] + "…"
	}
	return s
}

// ClipStrings clips a list for evidence/witness output.
func ClipStrings(a []string, n int) []string {
	if len(a) > n {
		out := append([]string{}, a[:n]...)
		return append(out, fmt.Sprintf("… (%d more)", len(a)-n))
	}
	return a
}
