package core

import (
	"os"
	"path/filepath"
	"sort"
	"strings"
)

// RaceReport is one deduplicated data-race report from the Go race detector's log.
type RaceReport struct {
	Sig   string // race:<first repo frame of access 1>|<first repo frame of access 2> (sorted)
	Count int
	Block string // first block seen with this signature
}

// RaceLogPath extracts log_path from GORACE ("" when the detector logs to stderr).
func RaceLogPath() string {
	for _, f := range strings.Fields(os.Getenv("GORACE")) {
		if strings.HasPrefix(f, "log_path=") {
			return f[len("log_path="):]
		}
	}
	return ""
}

// RaceReports parses the race detector log files written so far by this process (the monitor must be
// built with -race and GORACE must carry halt_on_error=0 log_path=…, as ./check sets it). Reports are
// deduplicated by the pair of first frames inside the repository module; line numbers are dropped.
func RaceReports() (reports []RaceReport, totalBlocks int) {
	lp := RaceLogPath()
	if lp == "" {
		return nil, 0
	}
	files, _ := filepath.Glob(lp + ".*")
	bySig := map[string]*RaceReport{}
	for _, f := range files {
		b, err := os.ReadFile(f)
		if err != nil {
			continue
		}
		for _, blk := range strings.Split(string(b), "==================") {
			if !strings.Contains(blk, "WARNING: DATA RACE") {
				continue
			}
			totalBlocks++
			sig := raceSig(blk)
			rr, ok := bySig[sig]
			if !ok {
				if len(blk) > 6000 {
					blk = blk[:6000]
				}
				rr = &RaceReport{Sig: sig, Block: blk}
				bySig[sig] = rr
			}
			rr.Count++
		}
	}
	for _, rr := range bySig {
		reports = append(reports, *rr)
	}
	sort.Slice(reports, func(i, j int) bool { return reports[i].Sig < reports[j].Sig })
	return reports, totalBlocks
}

const repoMod = "github.com/dolthub/go-mysql-server"

func raceSig(blk string) string {
	// sections: "<Read|Write> at 0x.. by goroutine N:" and "Previous <read|write> at 0x.. by goroutine M:"
	var firsts []string
	lines := strings.Split(blk, "\n")
	inAccess := false
	found := false
	for _, l := range lines {
		t := strings.TrimSpace(l)
		if strings.Contains(t, " at 0x") && strings.Contains(t, " by ") && strings.HasSuffix(t, ":") &&
			(strings.HasPrefix(t, "Read") || strings.HasPrefix(t, "Write") || strings.HasPrefix(t, "Previous") || strings.HasPrefix(t, "Atomic")) {
			if inAccess && !found {
				firsts = append(firsts, "outside-repo")
			}
			inAccess, found = true, false
			continue
		}
		if strings.HasPrefix(t, "Goroutine ") {
			if inAccess && !found {
				firsts = append(firsts, "outside-repo")
			}
			inAccess = false
			continue
		}
		if inAccess && !found && strings.HasPrefix(t, repoMod) {
			fn := t
			if k := strings.LastIndex(fn, "("); k > 0 {
				fn = fn[:k]
			}
			firsts = append(firsts, strings.TrimPrefix(fn, repoMod+"/"))
			found = true
		}
	}
	if inAccess && !found {
		firsts = append(firsts, "outside-repo")
	}
	sort.Strings(firsts)
	return "race:" + strings.Join(firsts, "|")
}
