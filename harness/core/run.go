// Package core is the shared runtime-monitoring framework: seeded case lists, a parallel case
// runner with panic capture and a journal, three-valued verdict bookkeeping, known-finding
// matching, and the evidence writer. A monitor never prints verdict lines itself; Run owns stdout.
package core

import (
	"bufio"
	"encoding/json"
	"fmt"
	"hash/fnv"
	"math/rand"
	"os"
	"path/filepath"
	"runtime"
	"runtime/debug"
	"sort"
	"strconv"
	"strings"
	"sync"
	"sync/atomic"
	"time"
)

// VerifDir is where evidence, replay files and the findings file live.
func VerifDir() string {
	if d := os.Getenv("VERIF_DIR"); d != "" {
		return d
	}
	return "/verif"
}

// Finding is one line of KNOWN_FINDINGS.txt.
type Finding struct {
	Kind string // "known" or "fixed"
	Prop string
	Sig  string
	Desc string
}

// Run is the state of one invocation of one property's check.
type Run struct {
	ID      string
	Tier    string
	Seed    int64
	Level   string
	Rule    string
	Replay  string // non-empty: replay this witness file only
	start   time.Time
	workers int

	mu          sync.Mutex
	evals       int64
	distinct    map[string]struct{}
	samples     []any
	maxSamples  int
	counters    map[string]int64
	inconcl     map[string]int64
	violations  map[string]*violation // by signature
	knownHits   map[string]int64      // signature -> count seen during exploration
	knownPinned map[string]string     // signature -> what fails (pinned witness still failing)
	known       map[string]Finding
	assumptions []string
	extra       map[string]any
	exhaustive  bool
	floorFails  []string
	journalDir  string
	folded      bool
	caseSeed    int64
}

type violation struct {
	Sig     string
	Count   int64
	Replay  string
	Witness any
}

// NewRun parses the command line: <tier> [--replay path]; env VERIF_SEED, VERIF_TIER.
func NewRun(id, level, rule string) *Run {
	r := &Run{ID: id, Level: level, Rule: rule, start: time.Now(), Tier: "quick", Seed: 1,
		distinct: map[string]struct{}{}, counters: map[string]int64{}, inconcl: map[string]int64{},
		violations: map[string]*violation{}, knownHits: map[string]int64{}, knownPinned: map[string]string{},
		known: map[string]Finding{}, extra: map[string]any{}, maxSamples: 6}
	args := os.Args[1:]
	for i := 0; i < len(args); i++ {
		switch args[i] {
		case "quick", "thorough":
			r.Tier = args[i]
		case "--replay":
			if i+1 < len(args) {
				r.Replay = args[i+1]
				i++
			}
		}
	}
	if t := os.Getenv("VERIF_TIER"); (t == "quick" || t == "thorough") && len(args) == 0 {
		r.Tier = t
	}
	if s := os.Getenv("VERIF_SEED"); s != "" {
		if v, err := strconv.ParseInt(s, 10, 64); err == nil {
			r.Seed = v
		}
	}
	r.workers = runtime.NumCPU()
	if w := os.Getenv("VERIF_WORKERS"); w != "" {
		if v, err := strconv.Atoi(w); err == nil && v > 0 {
			r.workers = v
		}
	}
	r.loadFindings()
	r.journalDir = filepath.Join(VerifDir(), ".scratch", fmt.Sprintf("%s-%d", id, os.Getpid()))
	os.MkdirAll(r.journalDir, 0o755)
	return r
}

// Scratch returns a per-run scratch directory (removed by Finish).
func (r *Run) Scratch() string { return r.journalDir }

// Quick reports whether this is the quick tier.
func (r *Run) Quick() bool { return r.Tier != "thorough" }

// N picks the tier's case count.
func (r *Run) N(quick, thorough int) int {
	if r.Quick() {
		return quick
	}
	return thorough
}

// Stream folds the seed into k exploration streams (see DESIGN §1.3).
func (r *Run) Stream(k int) int64 {
	s := r.Seed % int64(k)
	if s < 0 {
		s += int64(k)
	}
	return s
}

// Fold selects the exploration stream: after Fold(kq, kt) the PRNGs handed out by Rand depend on
// VERIF_SEED mod kq (quick) or mod kt (thorough) only, so every seed value maps onto one of k fully
// swept streams (DESIGN §1.3, for properties whose violation classes have a long tail).
func (r *Run) Fold(kq, kt int) {
	k := kq
	if !r.Quick() {
		k = kt
	}
	r.folded = true
	r.caseSeed = r.Stream(k)
	r.Extra("stream", r.caseSeed)
	r.Extra("streams", k)
}

// CaseSeed is the seed cases are derived from (the folded stream number after Fold, else the seed).
func (r *Run) CaseSeed() int64 {
	if r.folded {
		return r.caseSeed
	}
	return r.Seed
}

// Rand returns the PRNG of case i: determined by (case seed, property, tier, label, i) only.
func (r *Run) Rand(label string, i int) *rand.Rand {
	return RandFor(r.CaseSeed(), r.ID, r.Tier+"/"+label, i)
}

// RandFor derives a PRNG from its arguments.
func RandFor(seed int64, id, label string, i int) *rand.Rand {
	h := fnv.New64a()
	fmt.Fprintf(h, "%d|%s|%s|%d", seed, id, label, i)
	return rand.New(rand.NewSource(int64(h.Sum64())))
}

func (r *Run) loadFindings() {
	r.loadFindingsFile(filepath.Join(VerifDir(), "KNOWN_FINDINGS.txt"))
	more, _ := filepath.Glob(filepath.Join(VerifDir(), "findings", "*.txt"))
	sort.Strings(more)
	for _, m := range more {
		r.loadFindingsFile(m)
	}
}

func (r *Run) loadFindingsFile(path string) {
	f, err := os.Open(path)
	if err != nil {
		return
	}
	defer f.Close()
	sc := bufio.NewScanner(f)
	sc.Buffer(make([]byte, 1<<20), 1<<20)
	for sc.Scan() {
		line := strings.TrimSpace(sc.Text())
		if line == "" || strings.HasPrefix(line, "#") {
			continue
		}
		kind := ""
		switch {
		case strings.HasPrefix(line, "known:"):
			kind = "known"
		case strings.HasPrefix(line, "fixed:"):
			kind = "fixed"
		default:
			continue
		}
		rest := strings.TrimSpace(line[6:])
		desc := ""
		if k := strings.Index(rest, "::"); k >= 0 {
			desc = strings.TrimSpace(rest[k+2:])
			rest = rest[:k]
		}
		fd := Finding{Kind: kind, Desc: desc}
		for _, tok := range strings.Fields(rest) {
			if strings.HasPrefix(tok, "property=") {
				fd.Prop = tok[9:]
			}
		}
		// the signature runs from "sig=" to " via=" (or the end): it may contain spaces (panic messages)
		if k := strings.Index(rest, "sig="); k >= 0 {
			sg := rest[k+4:]
			if v := strings.Index(sg, " via="); v >= 0 {
				sg = sg[:v]
			}
			fd.Sig = strings.TrimSpace(sg)
		}
		if kind == "known" && fd.Prop == r.ID && fd.Sig != "" {
			r.known[fd.Sig] = fd
		}
	}
}

// IsKnown reports whether a signature is listed as a known finding for this property.
func (r *Run) IsKnown(sig string) bool { _, ok := r.known[sig]; return ok }

// Eval counts n oracle evaluations that reached a verdict.
func (r *Run) Eval(n int) { atomic.AddInt64(&r.evals, int64(n)) }

// Distinct records one distinct non-trivial thing observed (by key).
func (r *Run) Distinct(key string) {
	r.mu.Lock()
	r.distinct[key] = struct{}{}
	r.mu.Unlock()
}

// Sample keeps up to a handful of concrete observed cases for the evidence file.
func (r *Run) Sample(v any) {
	r.mu.Lock()
	if len(r.samples) < r.maxSamples {
		r.samples = append(r.samples, v)
	}
	r.mu.Unlock()
}

// Count adds to a named evidence counter.
func (r *Run) Count(name string, n int64) {
	r.mu.Lock()
	r.counters[name] += n
	r.mu.Unlock()
}

// Counter reads a named evidence counter.
func (r *Run) Counter(name string) int64 {
	r.mu.Lock()
	defer r.mu.Unlock()
	return r.counters[name]
}

// Inconclusive records a case that reached no verdict, with the reason class.
func (r *Run) Inconclusive(reason string) {
	r.mu.Lock()
	r.inconcl[reason]++
	r.mu.Unlock()
}

// Assume records an assumption for the evidence file.
func (r *Run) Assume(s string) {
	r.mu.Lock()
	r.assumptions = append(r.assumptions, s)
	r.mu.Unlock()
}

// Extra sets an additional coverage key.
func (r *Run) Extra(k string, v any) {
	r.mu.Lock()
	r.extra[k] = v
	r.mu.Unlock()
}

// Exhaustive marks the run as having enumerated a finite space completely.
func (r *Run) Exhaustive() { r.exhaustive = true }

// Violation records a refuting observation. sig is the narrow signature (DESIGN §1.6): when it is
// listed in KNOWN_FINDINGS.txt for this property the observation is counted under that finding,
// otherwise it is reported as a VIOLATION and the witness is written to replay/.
func (r *Run) Violation(sig string, witness any) {
	r.mu.Lock()
	defer r.mu.Unlock()
	if _, ok := r.known[sig]; ok {
		r.knownHits[sig]++
		return
	}
	v, ok := r.violations[sig]
	if !ok {
		v = &violation{Sig: sig, Witness: witness}
		r.violations[sig] = v
	}
	v.Count++
}

// Pinned reports the outcome of replaying a known finding's pinned witness: stillFails=true prints
// the KNOWN-FINDING line; a pinned witness whose signature is not (or no longer) listed as known and
// still fails is an ordinary violation.
func (r *Run) Pinned(sig, what string, stillFails bool, witness any) {
	if !stillFails {
		return
	}
	r.mu.Lock()
	_, ok := r.known[sig]
	if ok {
		r.knownPinned[sig] = what
	}
	r.mu.Unlock()
	if !ok {
		r.Violation(sig, witness)
	}
}

// Floor fails the run with reason observed-nothing when a mechanism was not reached.
func (r *Run) Floor(ok bool, what string) {
	if !ok {
		r.mu.Lock()
		r.floorFails = append(r.floorFails, what)
		r.mu.Unlock()
	}
}

// PanicInfo describes a recovered panic.
type PanicInfo struct {
	Value string
	Site  string // first frame inside the repository
	Stack string
}

// Sig is the signature of a panic: site plus message with numbers and quoted text stripped.
func (p *PanicInfo) Sig() string { return "panic:" + p.Site + ":" + StripVolatile(p.Value) }

// StripVolatile removes numbers, quoted text and addresses from a message.
func StripVolatile(s string) string {
	var b strings.Builder
	inq := rune(0)
	for _, c := range s {
		if inq != 0 {
			if c == inq {
				inq = 0
			}
			continue
		}
		if c == '\'' || c == '"' || c == '`' {
			inq = c
			b.WriteRune('_')
			continue
		}
		if c >= '0' && c <= '9' {
			continue
		}
		b.WriteRune(c)
	}
	out := b.String()
	if len(out) > 120 {
		out = out[:120]
	}
	return strings.Join(strings.Fields(out), " ")
}

// CapturePanic turns a recovered value into a PanicInfo (call from a deferred function).
func CapturePanic(rec any) *PanicInfo {
	st := string(debug.Stack())
	p := &PanicInfo{Value: fmt.Sprint(rec), Stack: st}
	lines := strings.Split(st, "\n")
	seenPanic := false
	for i := 0; i < len(lines); i++ {
		l := lines[i]
		if strings.HasPrefix(l, "panic(") {
			seenPanic = true
			continue
		}
		if !seenPanic {
			continue
		}
		if strings.HasPrefix(l, "github.com/dolthub/go-mysql-server") {
			fn := l
			if k := strings.LastIndex(fn, "("); k > 0 {
				fn = fn[:k]
			}
			fn = strings.TrimPrefix(fn, "github.com/dolthub/go-mysql-server/")
			p.Site = fn
			break
		}
	}
	if p.Site == "" {
		p.Site = "outside-repo"
	}
	return p
}

// Parallel runs cases 0..n-1 on the worker pool. Each case is journaled before it starts; a panic
// escaping the case function is recorded as a violation with signature panic:<site>.
func (r *Run) Parallel(label string, n int, fn func(i int)) {
	var next int64 = -1
	var wg sync.WaitGroup
	w := r.workers
	if w > n {
		w = n
	}
	for k := 0; k < w; k++ {
		wg.Add(1)
		go func(k int) {
			defer wg.Done()
			jf, _ := os.Create(filepath.Join(r.journalDir, fmt.Sprintf("journal-%s-%d", label, k)))
			defer jf.Close()
			for {
				i := int(atomic.AddInt64(&next, 1))
				if i >= n {
					return
				}
				if jf != nil {
					jf.Seek(0, 0)
					fmt.Fprintf(jf, "BEGIN %s %s case=%d seed=%d\n", r.ID, label, i, r.Seed)
				}
				func() {
					defer func() {
						if rec := recover(); rec != nil {
							p := CapturePanic(rec)
							r.Violation(p.Sig(), map[string]any{"label": label, "case": i, "seed": r.Seed, "panic": p.Value, "stack": trimStack(p.Stack)})
						}
					}()
					fn(i)
				}()
			}
		}(k)
	}
	wg.Wait()
}

func trimStack(s string) string {
	if len(s) > 4000 {
		return s[:4000]
	}
	return s
}

// Finish writes the evidence file, prints KNOWN-FINDING / VIOLATION lines and exits.
func (r *Run) Finish() {
	r.mu.Lock()
	defer r.mu.Unlock()
	wall := time.Since(r.start).Seconds()
	os.MkdirAll(filepath.Join(VerifDir(), "evidence"), 0o755)
	os.MkdirAll(filepath.Join(VerifDir(), "replay"), 0o755)

	// observed-nothing floors
	if r.evals == 0 {
		r.floorFails = append(r.floorFails, "no oracle evaluation reached a verdict")
	}
	if len(r.distinct) < 2 && r.Replay == "" {
		r.floorFails = append(r.floorFails, fmt.Sprintf("only %d distinct non-trivial observations", len(r.distinct)))
	}

	sigs := make([]string, 0, len(r.violations))
	for s := range r.violations {
		sigs = append(sigs, s)
	}
	sort.Strings(sigs)
	var vioOut []map[string]any
	for k, s := range sigs {
		v := r.violations[s]
		path := filepath.Join(VerifDir(), "replay", fmt.Sprintf("%s-%s-seed%d-%d.json", r.ID, r.Tier, r.Seed, k))
		b, _ := json.MarshalIndent(map[string]any{"property": r.ID, "tier": r.Tier, "seed": r.Seed, "signature": s, "count": v.Count, "witness": v.Witness}, "", " ")
		os.WriteFile(path, b, 0o644)
		v.Replay = path
		vioOut = append(vioOut, map[string]any{"signature": s, "count": v.Count, "replay": path})
	}

	cov := map[string]any{
		"evaluations":         r.evals,
		"distinct_nontrivial": len(r.distinct),
		"rule":                r.Rule,
		"samples":             r.samples,
		"counters":            r.counters,
		"inconclusive":        r.inconcl,
		"known_finding_hits":  r.knownHits,
		"known_pinned_failing": r.knownPinned,
		"violation_signatures": vioOut,
		"floor_failures":      r.floorFails,
	}
	if len(r.samples) == 0 {
		cov["samples"] = []any{"(no sample recorded)"}
	}
	if r.exhaustive {
		cov["exhaustive"] = true
	}
	for k, v := range r.extra {
		cov[k] = v
	}
	nvio := len(sigs)
	if len(r.floorFails) > 0 {
		nvio++
	}
	ev := map[string]any{
		"property_id": r.ID, "tier": r.Tier, "seed": r.Seed, "level": r.Level, "coverage": cov,
		"assumptions": r.assumptions, "wall_s": wall, "violations": nvio,
	}
	if r.assumptions == nil {
		ev["assumptions"] = []string{}
	}
	evPath := filepath.Join(VerifDir(), "evidence", r.ID+".json")
	if os.Getenv("VERIF_NO_EVIDENCE") != "" {
		// runs against a scratch checkout (seeded breaks) must not overwrite the evidence of the real tree
		os.MkdirAll(filepath.Join(VerifDir(), ".scratch", "evidence-alt"), 0o755)
		evPath = filepath.Join(VerifDir(), ".scratch", "evidence-alt", r.ID+".json")
	}
	if r.Replay == "" {
		b, _ := json.MarshalIndent(ev, "", " ")
		os.WriteFile(evPath, b, 0o644)
	}

	// stdout
	ks := make([]string, 0, len(r.known))
	for s := range r.known {
		ks = append(ks, s)
	}
	sort.Strings(ks)
	for _, s := range ks {
		what, pinned := r.knownPinned[s]
		hits := r.knownHits[s]
		if pinned || hits > 0 {
			if !pinned {
				what = r.known[s].Desc
			}
			fmt.Printf("KNOWN-FINDING: property=%s sig=%s %s (pinned-witness-fails=%v, seen-in-exploration=%d)\n", r.ID, s, what, pinned, hits)
		}
	}
	for _, s := range sigs {
		v := r.violations[s]
		fmt.Printf("VIOLATION property=%s replay=%s signature=%s count=%d\n", r.ID, v.Replay, s, v.Count)
	}
	if len(r.floorFails) > 0 {
		fmt.Printf("VIOLATION property=%s replay=%s reason=observed-nothing (%s)\n", r.ID, evPath, strings.Join(r.floorFails, "; "))
	}
	inc := int64(0)
	for _, n := range r.inconcl {
		inc += n
	}
	fmt.Printf("%s %s seed=%d: evaluations=%d distinct=%d inconclusive=%d known-hits=%d violations=%d wall=%.1fs\n",
		r.ID, r.Tier, r.Seed, r.evals, len(r.distinct), inc, sumMap(r.knownHits), nvio, wall)
	os.RemoveAll(r.journalDir)
	if nvio > 0 {
		os.Exit(1)
	}
	os.Exit(0)
}

func sumMap(m map[string]int64) int64 {
	var s int64
	for _, v := range m {
		s += v
	}
	return s
}
