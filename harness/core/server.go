package core

import (
	"context"
	dsql "database/sql"
	"fmt"
	"net"
	"strings"
	"time"

	mysqldrv "github.com/go-sql-driver/mysql"

	"github.com/dolthub/go-mysql-server/memory"
	"github.com/dolthub/go-mysql-server/server"
	"github.com/dolthub/go-mysql-server/sql"
)

// Srv is a real MySQL-protocol server on loopback TCP in front of an engine.
type Srv struct {
	Eng  *Eng
	S    *server.Server
	Addr string
	Port int
}

// smallBufListener shrinks the kernel send buffer of every accepted connection, so that a result larger
// than a few KB blocks the server's writer until the client reads: a slow-network mode that keeps the
// server parked in the middle of writing a result.
type smallBufListener struct{ net.Listener }

func (l smallBufListener) Accept() (net.Conn, error) {
	c, err := l.Listener.Accept()
	if tc, ok := c.(*net.TCPConn); ok && err == nil {
		tc.SetWriteBuffer(4096)
	}
	return c, err
}

func init() {
	// client side of the slow-network mode: DSN network "verifslow" dials TCP with a tiny receive buffer
	mysqldrv.RegisterDialContext("verifslow", func(ctx context.Context, addr string) (net.Conn, error) {
		var d net.Dialer
		c, err := d.DialContext(ctx, "tcp", addr)
		if tc, ok := c.(*net.TCPConn); ok && err == nil {
			tc.SetReadBuffer(4096)
		}
		return c, err
	})
}

// StartServerSlowNet is StartServer with tiny socket buffers on the server side (see smallBufListener);
// combine with Srv.OpenSlow on the client side.
func (e *Eng) StartServerSlowNet() (*Srv, error) { return e.startServer(true) }

// StartServer starts a TCP server for the engine on a free loopback port (unix sockets do not work
// in this sandbox: SO_REUSEPORT is rejected on them).
func (e *Eng) StartServer() (*Srv, error) { return e.startServer(false) }

func (e *Eng) startServer(slow bool) (*Srv, error) {
	var lastErr error
	for try := 0; try < 5; try++ {
		// Bind the listener ourselves on an ephemeral port and hand it to the server: probing for a free
		// port and re-binding it with SO_REUSEPORT (what server.NewListener does) lets two servers of
		// concurrent monitors end up on the same port and read each other's tables.
		l, err := net.Listen("tcp", "127.0.0.1:0")
		if err != nil {
			lastErr = err
			continue
		}
		port := l.Addr().(*net.TCPAddr).Port
		if slow {
			l = smallBufListener{l}
		}
		cfg := server.Config{Protocol: "tcp", Address: fmt.Sprintf("127.0.0.1:%d", port), Listener: l}
		s, err := server.NewServer(cfg, e.E, sql.NewContext, memory.NewSessionBuilder(e.Pro), nil)
		if err != nil {
			l.Close()
			lastErr = err
			continue
		}
		go func() { _ = s.Start() }()
		srv := &Srv{Eng: e, S: s, Addr: cfg.Address, Port: port}
		// wait until it accepts
		for i := 0; i < 200; i++ {
			db, err := srv.Open("root", "", "")
			if err == nil {
				err = db.Ping()
				db.Close()
				if err == nil {
					return srv, nil
				}
			}
			lastErr = err
			time.Sleep(10 * time.Millisecond)
		}
		s.Close()
	}
	return nil, fmt.Errorf("server did not start: %v", lastErr)
}

// DSN builds a go-sql-driver DSN. params e.g. "interpolateParams=true".
func (s *Srv) DSN(user, pass, params string) string {
	p := "?"
	if params != "" {
		p += params + "&"
	}
	return fmt.Sprintf("%s:%s@tcp(%s)/%s%sparseTime=false", user, pass, s.Addr, s.Eng.DB, p)
}

// Open opens a database/sql pool limited to one connection (so a *sql.DB is one MySQL session).
func (s *Srv) Open(user, pass, params string) (*dsql.DB, error) {
	db, err := dsql.Open("mysql", s.DSN(user, pass, params))
	if err != nil {
		return nil, err
	}
	db.SetMaxOpenConns(1)
	db.SetMaxIdleConns(1)
	return db, nil
}

// OpenSlow is Open over the slow-network dialer (tiny client receive buffer).
func (s *Srv) OpenSlow(user, pass, params string) (*dsql.DB, error) {
	dsn := strings.Replace(s.DSN(user, pass, params), "@tcp(", "@verifslow(", 1)
	db, err := dsql.Open("mysql", dsn)
	if err != nil {
		return nil, err
	}
	db.SetMaxOpenConns(1)
	db.SetMaxIdleConns(1)
	return db, nil
}

// Close stops the server.
func (s *Srv) Close() { s.S.Close() }
