package core

import (
	dsql "database/sql"
	"fmt"
	"net"
	"time"

	_ "github.com/go-sql-driver/mysql"

	"github.com/dolthub/go-mysql-server/memory"
	"github.com/dolthub/go-mysql-server/server"
	"github.com/dolthub/go-mysql-server/sql"
)

// Srv is a real MySQL-protocol server on loopback TCP in front of an engine.
type Srv struct {
	Eng  *Eng
	S    *server.Server
	Addr string
	Port int
}

// StartServer starts a TCP server for the engine on a free loopback port (unix sockets do not work
// in this sandbox: SO_REUSEPORT is rejected on them).
func (e *Eng) StartServer() (*Srv, error) {
	var lastErr error
	for try := 0; try < 5; try++ {
		// Bind the listener ourselves on an ephemeral port and hand it to the server: probing for a free
		// port and re-binding it with SO_REUSEPORT (what server.NewListener does) lets two servers of
		// concurrent monitors end up on the same port and read each other's tables.
		l, err := net.Listen("tcp", "127.0.0.1:0")
		if err != nil {
			lastErr = err
			continue
		}
		port := l.Addr().(*net.TCPAddr).Port
		cfg := server.Config{Protocol: "tcp", Address: fmt.Sprintf("127.0.0.1:%d", port), Listener: l}
		s, err := server.NewServer(cfg, e.E, sql.NewContext, memory.NewSessionBuilder(e.Pro), nil)
		if err != nil {
			l.Close()
			lastErr = err
			continue
		}
		go func() { _ = s.Start() }()
		srv := &Srv{Eng: e, S: s, Addr: cfg.Address, Port: port}
		// wait until it accepts
		for i := 0; i < 200; i++ {
			db, err := srv.Open("root", "", "")
			if err == nil {
				err = db.Ping()
				db.Close()
				if err == nil {
					return srv, nil
				}
			}
			lastErr = err
			time.Sleep(10 * time.Millisecond)
		}
		s.Close()
	}
	return nil, fmt.Errorf("server did not start: %v", lastErr)
}

// DSN builds a go-sql-driver DSN. params e.g. "interpolateParams=true".
func (s *Srv) DSN(user, pass, params string) string {
	p := "?"
	if params != "" {
		p += params + "&"
	}
	return fmt.Sprintf("%s:%s@tcp(%s)/%s%sparseTime=false", user, pass, s.Addr, s.Eng.DB, p)
}

// Open opens a database/sql pool limited to one connection (so a *sql.DB is one MySQL session).
func (s *Srv) Open(user, pass, params string) (*dsql.DB, error) {
	db, err := dsql.Open("mysql", s.DSN(user, pass, params))
	if err != nil {
		return nil, err
	}
	db.SetMaxOpenConns(1)
	db.SetMaxIdleConns(1)
	return db, nil
}

// Close stops the server.
func (s *Srv) Close() { s.S.Close() }
