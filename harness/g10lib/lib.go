// Package g10lib holds the helpers shared by the monitors of group 10 (C12, C11, C23, C24):
// SQL literal rendering, outcome normalisation, table dumps, running arbitrary engine calls under the
// per-statement watchdog, cloning the current table contents into a fresh engine, and a child-process
// watchdog for witnesses that are known to hang.
package g10lib

import (
	"context"
	dsql "database/sql"
	"encoding/hex"
	"fmt"
	"net"
	"os"
	"os/exec"
	"sort"
	"strings"
	"sync/atomic"
	"time"

	"github.com/dolthub/go-mysql-server/memory"
	"github.com/dolthub/go-mysql-server/server"
	"github.com/dolthub/go-mysql-server/sql"
	"github.com/dolthub/go-mysql-server/sql/types"

	"verif/harness/core"
)

// QuoteStr renders a Go string as a MySQL string literal (default sql_mode: backslash escapes on).
func QuoteStr(s string) string {
	var b strings.Builder
	b.WriteByte('\'')
	for i := 0; i < len(s); i++ {
		c := s[i]
		switch c {
		case '\'':
			b.WriteString("''")
		case '\\':
			b.WriteString("\\\\")
		case 0:
			b.WriteString("\\0")
		case '\n':
			b.WriteString("\\n")
		case '\r':
			b.WriteString("\\r")
		case 0x1a:
			b.WriteString("\\Z")
		default:
			b.WriteByte(c)
		}
	}
	b.WriteByte('\'')
	return b.String()
}

// HexLit renders bytes as X'..'.
func HexLit(b []byte) string { return "X'" + strings.ToUpper(hex.EncodeToString(b)) + "'" }

// Outcome is the comparable summary of one statement execution.
type Outcome struct {
	Err      string   // "" or error class
	ErrText  string   // for witnesses only
	IsOK     bool     // an OkResult was returned
	Affected int64    // OkResult.RowsAffected
	InsertID int64    // OkResult.InsertID
	Rows     []string // canonical rows (sorted unless ordered)
	Types    []string // coarse type classes of the result columns
}

// TypeClass is a coarse class of an engine type.
func TypeClass(t sql.Type) string {
	switch {
	case t == nil:
		return "nil"
	case t == types.Null:
		return "null"
	case types.IsInteger(t), types.IsBit(t):
		return "int"
	case types.IsFloat(t):
		return "float"
	case types.IsDecimal(t):
		return "decimal"
	case types.IsTime(t):
		return "temporal"
	case types.IsTimespan(t):
		return "time"
	case types.IsText(t), types.IsBlobType(t), types.IsBinaryType(t):
		return "string"
	case types.IsJSON(t):
		return "json"
	}
	return "other"
}

// CanonLoose is core.Canon with character strings and byte strings rendered alike (by content).
func CanonLoose(v any) string {
	if w, ok := v.(sql.AnyWrapper); ok {
		u, err := w.UnwrapAny(context.Background())
		if err == nil {
			v = u
		}
	}
	switch x := v.(type) {
	case string:
		return "s:" + hex.EncodeToString([]byte(x))
	case []byte:
		return "s:" + hex.EncodeToString(x)
	}
	return core.Canon(v)
}

// Observe summarises a result. ordered keeps the row order, otherwise rows are sorted.
func Observe(res *core.Result, ordered, loose bool) Outcome {
	o := Outcome{}
	if res.Failed() {
		o.Err = res.ErrClass()
		if res.Err != nil {
			o.ErrText = core.Clip(res.Err.Error(), 200)
		}
		if res.Panic != nil {
			o.ErrText = res.Panic.Sig()
		}
		return o
	}
	if ok, is := res.Ok(); is {
		o.IsOK = true
		o.Affected = int64(ok.RowsAffected)
		o.InsertID = int64(ok.InsertID)
		return o
	}
	for _, c := range res.Schema {
		o.Types = append(o.Types, TypeClass(c.Type))
	}
	o.Rows = make([]string, len(res.Rows))
	for i, row := range res.Rows {
		parts := make([]string, len(row))
		for j, v := range row {
			if loose {
				parts[j] = CanonLoose(v)
			} else {
				parts[j] = core.Canon(v)
			}
		}
		o.Rows[i] = strings.Join(parts, "|")
	}
	if !ordered {
		sort.Strings(o.Rows)
	}
	return o
}

// Diff names the first component in which two outcomes differ ("" when equal). Types are compared
// only when cmpTypes.
func Diff(a, b Outcome, cmpTypes bool) string {
	if a.Err != b.Err {
		if a.Err == "" || b.Err == "" {
			return "error-vs-result"
		}
		return "error-class"
	}
	if a.Err != "" {
		return ""
	}
	if a.IsOK != b.IsOK {
		return "result-kind"
	}
	if a.IsOK {
		if a.Affected != b.Affected {
			return "affected-rows"
		}
		return ""
	}
	if !core.SameStrings(a.Rows, b.Rows) {
		if len(a.Rows) != len(b.Rows) {
			return "row-count"
		}
		return "row-values"
	}
	if cmpTypes && !core.SameStrings(a.Types, b.Types) {
		return "type-class"
	}
	return ""
}

// Run executes an arbitrary engine call that yields a row iterator, with panic capture and the
// per-statement watchdog of core (same contract as Sess.Exec).
func Run(s *core.Sess, label string, call func(ctx *sql.Context) (sql.Schema, sql.RowIter, error)) *core.Result {
	res := &core.Result{SQL: label}
	done := make(chan struct{})
	base := s.Ctx()
	cctx, cancel := context.WithCancel(base.Context)
	ctx := base.WithContext(cctx)
	defer cancel()
	go func() {
		defer close(done)
		defer func() {
			if rec := recover(); rec != nil {
				res.Panic = core.CapturePanic(rec)
			}
		}()
		ctx.Session.ClearWarnings()
		sch, iter, err := call(ctx)
		if err != nil {
			res.Err = err
			return
		}
		rows, err := sql.RowIterToRows(ctx, iter)
		res.Schema = sch
		if err != nil {
			res.Err = err
			return
		}
		res.Rows = rows
		res.Warnings = ctx.Session.Warnings()
	}()
	select {
	case <-done:
		return res
	case <-time.After(core.StmtTimeout):
		cancel()
		select {
		case <-done:
		case <-time.After(5 * time.Second):
		}
		return &core.Result{SQL: label, TimedOut: true}
	}
}

// Dump returns the sorted canonical rows of a table, or ["ERR:<class>"] when it cannot be read.
func Dump(s *core.Sess, table string) []string {
	r := s.Exec("SELECT * FROM " + table)
	if r.Failed() {
		return []string{"ERR:" + r.ErrClass()}
	}
	hdr := make([]string, len(r.Schema))
	for i, c := range r.Schema {
		hdr[i] = c.Name
	}
	out := core.SortedRows(r.Rows)
	return append([]string{"#" + strings.Join(hdr, ",")}, out...)
}

// LitOf renders a value read from the engine as a SQL literal that stores back to the same value in
// a column of the same type (used to copy table contents into a fresh engine).
func LitOf(v any) string {
	if v == nil {
		return "NULL"
	}
	if w, ok := v.(sql.AnyWrapper); ok {
		u, err := w.UnwrapAny(context.Background())
		if err == nil {
			v = u
		}
	}
	switch x := v.(type) {
	case string:
		return QuoteStr(x)
	case []byte:
		return HexLit(x)
	case time.Time:
		return "'" + x.UTC().Format("2006-01-02 15:04:05.000000") + "'"
	case bool:
		if x {
			return "1"
		}
		return "0"
	}
	c := core.Canon(v)
	if strings.HasPrefix(c, "f") {
		return c[1:]
	}
	if _, ok := core.Rat(c); ok {
		return c
	}
	return QuoteStr(fmt.Sprint(v))
}

// CloneTables copies the named base tables (schema via SHOW CREATE TABLE, rows via INSERT) from a
// session's current view into a fresh engine and returns it with a session. Tables that do not
// exist in the source are skipped. The caller closes the engine. ok=false when a step failed
// (reason returned), which callers count as inconclusive.
func CloneTables(src *core.Sess, tables []string) (*core.Eng, *core.Sess, string) {
	e := core.NewEng(src.Eng.DB)
	d := e.NewSess()
	for _, t := range tables {
		sc := src.Exec("SHOW CREATE TABLE " + t)
		if sc.Failed() || len(sc.Rows) != 1 {
			continue
		}
		ddl := fmt.Sprint(sc.Rows[0][1])
		if strings.HasPrefix(strings.ToUpper(ddl), "CREATE VIEW") || strings.Contains(strings.ToUpper(ddl[:min(len(ddl), 40)]), " VIEW ") {
			continue
		}
		if r := d.Exec(ddl); r.Failed() {
			e.Close()
			return nil, nil, "clone-ddl:" + t + ":" + r.ErrClass()
		}
		rows := src.Exec("SELECT * FROM " + t)
		if rows.Failed() {
			e.Close()
			return nil, nil, "clone-read:" + t + ":" + rows.ErrClass()
		}
		for _, row := range rows.Rows {
			parts := make([]string, len(row))
			for i, v := range row {
				parts[i] = LitOf(v)
			}
			if r := d.Exec("INSERT INTO " + t + " VALUES (" + strings.Join(parts, ",") + ")"); r.Failed() {
				e.Close()
				return nil, nil, "clone-insert:" + t + ":" + r.ErrClass()
			}
		}
	}
	return e, d, ""
}

// ChildHangs re-executes the current binary with VERIF_CHILD=<mode> and reports how it ended within
// the limit: "exit:<code>" (with its stdout), or "killed" when it had to be killed after the limit.
// It can never stall the caller longer than limit + a grace period.
func ChildHangs(mode string, limit time.Duration) (string, string) {
	self, err := os.Executable()
	if err != nil {
		return "spawn-error", err.Error()
	}
	ctx, cancel := context.WithTimeout(context.Background(), limit)
	defer cancel()
	cmd := exec.CommandContext(ctx, self)
	cmd.Env = append(os.Environ(), "VERIF_CHILD="+mode)
	cmd.WaitDelay = 2 * time.Second
	out, err := cmd.Output()
	if ctx.Err() != nil {
		return "killed", string(out)
	}
	if err != nil {
		if ee, ok := err.(*exec.ExitError); ok {
			return fmt.Sprintf("exit:%d", ee.ExitCode()), string(out)
		}
		return "spawn-error", err.Error()
	}
	return "exit:0", string(out)
}

// ---- server start with collision-safe ports ----

var portCounter uint32

// StartServer starts a TCP server for the engine like core's Eng.StartServer, but never through
// sql.GetEmptyPort: the engine listens with SO_REUSEPORT, so two servers that were handed the same
// "empty" port (a race between concurrently starting cases, or with another process) would both
// listen on it and clients would be spread over two unrelated engines. Ports are taken from a range
// below the ephemeral range, per-process offset plus a counter, and probed with a plain listener
// (which fails while anything, SO_REUSEPORT or not, is bound to the port). The returned *sql.DB is
// pinned to one connection whose identity was verified against a marker table created in-process.
func StartServer(e *core.Eng, params string) (*core.Srv, *dsql.DB, error) {
	var lastErr error
	for try := 0; try < 40; try++ {
		n := atomic.AddUint32(&portCounter, 1)
		port := 12000 + int((uint32(os.Getpid())*7919+n*3)%18000)
		l, err := net.Listen("tcp", fmt.Sprintf("127.0.0.1:%d", port))
		if err != nil {
			lastErr = err
			continue
		}
		l.Close()
		cfg := server.Config{Protocol: "tcp", Address: fmt.Sprintf("127.0.0.1:%d", port)}
		s, err := server.NewServer(cfg, e.E, sql.NewContext, memory.NewSessionBuilder(e.Pro), nil)
		if err != nil {
			lastErr = err
			continue
		}
		go func() { _ = s.Start() }()
		srv := &core.Srv{Eng: e, S: s, Addr: cfg.Address, Port: port}
		marker := fmt.Sprintf("zz_marker_%d_%d", os.Getpid(), n)
		ms := e.NewSess()
		if r := ms.Exec("CREATE TABLE " + marker + " (x INT PRIMARY KEY)"); r.Failed() {
			s.Close()
			return nil, nil, fmt.Errorf("marker: %v", r.Err)
		}
		var db *dsql.DB
		ok := false
		for i := 0; i < 300 && !ok; i++ {
			db, err = srv.Open("root", "", params)
			if err == nil {
				var cnt int
				err = db.QueryRow("SELECT COUNT(*) FROM " + marker).Scan(&cnt)
				if err == nil {
					ok = true
					break
				}
				db.Close()
			}
			lastErr = err
			time.Sleep(10 * time.Millisecond)
		}
		ms.Exec("DROP TABLE " + marker)
		if ok {
			return srv, db, nil
		}
		s.Close()
	}
	return nil, nil, fmt.Errorf("server did not start: %v", lastErr)
}
