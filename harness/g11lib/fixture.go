package g11lib

import (
	"fmt"
	"sort"
	"strings"

	"github.com/dolthub/go-mysql-server/sql"
	"github.com/dolthub/go-mysql-server/sql/mysql_db"

	"verif/harness/core"
)

// Fix is one engine with accounts enabled, the fixed schema the probes run against, and one cached session per
// client identity (a session is reused over the whole history so the per-session privilege cache is exercised).
type Fix struct {
	E    *core.Eng
	Mdb  *mysql_db.MySQLDb
	Root *core.Sess
	sess map[string]*core.Sess
}

// SetupSQL creates the fixed schema: databases d and d2, data tables, a sacrificial table and a procedure.
var SetupSQL = []string{
	"CREATE TABLE t1 (id INT PRIMARY KEY, v INT)",
	"CREATE TABLE t2 (id INT PRIMARY KEY, v INT)",
	"CREATE TABLE tdrop (a INT)",
	"CREATE TABLE tdrop2 (a INT)",
	"INSERT INTO t1 VALUES (1,10),(2,20)",
	"INSERT INTO t2 VALUES (1,1)",
	"CREATE PROCEDURE p1() SELECT 1",
	"CREATE DATABASE d2",
	"CREATE TABLE d2.t1 (id INT PRIMARY KEY, v INT)",
	"INSERT INTO d2.t1 VALUES (1,5)",
	"CREATE USER 'sink'@'%'",
}

// NewFix builds the fixture. persister receives the serialized accounts on every change (nil = NoopPersister:
// with no persister at all CREATE USER dereferences nil, which is an integrator contract, not a finding).
func NewFix(persister mysql_db.MySQLDbPersistence) *Fix {
	e := core.NewEng("d")
	mdb := e.E.Analyzer.Catalog.MySQLDb
	mdb.AddRootAccount()
	if persister == nil {
		persister = &mysql_db.NoopPersister{}
	}
	mdb.SetPersister(persister)
	f := &Fix{E: e, Mdb: mdb, sess: map[string]*core.Sess{}}
	f.Root = e.NewSessAs("root", "localhost")
	for _, q := range SetupSQL {
		f.Root.MustExec(q)
	}
	return f
}

// NewFixNoAccounts builds the same schema on an engine whose mysql database is still empty and disabled (every
// statement is allowed); accounts are then loaded into it with MySQLDb.LoadData.
func NewFixNoAccounts(persister mysql_db.MySQLDbPersistence) *Fix {
	e := core.NewEng("d")
	mdb := e.E.Analyzer.Catalog.MySQLDb
	if persister == nil {
		persister = &mysql_db.NoopPersister{}
	}
	mdb.SetPersister(persister)
	f := &Fix{E: e, Mdb: mdb, sess: map[string]*core.Sess{}}
	f.Root = e.NewSessAs("root", "localhost")
	for _, q := range SetupSQL {
		if strings.HasPrefix(q, "CREATE USER") {
			continue
		}
		f.Root.MustExec(q)
	}
	return f
}

func (f *Fix) Close() { f.E.Close() }

// Sess returns the cached session of a client identity (current database d).
func (f *Fix) Sess(user, host string) *core.Sess {
	k := user + "@" + host
	s := f.sess[k]
	if s == nil {
		s = f.E.NewSessAs(user, host)
		f.sess[k] = s
	}
	return s
}

// FreshSess opens a new session for the identity (no cached privilege set).
func (f *Fix) FreshSess(user, host string) *core.Sess { return f.E.NewSessAs(user, host) }

// DataFingerprint is everything the probes could change in the two databases: table/view lists, table
// definitions (columns, indexes), rows, triggers.
func (f *Fix) DataFingerprint() string {
	var b strings.Builder
	for _, db := range []string{"d", "d2"} {
		r := f.Root.Exec("SHOW FULL TABLES FROM " + db)
		if r.Failed() {
			fmt.Fprintf(&b, "%s: ERR %v\n", db, r.Err)
			continue
		}
		type tv struct{ name, kind string }
		var tvs []tv
		for _, row := range r.Rows {
			tvs = append(tvs, tv{fmt.Sprint(row[0]), fmt.Sprint(row[1])})
		}
		sort.Slice(tvs, func(i, j int) bool { return tvs[i].name < tvs[j].name })
		for _, t := range tvs {
			fmt.Fprintf(&b, "%s.%s %s\n", db, t.name, t.kind)
			if t.kind != "BASE TABLE" {
				continue
			}
			c := f.Root.Exec("SHOW CREATE TABLE " + db + "." + t.name)
			if c.Failed() {
				fmt.Fprintf(&b, " create ERR %v\n", c.Err)
			} else {
				fmt.Fprintf(&b, " %s\n", strings.Join(core.CanonRows(c.Rows), "\n"))
			}
			d := f.Root.Exec("SELECT * FROM " + db + "." + t.name)
			if d.Failed() {
				fmt.Fprintf(&b, " rows ERR %v\n", d.Err)
			} else {
				fmt.Fprintf(&b, " rows %s\n", strings.Join(core.SortedRows(d.Rows), ";"))
			}
		}
		tr := f.Root.Exec("SHOW TRIGGERS FROM " + db)
		if !tr.Failed() {
			var names []string
			for _, row := range tr.Rows {
				names = append(names, fmt.Sprint(row[0]))
			}
			sort.Strings(names)
			fmt.Fprintf(&b, "%s triggers %v\n", db, names)
		}
	}
	return b.String()
}

// AccountFingerprint walks mysql.user and mysql.role_edges through the Go API: every account with its lock flag,
// plugin, password hash and complete privilege set, and every role edge.
func AccountFingerprint(mdb *mysql_db.MySQLDb) string {
	rd := mdb.Reader()
	defer rd.Close()
	var lines []string
	rd.VisitUsers(func(u *mysql_db.User) {
		lines = append(lines, UserLine(u))
	})
	rd.VisitRoleEdges(func(e *mysql_db.RoleEdge) {
		lines = append(lines, fmt.Sprintf("edge %s@%s -> %s@%s admin=%v", e.FromUser, e.FromHost, e.ToUser, e.ToHost, e.WithAdminOption))
	})
	sort.Strings(lines)
	return strings.Join(lines, "\n")
}

// UserLine renders one account completely (without the password-changed timestamp).
func UserLine(u *mysql_db.User) string {
	attr := "<nil>"
	if u.Attributes != nil {
		attr = *u.Attributes
	}
	return fmt.Sprintf("user %s@%s locked=%v plugin=%s auth=%s identity=%s ssl=%s/%s/%s/%s attr=%s privs=%s",
		u.User, u.Host, u.Locked, u.Plugin, u.AuthString, u.Identity, u.SslType, u.SslCipher, u.X509Issuer, u.X509Subject, attr,
		PrivSetText(u.PrivilegeSet))
}

// PrivSetText renders a privilege set canonically.
func PrivSetText(ps mysql_db.PrivilegeSet) string {
	var b strings.Builder
	names := func(ts []sql.PrivilegeType) string {
		s := make([]string, len(ts))
		for i, t := range ts {
			s[i] = t.String()
		}
		sort.Strings(s)
		return strings.Join(s, ",")
	}
	fmt.Fprintf(&b, "*.*{%s}", names(ps.ToSlice()))
	fmt.Fprintf(&b, "dyn{%s|%s}", strings.Join(ps.ToSliceDynamic(true), ","), strings.Join(ps.ToSliceDynamic(false), ","))
	dbs := ps.GetDatabases()
	sort.Slice(dbs, func(i, j int) bool { return dbs[i].Name() < dbs[j].Name() })
	for _, d := range dbs {
		fmt.Fprintf(&b, " %s.*{%s}", d.Name(), names(d.ToSlice()))
		ts := d.GetTables()
		sort.Slice(ts, func(i, j int) bool { return ts[i].Name() < ts[j].Name() })
		for _, t := range ts {
			fmt.Fprintf(&b, " %s.%s{%s}", d.Name(), t.Name(), names(t.ToSlice()))
			cs := t.GetColumns()
			sort.Slice(cs, func(i, j int) bool { return cs[i].Name() < cs[j].Name() })
			for _, c := range cs {
				fmt.Fprintf(&b, " %s.%s.%s{%s}", d.Name(), t.Name(), c.Name(), names(c.ToSlice()))
			}
		}
		rs := d.GetRoutines()
		sort.Slice(rs, func(i, j int) bool {
			if rs[i].RoutineName() != rs[j].RoutineName() {
				return rs[i].RoutineName() < rs[j].RoutineName()
			}
			return rs[i].RoutineType() < rs[j].RoutineType()
		})
		for _, r := range rs {
			fmt.Fprintf(&b, " %s %s.%s{%s}", r.RoutineType(), d.Name(), r.RoutineName(), names(r.ToSlice()))
		}
	}
	return b.String()
}

// Outcome classes of a statement run as some user.
const (
	OutOK        = "ok"
	OutDenied    = "denied"     // ErrPrivilegeCheckFailed / database or table access denied
	OutNoAccount = "no-account" // ER_ACCESS_DENIED 1045: the session identity matches no account
)

// Classify maps a result onto an outcome class; anything else is "other:<class>:<text>".
func Classify(r *core.Result) string {
	if r.Panic != nil {
		return "other:panic:" + r.Panic.Sig()
	}
	if r.TimedOut {
		return "other:timeout"
	}
	if r.Err == nil {
		return OutOK
	}
	switch {
	case sql.ErrPrivilegeCheckFailed.Is(r.Err), sql.ErrDatabaseAccessDeniedForUser.Is(r.Err), sql.ErrTableAccessDeniedForUser.Is(r.Err):
		return OutDenied
	}
	if me := sql.CastSQLError(r.Err); me != nil && me.Num == 1045 {
		return OutNoAccount
	}
	return "other:" + r.ErrClass() + ":" + core.StripVolatile(r.Err.Error())
}

// ShowGrants returns the SHOW GRANTS lines of an account, sorted.
func (f *Fix) ShowGrants(a *Account) ([]string, error) { return ShowGrantsOn(f.Root, a.Name, a.Host) }

func ShowGrantsOn(s *core.Sess, name, host string) ([]string, error) {
	r := s.Exec(fmt.Sprintf("SHOW GRANTS FOR '%s'@'%s'", name, host))
	if r.Failed() {
		if r.Err != nil {
			return nil, r.Err
		}
		return nil, fmt.Errorf("panic/timeout")
	}
	var out []string
	for _, row := range r.Rows {
		out = append(out, NormalizeRoleLine(fmt.Sprint(row[0])))
	}
	sort.Strings(out)
	return out, nil
}

// NormalizeRoleLine sorts the role names of a "GRANT `r1`@`%`, `r2`@`%` TO …" line: the engine lists them in the
// order the edges were stored, which is insertion order before and key order after a reload (an unordered list).
func NormalizeRoleLine(l string) string {
	if !strings.HasPrefix(l, "GRANT `") || strings.Contains(l, " ON ") {
		return l
	}
	to := strings.LastIndex(l, " TO ")
	if to < 0 {
		return l
	}
	roles := strings.Split(l[6:to], ", ")
	sort.Strings(roles)
	return "GRANT " + strings.Join(roles, ", ") + l[to:]
}

// ParsedGrants is SHOW GRANTS read back: privileges per level key, and granted roles.
type ParsedGrants struct {
	Levels map[string]PSet
	Roles  []string // "name@host"
	Bad    []string // lines not understood
}

// ParseShowGrants reads the engine's SHOW GRANTS lines. It tolerates the engine's cosmetic quirks (an empty
// element where GRANT OPTION sorts first: "GRANT , INDEX ON …").
func ParseShowGrants(lines []string) ParsedGrants {
	pg := ParsedGrants{Levels: map[string]PSet{}}
	unq := func(s string) string { return strings.ReplaceAll(s, "`", "") }
	for _, l := range lines {
		if l == "" {
			continue
		}
		if !strings.HasPrefix(l, "GRANT ") {
			pg.Bad = append(pg.Bad, l)
			continue
		}
		rest := l[6:]
		on := strings.Index(rest, " ON ")
		to := strings.LastIndex(rest, " TO ")
		if to < 0 {
			pg.Bad = append(pg.Bad, l)
			continue
		}
		if on < 0 || on > to {
			// role line: GRANT `r1`@`%`, `r2`@`%` TO `u`@`%`
			for _, r := range strings.Split(rest[:to], ", ") {
				pg.Roles = append(pg.Roles, unq(strings.TrimSpace(r)))
			}
			continue
		}
		privs := rest[:on]
		obj := rest[on+4 : to]
		tail := rest[to+4:]
		wgo := strings.HasSuffix(tail, " WITH GRANT OPTION")
		key := ""
		if strings.HasPrefix(obj, "PROCEDURE ") {
			key = "proc:" + unq(obj[10:])
		} else if strings.HasPrefix(obj, "FUNCTION ") {
			key = "func:" + unq(obj[9:])
		} else {
			key = unq(obj)
		}
		ps := pg.Levels[key]
		if ps == nil {
			ps = PSet{}
			pg.Levels[key] = ps
		}
		for _, p := range strings.Split(privs, ", ") {
			p = strings.TrimSpace(p)
			if p == "" || p == "USAGE" {
				continue
			}
			ps[p] = true
		}
		if wgo {
			ps["GRANT OPTION"] = true
		}
	}
	sort.Strings(pg.Roles)
	return pg
}
