package g11lib

import (
	"fmt"
	"math/rand"
	"strings"
)

// Step is one account-management statement run by root, with the model's expectation.
type Step struct {
	SQL       string
	Kind      string
	ExpectErr bool   // the statement names a missing / already existing account: it must fail and change nothing
	Misaddr   bool   // the statement names a non-existent account whose name exists under another host
	Target    string // account key the statement is about
}

// Gen generates a history step by step, applying each step to the model as it goes.
type Gen struct {
	Rnd *rand.Rand
	M   *Model
	// Rich adds account attributes that only matter to persistence (C41): comments, attributes, TLS requirements.
	Rich bool
	// NoRegrant never grants a role to an account that already holds it (the engine then stores a second edge when
	// the ADMIN OPTION differs — a C39 finding that C41 keeps out of its states).
	NoRegrant bool
	n         int
}

var (
	userNames = []string{"u1", "u2", "u3", "u4"}
	roleNames = []string{"r1", "r2", "r3"}
	passwords = []string{"", "pw", "Secret1", "a b", "pässwörd", "0"}

	// Levels the generator grants at, with weights.
	levels = []struct {
		L Level
		W int
	}{
		{Level{Kind: "global"}, 14},
		{Level{Kind: "db", DB: "d"}, 20},
		{Level{Kind: "db", DB: "d2"}, 9},
		{Level{Kind: "table", DB: "d", Obj: "t1"}, 16},
		{Level{Kind: "table", DB: "d", Obj: "t2"}, 11},
		{Level{Kind: "table", DB: "d", Obj: "tdrop"}, 5},
		{Level{Kind: "table", DB: "d", Obj: "tdrop2"}, 4},
		{Level{Kind: "table", DB: "d", Obj: "newt"}, 4},
		{Level{Kind: "table", DB: "d", Obj: "vnew"}, 4},
		{Level{Kind: "table", DB: "d2", Obj: "t1"}, 9},
		{Level{Kind: "proc", DB: "d", Obj: "p1"}, 9},
	}
	// privileges worth granting at each kind of level (the ones the probes look at come first and are favoured)
	hotGlobal  = []string{"SELECT", "INSERT", "UPDATE", "DELETE", "CREATE", "DROP", "ALTER", "INDEX", "CREATE VIEW", "TRIGGER", "EXECUTE", "CREATE USER"}
	coldGlobal = []string{"REFERENCES", "SHOW VIEW", "RELOAD", "PROCESS", "FILE", "SHOW DATABASES", "LOCK TABLES", "CREATE ROUTINE", "ALTER ROUTINE", "EVENT", "CREATE ROLE", "DROP ROLE", "CREATE TEMPORARY TABLES"}
	hotDB      = []string{"SELECT", "INSERT", "UPDATE", "DELETE", "CREATE", "DROP", "ALTER", "INDEX", "CREATE VIEW", "TRIGGER", "EXECUTE"}
	coldDB     = []string{"REFERENCES", "SHOW VIEW", "LOCK TABLES", "CREATE ROUTINE", "ALTER ROUTINE", "EVENT", "CREATE TEMPORARY TABLES"}
	hotTable   = []string{"SELECT", "INSERT", "UPDATE", "DELETE", "CREATE", "DROP", "ALTER", "INDEX", "CREATE VIEW", "TRIGGER"}
	coldTable  = []string{"REFERENCES", "SHOW VIEW"}
)

func (g *Gen) pickLevel() Level {
	tot := 0
	for _, l := range levels {
		tot += l.W
	}
	k := g.Rnd.Intn(tot)
	for _, l := range levels {
		if k < l.W {
			return l.L
		}
		k -= l.W
	}
	return levels[0].L
}

func (g *Gen) pickPrivs(l Level) []string {
	var hot, cold []string
	switch l.Kind {
	case "global":
		hot, cold = hotGlobal, coldGlobal
	case "db":
		hot, cold = hotDB, coldDB
	case "table":
		hot, cold = hotTable, coldTable
	default:
		if g.Rnd.Intn(4) == 0 {
			return []string{"EXECUTE", "ALTER ROUTINE"}
		}
		if g.Rnd.Intn(5) == 0 {
			return []string{"ALTER ROUTINE"}
		}
		return []string{"EXECUTE"}
	}
	n := 1 + g.Rnd.Intn(3)
	seen := map[string]bool{}
	var out []string
	for len(out) < n {
		src := hot
		if g.Rnd.Intn(6) == 0 {
			src = cold
		}
		p := src[g.Rnd.Intn(len(src))]
		if !seen[p] {
			seen[p] = true
			out = append(out, p)
		}
	}
	return out
}

// onSQL spells the ON clause, sometimes relying on root's current database d.
func (g *Gen) onSQL(l Level) string {
	if l.DB == "d" && g.Rnd.Intn(7) == 0 {
		switch l.Kind {
		case "db":
			return "*"
		case "table":
			return l.Obj
		}
	}
	return l.SQL()
}

// acctSQL spells an account name.
func (g *Gen) acctSQL(a *Account) string {
	if a.Host == "%" && g.Rnd.Intn(3) == 0 {
		return a.Name
	}
	if g.Rnd.Intn(2) == 0 {
		return a.Name + "@'" + a.Host + "'"
	}
	return a.SQLName()
}

func (g *Gen) accounts(roles, users bool) []*Account {
	var out []*Account
	for _, k := range g.M.Keys() {
		a := g.M.Acc[k]
		if (a.IsRole && roles) || (!a.IsRole && users) {
			out = append(out, a)
		}
	}
	return out
}

func (g *Gen) createUser() Step {
	name := userNames[g.Rnd.Intn(len(userNames))]
	host := "%"
	if g.Rnd.Intn(10) < 3 {
		host = "localhost"
	}
	pw := passwords[g.Rnd.Intn(len(passwords))]
	key := name + "@" + host
	ine := g.Rnd.Intn(5) == 0
	q := "CREATE USER "
	if ine {
		q += "IF NOT EXISTS "
	}
	q += "'" + name + "'@'" + host + "'"
	plugin := "mysql_native_password"
	if pw != "" {
		if g.Rich && g.Rnd.Intn(5) == 0 {
			plugin = "caching_sha2_password"
			q += " IDENTIFIED WITH caching_sha2_password BY '" + pw + "'"
		} else {
			q += " IDENTIFIED BY '" + pw + "'"
		}
	}
	if g.Rich {
		switch g.Rnd.Intn(5) {
		case 0:
			q += " REQUIRE SSL"
		case 1:
			q += " REQUIRE X509"
		}
	}
	st := Step{SQL: q, Kind: "create-user", Target: key}
	if g.M.Acc[key] != nil {
		st.Kind = "create-user-existing"
		st.ExpectErr = !ine
		return st
	}
	g.M.Create(name, host, false, pw).Plugin = plugin
	return st
}

func (g *Gen) createRole() Step {
	name := roleNames[g.Rnd.Intn(len(roleNames))]
	key := name + "@%"
	ine := g.Rnd.Intn(5) == 0
	q := "CREATE ROLE "
	if ine {
		q += "IF NOT EXISTS "
	}
	q += name
	st := Step{SQL: q, Kind: "create-role", Target: key}
	if g.M.Acc[key] != nil {
		st.Kind = "create-role-existing"
		st.ExpectErr = !ine
		return st
	}
	g.M.Create(name, "%", true, "")
	return st
}

func (g *Gen) drop() Step {
	all := g.accounts(true, true)
	if len(all) == 0 || g.Rnd.Intn(6) == 0 {
		ie := g.Rnd.Intn(2) == 0
		q := "DROP USER "
		if ie {
			q += "IF EXISTS "
		}
		return Step{SQL: q + "'nobody'@'%'", Kind: "drop-missing", ExpectErr: !ie, Target: "nobody@%"}
	}
	a := all[g.Rnd.Intn(len(all))]
	q := "DROP USER "
	kind := "drop-user"
	if a.IsRole {
		q = "DROP ROLE "
		kind = "drop-role"
	}
	if g.Rnd.Intn(5) == 0 {
		q += "IF EXISTS "
	}
	st := Step{SQL: q + g.acctSQL(a), Kind: kind, Target: a.Key()}
	g.M.Drop(a.Key())
	return st
}

func (g *Gen) grant() Step {
	all := g.accounts(true, true)
	if len(all) == 0 || g.Rnd.Intn(25) == 0 {
		return Step{SQL: "GRANT SELECT ON d.t1 TO 'nobody'@'%'", Kind: "grant-missing", ExpectErr: true, Target: "nobody@%"}
	}
	a := all[g.Rnd.Intn(len(all))]
	l := g.pickLevel()
	// WITH GRANT OPTION on a routine-level grant is silently dropped by the engine (known finding, pinned witness)
	wgo := g.Rnd.Intn(6) == 0 && l.Kind != "proc"
	var privs []string
	spell := ""
	kind := "grant:" + l.Kind
	if l.Kind != "proc" && g.Rnd.Intn(12) == 0 && !(l.Kind == "global" && g.Rnd.Intn(3) != 0) {
		privs = l.AllFor()
		spell = "ALL"
		if g.Rnd.Intn(2) == 0 {
			spell = "ALL PRIVILEGES"
		}
		kind = "grant-all:" + l.Kind
	} else {
		privs = g.pickPrivs(l)
		spell = strings.Join(privs, ", ")
	}
	q := fmt.Sprintf("GRANT %s ON %s TO %s", spell, g.onSQL(l), g.acctSQL(a))
	if wgo {
		q += " WITH GRANT OPTION"
		kind += "+wgo"
	}
	g.M.Grant(a.Key(), l, privs, wgo)
	return Step{SQL: q, Kind: kind, Target: a.Key()}
}

func (g *Gen) revoke() Step {
	var cands []*Account
	for _, a := range g.accounts(true, true) {
		if len(a.Grants) > 0 {
			cands = append(cands, a)
		}
	}
	if len(cands) == 0 {
		return g.grant()
	}
	a := cands[g.Rnd.Intn(len(cands))]
	// REVOKE ALL PRIVILEGES, GRANT OPTION: generated only for accounts whose grants are all global (known finding
	// revoke-all-privileges-keeps-lower-levels is replayed from its pinned witness instead).
	if g.Rnd.Intn(8) == 0 {
		onlyGlobal := true
		for lk := range a.Grants {
			if lk != "*.*" {
				onlyGlobal = false
			}
		}
		if onlyGlobal {
			g.M.RevokeEverything(a.Key())
			return Step{SQL: "REVOKE ALL PRIVILEGES, GRANT OPTION FROM " + g.acctSQL(a), Kind: "revoke-everything", Target: a.Key()}
		}
	}
	var lks []string
	for lk := range a.Grants {
		lks = append(lks, lk)
	}
	sortStrings(lks)
	lk := lks[g.Rnd.Intn(len(lks))]
	l := levelOfKey(lk)
	held := a.Grants[lk].Sorted()
	// A database-level REVOKE that leaves no database-level privilege makes the engine drop the account's whole entry
	// for that database, table and routine grants included (known finding, replayed from its pinned witness): such
	// statements are generated only for accounts without table/routine grants inside the database.
	lowerInDB := false
	if l.Kind == "db" {
		for other := range a.Grants {
			if other != lk && (strings.HasPrefix(other, l.DB+".") || strings.HasPrefix(other, "proc:"+l.DB+".")) {
				lowerInDB = true
			}
		}
	}
	// REVOKE ALL ON <level>: only where the level holds no GRANT OPTION (MySQL keeps it, the engine clears it).
	if g.Rnd.Intn(6) == 0 && !a.Grants[lk]["GRANT OPTION"] && l.Kind != "proc" && !lowerInDB {
		g.M.Revoke(a.Key(), l, held)
		return Step{SQL: fmt.Sprintf("REVOKE ALL ON %s FROM %s", g.onSQL(l), g.acctSQL(a)), Kind: "revoke-all:" + l.Kind, Target: a.Key()}
	}
	// a subset of what is held there (sometimes one privilege that is not held: no change either way)
	var privs []string
	if g.Rnd.Intn(10) == 0 && l.Kind != "proc" {
		privs = []string{"REFERENCES"}
	} else {
		n := 1 + g.Rnd.Intn(len(held))
		perm := g.Rnd.Perm(len(held))
		for _, i := range perm[:n] {
			privs = append(privs, held[i])
		}
	}
	if lowerInDB {
		left := a.Grants[lk].Copy()
		for _, x := range privs {
			delete(left, x)
		}
		if len(left) == 0 {
			return g.grant()
		}
	}
	g.M.Revoke(a.Key(), l, privs)
	return Step{SQL: fmt.Sprintf("REVOKE %s ON %s FROM %s", strings.Join(privs, ", "), g.onSQL(l), g.acctSQL(a)), Kind: "revoke:" + l.Kind, Target: a.Key()}
}

func levelOfKey(lk string) Level {
	switch {
	case lk == "*.*":
		return Level{Kind: "global"}
	case strings.HasPrefix(lk, "proc:"):
		p := strings.SplitN(lk[5:], ".", 2)
		return Level{Kind: "proc", DB: p[0], Obj: p[1]}
	case strings.HasSuffix(lk, ".*"):
		return Level{Kind: "db", DB: lk[:len(lk)-2]}
	}
	p := strings.SplitN(lk, ".", 2)
	return Level{Kind: "table", DB: p[0], Obj: p[1]}
}

func sortStrings(a []string) {
	for i := 1; i < len(a); i++ {
		for j := i; j > 0 && a[j] < a[j-1]; j-- {
			a[j], a[j-1] = a[j-1], a[j]
		}
	}
}

func (g *Gen) grantRole() Step {
	roles := g.accounts(true, false)
	if len(roles) == 0 {
		return g.createRole()
	}
	r := roles[g.Rnd.Intn(len(roles))]
	// targets: users, or roles with a larger name (keeps the role graph acyclic)
	var tos []*Account
	for _, a := range g.accounts(true, true) {
		if !a.IsRole || a.Name > r.Name {
			tos = append(tos, a)
		}
	}
	if len(tos) == 0 {
		return g.createUser()
	}
	to := tos[g.Rnd.Intn(len(tos))]
	if g.Rnd.Intn(3) == 0 { // favour role-to-role edges now and then
		for _, a := range tos {
			if a.IsRole {
				to = a
				break
			}
		}
	}
	admin := g.Rnd.Intn(4) == 0
	if g.NoRegrant && g.M.Edges[r.Key()+">"+to.Key()] != nil {
		return g.grant()
	}
	q := fmt.Sprintf("GRANT %s TO %s", g.acctSQL(r), g.acctSQL(to))
	kind := "grant-role:to-user"
	if to.IsRole {
		kind = "grant-role:to-role"
	}
	if admin {
		q += " WITH ADMIN OPTION"
	}
	g.M.GrantRole(r.Key(), to.Key(), admin)
	return Step{SQL: q, Kind: kind, Target: to.Key()}
}

func (g *Gen) revokeRole() Step {
	var ks []string
	for k := range g.M.Edges {
		ks = append(ks, k)
	}
	if len(ks) == 0 {
		return g.grantRole()
	}
	sortStrings(ks)
	e := g.M.Edges[ks[g.Rnd.Intn(len(ks))]]
	r, to := g.M.Acc[e.From], g.M.Acc[e.To]
	g.M.RevokeRole(e.From, e.To)
	return Step{SQL: fmt.Sprintf("REVOKE %s FROM %s", g.acctSQL(r), g.acctSQL(to)), Kind: "revoke-role", Target: to.Key()}
}

// misaddressed builds a statement that names 'u'@'localhost' while only 'u'@'%' exists: MySQL refuses it (the
// account does not exist); nothing may change.
func (g *Gen) misaddressed() (Step, bool) {
	var cands []*Account
	for _, a := range g.accounts(false, true) {
		if a.Host == "%" && g.M.Acc[a.Name+"@localhost"] == nil {
			cands = append(cands, a)
		}
	}
	if len(cands) == 0 {
		return Step{}, false
	}
	a := cands[g.Rnd.Intn(len(cands))]
	who := "'" + a.Name + "'@'localhost'"
	switch g.Rnd.Intn(3) {
	case 0:
		return Step{SQL: "GRANT SELECT, INSERT ON d2.* TO " + who, Kind: "grant", ExpectErr: true, Misaddr: true, Target: a.Key()}, true
	case 1:
		return Step{SQL: "DROP USER " + who, Kind: "drop-user", ExpectErr: true, Misaddr: true, Target: a.Key()}, true
	}
	r := g.accounts(true, false)
	if len(r) > 0 {
		return Step{SQL: "GRANT " + r[0].Name + " TO " + who, Kind: "grant-role", ExpectErr: true, Misaddr: true, Target: a.Key()}, true
	}
	return Step{SQL: "GRANT UPDATE ON d.t1 TO " + who, Kind: "grant", ExpectErr: true, Misaddr: true, Target: a.Key()}, true
}

// Next produces the next step. last marks the final step of the history (the only place a misaddressed
// statement is generated, because the engine's reaction makes model and engine diverge).
func (g *Gen) Next(last bool) Step {
	g.n++
	if last && g.Rnd.Intn(4) == 0 {
		if st, ok := g.misaddressed(); ok {
			return st
		}
	}
	nUsers, nRoles := len(g.accounts(false, true)), len(g.accounts(true, false))
	if g.n <= 2 || nUsers == 0 {
		return g.createUser()
	}
	if g.n == 3 && nRoles == 0 {
		return g.createRole()
	}
	k := g.Rnd.Intn(100)
	switch {
	case k < 8:
		return g.createUser()
	case k < 14:
		return g.createRole()
	case k < 21:
		return g.drop()
	case k < 62:
		return g.grant()
	case k < 80:
		return g.revoke()
	case k < 94:
		return g.grantRole()
	}
	return g.revokeRole()
}
