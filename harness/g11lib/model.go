// Package g11lib holds what the monitors of C39, C40, C41 (and the probe set reused by them) share:
// a reference model of accounts / roles / role edges / privilege sets at the global, database, table
// and routine level, a seeded generator of account-management histories, the probe set of statements
// whose privilege requirement is unambiguous, and an engine fixture with accounts enabled.
package g11lib

import (
	"fmt"
	"sort"
	"strings"
)

// PSet is a set of privilege names as MySQL spells them ("SELECT", "CREATE VIEW", "GRANT OPTION", …).
type PSet map[string]bool

func (p PSet) Copy() PSet {
	q := PSet{}
	for k := range p {
		q[k] = true
	}
	return q
}

func (p PSet) Sorted() []string {
	out := make([]string, 0, len(p))
	for k := range p {
		out = append(out, k)
	}
	sort.Strings(out)
	return out
}

func (p PSet) String() string { return strings.Join(p.Sorted(), ",") }

// Privilege sets that GRANT ALL stands for at each level (what MySQL documents; GRANT OPTION is never part of ALL).
var (
	AllGlobal = []string{"SELECT", "INSERT", "UPDATE", "DELETE", "CREATE", "DROP", "RELOAD", "SHUTDOWN", "PROCESS", "FILE",
		"REFERENCES", "INDEX", "ALTER", "SHOW DATABASES", "SUPER", "CREATE TEMPORARY TABLES", "LOCK TABLES", "EXECUTE",
		"REPLICATION SLAVE", "REPLICATION CLIENT", "CREATE VIEW", "SHOW VIEW", "CREATE ROUTINE", "ALTER ROUTINE", "CREATE USER",
		"EVENT", "TRIGGER", "CREATE TABLESPACE", "CREATE ROLE", "DROP ROLE"}
	AllDB = []string{"SELECT", "INSERT", "UPDATE", "DELETE", "CREATE", "DROP", "REFERENCES", "INDEX", "ALTER",
		"CREATE TEMPORARY TABLES", "LOCK TABLES", "EXECUTE", "CREATE VIEW", "SHOW VIEW", "CREATE ROUTINE", "ALTER ROUTINE", "EVENT", "TRIGGER"}
	AllTable = []string{"SELECT", "INSERT", "UPDATE", "DELETE", "CREATE", "DROP", "REFERENCES", "INDEX", "ALTER",
		"CREATE VIEW", "SHOW VIEW", "TRIGGER"}
	AllProc = []string{"EXECUTE", "ALTER ROUTINE"}
)

// Level names one place privileges can be granted at.
type Level struct {
	Kind string // "global", "db", "table", "proc"
	DB   string
	Obj  string
}

func (l Level) Key() string {
	switch l.Kind {
	case "global":
		return "*.*"
	case "db":
		return l.DB + ".*"
	case "table":
		return l.DB + "." + l.Obj
	}
	return "proc:" + l.DB + "." + l.Obj
}

// SQL renders the level as the ON clause of GRANT/REVOKE.
func (l Level) SQL() string {
	switch l.Kind {
	case "global":
		return "*.*"
	case "db":
		return l.DB + ".*"
	case "table":
		return l.DB + "." + l.Obj
	}
	return "PROCEDURE " + l.DB + "." + l.Obj
}

// AllFor is the expansion of ALL at the level.
func (l Level) AllFor() []string {
	switch l.Kind {
	case "global":
		return AllGlobal
	case "db":
		return AllDB
	case "table":
		return AllTable
	}
	return AllProc
}

// Account is one row of mysql.user with its grants.
type Account struct {
	Name, Host string
	IsRole     bool
	Password   string          // clear text the model knows ("" = none)
	Plugin     string          // authentication plugin the account was created with
	Grants     map[string]PSet // Level.Key() -> privileges granted exactly at that level
}

func (a *Account) Key() string { return a.Name + "@" + a.Host }

// SQLName renders 'name'@'host'.
func (a *Account) SQLName() string { return "'" + a.Name + "'@'" + a.Host + "'" }

func (a *Account) at(l Level) PSet {
	p := a.Grants[l.Key()]
	if p == nil {
		p = PSet{}
		a.Grants[l.Key()] = p
	}
	return p
}

// Edge is one granted role.
type Edge struct {
	From, To string // account keys: role From is granted to To
	Admin    bool
}

// Model is the reference access-control state.
type Model struct {
	Acc   map[string]*Account
	Edges map[string]*Edge // key From+">"+To
}

func NewModel() *Model { return &Model{Acc: map[string]*Account{}, Edges: map[string]*Edge{}} }

// Keys lists the account keys in a fixed order.
func (m *Model) Keys() []string {
	out := make([]string, 0, len(m.Acc))
	for k := range m.Acc {
		out = append(out, k)
	}
	sort.Strings(out)
	return out
}

func (m *Model) Create(name, host string, role bool, pw string) *Account {
	a := &Account{Name: name, Host: host, IsRole: role, Password: pw, Grants: map[string]PSet{}}
	m.Acc[a.Key()] = a
	return a
}

// Drop removes an account and every role edge from or to it.
func (m *Model) Drop(key string) {
	delete(m.Acc, key)
	for k, e := range m.Edges {
		if e.From == key || e.To == key {
			delete(m.Edges, k)
		}
	}
}

func (m *Model) Grant(key string, l Level, privs []string, withGrantOption bool) {
	p := m.Acc[key].at(l)
	for _, x := range privs {
		p[x] = true
	}
	if withGrantOption {
		p["GRANT OPTION"] = true
	}
}

func (m *Model) Revoke(key string, l Level, privs []string) {
	p := m.Acc[key].at(l)
	for _, x := range privs {
		delete(p, x)
	}
	if len(p) == 0 {
		delete(m.Acc[key].Grants, l.Key())
	}
}

// RevokeEverything is REVOKE ALL PRIVILEGES, GRANT OPTION FROM account: every level is emptied.
func (m *Model) RevokeEverything(key string) { m.Acc[key].Grants = map[string]PSet{} }

func (m *Model) GrantRole(role, to string, admin bool) {
	m.Edges[role+">"+to] = &Edge{From: role, To: to, Admin: admin}
}

func (m *Model) RevokeRole(role, to string) { delete(m.Edges, role+">"+to) }

// RolesOf returns the accounts whose privileges `key` additionally holds: directly granted roles, and with
// nested=true also the roles granted to those roles (transitively).
func (m *Model) RolesOf(key string, nested bool) []string {
	seen := map[string]bool{key: true}
	var out []string
	frontier := []string{key}
	for depth := 0; len(frontier) > 0; depth++ {
		if depth >= 1 && !nested {
			break
		}
		var next []string
		for _, cur := range frontier {
			for _, e := range m.Edges {
				if e.To == cur && !seen[e.From] && m.Acc[e.From] != nil {
					seen[e.From] = true
					out = append(out, e.From)
					next = append(next, e.From)
				}
			}
		}
		frontier = next
	}
	sort.Strings(out)
	return out
}

// Eff is the effective privilege state of one session: the account's own grants united with its roles'.
type Eff struct {
	Levels map[string]PSet
}

// Effective computes the union of the account's grants and those of its (nested or direct) roles.
func (m *Model) Effective(key string, nested bool) Eff {
	e := Eff{Levels: map[string]PSet{}}
	add := func(a *Account) {
		for lk, ps := range a.Grants {
			t := e.Levels[lk]
			if t == nil {
				t = PSet{}
				e.Levels[lk] = t
			}
			for p := range ps {
				t[p] = true
			}
		}
	}
	add(m.Acc[key])
	for _, r := range m.RolesOf(key, nested) {
		add(m.Acc[r])
	}
	return e
}

// Super reports the global SUPER privilege, which this engine documents as implying every privilege.
func (e Eff) Super() bool { return e.Levels["*.*"]["SUPER"] }

// Global reports a privilege held at the global level.
func (e Eff) Global(p string) bool { return e.Super() || e.Levels["*.*"][p] }

// OnDB reports a privilege effective for a database (global or database level).
func (e Eff) OnDB(p, db string) bool { return e.Global(p) || e.Levels[db+".*"][p] }

// OnTable reports a privilege effective for a table (global, database or table level).
func (e Eff) OnTable(p, db, tbl string) bool { return e.OnDB(p, db) || e.Levels[db+"."+tbl][p] }

// OnProc reports a privilege effective for a procedure (global, database or routine level).
func (e Eff) OnProc(p, db, proc string) bool {
	return e.OnDB(p, db) || e.Levels["proc:"+db+"."+proc][p]
}

// Where names the most general level that supplies the privilege for a table ("global", "db", "table", "none").
func (e Eff) Where(p, db, tbl string) string {
	switch {
	case e.Super():
		return "super"
	case e.Levels["*.*"][p]:
		return "global"
	case e.Levels[db+".*"][p]:
		return "db"
	case tbl != "" && e.Levels[db+"."+tbl][p]:
		return "table"
	}
	return "none"
}

// SameLevelBoth reports whether privileges p and q are both held at one single level that covers db.tbl.
func (e Eff) SameLevelBoth(p, q, db, tbl string) bool {
	if e.Super() {
		return true
	}
	keys := []string{"*.*", db + ".*"}
	if tbl != "" {
		keys = append(keys, db+"."+tbl)
	}
	for _, lk := range keys {
		if e.Levels[lk][p] && e.Levels[lk][q] {
			return true
		}
	}
	return false
}

// Resolve maps a session identity onto the account MySQL would pick among accounts whose host is either the
// literal session host or '%': the exact host wins.
func (m *Model) Resolve(user, host string) *Account {
	if a := m.Acc[user+"@"+host]; a != nil {
		return a
	}
	return m.Acc[user+"@%"]
}

// Describe renders the model compactly for witnesses.
func (m *Model) Describe() []string {
	var out []string
	for _, k := range m.Keys() {
		a := m.Acc[k]
		var lv []string
		for lk := range a.Grants {
			lv = append(lv, lk)
		}
		sort.Strings(lv)
		parts := []string{}
		for _, lk := range lv {
			parts = append(parts, lk+"{"+a.Grants[lk].String()+"}")
		}
		kind := "user"
		if a.IsRole {
			kind = "role"
		}
		out = append(out, fmt.Sprintf("%s %s: %s roles(direct)=%v", kind, k, strings.Join(parts, " "), m.RolesOf(k, false)))
	}
	return out
}
