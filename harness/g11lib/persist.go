package g11lib

import (
	"crypto/sha1"
	"encoding/hex"
	"fmt"
	"sort"
	"strings"
	"sync"

	"github.com/dolthub/go-mysql-server/sql"
	"github.com/dolthub/go-mysql-server/sql/mysql_db"
	"github.com/dolthub/go-mysql-server/sql/mysql_db/serial"
)

// Capture is a MySQLDbPersistence that keeps a copy of the bytes it was last given.
type Capture struct {
	mu    sync.Mutex
	last  []byte
	calls int
}

func (c *Capture) Persist(ctx *sql.Context, data []byte) error {
	c.mu.Lock()
	defer c.mu.Unlock()
	c.last = append([]byte(nil), data...)
	c.calls++
	return nil
}

// Last returns the most recent image and the number of Persist calls.
func (c *Capture) Last() ([]byte, int) {
	c.mu.Lock()
	defer c.mu.Unlock()
	return c.last, c.calls
}

// DecodeImage reads a persisted image back through the flatbuffer accessors into canonical sorted lines: every
// account of the user and super_user vectors (rendered like AccountFingerprint) and every role edge with its admin
// flag (read from the buffer directly, not through LoadRoleEdge).
func DecodeImage(buf []byte) (lines []string, err error) {
	defer func() {
		if rec := recover(); rec != nil {
			err = fmt.Errorf("image not readable: %v", rec)
		}
	}()
	root := serial.GetRootAsMySQLDb(buf, 0)
	for i := 0; i < root.UserLength(); i++ {
		u := new(serial.User)
		if root.User(u, i) {
			lines = append(lines, UserLine(mysql_db.LoadUser(u)))
		}
	}
	for i := 0; i < root.SuperUserLength(); i++ {
		u := new(serial.User)
		if root.SuperUser(u, i) {
			lines = append(lines, UserLine(mysql_db.LoadUser(u)))
		}
	}
	for i := 0; i < root.RoleEdgesLength(); i++ {
		e := new(serial.RoleEdge)
		if root.RoleEdges(e, i) {
			lines = append(lines, fmt.Sprintf("edge %s@%s -> %s@%s admin=%v", e.FromUser(), e.FromHost(), e.ToUser(), e.ToHost(), e.WithAdminOption()))
		}
	}
	sort.Strings(lines)
	return lines, nil
}

// NativeHash is the mysql_native_password authentication string of a clear-text password.
func NativeHash(pw string) string {
	if pw == "" {
		return ""
	}
	s1 := sha1.Sum([]byte(pw))
	s2 := sha1.Sum(s1[:])
	return "*" + strings.ToUpper(hex.EncodeToString(s2[:]))
}

// NativeScramble is the client's mysql_native_password response to a 20-byte salt.
func NativeScramble(pw string, salt []byte) []byte {
	if pw == "" {
		return nil
	}
	s1 := sha1.Sum([]byte(pw))
	s2 := sha1.Sum(s1[:])
	h := sha1.New()
	h.Write(salt)
	h.Write(s2[:])
	s3 := h.Sum(nil)
	out := make([]byte, 20)
	for i := range out {
		out[i] = s1[i] ^ s3[i]
	}
	return out
}
