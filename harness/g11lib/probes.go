package g11lib

// Probe is one statement whose privilege requirement is unambiguous in MySQL's documentation.
// Enough is a sufficient condition (holding it, the statement must be allowed), Must a necessary one (lacking it,
// the statement must be denied); where they differ the outcome in between is recorded but not judged.
type Probe struct {
	Kind    string
	SQL     string
	Enough  func(e Eff) bool
	Must    func(e Eff) bool
	Via     func(e Eff) string // which level supplies the deciding privilege (evidence only)
	Restore []string           // run by root after the statement was allowed and succeeded
}

func tbl(p, db, t string) func(e Eff) bool { return func(e Eff) bool { return e.OnTable(p, db, t) } }
func and(fs ...func(e Eff) bool) func(e Eff) bool {
	return func(e Eff) bool {
		for _, f := range fs {
			if !f(e) {
				return false
			}
		}
		return true
	}
}
func or(fs ...func(e Eff) bool) func(e Eff) bool {
	return func(e Eff) bool {
		for _, f := range fs {
			if f(e) {
				return true
			}
		}
		return false
	}
}
func via(p, db, t string) func(e Eff) string { return func(e Eff) string { return e.Where(p, db, t) } }

var resetT1 = []string{"DELETE FROM d.t1", "INSERT INTO d.t1 VALUES (1,10),(2,20)"}
var resetT2 = []string{"DELETE FROM d.t2", "INSERT INTO d.t2 VALUES (1,1)"}
var resetD2T1 = []string{"DELETE FROM d2.t1", "INSERT INTO d2.t1 VALUES (1,5)"}

func exact(kind, sqlText string, need func(e Eff) bool, v func(e Eff) string, restore []string) Probe {
	return Probe{Kind: kind, SQL: sqlText, Enough: need, Must: need, Via: v, Restore: restore}
}

// grantProbe: GRANT p ON level TO sink. Necessary: p and GRANT OPTION both effective for the level (or UPDATE on
// the mysql schema, which this engine — like MySQL for the grant tables — accepts); sufficient: both held at one level.
func grantProbe(kind, p, db, t, on string) Probe {
	return Probe{Kind: kind, SQL: "GRANT " + p + " ON " + on + " TO 'sink'@'%'",
		Enough: func(e Eff) bool { return e.SameLevelBoth(p, "GRANT OPTION", db, t) },
		Must: func(e Eff) bool {
			has := func(x string) bool {
				switch {
				case db == "":
					return e.Global(x)
				case t == "":
					return e.OnDB(x, db)
				}
				return e.OnTable(x, db, t)
			}
			return (has(p) && has("GRANT OPTION")) || e.OnDB("UPDATE", "mysql")
		},
		Via:     func(e Eff) string { return e.Where("GRANT OPTION", db, t) },
		Restore: []string{"REVOKE " + p + " ON " + on + " FROM 'sink'@'%'"},
	}
}

// Probes is the probe set. Sessions run with current database d.
var Probes = []Probe{
	exact("select-const", "SELECT 1", func(e Eff) bool { return true }, func(e Eff) string { return "n/a" }, nil),
	exact("select:d.t1", "SELECT id, v FROM d.t1", tbl("SELECT", "d", "t1"), via("SELECT", "d", "t1"), nil),
	exact("select:d.t2", "SELECT id, v FROM d.t2", tbl("SELECT", "d", "t2"), via("SELECT", "d", "t2"), nil),
	exact("select:d2.t1", "SELECT id, v FROM d2.t1", tbl("SELECT", "d2", "t1"), via("SELECT", "d2", "t1"), nil),
	exact("select:unqualified-t1", "SELECT id FROM t1", tbl("SELECT", "d", "t1"), via("SELECT", "d", "t1"), nil),
	exact("select-join:d.t1+d.t2", "SELECT a.id FROM d.t1 a JOIN d.t2 b ON a.id = b.id",
		and(tbl("SELECT", "d", "t1"), tbl("SELECT", "d", "t2")), via("SELECT", "d", "t2"), nil),
	exact("select-join:d.t1+d2.t1", "SELECT a.id FROM d.t1 a JOIN d2.t1 b ON a.id = b.id",
		and(tbl("SELECT", "d", "t1"), tbl("SELECT", "d2", "t1")), via("SELECT", "d2", "t1"), nil),
	exact("insert:d.t1", "INSERT INTO d.t1 VALUES (100, 0)", tbl("INSERT", "d", "t1"), via("INSERT", "d", "t1"), resetT1),
	exact("insert:d2.t1", "INSERT INTO d2.t1 (id, v) VALUES (100, 0)", tbl("INSERT", "d2", "t1"), via("INSERT", "d2", "t1"), resetD2T1),
	exact("update:d.t1", "UPDATE d.t1 SET v = 7", tbl("UPDATE", "d", "t1"), via("UPDATE", "d", "t1"), resetT1),
	exact("update:d.t2", "UPDATE d.t2 SET v = 7", tbl("UPDATE", "d", "t2"), via("UPDATE", "d", "t2"), resetT2),
	exact("delete-all:d.t2", "DELETE FROM d.t2", tbl("DELETE", "d", "t2"), via("DELETE", "d", "t2"), resetT2),
	exact("delete-const-where:d.t1", "DELETE FROM d.t1 WHERE 1 = 0", tbl("DELETE", "d", "t1"), via("DELETE", "d", "t1"), resetT1),
	exact("replace:d.t1", "REPLACE INTO d.t1 VALUES (1, 10)",
		and(tbl("INSERT", "d", "t1"), tbl("DELETE", "d", "t1")), via("INSERT", "d", "t1"), resetT1),
	exact("create-table:d.newt", "CREATE TABLE d.newt (a INT)", tbl("CREATE", "d", "newt"), via("CREATE", "d", "newt"),
		[]string{"DROP TABLE d.newt"}),
	exact("drop-table:d.tdrop", "DROP TABLE d.tdrop", tbl("DROP", "d", "tdrop"), via("DROP", "d", "tdrop"),
		[]string{"CREATE TABLE d.tdrop (a INT)"}),
	// a multi-table DROP needs the privilege on EVERY listed table, whatever their order
	exact("drop-two-tables:d.tdrop2,d.tdrop", "DROP TABLE d.tdrop2, d.tdrop", and(tbl("DROP", "d", "tdrop2"), tbl("DROP", "d", "tdrop")), via("DROP", "d", "tdrop2"),
		[]string{"CREATE TABLE IF NOT EXISTS d.tdrop2 (a INT)", "CREATE TABLE IF NOT EXISTS d.tdrop (a INT)"}),
	exact("drop-two-tables:d.tdrop,d.tdrop2", "DROP TABLE d.tdrop, d.tdrop2", and(tbl("DROP", "d", "tdrop"), tbl("DROP", "d", "tdrop2")), via("DROP", "d", "tdrop"),
		[]string{"CREATE TABLE IF NOT EXISTS d.tdrop2 (a INT)", "CREATE TABLE IF NOT EXISTS d.tdrop (a INT)"}),
	// MySQL documents ALTER, CREATE and INSERT for ALTER TABLE but enforces ALTER alone for ADD COLUMN; only the
	// two ends are judged.
	{Kind: "alter-add-column:d.t2", SQL: "ALTER TABLE d.t2 ADD COLUMN w INT",
		Enough: and(tbl("ALTER", "d", "t2"), tbl("CREATE", "d", "t2"), tbl("INSERT", "d", "t2")),
		Must:   tbl("ALTER", "d", "t2"), Via: via("ALTER", "d", "t2"), Restore: []string{"ALTER TABLE d.t2 DROP COLUMN w"}},
	exact("create-index:d.t1", "CREATE INDEX ix ON d.t1 (v)", tbl("INDEX", "d", "t1"), via("INDEX", "d", "t1"),
		[]string{"DROP INDEX ix ON d.t1"}),
	// CREATE VIEW needs CREATE VIEW for the view and "some privilege" on the selected columns; SELECT certainly suffices.
	{Kind: "create-view:d.vnew", SQL: "CREATE VIEW d.vnew AS SELECT id FROM d.t1",
		Enough: and(tbl("CREATE VIEW", "d", "vnew"), tbl("SELECT", "d", "t1")),
		Must:   tbl("CREATE VIEW", "d", "vnew"), Via: via("CREATE VIEW", "d", "vnew"), Restore: []string{"DROP VIEW d.vnew"}},
	exact("create-trigger:d.t1", "CREATE TRIGGER trnew BEFORE INSERT ON d.t1 FOR EACH ROW SET NEW.v = 1",
		tbl("TRIGGER", "d", "t1"), via("TRIGGER", "d", "t1"), []string{"DROP TRIGGER d.trnew"}),
	exact("call:d.p1", "CALL d.p1()", func(e Eff) bool { return e.OnProc("EXECUTE", "d", "p1") },
		func(e Eff) string {
			if w := e.Where("EXECUTE", "d", ""); w != "none" {
				return w
			}
			if e.Levels["proc:d.p1"]["EXECUTE"] {
				return "routine"
			}
			return "none"
		}, nil),
	{Kind: "create-user", SQL: "CREATE USER 'probe_new'@'%'",
		Enough: func(e Eff) bool { return e.Global("CREATE USER") },
		Must:   func(e Eff) bool { return e.Global("CREATE USER") || e.OnDB("INSERT", "mysql") },
		Via:    func(e Eff) string { return e.Where("CREATE USER", "", "") }, Restore: []string{"DROP USER 'probe_new'@'%'"}},
	grantProbe("grant:table", "SELECT", "d", "t1", "d.t1"),
	grantProbe("grant:db", "INSERT", "d2", "", "d2.*"),
	grantProbe("grant:global", "DELETE", "", "", "*.*"),
}

// Expected is the model's verdict for a probe run by an account with effective privileges e:
// "ok", "denied" or "" (not judged).
func (p Probe) Expected(e Eff) string {
	if p.Enough(e) {
		return OutOK
	}
	if !p.Must(e) {
		return OutDenied
	}
	return ""
}
