package g11lib

import (
	"encoding/binary"
	"errors"
	"fmt"
	"io"
	"net"
	"time"
)

// A minimal MySQL protocol client that lets the harness choose every byte of the authentication response.

const (
	capLongPassword     = 0x1
	capLongFlag         = 0x4
	capConnectWithDB    = 0x8
	capProtocol41       = 0x200
	capTransactions     = 0x2000
	capSecureConnection = 0x8000
	capPluginAuth       = 0x80000
	capLenencClientData = 0x200000
)

// RawAttempt describes one handshake the harness wants to send.
type RawAttempt struct {
	User   string
	Plugin string // plugin name announced in the handshake response
	// Response computes the auth response from the 20-byte salt the server sent (initial handshake or auth switch).
	Response func(salt []byte) []byte
	// Lenenc: announce CLIENT_PLUGIN_AUTH_LENENC_CLIENT_DATA and length-encode the response (needed above 250 bytes).
	Lenenc bool
	// LieAboutLength: write this length prefix instead of the true one (0 = honest).
	LieAboutLength int
	// SwitchResponse, when set, is used instead of Response to answer an AuthSwitchRequest.
	SwitchResponse func(salt []byte) []byte
}

// RawOutcome is what the server did.
type RawOutcome struct {
	Kind     string // "ok", "err-packet", "closed", "timeout", "protocol:<what>"
	ErrCode  int
	ErrText  string
	Switched bool   // the server asked to switch the auth method
	SwitchTo string // … to this plugin
	Server   string // plugin announced in the greeting
}

func readPacket(c net.Conn) (seq byte, payload []byte, err error) {
	var hdr [4]byte
	if _, err = io.ReadFull(c, hdr[:]); err != nil {
		return 0, nil, err
	}
	n := int(hdr[0]) | int(hdr[1])<<8 | int(hdr[2])<<16
	payload = make([]byte, n)
	_, err = io.ReadFull(c, payload)
	return hdr[3], payload, err
}

func writePacket(c net.Conn, seq byte, payload []byte) error {
	hdr := []byte{byte(len(payload)), byte(len(payload) >> 8), byte(len(payload) >> 16), seq}
	_, err := c.Write(append(hdr, payload...))
	return err
}

func cstr(b []byte) (string, []byte, bool) {
	for i, x := range b {
		if x == 0 {
			return string(b[:i]), b[i+1:], true
		}
	}
	return "", nil, false
}

// parseGreeting extracts the salt and the announced plugin from a protocol-10 greeting.
func parseGreeting(p []byte) (salt []byte, plugin string, err error) {
	if len(p) < 1 || p[0] != 10 {
		if len(p) > 0 && p[0] == 0xff {
			return nil, "", fmt.Errorf("server sent an error instead of a greeting")
		}
		return nil, "", fmt.Errorf("not a protocol 10 greeting")
	}
	_, rest, ok := cstr(p[1:])
	if !ok || len(rest) < 4+8+1+2 {
		return nil, "", fmt.Errorf("short greeting")
	}
	rest = rest[4:]
	salt = append(salt, rest[:8]...)
	rest = rest[9:]
	if len(rest) < 2+1+2+2+1+10 {
		return nil, "", fmt.Errorf("short greeting (no second half)")
	}
	capLow := binary.LittleEndian.Uint16(rest[:2])
	rest = rest[2:]
	rest = rest[3:] // charset + status
	capHigh := binary.LittleEndian.Uint16(rest[:2])
	rest = rest[2:]
	caps := uint32(capLow) | uint32(capHigh)<<16
	authLen := int(rest[0])
	rest = rest[1+10:]
	if caps&capSecureConnection != 0 {
		n := authLen - 8
		if n < 13 {
			n = 13
		}
		if len(rest) < n {
			return nil, "", fmt.Errorf("short greeting (salt part 2)")
		}
		part2 := rest[:n]
		rest = rest[n:]
		for len(part2) > 0 && part2[len(part2)-1] == 0 {
			part2 = part2[:len(part2)-1]
		}
		salt = append(salt, part2...)
	}
	if caps&capPluginAuth != 0 {
		plugin, _, _ = cstr(append(rest, 0))
	}
	return salt, plugin, nil
}

func lenenc(n int) []byte {
	switch {
	case n < 251:
		return []byte{byte(n)}
	case n < 1<<16:
		return []byte{0xfc, byte(n), byte(n >> 8)}
	}
	return []byte{0xfd, byte(n), byte(n >> 8), byte(n >> 16)}
}

// RawLogin performs one handshake against addr.
func RawLogin(addr string, a RawAttempt) RawOutcome {
	out := RawOutcome{}
	c, err := net.DialTimeout("tcp", addr, 5*time.Second)
	if err != nil {
		out.Kind = "protocol:dial:" + err.Error()
		return out
	}
	defer c.Close()
	c.SetDeadline(time.Now().Add(10 * time.Second))
	classify := func(err error) string {
		var ne net.Error
		if errors.As(err, &ne) && ne.Timeout() {
			return "timeout"
		}
		return "closed"
	}
	_, greet, err := readPacket(c)
	if err != nil {
		out.Kind = classify(err)
		return out
	}
	salt, plugin, err := parseGreeting(greet)
	if err != nil {
		out.Kind = "protocol:" + err.Error()
		return out
	}
	out.Server = plugin
	caps := uint32(capLongPassword | capLongFlag | capProtocol41 | capTransactions | capSecureConnection | capPluginAuth)
	if a.Lenenc {
		caps |= capLenencClientData
	}
	resp := a.Response(salt)
	var p []byte
	p = binary.LittleEndian.AppendUint32(p, caps)
	p = binary.LittleEndian.AppendUint32(p, 1<<24-1)
	p = append(p, 45) // utf8mb4_general_ci
	p = append(p, make([]byte, 23)...)
	p = append(p, a.User...)
	p = append(p, 0)
	n := len(resp)
	if a.LieAboutLength > 0 {
		n = a.LieAboutLength
	}
	if a.Lenenc {
		p = append(p, lenenc(n)...)
	} else {
		p = append(p, byte(n))
	}
	p = append(p, resp...)
	p = append(p, a.Plugin...)
	p = append(p, 0)
	if err := writePacket(c, 1, p); err != nil {
		out.Kind = classify(err)
		return out
	}
	for round := 0; round < 4; round++ {
		seq, reply, err := readPacket(c)
		if err != nil {
			out.Kind = classify(err)
			return out
		}
		if len(reply) == 0 {
			out.Kind = "protocol:empty-packet"
			return out
		}
		switch reply[0] {
		case 0x00:
			out.Kind = "ok"
			return out
		case 0xff:
			out.Kind = "err-packet"
			if len(reply) >= 3 {
				out.ErrCode = int(binary.LittleEndian.Uint16(reply[1:3]))
			}
			if len(reply) > 9 {
				out.ErrText = string(reply[9:])
			}
			return out
		case 0xfe:
			name, data, ok := cstr(reply[1:])
			if !ok {
				out.Kind = "protocol:old-auth-switch"
				return out
			}
			out.Switched, out.SwitchTo = true, name
			for len(data) > 0 && data[len(data)-1] == 0 {
				data = data[:len(data)-1]
			}
			f := a.SwitchResponse
			if f == nil {
				f = a.Response
			}
			if err := writePacket(c, seq+1, f(data)); err != nil {
				out.Kind = classify(err)
				return out
			}
		case 0x01:
			// AuthMoreData (caching_sha2 full authentication): the harness has no TLS; give up by closing
			out.Kind = "protocol:auth-more-data"
			return out
		default:
			out.Kind = fmt.Sprintf("protocol:unexpected-first-byte-%#x", reply[0])
			return out
		}
	}
	out.Kind = "protocol:too-many-rounds"
	return out
}
