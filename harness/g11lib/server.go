package g11lib

import (
	"fmt"
	"net"
	"time"

	"github.com/dolthub/go-mysql-server/memory"
	"github.com/dolthub/go-mysql-server/server"
	"github.com/dolthub/go-mysql-server/sql"

	"verif/harness/core"
)

// StartExclusiveServer starts a MySQL-protocol server for the engine on a loopback port that nobody else can share.
//
// server.NewListener binds with SO_REUSEPORT, so two servers (of this process or of another one running at the same
// time) that were handed the same "free" port both bind it and the kernel spreads incoming connections over them: a
// login then lands on a server with other accounts. Passing our own listener (plain net.Listen on port 0: exclusive,
// chosen by the kernel) removes both the race and the sharing.
func StartExclusiveServer(e *core.Eng) (*core.Srv, error) {
	l, err := net.Listen("tcp", "127.0.0.1:0")
	if err != nil {
		return nil, err
	}
	addr := l.Addr().(*net.TCPAddr)
	cfg := server.Config{Protocol: "tcp", Address: addr.String(), Listener: l}
	s, err := server.NewServer(cfg, e.E, sql.NewContext, memory.NewSessionBuilder(e.Pro), nil)
	if err != nil {
		l.Close()
		return nil, err
	}
	go func() { _ = s.Start() }()
	srv := &core.Srv{Eng: e, S: s, Addr: addr.String(), Port: addr.Port}
	var lastErr error
	for i := 0; i < 300; i++ {
		c, err := net.DialTimeout("tcp", srv.Addr, time.Second)
		if err == nil {
			c.Close()
			return srv, nil
		}
		lastErr = err
		time.Sleep(5 * time.Millisecond)
	}
	s.Close()
	return nil, fmt.Errorf("server did not start: %v", lastErr)
}
