package g12lib

import (
	"strings"
	"unicode"
)

// FTWords is the reference full-text tokenizer, written from the rule statement (not from the parser's
// state machine): a word is a maximal run of word characters (letters, digits, '_') in which single
// apostrophes may join two runs ("don't"); apostrophes at either end are not part of the word; a word
// shorter than 3 BYTES is dropped. Several columns are tokenized as their space-joined concatenation,
// NULL columns being skipped.
func FTWords(doc string) []string {
	rs := []rune(doc)
	isWC := func(r rune) bool {
		return r == '_' || ((unicode.IsLetter(r) || unicode.IsNumber(r)) && !unicode.IsPunct(r))
	}
	var out []string
	i := 0
	for i < len(rs) {
		if !isWC(rs[i]) {
			i++
			continue
		}
		j := i
		for j < len(rs) {
			if isWC(rs[j]) {
				j++
				continue
			}
			// a single apostrophe followed by a word character continues the word
			if rs[j] == '\'' && j+1 < len(rs) && isWC(rs[j+1]) {
				j += 2
				continue
			}
			break
		}
		w := string(rs[i:j])
		if len(w) >= 3 {
			out = append(out, w)
		}
		i = j
	}
	return out
}

// FTJoin joins the indexed columns of one row into the document the tokenizer sees (nil = NULL).
func FTJoin(cols []*string) string {
	var b strings.Builder
	for i, c := range cols {
		if c == nil {
			continue
		}
		if i > 0 {
			b.WriteString(" ")
		}
		b.WriteString(*c)
	}
	return b.String()
}

// FTFold maps a word to its equality class under a collation family: "bin" exact, "ci" case-folded and
// accent-folded for the Latin letters used by the workload (the _ai_ci / general_ci behaviour).
func FTFold(word, family string) string {
	if family == "bin" {
		return word
	}
	var b strings.Builder
	for _, r := range strings.ToLower(word) {
		switch r {
		case 'é', 'è', 'ê', 'ë':
			r = 'e'
		case 'á', 'à', 'â', 'ä':
			r = 'a'
		case 'ü', 'ú', 'ù':
			r = 'u'
		case 'ö', 'ó', 'ò':
			r = 'o'
		}
		b.WriteRune(r)
	}
	return b.String()
}
