package g12lib

import (
	"bufio"
	"fmt"
	"os"
	"strconv"
	"strings"
	"time"

	"verif/harness/core"
)

// ProbeMain is a debugging aid: `<bin> probe < file.sql` runs the statements (one per line; "--"
// comments) on one session of a fresh engine prepared by setup and prints canonical results. It is
// never used by a registered command.
func ProbeMain(setup func(e *core.Eng)) {
	if t, err := strconv.Atoi(os.Getenv("PROBE_TIMEOUT")); err == nil && t > 0 {
		core.StmtTimeout = time.Duration(t) * time.Second
	}
	e := core.NewEng("d")
	defer e.Close()
	if setup != nil {
		setup(e)
	}
	s := e.NewSess()
	sc := bufio.NewScanner(os.Stdin)
	sc.Buffer(make([]byte, 1<<20), 16<<20)
	for sc.Scan() {
		q := strings.TrimSpace(sc.Text())
		if q == "" || strings.HasPrefix(q, "--") {
			continue
		}
		q = strings.TrimSuffix(q, ";")
		res := s.Exec(q)
		switch {
		case res.Panic != nil:
			fmt.Printf("%s\n  => PANIC %s\n     sig %s\n", core.Clip(q, 300), res.Panic.Value, PanicSig(res.Panic.Stack, res.Panic.Value, core.StripVolatile))
			if os.Getenv("PROBE_STACK") != "" {
				fmt.Println(res.Panic.Stack)
			}
		case res.TimedOut:
			fmt.Printf("%s\n  => TIMEOUT\n", core.Clip(q, 300))
		case res.Err != nil:
			fmt.Printf("%s\n  => ERROR[%s] %v\n", core.Clip(q, 300), res.ErrClass(), res.Err)
		default:
			if ok, is := res.Ok(); is {
				fmt.Printf("%s\n  => OK affected=%d\n", core.Clip(q, 300), ok.RowsAffected)
				continue
			}
			var ts []string
			for _, c := range res.Schema {
				ts = append(ts, c.Name+":"+c.Type.String())
			}
			fmt.Printf("%s\n  => [%s] %d rows: %s\n", core.Clip(q, 300), strings.Join(ts, ", "), len(res.Rows), core.Clip(strings.Join(core.SortedRows(res.Rows), " ; "), 600))
		}
	}
}
