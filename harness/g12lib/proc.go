package g12lib

import (
	"bufio"
	"bytes"
	"encoding/json"
	"fmt"
	"os"
	"os/exec"
	"path/filepath"
	"strconv"
	"strings"
	"sync"
	"sync/atomic"
	"time"
)

// ---- supervisor side ----

// Chunk is a contiguous range of cases of one generator handed to one child process.
type Chunk struct {
	Gen      string
	Lo, Hi   int
	Solo     bool // run alone (hang confirmation / pinned hang witness)
	Watchdog int  // seconds; 0 = pool default
}

// JournalEntry is what a child wrote before executing a statement.
type JournalEntry struct {
	Case, Stmt int
	SQL        string
	Valid      bool
}

// Death describes a child that ended without finishing its chunk and without a deliberate stop code.
type Death struct {
	Gen      string
	At       JournalEntry
	Kind     string // panic | fatal | signal | exit | stalled
	Msg      string // first line of the panic / fatal error
	Site     string // first frame inside the repository module ("outside-repo" if none)
	Stderr   string // trimmed
	ExitCode int
}

// Sig is the narrow signature of a process death.
func (d *Death) Sig(strip func(string) string) string {
	return NoSpace("death:" + d.Site + ":" + strip(d.Kind+": "+d.Msg))
}

// Exit codes a child uses to stop deliberately.
const (
	ExitWatchdog = 3
	ExitMemory   = 4
)

// Pool runs chunks in child processes (re-exec of the same binary).
type Pool struct {
	Exe      string
	Env      []string // extra environment (KEY=VALUE) for every child
	Dir      string   // scratch directory for result / journal / stderr files
	Workers  int
	Watchdog int // default per-statement watchdog in seconds
	// OnLine is called (concurrently) for every result line a child wrote.
	OnLine func(c Chunk, line []byte)
	// OnStop is called when a child stopped deliberately (watchdog / memory) at the journaled statement.
	OnStop func(c Chunk, code int, at JournalEntry)
	// OnDeath is called when a child died.
	OnDeath func(c Chunk, d Death)
	// Progress, when set, is called after every child with its chunk, exit code and wall time.
	Progress func(c Chunk, code int, wall time.Duration, at JournalEntry)
	seq      int64
}

// Run executes all chunks, restarting a chunk after the case that stopped or killed its child.
func (p *Pool) Run(chunks []Chunk) {
	var mu sync.Mutex
	queue := append([]Chunk{}, chunks...)
	pending := len(queue)
	cond := sync.NewCond(&mu)
	var wg sync.WaitGroup
	w := p.Workers
	if w < 1 {
		w = 1
	}
	for k := 0; k < w; k++ {
		wg.Add(1)
		go func() {
			defer wg.Done()
			for {
				mu.Lock()
				for len(queue) == 0 && pending > 0 {
					cond.Wait()
				}
				if pending == 0 {
					mu.Unlock()
					cond.Broadcast()
					return
				}
				c := queue[0]
				queue = queue[1:]
				mu.Unlock()
				rest := p.runOne(c)
				mu.Lock()
				if rest != nil && rest.Lo < rest.Hi {
					queue = append(queue, *rest)
				} else {
					pending--
				}
				mu.Unlock()
				cond.Broadcast()
			}
		}()
	}
	wg.Wait()
}

// RunSolo runs one chunk alone and reports how the child ended: exit code (0 finished) and journal.
func (p *Pool) RunSolo(c Chunk) {
	c.Solo = true
	for c.Lo < c.Hi {
		rest := p.runOne(c)
		if rest == nil {
			return
		}
		c = *rest
	}
}

func (p *Pool) runOne(c Chunk) *Chunk {
	id := atomic.AddInt64(&p.seq, 1)
	base := filepath.Join(p.Dir, fmt.Sprintf("w%05d", id))
	outPath, jPath, errPath := base+".out", base+".journal", base+".stderr"
	defer func() { os.Remove(outPath); os.Remove(jPath); os.Remove(errPath) }()
	wd := c.Watchdog
	if wd == 0 {
		wd = p.Watchdog
	}
	cmd := exec.Command(p.Exe)
	cmd.Env = append(os.Environ(), p.Env...)
	cmd.Env = append(cmd.Env,
		"G12_WORKER=1", "G12_GEN="+c.Gen, "G12_LO="+strconv.Itoa(c.Lo), "G12_HI="+strconv.Itoa(c.Hi),
		"G12_OUT="+outPath, "G12_JOURNAL="+jPath, "G12_WATCHDOG="+strconv.Itoa(wd), "G12_SOLO="+fmt.Sprint(c.Solo),
		"GOTRACEBACK=all")
	ef, _ := os.Create(errPath)
	cmd.Stderr = ef
	cmd.Stdout = ef
	stalled := false
	if err := cmd.Start(); err != nil {
		ef.Close()
		p.OnDeath(c, Death{Gen: c.Gen, Kind: "exit", Msg: "cannot start worker: " + err.Error(), Site: "outside-repo"})
		return nil
	}
	done := make(chan struct{})
	go func() {
		// stall guard: the child's own watchdog normally ends it; if the journal does not move for far
		// longer than two watchdog periods the child is killed and reported as stalled.
		limit := time.Duration(2*wd+120) * time.Second
		last := time.Now()
		var lastMod time.Time
		t := time.NewTicker(5 * time.Second)
		defer t.Stop()
		for {
			select {
			case <-done:
				return
			case <-t.C:
				if st, err := os.Stat(jPath); err == nil && !st.ModTime().Equal(lastMod) {
					lastMod = st.ModTime()
					last = time.Now()
				}
				if time.Since(last) > limit {
					stalled = true
					cmd.Process.Kill()
					return
				}
			}
		}
	}()
	t0 := time.Now()
	err := cmd.Wait()
	close(done)
	ef.Close()
	code := 0
	if err != nil {
		code = -1
		if ee, ok := err.(*exec.ExitError); ok {
			code = ee.ExitCode()
		}
	}
	finished := false
	lastCase := c.Lo - 1
	if f, err := os.Open(outPath); err == nil {
		sc := bufio.NewScanner(f)
		sc.Buffer(make([]byte, 1<<20), 64<<20)
		for sc.Scan() {
			line := sc.Bytes()
			if len(line) == 0 {
				continue
			}
			var hd struct {
				I    *int `json:"i"`
				Done bool `json:"done"`
			}
			if json.Unmarshal(line, &hd) != nil {
				continue // torn last line of a dead child
			}
			if hd.Done {
				finished = true
				continue
			}
			if hd.I != nil && *hd.I > lastCase {
				lastCase = *hd.I
			}
			p.OnLine(c, append([]byte{}, line...))
		}
		f.Close()
	}
	if code == 0 && finished {
		if p.Progress != nil {
			p.Progress(c, 0, time.Since(t0), JournalEntry{})
		}
		return nil
	}
	at := readJournal(jPath)
	if p.Progress != nil {
		p.Progress(c, code, time.Since(t0), at)
	}
	if code == ExitWatchdog || code == ExitMemory {
		p.OnStop(c, code, at)
	} else {
		d := parseDeath(errPath)
		d.Gen, d.At, d.ExitCode = c.Gen, at, code
		if stalled {
			d.Kind, d.Msg = "stalled", "worker made no progress and was killed"
		}
		p.OnDeath(c, d)
	}
	next := lastCase + 1
	if at.Valid && at.Case >= next {
		next = at.Case + 1
	}
	if !at.Valid {
		return nil // died outside any case (start-up): do not loop
	}
	return &Chunk{Gen: c.Gen, Lo: next, Hi: c.Hi, Solo: c.Solo, Watchdog: c.Watchdog}
}

func readJournal(path string) JournalEntry {
	b, err := os.ReadFile(path)
	if err != nil || len(b) == 0 {
		return JournalEntry{}
	}
	parts := bytes.SplitN(b, []byte("\t"), 4)
	if len(parts) < 4 {
		return JournalEntry{}
	}
	ci, e1 := strconv.Atoi(string(parts[0]))
	si, e2 := strconv.Atoi(string(parts[1]))
	ln, e3 := strconv.Atoi(string(parts[2]))
	if e1 != nil || e2 != nil || e3 != nil || ln > len(parts[3]) {
		return JournalEntry{}
	}
	return JournalEntry{Case: ci, Stmt: si, SQL: string(parts[3][:ln]), Valid: true}
}

const repoPrefix = "github.com/dolthub/go-mysql-server"

func parseDeath(errPath string) Death {
	d := Death{Kind: "exit", Site: "outside-repo"}
	b, _ := os.ReadFile(errPath)
	text := string(b)
	lines := strings.Split(text, "\n")
	start := -1
	for i, l := range lines {
		if strings.HasPrefix(l, "panic: ") {
			d.Kind, d.Msg, start = "panic", strings.TrimPrefix(l, "panic: "), i
			break
		}
		if strings.HasPrefix(l, "fatal error: ") {
			d.Kind, d.Msg, start = "fatal", strings.TrimPrefix(l, "fatal error: "), i
			break
		}
		if strings.HasPrefix(l, "SIGSEGV") || strings.HasPrefix(l, "signal ") {
			d.Kind, d.Msg, start = "signal", l, i
			break
		}
	}
	if start >= 0 {
		// first goroutine block after the message: first frame inside the repository module
		inG := false
		for _, l := range lines[start+1:] {
			if strings.HasPrefix(l, "goroutine ") {
				if inG {
					break
				}
				inG = true
				continue
			}
			if inG && strings.HasPrefix(l, repoPrefix) {
				fn := l
				if k := strings.LastIndex(fn, "("); k > 0 {
					fn = fn[:k]
				}
				d.Site = strings.TrimPrefix(strings.TrimPrefix(fn, repoPrefix), "/")
				break
			}
		}
	} else {
		d.Msg = "worker exited without a panic message"
	}
	if len(text) > 6000 {
		text = text[:6000]
	}
	d.Stderr = text
	return d
}

// ---- child side ----

// Child is the worker end: it knows its chunk, journals statements and writes result lines.
type Child struct {
	Gen      string
	Lo, Hi   int
	Solo     bool
	Watchdog time.Duration
	mu       sync.Mutex
	out      *os.File
	jf       *os.File
}

// ChildFromEnv returns the worker description when this process was started by a Pool, else nil.
func ChildFromEnv() *Child {
	if os.Getenv("G12_WORKER") != "1" {
		return nil
	}
	c := &Child{Gen: os.Getenv("G12_GEN"), Solo: os.Getenv("G12_SOLO") == "true"}
	c.Lo, _ = strconv.Atoi(os.Getenv("G12_LO"))
	c.Hi, _ = strconv.Atoi(os.Getenv("G12_HI"))
	wd, _ := strconv.Atoi(os.Getenv("G12_WATCHDOG"))
	if wd <= 0 {
		wd = 60
	}
	c.Watchdog = time.Duration(wd) * time.Second
	c.out, _ = os.OpenFile(os.Getenv("G12_OUT"), os.O_CREATE|os.O_WRONLY|os.O_APPEND, 0o644)
	c.jf, _ = os.OpenFile(os.Getenv("G12_JOURNAL"), os.O_CREATE|os.O_WRONLY, 0o644)
	return c
}

// Journal records the statement about to be executed (case i, statement k of the case).
func (c *Child) Journal(i, k int, stmt string) {
	if c.jf == nil {
		return
	}
	b := []byte(fmt.Sprintf("%d\t%d\t%d\t%s", i, k, len(stmt), stmt))
	c.jf.WriteAt(b, 0)
}

// Emit appends one JSON result line (one write, so a later death cannot tear earlier lines).
func (c *Child) Emit(v any) {
	b, err := json.Marshal(v)
	if err != nil {
		b, _ = json.Marshal(map[string]any{"emit_error": err.Error()})
	}
	b = append(b, '\n')
	c.mu.Lock()
	c.out.Write(b)
	c.mu.Unlock()
}

// Done marks the chunk as finished.
func (c *Child) Done() { c.Emit(map[string]any{"done": true}) }

// MemoryGuard ends the process with ExitMemory when its resident set exceeds limit bytes; before
// exiting it calls note (which should Emit what was running).
func (c *Child) MemoryGuard(limit int64, note func(rss int64)) {
	go func() {
		for {
			time.Sleep(50 * time.Millisecond)
			b, err := os.ReadFile("/proc/self/statm")
			if err != nil {
				return
			}
			f := strings.Fields(string(b))
			if len(f) < 2 {
				return
			}
			pages, _ := strconv.ParseInt(f[1], 10, 64)
			rss := pages * int64(os.Getpagesize())
			if rss > limit {
				note(rss)
				os.Exit(ExitMemory)
			}
		}
	}()
}
