// Package g12lib holds helpers shared by the monitors of C10, C50 and C51: SQL text helpers (literal
// quoting, a token splitter for token-level mutation), a child-process pool with per-statement
// journaling (so that a fatal error in an engine-spawned goroutine kills only a worker and is
// attributed to the journaled statement), and a debugging probe.
package g12lib

import (
	"fmt"
	"regexp"
	"strings"
)

// Q renders s as a single-quoted SQL string literal (quotes doubled, backslashes doubled).
func Q(s string) string {
	var b strings.Builder
	b.WriteByte('\'')
	for i := 0; i < len(s); i++ {
		switch c := s[i]; c {
		case '\'':
			b.WriteString("''")
		case '\\':
			b.WriteString("\\\\")
		case 0:
			b.WriteString("\\0")
		case '\n':
			b.WriteString("\\n")
		case '\r':
			b.WriteString("\\r")
		case 26:
			b.WriteString("\\Z")
		default:
			b.WriteByte(c)
		}
	}
	b.WriteByte('\'')
	return b.String()
}

// X renders bytes as a hexadecimal literal X'..'.
func X(b []byte) string { return fmt.Sprintf("X'%X'", b) }

// Tokens splits a statement into lexical tokens good enough for token-level mutation: quoted strings
// and quoted identifiers stay whole, numbers and words stay whole, every other non-space byte is its
// own token (two-character operators are kept together). Re-joining with single spaces gives back a
// statement with the same meaning for the corpus statements used here.
func Tokens(s string) []string {
	var out []string
	i := 0
	n := len(s)
	isWord := func(c byte) bool {
		return c == '_' || c == '$' || c == '@' || c == '.' || (c >= '0' && c <= '9') || (c >= 'a' && c <= 'z') || (c >= 'A' && c <= 'Z') || c >= 0x80
	}
	for i < n {
		c := s[i]
		switch {
		case c == ' ' || c == '\t' || c == '\n' || c == '\r':
			i++
		case c == '\'' || c == '"' || c == '`':
			j := i + 1
			for j < n {
				if s[j] == '\\' && c != '`' && j+1 < n {
					j += 2
					continue
				}
				if s[j] == c {
					if j+1 < n && s[j+1] == c {
						j += 2
						continue
					}
					break
				}
				j++
			}
			if j < n {
				j++
			}
			out = append(out, s[i:j])
			i = j
		case isWord(c):
			j := i
			for j < n && isWord(s[j]) {
				j++
			}
			out = append(out, s[i:j])
			i = j
		default:
			if i+1 < n {
				two := s[i : i+2]
				switch two {
				case "<=", ">=", "<>", "!=", ":=", "||", "&&", "<<", ">>", "->":
					out = append(out, two)
					i += 2
					continue
				}
			}
			out = append(out, s[i:i+1])
			i++
		}
	}
	return out
}

// Join re-assembles tokens into a statement.
func Join(toks []string) string { return strings.Join(toks, " ") }

// FirstWord returns the upper-cased first keyword of a statement (after opening parentheses).
func FirstWord(s string) string {
	s = strings.TrimLeft(s, " \t\r\n(")
	j := 0
	for j < len(s) && ((s[j] >= 'a' && s[j] <= 'z') || (s[j] >= 'A' && s[j] <= 'Z') || s[j] == '_') {
		j++
	}
	return strings.ToUpper(s[:j])
}

// DeepPanicSite returns the first frame inside the repository module below the LAST "panic(" line of a
// recovered stack, i.e. the frame that raised the panic originally. Deferred functions that recover and
// re-panic (planbuilder.(*Builder).Parse.func1, analyzer.replanJoin.func1, …) otherwise hide the site.
func DeepPanicSite(stack string) string {
	lines := strings.Split(stack, "\n")
	last := -1
	for i, l := range lines {
		if strings.HasPrefix(l, "panic(") {
			last = i
		}
	}
	if last < 0 {
		return "outside-repo"
	}
	const pre = "github.com/dolthub/go-mysql-server"
	for _, l := range lines[last+1:] {
		if strings.HasPrefix(l, pre) {
			fn := l
			if k := strings.LastIndex(fn, "("); k > 0 {
				fn = fn[:k]
			}
			return strings.TrimPrefix(strings.TrimPrefix(fn, pre), "/")
		}
	}
	return "outside-repo"
}

var reIfaceConv = regexp.MustCompile(`interface \{\} is [^,]+, not `)
var reIfaceConv3 = regexp.MustCompile(`interface conversion: \S+ is not (\S+): missing method \S+`)
var reIfaceConv2 = regexp.MustCompile(`interface conversion: [^ ]+ is [^,]+, not `)

// PanicSig is panic:<frame that raised the panic>:<message with numbers, quoted text and the dynamic
// type of a failed type assertion stripped>. strip is core.StripVolatile.
func PanicSig(stack, value string, strip func(string) string) string {
	msg := reIfaceConv.ReplaceAllString(value, "interface {} is _, not ")
	msg = reIfaceConv2.ReplaceAllString(msg, "interface conversion: _ is _, not ")
	msg = reIfaceConv3.ReplaceAllString(msg, "interface conversion: _ is not $1: missing method _")
	return NoSpace("panic:" + DeepPanicSite(stack) + ":" + strip(msg))
}

// NoSpace makes a signature a single token (the findings files are parsed field by field).
func NoSpace(s string) string { return strings.ReplaceAll(s, " ", "_") }
